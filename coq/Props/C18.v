(** C18 -- InterpolatableFunction honours its evaluation contract for every call history.

    Theorems about the executable state machine [WG.Model.InterpFun] (tied to the running
    class by the op-sequence differential of tools/props/C18.py, and to a few structural
    facts of the source by [GenC18.InterpFacts]).  All theorems hold for EVERY finiteness
    predicate [fin] of the user's function, every configuration (return dimension, threshold,
    initial point count, adaptive flag) and every operation sequence.

    External (not proved, validated on the real class on every run): scipy's CubicSpline
    (represented by provenance tags; its constructor precondition is modelled) and the user's
    function (only the finiteness of its rows matters to the class). *)
From Coq Require Import List Bool Arith ZArith QArith Qabs Qround Lia Lqa.
From WG Require Import Model.InterpFun.
From GenC18 Require Import InterpFacts.
Import ListNotations.
Local Open Scope Q_scope.

(* ------------------------------------------------------------------------------------ *)
(** * Lists of rationals *)

Lemma Qle_bool_false a b : Qle_bool a b = false <-> b < a.
Proof.
  split; intro H.
  - apply Qnot_le_lt. intro Hle. apply Qle_bool_iff in Hle. congruence.
  - destruct (Qle_bool a b) eqn:E; [|reflexivity]. apply Qle_bool_iff in E. lra.
Qed.

Lemma Qlt_bool_false a b : Qlt_bool a b = false <-> b <= a.
Proof.
  unfold Qlt_bool. rewrite negb_false_iff. apply Qle_bool_iff.
Qed.

Lemma incrb_incr l : incrb l = true -> incr l.
Proof.
  induction l as [|x r IH]; cbn [incrb incr]; [auto|].
  intro H. apply andb_true_iff in H. destruct H as [H1 H2]. split; [|auto].
  destruct r; [exact I|]. apply Qlt_bool_iff; exact H1.
Qed.

Lemma incr_incrb l : incr l -> incrb l = true.
Proof.
  induction l as [|x r IH]; cbn [incrb incr]; [auto|].
  intros [H1 H2]. apply andb_true_iff. split; [|auto].
  destruct r; [reflexivity|]. apply Qlt_bool_iff; exact H1.
Qed.

(** every element of the tail is above the head *)
Lemma incr_head_lt x r : incr (x :: r) -> forall y, In y r -> x < y.
Proof.
  revert x. induction r as [|z r IH]; intros x H y Hy; [destruct Hy|].
  cbn [incr] in H. destruct H as [Hxz Hr]. destruct Hy as [<-|Hy]; [exact Hxz|].
  specialize (IH z Hr y Hy). lra.
Qed.

Lemma incr_tail x r : incr (x :: r) -> incr r.
Proof. cbn [incr]. tauto. Qed.

Lemma incr_cons x r : incr r -> (forall y, In y r -> x < y) -> incr (x :: r).
Proof.
  intros Hr Hx. cbn [incr]. split; [|exact Hr]. destruct r; [exact I|]. apply Hx. left; reflexivity.
Qed.

Lemma incr_app l1 l2 : incr l1 -> incr l2 -> (forall x y, In x l1 -> In y l2 -> x < y) ->
  incr (l1 ++ l2).
Proof.
  induction l1 as [|x r IH]; intros H1 H2 Hc; [exact H2|].
  cbn [app]. apply incr_cons.
  - apply IH; [eapply incr_tail; eauto|exact H2|]. intros u v Hu Hv. apply Hc; [right; exact Hu|exact Hv].
  - intros y Hy. apply in_app_or in Hy. destruct Hy as [Hy|Hy].
    + eapply incr_head_lt; eauto.
    + apply Hc; [left; reflexivity|exact Hy].
Qed.

Lemma incr_filter (f : Q -> bool) l : incr l -> incr (filter f l).
Proof.
  induction l as [|x r IH]; intro H; [exact I|].
  cbn [filter]. destruct (f x).
  - apply incr_cons; [apply IH; eapply incr_tail; eauto|].
    intros y Hy. apply filter_In in Hy. eapply incr_head_lt; [exact H|tauto].
  - apply IH. eapply incr_tail; eauto.
Qed.

Lemma incr_last_gt l x d : incr l -> In x l -> x <= last l d.
Proof.
  revert x. induction l as [|y r IH]; intros x H Hx; [destruct Hx|].
  destruct r as [|z r'].
  - destruct Hx as [<-|[]]. cbn. lra.
  - change (last (y :: z :: r') d) with (last (z :: r') d).
    destruct Hx as [<-|Hx].
    + assert (y < z) by (eapply incr_head_lt; [exact H|left; reflexivity]).
      assert (z <= last (z :: r') d) by (apply IH; [eapply incr_tail; eauto|left; reflexivity]). lra.
    + apply IH; [eapply incr_tail; eauto|exact Hx].
Qed.

Lemma incr_hd_le l x d : incr l -> In x l -> hd d l <= x.
Proof.
  destruct l as [|y r]; intros H Hx; [destruct Hx|].
  cbn [hd]. destruct Hx as [<-|Hx]; [lra|]. apply Qlt_le_weak. eapply incr_head_lt; eauto.
Qed.

Lemma incr_hd_lt_last l d : incr l -> (2 <= length l)%nat -> hd d l < last l d.
Proof.
  destruct l as [|x [|y r]]; cbn [length]; intros H Hl; try lia.
  cbn [hd]. assert (x < y) by (eapply incr_head_lt; [exact H|left; reflexivity]).
  assert (y <= last (x :: y :: r) d).
  { apply incr_last_gt; [exact H|right; left; reflexivity]. }
  lra.
Qed.

(** np.min / np.max of a strictly increasing array are its ends *)
Lemma fold_min_le l : forall a, (forall y, In y l -> a < y) ->
  fold_left (fun a b => if Qlt_bool b a then b else a) l a = a.
Proof.
  induction l as [|x r IH]; intros a H; [reflexivity|].
  cbn [fold_left]. assert (Hx : a < x) by (apply H; left; reflexivity).
  replace (Qlt_bool x a) with false by (symmetry; apply Qlt_bool_false; lra).
  apply IH. intros y Hy. apply H. right; exact Hy.
Qed.

Lemma qmin_incr l : incr l -> qmin l = hd 0 l.
Proof.
  destruct l as [|x r]; intro H; [reflexivity|].
  cbn [qmin hd]. apply fold_min_le. apply incr_head_lt. exact H.
Qed.

Lemma fold_max_last l : forall a, incr (a :: l) ->
  fold_left (fun a b => if Qlt_bool a b then b else a) l a = last (a :: l) 0.
Proof.
  induction l as [|x r IH]; intros a H; [reflexivity|].
  cbn [fold_left]. assert (Hx : a < x) by (eapply incr_head_lt; [exact H|left; reflexivity]).
  replace (Qlt_bool a x) with true by (symmetry; apply Qlt_bool_iff; exact Hx).
  rewrite IH by (eapply incr_tail; eauto). reflexivity.
Qed.

Lemma qmax_incr l : incr l -> qmax l = last l 0.
Proof.
  destruct l as [|x r]; intro H; [reflexivity|].
  cbn [qmax]. apply fold_max_last. exact H.
Qed.

(** equally spaced points *)
Lemma incr_map_seq (f : nat -> Q) : (forall i, f i < f (S i)) ->
  forall n a, incr (map f (seq a n)).
Proof.
  intros Hf n. induction n as [|n IH]; intro a; [exact I|].
  cbn [seq map]. split; [|apply IH]. destruct n; [exact I|]. cbn [seq map]. apply Hf.
Qed.

Lemma qZ_S i : qZ (S i) == qZ i + 1.
Proof. unfold qZ. rewrite Nat2Z.inj_succ. unfold Z.succ. rewrite inject_Z_plus. reflexivity. Qed.

Lemma qZ_lt i j : (i < j)%nat -> qZ i < qZ j.
Proof. intro H. unfold qZ. rewrite <- Zlt_Qlt. lia. Qed.

Lemma qZ_pos i : (0 < i)%nat -> 0 < qZ i.
Proof. intro H. change 0 with (qZ 0). apply qZ_lt. exact H. Qed.

Lemma grid_step a d i : 0 < d -> Qred (a + qZ i * d) < Qred (a + qZ (S i) * d).
Proof. intro Hd. rewrite !Qred_correct, qZ_S. nra. Qed.

Lemma div_pos a b n : a < b -> (0 < n)%nat -> 0 < (b - a) / qZ n.
Proof.
  intros H Hn. apply Qlt_shift_div_l; [apply qZ_pos; exact Hn|]. lra.
Qed.

Lemma grid_below a b n i : a < b -> (i < n)%nat -> Qred (a + qZ i * ((b - a) / qZ n)) < b.
Proof.
  intros H Hi. rewrite Qred_correct.
  assert (Hn : 0 < qZ n) by (apply qZ_pos; lia).
  assert (Hq : qZ i < qZ n) by (apply qZ_lt; exact Hi).
  assert (Hd : 0 < (b - a) / qZ n) by (apply div_pos; [exact H|lia]).
  assert (E : qZ n * ((b - a) / qZ n) == b - a) by (field; lra).
  nra.
Qed.

Lemma grid_above a b n i : a < b -> (0 < n)%nat -> (0 < i)%nat ->
  a < Qred (a + qZ i * ((b - a) / qZ n)).
Proof.
  intros H Hn Hi. rewrite Qred_correct.
  assert (Hd : 0 < (b - a) / qZ n) by (apply div_pos; assumption).
  assert (Hq : 0 < qZ i) by (apply qZ_pos; exact Hi). nra.
Qed.

Lemma linspace_open_incr a b n : a < b -> incr (linspace_open a b n).
Proof.
  intro H. unfold linspace_open. destruct n; [exact I|].
  apply incr_map_seq. intro i. apply grid_step. apply div_pos; [exact H|lia].
Qed.

Lemma linspace_open_below a b n x : a < b -> In x (linspace_open a b n) -> x < b.
Proof.
  intros H Hx. unfold linspace_open in Hx. apply in_map_iff in Hx. destruct Hx as [i [<- Hi]].
  apply in_seq in Hi. apply grid_below; [exact H|lia].
Qed.

Lemma linspace_incr a b n : a < b -> incr (linspace a b n).
Proof.
  intro H. unfold linspace. destruct n as [|[|m]]; [exact I|cbn; auto|].
  apply incr_map_seq. intro i. apply grid_step. apply div_pos; [exact H|lia].
Qed.

Lemma linspace_tail_incr a b n : a < b -> (0 < n)%nat -> incr (tl (linspace a b (S n))).
Proof.
  intros H Hn. pose proof (linspace_incr a b (S n) H) as Hi.
  destruct (linspace a b (S n)); [exact I|]. cbn [tl]. eapply incr_tail; eauto.
Qed.

Lemma linspace_tail_above a b n x : a < b -> (0 < n)%nat -> In x (tl (linspace a b (S n))) -> a < x.
Proof.
  intros H Hn Hx. destruct n as [|m]; [lia|].
  change (linspace a b (S (S m))) with
    (map (fun i => Qred (a + qZ i * ((b - a) / qZ (S m)))) (0%nat :: seq 1 (S m))) in Hx.
  cbn [map tl] in Hx. apply in_map_iff in Hx. destruct Hx as [i [<- Hi]].
  apply in_seq in Hi. apply grid_above; [exact H|lia|lia].
Qed.

Lemma filter_all {A} (f : A -> bool) l : (forall x, In x l -> f x = true) -> filter f l = l.
Proof.
  induction l as [|x r IH]; intro H; [reflexivity|].
  cbn [filter]. rewrite (H x (or_introl eq_refl)). f_equal. apply IH. intros y Hy. apply H. right; exact Hy.
Qed.

(* ------------------------------------------------------------------------------------ *)
(** * The invariant *)
Section Props.
Variable fin : Q -> bool.

(** what holds of the table whenever one exists *)
Definition TInv (s : st) : Prop :=
  hasT s = true ->
  incr (tab s) /\ (2 <= length (tab s))%nat /\
  rmin s = hd 0 (tab s) /\ rmax s = last (tab s) 0 /\
  extrap s = (is_fun (mlo s) || is_fun (mhi s)) /\
  (forall x, In x (tab s) -> fin x = true) /\
  vals s = tab s.      (* stored value i was computed at stored abscissa i *)
(** adaptive bookkeeping *)
Definition CInv (s : st) : Prop :=
  cnt s = length (pend s) /\ ((0 < cfg_thr s)%nat -> (cnt s < cfg_thr s)%nat).
Definition Inv (s : st) : Prop := TInv s /\ CInv s.

Definition cfg (s : st) := (cfg_k s, cfg_thr s, cfg_n0 s).
(** [s'] is a legal successor of [s] *)
Definition Good (s s' : st) : Prop := Inv s' /\ cfg s' = cfg s.

Lemma Good_refl s : Inv s -> Good s s.
Proof. intro H. split; [exact H|reflexivity]. Qed.
Lemma Good_trans s1 s2 s3 : Good s1 s2 -> Good s2 s3 -> Good s1 s3.
Proof. intros [_ E1] [H2 E2]. split; [exact H2|congruence]. Qed.

Lemma init_inv k thr n0 a : Inv (init k thr n0 a).
Proof.
  split.
  - intro H. discriminate H.
  - split; [reflexivity|]. intro Ht. exact Ht.
Qed.

Lemma TInv_set_adapt s a c p : TInv s -> TInv (set_adapt s a c p).
Proof. intros H. exact H. Qed.

Lemma Inv_reset s a : TInv s -> Inv (set_adapt s a 0 []).
Proof. intro H. split; [exact H|]. split; [reflexivity|]. intro Ht. exact Ht. Qed.

Lemma TInv_set_table s xf : incr xf -> (2 <= length xf)%nat -> (forall x, In x xf -> fin x = true) ->
  TInv (set_table s xf xf (qmin xf) (qmax xf) (is_fun (mlo s) || is_fun (mhi s))).
Proof.
  intros Hi Hl Hf _. cbn. repeat split; auto using qmin_incr, qmax_incr.
Qed.

Lemma select_filter {A} (f : A -> bool) l : select (map f l) l = filter f l.
Proof. induction l as [|x r IH]; [reflexivity|]. cbn [map select filter]. destruct (f x); rewrite IH; reflexivity. Qed.

(** [_interpolate(x, fx)]: rows are kept by the finiteness of fx, abscissa and value at the
    same index stay together; then either a valid knot sequence becomes the table or
    ValueError and nothing changes *)
Lemma interpolate2_cases s xs ys :
  let xf := select (map fin ys) xs in
  let yf := select (map fin ys) ys in
  (incr xf /\ (2 <= length xf)%nat /\
   interpolate2 fin s xs ys =
   (set_table s xf yf (qmin xf) (qmax xf) (is_fun (mlo s) || is_fun (mhi s)), Ok tt))
  \/ (~ (incr xf /\ (2 <= length xf)%nat) /\ interpolate2 fin s xs ys = (s, Err EValue)).
Proof.
  intros xf yf. unfold interpolate2. fold xf. fold yf.
  destruct ((2 <=? length xf)%nat) eqn:E1; cbn [andb].
  - destruct (incrb xf) eqn:E2.
    + left. apply Nat.leb_le in E1. auto using incrb_incr.
    + right. split; [|reflexivity]. intros [Hi _]. apply incr_incrb in Hi. congruence.
  - right. split; [|reflexivity]. intros [_ Hl]. apply Nat.leb_gt in E1. lia.
Qed.

(** [interpolate]: either the filtered points are a valid knot sequence and become the table
    (each non-finite row dropped individually, every finite one kept), or ValueError and
    nothing changes *)
Lemma interpolate_cases s xs :
  let xf := filter fin xs in
  (incr xf /\ (2 <= length xf)%nat /\
   interpolate fin s xs = (set_table s xf xf (qmin xf) (qmax xf) (is_fun (mlo s) || is_fun (mhi s)), Ok tt))
  \/ (~ (incr xf /\ (2 <= length xf)%nat) /\ interpolate fin s xs = (s, Err EValue)).
Proof.
  intro xf. unfold interpolate. pose proof (interpolate2_cases s xs xs) as H. cbn zeta in H.
  rewrite select_filter in H. exact H.
Qed.

Lemma interpolate_good s xs : Inv s -> Good s (fst (interpolate fin s xs)).
Proof.
  intros [HT HC]. destruct (interpolate_cases s xs) as [[Hi [Hl E]]|[_ E]]; rewrite E; cbn [fst].
  - split; [split|reflexivity]; [|exact HC].
    apply TInv_set_table; auto. intros x Hx. apply filter_In in Hx. tauto.
  - apply Good_refl. split; assumption.
Qed.

(** re-interpolating the stored table always succeeds and changes only the extrapolate flag *)
Lemma interpolate_tab s : TInv s -> hasT s = true ->
  interpolate2 fin s (tab s) (vals s) =
  (set_table s (tab s) (tab s) (rmin s) (rmax s) (is_fun (mlo s) || is_fun (mhi s)), Ok tt).
Proof.
  intros HT Hh. destruct (HT Hh) as [Hi [Hl [Hmin [Hmax [_ [Hf Hv]]]]]]. rewrite Hv.
  change (interpolate2 fin s (tab s) (tab s)) with (interpolate fin s (tab s)).
  destruct (interpolate_cases s (tab s)) as [[_ [_ E]]|[N _]].
  - rewrite E. rewrite (filter_all fin (tab s) Hf). rewrite (qmin_incr _ Hi), (qmax_incr _ Hi).
    rewrite <- Hmin, <- Hmax. reflexivity.
  - exfalso. apply N. rewrite (filter_all fin (tab s) Hf). auto.
Qed.

Lemma newTable_good s a b n : Inv s -> Good s (fst (newTable fin s a b n)).
Proof. apply interpolate_good. Qed.

(** the abscissae handed to the spline by an extension are strictly increasing BY
    CONSTRUCTION (exact-arithmetic np.linspace), so an extension of an existing table never
    fails and never reorders *)
Lemma extend_points_incr s newMin newMax pLo pHi : TInv s -> hasT s = true ->
  let lo := if Qlt_bool newMin (rmin s) && (0 <? pLo)%nat then linspace_open newMin (rmin s) pLo else [] in
  let hi := if Qlt_bool (rmax s) newMax && (0 <? pHi)%nat then tl (linspace (rmax s) newMax (S pHi)) else [] in
  incr (lo ++ tab s ++ hi) /\ (forall x, In x lo -> x < rmin s) /\ (forall x, In x hi -> rmax s < x).
Proof.
  intros HT Hh lo hi. destruct (HT Hh) as [Hi [Hl [Hmin [Hmax _]]]].
  assert (Hlo : incr lo /\ forall x, In x lo -> x < rmin s).
  { unfold lo. destruct (Qlt_bool newMin (rmin s)) eqn:E; cbn [andb]; [|split; [exact I|intros x []]].
    destruct (0 <? pLo)%nat; [|split; [exact I|intros x []]].
    apply Qlt_bool_iff in E. split; [apply linspace_open_incr; exact E|].
    intros x Hx. eapply linspace_open_below; eauto. }
  assert (Hhi : incr hi /\ forall x, In x hi -> rmax s < x).
  { unfold hi. destruct (Qlt_bool (rmax s) newMax) eqn:E; cbn [andb]; [|split; [exact I|intros x []]].
    destruct (0 <? pHi)%nat eqn:E2; [|split; [exact I|intros x []]].
    apply Qlt_bool_iff in E. apply Nat.ltb_lt in E2. split; [apply linspace_tail_incr; assumption|].
    intros x Hx. eapply linspace_tail_above; eauto. }
  destruct Hlo as [Hlo1 Hlo2]. destruct Hhi as [Hhi1 Hhi2]. split; [|split; assumption].
  apply incr_app; [exact Hlo1| |].
  - apply incr_app; [exact Hi|exact Hhi1|]. intros x y Hx Hy.
    assert (x <= rmax s) by (rewrite Hmax; apply incr_last_gt; assumption).
    specialize (Hhi2 y Hy). lra.
  - intros x y Hx Hy. specialize (Hlo2 x Hx). apply in_app_or in Hy. destruct Hy as [Hy|Hy].
    + assert (rmin s <= y) by (rewrite Hmin; apply incr_hd_le; assumption). lra.
    + specialize (Hhi2 y Hy).
      assert (rmin s < rmax s) by (rewrite Hmin, Hmax; apply incr_hd_lt_last; assumption). lra.
Qed.

Lemma filter_app_length {A} (f : A -> bool) l1 l2 l3 :
  (forall x, In x l2 -> f x = true) -> (length l2 <= length (filter f (l1 ++ l2 ++ l3)))%nat.
Proof.
  intro H. rewrite !filter_app, !app_length. rewrite (filter_all f l2 H). lia.
Qed.

(** the points an extension appends below / above (after the resolution cap) *)
Definition ext_lo (s : st) (newMin : Q) (pLo : nat) : list Q :=
  let p := fit pLo (rmin s - newMin) (rmax s - rmin s) in
  if Qlt_bool newMin (rmin s) && (0 <? p)%nat then linspace_open newMin (rmin s) p else [].
Definition ext_hi (s : st) (newMax : Q) (pHi : nat) : list Q :=
  let p := fit pHi (newMax - rmax s) (rmax s - rmin s) in
  if Qlt_bool (rmax s) newMax && (0 <? p)%nat then tl (linspace (rmax s) newMax (S p)) else [].

(** with a table (whose values are paired with its abscissae) an extension interpolates the
    function on  new lower block ++ old abscissae ++ new upper block *)
Lemma extend_unfold s a b pLo pHi : TInv s -> hasT s = true ->
  extend fin s a b pLo pHi =
  match interpolate fin s (ext_lo s a pLo ++ tab s ++ ext_hi s b pHi) with
  | (s', Ok _) => ((if adaptive s' then set_adapt s' true 0 [] else s'), Ok tt)
  | r => r
  end.
Proof.
  intros HT Hh. destruct (HT Hh) as [_ [_ [_ [_ [_ [_ Hv]]]]]].
  unfold extend, ext_lo, ext_hi, interpolate. rewrite Hh, Hv. reflexivity.
Qed.

Lemma extend_total s newMin newMax pLo pHi : TInv s -> hasT s = true ->
  exists s', extend fin s newMin newMax pLo pHi = (s', Ok tt).
Proof.
  intros HT Hh. rewrite extend_unfold by assumption. unfold ext_lo, ext_hi.
  destruct (extend_points_incr s newMin newMax
              (fit pLo (rmin s - newMin) (rmax s - rmin s))
              (fit pHi (newMax - rmax s) (rmax s - rmin s)) HT Hh) as [Hi _].
  destruct (HT Hh) as [_ [Hl [_ [_ [_ [Hf _]]]]]].
  match goal with |- context [interpolate fin s ?X] =>
    destruct (interpolate_cases s X) as [[_ [_ E]]|[N _]] end.
  - rewrite E. eexists; reflexivity.
  - exfalso. apply N. split; [apply incr_filter; exact Hi|].
    eapply Nat.le_trans; [exact Hl|apply filter_app_length; exact Hf].
Qed.

Lemma extend_good s newMin newMax pLo pHi : Inv s -> Good s (fst (extend fin s newMin newMax pLo pHi)).
Proof.
  intro HI. destruct (hasT s) eqn:Hh.
  2:{ unfold extend. rewrite Hh. cbn [negb]. apply newTable_good; exact HI. }
  rewrite extend_unfold by (exact (proj1 HI) || exact Hh).
  match goal with |- context [interpolate fin s ?X] =>
    pose proof (interpolate_good s X HI) as G; destruct (interpolate fin s X) as [s' [u|e]] end;
    cbn [fst] in *; [|exact G].
  destruct (adaptive s'); [|exact G]. destruct G as [[GT _] Gc].
  split; [apply Inv_reset; exact GT|exact Gc].
Qed.

Lemma adaptiveUpdate_good s : TInv s -> Good s (fst (adaptiveUpdate fin s)).
Proof.
  intro HT. unfold adaptiveUpdate.
  assert (H0 : Inv (set_adapt s (adaptive s) 0 [])) by (apply Inv_reset; exact HT).
  assert (G0 : Good s (set_adapt s (adaptive s) 0 [])) by (split; [exact H0|reflexivity]).
  destruct (hasT s).
  - eapply Good_trans; [exact G0|apply extend_good; exact H0].
  - destruct (Qle_bool _ _); [exact G0|].
    eapply Good_trans; [exact G0|apply extend_good; exact H0].
Qed.

Lemma schedule_good s pts : Inv s -> Good s (fst (schedule fin s pts)).
Proof.
  intros [HT HC]. unfold schedule. destruct (usort (filter fin pts)) as [|x xv] eqn:E.
  - apply Good_refl. split; assumption.
  - set (s1 := set_adapt s (adaptive s) (cnt s + length (x :: xv)) (pend s ++ x :: xv)).
    destruct (cfg_thr s1 <=? cnt s1)%nat eqn:Et.
    + pose proof (adaptiveUpdate_good s1 HT) as G. destruct G as [G1 G2]. split; [exact G1|exact G2].
    + cbn [fst]. split; [|reflexivity]. split; [exact HT|]. apply Nat.leb_gt in Et.
      destruct HC as [Hc _]. split; [|intros _; exact Et].
      unfold s1. cbn [cnt pend set_adapt]. rewrite app_length, Hc. reflexivity.
Qed.

Lemma evalDirect_good s pts : Inv s -> Good s (fst (evalDirect fin s pts)).
Proof.
  intro HI. unfold evalDirect. destruct (adaptive s); [|apply Good_refl; exact HI].
  pose proof (schedule_good s pts HI) as G.
  destruct (schedule fin s pts) as [s' [u|e]]; exact G.
Qed.

Lemma side_good s0 s m edge mask pts acc : Inv s -> Good s (fst (side fin s0 s m edge mask pts acc)).
Proof.
  intro HI. unfold side. destruct (existsb _ mask); [|apply Good_refl; exact HI].
  destruct m; try (apply Good_refl; exact HI).
  pose proof (evalDirect_good s (select mask pts) HI) as G.
  destruct (evalDirect fin s (select mask pts)) as [s' [u|e]]; exact G.
Qed.

Lemma evalOOB_good s pts : Inv s -> Good s (fst (evalOOB fin s pts)).
Proof.
  intro HI. unfold evalOOB.
  destruct (mode_eqb (mlo s) ERROR && mode_eqb (mhi s) ERROR); [apply Good_refl; exact HI|].
  destruct (negb (hasT s) || _); [apply evalDirect_good; exact HI|].
  match goal with |- context [side fin s s ?m ?e ?k ?p ?a] =>
    pose proof (side_good s s m e k p a HI) as G; destruct (side fin s s m e k p a) as [s1 [acc1|e1]] end;
    cbn [fst] in *; [|exact G].
  eapply Good_trans; [exact G|]. apply side_good. exact (proj1 G).
Qed.

Lemma evaluate_good s u sh pts : Inv s -> Good s (fst (evaluate fin s u sh pts)).
Proof.
  intro HI. unfold evaluate. destruct (negb u || negb (hasT s)).
  - pose proof (evalDirect_good s pts HI) as G. destruct (evalDirect fin s pts) as [s' [a|e]]; exact G.
  - destruct (select _ pts) as [|o out]; [apply Good_refl; exact HI|].
    pose proof (evalOOB_good s (o :: out) HI) as G.
    destruct (evalOOB fin s (o :: out)) as [s' [a|e]]; exact G.
Qed.

Lemma twice_good (f : st -> list Q -> st * res (list tag)) s pos :
  (forall s p, Inv s -> Good s (fst (f s p))) -> Inv s -> Good s (fst (twice f s pos)).
Proof.
  intros Hf HI. unfold twice. pose proof (Hf s pos HI) as G.
  destruct (f s pos) as [s1 [a|e]]; cbn [fst] in *; [|exact G].
  eapply Good_trans; [exact G|apply Hf; exact (proj1 G)].
Qed.

Lemma derivative_good s n u sh pts dx pos : Inv s ->
  Good s (fst (derivative fin s n u sh pts dx pos)).
Proof.
  intro HI. unfold derivative. destruct (negb u || negb (hasT s) || (2 <? n)%nat).
  - destruct ((2 <? n)%nat || (n =? 0)%nat); [apply Good_refl; exact HI|].
    pose proof (twice_good (evalDirect fin) s pos (evalDirect_good) HI) as G.
    destruct (twice (evalDirect fin) s pos) as [s' [a|e]]; exact G.
  - destruct (select _ pts) as [|o out]; [apply Good_refl; exact HI|].
    match goal with |- context [twice (evalOOB fin) s ?P] =>
      pose proof (twice_good (evalOOB fin) s P (evalOOB_good) HI) as G;
      destruct (twice (evalOOB fin) s P) as [s' [a|e]] end; exact G.
Qed.

Lemma setModes_good s a b : Inv s -> Good s (fst (setModes fin s a b)).
Proof.
  intros [HT HC]. unfold setModes. destruct (hasT (set_modes s a b)) eqn:Hh.
  - assert (HT1 : incr (tab s) /\ (2 <= length (tab s))%nat /\ rmin s = hd 0 (tab s) /\
                  rmax s = last (tab s) 0 /\ (forall x, In x (tab s) -> fin x = true) /\
                  vals s = tab s).
    { destruct (HT Hh) as [? [? [? [? [? [? ?]]]]]]. repeat split; assumption. }
    destruct HT1 as [Hi [Hl [Hmin [Hmax [Hf Hv]]]]].
    cbn [tab vals set_modes]. rewrite Hv.
    change (interpolate2 fin (set_modes s a b) (tab s) (tab s)) with
      (interpolate fin (set_modes s a b) (tab s)).
    destruct (interpolate_cases (set_modes s a b) (tab s)) as [[_ [_ E]]|[N _]].
    + rewrite E. cbn [fst]. split; [split|reflexivity]; [|exact HC].
      apply TInv_set_table; rewrite (filter_all fin (tab s) Hf); auto.
    + exfalso. apply N. rewrite (filter_all fin (tab s) Hf). auto.
  - cbn [fst]. split; [split|reflexivity]; [|exact HC]. intro H. cbn in H, Hh. congruence.
Qed.

Lemma writeRead_good s : Inv s -> Good s (fst (writeRead fin s)).
Proof.
  intro HI. unfold writeRead. destruct (hasT s) eqn:Hh; [|apply Good_refl; exact HI].
  rewrite (interpolate_tab s (proj1 HI) Hh). cbn [fst]. split; [|reflexivity].
  destruct HI as [HT HC]. split; [|exact HC]. intros _.
  destruct (HT Hh) as [? [? [? [? [? [? ?]]]]]]. cbn. repeat split; auto.
Qed.

Lemma step_good s o : Inv s -> Good s (fst (step fin s o)).
Proof.
  intro HI. destruct o; cbn [step].
  - pose proof (newTable_good s a b n HI) as G. destruct (newTable fin s a b n); exact G.
  - pose proof (evaluate_good s useInterp shape pts HI) as G. destruct (evaluate fin s useInterp shape pts); exact G.
  - pose proof (derivative_good s order useInterp shape pts dx pos HI) as G.
    destruct (derivative fin s order useInterp shape pts dx pos); exact G.
  - pose proof (extend_good s a b nlo nhi HI) as G. destruct (extend fin s a b nlo nhi); exact G.
  - pose proof (setModes_good s lo hi HI) as G. destruct (setModes fin s lo hi); exact G.
  - cbn [fst]. split; [apply Inv_reset; exact (proj1 HI)|reflexivity].
  - cbn [fst]. apply Good_refl in HI. exact HI.
  - pose proof (schedule_good s pts HI) as G. destruct (schedule fin s pts); exact G.
  - pose proof (writeRead_good s HI) as G. destruct (writeRead fin s); exact G.
  - pose proof (interpolate_good s xs HI) as G. destruct (interpolate fin s xs); exact G.
  - pose proof (interpolate_good s xs HI) as G. destruct (interpolate fin s xs); exact G.
  - cbn [fst]. apply Good_refl. exact HI.
Qed.

Lemma run_good ops : forall s, Inv s -> Good s (run fin s ops).
Proof.
  induction ops as [|o r IH]; intros s HI; [apply Good_refl; exact HI|].
  cbn [run]. pose proof (step_good s o HI) as G.
  eapply Good_trans; [exact G|apply IH; exact (proj1 G)].
Qed.

(* ------------------------------------------------------------------------------------ *)
(** * Element-wise dispatch *)

Definition dirtag (q : Q) : tag := if fin q then Dir q else DirNaN q.

(** what the selected modes prescribe for ONE element (the property's statement) *)
Definition spec_tag (s : st) (d : nat) (q : Q) : tag :=
  if inrange s q then Spl d KIn q
  else if Qle_bool q (rmin s) then
    match mlo s with
    | NONE => dirtag q | CONSTANT => Spl 0 KIn (rmin s) | FUNCTION => Spl 0 KExt q | ERROR => Uninit
    end
  else
    match mhi s with
    | NONE => dirtag q | CONSTANT => Spl 0 KIn (rmax s) | FUNCTION => Spl 0 KExt q | ERROR => Uninit
    end.

Lemma scatter_nil {A} mask (base : list A) : scatter mask [] base = base.
Proof.
  revert base. induction mask as [|m mr IH]; intros [|b br]; try reflexivity.
  cbn [scatter]. destruct m; rewrite IH; reflexivity.
Qed.

Lemma scatter_map {A B} (m : A -> bool) (g f : A -> B) l :
  scatter (map m l) (map g (select (map m l) l)) (map f l) =
  map (fun x => if m x then g x else f x) l.
Proof.
  induction l as [|x r IH]; [reflexivity|].
  cbn [map select scatter]. destruct (m x); cbn [map]; rewrite IH; reflexivity.
Qed.

Lemma scatter_length {A} mask (vals base : list A) : length (scatter mask vals base) = length base.
Proof.
  revert vals base. induction mask as [|m mr IH]; intros vals [|b br]; try reflexivity.
  cbn [scatter]. destruct m; [destruct vals|]; cbn [length]; rewrite IH; reflexivity.
Qed.

(** cells outside the mask keep what they had *)
Lemma scatter_keep {A} mask (vals base : list A) i :
  nth_error mask i = Some false -> nth_error (scatter mask vals base) i = nth_error base i.
Proof.
  revert vals base i. induction mask as [|m mr IH]; intros vals base i H; [destruct i; discriminate|].
  destruct base as [|b br]; [reflexivity|]. destruct i as [|i].
  - cbn in H. injection H as ->. reflexivity.
  - cbn [nth_error] in H. cbn [scatter]. destruct m; [destruct vals|]; cbn [nth_error]; apply IH; exact H.
Qed.

Lemma select_In {A} (m : A -> bool) l x : In x (select (map m l) l) -> m x = true /\ In x l.
Proof.
  induction l as [|y r IH]; [intros []|].
  cbn [map select]. destruct (m y) eqn:E.
  - intros [<-|H]; [split; [exact E|left; reflexivity]|]. destruct (IH H). split; [assumption|right; assumption].
  - intro H. destruct (IH H). split; [assumption|right; assumption].
Qed.

Lemma existsb_map_false {A} (m : A -> bool) l :
  existsb (fun b => b) (map m l) = false -> forall x, In x l -> m x = false.
Proof.
  induction l as [|y r IH]; [intros _ x []|].
  cbn [map existsb]. intro H. apply orb_false_iff in H. destruct H as [H1 H2].
  intros x [<-|Hx]; [exact H1|apply IH; assumption].
Qed.

Lemma mode_eqb_eq a b : mode_eqb a b = true <-> a = b.
Proof. destruct a, b; cbn; split; intro H; congruence. Qed.

Lemma evalDirect_pure s pts : adaptive s = false -> evalDirect fin s pts = (s, Ok (map dirtag pts)).
Proof. intro H. unfold evalDirect. rewrite H. reflexivity. Qed.

Definition side_tag (s : st) (m : mode) (edge q : Q) : tag :=
  match m with
  | NONE => dirtag q | CONSTANT => splineAt s 0 edge | FUNCTION => splineAt s 0 q | ERROR => Uninit
  end.

Lemma side_pure s0 s m edge (mk : Q -> bool) pts (f : Q -> tag) : adaptive s = false -> m <> ERROR ->
  side fin s0 s m edge (map mk pts) pts (map f pts) =
  (s, Ok (map (fun q => if mk q then side_tag s0 m edge q else f q) pts)).
Proof.
  intros Ha Hm. unfold side. destruct (existsb (fun b => b) (map mk pts)) eqn:E.
  - destruct m; [congruence| | |].
    + rewrite evalDirect_pure by exact Ha. rewrite scatter_map. reflexivity.
    + rewrite (scatter_map mk (fun _ => splineAt s0 0 edge) f). reflexivity.
    + rewrite scatter_map. reflexivity.
  - f_equal. f_equal. apply map_ext_in. intros q Hq.
    rewrite (existsb_map_false mk pts E q Hq). reflexivity.
Qed.

Definition oob_tag (s : st) (q : Q) : tag :=
  if Qle_bool (rmax s) q then side_tag s (mhi s) (rmax s) q else side_tag s (mlo s) (rmin s) q.

Lemma evalOOB_pure s pts : adaptive s = false -> hasT s = true -> mlo s <> ERROR -> mhi s <> ERROR ->
  (forall q, In q pts -> Qle_bool q (rmin s) || Qle_bool (rmax s) q = true) ->
  evalOOB fin s pts = (s, Ok (map (oob_tag s) pts)).
Proof.
  intros Ha Hh Hlo Hhi Hout. unfold evalOOB.
  replace (mode_eqb (mlo s) ERROR) with false
    by (symmetry; destruct (mode_eqb (mlo s) ERROR) eqn:E; [apply mode_eqb_eq in E; congruence|reflexivity]).
  cbn [andb]. rewrite Hh. cbn [negb orb].
  destruct (mode_eqb (mlo s) NONE && mode_eqb (mhi s) NONE) eqn:EN.
  - apply andb_true_iff in EN. destruct EN as [E1 E2]. apply mode_eqb_eq in E1, E2.
    rewrite evalDirect_pure by exact Ha. f_equal. f_equal. apply map_ext. intro q.
    unfold oob_tag. rewrite E1, E2. destruct (Qle_bool (rmax s) q); reflexivity.
  - rewrite (side_pure s s (mlo s) (rmin s) (fun q => Qle_bool q (rmin s)) pts _ Ha Hlo).
    rewrite (side_pure s s (mhi s) (rmax s) (fun q => Qle_bool (rmax s) q) pts _ Ha Hhi).
    f_equal. f_equal. apply map_ext_in. intros q Hq. specialize (Hout q Hq). unfold oob_tag.
    destruct (Qle_bool (rmax s) q); [reflexivity|]. rewrite orb_false_r in Hout. rewrite Hout. reflexivity.
Qed.

Lemma inrange_iff s q : inrange s q = true <-> rmin s <= q <= rmax s.
Proof.
  unfold inrange. rewrite andb_true_iff, !Qle_bool_iff. tauto.
Qed.

Lemma inrange_false s q : inrange s q = false -> q < rmin s \/ rmax s < q.
Proof.
  unfold inrange. intro H. apply andb_false_iff in H. destruct H as [H|H]; apply Qle_bool_false in H; auto.
Qed.

Lemma splineAt_in s d q : TInv s -> hasT s = true -> rmin s <= q <= rmax s -> splineAt s d q = Spl d KIn q.
Proof.
  intros HT Hh [H1 H2]. destruct (HT Hh) as [_ [_ [Hmin [Hmax _]]]]. unfold splineAt.
  rewrite <- Hmin, <- Hmax.
  replace (Qle_bool (rmin s) q) with true by (symmetry; apply Qle_bool_iff; exact H1).
  replace (Qle_bool q (rmax s)) with true by (symmetry; apply Qle_bool_iff; exact H2). reflexivity.
Qed.

Lemma splineAt_out s d q : TInv s -> hasT s = true -> (q < rmin s \/ rmax s < q) ->
  splineAt s d q = if extrap s then Spl d KExt q else Spl d KNan q.
Proof.
  intros HT Hh H. destruct (HT Hh) as [_ [_ [Hmin [Hmax _]]]]. unfold splineAt.
  rewrite <- Hmin, <- Hmax. destruct H as [H|H].
  - replace (Qle_bool (rmin s) q) with false by (symmetry; apply Qle_bool_false; exact H). reflexivity.
  - replace (Qle_bool q (rmax s)) with false by (symmetry; apply Qle_bool_false; exact H).
    rewrite andb_false_r. reflexivity.
Qed.

Lemma range_nonempty s : TInv s -> hasT s = true -> rmin s < rmax s.
Proof.
  intros HT Hh. destruct (HT Hh) as [Hi [Hl [Hmin [Hmax _]]]]. rewrite Hmin, Hmax.
  apply incr_hd_lt_last; assumption.
Qed.

(** outside the table the out-of-bounds branch produces exactly what the mode of that side
    prescribes; in particular a FUNCTION side is always answered by an EXTRAPOLATING spline
    (never nan) and a CONSTANT side by the spline at the stored end point *)
Lemma oob_is_spec s q : TInv s -> hasT s = true ->
  inrange s q = false -> oob_tag s q = spec_tag s 0 q.
Proof.
  intros HT Hh Hq. pose proof (range_nonempty s HT Hh) as Hr.
  destruct (HT Hh) as [_ [_ [_ [_ [Hex _]]]]].
  unfold oob_tag, spec_tag. rewrite Hq. pose proof (inrange_false s q Hq) as Hside.
  destruct (Qle_bool (rmax s) q) eqn:Eu.
  - apply Qle_bool_iff in Eu.
    assert (Hup : rmax s < q) by (destruct Hside; lra).
    replace (Qle_bool q (rmin s)) with false by (symmetry; apply Qle_bool_false; lra).
    unfold side_tag. destruct (mhi s) eqn:Em; [reflexivity|reflexivity| |].
    + apply splineAt_in; auto. lra.
    + rewrite splineAt_out by auto. rewrite Hex. try rewrite Em. cbn [is_fun]. rewrite ?orb_true_r. reflexivity.
  - apply Qle_bool_false in Eu.
    assert (Hdn : q < rmin s) by (destruct Hside; lra).
    replace (Qle_bool q (rmin s)) with true by (symmetry; apply Qle_bool_iff; lra).
    unfold side_tag. destruct (mlo s) eqn:Em; [reflexivity|reflexivity| |].
    + apply splineAt_in; auto. lra.
    + rewrite splineAt_out by auto. rewrite Hex. try rewrite Em. cbn [is_fun orb]. reflexivity.
Qed.

(** DISPATCH: with a table, without adaptive bookkeeping in the way and no ERROR mode,
    [evaluate] is the element-wise map of the specification, leaves the state alone and
    returns the input shape (plus the value axis) *)
Lemma evaluate_spec_l s sh pts : Inv s -> hasT s = true -> adaptive s = false ->
  mlo s <> ERROR -> mhi s <> ERROR ->
  evaluate fin s true sh pts = (s, Ok (oshape (cfg_k s) sh, map (spec_tag s 0) pts)).
Proof.
  intros [HT _] Hh Ha Hlo Hhi. unfold evaluate. rewrite Hh. cbn [negb orb].
  rewrite map_map.
  set (m' := fun q => negb (inrange s q)).
  set (base := map (fun q => if inrange s q then splineAt s 0 q else Uninit) pts).
  assert (E : forall ts, ts = map (oob_tag s) (select (map m' pts) pts) ->
            scatter (map m' pts) ts base = map (spec_tag s 0) pts).
  { intros ts ->. unfold base. rewrite scatter_map. apply map_ext. intro q. unfold m'.
    destruct (inrange s q) eqn:Eq; cbn [negb].
    - unfold spec_tag. rewrite Eq. apply splineAt_in; auto. apply inrange_iff; exact Eq.
    - apply oob_is_spec; auto. }
  destruct (select (map m' pts) pts) as [|o out] eqn:Es.
  - rewrite <- (E [] eq_refl). rewrite scatter_nil. reflexivity.
  - rewrite evalOOB_pure; auto.
    + rewrite (E _ eq_refl). reflexivity.
    + intros q Hq. rewrite <- Es in Hq. apply select_In in Hq. destruct Hq as [Hq _].
      unfold m' in Hq. apply negb_true_iff in Hq. apply inrange_false in Hq.
      apply orb_true_iff. destruct Hq; [left|right]; apply Qle_bool_iff; lra.
Qed.

Lemma In_select {A} (m : A -> bool) l x : In x l -> m x = true -> In x (select (map m l) l).
Proof.
  induction l as [|y r IH]; [intros []|].
  cbn [map select]. intros [<-|H] Hm.
  - rewrite Hm. left; reflexivity.
  - destruct (m y); [right|]; apply IH; assumption.
Qed.

Lemma existsb_map_true {A} (m : A -> bool) l x : In x l -> m x = true ->
  existsb (fun b => b) (map m l) = true.
Proof.
  intros Hx Hm. apply existsb_exists. exists true. split; [|reflexivity].
  apply in_map_iff. exists x. auto.
Qed.

(** ERROR mode: a point beyond a side whose mode is ERROR makes the call raise ValueError *)
Lemma evaluate_error_l s sh pts : Inv s -> hasT s = true -> adaptive s = false ->
  ((exists q, In q pts /\ q < rmin s) /\ mlo s = ERROR) \/
  ((exists q, In q pts /\ rmax s < q) /\ mhi s = ERROR) ->
  evaluate fin s true sh pts = (s, Err EValue).
Proof.
  intros [HT _] Hh Ha Hcase. pose proof (range_nonempty s HT Hh) as Hr.
  unfold evaluate. rewrite Hh. cbn [negb orb]. rewrite map_map.
  set (m' := fun q => negb (inrange s q)).
  assert (Hsel : forall q, In q pts -> (q < rmin s \/ rmax s < q) -> In q (select (map m' pts) pts)).
  { intros q Hq Ho. apply In_select; [exact Hq|]. unfold m'. apply negb_true_iff.
    destruct (inrange s q) eqn:E; [|reflexivity]. apply inrange_iff in E. destruct Ho; lra. }
  assert (Hgoal : forall out, (forall q, In q pts -> (q < rmin s \/ rmax s < q) -> In q out) ->
            evalOOB fin s out = (s, Err EValue)).
  { intros out Hout. unfold evalOOB.
    destruct (mode_eqb (mlo s) ERROR && mode_eqb (mhi s) ERROR) eqn:EE; [reflexivity|].
    rewrite Hh. cbn [negb orb].
    destruct Hcase as [[[q [Hq Hlt]] Em]|[[q [Hq Hgt]] Em]].
    - rewrite Em. cbn [mode_eqb andb]. unfold side.
      rewrite (existsb_map_true (fun q => Qle_bool q (rmin s)) out q); [reflexivity|auto|].
      apply Qle_bool_iff. lra.
    - assert (Hlo : mlo s <> ERROR).
      { intro E. rewrite E, Em in EE. discriminate EE. }
      replace (mode_eqb (mhi s) NONE) with false by (rewrite Em; reflexivity).
      rewrite andb_false_r.
      rewrite (side_pure s s (mlo s) (rmin s) (fun q => Qle_bool q (rmin s)) out _ Ha Hlo).
      rewrite Em. unfold side.
      rewrite (existsb_map_true (fun q => Qle_bool (rmax s) q) out q); [reflexivity|auto|].
      apply Qle_bool_iff. lra. }
  destruct (select (map m' pts) pts) as [|o out] eqn:Es.
  - exfalso. destruct Hcase as [[[q [Hq Hlt]] _]|[[q [Hq Hgt]] _]]; eapply (Hsel q); eauto.
  - rewrite Hgoal; [reflexivity|]. intros q Hq Ho. apply Hsel; assumption.
Qed.

Lemma evalDirect_tags s pts s' ts : evalDirect fin s pts = (s', Ok ts) -> ts = map dirtag pts.
Proof.
  unfold evalDirect. destruct (adaptive s).
  - destruct (schedule fin s pts) as [s1 [u|e]]; intro H; inversion H; reflexivity.
  - intro H; inversion H; reflexivity.
Qed.

(** SHAPE: whatever the history, a successful evaluation returns the input shape (plus the
    value axis for vector-valued functions) and one entry per input element *)
Lemma shape_contract_l s u sh pts s' sh' ts :
  evaluate fin s u sh pts = (s', Ok (sh', ts)) ->
  sh' = oshape (cfg_k s) sh /\ length ts = length pts.
Proof.
  unfold evaluate. destruct (negb u || negb (hasT s)).
  - destruct (evalDirect fin s pts) as [s1 [a|e]] eqn:E; intro H; inversion H; subst.
    split; [reflexivity|]. apply evalDirect_tags in E. subst. apply map_length.
  - destruct (select _ pts) as [|o out].
    + intro H; inversion H; subst. split; [reflexivity|]. apply map_length.
    + destruct (evalOOB fin s (o :: out)) as [s1 [a|e]]; intro H; inversion H; subst.
      split; [reflexivity|]. rewrite scatter_length. apply map_length.
Qed.

(** IN RANGE => SPLINE, for every history (adaptive bookkeeping included): an element inside
    the current range is answered by the current spline at that point, inside its knots *)
Lemma inrange_spline_l s sh pts s' sh' ts i q : Inv s -> hasT s = true ->
  evaluate fin s true sh pts = (s', Ok (sh', ts)) ->
  nth_error pts i = Some q -> inrange s q = true -> nth_error ts i = Some (Spl 0 KIn q).
Proof.
  intros [HT _] Hh. unfold evaluate. rewrite Hh. cbn [negb orb]. intros H Hi Hq.
  assert (Hb : nth_error (map (fun q => if inrange s q then splineAt s 0 q else Uninit) pts) i
               = Some (Spl 0 KIn q)).
  { rewrite (map_nth_error _ _ _ Hi). rewrite Hq. f_equal. apply splineAt_in; auto.
    apply inrange_iff; exact Hq. }
  destruct (select _ pts) as [|o out].
  - inversion H; subst. exact Hb.
  - destruct (evalOOB fin s (o :: out)) as [s1 [a|e]]; inversion H; subst.
    rewrite scatter_keep; [exact Hb|]. rewrite map_map. rewrite (map_nth_error _ _ _ Hi).
    rewrite Hq. reflexivity.
Qed.

(* ------------------------------------------------------------------------------------ *)
(** * Derivatives *)

Lemma deriv_shape_l s n u sh pts dx pos s' sh' ts :
  derivative fin s n u sh pts dx pos = (s', Ok (sh', ts)) ->
  sh' = oshape (cfg_k s) sh /\ length ts = length pts.
Proof.
  unfold derivative. destruct (negb u || negb (hasT s) || (2 <? n)%nat).
  - destruct ((2 <? n)%nat || (n =? 0)%nat); [intro H; discriminate H|].
    destruct (twice (evalDirect fin) s pos) as [s1 [a|e]]; intro H; inversion H; subst.
    split; [reflexivity|]. unfold fd_columns. rewrite map_length, seq_length. reflexivity.
  - destruct (select _ pts) as [|o out].
    + intro H; inversion H; subst. split; [reflexivity|]. apply map_length.
    + match goal with |- context [twice (evalOOB fin) s ?P] =>
        destruct (twice (evalOOB fin) s P) as [s1 [a|e]] end; intro H; inversion H; subst.
      split; [reflexivity|]. rewrite scatter_length. apply map_length.
Qed.

(** inside the range the derivative is the spline's derivative of that order at that point,
    element by element, for every history *)
Lemma deriv_inrange_l s n sh pts dx pos s' sh' ts i q : Inv s -> hasT s = true ->
  (n = 1 \/ n = 2)%nat ->
  derivative fin s n true sh pts dx pos = (s', Ok (sh', ts)) ->
  nth_error pts i = Some q -> inrange s q = true -> nth_error ts i = Some (DOne (Spl n KIn q)).
Proof.
  intros [HT _] Hh Hn. unfold derivative. rewrite Hh. cbn [negb orb].
  replace (2 <? n)%nat with false by (destruct Hn; subst; reflexivity).
  intros H Hi Hq.
  assert (Hb : nth_error (map (fun q => DOne (if inrange s q then splineAt s n q else Uninit)) pts) i
               = Some (DOne (Spl n KIn q))).
  { rewrite (map_nth_error _ _ _ Hi). rewrite Hq. do 2 f_equal. apply splineAt_in; auto.
    apply inrange_iff; exact Hq. }
  destruct (select _ pts) as [|o out].
  - inversion H; subst. exact Hb.
  - match type of H with context [twice (evalOOB fin) s ?P] =>
      destruct (twice (evalOOB fin) s P) as [s1 [a|e]] end; inversion H; subst.
    rewrite scatter_keep; [exact Hb|]. rewrite map_map. rewrite (map_nth_error _ _ _ Hi).
    rewrite Hq. reflexivity.
Qed.

(* ------------------------------------------------------------------------------------ *)
(** * Adaptive trigger *)

Lemma extend_counters s a b pl ph : cnt s = 0%nat -> pend s = [] ->
  cnt (fst (extend fin s a b pl ph)) = 0%nat /\ pend (fst (extend fin s a b pl ph)) = [].
Proof.
  intros Hc Hp. unfold extend, newTable, interpolate.
  assert (HI : forall X Y, cnt (fst (interpolate2 fin s X Y)) = 0%nat /\
                           pend (fst (interpolate2 fin s X Y)) = []).
  { intros X Y. destruct (interpolate2_cases s X Y) as [[_ [_ E]]|[_ E]]; rewrite E; cbn; auto. }
  destruct (hasT s); cbn [negb]; [|apply HI].
  match goal with |- context [interpolate2 fin s ?X ?Y] =>
    specialize (HI X Y); destruct (interpolate2 fin s X Y) as [s' [u|e]] end; cbn [fst] in *; [|exact HI].
  destruct (adaptive s'); [cbn; auto|exact HI].
Qed.

(** an update happens exactly when the pending count reaches the threshold; it clears the
    counters; below the threshold the new distinct finite points are appended and the table is
    untouched; a call contributing no finite point changes nothing *)
Lemma adaptive_trigger_l s pts :
  let xv := usort (filter fin pts) in
  (xv = [] -> schedule fin s pts = (s, Ok tt)) /\
  (xv <> [] -> (cnt s + length xv < cfg_thr s)%nat ->
     schedule fin s pts = (set_adapt s (adaptive s) (cnt s + length xv) (pend s ++ xv), Ok tt)) /\
  (xv <> [] -> (cfg_thr s <= cnt s + length xv)%nat ->
     schedule fin s pts = adaptiveUpdate fin (set_adapt s (adaptive s) (cnt s + length xv) (pend s ++ xv))
     /\ cnt (fst (schedule fin s pts)) = 0%nat /\ pend (fst (schedule fin s pts)) = []).
Proof.
  intro xv. unfold schedule. fold xv. destruct xv as [|x r] eqn:E.
  - split; [reflexivity|]. split; intro H; congruence.
  - split; [intro H; discriminate H|]. split; intros _ Ht.
    + replace (_ <=? _)%nat with false; [reflexivity|]. symmetry. apply Nat.leb_gt. cbn [cfg_thr cnt set_adapt]. exact Ht.
    + replace (_ <=? _)%nat with true by (symmetry; apply Nat.leb_le; cbn [cfg_thr cnt set_adapt]; exact Ht).
      split; [reflexivity|]. unfold adaptiveUpdate.
      match goal with |- context [set_adapt ?S ?A 0%nat []] => set (s0 := set_adapt S A 0%nat []) end.
      destruct (hasT _); [apply extend_counters; reflexivity|].
      destruct (Qle_bool _ _); [cbn; auto|apply extend_counters; reflexivity].
Qed.

(** np.unique: the scheduled points are strictly increasing (sorted, no duplicates) *)
Lemma uinsert_incr x l : incr l -> incr (uinsert x l).
Proof.
  induction l as [|y r IH]; intro H; [cbn; auto|].
  cbn [uinsert]. destruct (Qcompare x y) eqn:E.
  - exact H.
  - apply incr_cons; [exact H|]. apply Qlt_alt in E. intros z [<-|Hz]; [exact E|].
    pose proof (incr_head_lt y r H z Hz). lra.
  - apply Qgt_alt in E. apply incr_cons; [apply IH; eapply incr_tail; eauto|].
    assert (Hin : forall z, In z (uinsert x r) -> z == x \/ In z r).
    { clear. induction r as [|w r IH]; intros z Hz.
      - destruct Hz as [<-|[]]. left; reflexivity.
      - cbn [uinsert] in Hz. destruct (Qcompare x w) eqn:E.
        + right; exact Hz.
        + destruct Hz as [<-|Hz]; [left; reflexivity|right; exact Hz].
        + destruct Hz as [<-|Hz]; [right; left; reflexivity|].
          destruct (IH z Hz); [left; assumption|right; right; assumption]. }
    intros z Hz. destruct (Hin z Hz) as [Hz'|Hz']; [lra|eapply incr_head_lt; eauto].
Qed.

Lemma usort_incr_l l : incr (usort l).
Proof. induction l as [|x r IH]; [exact I|]. cbn [usort fold_right]. apply uinsert_incr. exact IH. Qed.

(* ------------------------------------------------------------------------------------ *)
(** * Non-finite rows, round trip, mode change *)

(** a table is built from EXACTLY the abscissae whose rows are finite (each bad row dropped on
    its own, every good one kept), whatever the return dimension; and the build succeeds as
    soon as two finite rows remain *)
Lemma nonfinite_rows_l s a b n :
  (forall s', newTable fin s a b n = (s', Ok tt) ->
     tab s' = filter fin (linspace a b n) /\ hasT s' = true /\
     rmin s' = hd 0 (tab s') /\ rmax s' = last (tab s') 0) /\
  (a < b -> (2 <= length (filter fin (linspace a b n)))%nat ->
     exists s', newTable fin s a b n = (s', Ok tt)).
Proof.
  unfold newTable. split.
  - intros s' H. destruct (interpolate_cases s (linspace a b n)) as [[Hi [_ E]]|[_ E]];
      rewrite E in H; inversion H; subst. cbn. auto using qmin_incr, qmax_incr.
  - intros Hab Hl. destruct (interpolate_cases s (linspace a b n)) as [[_ [_ E]]|[N _]].
    + eexists; exact E.
    + exfalso. apply N. split; [apply incr_filter, linspace_incr; exact Hab|exact Hl].
Qed.

(** write + read reproduces the state exactly (the 15-digit text format is validated on the
    real class); changing the modes keeps the table and sets the extrapolate flag *)
Lemma roundtrip_l s : Inv s -> hasT s = true -> writeRead fin s = (s, Ok tt).
Proof.
  intros [HT _] Hh. unfold writeRead. rewrite Hh. rewrite interpolate_tab by assumption.
  destruct (HT Hh) as [_ [_ [_ [_ [Hex [_ Hv]]]]]]. rewrite <- Hex. rewrite <- Hv at 2.
  destruct s; cbn in *. subst. reflexivity.
Qed.

Lemma setModes_spec_l s a b : Inv s -> hasT s = true ->
  exists s', setModes fin s a b = (s', Ok tt) /\ tab s' = tab s /\ vals s' = vals s /\
             rmin s' = rmin s /\
             rmax s' = rmax s /\ mlo s' = a /\ mhi s' = b /\ extrap s' = (is_fun a || is_fun b).
Proof.
  intros [HT _] Hh. unfold setModes. cbn [hasT set_modes]. rewrite Hh.
  destruct (HT Hh) as [Hi [Hl [Hmin [Hmax [_ [Hf Hv]]]]]].
  cbn [tab vals set_modes]. rewrite Hv.
  change (interpolate2 fin (set_modes s a b) (tab s) (tab s)) with
    (interpolate fin (set_modes s a b) (tab s)).
  destruct (interpolate_cases (set_modes s a b) (tab s)) as [[_ [_ E]]|[N _]].
  - rewrite E. eexists; split; [reflexivity|]. cbn. rewrite (filter_all fin (tab s) Hf).
    rewrite (qmin_incr _ Hi), (qmax_incr _ Hi). rewrite <- Hmin, <- Hmax. repeat split; reflexivity.
  - exfalso. apply N. rewrite (filter_all fin (tab s) Hf). auto.
Qed.

(* ------------------------------------------------------------------------------------ *)
(** * No spurious failure: with a table and no ERROR mode an evaluation never raises,
      adaptive updates in the middle of the call included *)

Definition Keeps (s s' : st) : Prop := hasT s' = true /\ mlo s' = mlo s /\ mhi s' = mhi s.

Lemma interpolate_keeps s X Y s' : interpolate2 fin s X Y = (s', Ok tt) -> Keeps s s'.
Proof.
  intro H. destruct (interpolate2_cases s X Y) as [[_ [_ E]]|[_ E]]; rewrite E in H; inversion H; subst.
  repeat split.
Qed.

Lemma extend_keeps s a b pl ph s' : extend fin s a b pl ph = (s', Ok tt) -> Keeps s s'.
Proof.
  unfold extend, newTable, interpolate. destruct (hasT s); cbn [negb]; [|apply interpolate_keeps].
  match goal with |- context [interpolate2 fin s ?X ?Y] =>
    pose proof (interpolate_keeps s X Y) as K; destruct (interpolate2 fin s X Y) as [s1 [[]|e]] end;
    intro H; inversion H; subst.
  specialize (K _ eq_refl). destruct (adaptive s1); exact K.
Qed.

Lemma schedule_total s pts : Inv s -> hasT s = true ->
  exists s', schedule fin s pts = (s', Ok tt) /\ Keeps s s'.
Proof.
  intros [HT _] Hh. unfold schedule. destruct (usort (filter fin pts)) as [|x xv].
  - eexists; split; [reflexivity|]. repeat split; assumption.
  - match goal with |- context [adaptiveUpdate fin ?S1] => set (s1 := S1) end.
    destruct (cfg_thr s1 <=? cnt s1)%nat.
    + unfold adaptiveUpdate. change (hasT s1) with (hasT s). rewrite Hh.
      match goal with |- context [extend fin ?S0 ?A ?B ?C ?D] =>
        destruct (extend_total S0 A B C D HT Hh) as [s' E]; rewrite E;
        pose proof (extend_keeps S0 A B C D s' E) as K end.
      eexists; split; [reflexivity|exact K].
    + eexists; split; [reflexivity|]. repeat split; assumption.
Qed.

Lemma evalDirect_total s pts : Inv s -> hasT s = true ->
  exists s', evalDirect fin s pts = (s', Ok (map dirtag pts)) /\ Keeps s s'.
Proof.
  intros HI Hh. unfold evalDirect. destruct (adaptive s).
  - destruct (schedule_total s pts HI Hh) as [s' [E K]]. rewrite E. eexists; split; [reflexivity|exact K].
  - eexists; split; [reflexivity|]. repeat split; assumption.
Qed.

Lemma side_total s0 s m edge mask pts acc : Inv s -> hasT s = true -> m <> ERROR ->
  exists s' ts, side fin s0 s m edge mask pts acc = (s', Ok ts) /\ Keeps s s'.
Proof.
  intros HI Hh Hm. unfold side.
  assert (K0 : Keeps s s) by (repeat split; assumption).
  destruct (existsb _ mask); [|do 2 eexists; split; [reflexivity|exact K0]].
  destruct m; [congruence| | |]; try (do 2 eexists; split; [reflexivity|exact K0]).
  destruct (evalDirect_total s (select mask pts) HI Hh) as [s' [E K]]. rewrite E.
  do 2 eexists; split; [reflexivity|exact K].
Qed.

Lemma evalOOB_total s pts : Inv s -> hasT s = true -> mlo s <> ERROR -> mhi s <> ERROR ->
  exists s' ts, evalOOB fin s pts = (s', Ok ts).
Proof.
  intros HI Hh Hlo Hhi. unfold evalOOB.
  replace (mode_eqb (mlo s) ERROR) with false
    by (symmetry; destruct (mode_eqb (mlo s) ERROR) eqn:E; [apply mode_eqb_eq in E; congruence|reflexivity]).
  cbn [andb]. rewrite Hh. cbn [negb orb]. destruct (mode_eqb (mlo s) NONE && mode_eqb (mhi s) NONE).
  - destruct (evalDirect_total s pts HI Hh) as [s' [E _]]. rewrite E. eauto.
  - match goal with |- context [side fin s s ?m ?e ?k ?p ?a] =>
      destruct (side_total s s m e k p a HI Hh Hlo) as [s1 [acc1 [E [Hh1 [K1 K2]]]]];
      pose proof (side_good s s m e k p a HI) as G; rewrite E in *; cbn [fst] in G end.
    assert (Hhi1 : mhi s1 <> ERROR) by (rewrite K2; exact Hhi).
    match goal with |- context [side fin s s1 ?m ?e ?k ?p ?a] =>
      destruct (side_total s s1 m e k p a (proj1 G) Hh1 Hhi1) as [s2 [acc2 [E2 _]]]; rewrite E2 end.
    eauto.
Qed.

Lemma evaluate_total_l s sh pts : Inv s -> hasT s = true -> mlo s <> ERROR -> mhi s <> ERROR ->
  exists s' ts, evaluate fin s true sh pts = (s', Ok (oshape (cfg_k s) sh, ts)).
Proof.
  intros HI Hh Hlo Hhi. unfold evaluate. rewrite Hh. cbn [negb orb].
  destruct (select _ pts) as [|o out]; [eauto|].
  destruct (evalOOB_total s (o :: out) HI Hh Hlo Hhi) as [s' [ts E]]. rewrite E. eauto.
Qed.

(* ------------------------------------------------------------------------------------ *)
(** * Derivative dispatch outside the table (finite differences of the out-of-bounds values) *)

(** one stencil point, as [_evaluateOutOfBounds] answers it *)
Definition oob3 (s : st) (q : Q) : tag :=
  if mode_eqb (mlo s) NONE && mode_eqb (mhi s) NONE then dirtag q
  else if Qle_bool (rmax s) q then side_tag s (mhi s) (rmax s) q
  else if Qle_bool q (rmin s) then side_tag s (mlo s) (rmin s) q
  else splineAt s 0 q.     (* a stencil point that reaches back inside the table *)

Lemma evalOOB_pure3 s pts : adaptive s = false -> hasT s = true -> mlo s <> ERROR -> mhi s <> ERROR ->
  evalOOB fin s pts = (s, Ok (map (oob3 s) pts)).
Proof.
  intros Ha Hh Hlo Hhi. unfold evalOOB.
  replace (mode_eqb (mlo s) ERROR) with false
    by (symmetry; destruct (mode_eqb (mlo s) ERROR) eqn:E; [apply mode_eqb_eq in E; congruence|reflexivity]).
  cbn [andb]. rewrite Hh. cbn [negb orb]. unfold oob3.
  destruct (mode_eqb (mlo s) NONE && mode_eqb (mhi s) NONE) eqn:EN.
  - rewrite evalDirect_pure by exact Ha. reflexivity.
  - rewrite (side_pure s s (mlo s) (rmin s) (fun q => Qle_bool q (rmin s)) pts _ Ha Hlo).
    rewrite (side_pure s s (mhi s) (rmax s) (fun q => Qle_bool (rmax s) q) pts _ Ha Hhi).
    f_equal. f_equal. apply map_ext. intro q.
    destruct (Qle_bool (rmax s) q); [reflexivity|]. destruct (Qle_bool q (rmin s)); reflexivity.
Qed.

Lemma map_flat_map {A B C} (f : B -> C) (h : A -> list B) l :
  map f (flat_map h l) = flat_map (fun x => map f (h x)) l.
Proof. induction l as [|x r IH]; [reflexivity|]. cbn [flat_map]. rewrite map_app, IH. reflexivity. Qed.

Lemma skipn_app_exact {A} (l1 l2 : list A) n : n = length l1 -> skipn n (l1 ++ l2) = l2.
Proof. intros ->. rewrite skipn_app, skipn_all, Nat.sub_diag. reflexivity. Qed.

Lemma column_flat {A B C} (g : C -> A -> B) (out : list A) j q : nth_error out j = Some q ->
  forall zs, column (length zs) (length out) j (flat_map (fun z => map (g z) out) zs) =
             map (fun z => g z q) zs.
Proof.
  intros Hj zs. induction zs as [|z r IH]; [reflexivity|].
  cbn [length column flat_map map].
  assert (Hl : (j < length (map (g z) out))%nat).
  { rewrite map_length. apply nth_error_Some. congruence. }
  rewrite (nth_error_app1 _ _ Hl), (map_nth_error _ _ _ Hj). cbn [app]. f_equal.
  rewrite skipn_app_exact by (symmetry; apply map_length). exact IH.
Qed.

Lemma map_seq_eq {A B} (F : nat -> B) (G : A -> B) (l : list A) : forall a,
  (forall j q, nth_error l j = Some q -> F (a + j)%nat = G q) -> map F (seq a (length l)) = map G l.
Proof.
  induction l as [|x r IH]; intros a H; [reflexivity|].
  cbn [length seq map]. f_equal.
  - rewrite <- (H 0%nat x eq_refl). f_equal. lia.
  - apply IH. intros j q Hj. rewrite <- (H (S j) q Hj). f_equal. lia.
Qed.

Definition fd_tag (s : st) (n : nat) (dx q : Q) : dtag :=
  DFD (map (fun z => oob3 s (Qred (q + inject_Z z * dx))) (stencil n)).

(** the derivative's statement for ONE element *)
Definition dspec (s : st) (n : nat) (dx q : Q) : dtag :=
  if inrange s q then DOne (Spl n KIn q) else fd_tag s n dx q.

Lemma fd_columns_spec s n dx out :
  fd_columns n (length out) (map (oob3 s) (fd_pos n dx out)) = map (fd_tag s n dx) out.
Proof.
  unfold fd_columns, fd_pos. rewrite map_flat_map.
  apply map_seq_eq. intros j q Hj. cbn [plus]. unfold fd_tag. f_equal.
  rewrite (flat_map_ext _ (fun z => map (fun q0 => oob3 s (Qred (q0 + inject_Z z * dx))) out))
    by (intro z; apply map_map).
  apply (column_flat (fun z q0 => oob3 s (Qred (q0 + inject_Z z * dx))) out j q Hj).
Qed.

(** DERIVATIVE DISPATCH: element by element, the spline's derivative inside the range and the
    finite-difference stencil over the out-of-bounds values (each stencil point answered by
    the mode of ITS side; points reaching back inside by the spline) outside *)
Lemma deriv_spec_l s n sh pts dx pos : Inv s -> hasT s = true -> adaptive s = false ->
  mlo s <> ERROR -> mhi s <> ERROR -> (n = 1 \/ n = 2)%nat ->
  derivative fin s n true sh pts dx pos = (s, Ok (oshape (cfg_k s) sh, map (dspec s n dx) pts)).
Proof.
  intros [HT _] Hh Ha Hlo Hhi Hn. unfold derivative. rewrite Hh. cbn [negb orb].
  replace (2 <? n)%nat with false by (destruct Hn; subst; reflexivity).
  rewrite map_map.
  set (m' := fun q => negb (inrange s q)).
  set (base := map (fun q => DOne (if inrange s q then splineAt s n q else Uninit)) pts).
  assert (E : scatter (map m' pts) (map (fd_tag s n dx) (select (map m' pts) pts)) base =
              map (dspec s n dx) pts).
  { unfold base. rewrite scatter_map. apply map_ext. intro q. unfold m', dspec.
    destruct (inrange s q) eqn:Eq; cbn [negb]; [|reflexivity].
    f_equal. apply splineAt_in; auto. apply inrange_iff; exact Eq. }
  destruct (select (map m' pts) pts) as [|o out] eqn:Es.
  - rewrite <- E. cbn [map]. rewrite scatter_nil. reflexivity.
  - unfold twice. rewrite !evalOOB_pure3 by assumption. rewrite fd_columns_spec, E. reflexivity.
Qed.
(* ------------------------------------------------------------------------------------ *)
(** * Reduced form of the stencil tags: what each finite-difference point IS *)

(** a stencil point of an out-of-range derivative, in the vocabulary of the property: direct
    value, spline at the stored end, spline inside its knots, or EXTRAPOLATING spline (never
    the nan of a non-extrapolating one) *)
Definition oob_red (s : st) (q : Q) : tag :=
  if mode_eqb (mlo s) NONE && mode_eqb (mhi s) NONE then dirtag q
  else if Qle_bool (rmax s) q then
    match mhi s with
    | NONE => dirtag q | CONSTANT => Spl 0 KIn (rmax s)
    | FUNCTION => if Qle_bool q (rmax s) then Spl 0 KIn q else Spl 0 KExt q | ERROR => Uninit
    end
  else if Qle_bool q (rmin s) then
    match mlo s with
    | NONE => dirtag q | CONSTANT => Spl 0 KIn (rmin s)
    | FUNCTION => if Qle_bool (rmin s) q then Spl 0 KIn q else Spl 0 KExt q | ERROR => Uninit
    end
  else Spl 0 KIn q.

Lemma oob3_red s q : TInv s -> hasT s = true -> oob3 s q = oob_red s q.
Proof.
  intros HT Hh. pose proof (range_nonempty s HT Hh) as Hr.
  destruct (HT Hh) as [_ [_ [_ [_ [Hex _]]]]].
  unfold oob3, oob_red. destruct (mode_eqb (mlo s) NONE && mode_eqb (mhi s) NONE); [reflexivity|].
  destruct (Qle_bool (rmax s) q) eqn:Eu.
  - apply Qle_bool_iff in Eu. unfold side_tag. destruct (mhi s) eqn:Em; try reflexivity.
    + apply splineAt_in; auto. lra.
    + destruct (Qle_bool q (rmax s)) eqn:E2.
      * apply Qle_bool_iff in E2. apply splineAt_in; auto. lra.
      * apply Qle_bool_false in E2. rewrite splineAt_out by auto. rewrite Hex.
        try rewrite Em. cbn [is_fun]. rewrite ?orb_true_r. reflexivity.
  - apply Qle_bool_false in Eu. destruct (Qle_bool q (rmin s)) eqn:El.
    + apply Qle_bool_iff in El. unfold side_tag. destruct (mlo s) eqn:Em; try reflexivity.
      * apply splineAt_in; auto. lra.
      * destruct (Qle_bool (rmin s) q) eqn:E2.
        -- apply Qle_bool_iff in E2. apply splineAt_in; auto. lra.
        -- apply Qle_bool_false in E2. rewrite splineAt_out by auto. rewrite Hex.
           try rewrite Em. cbn [is_fun orb]. reflexivity.
    + apply Qle_bool_false in El. apply splineAt_in; auto. lra.
Qed.

Definition dspec_red (s : st) (n : nat) (dx q : Q) : dtag :=
  if inrange s q then DOne (Spl n KIn q)
  else DFD (map (fun z => oob_red s (Qred (q + inject_Z z * dx))) (stencil n)).

Lemma dspec_reduce s n dx pts : TInv s -> hasT s = true ->
  map (dspec s n dx) pts = map (dspec_red s n dx) pts.
Proof.
  intros HT Hh. apply map_ext. intro q. unfold dspec, dspec_red, fd_tag.
  destruct (inrange s q); [reflexivity|]. f_equal. apply map_ext. intro z. apply oob3_red; assumption.
Qed.

(* ------------------------------------------------------------------------------------ *)
(** * Dispatch for EVERY history, adaptive bookkeeping on: the lower side is answered in the
      state of the call, the upper side in the state the lower side's direct evaluations left
      behind (an adaptive update may have rebuilt the table in between) *)

Lemma side_form s0 s m edge (mk : Q -> bool) pts (f : Q -> tag) s' ts :
  side fin s0 s m edge (map mk pts) pts (map f pts) = (s', Ok ts) ->
  ts = map (fun q => if mk q then side_tag s0 m edge q else f q) pts.
Proof.
  unfold side. destruct (existsb (fun b => b) (map mk pts)) eqn:E.
  - destruct m.
    + intro H; discriminate H.
    + destruct (evalDirect fin s (select (map mk pts) pts)) as [s1 [tg|e]] eqn:Ed;
        intro H; [|discriminate H]. injection H as _ <-.
      apply evalDirect_tags in Ed. subst tg. apply scatter_map.
    + intro H. injection H as _ <-. apply (scatter_map mk (fun _ => splineAt s0 0 edge) f).
    + intro H. injection H as _ <-. apply scatter_map.
  - intro H. injection H as _ <-. apply map_ext_in. intros q Hq.
    rewrite (existsb_map_false mk pts E q Hq). reflexivity.
Qed.

(** a side changes the state only through direct evaluations with adaptive bookkeeping on *)
Lemma side_state s0 s m edge mask pts acc : (m <> NONE \/ adaptive s = false) ->
  fst (side fin s0 s m edge mask pts acc) = s.
Proof.
  intro H. unfold side. destruct (existsb _ mask); [|reflexivity].
  destruct m; try reflexivity. destruct H as [H|H]; [congruence|].
  rewrite evalDirect_pure by exact H. reflexivity.
Qed.

(** table and modes survive every internal step, successful or not *)
Lemma interpolate2_keeps_always s X Y : hasT s = true -> Keeps s (fst (interpolate2 fin s X Y)).
Proof.
  intro Hh. destruct (interpolate2_cases s X Y) as [[_ [_ E]]|[_ E]]; rewrite E; cbn [fst];
    repeat split; assumption.
Qed.

Lemma extend_keeps_always s a b pl ph : hasT s = true -> Keeps s (fst (extend fin s a b pl ph)).
Proof.
  intro Hh. unfold extend. rewrite Hh. cbn [negb].
  match goal with |- context [interpolate2 fin s ?X ?Y] =>
    pose proof (interpolate2_keeps_always s X Y Hh) as K;
    destruct (interpolate2 fin s X Y) as [s1 [[]|e]] end; cbn [fst] in *; [|exact K].
  destruct (adaptive s1); exact K.
Qed.

Lemma schedule_keeps_always s pts : hasT s = true -> Keeps s (fst (schedule fin s pts)).
Proof.
  intro Hh. unfold schedule. destruct (usort (filter fin pts)) as [|x xv];
    [repeat split; assumption|].
  match goal with |- context [adaptiveUpdate fin ?S1] => set (s1 := S1) end.
  destruct (cfg_thr s1 <=? cnt s1)%nat; [|repeat split; assumption].
  unfold adaptiveUpdate. change (hasT s1) with (hasT s). rewrite Hh.
  match goal with |- context [extend fin ?S0 ?A ?B ?C ?D] =>
    exact (extend_keeps_always S0 A B C D Hh) end.
Qed.

Lemma evalDirect_keeps_always s pts : hasT s = true -> Keeps s (fst (evalDirect fin s pts)).
Proof.
  intro Hh. unfold evalDirect. destruct (adaptive s); [|repeat split; assumption].
  pose proof (schedule_keeps_always s pts Hh) as K.
  destruct (schedule fin s pts) as [s' [u|e]]; exact K.
Qed.

Lemma side_keeps_always s0 s m edge mask pts acc : hasT s = true ->
  Keeps s (fst (side fin s0 s m edge mask pts acc)).
Proof.
  intro Hh. unfold side. destruct (existsb _ mask); [|repeat split; assumption].
  destruct m; try (repeat split; assumption).
  pose proof (evalDirect_keeps_always s (select mask pts) Hh) as K.
  destruct (evalDirect fin s (select mask pts)) as [s' [u|e]]; exact K.
Qed.

(** whatever the history (adaptive bookkeeping on, an update firing in the middle of the call):
    a successful _evaluateOutOfBounds answers EVERY point in the state in which it was entered *)
Lemma evalOOB_form s pts s' ts : hasT s = true -> evalOOB fin s pts = (s', Ok ts) ->
  ts = map (oob3 s) pts.
Proof.
  intros Hh. unfold evalOOB, oob3.
  destruct (mode_eqb (mlo s) ERROR && mode_eqb (mhi s) ERROR); [intro H; discriminate H|].
  rewrite Hh. cbn [negb orb].
  destruct (mode_eqb (mlo s) NONE && mode_eqb (mhi s) NONE) eqn:EN.
  - intro H. apply evalDirect_tags in H. exact H.
  - match goal with |- context [side fin s s ?m ?e ?k ?p ?a] =>
      pose proof (side_keeps_always s s m e k p a Hh) as K1;
      destruct (side fin s s m e k p a) as [s1 [acc1|e1]] eqn:E1 end; [|intro H; discriminate H].
    cbn [fst] in K1. destruct K1 as [_ [_ Km2]]. intro Eo.
    apply (side_form s s (mlo s) (rmin s) (fun q => Qle_bool q (rmin s))) in E1. subst acc1.
    apply (side_form s s1 (mhi s1) (rmax s) (fun q => Qle_bool (rmax s) q)) in Eo. subst ts.
    apply map_ext. intro q. rewrite Km2.
    destruct (Qle_bool (rmax s) q); [reflexivity|].
    destruct (Qle_bool q (rmin s)); reflexivity.
Qed.

Lemma oob3_spec s q : TInv s -> hasT s = true -> inrange s q = false -> oob3 s q = spec_tag s 0 q.
Proof.
  intros HT Hh Hq. rewrite <- (oob_is_spec s q HT Hh Hq). unfold oob3, oob_tag.
  pose proof (range_nonempty s HT Hh) as Hr. pose proof (inrange_false s q Hq) as Hside.
  destruct (mode_eqb (mlo s) NONE && mode_eqb (mhi s) NONE) eqn:EN.
  - apply andb_true_iff in EN. destruct EN as [E1 E2]. apply mode_eqb_eq in E1, E2.
    rewrite E1, E2. destruct (Qle_bool (rmax s) q); reflexivity.
  - destruct (Qle_bool (rmax s) q) eqn:Eu; [reflexivity|]. apply Qle_bool_false in Eu.
    replace (Qle_bool q (rmin s)) with true by (symmetry; apply Qle_bool_iff; destruct Hside; lra).
    reflexivity.
Qed.

Lemma evaluate_all_histories_l s sh pts s' sh' ts : Inv s -> hasT s = true ->
  evaluate fin s true sh pts = (s', Ok (sh', ts)) -> ts = map (spec_tag s 0) pts.
Proof.
  intros [HT _] Hh. unfold evaluate. rewrite Hh. cbn [negb orb]. rewrite map_map.
  set (m' := fun q => negb (inrange s q)).
  set (base := map (fun q => if inrange s q then splineAt s 0 q else Uninit) pts).
  assert (Merge : scatter (map m' pts) (map (oob3 s) (select (map m' pts) pts)) base =
                  map (spec_tag s 0) pts).
  { unfold base. rewrite scatter_map. apply map_ext. intro q. unfold m'.
    destruct (inrange s q) eqn:Eq; cbn [negb].
    - unfold spec_tag. rewrite Eq. apply splineAt_in; auto. apply inrange_iff; exact Eq.
    - apply oob3_spec; auto. }
  destruct (select (map m' pts) pts) as [|o out] eqn:Es.
  - intro H. injection H as _ _ <-. rewrite <- Merge. cbn [map]. rewrite scatter_nil. reflexivity.
  - destruct (evalOOB fin s (o :: out)) as [s2 [ts0|e]] eqn:Eo; intro H; [|discriminate H].
    injection H as _ _ <-. apply (evalOOB_form s (o :: out) s2 ts0 Hh) in Eo. subst ts0.
    exact Merge.
Qed.

(** the derivative for every history: inside -> the spline's derivative in the state of the call;
    outside -> the stencil over out-of-bounds values answered in the state [s1] in which
    helpers.derivative's SECOND call of _evaluateOutOfBounds is entered (= the state of the call
    unless a direct evaluation of the first call moved it) *)
Definition dspec2 (s s1 : st) (n : nat) (dx q : Q) : dtag :=
  if inrange s q then DOne (Spl n KIn q)
  else DFD (map (fun z => oob_red s1 (Qred (q + inject_Z z * dx))) (stencil n)).

Lemma deriv_all_histories_l s n sh pts dx pos s' sh' ts : Inv s -> hasT s = true ->
  (n = 1 \/ n = 2)%nat ->
  derivative fin s n true sh pts dx pos = (s', Ok (sh', ts)) ->
  exists s1, Inv s1 /\ hasT s1 = true /\ mlo s1 = mlo s /\ mhi s1 = mhi s /\
             (adaptive s = false -> s1 = s) /\ ts = map (dspec2 s s1 n dx) pts.
Proof.
  intros HI Hh Hn. pose proof HI as [HT _]. unfold derivative. rewrite Hh. cbn [negb orb].
  replace (2 <? n)%nat with false by (destruct Hn; subst; reflexivity).
  rewrite map_map.
  set (m' := fun q => negb (inrange s q)).
  set (base := map (fun q => DOne (if inrange s q then splineAt s n q else Uninit)) pts).
  assert (Merge : forall s1, TInv s1 -> hasT s1 = true ->
            scatter (map m' pts) (fd_columns n (length (select (map m' pts) pts))
                                    (map (oob3 s1) (fd_pos n dx (select (map m' pts) pts)))) base
            = map (dspec2 s s1 n dx) pts).
  { intros s1 HT1 Hh1. rewrite fd_columns_spec. unfold base. rewrite scatter_map.
    apply map_ext. intro q. unfold m', dspec2, fd_tag.
    destruct (inrange s q) eqn:Eq; cbn [negb].
    - f_equal. apply splineAt_in; auto. apply inrange_iff; exact Eq.
    - f_equal. apply map_ext. intro z. apply oob3_red; assumption. }
  destruct (select (map m' pts) pts) as [|o out] eqn:Es.
  - intro H. injection H as _ _ <-. exists s. split; [exact HI|]. split; [exact Hh|].
    split; [reflexivity|]. split; [reflexivity|]. split; [intros _; reflexivity|].
    rewrite <- (Merge s HT Hh). cbn [length fd_pos fd_columns seq map]. unfold fd_columns.
    cbn [length seq map]. rewrite scatter_nil. reflexivity.
  - unfold twice.
    pose proof (evalOOB_good s (fd_pos n dx (o :: out)) HI) as G1.
    destruct (evalOOB fin s (fd_pos n dx (o :: out))) as [s1 [t1|e1]] eqn:E1; [|intro H; discriminate H].
    cbn [fst] in G1.
    assert (K1 : Keeps s s1).
    { unfold evalOOB in E1.
      destruct (mode_eqb (mlo s) ERROR && mode_eqb (mhi s) ERROR); [discriminate E1|].
      rewrite Hh in E1. cbn [negb orb] in E1.
      destruct (mode_eqb (mlo s) NONE && mode_eqb (mhi s) NONE).
      - pose proof (evalDirect_keeps_always s (fd_pos n dx (o :: out)) Hh) as K. rewrite E1 in K. exact K.
      - match type of E1 with context [side fin s s ?m ?e ?k ?p ?a] =>
          pose proof (side_keeps_always s s m e k p a Hh) as Ka;
          destruct (side fin s s m e k p a) as [sa [acca|ea]] end; [|discriminate E1].
        cbn [fst] in Ka. destruct Ka as [Ha1 [Ha2 Ha3]].
        match type of E1 with side fin ?S0 sa ?m ?e ?k ?p ?a = _ =>
          pose proof (side_keeps_always S0 sa m e k p a Ha1) as Kb end.
        rewrite E1 in Kb. cbn [fst] in Kb. destruct Kb as [Hb1 [Hb2 Hb3]].
        repeat split; congruence. }
    destruct K1 as [Hh1 [Km1 Km2]].
    destruct (evalOOB fin s1 (fd_pos n dx (o :: out))) as [s2 [t2|e2]] eqn:E2; intro H; [|discriminate H].
    injection H as _ _ <-.
    apply (evalOOB_form s1 _ s2 t2 Hh1) in E2. subst t2.
    exists s1. split; [exact (proj1 G1)|]. split; [exact Hh1|]. split; [exact Km1|].
    split; [exact Km2|]. split.
    + intro Ha. unfold evalOOB in E1.
      destruct (mode_eqb (mlo s) ERROR && mode_eqb (mhi s) ERROR); [discriminate E1|].
      rewrite Hh in E1. cbn [negb orb] in E1.
      destruct (mode_eqb (mlo s) NONE && mode_eqb (mhi s) NONE).
      * rewrite evalDirect_pure in E1 by exact Ha. congruence.
      * match type of E1 with context [side fin s s ?m ?e ?k ?p ?a] =>
          pose proof (side_state s s m e k p a (or_intror Ha)) as Sa;
          destruct (side fin s s m e k p a) as [sa [acca|ea]] end; [|discriminate E1].
        cbn [fst] in Sa. subst sa.
        match type of E1 with side fin ?S0 s ?m ?e ?k ?p ?a = _ =>
          pose proof (side_state S0 s m e k p a (or_intror Ha)) as Sb end.
        rewrite E1 in Sb. cbn [fst] in Sb. congruence.
    + apply (Merge s1 (proj1 (proj1 G1)) Hh1).
Qed.

(** which rows an operation keeps: a user table / a file in ANY order, and an extension *)
Lemma interpolate_rows s xs s' : interpolate fin s xs = (s', Ok tt) ->
  tab s' = filter fin xs /\ vals s' = filter fin xs /\ incr (filter fin xs).
Proof.
  intro H. destruct (interpolate_cases s xs) as [[Hi [_ E]]|[_ E]]; rewrite E in H; inversion H; subst.
  cbn. auto.
Qed.

Lemma extend_rows s a b pLo pHi s' : TInv s -> hasT s = true ->
  extend fin s a b pLo pHi = (s', Ok tt) ->
  tab s' = filter fin (ext_lo s a pLo) ++ tab s ++ filter fin (ext_hi s b pHi) /\ vals s' = tab s'.
Proof.
  intros HT Hh. rewrite extend_unfold by assumption.
  destruct (HT Hh) as [_ [_ [_ [_ [_ [Hf _]]]]]].
  match goal with |- context [interpolate fin s ?X] =>
    destruct (interpolate_cases s X) as [[_ [_ E]]|[_ E]]; rewrite E end; intro H;
    [|discriminate H].
  injection H as <-. cbn [adaptive set_table].
  destruct (adaptive s); cbn [tab vals set_adapt set_table];
    rewrite !filter_app, (filter_all fin (tab s) Hf); auto.
Qed.
End Props.

(* ------------------------------------------------------------------------------------ *)
(** * Statements over ALL call histories *)

(** a state of the class after any sequence of operations from a freshly constructed object *)
Definition reachable (fin : Q -> bool) (s : st) : Prop :=
  exists k thr n0 a ops, s = run fin (init k thr n0 a) ops.

Lemma reachable_inv fin s : reachable fin s -> Inv fin s.
Proof.
  intros [k [thr [n0 [a [ops ->]]]]]. exact (proj1 (run_good fin ops _ (init_inv fin k thr n0 a))).
Qed.

Lemma reachable_step fin s o : reachable fin s -> reachable fin (fst (step fin s o)).
Proof.
  intros [k [thr [n0 [a [ops ->]]]]]. exists k, thr, n0, a, (ops ++ [o]).
  generalize (init k thr n0 a). induction ops as [|x r IH]; intro s0; [reflexivity|]. cbn [run app]. apply IH.
Qed.


(** whatever preceded, the stored abscissae are strictly increasing, at least two, all with
    finite rows *)
Theorem abscissae_sorted fin s : reachable fin s -> hasT s = true ->
  incr (tab s) /\ (2 <= length (tab s))%nat /\ (forall x, In x (tab s) -> fin x = true).
Proof.
  intros R Hh. destruct (proj1 (reachable_inv fin s R) Hh) as [? [? [_ [_ [_ [? _]]]]]]. auto.
Qed.
Print Assumptions abscissae_sorted.

(** VALUE PAIRING: whatever preceded (extensions, re-reads, mode changes, user tables in any
    order), the value stored at index i is the function's value AT the abscissa stored at index
    i -- no operation permutes, shifts or drops one column without the other *)
Theorem values_paired fin s : reachable fin s -> hasT s = true -> vals s = tab s.
Proof.
  intros R Hh. destruct (proj1 (reachable_inv fin s R) Hh) as [_ [_ [_ [_ [_ [_ ?]]]]]]. assumption.
Qed.
Print Assumptions values_paired.

(** the reported range is [first, last] of the stored abscissae, and non-degenerate *)
Theorem range_is_table_ends fin s : reachable fin s -> hasT s = true ->
  rmin s = hd 0 (tab s) /\ rmax s = last (tab s) 0 /\ rmin s < rmax s.
Proof.
  intros R Hh. pose proof (reachable_inv fin s R) as [HT _].
  destruct (HT Hh) as [_ [_ [? [? _]]]]. split; [assumption|]. split; [assumption|].
  apply (range_nonempty fin); assumption.
Qed.
Print Assumptions range_is_table_ends.

(** the current spline extrapolates iff a FUNCTION mode is selected -- after every operation *)
Theorem extrapolate_flag fin s : reachable fin s -> hasT s = true ->
  extrap s = (is_fun (mlo s) || is_fun (mhi s)).
Proof.
  intros R Hh. destruct (proj1 (reachable_inv fin s R) Hh) as [_ [_ [_ [_ [? _]]]]]. assumption.
Qed.
Print Assumptions extrapolate_flag.

(** pending counter = number of pending points, and it is below the threshold after every
    operation (the update fired whenever it was reached) *)
Theorem counters_below_threshold fin s : reachable fin s ->
  cnt s = length (pend s) /\ ((0 < cfg_thr s)%nat -> (cnt s < cfg_thr s)%nat).
Proof. intro R. exact (proj2 (reachable_inv fin s R)). Qed.
Print Assumptions counters_below_threshold.

Theorem extension_never_fails fin s newMin newMax pLo pHi : reachable fin s -> hasT s = true ->
  exists s', extend fin s newMin newMax pLo pHi = (s', Ok tt).
Proof. intros R Hh. apply extend_total; [exact (proj1 (reachable_inv fin s R))|exact Hh]. Qed.
Print Assumptions extension_never_fails.

Theorem shape_contract fin s u sh pts s' sh' ts :
  evaluate fin s u sh pts = (s', Ok (sh', ts)) ->
  sh' = oshape (cfg_k s) sh /\ length ts = length pts.
Proof. apply shape_contract_l. Qed.
Print Assumptions shape_contract.

Theorem dispatch_spec fin s sh pts : reachable fin s -> hasT s = true -> adaptive s = false ->
  mlo s <> ERROR -> mhi s <> ERROR ->
  evaluate fin s true sh pts = (s, Ok (oshape (cfg_k s) sh, map (spec_tag fin s 0) pts)).
Proof. intros R. apply evaluate_spec_l. exact (reachable_inv fin s R). Qed.
Print Assumptions dispatch_spec.

Theorem inrange_spline fin s sh pts s' sh' ts i q : reachable fin s -> hasT s = true ->
  evaluate fin s true sh pts = (s', Ok (sh', ts)) ->
  nth_error pts i = Some q -> inrange s q = true -> nth_error ts i = Some (Spl 0 KIn q).
Proof. intros R. apply inrange_spline_l. exact (reachable_inv fin s R). Qed.
Print Assumptions inrange_spline.

Theorem error_mode_raises fin s sh pts : reachable fin s -> hasT s = true -> adaptive s = false ->
  ((exists q, In q pts /\ q < rmin s) /\ mlo s = ERROR) \/
  ((exists q, In q pts /\ rmax s < q) /\ mhi s = ERROR) ->
  evaluate fin s true sh pts = (s, Err EValue).
Proof. intros R. apply evaluate_error_l. exact (reachable_inv fin s R). Qed.
Print Assumptions error_mode_raises.

Theorem evaluate_never_raises fin s sh pts : reachable fin s -> hasT s = true ->
  mlo s <> ERROR -> mhi s <> ERROR ->
  exists s' ts, evaluate fin s true sh pts = (s', Ok (oshape (cfg_k s) sh, ts)).
Proof. intros R. apply evaluate_total_l. exact (reachable_inv fin s R). Qed.
Print Assumptions evaluate_never_raises.

Theorem derivative_dispatch fin s n sh pts dx pos : reachable fin s -> hasT s = true ->
  adaptive s = false -> mlo s <> ERROR -> mhi s <> ERROR -> (n = 1 \/ n = 2)%nat ->
  derivative fin s n true sh pts dx pos =
  (s, Ok (oshape (cfg_k s) sh, map (dspec fin s n dx) pts)).
Proof. intros R. apply deriv_spec_l. exact (reachable_inv fin s R). Qed.
Print Assumptions derivative_dispatch.

(** the same with every stencil point reduced to the property's vocabulary: a FUNCTION side is
    an EXTRAPOLATING spline (never nan), a CONSTANT side the spline at the stored end, a stencil
    point reaching back inside the table the spline inside its knots *)
Theorem derivative_dispatch_reduced fin s n sh pts dx pos : reachable fin s -> hasT s = true ->
  adaptive s = false -> mlo s <> ERROR -> mhi s <> ERROR -> (n = 1 \/ n = 2)%nat ->
  derivative fin s n true sh pts dx pos =
  (s, Ok (oshape (cfg_k s) sh, map (dspec_red fin s n dx) pts)).
Proof.
  intros R Hh Ha Hlo Hhi Hn. pose proof (reachable_inv fin s R) as HI.
  rewrite (deriv_spec_l fin s n sh pts dx pos HI Hh Ha Hlo Hhi Hn).
  rewrite (dspec_reduce fin s n dx pts (proj1 HI) Hh). reflexivity.
Qed.
Print Assumptions derivative_dispatch_reduced.

(** DISPATCH FOR EVERY HISTORY (adaptive bookkeeping on or off, an adaptive update firing in
    the middle of the call included): a successful evaluation is the element-wise map of the
    specification IN THE STATE OF THE CALL -- inside -> spline in its knot range; NONE -> direct;
    CONSTANT -> spline at the end stored when the call was made; FUNCTION -> extrapolating
    spline, never nan *)
Theorem dispatch_all_histories fin s sh pts s' sh' ts : reachable fin s -> hasT s = true ->
  evaluate fin s true sh pts = (s', Ok (sh', ts)) -> ts = map (spec_tag fin s 0) pts.
Proof. intros R. apply evaluate_all_histories_l. exact (reachable_inv fin s R). Qed.
Print Assumptions dispatch_all_histories.

(** DERIVATIVE DISPATCH FOR EVERY HISTORY: inside -> the spline's derivative in the state of the
    call; outside -> the stencil whose every point is answered by the mode of its own side in the
    valid, same-modes state [s1] in which helpers.derivative's second call of
    _evaluateOutOfBounds is entered ([s1] is the state of the call when adaptive bookkeeping is
    off; with it on, the first call's direct evaluations may have extended the table) *)
Theorem derivative_all_histories fin s n sh pts dx pos s' sh' ts : reachable fin s ->
  hasT s = true -> (n = 1 \/ n = 2)%nat ->
  derivative fin s n true sh pts dx pos = (s', Ok (sh', ts)) ->
  exists s1, Inv fin s1 /\ hasT s1 = true /\ mlo s1 = mlo s /\ mhi s1 = mhi s /\
             (adaptive s = false -> s1 = s) /\ ts = map (dspec2 fin s s1 n dx) pts.
Proof. intros R. apply deriv_all_histories_l. exact (reachable_inv fin s R). Qed.
Print Assumptions derivative_all_histories.

(** rows kept by a user-supplied table or a file, rows in ANY order: exactly the finite ones, in
    the given order, each value with its abscissa -- accepted only if that order is strictly
    increasing; and by an extension: old rows + the finite rows of the two new blocks *)
Theorem user_table_rows fin s xs s' : interpolate fin s xs = (s', Ok tt) ->
  tab s' = filter fin xs /\ vals s' = filter fin xs /\ incr (filter fin xs).
Proof. apply interpolate_rows. Qed.
Print Assumptions user_table_rows.

Theorem extension_rows fin s a b pLo pHi s' : reachable fin s -> hasT s = true ->
  extend fin s a b pLo pHi = (s', Ok tt) ->
  tab s' = filter fin (ext_lo s a pLo) ++ tab s ++ filter fin (ext_hi s b pHi) /\ vals s' = tab s'.
Proof. intros R. apply extend_rows. exact (proj1 (reachable_inv fin s R)). Qed.
Print Assumptions extension_rows.

Theorem derivative_inrange fin s n sh pts dx pos s' sh' ts i q : reachable fin s -> hasT s = true ->
  (n = 1 \/ n = 2)%nat -> derivative fin s n true sh pts dx pos = (s', Ok (sh', ts)) ->
  nth_error pts i = Some q -> inrange s q = true -> nth_error ts i = Some (DOne (Spl n KIn q)).
Proof. intros R. apply deriv_inrange_l. exact (reachable_inv fin s R). Qed.
Print Assumptions derivative_inrange.

Theorem derivative_shape fin s n u sh pts dx pos s' sh' ts :
  derivative fin s n u sh pts dx pos = (s', Ok (sh', ts)) ->
  sh' = oshape (cfg_k s) sh /\ length ts = length pts.
Proof. apply deriv_shape_l. Qed.
Print Assumptions derivative_shape.

Theorem adaptive_trigger fin s pts :
  let xv := usort (filter fin pts) in
  incr xv /\
  (xv = [] -> schedule fin s pts = (s, Ok tt)) /\
  (xv <> [] -> (cnt s + length xv < cfg_thr s)%nat ->
     schedule fin s pts = (set_adapt s (adaptive s) (cnt s + length xv) (pend s ++ xv), Ok tt)) /\
  (xv <> [] -> (cfg_thr s <= cnt s + length xv)%nat ->
     schedule fin s pts = adaptiveUpdate fin (set_adapt s (adaptive s) (cnt s + length xv) (pend s ++ xv))
     /\ cnt (fst (schedule fin s pts)) = 0%nat /\ pend (fst (schedule fin s pts)) = []).
Proof. split; [apply usort_incr_l|apply adaptive_trigger_l]. Qed.
Print Assumptions adaptive_trigger.

Theorem nonfinite_dropped_rowwise fin s a b n :
  (forall s', newTable fin s a b n = (s', Ok tt) ->
     tab s' = filter fin (linspace a b n) /\ hasT s' = true /\
     rmin s' = hd 0 (tab s') /\ rmax s' = last (tab s') 0) /\
  (a < b -> (2 <= length (filter fin (linspace a b n)))%nat ->
     exists s', newTable fin s a b n = (s', Ok tt)).
Proof. apply nonfinite_rows_l. Qed.
Print Assumptions nonfinite_dropped_rowwise.

Theorem roundtrip_table fin s : reachable fin s -> hasT s = true -> writeRead fin s = (s, Ok tt).
Proof. intros R. apply roundtrip_l. exact (reachable_inv fin s R). Qed.
Print Assumptions roundtrip_table.

Theorem mode_change_rebuilds fin s a b : reachable fin s -> hasT s = true ->
  exists s', setModes fin s a b = (s', Ok tt) /\ tab s' = tab s /\ vals s' = vals s /\
             rmin s' = rmin s /\
             rmax s' = rmax s /\ mlo s' = a /\ mhi s' = b /\ extrap s' = (is_fun a || is_fun b).
Proof. intros R. apply setModes_spec_l. exact (reachable_inv fin s R). Qed.
Print Assumptions mode_change_rebuilds.

(** the hypotheses are satisfiable and the statements not vacuous: a concrete history (a
    function that is non-finite on [3/2, 3]) reaching a state with a table, then one call
    through every branch *)
Definition fin_ex (q : Q) : bool := negb (Qle_bool (3 # 2) q && Qle_bool q 3).
Definition s_ex : st :=
  run fin_ex (init 2 3 10 true)
      [Evaluate true [] [1 # 2]; Evaluate true [2%nat] [1 # 4; 2]; NewTable 0 2 9; Extend (-1) 3 2 4;
       DisableAdaptive; SetModes CONSTANT FUNCTION].
Example witness :
  reachable fin_ex s_ex /\ hasT s_ex = true /\ adaptive s_ex = false /\
  tab s_ex = [-1; -1 # 2; 0; 1 # 4; 1 # 2; 3 # 4; 1; 5 # 4] /\ extrap s_ex = true /\
  snd (evaluate fin_ex s_ex true [3%nat] [-2; 1 # 3; 2]) =
    Ok ([3%nat; 2%nat], [Spl 0 KIn (-1); Spl 0 KIn (1 # 3); Spl 0 KExt 2]) /\
  snd (derivative fin_ex s_ex 1 true [2%nat] [1; 321 # 256] (1 # 256) []) =
    Ok ([2%nat; 2%nat], [DOne (Spl 1 KIn 1);
                         DFD [Spl 0 KIn (319 # 256); Spl 0 KIn (5 # 4); Spl 0 KExt (161 # 128);
                              Spl 0 KExt (323 # 256)]]).
Proof.
  split; [do 5 eexists; reflexivity|]. vm_compute. repeat split; reflexivity.
Qed.
Print Assumptions witness.

(** user tables: one glued from two pieces is rejected and the old table kept; a file with other
    abscissae replaces it; a missing file changes nothing; an extension by less than 1e-8 of the
    table width appends nothing *)
Example witness_user_tables :
  let s0 := run fin_ex (init 1 3 10 false) [NewTable 0 1 5] in
  snd (step fin_ex s0 (FromValues [1; 1 # 2; 0; 5 # 4])) = OUnit (Err EValue) /\
  tab (fst (step fin_ex s0 (FromValues [1; 1 # 2; 0; 5 # 4]))) = tab s0 /\
  tab (fst (step fin_ex s0 (ReadFile [0; 1 # 2; 1; 2]))) = [0; 1 # 2; 1] /\
  vals (fst (step fin_ex s0 (ReadFile [0; 1 # 2; 1; 2]))) = [0; 1 # 2; 1] /\
  fst (step fin_ex s0 ReadMissing) = s0 /\
  tab (fst (step fin_ex s0 (Extend (0 - (1 # 1000000000000)) 1 4 4))) = tab s0.
Proof. vm_compute. repeat split; reflexivity. Qed.
Print Assumptions witness_user_tables.

(* ------------------------------------------------------------------------------------ *)
(** * Facts read off the source on this run agree with the model (kept last: a change of the
      source outline must not hide the theorems above) *)
Theorem facts_agree :
  src_stencil1 = stencil 1 /\ src_stencil2 = stencil 2 /\ src_fd_order = 4%nat /\
  src_fd_call_plain = true /\ src_modes_before_rebuild = true /\ src_range_from_filtered = true /\
  src_flag_is_function_mode = true /\ src_append_frac_table == 1 # 5 /\
  src_append_frac_notable == 1 # 2 /\ src_notable_guard = 2%nat /\ src_notable_guard_const == 1 # 100000000 /\
  src_resolution == 1 # 100000000 /\ src_extend_no_arange = true.
Proof. vm_compute. repeat split; reflexivity || discriminate. Qed.
Print Assumptions facts_agree.
