(** C15 -- the general hydrodynamics solver and the closed-form template solver agree when
    the equation of state is itself of the constant-sound-speed template form.

    Both solvers are GENERATED on this run (module GenC15.HydroGen): the general one
    (vpvmAndvpovm, matching, tmFromvpsq, deton_result, findHydroBoundaries, as in C02) and
    the template one (t_init_<attr>: every attribute computed by __init__ from the equation
    of state; t_findJouguetVelocity, t_getVp, t_wFromAlpha, t__findTm, t_detonationVAndT,
    t_findMatching_result (tail of findMatching after the shooting root), t_findHydroBoundaries).
    GenC15.C02Core is Props/C02.v compiled against the same generated module.
    The theorems say: on the template equation of state the closed forms of the template
    solver are solutions of the residuals the general solver hands to scipy, so both
    return the same wall-frame quantities once they agree on the one shooting unknown v+
    (deflagrations/hybrids; that part integrates the shock ODE and is compared numerically
    by tools/props/C15.py); for detonations nothing is left to scipy on the template side. *)
From Coq Require Import Reals Lra Psatz.
From Interval Require Import Tactic.
From WG Require Import Lib.NumpySem Lib.HydroMatch Lib.HydroMatchTemplate.
From GenC15 Require Import HydroGen C02Core.
Local Open Scope R_scope.

(** * Facts about the generated template formulas that hold for EVERY template object *)
Section AnyTemplate.
Variable e : t_env.

(** getVp returns a solution of eq. (20a), on both branches *)
Theorem getVp_solves_20a vm al br :
  br * br = 1 ->
  0 <= vm ^ 4 - 2 * t_cb2 e * vm ^ 2 * (1 - 6 * al)
       + t_cb2 e ^ 2 * (1 - 12 * vm ^ 2 * al * (1 - 3 * al)) ->
  vm + 3 * t_cb2 e * vm * al <> 0 ->
  let vp := t_getVp e vm al br in
  (vp - vm) * (vp * vm - t_cb2 e) = 3 * al * t_cb2 e * vm * (1 - vp * vp).
Proof.
  intros Hb Hd HD vp.
  set (disc := vm ^ 4 - 2 * t_cb2 e * vm ^ 2 * (1 - 6 * al)
               + t_cb2 e ^ 2 * (1 - 12 * vm ^ 2 * al * (1 - 3 * al))) in *.
  pose proof (getVp_poly (t_cb2 e) vm al br (sqrt disc) Hb (sqrt_sqrt disc Hd)) as P.
  cbv zeta in P.
  set (N := t_cb2 e + vm ^ 2 + br * sqrt disc) in *.
  set (D := vm + 3 * t_cb2 e * vm * al) in *.
  assert (Evp : vp = N / (2 * D)).
  { unfold vp, t_getVp. cbv zeta. fold disc. rewrite Rmax_right by exact Hd.
    unfold N, D. field. exact HD. }
  rewrite Evp.
  apply Rmult_eq_reg_r with (4 * D * D); [|nra].
  transitivity ((N - 2 * D * vm) * (N * vm - 2 * D * t_cb2 e)); [field; exact HD|].
  rewrite P. field. exact HD.
Qed.

(** the alpha_+ computed from (v+, v-) in findMatching / matchDeflagOrHybInitial is the one
    for which eq. (20a) holds: the two directions use the same relation *)
Lemma alpha_from_velocities vp vm :
  vm <> 0 -> t_cb2 e <> 0 -> 1 - vp ^ 2 <> 0 ->
  let al := (vp / vm - 1) * (vp * vm / t_cb2 e - 1) / (1 - vp ^ 2) / 3 in
  (vp - vm) * (vp * vm - t_cb2 e) = 3 * al * t_cb2 e * vm * (1 - vp * vp).
Proof. intros H1 H2 H3 al. unfold al. field. repeat split; assumption. Qed.

(** wFromAlpha inverts alpha_+(w+) up to the 1e-100 regularisation written in the code *)
Theorem wFromAlpha_near_inverse al :
  let A := (1 - 3 * t_alN e) * t_mu e - t_nu e in
  let B := (1 - 3 * al) * t_mu e - t_nu e in
  B <> 0 ->
  Rabs (t_wFromAlpha e al * B - A) <= (1 / 10 ^ 100) * (1 + Rabs (t_wFromAlpha e al)).
Proof.
  intros A B HB. unfold t_wFromAlpha. cbv zeta. fold A B.
  set (d := 1 / 10 ^ 100).
  assert (Hd : 0 < d) by (unfold d; apply Rdiv_lt_0_compat; [lra|apply pow_lt; lra]).
  match goal with |- context [sign_R A * sign_R B * (Rabs A + ?x) / (Rabs B + ?y)] =>
    replace x with d by (unfold d; field_simplify; try reflexivity; apply pow_nonzero; lra);
    replace y with d by (unfold d; field_simplify; try reflexivity; apply pow_nonzero; lra) end.
  set (w := sign_R A * sign_R B * (Rabs A + d) / (Rabs B + d)).
  assert (HBd : 0 < Rabs B + d) by (pose proof (Rabs_pos B); lra).
  assert (W : w * (Rabs B + d) = sign_R A * sign_R B * (Rabs A + d)).
  { unfold w. field. lra. }
  assert (SB : sign_R B * Rabs B = B /\ sign_R B * sign_R B = 1).
  { unfold sign_R, Rabs. destruct (Rlt_dec 0 B); destruct (Rlt_dec B 0); destruct (Rcase_abs B);
      split; lra. }
  assert (SA : sign_R A * Rabs A = A /\ Rabs (sign_R A) <= 1).
  { unfold sign_R. destruct (Rlt_dec 0 A); [|destruct (Rlt_dec A 0)].
    - rewrite Rabs_pos_eq by lra. rewrite Rabs_pos_eq by lra. split; lra.
    - rewrite (Rabs_left A) by lra. rewrite Rabs_left by lra. split; lra.
    - assert (A = 0) by lra. subst A. rewrite H. rewrite !Rabs_R0. split; lra. }
  destruct SB as [SB1 SB2]. destruct SA as [SA1 SA2].
  (* multiply W by sign B *)
  assert (K : w * B - A = d * (sign_R A - w * sign_R B)).
  { assert (W2 : sign_R B * (w * (Rabs B + d)) = sign_R B * (sign_R A * sign_R B * (Rabs A + d)))
      by (rewrite W; reflexivity).
    replace (sign_R B * (w * (Rabs B + d))) with (w * (sign_R B * Rabs B) + w * sign_R B * d) in W2 by ring.
    replace (sign_R B * (sign_R A * sign_R B * (Rabs A + d)))
      with ((sign_R B * sign_R B) * (sign_R A * Rabs A + sign_R A * d)) in W2 by ring.
    rewrite SB1, SB2, SA1 in W2. lra. }
  rewrite K, Rabs_mult, (Rabs_pos_eq d) by lra.
  apply Rmult_le_compat_l; [lra|].
  eapply Rle_trans; [apply Rabs_triang|]. rewrite Rabs_Ropp, Rabs_mult.
  assert (Rabs (sign_R B) <= 1).
  { unfold sign_R. destruct (Rlt_dec 0 B); [|destruct (Rlt_dec B 0)];
      [rewrite Rabs_pos_eq|rewrite Rabs_left|rewrite Rabs_R0]; lra. }
  pose proof (Rabs_pos w). nra.
Qed.
End AnyTemplate.

(** * The template equation of state, and the two solver objects built on it *)
Section C15.
Variables wN Tn alN psiN cb2 cs2 : R.
Hypothesis HwN : 0 < wN.
Hypothesis HTn : 0 < Tn.
Hypothesis Hcb2 : 0 < cb2.
Hypothesis Hcs2 : 0 < cs2.
Hypothesis Hpsi : 0 < psiN.
(** attributes that come out of solvers (not constrained here) *)
Variables TMaxH TMinH vMinG vJG vJT vMinT : R.

Notation mu := (mu_ cs2).
Notation nu := (nu_ cb2).
Notation eps := (eps_ wN alN cb2 cs2).
Notation WH := (wH wN Tn cs2).
Notation WL := (wL wN Tn psiN cb2).
Notation PH := (pH wN Tn alN cb2 cs2).
Notation PL := (pL wN Tn psiN cb2).
Notation EH := (eH wN Tn alN cb2 cs2).
Notation EL := (eL wN Tn psiN cb2).

(** general solver on the template equation of state *)
Definition eg : env :=
  {| Tnucl := Tn; TMaxHydro := TMaxH; TMinHydro := TMinH; vMin := vMinG; vJ := vJG;
     pHighT := PH; pLowT := PL; eHighT := EH; eLowT := EL; wHighT := WH; wLowT := WL;
     csqHighT := fun _ => cs2; csqLowT := fun _ => cb2 |}.
(** template solver object for the same equation of state *)
Definition et : t_env :=
  {| t_cb2 := cb2; t_cs2 := cs2; t_alN := alN; t_psiN := psiN; t_cb := sqrt cb2;
     t_cs := sqrt cs2; t_wN := wN; t_pN := PH Tn; t_Tnucl := Tn; t_nu := nu; t_mu := mu;
     t_vJ := vJT; t_vMin := vMinT; t_epsilon := eps;
     th_pHighT := PH; th_pLowT := PL; th_wHighT := WH; th_wLowT := WL;
     th_csqHighT := fun _ => cs2; th_csqLowT := fun _ => cb2; th_Tnucl := Tn |}.

Lemma eg_enthalpyHigh T : wHighT eg T = eHighT eg T + pHighT eg T.
Proof. cbn [wHighT eHighT pHighT eg]. unfold eH. ring. Qed.
Lemma eg_enthalpyLow T : wLowT eg T = eLowT eg T + pLowT eg T.
Proof. cbn [wLowT eLowT pLowT eg]. unfold eL. ring. Qed.

(** ** __init__ recovers the parameters: [et] IS the object the constructor builds *)
Theorem template_init_recovers :
  t_init_cb2 et = t_cb2 et /\ t_init_cs2 et = t_cs2 et /\ t_init_alN et = t_alN et /\
  t_init_psiN et = t_psiN et /\ t_init_cb et = t_cb et /\ t_init_cs et = t_cs et /\
  t_init_wN et = t_wN et /\ t_init_pN et = t_pN et /\ t_init_Tnucl et = t_Tnucl et /\
  t_init_nu et = t_nu et /\ t_init_mu et = t_mu et /\ t_init_epsilon et = t_epsilon et.
Proof.
  unfold t_init_cb2, t_init_cs2, t_init_alN, t_init_psiN, t_init_cb, t_init_cs, t_init_wN,
    t_init_pN, t_init_Tnucl, t_init_nu, t_init_mu, t_init_epsilon.
  cbv zeta. cbn [et t_cb2 t_cs2 t_alN t_psiN t_cb t_cs t_wN t_pN t_Tnucl t_nu t_mu t_epsilon
    th_pHighT th_pLowT th_wHighT th_wLowT th_csqHighT th_csqLowT th_Tnucl].
  repeat split; try reflexivity.
  - apply (alpha_n_recovered wN Tn alN psiN cb2 cs2); assumption.
  - rewrite wH_Tn, wL_Tn by assumption. field. lra.
  - apply wH_Tn. assumption.
Qed.

(** ** _findTm is conservation of the energy flux *)
Theorem findTm_is_energy_flux vp vm Tp :
  0 < vp < 1 -> 0 < vm < 1 -> 0 < Tp ->
  0 < t__findTm et vm vp Tp /\
  eflux (WH Tp) vp = eflux (WL (t__findTm et vm vp Tp)) vm.
Proof.
  intros Hp Hm HT.
  pose proof (findTm_energy_flux wN Tn psiN cb2 cs2 HTn Hcb2 Hcs2 Hpsi vp vm Tp Hp Hm HT) as F.
  cbv zeta in F. unfold t__findTm. cbv zeta. cbn [et t_mu t_nu t_Tnucl t_psiN]. exact F.
Qed.

(** junction relations of the general solver from the two conservation laws *)
Lemma conserved_from_fluxes vp vm Tp Tm :
  eflux (WH Tp) vp = eflux (WL Tm) vm ->
  mflux (WH Tp) (PH Tp) vp = mflux (WL Tm) (PL Tm) vm ->
  conserved eg vp vm Tp Tm.
Proof.
  intros E M. apply (conserved_iff_fluxes eg eg_enthalpyHigh eg_enthalpyLow).
  cbn [eHighT pHighT eLowT pLowT eg]. unfold eH, eL.
  replace (WH Tp - PH Tp + PH Tp) with (WH Tp) by ring.
  replace (WL Tm - PL Tm + PL Tm) with (WL Tm) by ring. split; assumption.
Qed.

(** ** deflagrations / hybrids.  template.findMatching assembles, from its shooting root v+,
    (v+, v-, T+ = Tn w^(1/mu), T- = _findTm) with w = wFromAlpha(alpha+(v+, v-)).  The theorem is
    stated for an ARBITRARY enthalpy ratio w > 0 that belongs to alpha+ ([alpha_of], the exact
    relation); [findMatching_result_is_assembly] says the code's result is this assembly for
    w = t_wFromAlpha, and [wFromAlpha_close_to_exact] that t_wFromAlpha differs from the exact
    w* = A/B by at most 1e-100 (1+|w|)/|B| (the regularisation written in the code), where
    w* does satisfy [alpha_of] ([exact_w_alpha_of]).  (With the regularised t_wFromAlpha itself
    the exact relation holds only at alpha+ = alpha_n -- audit/C15/Vacuity.v -- so it must not
    be assumed of it.) *)
Definition template_assembly (w vw vp : R) : R * R * R * R :=
  let vm := Rmin (sqrt cb2) vw in
  let Tp := Tn * Rpower w (1 / mu) in
  (vp, vm, Tp, t__findTm et vm vp Tp).

Lemma findMatching_result_is_assembly vw vp :
  ~ vJT < vw ->
  t_findMatching_result et vw vp =
  template_assembly (t_wFromAlpha et ((vp / Rmin (sqrt cb2) vw - 1) *
     (vp * Rmin (sqrt cb2) vw / cb2 - 1) / (1 - vp ^ 2) / 3)) vw vp.
Proof.
  intro HvJ. unfold t_findMatching_result, template_assembly.
  cbn [et t_vJ]. destruct (Rlt_dec vJT vw) as [?|_]; [contradiction|].
  cbv zeta. cbn [et t_cb t_cb2 t_Tnucl t_mu]. reflexivity.
Qed.

Theorem template_matching_solves_general w vw vp vp' vm Tp Tm Tpm0 :
  0 < vw -> 0 < vp < 1 -> sqrt cb2 < 1 -> vw < 1 ->
  template_assembly w vw vp = (vp', vm, Tp, Tm) ->
  let al := (vp / vm - 1) * (vp * vm / cb2 - 1) / (1 - vp ^ 2) / 3 in
  0 < w -> alpha_of wN alN cb2 cs2 al (wN * w) ->
  admissible eg Tp Tm ->
  vp' = vp /\ vm = Rmin (sqrt cb2) vw /\ vm ^ 2 = Rmin (vw ^ 2) cb2 /\
  conserved eg vp vm Tp Tm /\
  fst (vpvmAndvpovm eg Tp Tm) * snd (vpvmAndvpovm eg Tp Tm) = vp ^ 2 /\
  fst (vpvmAndvpovm eg Tp Tm) / snd (vpvmAndvpovm eg Tp Tm) = vm ^ 2 /\
  (TMinH < Tp < TMaxH -> TMinH < Tm < TMaxH ->
   matching_given eg vw vp Tpm0 (_mappingT eg (Tp, Tm)) = (0, 0)).
Proof.
  intros Hw0 Hp Hcb Hw1 Hres al Hwp Hal Hadm.
  unfold template_assembly in Hres. cbv zeta in Hres.
  apply tuple4_eq in Hres. destruct Hres as (E1 & E2 & E3 & E4).
  assert (Hsc : 0 < sqrt cb2) by (apply sqrt_lt_R0; exact Hcb2).
  assert (Hvm : 0 < vm < 1).
  { rewrite <- E2. unfold Rmin. destruct (Rle_dec (sqrt cb2) vw); lra. }
  assert (Hvmsq : vm ^ 2 = Rmin (vw ^ 2) cb2).
  { rewrite <- E2. unfold Rmin.
    assert (Hs : sqrt cb2 ^ 2 = cb2) by (apply pow2_sqrt; lra).
    destruct (Rle_dec (sqrt cb2) vw) as [L|L]; destruct (Rle_dec (vw ^ 2) cb2) as [L'|L'];
      try reflexivity; try exact Hs; nra. }
  subst vp'. rewrite E3 in E4. rewrite E2 in E4.
  assert (HTp : 0 < Tp).
  { rewrite <- E3. apply Rmult_lt_0_compat; [exact HTn|apply exp_pos]. }
  assert (HWp : WH Tp = wN * w).
  { rewrite <- E3. apply Tp_from_w; assumption. }
  destruct (findTm_is_energy_flux vp vm Tp Hp Hvm HTp) as [HTm HE]. rewrite E4 in HTm, HE.
  assert (H20 : (vp - vm) * (vp * vm - cb2) = 3 * al * cb2 * vm * (1 - vp * vp)).
  { pose proof (alpha_from_velocities et vp vm) as A. cbn [et t_cb2] in A. cbv zeta in A.
    apply A; try lra. nra. }
  assert (HM : mflux (WH Tp) (PH Tp) vp = mflux (WL Tm) (PL Tm) vm).
  { eapply template_equations_conserve with (al := al); try eassumption.
    rewrite HWp. exact Hal. }
  assert (C : conserved eg vp vm Tp Tm) by (apply conserved_from_fluxes; assumption).
  destruct (conserved_junction eg eg_enthalpyHigh eg_enthalpyLow vp vm Tp Tm Hp Hvm Hadm C) as [J1 J2].
  split; [reflexivity|]. split; [symmetry; exact E2|]. split; [exact Hvmsq|].
  split; [exact C|]. split; [exact J1|]. split; [exact J2|].
  intros W1 W2.
  apply (exact_matching_is_root eg eg_enthalpyHigh eg_enthalpyLow vw vp vm Tp Tm Tpm0);
    try assumption; try (cbn [csqLowT eg]; exact Hvmsq).
Qed.

(** the exact enthalpy ratio belonging to alpha+ and its distance from the code's value *)
Lemma exact_w_alpha_of al :
  (1 - 3 * al) * mu - nu <> 0 ->
  alpha_of wN alN cb2 cs2 al
    (wN * (((1 - 3 * alN) * mu - nu) / ((1 - 3 * al) * mu - nu))).
Proof. intro HB. unfold alpha_of. field. exact HB. Qed.

Lemma wFromAlpha_close_to_exact al :
  let A := (1 - 3 * alN) * mu - nu in let B := (1 - 3 * al) * mu - nu in
  B <> 0 ->
  Rabs (t_wFromAlpha et al - A / B)
    <= (1 / 10 ^ 100) * (1 + Rabs (t_wFromAlpha et al)) / Rabs B.
Proof.
  intros A B HB.
  pose proof (wFromAlpha_near_inverse et al) as N. cbv zeta in N.
  cbn [et t_alN t_mu t_nu] in N. fold A B in N. specialize (N HB).
  assert (HaB : 0 < Rabs B) by (apply Rabs_pos_lt; exact HB).
  replace (t_wFromAlpha et al - A / B) with ((t_wFromAlpha et al * B - A) / B) by (field; exact HB).
  unfold Rdiv at 1. rewrite Rabs_mult, Rabs_inv.
  unfold Rdiv. apply Rmult_le_compat_r; [apply Rlt_le, Rinv_0_lt_compat; exact HaB|].
  exact N.
Qed.

(** ** detonations: template.detonationVAndT solves the general residual [tmFromvpsq] and
    the general solver's assembly of the result gives back the same v- *)
Theorem template_deton_solves_general vw vp vm Tp Tm :
  0 < vw < 1 ->
  let part := vw ^ 2 + cb2 * (1 - 3 * (1 - vw ^ 2) * alN) in
  0 <= part ^ 2 - 4 * cb2 * vw ^ 2 ->
  t_detonationVAndT et vw = (vp, vm, Tp, Tm) ->
  0 < vm < 1 -> admissible eg Tp Tm ->
  vp = vw /\ Tp = Tn /\ conserved eg vp vm Tp Tm /\
  tmFromvpsq eg vw Tm = 0 /\ deton_result eg vw Tm = (vp, vm, Tp, Tm).
Proof.
  intros Hw part Hd Hres Hvm Hadm.
  unfold t_detonationVAndT in Hres. cbv zeta in Hres. cbn [et t_cb2 t_alN t_Tnucl] in Hres.
  fold part in Hres.
  apply tuple4_eq in Hres. destruct Hres as (E1 & E2 & E3 & E4).
  subst vp Tp. rewrite E2 in E4.
  destruct (findTm_is_energy_flux vw vm Tn Hw Hvm HTn) as [HTm HE]. rewrite E4 in HTm, HE.
  assert (H20 : (vw - vm) * (vw * vm - cb2) = 3 * alN * cb2 * vm * (1 - vw * vw)).
  { pose proof (deton_poly cb2 alN vw (sqrt (part ^ 2 - 4 * cb2 * vw ^ 2)) vm) as P.
    cbv zeta in P. fold part in P.
    assert (P' : 4 * vw * ((vw - vm) * (vw * vm - cb2) - 3 * alN * cb2 * vm * (1 - vw * vw)) = 0).
    { apply P; [apply sqrt_sqrt; exact Hd|]. rewrite <- E2. field. lra. }
    apply Rminus_diag_uniq. apply Rmult_eq_reg_l with (4 * vw); [rewrite P'; ring|lra]. }
  assert (HM : mflux (WH Tn) (PH Tn) vw = mflux (WL Tm) (PL Tm) vm).
  { eapply template_equations_conserve with (al := alN); try eassumption.
    unfold alpha_of. rewrite wH_Tn by assumption. reflexivity. }
  assert (C : conserved eg vw vm Tn Tm) by (apply conserved_from_fluxes; assumption).
  destruct (conserved_junction eg eg_enthalpyHigh eg_enthalpyLow vw vm Tn Tm Hw Hvm Hadm C) as [J1 J2].
  destruct Hadm as [Hne [Hd1 Hd2]].
  pose proof (vpvmAndvpovm_regular eg Tn Tm Hne) as R.
  rewrite R in J1, J2. cbn [fst snd] in J1, J2.
  split; [reflexivity|]. split; [reflexivity|]. split; [exact C|]. split.
  - (* the general residual *)
    unfold tmFromvpsq. cbv zeta. cbn [Tnucl eg].
    change (wHighT eg Tn - pHighT eg Tn) with (WH Tn - PH Tn).
    change (wLowT eg Tm - pLowT eg Tm) with (WL Tm - PL Tm).
    cbn [eHighT eLowT pHighT pLowT eg] in J1, Hne, Hd1, Hd2. unfold eH, eL in J1, Hne, Hd1, Hd2.
    cbn [pHighT pLowT eg].
    rewrite <- J1. field. split; lra.
  - (* the general result *)
    unfold deton_result. cbv zeta. cbn [Tnucl eg].
    destruct (Req_EM_T vw 1) as [?|_]; [lra|].
    rewrite R. cbv iota beta. rewrite J2.
    replace (vm ^ 2) with (vm * vm) by ring. rewrite sqrt_square by lra. reflexivity.
Qed.

(** ** the template Jouguet velocity is the Chapman-Jouguet point of the detonation branch:
    v- equals the sound speed behind the wall *)
Theorem template_vJ_is_CJ vp vm Tp Tm :
  0 <= 3 * alN * (1 - cb2 + 3 * cb2 * alN) -> 0 < 1 + 3 * cb2 * alN ->
  t_detonationVAndT et (t_findJouguetVelocity et) = (vp, vm, Tp, Tm) ->
  vm = sqrt cb2 /\ 0 < t_findJouguetVelocity et.
Proof.
  intros Hs HA Hres.
  set (vJ0 := t_findJouguetVelocity et) in *.
  set (s := sqrt (3 * alN * (1 - cb2 + 3 * cb2 * alN))).
  assert (Hsc : 0 < sqrt cb2) by (apply sqrt_lt_R0; exact Hcb2).
  assert (EvJ : vJ0 = sqrt cb2 * (1 + s) / (1 + 3 * cb2 * alN)).
  { unfold vJ0, t_findJouguetVelocity. cbv zeta. cbn [et t_alN t_cb t_cb2]. reflexivity. }
  assert (Hs0 : 0 <= s) by apply sqrt_pos.
  assert (HvJ : 0 < vJ0).
  { rewrite EvJ. apply Rdiv_lt_0_compat; [|exact HA]. apply Rmult_lt_0_compat; lra. }
  pose proof (vJ_poly (sqrt cb2) cb2 alN s vJ0 (sqrt_sqrt cb2 (Rlt_le _ _ Hcb2))
                (sqrt_sqrt _ Hs)) as P.
  assert (P' : (1 + 3 * cb2 * alN) *
     (vJ0 ^ 2 + cb2 * (1 - 3 * (1 - vJ0 ^ 2) * alN) - 2 * sqrt cb2 * vJ0) = 0).
  { apply P. rewrite EvJ. field. lra. }
  assert (Q : vJ0 ^ 2 + cb2 * (1 - 3 * (1 - vJ0 ^ 2) * alN) = 2 * sqrt cb2 * vJ0).
  { apply Rminus_diag_uniq. apply Rmult_eq_reg_l with (1 + 3 * cb2 * alN); [rewrite P'; ring|lra]. }
  unfold t_detonationVAndT in Hres. cbv zeta in Hres. cbn [et t_cb2 t_alN t_Tnucl] in Hres.
  apply tuple4_eq in Hres. destruct Hres as (E1 & E2 & E3 & E4).
  rewrite Q in E2. split; [|exact HvJ].
  rewrite <- E2.
  replace ((2 * sqrt cb2 * vJ0) ^ 2 - 4 * cb2 * vJ0 ^ 2) with (4 * vJ0 ^ 2 * (sqrt cb2 * sqrt cb2 - cb2)) by ring.
  rewrite sqrt_sqrt by lra. replace (4 * vJ0 ^ 2 * (cb2 - cb2)) with 0 by ring.
  rewrite sqrt_0. field. lra.
Qed.

(** ** boundary constants: the two findHydroBoundaries compute the same numbers *)
Theorem template_boundaries_equal vw vp vm Tp Tm :
  ~ vw < vMinG -> ~ vw < vMinT -> 0 < Tp -> 0 < vp < 1 ->
  t_findHydroBoundaries et vw vp vm Tp Tm = findHydroBoundaries eg vw vp vm Tp Tm.
Proof.
  intros H1 H2 HT Hp.
  unfold t_findHydroBoundaries, findHydroBoundaries. cbn [et eg t_vMin vMin].
  destruct (Rlt_dec vw vMinT) as [?|_]; [contradiction|].
  destruct (Rlt_dec vw vMinG) as [?|_]; [contradiction|].
  cbv zeta. cbn [t_wN t_pN t_Tnucl t_mu wHighT pHighT et eg].
  pose proof (mu_pos cs2 Hcs2) as Hmu.
  assert (G : 1 - vp ^ 2 <> 0) by nra.
  assert (G' : 1 - vp * vp <> 0) by nra.
  unfold gammaSq, pH. rewrite (wH_Tn wN Tn cs2 HTn). unfold wH.
  match goal with |- (?a, ?b, _, _, ?c) = (?a', ?b', _, _, ?c') =>
    replace a with a'; [replace b with b'; [reflexivity|]|] end;
    field; repeat split; lra.
Qed.

End C15.

(** the hypotheses are satisfiable by a GENUINE deflagration (v+ = 2/5 < vw = v- = 1/2, shock
    heating w+ = 63/40 w_n): bag-like template cs2 = cb2 = 1/3, alpha_n = 1/20, psi_n = 9/10 *)
Example deflagration_hypotheses_satisfiable :
  let wN := 1 in let Tn := 1 in let alN := 1 / 20 in let psiN := 9 / 10 in
  let cb2 := 1 / 3 in let cs2 := 1 / 3 in let vw := 1 / 2 in let vp := 2 / 5 in
  let w := 63 / 40 in
  let r := template_assembly wN Tn alN psiN cb2 cs2 1 0 w vw vp in
  let vm := snd (fst (fst r)) in let Tp := snd (fst r) in let Tm := snd r in
  let al := (vp / vm - 1) * (vp * vm / cb2 - 1) / (1 - vp ^ 2) / 3 in
  0 < vw /\ 0 < vp < 1 /\ sqrt cb2 < 1 /\ vw < 1 /\ vm = 1 / 2 /\ vp < vm /\ Tn < Tp /\
  0 < w /\ alpha_of wN alN cb2 cs2 al (wN * w) /\
  admissible (eg wN Tn alN psiN cb2 cs2 10 (1 / 100) 0 1) Tp Tm.
Proof.
  cbv zeta.
  assert (Hm : Rmin (sqrt (1 / 3)) (1 / 2) = 1 / 2) by (apply Rmin_right; interval).
  unfold template_assembly. cbv zeta. cbn [fst snd]. rewrite Hm.
  assert (Hal : (2 / 5 / (1 / 2) - 1) * (2 / 5 * (1 / 2) / (1 / 3) - 1) / (1 - (2 / 5) ^ 2) / 3
                = 2 / 63) by field.
  rewrite Hal.
  repeat split; try lra; try interval.
  - unfold alpha_of, mu_, nu_. field.
  - unfold t__findTm. cbv zeta. cbn [et t_mu t_nu t_Tnucl t_psiN eg eHighT eLowT].
    unfold eH, eL, pH, pL, wH, wL, eps_, mu_, nu_. first [apply Rgt_not_eq; interval | apply Rlt_not_eq; interval].
  - unfold t__findTm. cbv zeta. cbn [et t_mu t_nu t_Tnucl t_psiN eg eHighT pLowT].
    unfold eH, pH, pL, wH, wL, eps_, mu_, nu_. interval.
  - unfold t__findTm. cbv zeta. cbn [et t_mu t_nu t_Tnucl t_psiN eg eLowT pHighT].
    unfold eL, pH, pL, wH, wL, eps_, mu_, nu_. interval.
Qed.

(** ... and by a genuine detonation: vw = 9/10 > vJ, all five hypotheses of
    [template_deton_solves_general] instantiated *)
Example deton_hypotheses_satisfiable :
  let wN := 1 in let Tn := 1 in let alN := 1 / 100 in let psiN := 9 / 10 in
  let cb2 := 1 / 3 in let cs2 := 1 / 3 in let vw := 9 / 10 in
  let r := t_detonationVAndT (et wN Tn alN psiN cb2 cs2 (7 / 10) 0) vw in
  let vm := snd (fst (fst r)) in let Tp := snd (fst r) in let Tm := snd r in
  0 < vw < 1 /\
  0 <= (vw ^ 2 + cb2 * (1 - 3 * (1 - vw ^ 2) * alN)) ^ 2 - 4 * cb2 * vw ^ 2 /\
  0 < vm < 1 /\ admissible (eg wN Tn alN psiN cb2 cs2 10 (1 / 100) 0 1) Tp Tm.
Proof.
  cbv zeta. unfold t_detonationVAndT, t__findTm. cbv zeta.
  cbn [fst snd et t_cb2 t_alN t_Tnucl t_mu t_nu t_psiN]. unfold mu_, nu_.
  repeat split; try lra; try interval.
  - cbn [eg eHighT eLowT]. unfold eH, eL, pH, pL, wH, wL, eps_, mu_, nu_.
    first [apply Rgt_not_eq; interval | apply Rlt_not_eq; interval].
  - cbn [eg eHighT pLowT]. unfold eH, pH, pL, wH, wL, eps_, mu_, nu_. interval.
  - cbn [eg eLowT pHighT]. unfold eL, pH, pL, wH, wL, eps_, mu_, nu_. interval.
Qed.

(** ------------------------------------------------------------------------------ *)
Theorem C15_template_init_recovers : forall wN Tn alN psiN cb2 cs2,
  0 < wN -> 0 < Tn -> 0 < cb2 -> 0 < cs2 ->
  forall vJT vMinT,
  let ET := et wN Tn alN psiN cb2 cs2 vJT vMinT in
  t_init_cb2 ET = t_cb2 ET /\ t_init_cs2 ET = t_cs2 ET /\ t_init_alN ET = t_alN ET /\
  t_init_psiN ET = t_psiN ET /\ t_init_cb ET = t_cb ET /\ t_init_cs ET = t_cs ET /\
  t_init_wN ET = t_wN ET /\ t_init_pN ET = t_pN ET /\ t_init_Tnucl ET = t_Tnucl ET /\
  t_init_nu ET = t_nu ET /\ t_init_mu ET = t_mu ET /\ t_init_epsilon ET = t_epsilon ET.
Proof. intros. subst ET. apply template_init_recovers; assumption. Qed.
Print Assumptions C15_template_init_recovers.

Theorem C15_getVp_solves_20a : forall e vm al br,
  br * br = 1 ->
  0 <= vm ^ 4 - 2 * t_cb2 e * vm ^ 2 * (1 - 6 * al)
       + t_cb2 e ^ 2 * (1 - 12 * vm ^ 2 * al * (1 - 3 * al)) ->
  vm + 3 * t_cb2 e * vm * al <> 0 ->
  let vp := t_getVp e vm al br in
  (vp - vm) * (vp * vm - t_cb2 e) = 3 * al * t_cb2 e * vm * (1 - vp * vp).
Proof. exact getVp_solves_20a. Qed.
Print Assumptions C15_getVp_solves_20a.

Theorem C15_wFromAlpha_near_inverse : forall e al,
  let A := (1 - 3 * t_alN e) * t_mu e - t_nu e in
  let B := (1 - 3 * al) * t_mu e - t_nu e in
  B <> 0 ->
  Rabs (t_wFromAlpha e al * B - A) <= (1 / 10 ^ 100) * (1 + Rabs (t_wFromAlpha e al)).
Proof. exact wFromAlpha_near_inverse. Qed.
Print Assumptions C15_wFromAlpha_near_inverse.

Theorem C15_findTm_is_energy_flux : forall wN Tn alN psiN cb2 cs2,
  0 < Tn -> 0 < cb2 -> 0 < cs2 -> 0 < psiN ->
  forall vJT vMinT vp vm Tp, 0 < vp < 1 -> 0 < vm < 1 -> 0 < Tp ->
  let ET := et wN Tn alN psiN cb2 cs2 vJT vMinT in
  0 < t__findTm ET vm vp Tp /\
  eflux (wH wN Tn cs2 Tp) vp = eflux (wL wN Tn psiN cb2 (t__findTm ET vm vp Tp)) vm.
Proof. intros. subst ET. apply findTm_is_energy_flux; assumption. Qed.
Print Assumptions C15_findTm_is_energy_flux.

Theorem C15_template_matching_solves_general : forall wN Tn alN psiN cb2 cs2,
  0 < wN -> 0 < Tn -> 0 < cb2 -> 0 < cs2 -> 0 < psiN ->
  forall TMaxH TMinH vMinG vJG vJT vMinT w vw vp vp' vm Tp Tm Tpm0,
  let EG := eg wN Tn alN psiN cb2 cs2 TMaxH TMinH vMinG vJG in
  0 < vw -> 0 < vp < 1 -> sqrt cb2 < 1 -> vw < 1 ->
  template_assembly wN Tn alN psiN cb2 cs2 vJT vMinT w vw vp = (vp', vm, Tp, Tm) ->
  let al := (vp / vm - 1) * (vp * vm / cb2 - 1) / (1 - vp ^ 2) / 3 in
  0 < w -> alpha_of wN alN cb2 cs2 al (wN * w) ->
  admissible EG Tp Tm ->
  vp' = vp /\ vm = Rmin (sqrt cb2) vw /\ vm ^ 2 = Rmin (vw ^ 2) cb2 /\
  conserved EG vp vm Tp Tm /\
  fst (vpvmAndvpovm EG Tp Tm) * snd (vpvmAndvpovm EG Tp Tm) = vp ^ 2 /\
  fst (vpvmAndvpovm EG Tp Tm) / snd (vpvmAndvpovm EG Tp Tm) = vm ^ 2 /\
  (TMinH < Tp < TMaxH -> TMinH < Tm < TMaxH ->
   matching_given EG vw vp Tpm0 (_mappingT EG (Tp, Tm)) = (0, 0)).
Proof. intros. subst EG al. eapply template_matching_solves_general; eassumption. Qed.
Print Assumptions C15_template_matching_solves_general.

Theorem C15_findMatching_result_is_assembly : forall wN Tn alN psiN cb2 cs2 vJT vMinT vw vp,
  ~ vJT < vw ->
  t_findMatching_result (et wN Tn alN psiN cb2 cs2 vJT vMinT) vw vp =
  template_assembly wN Tn alN psiN cb2 cs2 vJT vMinT
    (t_wFromAlpha (et wN Tn alN psiN cb2 cs2 vJT vMinT)
       ((vp / Rmin (sqrt cb2) vw - 1) * (vp * Rmin (sqrt cb2) vw / cb2 - 1) / (1 - vp ^ 2) / 3))
    vw vp.
Proof. intros. apply findMatching_result_is_assembly. assumption. Qed.
Print Assumptions C15_findMatching_result_is_assembly.

Theorem C15_wFromAlpha_close_to_exact : forall wN Tn alN psiN cb2 cs2 vJT vMinT al,
  let A := (1 - 3 * alN) * mu_ cs2 - nu_ cb2 in let B := (1 - 3 * al) * mu_ cs2 - nu_ cb2 in
  B <> 0 ->
  alpha_of wN alN cb2 cs2 al (wN * (A / B)) /\
  Rabs (t_wFromAlpha (et wN Tn alN psiN cb2 cs2 vJT vMinT) al - A / B)
    <= (1 / 10 ^ 100) * (1 + Rabs (t_wFromAlpha (et wN Tn alN psiN cb2 cs2 vJT vMinT) al))
       / Rabs B.
Proof.
  intros. split; [apply exact_w_alpha_of; assumption|apply wFromAlpha_close_to_exact; assumption].
Qed.
Print Assumptions C15_wFromAlpha_close_to_exact.

Theorem C15_template_deton_solves_general : forall wN Tn alN psiN cb2 cs2,
  0 < wN -> 0 < Tn -> 0 < cb2 -> 0 < cs2 -> 0 < psiN ->
  forall TMaxH TMinH vMinG vJG vJT vMinT vw vp vm Tp Tm,
  let EG := eg wN Tn alN psiN cb2 cs2 TMaxH TMinH vMinG vJG in
  let ET := et wN Tn alN psiN cb2 cs2 vJT vMinT in
  0 < vw < 1 ->
  0 <= (vw ^ 2 + cb2 * (1 - 3 * (1 - vw ^ 2) * alN)) ^ 2 - 4 * cb2 * vw ^ 2 ->
  t_detonationVAndT ET vw = (vp, vm, Tp, Tm) ->
  0 < vm < 1 -> admissible EG Tp Tm ->
  vp = vw /\ Tp = Tn /\ conserved EG vp vm Tp Tm /\
  tmFromvpsq EG vw Tm = 0 /\ deton_result EG vw Tm = (vp, vm, Tp, Tm).
Proof. intros. subst EG ET. eapply template_deton_solves_general; eassumption. Qed.
Print Assumptions C15_template_deton_solves_general.

Theorem C15_template_vJ_is_CJ : forall wN Tn alN psiN cb2 cs2,
  0 < cb2 -> forall vJT vMinT vp vm Tp Tm,
  let ET := et wN Tn alN psiN cb2 cs2 vJT vMinT in
  0 <= 3 * alN * (1 - cb2 + 3 * cb2 * alN) -> 0 < 1 + 3 * cb2 * alN ->
  t_detonationVAndT ET (t_findJouguetVelocity ET) = (vp, vm, Tp, Tm) ->
  vm = sqrt cb2 /\ 0 < t_findJouguetVelocity ET.
Proof. intros. subst ET. eapply template_vJ_is_CJ; eassumption. Qed.
Print Assumptions C15_template_vJ_is_CJ.

Theorem C15_template_boundaries_equal : forall wN Tn alN psiN cb2 cs2,
  0 < Tn -> 0 < cs2 ->
  forall TMaxH TMinH vMinG vJG vJT vMinT vw vp vm Tp Tm,
  ~ vw < vMinG -> ~ vw < vMinT -> 0 < Tp -> 0 < vp < 1 ->
  t_findHydroBoundaries (et wN Tn alN psiN cb2 cs2 vJT vMinT) vw vp vm Tp Tm =
  findHydroBoundaries (eg wN Tn alN psiN cb2 cs2 TMaxH TMinH vMinG vJG) vw vp vm Tp Tm.
Proof. intros. apply template_boundaries_equal; assumption. Qed.
Print Assumptions C15_template_boundaries_equal.

Print Assumptions deflagration_hypotheses_satisfiable.
Print Assumptions deton_hypotheses_satisfiable.
