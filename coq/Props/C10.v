(** C10 -- the equation of state is thermodynamically consistent and smoothly extrapolated.
    Every statement is about the model GENERATED from src/WallGo/thermodynamics.py on this
    run (module GenC10.Thermo): all piecewise functions of both phases and setExtrapolate,
    parametric in the free-energy tables (fHigh e, dfHigh e, ddfHigh e, ...: the spline and
    its derivatives are external). *)
From Coq Require Import Reals Lra.
From WG Require Import Lib.NumpySem Lib.EosTemplate.
From GenC10 Require Import Thermo ThermoFacts.
From Coq Require Import String List.
Local Open Scope R_scope.

(* closers that do not depend on the syntactic shape of the generated bodies *)
Ltac unf := repeat progress unfold eHighT, wHighT, deHighT, eLowT, wLowT, deLowT.
Ltac close_m := first [reflexivity | ring | (unfold Rdiv; ring) | lra
                      | (f_equal; first [reflexivity | ring | (unfold Rdiv; ring)])
                      | (f_equal; f_equal; first [reflexivity | ring | (unfold Rdiv; ring)])].

Section C10.
Variable e : env.
Variable s0 : st.          (* ANY state before the call: the result does not depend on it *)
Notation SE := (setExtrapolate e).

(** ** HIGH-temperature phase *)
Section High.
Notation a := (tabMinHigh e).
Notation b := (tabMaxHigh e).

(** tie: the generated functions are instances of the template, for EVERY state *)
Lemma pHighT_is_P s T :
  pHighT e s T = P (TMinHighT s) (TMaxHighT s) (fHigh e) (muMinHighT s) (aMinHighT s)
                       (epsilonMinHighT s) (muMaxHighT s) (aMaxHighT s) (epsilonMaxHighT s) T.
Proof. unfold pHighT, P. repeat (match goal with |- context [Rlt_dec ?x ?y] => destruct (Rlt_dec x y) end); ring. Qed.
Lemma dpHighT_is_DP s T :
  dpHighT e s T = DP (TMinHighT s) (TMaxHighT s) (dfHigh e) (muMinHighT s) (aMinHighT s)
                          (muMaxHighT s) (aMaxHighT s) T.
Proof. unfold dpHighT, DP. repeat (match goal with |- context [Rlt_dec ?x ?y] => destruct (Rlt_dec x y) end); ring. Qed.
Lemma ddpHighT_is_DDP s T :
  ddpHighT e s T = DDP (TMinHighT s) (TMaxHighT s) (ddfHigh e) (muMinHighT s) (aMinHighT s)
                             (muMaxHighT s) (aMaxHighT s) T.
Proof. unfold ddpHighT, DDP. repeat (match goal with |- context [Rlt_dec ?x ?y] => destruct (Rlt_dec x y) end); ring. Qed.
Lemma deHighT_is_DE s T :
  deHighT e s T = DE (TMinHighT s) (TMaxHighT s) (ddfHigh e) (muMinHighT s) (aMinHighT s)
                           (muMaxHighT s) (aMaxHighT s) T.
Proof. unfold DE. rewrite <- ddpHighT_is_DDP. unf. ring. Qed.
Lemma csqHighT_is_CSQ s T :
  csqHighT e s T = CSQ (TMinHighT s) (TMaxHighT s) (dfHigh e) (ddfHigh e) (muMinHighT s)
                                    (aMinHighT s) (muMaxHighT s) (aMaxHighT s) T.
Proof.
  unfold csqHighT, CSQ. rewrite !dpHighT_is_DP, !deHighT_is_DE.
  repeat (match goal with |- context [Rlt_dec ?x ?y] => destruct (Rlt_dec x y) end); reflexivity.
Qed.

(** thermodynamic identities, by construction, in every state and at every temperature *)
Lemma identities_High s T :
  eHighT e s T = T * dpHighT e s T - pHighT e s T /\
  wHighT e s T = T * dpHighT e s T /\
  deHighT e s T = T * ddpHighT e s T.
Proof. unf. repeat split; ring. Qed.

Hypothesis Hab : a < b.
Hypothesis Ha : 0 < a.
Hypothesis Hdfa : (dfHigh e) a < 0.
Hypothesis Hddfa : (ddfHigh e) a < 0.
Hypothesis Hdfb : (dfHigh e) b < 0.
Hypothesis Hddfb : (ddfHigh e) b < 0.

(** values inside the range, for every state whose range is [a,b] *)
Lemma High_in s T : TMinHighT s = a -> TMaxHighT s = b -> a <= T <= b ->
  pHighT e s T = - (fHigh e) T /\ dpHighT e s T = - (dfHigh e) T /\
  ddpHighT e s T = - (ddfHigh e) T /\
  csqHighT e s T = (- (dfHigh e) T) / (T * - (ddfHigh e) T).
Proof.
  intros E1 E2 [H1 H2].
  assert (p : pHighT e s T = - (fHigh e) T).
  { unfold pHighT. rewrite E1, E2. destruct (Rlt_dec T a); [lra|]. destruct (Rlt_dec b T); [lra|ring]. }
  assert (dp : dpHighT e s T = - (dfHigh e) T).
  { unfold dpHighT. rewrite E1, E2. destruct (Rlt_dec T a); [lra|]. destruct (Rlt_dec b T); [lra|ring]. }
  assert (ddp : ddpHighT e s T = - (ddfHigh e) T).
  { unfold ddpHighT. rewrite E1, E2. destruct (Rlt_dec T a); [lra|]. destruct (Rlt_dec b T); [lra|ring]. }
  repeat split; try assumption.
  unfold csqHighT. rewrite E1, E2. destruct (Rlt_dec T a); [lra|]. destruct (Rlt_dec b T); [lra|].
  rewrite dp. replace (deHighT e s T) with (T * ddpHighT e s T) by (unf; ring).
  rewrite ddp. reflexivity.
Qed.

(** the state after setExtrapolate *)
Let S := SE s0.
Ltac side_High := first [lra | unfold S, setExtrapolate; autorewrite with setExtrapolate_db; reflexivity].

Lemma S_range_High : TMinHighT S = a /\ TMaxHighT S = b.
Proof. split; side_High. Qed.

Lemma in_csq_High s T : TMinHighT s = a -> TMaxHighT s = b -> a <= T <= b ->
  csqHighT e s T = (- (dfHigh e) T) / (T * - (ddfHigh e) T).
Proof. intros E1 E2 HT. apply (High_in s T E1 E2 HT). Qed.
Lemma in_dp_High s T : TMinHighT s = a -> TMaxHighT s = b -> a <= T <= b ->
  dpHighT e s T = - (dfHigh e) T.
Proof. intros E1 E2 HT. apply (High_in s T E1 E2 HT). Qed.
Lemma in_p_High s T : TMinHighT s = a -> TMaxHighT s = b -> a <= T <= b ->
  pHighT e s T = - (fHigh e) T.
Proof. intros E1 E2 HT. apply (High_in s T E1 E2 HT). Qed.

Lemma matched_lo_High : matched (fHigh e) (dfHigh e) (ddfHigh e) a (muMinHighT S) (aMinHighT S) (epsilonMinHighT S).
Proof.
  unfold matched, S, setExtrapolate. autorewrite with setExtrapolate_db. unf.
  repeat rewrite in_csq_High by side_High. repeat rewrite in_dp_High by side_High.
  repeat rewrite in_p_High by side_High.
  repeat split; close_m.
Qed.

Lemma matched_hi_High : matched (fHigh e) (dfHigh e) (ddfHigh e) b (muMaxHighT S) (aMaxHighT S) (epsilonMaxHighT S).
Proof.
  unfold matched, S, setExtrapolate. autorewrite with setExtrapolate_db. unf.
  repeat rewrite in_csq_High by side_High. repeat rewrite in_dp_High by side_High.
  repeat rewrite in_p_High by side_High.
  repeat split; close_m.
Qed.

(** continuity across both ends of the tabulated range *)
Lemma continuous_High :
  (continuity_pt (fHigh e) a -> continuity_pt (pHighT e S) a) /\
  (continuity_pt (fHigh e) b -> continuity_pt (pHighT e S) b) /\
  (continuity_pt (dfHigh e) a -> continuity_pt (dpHighT e S) a) /\
  (continuity_pt (dfHigh e) b -> continuity_pt (dpHighT e S) b) /\
  (continuity_pt (ddfHigh e) a -> continuity_pt (ddpHighT e S) a) /\
  (continuity_pt (ddfHigh e) b -> continuity_pt (ddpHighT e S) b) /\
  (forall T, T < a -> csqHighT e S T = csqHighT e S a) /\
  (forall T, b < T -> csqHighT e S T = csqHighT e S b).
Proof.
  pose proof matched_lo_High as ML. pose proof matched_hi_High as MH.
  destruct S_range_High as [Ra Rb].
  assert (Hle : a <= b) by lra.
  repeat split; intros.
  - eapply continuity_pt_ext; [intro; apply pHighT_is_P|]. rewrite Ra, Rb. eapply P_cont_lo with (df := dfHigh e) (ddf := ddfHigh e); first [eassumption | lra].
  - eapply continuity_pt_ext; [intro; apply pHighT_is_P|]. rewrite Ra, Rb. eapply P_cont_hi with (df := dfHigh e) (ddf := ddfHigh e); first [eassumption | lra].
  - eapply continuity_pt_ext; [intro; apply dpHighT_is_DP|]. rewrite Ra, Rb. eapply DP_cont_lo with (df := dfHigh e) (ddf := ddfHigh e); first [eassumption | lra].
  - eapply continuity_pt_ext; [intro; apply dpHighT_is_DP|]. rewrite Ra, Rb. eapply DP_cont_hi with (df := dfHigh e) (ddf := ddfHigh e); first [eassumption | lra].
  - eapply continuity_pt_ext; [intro; apply ddpHighT_is_DDP|]. rewrite Ra, Rb. eapply DDP_cont_lo with (df := dfHigh e) (ddf := ddfHigh e); first [eassumption | lra].
  - eapply continuity_pt_ext; [intro; apply ddpHighT_is_DDP|]. rewrite Ra, Rb. eapply DDP_cont_hi with (df := dfHigh e) (ddf := ddfHigh e); first [eassumption | lra].
  - rewrite !csqHighT_is_CSQ, Ra, Rb. apply CSQ_lo; assumption.
  - rewrite !csqHighT_is_CSQ, Ra, Rb. apply CSQ_hi; assumption.
Qed.

(** cs^2 = (dp/dT)/(de/dT) at EVERY positive temperature, extrapolated regions included *)
Lemma csq_consistent_High T : 0 < T ->
  csqHighT e S T = dpHighT e S T / deHighT e S T.
Proof.
  intro HT. pose proof matched_lo_High as ML. pose proof matched_hi_High as MH.
  destruct S_range_High as [Ra Rb].
  assert (Hle : a <= b) by lra.
  rewrite csqHighT_is_CSQ, dpHighT_is_DP, deHighT_is_DE, Ra, Rb.
  destruct (Rlt_dec T a) as [H1|H1].
  - symmetry. eapply CSQ_consistent_lo with (df := dfHigh e) (ddf := ddfHigh e); first [eassumption | lra].
  - destruct (Rlt_dec b T) as [H2|H2].
    + symmetry. eapply CSQ_consistent_hi with (df := dfHigh e) (ddf := ddfHigh e); first [eassumption | lra].
    + apply CSQ_in. lra.
Qed.

(** the reported derivatives are the derivatives of the reported pressure *)
Lemma derivatives_High T : 0 < T ->
  (a <= T <= b -> derivable_pt_lim (fHigh e) T ((dfHigh e) T)) ->
  (a <= T <= b -> derivable_pt_lim (dfHigh e) T ((ddfHigh e) T)) ->
  derivable_pt_lim (pHighT e S) T (dpHighT e S T) /\
  derivable_pt_lim (dpHighT e S) T (ddpHighT e S T).
Proof.
  intros HT Hf Hdf. assert (Hle : a <= b) by lra.
  pose proof matched_lo_High as ML. pose proof matched_hi_High as MH.
  destruct S_range_High as [Ra Rb].
  rewrite dpHighT_is_DP, ddpHighT_is_DDP.
  split.
  - eapply derivable_pt_lim_ext; [intro; apply pHighT_is_P|]. rewrite Ra, Rb.
    destruct (Rlt_dec T a); [eapply P_deriv_lo; first [eassumption | lra]|].
    destruct (Rlt_dec b T); [eapply P_deriv_hi; first [eassumption | lra]|].
    destruct (Req_dec T a) as [Ea|Na].
    { subst T. eapply P_deriv_at_lo with (df := dfHigh e) (ddf := ddfHigh e); first [eassumption | lra | (apply Hf; lra)]. }
    destruct (Req_dec T b) as [Eb|Nb].
    { subst T. eapply P_deriv_at_hi with (df := dfHigh e) (ddf := ddfHigh e); first [eassumption | lra | (apply Hf; lra)]. }
    apply P_deriv_in; [lra|]. apply Hf. lra.
  - eapply derivable_pt_lim_ext; [intro; apply dpHighT_is_DP|]. rewrite Ra, Rb.
    destruct (Rlt_dec T a); [eapply DP_deriv_lo; first [eassumption | lra]|].
    destruct (Rlt_dec b T); [eapply DP_deriv_hi; first [eassumption | lra]|].
    destruct (Req_dec T a) as [Ea|Na].
    { subst T. eapply DP_deriv_at_lo with (f := fHigh e) (df := dfHigh e) (ddf := ddfHigh e) (epsL := epsilonMinHighT S); first [eassumption | lra | (apply Hdf; lra) | exact 0]. }
    destruct (Req_dec T b) as [Eb|Nb].
    { subst T. eapply DP_deriv_at_hi with (f := fHigh e) (df := dfHigh e) (ddf := ddfHigh e) (epsH := epsilonMaxHighT S); first [eassumption | lra | (apply Hdf; lra) | exact 0]. }
    apply DP_deriv_in; [lra|]. apply Hdf. lra.
Qed.

(** de/dT reported by the code is the derivative of the reported energy density *)
Lemma e_derivative_High T : 0 < T ->
  (a <= T <= b -> derivable_pt_lim (fHigh e) T ((dfHigh e) T)) ->
  (a <= T <= b -> derivable_pt_lim (dfHigh e) T ((ddfHigh e) T)) ->
  derivable_pt_lim (eHighT e S) T (deHighT e S T).
Proof.
  intros HT Hf Hdf. destruct (derivatives_High T HT Hf Hdf) as [D1 D2].
  destruct (identities_High S T) as [_ [_ Hde]]. rewrite Hde.
  eapply derivable_pt_lim_ext; [intro y; apply (proj1 (identities_High S y))|].
  apply (energy_deriv (pHighT e S) (dpHighT e S)); assumption.
Qed.

(** cs^2 itself is continuous at both ends (two-sided) *)
Lemma csq_cont_High :
  (continuity_pt (dfHigh e) a -> continuity_pt (ddfHigh e) a -> continuity_pt (csqHighT e S) a) /\
  (continuity_pt (dfHigh e) b -> continuity_pt (ddfHigh e) b -> continuity_pt (csqHighT e S) b).
Proof.
  destruct S_range_High as [Ra Rb]. assert (Hle : a <= b) by lra.
  split; intros C1 C2.
  - eapply continuity_pt_ext; [intro; apply csqHighT_is_CSQ|]. rewrite Ra, Rb.
    eapply CSQ_cont_lo; first [eassumption | lra | exact 0 | exact (fun _ => 0)].
  - eapply continuity_pt_ext; [intro; apply csqHighT_is_CSQ|]. rewrite Ra, Rb.
    eapply CSQ_cont_hi; first [eassumption | lra | exact 0 | exact (fun _ => 0)].
Qed.

Lemma p_in_range_High T : a <= T <= b -> pHighT e S T = - (fHigh e) T.
Proof. intro H. apply (High_in S T (proj1 S_range_High) (proj2 S_range_High) H). Qed.
End High.

(** ** LOW-temperature phase *)
Section Low.
Notation a := (tabMinLow e).
Notation b := (tabMaxLow e).

(** tie: the generated functions are instances of the template, for EVERY state *)
Lemma pLowT_is_P s T :
  pLowT e s T = P (TMinLowT s) (TMaxLowT s) (fLow e) (muMinLowT s) (aMinLowT s)
                       (epsilonMinLowT s) (muMaxLowT s) (aMaxLowT s) (epsilonMaxLowT s) T.
Proof. unfold pLowT, P. repeat (match goal with |- context [Rlt_dec ?x ?y] => destruct (Rlt_dec x y) end); ring. Qed.
Lemma dpLowT_is_DP s T :
  dpLowT e s T = DP (TMinLowT s) (TMaxLowT s) (dfLow e) (muMinLowT s) (aMinLowT s)
                          (muMaxLowT s) (aMaxLowT s) T.
Proof. unfold dpLowT, DP. repeat (match goal with |- context [Rlt_dec ?x ?y] => destruct (Rlt_dec x y) end); ring. Qed.
Lemma ddpLowT_is_DDP s T :
  ddpLowT e s T = DDP (TMinLowT s) (TMaxLowT s) (ddfLow e) (muMinLowT s) (aMinLowT s)
                             (muMaxLowT s) (aMaxLowT s) T.
Proof. unfold ddpLowT, DDP. repeat (match goal with |- context [Rlt_dec ?x ?y] => destruct (Rlt_dec x y) end); ring. Qed.
Lemma deLowT_is_DE s T :
  deLowT e s T = DE (TMinLowT s) (TMaxLowT s) (ddfLow e) (muMinLowT s) (aMinLowT s)
                           (muMaxLowT s) (aMaxLowT s) T.
Proof. unfold DE. rewrite <- ddpLowT_is_DDP. unf. ring. Qed.
Lemma csqLowT_is_CSQ s T :
  csqLowT e s T = CSQ (TMinLowT s) (TMaxLowT s) (dfLow e) (ddfLow e) (muMinLowT s)
                                    (aMinLowT s) (muMaxLowT s) (aMaxLowT s) T.
Proof.
  unfold csqLowT, CSQ. rewrite !dpLowT_is_DP, !deLowT_is_DE.
  repeat (match goal with |- context [Rlt_dec ?x ?y] => destruct (Rlt_dec x y) end); reflexivity.
Qed.

(** thermodynamic identities, by construction, in every state and at every temperature *)
Lemma identities_Low s T :
  eLowT e s T = T * dpLowT e s T - pLowT e s T /\
  wLowT e s T = T * dpLowT e s T /\
  deLowT e s T = T * ddpLowT e s T.
Proof. unf. repeat split; ring. Qed.

Hypothesis Hab : a < b.
Hypothesis Ha : 0 < a.
Hypothesis Hdfa : (dfLow e) a < 0.
Hypothesis Hddfa : (ddfLow e) a < 0.
Hypothesis Hdfb : (dfLow e) b < 0.
Hypothesis Hddfb : (ddfLow e) b < 0.

(** values inside the range, for every state whose range is [a,b] *)
Lemma Low_in s T : TMinLowT s = a -> TMaxLowT s = b -> a <= T <= b ->
  pLowT e s T = - (fLow e) T /\ dpLowT e s T = - (dfLow e) T /\
  ddpLowT e s T = - (ddfLow e) T /\
  csqLowT e s T = (- (dfLow e) T) / (T * - (ddfLow e) T).
Proof.
  intros E1 E2 [H1 H2].
  assert (p : pLowT e s T = - (fLow e) T).
  { unfold pLowT. rewrite E1, E2. destruct (Rlt_dec T a); [lra|]. destruct (Rlt_dec b T); [lra|ring]. }
  assert (dp : dpLowT e s T = - (dfLow e) T).
  { unfold dpLowT. rewrite E1, E2. destruct (Rlt_dec T a); [lra|]. destruct (Rlt_dec b T); [lra|ring]. }
  assert (ddp : ddpLowT e s T = - (ddfLow e) T).
  { unfold ddpLowT. rewrite E1, E2. destruct (Rlt_dec T a); [lra|]. destruct (Rlt_dec b T); [lra|ring]. }
  repeat split; try assumption.
  unfold csqLowT. rewrite E1, E2. destruct (Rlt_dec T a); [lra|]. destruct (Rlt_dec b T); [lra|].
  rewrite dp. replace (deLowT e s T) with (T * ddpLowT e s T) by (unf; ring).
  rewrite ddp. reflexivity.
Qed.

(** the state after setExtrapolate *)
Let S := SE s0.
Ltac side_Low := first [lra | unfold S, setExtrapolate; autorewrite with setExtrapolate_db; reflexivity].

Lemma S_range_Low : TMinLowT S = a /\ TMaxLowT S = b.
Proof. split; side_Low. Qed.

Lemma in_csq_Low s T : TMinLowT s = a -> TMaxLowT s = b -> a <= T <= b ->
  csqLowT e s T = (- (dfLow e) T) / (T * - (ddfLow e) T).
Proof. intros E1 E2 HT. apply (Low_in s T E1 E2 HT). Qed.
Lemma in_dp_Low s T : TMinLowT s = a -> TMaxLowT s = b -> a <= T <= b ->
  dpLowT e s T = - (dfLow e) T.
Proof. intros E1 E2 HT. apply (Low_in s T E1 E2 HT). Qed.
Lemma in_p_Low s T : TMinLowT s = a -> TMaxLowT s = b -> a <= T <= b ->
  pLowT e s T = - (fLow e) T.
Proof. intros E1 E2 HT. apply (Low_in s T E1 E2 HT). Qed.

Lemma matched_lo_Low : matched (fLow e) (dfLow e) (ddfLow e) a (muMinLowT S) (aMinLowT S) (epsilonMinLowT S).
Proof.
  unfold matched, S, setExtrapolate. autorewrite with setExtrapolate_db. unf.
  repeat rewrite in_csq_Low by side_Low. repeat rewrite in_dp_Low by side_Low.
  repeat rewrite in_p_Low by side_Low.
  repeat split; close_m.
Qed.

Lemma matched_hi_Low : matched (fLow e) (dfLow e) (ddfLow e) b (muMaxLowT S) (aMaxLowT S) (epsilonMaxLowT S).
Proof.
  unfold matched, S, setExtrapolate. autorewrite with setExtrapolate_db. unf.
  repeat rewrite in_csq_Low by side_Low. repeat rewrite in_dp_Low by side_Low.
  repeat rewrite in_p_Low by side_Low.
  repeat split; close_m.
Qed.

(** continuity across both ends of the tabulated range *)
Lemma continuous_Low :
  (continuity_pt (fLow e) a -> continuity_pt (pLowT e S) a) /\
  (continuity_pt (fLow e) b -> continuity_pt (pLowT e S) b) /\
  (continuity_pt (dfLow e) a -> continuity_pt (dpLowT e S) a) /\
  (continuity_pt (dfLow e) b -> continuity_pt (dpLowT e S) b) /\
  (continuity_pt (ddfLow e) a -> continuity_pt (ddpLowT e S) a) /\
  (continuity_pt (ddfLow e) b -> continuity_pt (ddpLowT e S) b) /\
  (forall T, T < a -> csqLowT e S T = csqLowT e S a) /\
  (forall T, b < T -> csqLowT e S T = csqLowT e S b).
Proof.
  pose proof matched_lo_Low as ML. pose proof matched_hi_Low as MH.
  destruct S_range_Low as [Ra Rb].
  assert (Hle : a <= b) by lra.
  repeat split; intros.
  - eapply continuity_pt_ext; [intro; apply pLowT_is_P|]. rewrite Ra, Rb. eapply P_cont_lo with (df := dfLow e) (ddf := ddfLow e); first [eassumption | lra].
  - eapply continuity_pt_ext; [intro; apply pLowT_is_P|]. rewrite Ra, Rb. eapply P_cont_hi with (df := dfLow e) (ddf := ddfLow e); first [eassumption | lra].
  - eapply continuity_pt_ext; [intro; apply dpLowT_is_DP|]. rewrite Ra, Rb. eapply DP_cont_lo with (df := dfLow e) (ddf := ddfLow e); first [eassumption | lra].
  - eapply continuity_pt_ext; [intro; apply dpLowT_is_DP|]. rewrite Ra, Rb. eapply DP_cont_hi with (df := dfLow e) (ddf := ddfLow e); first [eassumption | lra].
  - eapply continuity_pt_ext; [intro; apply ddpLowT_is_DDP|]. rewrite Ra, Rb. eapply DDP_cont_lo with (df := dfLow e) (ddf := ddfLow e); first [eassumption | lra].
  - eapply continuity_pt_ext; [intro; apply ddpLowT_is_DDP|]. rewrite Ra, Rb. eapply DDP_cont_hi with (df := dfLow e) (ddf := ddfLow e); first [eassumption | lra].
  - rewrite !csqLowT_is_CSQ, Ra, Rb. apply CSQ_lo; assumption.
  - rewrite !csqLowT_is_CSQ, Ra, Rb. apply CSQ_hi; assumption.
Qed.

(** cs^2 = (dp/dT)/(de/dT) at EVERY positive temperature, extrapolated regions included *)
Lemma csq_consistent_Low T : 0 < T ->
  csqLowT e S T = dpLowT e S T / deLowT e S T.
Proof.
  intro HT. pose proof matched_lo_Low as ML. pose proof matched_hi_Low as MH.
  destruct S_range_Low as [Ra Rb].
  assert (Hle : a <= b) by lra.
  rewrite csqLowT_is_CSQ, dpLowT_is_DP, deLowT_is_DE, Ra, Rb.
  destruct (Rlt_dec T a) as [H1|H1].
  - symmetry. eapply CSQ_consistent_lo with (df := dfLow e) (ddf := ddfLow e); first [eassumption | lra].
  - destruct (Rlt_dec b T) as [H2|H2].
    + symmetry. eapply CSQ_consistent_hi with (df := dfLow e) (ddf := ddfLow e); first [eassumption | lra].
    + apply CSQ_in. lra.
Qed.

(** the reported derivatives are the derivatives of the reported pressure *)
Lemma derivatives_Low T : 0 < T ->
  (a <= T <= b -> derivable_pt_lim (fLow e) T ((dfLow e) T)) ->
  (a <= T <= b -> derivable_pt_lim (dfLow e) T ((ddfLow e) T)) ->
  derivable_pt_lim (pLowT e S) T (dpLowT e S T) /\
  derivable_pt_lim (dpLowT e S) T (ddpLowT e S T).
Proof.
  intros HT Hf Hdf. assert (Hle : a <= b) by lra.
  pose proof matched_lo_Low as ML. pose proof matched_hi_Low as MH.
  destruct S_range_Low as [Ra Rb].
  rewrite dpLowT_is_DP, ddpLowT_is_DDP.
  split.
  - eapply derivable_pt_lim_ext; [intro; apply pLowT_is_P|]. rewrite Ra, Rb.
    destruct (Rlt_dec T a); [eapply P_deriv_lo; first [eassumption | lra]|].
    destruct (Rlt_dec b T); [eapply P_deriv_hi; first [eassumption | lra]|].
    destruct (Req_dec T a) as [Ea|Na].
    { subst T. eapply P_deriv_at_lo with (df := dfLow e) (ddf := ddfLow e); first [eassumption | lra | (apply Hf; lra)]. }
    destruct (Req_dec T b) as [Eb|Nb].
    { subst T. eapply P_deriv_at_hi with (df := dfLow e) (ddf := ddfLow e); first [eassumption | lra | (apply Hf; lra)]. }
    apply P_deriv_in; [lra|]. apply Hf. lra.
  - eapply derivable_pt_lim_ext; [intro; apply dpLowT_is_DP|]. rewrite Ra, Rb.
    destruct (Rlt_dec T a); [eapply DP_deriv_lo; first [eassumption | lra]|].
    destruct (Rlt_dec b T); [eapply DP_deriv_hi; first [eassumption | lra]|].
    destruct (Req_dec T a) as [Ea|Na].
    { subst T. eapply DP_deriv_at_lo with (f := fLow e) (df := dfLow e) (ddf := ddfLow e) (epsL := epsilonMinLowT S); first [eassumption | lra | (apply Hdf; lra) | exact 0]. }
    destruct (Req_dec T b) as [Eb|Nb].
    { subst T. eapply DP_deriv_at_hi with (f := fLow e) (df := dfLow e) (ddf := ddfLow e) (epsH := epsilonMaxLowT S); first [eassumption | lra | (apply Hdf; lra) | exact 0]. }
    apply DP_deriv_in; [lra|]. apply Hdf. lra.
Qed.

(** de/dT reported by the code is the derivative of the reported energy density *)
Lemma e_derivative_Low T : 0 < T ->
  (a <= T <= b -> derivable_pt_lim (fLow e) T ((dfLow e) T)) ->
  (a <= T <= b -> derivable_pt_lim (dfLow e) T ((ddfLow e) T)) ->
  derivable_pt_lim (eLowT e S) T (deLowT e S T).
Proof.
  intros HT Hf Hdf. destruct (derivatives_Low T HT Hf Hdf) as [D1 D2].
  destruct (identities_Low S T) as [_ [_ Hde]]. rewrite Hde.
  eapply derivable_pt_lim_ext; [intro y; apply (proj1 (identities_Low S y))|].
  apply (energy_deriv (pLowT e S) (dpLowT e S)); assumption.
Qed.

(** cs^2 itself is continuous at both ends (two-sided) *)
Lemma csq_cont_Low :
  (continuity_pt (dfLow e) a -> continuity_pt (ddfLow e) a -> continuity_pt (csqLowT e S) a) /\
  (continuity_pt (dfLow e) b -> continuity_pt (ddfLow e) b -> continuity_pt (csqLowT e S) b).
Proof.
  destruct S_range_Low as [Ra Rb]. assert (Hle : a <= b) by lra.
  split; intros C1 C2.
  - eapply continuity_pt_ext; [intro; apply csqLowT_is_CSQ|]. rewrite Ra, Rb.
    eapply CSQ_cont_lo; first [eassumption | lra | exact 0 | exact (fun _ => 0)].
  - eapply continuity_pt_ext; [intro; apply csqLowT_is_CSQ|]. rewrite Ra, Rb.
    eapply CSQ_cont_hi; first [eassumption | lra | exact 0 | exact (fun _ => 0)].
Qed.

Lemma p_in_range_Low T : a <= T <= b -> pLowT e S T = - (fLow e) T.
Proof. intro H. apply (Low_in S T (proj1 S_range_Low) (proj2 S_range_Low) H). Qed.
End Low.

End C10.

(** * Property theorems *)
Theorem thermodynamic_identities : forall e s T,
  (eHighT e s T = T * dpHighT e s T - pHighT e s T /\ wHighT e s T = T * dpHighT e s T /\
   deHighT e s T = T * ddpHighT e s T) /\
  (eLowT e s T = T * dpLowT e s T - pLowT e s T /\ wLowT e s T = T * dpLowT e s T /\
   deLowT e s T = T * ddpLowT e s T).
Proof. intros e s T. exact (conj (identities_High e s T) (identities_Low e s T)). Qed.
Print Assumptions thermodynamic_identities.

Theorem extrapolation_matched_High : forall e s0,
  tabMinHigh e < tabMaxHigh e -> 0 < tabMinHigh e ->
  dfHigh e (tabMinHigh e) < 0 -> ddfHigh e (tabMinHigh e) < 0 ->
  dfHigh e (tabMaxHigh e) < 0 -> ddfHigh e (tabMaxHigh e) < 0 ->
  let S := setExtrapolate e s0 in
  matched (fHigh e) (dfHigh e) (ddfHigh e) (tabMinHigh e) (muMinHighT S) (aMinHighT S) (epsilonMinHighT S) /\
  matched (fHigh e) (dfHigh e) (ddfHigh e) (tabMaxHigh e) (muMaxHighT S) (aMaxHighT S) (epsilonMaxHighT S).
Proof. intros e s0 H1 H2 H3 H4 H5 H6 S. split; [apply matched_lo_High|apply matched_hi_High]; assumption. Qed.
Print Assumptions extrapolation_matched_High.

Theorem extrapolation_matched_Low : forall e s0,
  tabMinLow e < tabMaxLow e -> 0 < tabMinLow e ->
  dfLow e (tabMinLow e) < 0 -> ddfLow e (tabMinLow e) < 0 ->
  dfLow e (tabMaxLow e) < 0 -> ddfLow e (tabMaxLow e) < 0 ->
  let S := setExtrapolate e s0 in
  matched (fLow e) (dfLow e) (ddfLow e) (tabMinLow e) (muMinLowT S) (aMinLowT S) (epsilonMinLowT S) /\
  matched (fLow e) (dfLow e) (ddfLow e) (tabMaxLow e) (muMaxLowT S) (aMaxLowT S) (epsilonMaxLowT S).
Proof. intros e s0 H1 H2 H3 H4 H5 H6 S. split; [apply matched_lo_Low|apply matched_hi_Low]; assumption. Qed.
Print Assumptions extrapolation_matched_Low.

(* ==== END OF CORE ====
   Everything above this line (the ties between the generated functions and the template, the
   state after setExtrapolate and the matching of the template coefficients) is what the
   certified evaluation files Cases/Eval_*.v need.  If a lemma BELOW this line stops proving,
   the harness compiles the part above on its own (module EvalCore) so that the certified
   model-vs-implementation comparison is still carried out. *)

(** the transition strength is assembled from the two phases as documented (eq. (34) of
    [GKvdV20]); proved up to the field identities that hold for the TOTAL inverse of Coq's reals
    (/ (x * y) = / x * / y without side conditions), so that (...)/3/w, (...)/(3*w), local
    variables for sub-expressions etc. are all accepted *)
Lemma alpha_def e s T :
  alpha e s T = (eHighT e s T - eLowT e s T - (pHighT e s T - pLowT e s T) / csqLowT e s T)
                / (3 * wHighT e s T).
Proof.
  unfold alpha.
  first [ reflexivity
        | (cbv zeta; unfold Rdiv; rewrite ?Rinv_mult; ring)
        | (cbv zeta; unf; unfold Rdiv; rewrite ?Rinv_mult; ring) ].
Qed.
Theorem transition_strength_is_as_documented : forall e s T,
  alpha e s T = (eHighT e s T - eLowT e s T - (pHighT e s T - pLowT e s T) / csqLowT e s T)
                / (3 * wHighT e s T).
Proof. exact alpha_def. Qed.
Print Assumptions transition_strength_is_as_documented.

Theorem continuous_across_range_ends_High : forall e s0,
  tabMinHigh e < tabMaxHigh e -> 0 < tabMinHigh e ->
  dfHigh e (tabMinHigh e) < 0 -> ddfHigh e (tabMinHigh e) < 0 ->
  dfHigh e (tabMaxHigh e) < 0 -> ddfHigh e (tabMaxHigh e) < 0 ->
  let S := setExtrapolate e s0 in let a := tabMinHigh e in let b := tabMaxHigh e in
  (continuity_pt (fHigh e) a -> continuity_pt (pHighT e S) a) /\
  (continuity_pt (fHigh e) b -> continuity_pt (pHighT e S) b) /\
  (continuity_pt (dfHigh e) a -> continuity_pt (dpHighT e S) a) /\
  (continuity_pt (dfHigh e) b -> continuity_pt (dpHighT e S) b) /\
  (continuity_pt (ddfHigh e) a -> continuity_pt (ddpHighT e S) a) /\
  (continuity_pt (ddfHigh e) b -> continuity_pt (ddpHighT e S) b) /\
  (forall T, T < a -> csqHighT e S T = csqHighT e S a) /\
  (forall T, b < T -> csqHighT e S T = csqHighT e S b).
Proof. intros. apply continuous_High; assumption. Qed.
Print Assumptions continuous_across_range_ends_High.

Theorem continuous_across_range_ends_Low : forall e s0,
  tabMinLow e < tabMaxLow e -> 0 < tabMinLow e ->
  dfLow e (tabMinLow e) < 0 -> ddfLow e (tabMinLow e) < 0 ->
  dfLow e (tabMaxLow e) < 0 -> ddfLow e (tabMaxLow e) < 0 ->
  let S := setExtrapolate e s0 in let a := tabMinLow e in let b := tabMaxLow e in
  (continuity_pt (fLow e) a -> continuity_pt (pLowT e S) a) /\
  (continuity_pt (fLow e) b -> continuity_pt (pLowT e S) b) /\
  (continuity_pt (dfLow e) a -> continuity_pt (dpLowT e S) a) /\
  (continuity_pt (dfLow e) b -> continuity_pt (dpLowT e S) b) /\
  (continuity_pt (ddfLow e) a -> continuity_pt (ddpLowT e S) a) /\
  (continuity_pt (ddfLow e) b -> continuity_pt (ddpLowT e S) b) /\
  (forall T, T < a -> csqLowT e S T = csqLowT e S a) /\
  (forall T, b < T -> csqLowT e S T = csqLowT e S b).
Proof. intros. apply continuous_Low; assumption. Qed.
Print Assumptions continuous_across_range_ends_Low.

Theorem sound_speed_is_dp_over_de : forall e s0,
  (tabMinHigh e < tabMaxHigh e -> 0 < tabMinHigh e ->
   dfHigh e (tabMinHigh e) < 0 -> ddfHigh e (tabMinHigh e) < 0 ->
   dfHigh e (tabMaxHigh e) < 0 -> ddfHigh e (tabMaxHigh e) < 0 ->
   forall T, 0 < T -> csqHighT e (setExtrapolate e s0) T =
                      dpHighT e (setExtrapolate e s0) T / deHighT e (setExtrapolate e s0) T) /\
  (tabMinLow e < tabMaxLow e -> 0 < tabMinLow e ->
   dfLow e (tabMinLow e) < 0 -> ddfLow e (tabMinLow e) < 0 ->
   dfLow e (tabMaxLow e) < 0 -> ddfLow e (tabMaxLow e) < 0 ->
   forall T, 0 < T -> csqLowT e (setExtrapolate e s0) T =
                      dpLowT e (setExtrapolate e s0) T / deLowT e (setExtrapolate e s0) T).
Proof. intros e s0. split; intros; [apply csq_consistent_High|apply csq_consistent_Low]; assumption. Qed.
Print Assumptions sound_speed_is_dp_over_de.

Theorem reported_derivatives_are_derivatives : forall e s0,
  (tabMinHigh e < tabMaxHigh e -> 0 < tabMinHigh e ->
   dfHigh e (tabMinHigh e) < 0 -> ddfHigh e (tabMinHigh e) < 0 ->
   dfHigh e (tabMaxHigh e) < 0 -> ddfHigh e (tabMaxHigh e) < 0 ->
   forall T, 0 < T ->   (* EVERY positive temperature, the two junctions included *)
   (tabMinHigh e <= T <= tabMaxHigh e -> derivable_pt_lim (fHigh e) T (dfHigh e T)) ->
   (tabMinHigh e <= T <= tabMaxHigh e -> derivable_pt_lim (dfHigh e) T (ddfHigh e T)) ->
   derivable_pt_lim (pHighT e (setExtrapolate e s0)) T (dpHighT e (setExtrapolate e s0) T) /\
   derivable_pt_lim (dpHighT e (setExtrapolate e s0)) T (ddpHighT e (setExtrapolate e s0) T)) /\
  (tabMinLow e < tabMaxLow e -> 0 < tabMinLow e ->
   dfLow e (tabMinLow e) < 0 -> ddfLow e (tabMinLow e) < 0 ->
   dfLow e (tabMaxLow e) < 0 -> ddfLow e (tabMaxLow e) < 0 ->
   forall T, 0 < T ->
   (tabMinLow e <= T <= tabMaxLow e -> derivable_pt_lim (fLow e) T (dfLow e T)) ->
   (tabMinLow e <= T <= tabMaxLow e -> derivable_pt_lim (dfLow e) T (ddfLow e T)) ->
   derivable_pt_lim (pLowT e (setExtrapolate e s0)) T (dpLowT e (setExtrapolate e s0) T) /\
   derivable_pt_lim (dpLowT e (setExtrapolate e s0)) T (ddpLowT e (setExtrapolate e s0) T)).
Proof. intros e s0. split; intros; [apply derivatives_High|apply derivatives_Low]; assumption. Qed.
Print Assumptions reported_derivatives_are_derivatives.

Theorem reported_de_is_derivative_of_e : forall e s0,
  (tabMinHigh e < tabMaxHigh e -> 0 < tabMinHigh e ->
   dfHigh e (tabMinHigh e) < 0 -> ddfHigh e (tabMinHigh e) < 0 ->
   dfHigh e (tabMaxHigh e) < 0 -> ddfHigh e (tabMaxHigh e) < 0 ->
   forall T, 0 < T ->
   (tabMinHigh e <= T <= tabMaxHigh e -> derivable_pt_lim (fHigh e) T (dfHigh e T)) ->
   (tabMinHigh e <= T <= tabMaxHigh e -> derivable_pt_lim (dfHigh e) T (ddfHigh e T)) ->
   derivable_pt_lim (eHighT e (setExtrapolate e s0)) T (deHighT e (setExtrapolate e s0) T)) /\
  (tabMinLow e < tabMaxLow e -> 0 < tabMinLow e ->
   dfLow e (tabMinLow e) < 0 -> ddfLow e (tabMinLow e) < 0 ->
   dfLow e (tabMaxLow e) < 0 -> ddfLow e (tabMaxLow e) < 0 ->
   forall T, 0 < T ->
   (tabMinLow e <= T <= tabMaxLow e -> derivable_pt_lim (fLow e) T (dfLow e T)) ->
   (tabMinLow e <= T <= tabMaxLow e -> derivable_pt_lim (dfLow e) T (ddfLow e T)) ->
   derivable_pt_lim (eLowT e (setExtrapolate e s0)) T (deLowT e (setExtrapolate e s0) T)).
Proof. intros e s0. split; intros; [apply e_derivative_High|apply e_derivative_Low]; assumption. Qed.
Print Assumptions reported_de_is_derivative_of_e.

Theorem sound_speed_continuous_at_range_ends : forall e s0,
  (tabMinHigh e < tabMaxHigh e -> 0 < tabMinHigh e ->
   ddfHigh e (tabMinHigh e) < 0 -> ddfHigh e (tabMaxHigh e) < 0 ->
   let S := setExtrapolate e s0 in let a := tabMinHigh e in let b := tabMaxHigh e in
   (continuity_pt (dfHigh e) a -> continuity_pt (ddfHigh e) a -> continuity_pt (csqHighT e S) a) /\
   (continuity_pt (dfHigh e) b -> continuity_pt (ddfHigh e) b -> continuity_pt (csqHighT e S) b)) /\
  (tabMinLow e < tabMaxLow e -> 0 < tabMinLow e ->
   ddfLow e (tabMinLow e) < 0 -> ddfLow e (tabMaxLow e) < 0 ->
   let S := setExtrapolate e s0 in let a := tabMinLow e in let b := tabMaxLow e in
   (continuity_pt (dfLow e) a -> continuity_pt (ddfLow e) a -> continuity_pt (csqLowT e S) a) /\
   (continuity_pt (dfLow e) b -> continuity_pt (ddfLow e) b -> continuity_pt (csqLowT e S) b)).
Proof. intros e s0. split; intros; [apply csq_cont_High|apply csq_cont_Low]; assumption. Qed.
Print Assumptions sound_speed_continuous_at_range_ends.

Theorem pressure_is_minus_table_in_range : forall e s0 T,
  (tabMinHigh e <= T <= tabMaxHigh e -> pHighT e (setExtrapolate e s0) T = - fHigh e T) /\
  (tabMinLow e <= T <= tabMaxLow e -> pLowT e (setExtrapolate e s0) T = - fLow e T).
Proof. intros e s0 T. split; intro H; [apply p_in_range_High|apply p_in_range_Low]; exact H. Qed.
Print Assumptions pressure_is_minus_table_in_range.

(** frame condition (facts extracted from every file under src/WallGo on this run, see
    tools/gen_thermo.py frame_facts): the 16 modelled attributes are assigned only by __init__ and
    setExtrapolate of the class itself -- by no other method, no function outside the class
    (whatever the name of the object it stores to), no subclass, no other module, and by no
    dynamic access that can reach a Thermodynamics object (setattr/delattr/vars/__dict__/
    X.__setattr__/exec/eval in thermodynamics.py or on an expression naming a thermodynamics
    object, or anywhere with a literal modelled name) -- and setExtrapolate assigns all of them,
    so the state every other theorem speaks about is the state the EOS functions read until the
    next call of setExtrapolate *)
Theorem only_init_and_setExtrapolate_write_the_modelled_state :
  forallb (fun w => existsb (String.eqb (fst w)) ("__init__" :: "setExtrapolate" :: nil)%string)
          writers = true /\
  (exists ws, In ("setExtrapolate"%string, ws) writers /\
              forallb (fun a => existsb (String.eqb a) ws) modelled_attrs = true) /\
  foreign_writers = nil /\ dynamic_writes = nil.
Proof.
  split; [vm_compute; reflexivity|]. split; [|split; reflexivity].
  eexists; split; [first [left; reflexivity | right; left; reflexivity
                         | right; right; left; reflexivity]|vm_compute; reflexivity].
Qed.
Print Assumptions only_init_and_setExtrapolate_write_the_modelled_state.

(** the functions the theorems are about are the functions a caller reaches: no method of the
    class is rebound on an instance (self.csqLowT = cache(self.csqLowT)), on the class from
    outside its body (Thermodynamics.csqLowT = ...), in a subclass defined in src/WallGo, or
    through a base class other than object; and the two free-energy members (the tables fHigh,
    fLow ... of the environment) are bound by __init__ only *)
Theorem modelled_methods_and_tables_are_not_rebound :
  method_rebindings = nil /\
  forallb (fun w => String.eqb (fst w) "__init__") env_writers = true.
Proof. split; [reflexivity | vm_compute; reflexivity]. Qed.
Print Assumptions modelled_methods_and_tables_are_not_rebound.

(** non-vacuity: a concrete table satisfying every hypothesis (ideal gas f = -T^4) *)
Example hypotheses_satisfiable :
  let e := mk_env (fun T => - T ^ 4) (fun T => - T ^ 4) (fun T => - 4 * T ^ 3) (fun T => - 12 * T ^ 2)
                  (fun T => - 4 * T ^ 3) (fun T => - 12 * T ^ 2) 2 1 2 1 in
  tabMinHigh e < tabMaxHigh e /\ 0 < tabMinHigh e /\ dfHigh e (tabMinHigh e) < 0 /\
  ddfHigh e (tabMinHigh e) < 0 /\ dfHigh e (tabMaxHigh e) < 0 /\ ddfHigh e (tabMaxHigh e) < 0 /\
  tabMinLow e < tabMaxLow e /\ 0 < tabMinLow e /\ dfLow e (tabMinLow e) < 0 /\
  ddfLow e (tabMinLow e) < 0 /\ dfLow e (tabMaxLow e) < 0 /\ ddfLow e (tabMaxLow e) < 0.
Proof. cbn. repeat split; lra. Qed.
