(** C13 -- out-of-equilibrium moments are the momentum integrals they are defined to be;
    T^{mu nu} is assembled from them; moments are linear in the deviation.

    Every statement is about the module GenC13.MomentsGen REGENERATED from the sources on
    this run (tools/gen_moments.py):
      grid.py        g_decompactify, g_compactificationDerivatives, the cached-coordinate
                     state machine (cacheCoordinates, changeMomentumFalloffScale,
                     changePositionFalloffScale, grid_init), the node formulas rzNode/rpNode;
      polynomial.py  intNodeWeight_pz / intNodeWeight_pp (Polynomial.integrate),
                     integrate_new_basis;
      boltzmann.py   w_Delta00/02/20/11, gd_energy, getDeltas_ops, gd_moment_Delta..;
      equationOfMotion.py, helpers.py   T30_term, T33_term, tm_u0.., gammaSq.
    External: nothing numerical is assumed in sections 1-7.  Section 8 (exactness on the
    polynomial class) isolates the only analytic fact that is not proved here. *)
From Coq Require Import Reals Lra Lia List String Bool Arith.
From Coquelicot Require Import Coquelicot.
From WG Require Import Lib.NumpySem Lib.Moments Lib.MomentsGCL Lib.MomentsInt.
From GenC13 Require Import MomentsGen.
Import ListNotations.
Local Open Scope R_scope.

(** * 1. the integrand weights *)
Definition Esq (msq pz pp : R) : R := msq + pz ^ 2 + pp ^ 2.
(** p_par dp_z dp_par / (4 pi^2 E), with dp = (dp/drho) drho *)
Definition measure (pz pp msq dpzdrz dppdrp : R) : R :=
  pp * dpzdrz * dppdrp / (4 * PI ^ 2 * sqrt (Esq msq pz pp)).

Lemma energy_is_sqrt pz pp msq a b : gd_energy pz pp msq a b = sqrt (Esq msq pz pp).
Proof. unfold gd_energy, Esq. f_equal. Qed.

Lemma moment_weights_lem pz pp msq dpz dpp : 0 < Esq msq pz pp ->
  let E := sqrt (Esq msq pz pp) in
  w_Delta00 pz pp msq dpz dpp = measure pz pp msq dpz dpp * 1 /\
  w_Delta02 pz pp msq dpz dpp = measure pz pp msq dpz dpp * pz ^ 2 /\
  w_Delta20 pz pp msq dpz dpp = measure pz pp msq dpz dpp * E ^ 2 /\
  w_Delta11 pz pp msq dpz dpp = measure pz pp msq dpz dpp * (E * pz).
Proof.
  intros H E. pose proof PI_RGT_0 as Hpi.
  assert (HE : sqrt (Esq msq pz pp) <> 0) by (apply Rgt_not_eq, sqrt_lt_R0; exact H).
  unfold w_Delta00, w_Delta02, w_Delta20, w_Delta11, measure, E.
  change (sqrt (msq + pz ^ 2 + pp ^ 2)) with (sqrt (Esq msq pz pp)).
  repeat split; field; split; lra.
Qed.

(** the measure is d^3p / ((2 pi)^3 E) with the azimuthal angle integrated out *)
Lemma measure_is_d3p_lem pz pp msq dpz dpp : 0 < Esq msq pz pp ->
  measure pz pp msq dpz dpp =
  RInt (fun _ : R => pp / ((2 * PI) ^ 3 * sqrt (Esq msq pz pp))) 0 (2 * PI) * (dpz * dpp).
Proof.
  intros H. rewrite azimuthal_integral by (apply Rgt_not_eq, sqrt_lt_R0; exact H).
  unfold measure. pose proof PI_RGT_0.
  field. split; [apply Rgt_not_eq, sqrt_lt_R0; exact H|lra].
Qed.

(** * 2. the momentum maps, their Jacobians, and the cache *)
Definition pz_of (T r : R) : R := snd (fst (g_decompactify (mk_g_env T 1) r r r)).
Definition pp_of (T r : R) : R := snd (g_decompactify (mk_g_env T 1) r r r).
Definition dpz_of (T r : R) : R :=
  snd (fst (g_compactificationDerivatives (mk_g_env T 1) r r r)).
Definition dpp_of (T r : R) : R := snd (g_compactificationDerivatives (mk_g_env T 1) r r r).

(** the maps act component-wise and the momentum components ignore the position scale *)
Lemma momentum_maps_separable T L a b c :
  snd (fst (g_decompactify (mk_g_env T L) a b c)) = pz_of T b /\
  snd (g_decompactify (mk_g_env T L) a b c) = pp_of T c /\
  snd (fst (g_compactificationDerivatives (mk_g_env T L) a b c)) = dpz_of T b /\
  snd (g_compactificationDerivatives (mk_g_env T L) a b c) = dpp_of T c.
Proof. repeat split. Qed.

Lemma is_derive_ext_R (f g : R -> R) (x l : R) :
  (forall t : R, f t = g t) -> is_derive f x l -> is_derive g x l.
Proof. apply is_derive_ext. Qed.

Lemma jacobians_are_derivatives_lem T r :
  (-1 < r < 1 -> is_derive (pz_of T) r (dpz_of T r)) /\
  (r < 1 -> is_derive (pp_of T) r (dpp_of T r)).
Proof.
  split; intros H.
  - apply (is_derive_ext_R (fun x => 2 * T * atanh_R x)).
    + intros t. unfold pz_of, g_decompactify. cbn [fst snd g_momentumFalloffT]. ring.
    + replace (dpz_of T r) with (2 * T / (1 - r ^ 2)).
      * apply pzmap_is_derive; exact H.
      * unfold dpz_of, g_compactificationDerivatives. cbn [fst snd g_momentumFalloffT].
        field. nra.
  - apply (is_derive_ext_R (fun x => - T * ln ((1 - x) / 2))).
    + intros t. unfold pp_of, g_decompactify. cbn [fst snd g_momentumFalloffT]. ring.
    + replace (dpp_of T r) with (T / (1 - r)).
      * apply ppmap_is_derive; exact H.
      * unfold dpp_of, g_compactificationDerivatives. cbn [fst snd g_momentumFalloffT].
        field. lra.
Qed.

(** Grid3Scales (the class production builds) duplicates the momentum formulas: they are
    the same maps, so everything below holds for it as well *)
Lemma grid3scales_maps_lem T r :
  (-1 < r < 1 -> g3_pz (mk_g3_env T) r = pz_of T r /\ g3_dpz (mk_g3_env T) r = dpz_of T r) /\
  (r < 1 -> g3_pp (mk_g3_env T) r = pp_of T r /\ g3_dpp (mk_g3_env T) r = dpp_of T r).
Proof.
  unfold g3_pz, g3_pp, g3_dpz, g3_dpp, pz_of, pp_of, dpz_of, dpp_of, g_decompactify,
    g_compactificationDerivatives.
  cbn [fst snd g_momentumFalloffT g3_momentumFalloffT].
  split; intros H; split; try ring; field; nra.
Qed.

Lemma pz_of_explicit T r : pz_of T r = 2 * T * atanh_R r.
Proof. unfold pz_of, g_decompactify. cbn [fst snd g_momentumFalloffT]. ring. Qed.

(** the cached arrays belong to the CURRENT momentum scale *)
Definition cache_current (s : gst) : Prop :=
  forall r, s_pzValues s r = pz_of (s_momentumFalloffT s) r /\
            s_ppValues s r = pp_of (s_momentumFalloffT s) r /\
            s_dpzdrz s r = dpz_of (s_momentumFalloffT s) r /\
            s_dppdrp s r = dpp_of (s_momentumFalloffT s) r.

Ltac cache_unfold :=
  unfold grid_init, changeMomentumFalloffScale, changePositionFalloffScale,
    g3_changePositionFalloffScale, cacheCoordinates, pz_of, pp_of, dpz_of, dpp_of in *; cbn in *.
Ltac cache_tac0 := intros r; cache_unfold; repeat split; reflexivity.
Ltac cache_tac H :=
  intros r; destruct (H r) as (h1 & h2 & h3 & h4);
  cache_unfold; rewrite ?h1, ?h2, ?h3, ?h4; repeat split; reflexivity.

Lemma init_current L T s0 : cache_current (grid_init L T s0).
Proof. cache_tac0. Qed.
Lemma recache_current s : cache_current (cacheCoordinates s).
Proof. cache_tac0. Qed.
Lemma momentum_rescale_current t s : cache_current s ->
  cache_current (changeMomentumFalloffScale t s).
Proof. intros H. cache_tac H. Qed.
Lemma position_rescale_current l s : cache_current s ->
  cache_current (changePositionFalloffScale l s).
Proof. intros H. cache_tac H. Qed.
Lemma g3_position_rescale_current s : cache_current s ->
  cache_current (g3_changePositionFalloffScale s).
Proof. intros H. cache_tac H. Qed.
Lemma momentum_rescale_sets_scale t s :
  s_momentumFalloffT (changeMomentumFalloffScale t s) = t.
Proof. reflexivity. Qed.

(** OpPosition3 : Grid3Scales.changePositionFalloffScale (4 arguments; what production
    calls).  The generator checked that Grid3Scales inherits _cacheCoordinates,
    changeMomentumFalloffScale and the getters, and never writes the cached attributes. *)
Inductive gop := OpMomentum (t : R) | OpPosition (l : R) | OpRecache | OpPosition3.
Definition gstep (s : gst) (o : gop) : gst :=
  match o with
  | OpMomentum t => changeMomentumFalloffScale t s
  | OpPosition l => changePositionFalloffScale l s
  | OpRecache => cacheCoordinates s
  | OpPosition3 => g3_changePositionFalloffScale s
  end.

Lemma history_current ops : forall s, cache_current s -> cache_current (fold_left gstep ops s).
Proof.
  induction ops as [|o ops IH]; intros s H; [exact H|].
  cbn [fold_left]. apply IH. destruct o; cbn [gstep].
  - apply momentum_rescale_current; exact H.
  - apply position_rescale_current; exact H.
  - apply recache_current.
  - apply g3_position_rescale_current; exact H.
Qed.

(** a Grid3Scales object: whatever its history, its cached momentum arrays are ITS OWN maps
    (the g3 definitions) at the current scale, at every node incl. the kept end point rho_par = -1 *)
Lemma g3_cache_current_lem s : cache_current s ->
  forall r, (-1 < r < 1 -> s_pzValues s r = g3_pz (mk_g3_env (s_momentumFalloffT s)) r /\
                         s_dpzdrz s r = g3_dpz (mk_g3_env (s_momentumFalloffT s)) r) /\
            (r < 1 -> s_ppValues s r = g3_pp (mk_g3_env (s_momentumFalloffT s)) r /\
                      s_dppdrp s r = g3_dpp (mk_g3_env (s_momentumFalloffT s)) r).
Proof.
  intros H r. destruct (H r) as (a & b & c & d).
  destruct (grid3scales_maps_lem (s_momentumFalloffT s) r) as [Z P].
  split; intros Hr.
  - destruct (Z Hr) as [z1 z2]. rewrite a, c, z1, z2. split; reflexivity.
  - destruct (P Hr) as [p1 p2]. rewrite b, d, p1, p2. split; reflexivity.
Qed.

(** the scale after a history is the last one set *)
Definition scale_after (T : R) (ops : list gop) : R :=
  fold_left (fun T o => match o with OpMomentum t => t | _ => T end) ops T.
Lemma init_scale L T s0 : s_momentumFalloffT (grid_init L T s0) = T.
Proof. reflexivity. Qed.
Lemma step_scale s o :
  s_momentumFalloffT (gstep s o) = match o with OpMomentum t => t | _ => s_momentumFalloffT s end.
Proof. destruct o; reflexivity. Qed.
Lemma history_scale ops : forall s,
  s_momentumFalloffT (fold_left gstep ops s) = scale_after (s_momentumFalloffT s) ops.
Proof.
  induction ops as [|o ops IH]; intros s; [reflexivity|].
  cbn [fold_left]. rewrite IH, step_scale. unfold scale_after. cbn [fold_left]. reflexivity.
Qed.

Lemma rescaled_equals_fresh_lem L T s0 ops L' s1 :
  let s := fold_left gstep ops (grid_init L T s0) in
  let s' := grid_init L' (s_momentumFalloffT s) s1 in
  forall r, s_pzValues s r = s_pzValues s' r /\ s_ppValues s r = s_ppValues s' r /\
            s_dpzdrz s r = s_dpzdrz s' r /\ s_dppdrp s r = s_dppdrp s' r.
Proof.
  intros s s' r.
  destruct (history_current ops _ (init_current L T s0) r) as (a & b & c & d).
  destruct (init_current L' (s_momentumFalloffT s) s1 r) as (a' & b' & c' & d').
  fold s in a, b, c, d. fold s' in a', b', c', d'.
  assert (E : s_momentumFalloffT s' = s_momentumFalloffT s) by reflexivity.
  rewrite E in a', b', c', d'. rewrite a, b, c, d, a', b', c', d'. repeat split.
Qed.

(** * 3. the nodal quadrature weights as getDeltas uses them (endpoints = False) *)
Definition qz (N i : nat) : R :=
  intNodeWeight_pz (INR N) false (Nat.eqb i rz_lo) (Nat.eqb (S i) (rz_hi N)) (rzNode (INR N) i).
Definition qp (N i : nat) : R :=
  intNodeWeight_pp (INR N) false (Nat.eqb i rp_lo) (Nat.eqb (S i) (rp_hi N)) (rpNode (INR N) i).

Lemma qz_value N i : INR N <> 0 -> qz N i = sqrt (1 - rzNode (INR N) i ^ 2) * (PI / INR N).
Proof.
  intros H. unfold qz, intNodeWeight_pz.
  destruct (Nat.eqb i rz_lo), (Nat.eqb (S i) (rz_hi N)); field; exact H.
Qed.
(** away from the kept endpoint rho = -1 (whose term vanishes anyway, see section 8) *)
Lemma qp_value N i : INR N - 1 <> 0 -> Nat.eqb i rp_lo = false ->
  qp N i = sqrt (1 - rpNode (INR N) i ^ 2) * (PI / (INR N - 1)).
Proof.
  intros H E. unfold qp, intNodeWeight_pp. rewrite ?E.
  destruct (Nat.eqb (S i) (rp_hi N)); field; exact H.
Qed.

(** * 4. the moments are Gauss-Chebyshev-Lobatto sums of  measure * weight * deltaF *)
Definition gd_sum (s : gst) (N : nat) (msq : R) (g : R -> R -> R -> R) (f : R -> R -> R) : R :=
  sumf rz_lo (rz_hi N) (fun i => sumf rp_lo (rp_hi N) (fun j =>
    let rz := rzNode (INR N) i in let rp := rpNode (INR N) j in
    let pz := s_pzValues s rz in let pp := s_ppValues s rp in
    qz N i * qp N j * measure pz pp msq (s_dpzdrz s rz) (s_dppdrp s rp)
    * g (sqrt (Esq msq pz pp)) pz pp * f rz rp)).

Definition nodes_energy_positive (s : gst) (N : nat) (msq : R) : Prop :=
  forall i j, (rz_lo <= i < rz_hi N)%nat -> (rp_lo <= j < rp_hi N)%nat ->
    0 < Esq msq (s_pzValues s (rzNode (INR N) i)) (s_ppValues s (rpNode (INR N) j)).

Lemma positive_mass_suffices s N msq : 0 < msq -> nodes_energy_positive s N msq.
Proof. intros H i j _ _. unfold Esq. nra. Qed.

(** massless species (symmetric side of every wall): E > 0 at every node because N is odd,
    so that no node has pz = 0 *)
Lemma massless_nodes_lem s k msq : cache_current s -> s_momentumFalloffT s <> 0 ->
  0 <= msq -> nodes_energy_positive s (2 * k + 1) msq.
Proof.
  intros Hc HT Hm i j Hi _.
  unfold rz_lo, rz_hi in Hi.
  destruct (Hc (rzNode (INR (2 * k + 1)) i)) as (Epz & _). rewrite Epz, pz_of_explicit.
  assert (Hr : rzNode (INR (2 * k + 1)) i = - cos (INR i * PI / INR (2 * k + 1)))
    by (unfold rzNode; f_equal).
  rewrite Hr.
  pose proof (lobatto_node_inside (2 * k + 1) i ltac:(lia)) as Hin.
  pose proof (lobatto_node_nonzero k i ltac:(lia)) as Hnz.
  set (x := - cos (INR i * PI / INR (2 * k + 1))) in *.
  assert (Ha : atanh_R x <> 0) by (intro Z; apply Hnz, atanh_R_zero; assumption).
  assert (Hp : 2 * s_momentumFalloffT s * atanh_R x <> 0).
  { apply Rmult_integral_contrapositive_currified; [|exact Ha].
    apply Rmult_integral_contrapositive_currified; [lra|exact HT]. }
  unfold Esq.
  assert (0 < (2 * s_momentumFalloffT s * atanh_R x) ^ 2) by (apply pow2_gt_0; exact Hp).
  nra.
Qed.

Ltac moment_tac s N msq H :=
  unfold gd_sum; apply sumf_ext; intros i Hi; apply sumf_ext; intros j Hj;
  cbv zeta; fold (qz N i); fold (qp N j);
  destruct (moment_weights_lem (s_pzValues s (rzNode (INR N) i)) (s_ppValues s (rpNode (INR N) j))
              msq (s_dpzdrz s (rzNode (INR N) i)) (s_dppdrp s (rpNode (INR N) j)) (H i j Hi Hj))
    as (w00 & w02 & w20 & w11);
  rewrite ?w00, ?w02, ?w20, ?w11; ring.

Lemma moments_are_sums_lem s N msq f : nodes_energy_positive s N msq ->
  gd_moment_Delta00 s N msq f = gd_sum s N msq (fun E pz pp => 1) f /\
  gd_moment_Delta02 s N msq f = gd_sum s N msq (fun E pz pp => pz ^ 2) f /\
  gd_moment_Delta20 s N msq f = gd_sum s N msq (fun E pz pp => E ^ 2) f /\
  gd_moment_Delta11 s N msq f = gd_sum s N msq (fun E pz pp => E * pz) f.
Proof.
  intros H. repeat split.
  - unfold gd_moment_Delta00. moment_tac s N msq H.
  - unfold gd_moment_Delta02. moment_tac s N msq H.
  - unfold gd_moment_Delta20. moment_tac s N msq H.
  - unfold gd_moment_Delta11. moment_tac s N msq H.
Qed.

(** * 5. linearity in the deviation (no hypothesis at all) *)
Ltac lin_tac :=
  rewrite <- sumf_lin; apply sumf_ext; intros i Hi;
  rewrite <- sumf_lin; apply sumf_ext; intros j Hj; ring.
Lemma moments_linear_lem s N msq a b f g :
  let h := fun x y => a * f x y + b * g x y in
  gd_moment_Delta00 s N msq h = a * gd_moment_Delta00 s N msq f + b * gd_moment_Delta00 s N msq g /\
  gd_moment_Delta02 s N msq h = a * gd_moment_Delta02 s N msq f + b * gd_moment_Delta02 s N msq g /\
  gd_moment_Delta20 s N msq h = a * gd_moment_Delta20 s N msq f + b * gd_moment_Delta20 s N msq g /\
  gd_moment_Delta11 s N msq h = a * gd_moment_Delta11 s N msq f + b * gd_moment_Delta11 s N msq g.
Proof.
  intros h. unfold h. repeat split.
  - unfold gd_moment_Delta00. lin_tac.
  - unfold gd_moment_Delta02. lin_tac.
  - unfold gd_moment_Delta20. lin_tac.
  - unfold gd_moment_Delta11. lin_tac.
Qed.

(** gd_sum is linear in the weight g as well *)
Lemma gd_sum_ext s N msq f g1 g2 : (forall E pz pp, g1 E pz pp = g2 E pz pp) ->
  gd_sum s N msq g1 f = gd_sum s N msq g2 f.
Proof.
  intros H. unfold gd_sum. apply sumf_ext; intros i Hi. apply sumf_ext; intros j Hj.
  cbv zeta. rewrite H. reflexivity.
Qed.

Lemma gd_sum_lin s N msq f a b g1 g2 :
  gd_sum s N msq (fun E pz pp => a * g1 E pz pp + b * g2 E pz pp) f =
  a * gd_sum s N msq g1 f + b * gd_sum s N msq g2 f.
Proof.
  unfold gd_sum. rewrite <- sumf_lin. apply sumf_ext; intros i Hi.
  rewrite <- sumf_lin. apply sumf_ext; intros j Hj. cbv zeta. ring.
Qed.
Lemma gd_sum_lin3 s N msq f a b c g1 g2 g3 :
  gd_sum s N msq (fun E pz pp => a * g1 E pz pp + b * g2 E pz pp + c * g3 E pz pp) f =
  a * gd_sum s N msq g1 f + b * gd_sum s N msq g2 f + c * gd_sum s N msq g3 f.
Proof.
  rewrite (gd_sum_ext s N msq f _
             (fun E pz pp => 1 * (a * g1 E pz pp + b * g2 E pz pp) + c * g3 E pz pp))
    by (intros; ring).
  rewrite (gd_sum_lin s N msq f 1 c (fun E pz pp => a * g1 E pz pp + b * g2 E pz pp) g3).
  rewrite (gd_sum_lin s N msq f a b g1 g2). ring.
Qed.
(** * 6. T^{30}, T^{33} assembled from the moments = direct sum of p^mu p^nu deltaF boosted *)
Lemma boost_is_gamma v : -1 < v < 1 ->
  tm_u0 v = / sqrt (1 - v * v) /\ tm_u3 v = v / sqrt (1 - v * v) /\
  tm_ubar0 v = tm_u3 v /\ tm_ubar3 v = tm_u0 v.
Proof.
  intros H. assert (Hp : 0 < 1 - v * v) by nra.
  assert (E0 : tm_u0 v = / sqrt (1 - v * v)).
  { unfold tm_u0, gammaSq. replace (1 / (1 - v * v)) with (/ (1 - v * v)) by (field; lra).
    apply sqrt_inv. }
  repeat split; try assumption.
  unfold tm_u3. cbv zeta. fold (tm_u0 v). rewrite E0. field.
  apply Rgt_not_eq, sqrt_lt_R0; exact Hp.
Qed.

Lemma tmunu_lem s N msq msq' dof v f : -1 < v < 1 -> nodes_energy_positive s N msq ->
  (* msq' : the mass deltaToTmunu evaluates at the CALLER's field point; it drops out *)
  let e := mk_t_env (gd_moment_Delta00 s N msq f) (gd_moment_Delta02 s N msq f)
                    (gd_moment_Delta20 s N msq f) (gd_moment_Delta11 s N msq f) dof msq' in
  let u0 := tm_u0 v in let u3 := tm_u3 v in
  (* wall-frame momentum of a particle with plasma-frame (E, pz) *)
  let p0 := fun E pz : R => u0 * E + u3 * pz in
  let p3 := fun E pz : R => u3 * E + u0 * pz in
  T30_term e v = dof * gd_sum s N msq (fun E pz pp => p3 E pz * p0 E pz) f /\
  T33_term e v = dof * gd_sum s N msq (fun E pz pp => p3 E pz * p3 E pz) f.
Proof.
  intros Hv HE e u0 u3 p0 p3.
  destruct (moments_are_sums_lem s N msq f HE) as (m00 & m02 & m20 & m11).
  pose proof (gamma_norm v Hv) as Hn. cbv zeta in Hn.
  assert (Hu : u0 * u0 - u3 * u3 = 1).
  { unfold u0, u3, tm_u3, tm_u0, gammaSq. cbv zeta. exact Hn. }
  set (D00 := gd_moment_Delta00 s N msq f) in *. set (D02 := gd_moment_Delta02 s N msq f) in *.
  set (D20 := gd_moment_Delta20 s N msq f) in *. set (D11 := gd_moment_Delta11 s N msq f) in *.
  assert (U3 : u3 = u0 * v) by reflexivity.
  split.
  - rewrite (gd_sum_ext s N msq f _ (fun E pz pp =>
      (u3 * u0) * E ^ 2 + (u3 * u3 + u0 * u0) * (E * pz) + (u0 * u3) * pz ^ 2))
      by (intros; unfold p0, p3; ring).
    rewrite gd_sum_lin3, <- m20, <- m11, <- m02.
    transitivity (dof * (((3 * D20 - D02 - msq' * D00) * u3 * u0
       + (3 * D02 - D20 + msq' * D00) * u0 * u3 + 2 * D11 * (u3 * u3 + u0 * u0)) / 2)).
    + unfold T30_term. cbv zeta. cbn [t_Delta00 t_Delta02 t_Delta20 t_Delta11 t_dof t_msq e].
      fold (tm_u0 v). fold u0. rewrite <- U3. field.
    + rewrite boost_T30_algebra. ring.
  - rewrite (gd_sum_ext s N msq f _ (fun E pz pp =>
      (u3 * u3) * E ^ 2 + (2 * (u3 * u0)) * (E * pz) + (u0 * u0) * pz ^ 2))
      by (intros; unfold p3; ring).
    rewrite gd_sum_lin3, <- m20, <- m11, <- m02.
    transitivity (dof * (((3 * D20 - D02 - msq' * D00) * u3 * u3
       + (3 * D02 - D20 + msq' * D00) * u0 * u0 + 4 * D11 * u3 * u0) / 2
       - (msq' * D00 + D02 - D20) / 2)).
    + unfold T33_term. cbv zeta. cbn [t_Delta00 t_Delta02 t_Delta20 t_Delta11 t_dof t_msq e].
      fold (tm_u0 v). fold u0. rewrite <- U3. field.
    + rewrite (boost_T33_algebra D00 D02 D20 D11 msq' u0 u3 Hu). ring.
Qed.

(** * 7. getDeltas multiplies nodal values; what it returns are nodal values in z *)
Definition solver_basis (b : basis) : Prop := b = BCardinal \/ b = BChebyshev.

Lemma ops_nodal_lem bM bN : solver_basis bM -> solver_basis bN ->
  all_nodal (at_multiply integrate_new_basis (getDeltas_ops bM bN) []) = true /\
  all_nodal (results integrate_new_basis (getDeltas_ops bM bN) []) = true /\
  List.length (results integrate_new_basis (getDeltas_ops bM bN) []) = 4%nat.
Proof. intros [-> | ->] [-> | ->]; vm_compute; repeat split. Qed.


(** * 8. exactness on the polynomial class of the grid *)
Lemma rz_is_lobatto N i : rzNode (INR N) i = - cos (INR i * PI / INR N).
Proof. unfold rzNode. f_equal. Qed.
Lemma rp_is_lobatto N i : (1 <= N)%nat -> rpNode (INR N) i = - cos (INR i * PI / INR (N - 1)).
Proof. intros H. unfold rpNode. rewrite minus_INR by lia. cbn [INR]. f_equal. Qed.

Lemma one_minus_sq_node th : 0 <= 1 - (- cos th) ^ 2.
Proof. pose proof (COS_bound th). nra. Qed.

Lemma pz_rule_exact_lem N c : (2 <= N)%nat -> (List.length c + 2 <= 2 * N)%nat ->
  sumf rz_lo (rz_hi N) (fun i =>
    qz N i * (sqrt (1 - rzNode (INR N) i ^ 2) * Ucomb c (rzNode (INR N) i))) =
  PI / 2 * nth 0 c 0.
Proof.
  intros HN Hc. rewrite <- (lobatto_Ucomb N c HN Hc).
  change rz_lo with 1%nat. change (rz_hi N) with N.
  apply sumf_ext; intros i Hi.
  rewrite qz_value by (apply not_0_INR; lia). rewrite rz_is_lobatto.
  set (x := - cos (INR i * PI / INR N)).
  replace (sqrt (1 - x ^ 2) * (PI / INR N) * (sqrt (1 - x ^ 2) * Ucomb c x)) with
    (PI / INR N * ((sqrt (1 - x ^ 2) * sqrt (1 - x ^ 2)) * Ucomb c x)) by ring.
  rewrite sqrt_sqrt by apply one_minus_sq_node. reflexivity.
Qed.

Lemma pp_rule_exact_lem N c : (3 <= N)%nat -> (List.length c + 4 <= 2 * N)%nat ->
  sumf rp_lo (rp_hi N) (fun k =>
    qp N k * (sqrt (1 - rpNode (INR N) k ^ 2) * Ucomb c (rpNode (INR N) k))) =
  PI / 2 * nth 0 c 0.
Proof.
  intros HN Hc. rewrite <- (lobatto_Ucomb (N - 1) c) by lia.
  change rp_lo with 0%nat. change (rp_hi N) with (N - 1)%nat.
  rewrite sumf_first by lia.
  (* the kept endpoint rho = -1 does not contribute, whatever its weight *)
  replace (qp N 0 * (sqrt (1 - rpNode (INR N) 0 ^ 2) * Ucomb c (rpNode (INR N) 0))) with 0.
  2:{ rewrite rp_is_lobatto by lia. cbn [INR]. replace (0 * PI / INR (N - 1)) with 0.
      - rewrite cos_0. replace (1 - (- (1)) ^ 2) with 0 by ring. rewrite sqrt_0. ring.
      - unfold Rdiv. ring. }
  rewrite Rplus_0_l. apply sumf_ext; intros i Hi.
  assert (EN : INR N - 1 = INR (N - 1)) by (rewrite minus_INR by lia; reflexivity).
  rewrite qp_value.
  2:{ rewrite EN. apply not_0_INR; lia. }
  2:{ change rp_lo with 0%nat. apply Nat.eqb_neq; lia. }
  rewrite rp_is_lobatto by lia. rewrite EN.
  set (x := - cos (INR i * PI / INR (N - 1))).
  replace (sqrt (1 - x ^ 2) * (PI / INR (N - 1)) * (sqrt (1 - x ^ 2) * Ucomb c x)) with
    (PI / INR (N - 1) * ((sqrt (1 - x ^ 2) * sqrt (1 - x ^ 2)) * Ucomb c x)) by ring.
  rewrite sqrt_sqrt by apply one_minus_sq_node. reflexivity.
Qed.

(** the deviation's integrand  measure * g * deltaF  lies in the class: at every node it is
    kappa * sqrt(1-rz^2) A(rz) * sqrt(1-rp^2) B(rp)  with A, B combinations of U_0..U_{2n-3} *)
Definition integrand_in_class (s : gst) (N : nat) (msq : R) (g : R -> R -> R -> R)
           (f : R -> R -> R) (kappa : R) (A B : list R) : Prop :=
  forall i j, (rz_lo <= i < rz_hi N)%nat -> (rp_lo <= j < rp_hi N)%nat ->
    let rz := rzNode (INR N) i in let rp := rpNode (INR N) j in
    let pz := s_pzValues s rz in let pp := s_ppValues s rp in
    measure pz pp msq (s_dpzdrz s rz) (s_dppdrp s rp) * g (sqrt (Esq msq pz pp)) pz pp * f rz rp
    = kappa * (sqrt (1 - rz ^ 2) * Ucomb A rz) * (sqrt (1 - rp ^ 2) * Ucomb B rp).

(** non-vacuity: for ANY kappa, A, B the deviation built by dividing out measure*g (this is
    how the harness builds its oracle family) is in the class *)
Example class_inhabited s N msq g kappa A B :
  let mg := fun rz rp =>
    let pz := s_pzValues s rz in let pp := s_ppValues s rp in
    measure pz pp msq (s_dpzdrz s rz) (s_dppdrp s rp) * g (sqrt (Esq msq pz pp)) pz pp in
  (forall i j, (rz_lo <= i < rz_hi N)%nat -> (rp_lo <= j < rp_hi N)%nat ->
     mg (rzNode (INR N) i) (rpNode (INR N) j) <> 0) ->
  integrand_in_class s N msq g
    (fun rz rp => kappa * (sqrt (1 - rz ^ 2) * Ucomb A rz) * (sqrt (1 - rp ^ 2) * Ucomb B rp)
                  / mg rz rp) kappa A B.
Proof.
  intros mg H i j Hi Hj. cbv zeta. specialize (H i j Hi Hj). unfold mg in *. cbv zeta in H.
  field. split; intro Z; apply H; rewrite Z; ring.
Qed.

Lemma exact_sum_lem s N msq g f kappa A B :
  (3 <= N)%nat -> (List.length A + 2 <= 2 * N)%nat -> (List.length B + 4 <= 2 * N)%nat ->
  integrand_in_class s N msq g f kappa A B ->
  gd_sum s N msq g f = kappa * (PI / 2 * nth 0 A 0) * (PI / 2 * nth 0 B 0).
Proof.
  intros HN HA HB Hcl.
  rewrite <- (pz_rule_exact_lem N A) by lia. rewrite <- (pp_rule_exact_lem N B HN HB).
  rewrite Rmult_assoc, sumf_prod, <- sumf_scal.
  unfold gd_sum. apply sumf_ext; intros i Hi. rewrite <- sumf_scal.
  apply sumf_ext; intros j Hj. cbv zeta.
  pose proof (Hcl i j Hi Hj) as E. cbv zeta in E.
  match goal with |- ?q1 * ?q2 * ?m * ?gg * ?ff = _ =>
    replace (q1 * q2 * m * gg * ff) with (q1 * q2 * (m * gg * ff)) by ring end.
  rewrite E. ring.
Qed.

(** ... and that value is the integral of the class member over [-1,1], written in the angle
    x = cos t:  int sqrt(1-x^2) q(x) dx = int_0^pi sin(t)^2 q(cos t) dt  (proved integral) *)
Lemma exact_angle_lem s N msq g f kappa A B :
  (3 <= N)%nat -> (List.length A + 2 <= 2 * N)%nat -> (List.length B + 4 <= 2 * N)%nat ->
  integrand_in_class s N msq g f kappa A B ->
  gd_sum s N msq g f =
  kappa * RInt (fun t => sin t ^ 2 * Ucomb A (cos t)) 0 PI
        * RInt (fun t => sin t ^ 2 * Ucomb B (cos t)) 0 PI.
Proof.
  intros. rewrite (is_RInt_unique _ _ _ _ (Ucomb_angle_integral A)).
  rewrite (is_RInt_unique _ _ _ _ (Ucomb_angle_integral B)).
  apply exact_sum_lem; assumption.
Qed.

(** the same for the four generated moments themselves *)
Definition class_value (kappa : R) (A B : list R) : R :=
  kappa * RInt (fun t => sin t ^ 2 * Ucomb A (cos t)) 0 PI
        * RInt (fun t => sin t ^ 2 * Ucomb B (cos t)) 0 PI.
Lemma exact_moments_lem s N msq f kappa A B :
  nodes_energy_positive s N msq ->
  (3 <= N)%nat -> (List.length A + 2 <= 2 * N)%nat -> (List.length B + 4 <= 2 * N)%nat ->
  (integrand_in_class s N msq (fun E pz pp => 1) f kappa A B ->
   gd_moment_Delta00 s N msq f = class_value kappa A B) /\
  (integrand_in_class s N msq (fun E pz pp => pz ^ 2) f kappa A B ->
   gd_moment_Delta02 s N msq f = class_value kappa A B) /\
  (integrand_in_class s N msq (fun E pz pp => E ^ 2) f kappa A B ->
   gd_moment_Delta20 s N msq f = class_value kappa A B) /\
  (integrand_in_class s N msq (fun E pz pp => E * pz) f kappa A B ->
   gd_moment_Delta11 s N msq f = class_value kappa A B).
Proof.
  intros HE HN HA HB.
  destruct (moments_are_sums_lem s N msq f HE) as (m00 & m02 & m20 & m11).
  rewrite m00, m02, m20, m11. unfold class_value.
  repeat split; intros Hc; apply exact_angle_lem; assumption.
Qed.

(** sums of products: by linearity in the deviation, combinations of class members *)
Lemma gd_sum_lin_f s N msq g a b f1 f2 :
  gd_sum s N msq g (fun x y => a * f1 x y + b * f2 x y) =
  a * gd_sum s N msq g f1 + b * gd_sum s N msq g f2.
Proof.
  unfold gd_sum. rewrite <- sumf_lin. apply sumf_ext; intros i Hi.
  rewrite <- sumf_lin. apply sumf_ext; intros j Hj. cbv zeta. ring.
Qed.
Lemma exact_span_lem s N msq g a b f1 f2 k1 A1 B1 k2 A2 B2 :
  (3 <= N)%nat ->
  (List.length A1 + 2 <= 2 * N)%nat -> (List.length B1 + 4 <= 2 * N)%nat ->
  (List.length A2 + 2 <= 2 * N)%nat -> (List.length B2 + 4 <= 2 * N)%nat ->
  integrand_in_class s N msq g f1 k1 A1 B1 -> integrand_in_class s N msq g f2 k2 A2 B2 ->
  gd_sum s N msq g (fun x y => a * f1 x y + b * f2 x y) =
  a * class_value k1 A1 B1 + b * class_value k2 A2 B2.
Proof.
  intros. rewrite gd_sum_lin_f. unfold class_value.
  rewrite <- (exact_angle_lem s N msq g f1 k1 A1 B1) by assumption.
  rewrite <- (exact_angle_lem s N msq g f2 k2 A2 B2) by assumption. reflexivity.
Qed.

Section Exactness.
(** the same in the variable x needs the substitution x = cos t, i.e. the classical
    orthogonality of the U_j for the weight sqrt(1-x^2); this is the ONLY analytic fact not
    proved here and it is an explicit premise of the _dx theorem only *)
Hypothesis chebU_weight_integral : forall c : list R,
  RInt (fun x => sqrt (1 - x ^ 2) * Ucomb c x) (-1) 1 = PI / 2 * nth 0 c 0.

Lemma exact_lem s N msq g f kappa A B :
  (3 <= N)%nat -> (List.length A + 2 <= 2 * N)%nat -> (List.length B + 4 <= 2 * N)%nat ->
  integrand_in_class s N msq g f kappa A B ->
  gd_sum s N msq g f =
  kappa * RInt (fun x => sqrt (1 - x ^ 2) * Ucomb A x) (-1) 1
        * RInt (fun x => sqrt (1 - x ^ 2) * Ucomb B x) (-1) 1.
Proof. intros. rewrite !chebU_weight_integral. apply exact_sum_lem; assumption. Qed.
End Exactness.

(* ================================================================================= *)
Theorem moment_weights : forall pz pp msq dpz dpp, 0 < Esq msq pz pp ->
  let E := sqrt (Esq msq pz pp) in
  w_Delta00 pz pp msq dpz dpp = measure pz pp msq dpz dpp * 1 /\
  w_Delta02 pz pp msq dpz dpp = measure pz pp msq dpz dpp * pz ^ 2 /\
  w_Delta20 pz pp msq dpz dpp = measure pz pp msq dpz dpp * E ^ 2 /\
  w_Delta11 pz pp msq dpz dpp = measure pz pp msq dpz dpp * (E * pz).
Proof. exact moment_weights_lem. Qed.
Print Assumptions moment_weights.

Theorem measure_is_d3p_over_2pi3_E : forall pz pp msq dpz dpp, 0 < Esq msq pz pp ->
  measure pz pp msq dpz dpp =
  RInt (fun _ : R => pp / ((2 * PI) ^ 3 * sqrt (Esq msq pz pp))) 0 (2 * PI) * (dpz * dpp).
Proof. exact measure_is_d3p_lem. Qed.
Print Assumptions measure_is_d3p_over_2pi3_E.

Theorem jacobians_are_derivatives : forall T r,
  (-1 < r < 1 -> is_derive (pz_of T) r (dpz_of T r)) /\
  (r < 1 -> is_derive (pp_of T) r (dpp_of T r)).
Proof. exact jacobians_are_derivatives_lem. Qed.
Print Assumptions jacobians_are_derivatives.

Theorem jacobians_current_after_any_history : forall L T s0 ops,
  let s := fold_left gstep ops (grid_init L T s0) in
  cache_current s /\
  forall r, (-1 < r < 1 -> is_derive (s_pzValues s) r (s_dpzdrz s r)) /\
            (r < 1 -> is_derive (s_ppValues s) r (s_dppdrp s r)).
Proof.
  intros L T s0 ops s.
  assert (H : cache_current s) by (apply history_current, init_current).
  split; [exact H|]. intros r.
  destruct (jacobians_are_derivatives_lem (s_momentumFalloffT s) r) as [Jz Jp].
  destruct (H r) as (_ & _ & c & d). rewrite c, d.
  split; intros Hr.
  - apply (is_derive_ext_R (pz_of (s_momentumFalloffT s))); [|apply Jz; exact Hr].
    intros t. symmetry. apply (H t).
  - apply (is_derive_ext_R (pp_of (s_momentumFalloffT s))); [|apply Jp; exact Hr].
    intros t. symmetry. apply (H t).
Qed.
Print Assumptions jacobians_current_after_any_history.

Theorem rescaled_grid_equals_fresh_grid : forall L T s0 ops L' s1,
  let s := fold_left gstep ops (grid_init L T s0) in
  let s' := grid_init L' (s_momentumFalloffT s) s1 in
  forall r, s_pzValues s r = s_pzValues s' r /\ s_ppValues s r = s_ppValues s' r /\
            s_dpzdrz s r = s_dpzdrz s' r /\ s_dppdrp s r = s_dppdrp s' r.
Proof. exact rescaled_equals_fresh_lem. Qed.
Print Assumptions rescaled_grid_equals_fresh_grid.

Theorem moments_are_quadrature_sums : forall s N msq f, nodes_energy_positive s N msq ->
  gd_moment_Delta00 s N msq f = gd_sum s N msq (fun E pz pp => 1) f /\
  gd_moment_Delta02 s N msq f = gd_sum s N msq (fun E pz pp => pz ^ 2) f /\
  gd_moment_Delta20 s N msq f = gd_sum s N msq (fun E pz pp => E ^ 2) f /\
  gd_moment_Delta11 s N msq f = gd_sum s N msq (fun E pz pp => E * pz) f.
Proof. exact moments_are_sums_lem. Qed.
Print Assumptions moments_are_quadrature_sums.

Theorem moments_linear : forall s N msq a b f g,
  let h := fun x y => a * f x y + b * g x y in
  gd_moment_Delta00 s N msq h = a * gd_moment_Delta00 s N msq f + b * gd_moment_Delta00 s N msq g /\
  gd_moment_Delta02 s N msq h = a * gd_moment_Delta02 s N msq f + b * gd_moment_Delta02 s N msq g /\
  gd_moment_Delta20 s N msq h = a * gd_moment_Delta20 s N msq f + b * gd_moment_Delta20 s N msq g /\
  gd_moment_Delta11 s N msq h = a * gd_moment_Delta11 s N msq f + b * gd_moment_Delta11 s N msq g.
Proof. exact moments_linear_lem. Qed.
Print Assumptions moments_linear.

Theorem tmunu_from_moments_is_boosted_direct_sum : forall s N msq msq' dof v f,
  -1 < v < 1 -> nodes_energy_positive s N msq ->
  let e := mk_t_env (gd_moment_Delta00 s N msq f) (gd_moment_Delta02 s N msq f)
                    (gd_moment_Delta20 s N msq f) (gd_moment_Delta11 s N msq f) dof msq' in
  let u0 := tm_u0 v in let u3 := tm_u3 v in
  let p0 := fun E pz : R => u0 * E + u3 * pz in
  let p3 := fun E pz : R => u3 * E + u0 * pz in
  T30_term e v = dof * gd_sum s N msq (fun E pz pp => p3 E pz * p0 E pz) f /\
  T33_term e v = dof * gd_sum s N msq (fun E pz pp => p3 E pz * p3 E pz) f.
Proof. exact tmunu_lem. Qed.
Print Assumptions tmunu_from_moments_is_boosted_direct_sum.

Theorem boost_velocity_is_gamma : forall v, -1 < v < 1 ->
  tm_u0 v = / sqrt (1 - v * v) /\ tm_u3 v = v / sqrt (1 - v * v) /\
  tm_ubar0 v = tm_u3 v /\ tm_ubar3 v = tm_u0 v.
Proof. exact boost_is_gamma. Qed.
Print Assumptions boost_velocity_is_gamma.

Theorem getDeltas_weights_multiply_nodal_values : forall bM bN,
  solver_basis bM -> solver_basis bN ->
  all_nodal (at_multiply integrate_new_basis (getDeltas_ops bM bN) []) = true /\
  all_nodal (results integrate_new_basis (getDeltas_ops bM bN) []) = true /\
  List.length (results integrate_new_basis (getDeltas_ops bM bN) []) = 4%nat.
Proof. exact ops_nodal_lem. Qed.
Print Assumptions getDeltas_weights_multiply_nodal_values.

(** why section 7 matters: along a spectral (non-nodal) axis, multiplying COEFFICIENTS by a
    node-dependent weight is not multiplying the function's values by it *)
Theorem nodal_basis_is_necessary :
  exists (V : (nat -> R) -> nat -> R) (w c : nat -> R),
    (forall a b f g i, V (fun k => a * f k + b * g k) i = a * V f i + b * V g i) /\
    V (fun k => w k * c k) O <> w O * V c O.
Proof. exact weight_in_spectral_basis_is_not_weight_on_values. Qed.
Print Assumptions nodal_basis_is_necessary.

Theorem quadrature_rules_exact_on_class : forall N c,
  ((2 <= N)%nat -> (List.length c + 2 <= 2 * N)%nat ->
   sumf rz_lo (rz_hi N) (fun i =>
     qz N i * (sqrt (1 - rzNode (INR N) i ^ 2) * Ucomb c (rzNode (INR N) i))) = PI / 2 * nth 0 c 0) /\
  ((3 <= N)%nat -> (List.length c + 4 <= 2 * N)%nat ->
   sumf rp_lo (rp_hi N) (fun k =>
     qp N k * (sqrt (1 - rpNode (INR N) k ^ 2) * Ucomb c (rpNode (INR N) k))) = PI / 2 * nth 0 c 0).
Proof. intros N c. split; [apply pz_rule_exact_lem|apply pp_rule_exact_lem]. Qed.
Print Assumptions quadrature_rules_exact_on_class.

Theorem moments_exact_on_class : forall s N msq g f kappa A B,
  (3 <= N)%nat -> (List.length A + 2 <= 2 * N)%nat -> (List.length B + 4 <= 2 * N)%nat ->
  integrand_in_class s N msq g f kappa A B ->
  gd_sum s N msq g f =
  kappa * RInt (fun t => sin t ^ 2 * Ucomb A (cos t)) 0 PI
        * RInt (fun t => sin t ^ 2 * Ucomb B (cos t)) 0 PI /\
  is_RInt (fun t => sin t ^ 2 * Ucomb A (cos t)) 0 PI (PI / 2 * nth 0 A 0) /\
  is_RInt (fun t => sin t ^ 2 * Ucomb B (cos t)) 0 PI (PI / 2 * nth 0 B 0).
Proof.
  intros. split; [apply exact_angle_lem; assumption|].
  split; apply Ucomb_angle_integral.
Qed.
Print Assumptions moments_exact_on_class.

Theorem generated_moments_exact_on_class : forall s N msq f kappa A B,
  nodes_energy_positive s N msq ->
  (3 <= N)%nat -> (List.length A + 2 <= 2 * N)%nat -> (List.length B + 4 <= 2 * N)%nat ->
  (integrand_in_class s N msq (fun E pz pp => 1) f kappa A B ->
   gd_moment_Delta00 s N msq f = class_value kappa A B) /\
  (integrand_in_class s N msq (fun E pz pp => pz ^ 2) f kappa A B ->
   gd_moment_Delta02 s N msq f = class_value kappa A B) /\
  (integrand_in_class s N msq (fun E pz pp => E ^ 2) f kappa A B ->
   gd_moment_Delta20 s N msq f = class_value kappa A B) /\
  (integrand_in_class s N msq (fun E pz pp => E * pz) f kappa A B ->
   gd_moment_Delta11 s N msq f = class_value kappa A B).
Proof. exact exact_moments_lem. Qed.
Print Assumptions generated_moments_exact_on_class.

Theorem moments_exact_on_span_of_class : forall s N msq g a b f1 f2 k1 A1 B1 k2 A2 B2,
  (3 <= N)%nat ->
  (List.length A1 + 2 <= 2 * N)%nat -> (List.length B1 + 4 <= 2 * N)%nat ->
  (List.length A2 + 2 <= 2 * N)%nat -> (List.length B2 + 4 <= 2 * N)%nat ->
  integrand_in_class s N msq g f1 k1 A1 B1 -> integrand_in_class s N msq g f2 k2 A2 B2 ->
  gd_sum s N msq g (fun x y => a * f1 x y + b * f2 x y) =
  a * class_value k1 A1 B1 + b * class_value k2 A2 B2.
Proof. exact exact_span_lem. Qed.
Print Assumptions moments_exact_on_span_of_class.

Theorem massless_nodes_have_positive_energy : forall L T s0 ops k msq,
  let s := fold_left gstep ops (grid_init L T s0) in
  s_momentumFalloffT s <> 0 -> 0 <= msq -> nodes_energy_positive s (2 * k + 1) msq.
Proof.
  intros L T s0 ops k msq s HT Hm. apply massless_nodes_lem; [|exact HT|exact Hm].
  apply history_current, init_current.
Qed.
Print Assumptions massless_nodes_have_positive_energy.

Theorem grid3scales_momentum_maps_are_grids : forall T r,
  (-1 < r < 1 -> g3_pz (mk_g3_env T) r = pz_of T r /\ g3_dpz (mk_g3_env T) r = dpz_of T r) /\
  (r < 1 -> g3_pp (mk_g3_env T) r = pp_of T r /\ g3_dpp (mk_g3_env T) r = dpp_of T r).
Proof. exact grid3scales_maps_lem. Qed.
Print Assumptions grid3scales_momentum_maps_are_grids.

Theorem grid3scales_cache_is_current_after_any_history : forall L T s0 ops,
  let s := fold_left gstep ops (grid_init L T s0) in
  forall r, (-1 < r < 1 -> s_pzValues s r = g3_pz (mk_g3_env (s_momentumFalloffT s)) r /\
                         s_dpzdrz s r = g3_dpz (mk_g3_env (s_momentumFalloffT s)) r) /\
            (r < 1 -> s_ppValues s r = g3_pp (mk_g3_env (s_momentumFalloffT s)) r /\
                      s_dppdrp s r = g3_dpp (mk_g3_env (s_momentumFalloffT s)) r).
Proof.
  intros L T s0 ops s. apply g3_cache_current_lem. apply history_current, init_current.
Qed.
Print Assumptions grid3scales_cache_is_current_after_any_history.

Theorem moments_exact_on_class_dx : forall s N msq g f kappa A B,
  (forall c : list R, RInt (fun x => sqrt (1 - x ^ 2) * Ucomb c x) (-1) 1 = PI / 2 * nth 0 c 0) ->
  (3 <= N)%nat -> (List.length A + 2 <= 2 * N)%nat -> (List.length B + 4 <= 2 * N)%nat ->
  integrand_in_class s N msq g f kappa A B ->
  gd_sum s N msq g f =
  kappa * RInt (fun x => sqrt (1 - x ^ 2) * Ucomb A x) (-1) 1
        * RInt (fun x => sqrt (1 - x ^ 2) * Ucomb B x) (-1) 1.
Proof. intros s N msq g f kappa A B H. apply exact_lem. exact H. Qed.
Print Assumptions moments_exact_on_class_dx.

(** non-vacuity: a state produced by the constructor, a positive mass, a velocity *)
Example hypotheses_satisfiable :
  let s := grid_init 1 100 (mk_gst 0 0 (fun _ => 0) (fun _ => 0) (fun _ => 0) (fun _ => 0)
                                   (fun _ => 0) (fun _ => 0)) in
  nodes_energy_positive s 5 1 /\ -1 < 1 / 2 < 1 /\ solver_basis BChebyshev /\
  s_momentumFalloffT s = 100.
Proof.
  intros s. split; [apply positive_mass_suffices; lra|]. split; [lra|]. split; [right|]; reflexivity.
Qed.
(** ... and a MASSLESS species on a grid with N = 5 that went through a rescaling history *)
Example massless_satisfiable :
  let s := fold_left gstep [OpMomentum 40; OpPosition3; OpPosition 2]
             (grid_init 1 100 (mk_gst 0 0 (fun _ => 0) (fun _ => 0) (fun _ => 0) (fun _ => 0)
                                      (fun _ => 0) (fun _ => 0))) in
  nodes_energy_positive s 5 0.
Proof.
  intros s. apply (massless_nodes_have_positive_energy 1 100 _ _ 2 0); [|lra].
  unfold s. rewrite history_scale, init_scale. cbv [scale_after fold_left]. lra.
Qed.
