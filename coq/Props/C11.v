(** C11 -- a traced phase is one genuine minimum, tabulated only where it exists.

    Every definition named below without a library prefix comes from GenC11.TraceGen, which
    tools/gen_trace.py regenerates on every run from freeEnergy.py::tracePhase,
    thermodynamics.py::findCriticalTemperature and all call sites of tracePhase.  External
    numerics (finite-difference derivatives, BFGS, LAPACK solve / eigvalsh, RK45) are the
    record [X : ext Fld Hess]; what is assumed about them is a hypothesis of the theorem that
    needs it and is validated on the running code by tools/props/C11.py. *)
From Coq Require Import Reals Lra Lia List Bool.
From Coquelicot Require Import Derive_2d.
From WG Require Import Lib.PhaseTrace Model.TraceBook.
From GenC11 Require Import TraceGen.
Import ListNotations.
Local Open Scope R_scope.

(* ------------------------------------------------------------------------------------ *)
(** * 1. the ODE integrated by the tracer keeps a critical point critical (one field) *)

Lemma odeFunction_1field (X : ext R R) (Hs gT VTT : R -> R -> R) :
  (forall p T, allSecondDerivatives X p T = (Hs p T, gT p T, VTT p T)) ->
  (forall h v, h <> 0 -> h * linsolve X h v = v) ->
  (forall v, vneg X v = - v) ->
  forall T p, Hs p T <> 0 -> odeFunction X T p = - gT p T / Hs p T.
Proof.
  intros Hall Hsolve Hneg T p Hh. unfold odeFunction. rewrite Hall, Hneg.
  apply Rmult_eq_reg_l with (Hs p T); [|exact Hh].
  rewrite (Hsolve _ _ Hh). field. exact Hh.
Qed.

Lemma trace_ode_keeps_critical_lemma :
  forall (X : ext R R) (g Hs gT VTT : R -> R -> R) (phi : R -> R) (a b T0 : R),
  (forall p T, allSecondDerivatives X p T = (Hs p T, gT p T, VTT p T)) ->
  (forall h v, h <> 0 -> h * linsolve X h v = v) ->
  (forall v, vneg X v = - v) ->
  (forall T, a <= T <= b -> differentiable_pt_lim g (phi T) T (Hs (phi T) T) (gT (phi T) T)) ->
  (forall T, a <= T <= b -> derivable_pt_lim phi T (odeFunction X T (phi T))) ->
  (forall T, a <= T <= b -> Hs (phi T) T <> 0) ->
  a <= T0 <= b -> g (phi T0) T0 = 0 ->
  forall T, a <= T <= b -> g (phi T) T = 0.
Proof.
  intros X g Hs gT VTT phi a b T0 Hall Hsolve Hneg HC1 Hode Hreg HT0 Hg0.
  assert (ODE : forall T, a <= T <= b -> odeFunction X T (phi T) = - gT (phi T) T / Hs (phi T) T).
  { intros T HT. apply (odeFunction_1field X Hs gT VTT Hall Hsolve Hneg). apply Hreg; exact HT. }
  exact (ode_keeps_critical g Hs gT phi (fun T => odeFunction X T (phi T)) a b HC1 Hode Hreg ODE
           T0 HT0 Hg0).
Qed.

(** non-vacuity: V = phi^2/2 - T^2 phi, g = phi - T^2, minimum phi(T) = T^2 *)
Example trace_ode_hypotheses_satisfiable :
  let X := mk_ext R R (fun p T => (1, - 2 * T, - 2 * p)) (fun _ _ => 1) (fun p T => p - T ^ 2)
                  (fun p T => p ^ 2 / 2 - T ^ 2 * p) (fun p T _ => (T ^ 2, - T ^ 4 / 2))
                  (fun h v => v / h) Ropp Rabs (fun h => [h]) (fun _ => None) in
  forall T, 0 <= T <= 1 -> (fun p T => p - T ^ 2) ((fun T => T ^ 2) T) T = 0.
Proof.
  intros X.
  apply (trace_ode_keeps_critical_lemma X (fun p T => p - T ^ 2) (fun _ _ => 1)
           (fun _ T => - 2 * T) (fun p _ => - 2 * p) (fun T => T ^ 2) 0 1 0).
  - intros; reflexivity.
  - intros h v Hh. cbn. field. exact Hh.
  - intros; reflexivity.
  - intros T _. cbv beta.
    assert (Hd : differentiable_pt_lim (fun u v => u + -1 * (v * v)) (T ^ 2) T
                   (1 + (T * T * 0 + -1 * (T * 0 + T * 0)))
                   (0 + (T * T * 0 + -1 * (T * 1 + T * 1)))).
    { apply (diff2_plus (fun u _ => u) (fun _ v => -1 * (v * v))); [apply diff2_fst|].
      apply (diff2_mult (fun _ _ => -1) (fun _ v => v * v)); [apply diff2_const|].
      apply (diff2_mult (fun _ v => v) (fun _ v => v)); apply diff2_snd. }
    apply differentiable_pt_lim_ext with (f1 := fun u v => u + -1 * (v * v)).
    { exists (mkposreal 1 Rlt_0_1). intros u v _ _. ring. }
    replace 1 with (1 + (T * T * 0 + -1 * (T * 0 + T * 0))) at 1 by ring.
    replace (-2 * T) with (0 + (T * T * 0 + -1 * (T * 1 + T * 1))) by ring.
    exact Hd.
  - intros T _. cbv beta.
    assert (E : odeFunction X T (T ^ 2) = INR 2 * T ^ pred 2).
    { unfold odeFunction. cbn. field. }
    rewrite E. exact (derivable_pt_lim_pow T 2).
  - intros; lra.
  - lra.
  - ring.
Qed.

(* ------------------------------------------------------------------------------------ *)
(** * 3a. the spinodal test: smallest Hessian eigenvalue, i.e. positive definiteness *)

Lemma spinodal_test_lemma {Fld Hess} (X : ext Fld Hess) :
  (forall h, eigvalsh X h <> []) ->
  forall T y,
    (0 < spinodalEvent X true T y <->
     Forall (fun ev => 0 < ev) (eigvalsh X (deriv2Field2 X y T))) /\
    spinodalEvent X false T y = 1.
Proof.
  intros Hne T y. unfold spinodalEvent. cbn [negb]. split; [|reflexivity].
  apply lmin_pos_iff. apply Hne.
Qed.

(** two fields: the test passes exactly when the (symmetric) Hessian is positive definite *)
Lemma spinodal_test_2field_lemma (X : ext (R * R) (R * R * R)) :
  (forall a b c, eigvalsh X (a, b, c) = [eig_min2 a b c; eig_max2 a b c]) ->
  forall T y a b c, deriv2Field2 X y T = (a, b, c) ->
    (0 < spinodalEvent X true T y <-> posdef2 a b c).
Proof.
  intros Heig T y a b c Hh. unfold spinodalEvent. cbn [negb]. rewrite Hh, Heig.
  rewrite <- eig_min2_posdef. cbn [lmin].
  assert (eig_min2 a b c <= eig_max2 a b c).
  { unfold eig_min2, eig_max2. assert (0 <= sqrt ((a - c) ^ 2 + 4 * b ^ 2)) by apply sqrt_pos. lra. }
  unfold Rmin. destruct (Rle_dec (eig_min2 a b c) (eig_max2 a b c)); [reflexivity|lra].
Qed.

(* ------------------------------------------------------------------------------------ *)
(** * 3b. range bookkeeping at the end of tracePhase *)

Lemma tail_values TFull dT TMin TMax st :
  let st' := tail TFull dT TMin TMax st in
  minT st' = lmin TFull + 2 * dT /\ maxT st' = lmax TFull - 2 * dT /\
  minFlag st' = (minFlag st || Rltb TMin (lmin TFull))%bool /\
  maxFlag st' = (maxFlag st || Rltb (lmax TFull) TMax)%bool.
Proof.
  unfold tail.
  destruct (Rltb TMin (lmin TFull)); destruct (Rltb (lmax TFull) TMax);
    destruct st as [a fa b fb]; cbn; repeat split; try ring;
    destruct fa; destruct fb; reflexivity.
Qed.

(* ------------------------------------------------------------------------------------ *)
(** * 4. findCriticalTemperature: the bracket handed to brentq has a sign change *)

Definition tc_I (fd : R -> R) (TMax : R) (st : cstate) : Prop :=
  c_conv st = false /\ sgn (fd (c_T st)) = sgn (fd TMax) /\ c_T st <= TMax.
Definition tc_Q (fd : R -> R) (TStep TMin TMax : R) (st : cstate) : Prop :=
  c_conv st = true /\
  let '(lo, hi) := tc_bracket TStep st in
  sgn (fd lo) <> sgn (fd hi) /\ sgn (fd hi) = sgn (fd TMax) /\ TMin < lo /\ hi <= TMax /\
  hi = lo + TStep.

Lemma run_while_inv2 {S : Type} (I Q : S -> Prop) (c : S -> bool) (body : S -> S * bool) :
  (forall s, I s -> c s = true ->
     if snd (body s) then Q (fst (body s)) else I (fst (body s))) ->
  forall fuel s, I s -> I (run_while fuel c body s) \/ Q (run_while fuel c body s).
Proof.
  intros Hb fuel. induction fuel as [|n IH]; intros s Hs; [left; exact Hs|].
  cbn [run_while]. destruct (c s) eqn:Hc; [|left; exact Hs].
  specialize (Hb s Hs Hc). destruct (body s) as [s' brk]. cbn [fst snd] in Hb.
  destruct brk; [right; exact Hb|apply IH; exact Hb].
Qed.

Lemma tc_bracket_lemma fuel fd TStep TMin TMax : 0 < TStep ->
  let st := tc_loop fuel fd TStep TMin TMax in
  c_conv st = true ->
  let '(lo, hi) := tc_bracket TStep st in
  sgn (fd lo) <> sgn (fd hi) /\ sgn (fd hi) = sgn (fd TMax) /\ TMin < lo /\ hi <= TMax /\
  hi = lo + TStep.
Proof.
  intros Hstep st Hconv.
  assert (H : tc_I fd TMax st \/ tc_Q fd TStep TMin TMax st).
  { unfold st, tc_loop. apply run_while_inv2.
    - intros s [Hc [Hsg Hle]] Hcond. unfold tc_cond in Hcond. apply Rltb_true in Hcond.
      unfold tc_body. destruct s as [T conv]. cbn [c_T c_conv set_c_T set_c_conv] in *.
      destruct (Reqb (sgn (fd (T - TStep))) (sgn (fd TMax))) eqn:He; cbn [negb snd fst].
      + apply Reqb_true in He. unfold tc_I. cbn [c_T c_conv set_c_T set_c_conv]. repeat split; [exact Hc|exact He|lra].
      + apply Reqb_false in He. unfold tc_Q, tc_bracket. cbn [c_T c_conv set_c_T set_c_conv].
        replace (T - TStep + TStep) with T by ring.
        split; [reflexivity|]. split; [rewrite Hsg; exact He|]. split; [exact Hsg|]. lra.
    - unfold tc_I. cbn. repeat split; lra. }
  destruct H as [[Hc _]|[_ HQ]]; [congruence|exact HQ].
Qed.

(** the loop accepts a crossing in EITHER orientation: which phase is favoured below the
    returned temperature is not tested by the code (it is a property of the two traced
    phases; for the oracle family it is [critical_temperature] in Lib.PhaseTrace) *)
Lemma tc_orientation_partial_lemma :
  (exists fd, c_conv (tc_loop 1 fd 1 0 2) = true /\ fd 1 < 0 < fd 2) /\
  (exists fd, c_conv (tc_loop 1 fd 1 0 2) = true /\ fd 2 < 0 < fd 1).
Proof.
  assert (S1 : sgn (1 / 2) = 1).
  { unfold sgn. destruct (Rlt_dec 0 (1 / 2)); [reflexivity|lra]. }
  assert (S2 : sgn (- (1 / 2)) = -1).
  { unfold sgn. destruct (Rlt_dec 0 (- (1 / 2))); [lra|]. destruct (Rlt_dec (- (1 / 2)) 0); [reflexivity|lra]. }
  split.
  - exists (fun T => T - 3 / 2). split; [|lra].
    unfold tc_loop. cbn [run_while]. unfold tc_cond. cbn [c_T].
    assert (C : Rltb 0 (2 - 1) = true) by (apply Rltb_true; lra). rewrite C.
    unfold tc_body. cbn [c_T set_c_T c_conv set_c_conv].
    replace (2 - 1 - 3 / 2) with (- (1 / 2)) by lra. replace (2 - 3 / 2) with (1 / 2) by lra.
    rewrite S1, S2.
    assert (E : Reqb (-1) 1 = false) by (apply Reqb_false; lra). rewrite E. reflexivity.
  - exists (fun T => 3 / 2 - T). split; [|lra].
    unfold tc_loop. cbn [run_while]. unfold tc_cond. cbn [c_T].
    assert (C : Rltb 0 (2 - 1) = true) by (apply Rltb_true; lra). rewrite C.
    unfold tc_body. cbn [c_T set_c_T c_conv set_c_conv].
    replace (3 / 2 - (2 - 1)) with (1 / 2) by lra. replace (3 / 2 - 2) with (- (1 / 2)) by lra.
    rewrite S1, S2.
    assert (E : Reqb 1 (-1) = false) by (apply Reqb_false; lra). rewrite E. reflexivity.
Qed.

(* ==================================================================================== *)
(** * The theorems *)

Theorem trace_ode_keeps_critical :
  forall (X : ext R R) (g Hs gT VTT : R -> R -> R) (phi : R -> R) (a b T0 : R),
  (forall p T, allSecondDerivatives X p T = (Hs p T, gT p T, VTT p T)) ->
  (forall h v, h <> 0 -> h * linsolve X h v = v) ->
  (forall v, vneg X v = - v) ->
  (forall T, a <= T <= b -> differentiable_pt_lim g (phi T) T (Hs (phi T) T) (gT (phi T) T)) ->
  (forall T, a <= T <= b -> derivable_pt_lim phi T (odeFunction X T (phi T))) ->
  (forall T, a <= T <= b -> Hs (phi T) T <> 0) ->
  a <= T0 <= b -> g (phi T0) T0 = 0 ->
  forall T, a <= T <= b -> g (phi T) T = 0.
Proof. exact trace_ode_keeps_critical_lemma. Qed.
Print Assumptions trace_ode_keeps_critical.

(** the oracle family of the harness: branches, spinodals, Tc, orientation *)
Theorem closed_form_minima :
  forall D E lam T0, 0 < D -> 0 < E -> 0 < lam -> 0 < T0 -> 9 * E ^ 2 < 8 * lam * D ->
  E ^ 2 < lam * D ->
  forall T, 0 < T ->
  (* the gradient / curvature used below are the derivatives of V *)
  (forall phi, derivable_pt_lim (fun p => qV D E lam T0 p T) phi (qg D E lam T0 phi T)) /\
  (forall phi, derivable_pt_lim (fun p => qg D E lam T0 p T) phi (qH D E lam T0 phi T)) /\
  (* symmetric phase: critical, a minimum exactly above T0 *)
  (qg D E lam T0 0 T = 0 /\ (0 < qH D E lam T0 0 T <-> T0 < T)) /\
  (* broken phase: critical up to T1, a minimum exactly below T1, absent above T1 *)
  (T ^ 2 <= T1sq D E lam T0 ->
     qg D E lam T0 (phi_b D E lam T0 T) T = 0 /\
     (0 < qH D E lam T0 (phi_b D E lam T0 T) T <-> T ^ 2 < T1sq D E lam T0)) /\
  (T1sq D E lam T0 < T ^ 2 -> forall phi, qg D E lam T0 phi T = 0 -> phi = 0) /\
  (* free energies cross at Tc < T1, the broken phase being favoured below Tc *)
  Tcsq D E lam T0 < T1sq D E lam T0 /\
  (T ^ 2 <= T1sq D E lam T0 ->
     (qV D E lam T0 (phi_b D E lam T0 T) T - qV D E lam T0 0 T < 0 <-> T ^ 2 < Tcsq D E lam T0) /\
     (qV D E lam T0 (phi_b D E lam T0 T) T - qV D E lam T0 0 T = 0 <-> T ^ 2 = Tcsq D E lam T0)).
Proof.
  intros D E lam T0 HD HE Hlam HT0 Hbar Hfo T HT.
  split; [intros; apply qg_is_dV|].
  split; [intros; apply qH_is_dg|].
  split; [apply sym_branch; assumption|].
  split; [intros; apply broken_branch; assumption|].
  split; [intros H1 phi; apply no_broken_phase_beyond_spinodal; assumption|].
  split; [apply Tcsq_lt_T1sq; assumption|].
  intros; apply critical_temperature; assumption.
Qed.
Print Assumptions closed_form_minima.

Theorem spinodal_test_is_smallest_eigenvalue :
  forall (Fld Hess : Type) (X : ext Fld Hess), (forall h, eigvalsh X h <> []) ->
  forall T y,
    (0 < spinodalEvent X true T y <->
     Forall (fun ev => 0 < ev) (eigvalsh X (deriv2Field2 X y T))) /\
    spinodalEvent X false T y = 1.
Proof. intros Fld Hess X. exact (spinodal_test_lemma X). Qed.
Print Assumptions spinodal_test_is_smallest_eigenvalue.

Theorem spinodal_test_is_positive_definiteness_2field :
  forall (X : ext (R * R) (R * R * R)),
  (forall a b c, eigvalsh X (a, b, c) = [eig_min2 a b c; eig_max2 a b c]) ->
  forall T y a b c, deriv2Field2 X y T = (a, b, c) ->
    (0 < spinodalEvent X true T y <-> posdef2 a b c).
Proof. exact spinodal_test_2field_lemma. Qed.
Print Assumptions spinodal_test_is_positive_definiteness_2field.

(** testing diagonal entries instead would not do *)
Theorem diagonal_test_refuted : exists a b c, 0 < Rmin a c /\ ~ posdef2 a b c.
Proof. exact diag_min_not_posdef. Qed.
Print Assumptions diagonal_test_refuted.

Theorem range_is_table_minus_margin :
  forall TFull dT TMinReq TMaxReq st,
  let st' := tail TFull dT (clamp_TMin st TMinReq) (clamp_TMax st TMaxReq) st in
  minT st' = lmin TFull + 2 * dT /\ maxT st' = lmax TFull - 2 * dT.
Proof.
  intros. destruct (tail_values TFull dT (clamp_TMin st TMinReq) (clamp_TMax st TMaxReq) st)
    as [A [B _]]. split; assumption.
Qed.
Print Assumptions range_is_table_minus_margin.

(** on an object whose ends are not yet flagged: the lower end is flagged exactly when the
    table stops above the requested (clamped) TMin; same for the upper end.  A flag that is
    already set is never cleared. *)
Theorem flag_iff_short :
  forall TFull dT TMinReq TMaxReq st,
  let st' := tail TFull dT (clamp_TMin st TMinReq) (clamp_TMax st TMaxReq) st in
  (minFlag st = false -> (minFlag st' = true <-> Rmax (minT st) TMinReq < lmin TFull)) /\
  (maxFlag st = false -> (maxFlag st' = true <-> lmax TFull < Rmin (maxT st) TMaxReq)) /\
  (minFlag st = true -> minFlag st' = true) /\ (maxFlag st = true -> maxFlag st' = true).
Proof.
  intros. destruct (tail_values TFull dT (clamp_TMin st TMinReq) (clamp_TMax st TMaxReq) st)
    as [_ [_ [A B]]]. subst st'. unfold clamp_TMin, clamp_TMax in *.
  split; [|split; [|split]].
  - intros H. rewrite A, H. cbn [orb]. apply Rltb_true.
  - intros H. rewrite B, H. cbn [orb]. apply Rltb_true.
  - intros H. rewrite A, H. reflexivity.
  - intros H. rewrite B, H. reflexivity.
Qed.
Print Assumptions flag_iff_short.

Theorem tc_bracket_has_sign_change :
  forall fuel fd TStep TMin TMax, 0 < TStep ->
  let st := tc_loop fuel fd TStep TMin TMax in
  c_conv st = true ->
  let '(lo, hi) := tc_bracket TStep st in
  sgn (fd lo) <> sgn (fd hi) /\ sgn (fd hi) = sgn (fd TMax) /\ TMin < lo /\ hi <= TMax /\
  hi = lo + TStep.
Proof. exact tc_bracket_lemma. Qed.
Print Assumptions tc_bracket_has_sign_change.

Theorem tc_orientation_partial :
  (exists fd, c_conv (tc_loop 1 fd 1 0 2) = true /\ fd 1 < 0 < fd 2) /\
  (exists fd, c_conv (tc_loop 1 fd 1 0 2) = true /\ fd 2 < 0 < fd 1).
Proof. exact tc_orientation_partial_lemma. Qed.
Print Assumptions tc_orientation_partial.

(** every call of tracePhase inside WallGo keeps spinodal detection on, and
    findCriticalTemperature hands its own rTol / paranoid to the parameters of those names;
    no call passes anything positionally beyond (TMin, TMax, dT, rTol) *)
Theorem trace_calls_keep_spinodal_detection :
  trace_param_order = [3; 4; 5]%nat /\
  forallb (fun c => Nat.eqb (src_expr (tc_spinodal c)) X_True && Nat.leb (tc_positional c) 4) trace_calls = true /\
  tc_trace_calls <> [] /\
  forallb (fun c => Nat.eqb (src_expr (tc_paranoid c)) X_caller_paranoid &&
                    Nat.eqb (src_expr (tc_rTol c)) X_caller_rTol) tc_trace_calls = true.
Proof. repeat split; try (vm_compute; reflexivity). vm_compute. discriminate. Qed.
Print Assumptions trace_calls_keep_spinodal_detection.

(** structural facts of the direction loop *)
Theorem sweeps_go_up_then_down :
  first_direction_is_up = true /\ second_direction_is_up = false /\
  (forall (Fld : Type) (T0 : R) (p : Fld) v,
      first_sweep_lists T0 p v = ([T0], [p], [Some v])).
Proof. repeat split. Qed.
Print Assumptions sweeps_go_up_then_down.
