(** C11 -- a traced phase is one genuine minimum, tabulated only where it exists.

    Every definition named below without a library prefix comes from GenC11.TraceGen, which
    tools/gen_trace.py regenerates on every run from freeEnergy.py::tracePhase,
    thermodynamics.py::findCriticalTemperature and all call sites of tracePhase.  External
    numerics (finite-difference derivatives, BFGS, LAPACK solve / eigvalsh, RK45) are the
    record [X : ext Fld Hess]; what is assumed about them is a hypothesis of the theorem that
    needs it and is validated on the running code by tools/props/C11.py. *)
From Coq Require Import Reals Lra Lia List Bool.
From Coquelicot Require Import Derive_2d.
From WG Require Import Lib.PhaseTrace Model.TraceBook.
From GenC11 Require Import TraceGen.
Import ListNotations.
Local Open Scope R_scope.

(* ------------------------------------------------------------------------------------ *)
(** * 1. the ODE integrated by the tracer keeps a critical point critical (one field) *)

Lemma odeFunction_1field (X : ext R R) (Hs gT VTT : R -> R -> R) :
  (forall p T, allSecondDerivatives X p T = (Hs p T, gT p T, VTT p T)) ->
  (forall h v, h <> 0 -> h * linsolve X h v = v) ->
  (forall v, vneg X v = - v) ->
  forall T p, Hs p T <> 0 -> odeFunction X T p = - gT p T / Hs p T.
Proof.
  intros Hall Hsolve Hneg T p Hh. unfold odeFunction. rewrite Hall, Hneg.
  apply Rmult_eq_reg_l with (Hs p T); [|exact Hh].
  rewrite (Hsolve _ _ Hh). field. exact Hh.
Qed.

Lemma trace_ode_keeps_critical_lemma :
  forall (X : ext R R) (g Hs gT VTT : R -> R -> R) (phi : R -> R) (a b T0 : R),
  (forall p T, allSecondDerivatives X p T = (Hs p T, gT p T, VTT p T)) ->
  (forall h v, h <> 0 -> h * linsolve X h v = v) ->
  (forall v, vneg X v = - v) ->
  (forall T, a <= T <= b -> differentiable_pt_lim g (phi T) T (Hs (phi T) T) (gT (phi T) T)) ->
  (forall T, a <= T <= b -> derivable_pt_lim phi T (odeFunction X T (phi T))) ->
  (forall T, a <= T <= b -> Hs (phi T) T <> 0) ->
  a <= T0 <= b -> g (phi T0) T0 = 0 ->
  forall T, a <= T <= b -> g (phi T) T = 0.
Proof.
  intros X g Hs gT VTT phi a b T0 Hall Hsolve Hneg HC1 Hode Hreg HT0 Hg0.
  assert (ODE : forall T, a <= T <= b -> odeFunction X T (phi T) = - gT (phi T) T / Hs (phi T) T).
  { intros T HT. apply (odeFunction_1field X Hs gT VTT Hall Hsolve Hneg). apply Hreg; exact HT. }
  exact (ode_keeps_critical g Hs gT phi (fun T => odeFunction X T (phi T)) a b HC1 Hode Hreg ODE
           T0 HT0 Hg0).
Qed.

(** non-vacuity: V = phi^2/2 - T^2 phi, g = phi - T^2, minimum phi(T) = T^2 *)
Example trace_ode_hypotheses_satisfiable :
  let X := mk_ext R R (fun p T => (1, - 2 * T, - 2 * p)) (fun _ _ => 1) (fun p T => p - T ^ 2)
                  (fun p T => p ^ 2 / 2 - T ^ 2 * p) (fun p T _ => (T ^ 2, - T ^ 4 / 2))
                  (fun h v => v / h) Ropp Rabs (fun h => [h]) (fun _ => None) in
  forall T, 0 <= T <= 1 -> (fun p T => p - T ^ 2) ((fun T => T ^ 2) T) T = 0.
Proof.
  intros X.
  apply (trace_ode_keeps_critical_lemma X (fun p T => p - T ^ 2) (fun _ _ => 1)
           (fun _ T => - 2 * T) (fun p _ => - 2 * p) (fun T => T ^ 2) 0 1 0).
  - intros; reflexivity.
  - intros h v Hh. cbn. field. exact Hh.
  - intros; reflexivity.
  - intros T _. cbv beta.
    assert (Hd : differentiable_pt_lim (fun u v => u + -1 * (v * v)) (T ^ 2) T
                   (1 + (T * T * 0 + -1 * (T * 0 + T * 0)))
                   (0 + (T * T * 0 + -1 * (T * 1 + T * 1)))).
    { apply (diff2_plus (fun u _ => u) (fun _ v => -1 * (v * v))); [apply diff2_fst|].
      apply (diff2_mult (fun _ _ => -1) (fun _ v => v * v)); [apply diff2_const|].
      apply (diff2_mult (fun _ v => v) (fun _ v => v)); apply diff2_snd. }
    apply differentiable_pt_lim_ext with (f1 := fun u v => u + -1 * (v * v)).
    { exists (mkposreal 1 Rlt_0_1). intros u v _ _. ring. }
    replace 1 with (1 + (T * T * 0 + -1 * (T * 0 + T * 0))) at 1 by ring.
    replace (-2 * T) with (0 + (T * T * 0 + -1 * (T * 1 + T * 1))) by ring.
    exact Hd.
  - intros T _. cbv beta.
    assert (E : odeFunction X T (T ^ 2) = INR 2 * T ^ pred 2).
    { unfold odeFunction. cbn. field. }
    rewrite E. exact (derivable_pt_lim_pow T 2).
  - intros; lra.
  - lra.
  - ring.
Qed.

(* ------------------------------------------------------------------------------------ *)
(** * 3a. the spinodal test: smallest Hessian eigenvalue, i.e. positive definiteness *)

Lemma spinodal_test_lemma {Fld Hess} (X : ext Fld Hess) :
  (forall h, eigvalsh X h <> []) ->
  forall T y,
    (0 < spinodalEvent X true T y <->
     Forall (fun ev => 0 < ev) (eigvalsh X (deriv2Field2 X y T))) /\
    spinodalEvent X false T y = 1.
Proof.
  intros Hne T y. unfold spinodalEvent. cbn [negb]. split; [|reflexivity].
  apply lmin_pos_iff. apply Hne.
Qed.

(** two fields: the test passes exactly when the (symmetric) Hessian is positive definite *)
Lemma spinodal_test_2field_lemma (X : ext (R * R) (R * R * R)) :
  (forall a b c, eigvalsh X (a, b, c) = [eig_min2 a b c; eig_max2 a b c]) ->
  forall T y a b c, deriv2Field2 X y T = (a, b, c) ->
    (0 < spinodalEvent X true T y <-> posdef2 a b c).
Proof.
  intros Heig T y a b c Hh. unfold spinodalEvent. cbn [negb]. rewrite Hh, Heig.
  rewrite <- eig_min2_posdef. cbn [lmin].
  assert (eig_min2 a b c <= eig_max2 a b c).
  { unfold eig_min2, eig_max2. assert (0 <= sqrt ((a - c) ^ 2 + 4 * b ^ 2)) by apply sqrt_pos. lra. }
  unfold Rmin. destruct (Rle_dec (eig_min2 a b c) (eig_max2 a b c)); [reflexivity|lra].
Qed.

(* ------------------------------------------------------------------------------------ *)
(** * 3b. range bookkeeping at the end of tracePhase *)

Lemma tail_values TFull dT TMin TMax kMin kMax st :
  let st' := tail TFull dT TMin TMax kMin kMax st in
  minT st' = lmin TFull + 2 * dT /\ maxT st' = lmax TFull - 2 * dT /\
  minFlag st' = (Rltb TMin (lmin TFull) || kMin)%bool /\
  maxFlag st' = (Rltb (lmax TFull) TMax || kMax)%bool.
Proof. unfold tail. destruct st as [a fa b fb]. cbn. repeat split. Qed.

(** the whole range/flag update of one tracePhase call on an object in state [st] *)
Definition after_trace (TFull : list R) (dT TMinReq TMaxReq T0 : R) (st : ranges) : ranges :=
  tail TFull dT (clamp_TMin st TMinReq T0) (clamp_TMax st TMaxReq T0)
       (keep_min st TMinReq) (keep_max st TMaxReq) st.

(* ------------------------------------------------------------------------------------ *)
(** * 4. findCriticalTemperature: the bracket handed to brentq has a sign change *)

Definition tc_I (fd : R -> R) (TMax : R) (st : cstate) : Prop :=
  c_conv st = false /\ sgn (fd (c_T st)) = sgn (fd TMax) /\ c_T st <= TMax.
Definition tc_Q (fd : R -> R) (TStep TMin TMax : R) (st : cstate) : Prop :=
  c_conv st = true /\
  let '(lo, hi) := tc_bracket TStep st in
  sgn (fd lo) <> sgn (fd hi) /\ sgn (fd hi) = sgn (fd TMax) /\ TMin < lo /\ hi <= TMax /\
  hi = lo + TStep.

Lemma run_while_inv2 {S : Type} (I Q : S -> Prop) (c : S -> bool) (body : S -> S * bool) :
  (forall s, I s -> c s = true ->
     if snd (body s) then Q (fst (body s)) else I (fst (body s))) ->
  forall fuel s, I s -> I (run_while fuel c body s) \/ Q (run_while fuel c body s).
Proof.
  intros Hb fuel. induction fuel as [|n IH]; intros s Hs; [left; exact Hs|].
  cbn [run_while]. destruct (c s) eqn:Hc; [|left; exact Hs].
  specialize (Hb s Hs Hc). destruct (body s) as [s' brk]. cbn [fst snd] in Hb.
  destruct brk; [right; exact Hb|apply IH; exact Hb].
Qed.

Lemma tc_bracket_lemma fuel fd TStep TMin TMax : 0 < TStep ->
  let st := tc_loop fuel fd TStep TMin TMax in
  c_conv st = true ->
  let '(lo, hi) := tc_bracket TStep st in
  sgn (fd lo) <> sgn (fd hi) /\ sgn (fd hi) = sgn (fd TMax) /\ TMin < lo /\ hi <= TMax /\
  hi = lo + TStep.
Proof.
  intros Hstep st Hconv.
  assert (H : tc_I fd TMax st \/ tc_Q fd TStep TMin TMax st).
  { unfold st, tc_loop. apply run_while_inv2.
    - intros s [Hc [Hsg Hle]] Hcond. unfold tc_cond in Hcond. apply Rltb_true in Hcond.
      unfold tc_body. destruct s as [T conv]. cbn [c_T c_conv set_c_T set_c_conv] in *.
      destruct (Reqb (sgn (fd (T - TStep))) (sgn (fd TMax))) eqn:He; cbn [negb snd fst].
      + apply Reqb_true in He. unfold tc_I. cbn [c_T c_conv set_c_T set_c_conv]. repeat split; [exact Hc|exact He|lra].
      + apply Reqb_false in He. unfold tc_Q, tc_bracket. cbn [c_T c_conv set_c_T set_c_conv].
        replace (T - TStep + TStep) with T by ring.
        split; [reflexivity|]. split; [rewrite Hsg; exact He|]. split; [exact Hsg|]. lra.
    - unfold tc_I. cbn. repeat split; lra. }
  destruct H as [[Hc _]|[_ HQ]]; [congruence|exact HQ].
Qed.

(** the loop accepts a crossing in EITHER orientation: which phase is favoured below the
    returned temperature is not tested by the code (it is a property of the two traced
    phases; for the oracle family it is [critical_temperature] in Lib.PhaseTrace) *)
Lemma tc_orientation_partial_lemma :
  (exists fd, c_conv (tc_loop 1 fd 1 0 2) = true /\ fd 1 < 0 < fd 2) /\
  (exists fd, c_conv (tc_loop 1 fd 1 0 2) = true /\ fd 2 < 0 < fd 1).
Proof.
  assert (S1 : sgn (1 / 2) = 1).
  { unfold sgn. destruct (Rlt_dec 0 (1 / 2)); [reflexivity|lra]. }
  assert (S2 : sgn (- (1 / 2)) = -1).
  { unfold sgn. destruct (Rlt_dec 0 (- (1 / 2))); [lra|]. destruct (Rlt_dec (- (1 / 2)) 0); [reflexivity|lra]. }
  split.
  - exists (fun T => T - 3 / 2). split; [|lra].
    unfold tc_loop. cbn [run_while]. unfold tc_cond. cbn [c_T].
    assert (C : Rltb 0 (2 - 1) = true) by (apply Rltb_true; lra). rewrite C.
    unfold tc_body. cbn [c_T set_c_T c_conv set_c_conv].
    replace (2 - 1 - 3 / 2) with (- (1 / 2)) by lra. replace (2 - 3 / 2) with (1 / 2) by lra.
    rewrite S1, S2.
    assert (E : Reqb (-1) 1 = false) by (apply Reqb_false; lra). rewrite E. reflexivity.
  - exists (fun T => 3 / 2 - T). split; [|lra].
    unfold tc_loop. cbn [run_while]. unfold tc_cond. cbn [c_T].
    assert (C : Rltb 0 (2 - 1) = true) by (apply Rltb_true; lra). rewrite C.
    unfold tc_body. cbn [c_T set_c_T c_conv set_c_conv].
    replace (3 / 2 - (2 - 1)) with (1 / 2) by lra. replace (3 / 2 - 2) with (- (1 / 2)) by lra.
    rewrite S1, S2.
    assert (E : Reqb 1 (-1) = false) by (apply Reqb_false; lra). rewrite E. reflexivity.
Qed.

(* ------------------------------------------------------------------------------------ *)
(** * 3c. the stepping loop of tracePhase (generated [loop_body], [trace_dir]) *)

(** the generated loop body has this shape: re-minimise?; break on spinodal; accept/re-minimise
    (non-paranoid); break on stall; overwrite-and-continue; append.  A new break reason or a
    reordering changes this list. *)
Lemma loop_body_shape_lemma : body_shape = [KUpd; KBrk; KUpd; KBrk; KCont; KUpd].
Proof. reflexivity. Qed.

Section Loop.
Context {Fld Hess : Type}.
Variable X : ext Fld Hess.
Variables (T0 rTol : R) (spinodal paranoid : bool).
Notation S1 := (seg_1 X T0 rTol spinodal paranoid).
Notation B2 := (seg_2 X T0 rTol spinodal paranoid).
Notation S3 := (seg_3 X T0 rTol spinodal paranoid).
Notation B4 := (seg_4 X T0 rTol spinodal paranoid).
Notation C5 := (seg_5 X T0 rTol spinodal paranoid).
Notation D5 := (seg_5_do X T0 rTol spinodal paranoid).
Notation S6 := (seg_6 X T0 rTol spinodal paranoid).

Definition entries (st : lstate Fld) := combine (l_T st) (combine (l_F st) (l_P st)).
Definition aligned (st : lstate Fld) :=
  length (l_T st) = length (l_F st) /\ length (l_F st) = length (l_P st).
Definition cur_t (s : lstate Fld) := ode_t (l_ode s).
Definition cur_y (s : lstate Fld) := ode_y (l_ode s).
Definition tested (t : R) (y : Fld) : Prop := 0 < spinodalEvent X spinodal t y.
(** the acceptance error of the non-paranoid branch: |grad V| / T0^3 *)
Definition gerr (t : R) (y : Fld) : R := norm X (derivField X y t) / T0 ^ 3.
Definition good_entry (e : R * (Fld * option R)) : Prop :=
  let '(t, (y, p)) := e in
  exists v, p = Some v /\
    ((paranoid = true /\ tested t y /\ exists y0, findLocalMinimum X y0 t rTol = (y, v))
     \/ (paranoid = false /\ tested t y /\ v = evaluate X y t /\ gerr t y <= rTol)
     \/ (paranoid = false /\ exists y0, tested t y0 /\ rTol < gerr t y0 /\
           findLocalMinimum X y0 t (extraTol_of rTol) = (y, v))).

Lemma combine_snoc {A B} (l1 : list A) (l2 : list B) a b : length l1 = length l2 ->
  combine (l1 ++ [a]) (l2 ++ [b]) = combine l1 l2 ++ [(a, b)].
Proof.
  revert l2. induction l1 as [|x r IH]; intros [|y r2] H; cbn in *; try discriminate; [reflexivity|].
  f_equal. apply IH. lia.
Qed.
Lemma removelast_length {A} (l : list A) : l <> [] -> S (length (removelast l)) = length l.
Proof.
  induction l as [|x [|y r] IH]; intros H; [congruence|reflexivity|].
  change (removelast (x :: y :: r)) with (x :: removelast (y :: r)). cbn [length].
  rewrite IH; [reflexivity|discriminate].
Qed.
Lemma combine_removelast {A B} (l1 : list A) (l2 : list B) : length l1 = length l2 ->
  combine (removelast l1) (removelast l2) = removelast (combine l1 l2).
Proof.
  revert l2. induction l1 as [|x [|x' r] IH]; intros [|y [|y' r2]] H; cbn in H; try discriminate;
    try reflexivity.
  change (removelast (x :: x' :: r)) with (x :: removelast (x' :: r)).
  change (removelast (y :: y' :: r2)) with (y :: removelast (y' :: r2)).
  change (combine (x :: x' :: r) (y :: y' :: r2)) with ((x, y) :: combine (x' :: r) (y' :: r2)).
  change (removelast ((x, y) :: combine (x' :: r) (y' :: r2)))
    with ((x, y) :: removelast (combine (x' :: r) (y' :: r2))).
  cbn [combine]. f_equal. apply (IH (y' :: r2)). cbn. lia.
Qed.
Lemma Forall_removelast {A} (P : A -> Prop) l : Forall P l -> Forall P (removelast l).
Proof.
  induction l as [|x [|y r] IH]; intros H; [constructor|constructor|].
  change (removelast (x :: y :: r)) with (x :: removelast (y :: r)).
  inversion H; subst. constructor; [assumption|apply IH; assumption].
Qed.
Lemma In_removelast {A} (l : list A) x : In x (removelast l) -> In x l.
Proof.
  induction l as [|a [|b r] IH]; intros H; [destruct H|destruct H|].
  change (removelast (a :: b :: r)) with (a :: removelast (b :: r)) in H.
  destruct H as [H|H]; [left; exact H|right; apply IH; exact H].
Qed.
Lemma length_pos_ne {A} (l : list A) : (0 <? length l)%nat = true -> l <> [].
Proof. destruct l; cbn; [discriminate|intros _; discriminate]. Qed.


Definition same_table (s s' : lstate Fld) : Prop :=
  l_T s' = l_T s /\ l_F s' = l_F s /\ l_P s' = l_P s /\ cur_t s' = cur_t s /\
  ode_h (l_ode s') = ode_h (l_ode s).

Ltac red_st :=
  cbv beta iota zeta delta [negb fst snd l_ode l_pot l_T l_F l_P set_l_ode set_l_pot set_l_T
                            set_l_F set_l_P ode_t ode_y ode_h ode_running set_y cur_t cur_y].

(** *** what each straight-line segment does *)
Lemma seg1_spec s :
  same_table s (S1 s) /\
  ((paranoid = true /\ exists v, l_pot (S1 s) = Some v /\
       findLocalMinimum X (cur_y s) (cur_t s) rTol = (cur_y (S1 s), v))
   \/ (paranoid = false /\ S1 s = s)).
Proof.
  unfold seg_1, same_table. destruct s as [[t y h run] pot lT lF lP]. destruct paranoid; red_st.
  - destruct (findLocalMinimum X y t rTol) as [ph pv] eqn:E. red_st.
    repeat split; try reflexivity. left. split; [reflexivity|]. exists pv. split; reflexivity.
  - repeat split; try reflexivity. right. split; reflexivity.
Qed.

Lemma seg3_spec s :
  same_table s (S3 s) /\
  ((paranoid = true /\ S3 s = s)
   \/ (paranoid = false /\
       ((rTol < gerr (cur_t s) (cur_y s) /\ exists v, l_pot (S3 s) = Some v /\
            findLocalMinimum X (cur_y s) (cur_t s) (extraTol_of rTol) = (cur_y (S3 s), v))
        \/ (gerr (cur_t s) (cur_y s) <= rTol /\ cur_y (S3 s) = cur_y s /\
            l_pot (S3 s) = Some (evaluate X (cur_y s) (cur_t s)))))).
Proof.
  unfold seg_3, same_table, gerr. destruct s as [[t y h run] pot lT lF lP]. destruct paranoid; red_st.
  - repeat split; try reflexivity. left. split; reflexivity.
  - destruct (Rltb rTol (norm X (derivField X y t) / T0 ^ 3)) eqn:Hc; red_st.
    + destruct (findLocalMinimum X y t (extraTol_of rTol)) as [ph pv] eqn:E. red_st.
      repeat split; try reflexivity. right. split; [reflexivity|]. left.
      split; [apply Rltb_true; exact Hc|]. exists pv. split; reflexivity.
    + repeat split; try reflexivity. right. split; [reflexivity|]. right.
      split; [apply Rltb_false; exact Hc|]. split; reflexivity.
Qed.

Lemma seg2_false s : B2 s = false -> tested (cur_t s) (cur_y s).
Proof. unfold seg_2, tested. intros H. apply Rleb_false in H. exact H. Qed.
Lemma seg2_true s : B2 s = true -> spinodalEvent X spinodal (cur_t s) (cur_y s) <= 0.
Proof. unfold seg_2. intros H. apply Rleb_true in H. exact H. Qed.
Lemma seg4_true s : B4 s = true ->
  ode_h (l_ode s) < 1 / 10000000000000000 * T0 \/ (l_T s <> [] /\ cur_t s = last (l_T s) 0).
Proof.
  unfold seg_4. intros H. apply orb_true_iff in H. destruct H as [H|H].
  - left. apply Rltb_true in H. exact H.
  - right. apply andb_prop in H. destruct H as [H1 H2]. split; [apply length_pos_ne; exact H1|].
    apply Reqb_true in H2. exact H2.
Qed.
Lemma seg5_true s : C5 s = true -> l_T s <> [].
Proof. unfold seg_5. intros H. apply andb_prop in H. destruct H as [H _]. apply length_pos_ne; exact H. Qed.
Lemma seg5do_spec s :
  l_T (D5 s) = removelast (l_T s) ++ [cur_t s] /\ l_F (D5 s) = removelast (l_F s) ++ [cur_y s] /\
  l_P (D5 s) = removelast (l_P s) ++ [l_pot s] /\ l_ode (D5 s) = l_ode s.
Proof. unfold seg_5_do. destruct s. red_st. repeat split. Qed.
Lemma seg6_spec s :
  l_T (S6 s) = l_T s ++ [cur_t s] /\ l_F (S6 s) = l_F s ++ [cur_y s] /\
  l_P (S6 s) = l_P s ++ [l_pot s] /\ l_ode (S6 s) = l_ode s.
Proof. unfold seg_6. destruct s. red_st. repeat split. Qed.

(** the point about to be tabulated after segments 1-3 is a good entry *)
Lemma accepted_point_good s0 :
  B2 (S1 s0) = false ->
  let s3 := S3 (S1 s0) in good_entry (cur_t s3, (cur_y s3, l_pot s3)).
Proof.
  intros H2. cbv zeta. set (s1 := S1 s0) in *.
  destruct (seg1_spec s0) as [[_ [_ [_ [Et1 _]]]] P1]. fold s1 in Et1, P1.
  destruct (seg3_spec s1) as [[_ [_ [_ [Et3 _]]]] P3].
  apply seg2_false in H2. unfold good_entry.
  destruct P3 as [[Hp E3]|[Hp [[Hg [v [Hv Hf]]]|[Hg [Ey Hv]]]]].
  - rewrite E3. destruct P1 as [[_ [v [Hv Hf]]]|[Hp' _]]; [|congruence].
    exists v. split; [exact Hv|]. left. split; [exact Hp|]. split; [exact H2|].
    exists (cur_y s0). rewrite Et1. exact Hf.
  - exists v. split; [exact Hv|]. right. right. split; [exact Hp|].
    exists (cur_y s1). rewrite Et3. split; [exact H2|]. split; [exact Hg|exact Hf].
  - exists (evaluate X (cur_y s1) (cur_t s1)). split; [exact Hv|]. right. left.
    split; [exact Hp|]. rewrite Et3, Ey. split; [exact H2|]. split; [reflexivity|exact Hg].
Qed.

Lemma tables_s3 s0 : let s3 := S3 (S1 s0) in
  l_T s3 = l_T s0 /\ l_F s3 = l_F s0 /\ l_P s3 = l_P s0 /\ cur_t s3 = cur_t s0.
Proof.
  cbv zeta. destruct (seg1_spec s0) as [[A1 [A2 [A3 [A4 _]]]] _].
  destruct (seg3_spec (S1 s0)) as [[B1 [B2' [B3 [B4' _]]]] _].
  repeat split; congruence.
Qed.

(** the four ways one execution of the body can end *)
Lemma body_cases_lemma st r : loop_body X T0 rTol spinodal paranoid st = r ->
  (rk_step X (l_ode st) = None /\ r = (st, true)) \/
  exists o1, rk_step X (l_ode st) = Some o1 /\
    let s0 := set_l_ode st o1 in let s1 := S1 s0 in let s3 := S3 s1 in
    (B2 s1 = true /\ r = (s1, true)) \/
    (B2 s1 = false /\
      ((B4 s3 = true /\ r = (s3, true)) \/
       (B4 s3 = false /\ C5 s3 = true /\ r = (D5 s3, false)) \/
       (B4 s3 = false /\ C5 s3 = false /\ r = (S6 s3, false)))).
Proof.
  unfold loop_body. intros <-. destruct (rk_step X (l_ode st)) as [o1|] eqn:Hs; [|left; split; reflexivity].
  right. exists o1. split; [reflexivity|]. cbv zeta.
  destruct (B2 (S1 (set_l_ode st o1))) eqn:H2; [left; split; reflexivity|right; split; [reflexivity|]].
  destruct (B4 (S3 (S1 (set_l_ode st o1)))) eqn:H4; [left; split; reflexivity|right].
  destruct (C5 (S3 (S1 (set_l_ode st o1)))) eqn:H5; [left|right]; repeat split; reflexivity.
Qed.

(** exhaustive list of the reasons for which the body ends the sweep *)
Lemma break_reasons_lemma st : snd (loop_body X T0 rTol spinodal paranoid st) = true ->
  rk_step X (l_ode st) = None \/
  exists o1, rk_step X (l_ode st) = Some o1 /\
    let s1 := S1 (set_l_ode st o1) in
    spinodalEvent X spinodal (cur_t s1) (cur_y s1) <= 0 \/
    let s3 := S3 s1 in
    ode_h (l_ode s3) < 1 / 10000000000000000 * T0 \/ (l_T s3 <> [] /\ cur_t s3 = last (l_T s3) 0).
Proof.
  intros Hb. destruct (body_cases_lemma st _ eq_refl) as [[Hn _]|[o1 [Hs C]]]; [left; exact Hn|].
  right. exists o1. split; [exact Hs|]. cbv zeta in *.
  destruct C as [[H2 _]|[_ [[H4 _]|[[_ [_ E]]|[_ [_ E]]]]]].
  - left. apply seg2_true. exact H2.
  - right. apply seg4_true. exact H4.
  - rewrite E in Hb. discriminate.
  - rewrite E in Hb. discriminate.
Qed.

(** one execution of the loop body: the table is unchanged, or one good entry is appended, or
    the last entry is overwritten by a good entry *)
Lemma body_entries st : aligned st ->
  let r := loop_body X T0 rTol spinodal paranoid st in
  aligned (fst r) /\
  (entries (fst r) = entries st \/
   exists e, good_entry e /\
     (entries (fst r) = entries st ++ [e] \/
      (l_T st <> [] /\ entries (fst r) = removelast (entries st) ++ [e]))).
Proof.
  intros [A1 A2]. cbv zeta.
  destruct (body_cases_lemma st _ eq_refl) as [[_ E]|[o1 [_ C]]].
  { rewrite E. split; [split; assumption|left; reflexivity]. }
  cbv zeta in C. set (s0 := set_l_ode st o1) in *.
  assert (L0 : l_T s0 = l_T st /\ l_F s0 = l_F st /\ l_P s0 = l_P st) by (destruct st; repeat split).
  destruct L0 as [L0T [L0F L0P]].
  destruct (seg1_spec s0) as [[T1 [F1 [P1 _]]] _].
  destruct (tables_s3 s0) as [T3 [F3 [P3 _]]].
  destruct C as [[_ E]|[H2 [[_ E]|[[_ [H5 E]]|[_ [_ E]]]]]]; rewrite E; cbn [fst snd]; unfold aligned, entries.
  - rewrite T1, F1, P1, L0T, L0F, L0P. split; [split; assumption|left; reflexivity].
  - rewrite T3, F3, P3, L0T, L0F, L0P. split; [split; assumption|left; reflexivity].
  - destruct (seg5do_spec (S3 (S1 s0))) as [DT [DF [DP _]]]. rewrite DT, DF, DP, T3, F3, P3, L0T, L0F, L0P.
    apply seg5_true in H5. rewrite T3, L0T in H5.
    assert (NF : l_F st <> []) by (intros E'; rewrite E' in A1; destruct (l_T st); cbn in *; [congruence|lia]).
    assert (NP : l_P st <> []) by (intros E'; rewrite E' in A2; destruct (l_F st); cbn in *; [congruence|lia]).
    assert (R1 := removelast_length (l_T st) H5). assert (R2 := removelast_length (l_F st) NF).
    assert (R3 := removelast_length (l_P st) NP).
    split; [rewrite !app_length; cbn [length]; split; lia|].
    right. eexists. split; [exact (accepted_point_good s0 H2)|]. right. split; [exact H5|].
    rewrite <- (combine_removelast (l_T st) (combine (l_F st) (l_P st))) by (rewrite combine_length; lia).
    rewrite <- (combine_removelast (l_F st) (l_P st)) by lia.
    rewrite (combine_snoc (removelast (l_F st)) (removelast (l_P st))) by lia.
    rewrite (combine_snoc (removelast (l_T st))) by (rewrite combine_length; lia). reflexivity.
  - destruct (seg6_spec (S3 (S1 s0))) as [DT [DF [DP _]]]. rewrite DT, DF, DP, T3, F3, P3, L0T, L0F, L0P.
    split; [rewrite !app_length; cbn [length]; split; lia|].
    right. eexists. split; [exact (accepted_point_good s0 H2)|]. left.
    rewrite (combine_snoc (l_F st) (l_P st) _ _ A2), (combine_snoc (l_T st)) by (rewrite combine_length; lia).
    reflexivity.
Qed.

Theorem sweep_entries fuel st0 : aligned st0 ->
  let st := trace_dir X fuel T0 rTol spinodal paranoid st0 in
  aligned st /\ Forall (fun e => In e (entries st0) \/ good_entry e) (entries st).
Proof.
  intros A0. cbv zeta. unfold trace_dir.
  apply (run_while_inv (fun st => aligned st /\
           Forall (fun e => In e (entries st0) \/ good_entry e) (entries st))).
  - intros st [A G] _.
    destruct (body_entries st A) as [A' [Eq|[e [Ge [Eq|[_ Eq]]]]]]; (split; [exact A'|]); rewrite Eq.
    + exact G.
    + apply Forall_app. split; [exact G|constructor; [right; exact Ge|constructor]].
    + apply Forall_app. split; [apply Forall_removelast; exact G|constructor; [right; exact Ge|constructor]].
  - split; [exact A0|]. apply Forall_forall. intros e He. left; exact He.
Qed.

(** ** the tabulated temperatures are strictly monotone *)
Definition up_inv (st : lstate Fld) : Prop :=
  incr (l_T st) /\ (forall x, In x (l_T st) -> x <= ode_t (l_ode st)) /\
  (forall x, In x (l_T st) -> T0 <= x) /\ T0 <= ode_t (l_ode st).
Definition down_inv (st : lstate Fld) : Prop :=
  decr (l_T st) /\ (forall x, In x (l_T st) -> ode_t (l_ode st) <= x) /\
  (forall x, In x (l_T st) -> x < T0) /\ ode_t (l_ode st) <= T0.

Lemma incr_removelast l : incr l -> incr (removelast l).
Proof.
  induction l as [|x [|y [|z r]] IH]; intros H; try exact I.
  - cbn. auto.
  - change (removelast (x :: y :: z :: r)) with (x :: removelast (y :: z :: r)).
    destruct H as [Hxy Hr]. specialize (IH Hr).
    change (removelast (y :: z :: r)) with (y :: removelast (z :: r)) in *.
    split; [exact Hxy|exact IH].
Qed.
Lemma rev_removelast (l : list R) : rev (removelast l) = tl (rev l).
Proof.
  destruct (list_eq_dec Req_EM_T l []) as [E|NE]; [subst; reflexivity|].
  rewrite (app_removelast_last 0 NE) at 2. rewrite rev_app_distr. reflexivity.
Qed.
Lemma incr_tl l : incr l -> incr (tl l).
Proof. destruct l as [|x r]; [auto|intros [_ H]; exact H]. Qed.
Lemma decr_removelast l : decr l -> decr (removelast l).
Proof. unfold decr. rewrite rev_removelast. apply incr_tl. Qed.

(** what one execution of the body does to the temperature list and the integrator time *)
Lemma body_T st :
  let r := fst (loop_body X T0 rTol spinodal paranoid st) in
  r = st \/
  exists o1, rk_step X (l_ode st) = Some o1 /\ ode_t (l_ode r) = ode_t o1 /\
    (l_T r = l_T st \/ l_T r = l_T st ++ [ode_t o1] \/
     (l_T st <> [] /\ l_T r = removelast (l_T st) ++ [ode_t o1])).
Proof.
  cbv zeta. destruct (body_cases_lemma st _ eq_refl) as [[_ E]|[o1 [Hs C]]].
  { left. rewrite E. reflexivity. }
  right. exists o1. split; [exact Hs|]. cbv zeta in C. set (s0 := set_l_ode st o1) in *.
  assert (L0 : l_T s0 = l_T st /\ cur_t s0 = ode_t o1) by (destruct st; split; reflexivity).
  destruct L0 as [L0T L0t].
  destruct (seg1_spec s0) as [[T1 [_ [_ [t1 _]]]] _].
  destruct (tables_s3 s0) as [T3 [_ [_ t3]]].
  destruct C as [[_ E]|[_ [[_ E]|[[_ [H5 E]]|[_ [_ E]]]]]]; rewrite E; cbn [fst].
  - split; [change (cur_t (S1 s0) = ode_t o1); congruence|left; congruence].
  - split; [change (cur_t (S3 (S1 s0)) = ode_t o1); congruence|left; congruence].
  - destruct (seg5do_spec (S3 (S1 s0))) as [DT [_ [_ DO]]]. rewrite DO.
    split; [change (cur_t (S3 (S1 s0)) = ode_t o1); congruence|].
    right. right. apply seg5_true in H5. rewrite T3, L0T in H5. split; [exact H5|].
    rewrite DT, T3, L0T, t3, L0t. reflexivity.
  - destruct (seg6_spec (S3 (S1 s0))) as [DT [_ [_ DO]]]. rewrite DO.
    split; [change (cur_t (S3 (S1 s0)) = ode_t o1); congruence|].
    right. left. rewrite DT, T3, L0T, t3, L0t. reflexivity.
Qed.

Lemma body_up st : (forall o o', rk_step X o = Some o' -> ode_t o < ode_t o') ->
  up_inv st -> up_inv (fst (loop_body X T0 rTol spinodal paranoid st)).
Proof.
  intros Hrk [I1 [I2 [I3 I4]]]. destruct (body_T st) as [E|[o1 [Hs [Et HT]]]].
  - rewrite E. repeat split; assumption.
  - specialize (Hrk _ _ Hs). unfold up_inv. rewrite Et.
    destruct HT as [E|[E|[Hne E]]]; rewrite E.
    + repeat split; [exact I1|intros x Hx; specialize (I2 x Hx); lra|exact I3|lra].
    + repeat split.
      * apply incr_snoc; [exact I1|intros y Hy; specialize (I2 y Hy); lra].
      * intros x Hx; apply in_app_or in Hx; destruct Hx as [Hx|[Hx|[]]];
          [specialize (I2 x Hx); lra|subst x; lra].
      * intros x Hx; apply in_app_or in Hx; destruct Hx as [Hx|[Hx|[]]];
          [apply I3; exact Hx|subst x; lra].
      * lra.
    + repeat split.
      * apply incr_snoc; [apply incr_removelast; exact I1
                         |intros y Hy; apply In_removelast in Hy; specialize (I2 y Hy); lra].
      * intros x Hx; apply in_app_or in Hx; destruct Hx as [Hx|[Hx|[]]];
          [apply In_removelast in Hx; specialize (I2 x Hx); lra|subst x; lra].
      * intros x Hx; apply in_app_or in Hx; destruct Hx as [Hx|[Hx|[]]];
          [apply In_removelast in Hx; apply I3; exact Hx|subst x; lra].
      * lra.
Qed.

Lemma body_down st : (forall o o', rk_step X o = Some o' -> ode_t o' < ode_t o) ->
  down_inv st -> down_inv (fst (loop_body X T0 rTol spinodal paranoid st)).
Proof.
  intros Hrk [I1 [I2 [I3 I4]]]. destruct (body_T st) as [E|[o1 [Hs [Et HT]]]].
  - rewrite E. repeat split; assumption.
  - specialize (Hrk _ _ Hs). unfold down_inv. rewrite Et.
    destruct HT as [E|[E|[Hne E]]]; rewrite E.
    + repeat split; [exact I1|intros x Hx; specialize (I2 x Hx); lra|exact I3|lra].
    + repeat split.
      * apply decr_snoc; [exact I1|intros y Hy; specialize (I2 y Hy); lra].
      * intros x Hx; apply in_app_or in Hx; destruct Hx as [Hx|[Hx|[]]];
          [specialize (I2 x Hx); lra|subst x; lra].
      * intros x Hx; apply in_app_or in Hx; destruct Hx as [Hx|[Hx|[]]];
          [apply I3; exact Hx|subst x; lra].
      * lra.
    + repeat split.
      * apply decr_snoc; [apply decr_removelast; exact I1
                         |intros y Hy; apply In_removelast in Hy; specialize (I2 y Hy); lra].
      * intros x Hx; apply in_app_or in Hx; destruct Hx as [Hx|[Hx|[]]];
          [apply In_removelast in Hx; specialize (I2 x Hx); lra|subst x; lra].
      * intros x Hx; apply in_app_or in Hx; destruct Hx as [Hx|[Hx|[]]];
          [apply In_removelast in Hx; apply I3; exact Hx|subst x; lra].
      * lra.
Qed.

Lemma body_nonempty st : l_T st <> [] ->
  l_T (fst (loop_body X T0 rTol spinodal paranoid st)) <> [].
Proof.
  intros Hx. destruct (body_T st) as [E|[o1 [_ [_ [E|[E|[_ E]]]]]]]; rewrite E; try exact Hx.
  all: intros E'; apply app_eq_nil in E'; destruct E' as [_ E']; discriminate.
Qed.
End Loop.

Theorem joined_table_sorted_lemma {Fld Hess : Type} (XU XD : ext Fld Hess) (T0 rTol : R)
    (spinodal paranoid : bool) (fuel1 fuel2 : nat) (oU oD : ode Fld) (phase0 : Fld)
    (potential0 : R) :
  (forall o o', rk_step XU o = Some o' -> ode_t o < ode_t o') ->
  (forall o o', rk_step XD o = Some o' -> ode_t o' < ode_t o) ->
  ode_t oU = T0 -> ode_t oD = T0 ->
  let '(lT, lF, lP) := first_sweep_lists T0 phase0 potential0 in
  let up := trace_dir XU fuel1 T0 rTol spinodal paranoid (mk_lstate oU None lT lF lP) in
  let down := trace_dir XD fuel2 T0 rTol spinodal paranoid (mk_lstate oD (l_pot up) [] [] []) in
  let TFull := if join_cond (l_T down) then join_T (l_T down) (l_T up) else l_T up in
  incr TFull /\ TFull <> [] /\ lmin TFull = hd 0 TFull /\ lmax TFull = last TFull 0 /\
  (forall x, In x (l_T down) -> x < T0) /\ (forall x, In x (l_T up) -> T0 <= x).
Proof.
  intros HU HD EU ED. unfold first_sweep_lists. cbv zeta.
  set (up := trace_dir XU fuel1 T0 rTol spinodal paranoid _).
  set (down := trace_dir XD fuel2 T0 rTol spinodal paranoid _).
  assert (Iu : up_inv T0 up /\ l_T up <> []).
  { unfold up, trace_dir.
    apply (run_while_inv (fun st => up_inv T0 st /\ l_T st <> [])).
    - intros st [A B] _. split; [apply body_up; assumption|apply body_nonempty; exact B].
    - unfold up_inv. cbn [l_T l_ode]. rewrite EU. repeat split; try lra.
      + intros x [Hx|[]]. lra.
      + intros x [Hx|[]]. lra.
      + discriminate. }
  assert (Id : down_inv T0 down).
  { unfold down, trace_dir. apply (run_while_inv (down_inv T0)).
    - intros st A _. apply body_down; assumption.
    - unfold down_inv, decr. cbn [l_T l_ode rev incr]. rewrite ED. repeat split; try lra.
      + intros x [].
      + intros x []. }
  destruct Iu as [[U1 [U2 [U3 U4]]] UNE]. destruct Id as [D1 [D2 [D3 D4]]].
  assert (S : incr (if join_cond (l_T down) then join_T (l_T down) (l_T up) else l_T up)).
  { destruct (join_cond (l_T down)); [|exact U1]. unfold join_T. apply incr_app; [exact D1|exact U1|].
    intros x y Hx Hy. apply in_rev in Hx. specialize (D3 x Hx). specialize (U3 y Hy). lra. }
  assert (NE : (if join_cond (l_T down) then join_T (l_T down) (l_T up) else l_T up) <> []).
  { destruct (join_cond (l_T down)); [|exact UNE]. unfold join_T. intros E.
    apply app_eq_nil in E. destruct E as [_ E]. exact (UNE E). }
  split; [exact S|]. split; [exact NE|].
  destruct (incr_bounds _ S NE) as [B1 B2].
  repeat split; assumption.
Qed.

(** why a sweep ends: out of fuel (model artefact), RK45 no longer running, or the body broke
    for one of the listed reasons *)
Theorem sweep_end_reasons_lemma {Fld Hess : Type} (X : ext Fld Hess) (T0 rTol : R)
    (spinodal paranoid : bool) (fuel : nat) (st0 : lstate Fld) :
  let '(st', why, s0) := run_while_r fuel (fun st => ode_running (l_ode st))
                           (loop_body X T0 rTol spinodal paranoid) st0 in
  st' = trace_dir X fuel T0 rTol spinodal paranoid st0 /\
  match why with
  | EFuel => True
  | ECond => ode_running (l_ode st') = false
  | EBreak =>
      rk_step X (l_ode s0) = None \/
      exists o1, rk_step X (l_ode s0) = Some o1 /\
        let s1 := seg_1 X T0 rTol spinodal paranoid (set_l_ode s0 o1) in
        spinodalEvent X spinodal (cur_t s1) (cur_y s1) <= 0 \/
        let s3 := seg_3 X T0 rTol spinodal paranoid s1 in
        ode_h (l_ode s3) < 1 / 10000000000000000 * T0 \/
        (l_T s3 <> [] /\ cur_t s3 = last (l_T s3) 0)
  end.
Proof.
  pose proof (run_while_r_spec (fun st => ode_running (l_ode st))
                (loop_body X T0 rTol spinodal paranoid) fuel st0) as H.
  destruct (run_while_r fuel _ _ st0) as [[st' why] s0]. destruct H as [E R].
  split; [exact E|]. destruct why; [exact I|exact R|].
  destruct R as [_ Hb]. apply break_reasons_lemma. rewrite Hb. reflexivity.
Qed.

(** the first table entry *)
Lemma lmax_neg l : l <> [] -> lmax l < 0 -> Forall (fun x => x < 0) l.
Proof.
  intros Hne H. destruct (lmax_spec l Hne) as [_ A]. eapply Forall_impl; [|exact A].
  cbn beta. intros; lra.
Qed.
Lemma lmin_le_lmax l : l <> [] -> lmin l <= lmax l.
Proof.
  intros Hne. destruct (lmin_spec l Hne) as [I1 _]. destruct (lmax_spec l Hne) as [_ A].
  rewrite Forall_forall in A. apply A. exact I1.
Qed.

Theorem first_entry_lemma {Fld Hess : Type} (X : ext Fld Hess) (guess : Fld) (T0 rTol : R)
    (o : ode Fld) :
  let '(phase0, potential0) := first_point X guess T0 rTol in
  let '(lT, lF, lP) := first_sweep_lists T0 phase0 potential0 in
  let st0 := mk_lstate o None lT lF lP in
  aligned st0 /\ entries st0 = [(T0, (phase0, Some potential0))] /\
  findLocalMinimum X guess T0 (extraTol_of rTol) = (phase0, potential0) /\
  (first_eigs X phase0 T0 <> [] -> first_assert X phase0 T0 = true ->
     Forall (fun ev => 0 < ev) (first_eigs X phase0 T0) \/
     Forall (fun ev => ev < 0) (first_eigs X phase0 T0)).
Proof.
  unfold first_point. destruct (findLocalMinimum X guess T0 (extraTol_of rTol)) as [p v] eqn:E.
  unfold first_sweep_lists. cbv zeta. split; [split; reflexivity|]. split; [reflexivity|].
  split; [reflexivity|]. unfold first_assert, first_eigs. intros Hne H. apply Rltb_true in H.
  set (l := eigvalsh X (deriv2Field2 X p T0)) in *.
  assert (Hle := lmin_le_lmax l Hne).
  destruct (Rlt_dec 0 (lmin l)) as [Hp|Hn].
  - left. apply lmin_pos_iff; assumption.
  - right. apply lmax_neg; [exact Hne|]. nra.
Qed.

(** the assert before the loops accepts a local maximum (all eigenvalues negative) although
    such a point fails the spinodal test of the loop *)
Theorem first_assert_accepts_maximum_lemma {Fld Hess : Type} (X : ext Fld Hess) p T0 :
  eigvalsh X (deriv2Field2 X p T0) = [-1] ->
  first_assert X p T0 = true /\ spinodalEvent X true T0 p <= 0.
Proof.
  intros H. unfold first_assert, spinodalEvent. rewrite H. cbn [negb lmin lmax]. split.
  - apply Rltb_true. lra.
  - lra.
Qed.

(** the three joined columns stay aligned row by row *)
Lemma combine_app {A B} (a c : list A) (b d : list B) : length a = length b ->
  combine (a ++ c) (b ++ d) = combine a b ++ combine c d.
Proof.
  revert b. induction a as [|x r IH]; intros [|y r2] H; cbn in *; try discriminate; [reflexivity|].
  f_equal. apply IH. lia.
Qed.
Lemma combine_rev {A B} (a : list A) (b : list B) : length a = length b ->
  combine (rev a) (rev b) = rev (combine a b).
Proof.
  revert b. induction a as [|x r IH]; intros [|y r2] H; cbn in *; try discriminate; [reflexivity|].
  rewrite combine_snoc by (rewrite !rev_length; lia). rewrite IH by lia. reflexivity.
Qed.
Theorem joined_entries_lemma {Fld : Type} (dT uT : list R) (dF uF : list Fld)
    (dP uP : list (option R)) :
  length dT = length dF -> length dF = length dP ->
  combine (join_T dT uT) (combine (join_F dF uF) (join_P dP uP)) =
  rev (combine dT (combine dF dP)) ++ combine uT (combine uF uP).
Proof.
  intros H1 H2. unfold join_T, join_F, join_P.
  rewrite (combine_app (rev dF) uF (rev dP) uP) by (rewrite !rev_length; exact H2).
  rewrite combine_app by (rewrite combine_length, !rev_length; lia).
  rewrite (combine_rev dF dP H2), combine_rev by (rewrite combine_length; lia). reflexivity.
Qed.

(* ==================================================================================== *)
(** * The theorems *)

Theorem trace_ode_keeps_critical :
  forall (X : ext R R) (g Hs gT VTT : R -> R -> R) (phi : R -> R) (a b T0 : R),
  (forall p T, allSecondDerivatives X p T = (Hs p T, gT p T, VTT p T)) ->
  (forall h v, h <> 0 -> h * linsolve X h v = v) ->
  (forall v, vneg X v = - v) ->
  (forall T, a <= T <= b -> differentiable_pt_lim g (phi T) T (Hs (phi T) T) (gT (phi T) T)) ->
  (forall T, a <= T <= b -> derivable_pt_lim phi T (odeFunction X T (phi T))) ->
  (forall T, a <= T <= b -> Hs (phi T) T <> 0) ->
  a <= T0 <= b -> g (phi T0) T0 = 0 ->
  forall T, a <= T <= b -> g (phi T) T = 0.
Proof. exact trace_ode_keeps_critical_lemma. Qed.
Print Assumptions trace_ode_keeps_critical.

(** the oracle family of the harness: branches, spinodals, Tc, orientation *)
Theorem closed_form_minima :
  forall D E lam T0, 0 < D -> 0 < E -> 0 < lam -> 0 < T0 -> 9 * E ^ 2 < 8 * lam * D ->
  E ^ 2 < lam * D ->
  forall T, 0 < T ->
  (* the gradient / curvature used below are the derivatives of V *)
  (forall phi, derivable_pt_lim (fun p => qV D E lam T0 p T) phi (qg D E lam T0 phi T)) /\
  (forall phi, derivable_pt_lim (fun p => qg D E lam T0 p T) phi (qH D E lam T0 phi T)) /\
  (* symmetric phase: critical, a minimum exactly above T0 *)
  (qg D E lam T0 0 T = 0 /\ (0 < qH D E lam T0 0 T <-> T0 < T)) /\
  (* broken phase: critical up to T1, a minimum exactly below T1, absent above T1 *)
  (T ^ 2 <= T1sq D E lam T0 ->
     qg D E lam T0 (phi_b D E lam T0 T) T = 0 /\
     (0 < qH D E lam T0 (phi_b D E lam T0 T) T <-> T ^ 2 < T1sq D E lam T0)) /\
  (T1sq D E lam T0 < T ^ 2 -> forall phi, qg D E lam T0 phi T = 0 -> phi = 0) /\
  (* free energies cross at Tc < T1, the broken phase being favoured below Tc *)
  Tcsq D E lam T0 < T1sq D E lam T0 /\
  (T ^ 2 <= T1sq D E lam T0 ->
     (qV D E lam T0 (phi_b D E lam T0 T) T - qV D E lam T0 0 T < 0 <-> T ^ 2 < Tcsq D E lam T0) /\
     (qV D E lam T0 (phi_b D E lam T0 T) T - qV D E lam T0 0 T = 0 <-> T ^ 2 = Tcsq D E lam T0)).
Proof.
  intros D E lam T0 HD HE Hlam HT0 Hbar Hfo T HT.
  split; [intros; apply qg_is_dV|].
  split; [intros; apply qH_is_dg|].
  split; [apply sym_branch; assumption|].
  split; [intros; apply broken_branch; assumption|].
  split; [intros H1 phi; apply no_broken_phase_beyond_spinodal; assumption|].
  split; [apply Tcsq_lt_T1sq; assumption|].
  intros; apply critical_temperature; assumption.
Qed.
Print Assumptions closed_form_minima.

Theorem spinodal_test_is_smallest_eigenvalue :
  forall (Fld Hess : Type) (X : ext Fld Hess), (forall h, eigvalsh X h <> []) ->
  forall T y,
    (0 < spinodalEvent X true T y <->
     Forall (fun ev => 0 < ev) (eigvalsh X (deriv2Field2 X y T))) /\
    spinodalEvent X false T y = 1.
Proof. intros Fld Hess X. exact (spinodal_test_lemma X). Qed.
Print Assumptions spinodal_test_is_smallest_eigenvalue.

Theorem spinodal_test_is_positive_definiteness_2field :
  forall (X : ext (R * R) (R * R * R)),
  (forall a b c, eigvalsh X (a, b, c) = [eig_min2 a b c; eig_max2 a b c]) ->
  forall T y a b c, deriv2Field2 X y T = (a, b, c) ->
    (0 < spinodalEvent X true T y <-> posdef2 a b c).
Proof. exact spinodal_test_2field_lemma. Qed.
Print Assumptions spinodal_test_is_positive_definiteness_2field.

(** testing diagonal entries instead would not do *)
Theorem diagonal_test_refuted : exists a b c, 0 < Rmin a c /\ ~ posdef2 a b c.
Proof. exact diag_min_not_posdef. Qed.
Print Assumptions diagonal_test_refuted.

Theorem range_is_table_minus_margin :
  forall TFull dT TMinReq TMaxReq T0 st,
  let st' := after_trace TFull dT TMinReq TMaxReq T0 st in
  minT st' = lmin TFull + 2 * dT /\ maxT st' = lmax TFull - 2 * dT.
Proof.
  intros. destruct (tail_values TFull dT (clamp_TMin st TMinReq T0) (clamp_TMax st TMaxReq T0)
                      (keep_min st TMinReq) (keep_max st TMaxReq) st) as [A [B _]].
  split; assumption.
Qed.
Print Assumptions range_is_table_minus_margin.

(** an end is flagged after a call exactly when the table stops short of the clamped request
    (the request clamped by the previous range, but never past the start temperature T0), or
    when it had been flagged before and this call was asked to go at least as far as the
    previous end; in particular a narrower re-trace that reaches its request clears the flag *)
Theorem flag_iff_short :
  forall TFull dT TMinReq TMaxReq T0 st,
  let st' := after_trace TFull dT TMinReq TMaxReq T0 st in
  (minFlag st' = true <-> Rmin (Rmax (minT st) TMinReq) T0 < lmin TFull \/
                          (minFlag st = true /\ TMinReq <= minT st)) /\
  (maxFlag st' = true <-> lmax TFull < Rmax (Rmin (maxT st) TMaxReq) T0 \/
                          (maxFlag st = true /\ maxT st <= TMaxReq)) /\
  (minFlag st = false ->
     (minFlag st' = true <-> Rmin (Rmax (minT st) TMinReq) T0 < lmin TFull)) /\
  (maxFlag st = false ->
     (maxFlag st' = true <-> lmax TFull < Rmax (Rmin (maxT st) TMaxReq) T0)) /\
  (* the clamped request always contains the start temperature *)
  Rmin (Rmax (minT st) TMinReq) T0 <= T0 <= Rmax (Rmin (maxT st) TMaxReq) T0.
Proof.
  intros. destruct (tail_values TFull dT (clamp_TMin st TMinReq T0) (clamp_TMax st TMaxReq T0)
                      (keep_min st TMinReq) (keep_max st TMaxReq) st) as [_ [_ [A B]]].
  subst st'. unfold after_trace. rewrite A, B.
  unfold clamp_TMin, clamp_TMax, keep_min, keep_max.
  assert (Emin : forall f x y u v, (Rltb x y || (f && Rleb u v))%bool = true <->
                                    x < y \/ (f = true /\ u <= v)).
  { intros f x y u v. rewrite orb_true_iff, andb_true_iff, Rltb_true, Rleb_true. reflexivity. }
  split; [apply Emin|]. split; [apply Emin|].
  split; [intros Hf; rewrite Hf; cbn [andb]; rewrite orb_false_r; apply Rltb_true|].
  split; [intros Hf; rewrite Hf; cbn [andb]; rewrite orb_false_r; apply Rltb_true|].
  split; [apply Rmin_r|apply Rmax_r].
Qed.
Print Assumptions flag_iff_short.

Theorem table_is_frozen_after_trace : table_frozen_after_trace = true.
Proof. reflexivity. Qed.
Print Assumptions table_is_frozen_after_trace.

Theorem tc_bracket_has_sign_change :
  forall fuel fd TStep TMin TMax, 0 < TStep ->
  let st := tc_loop fuel fd TStep TMin TMax in
  c_conv st = true ->
  let '(lo, hi) := tc_bracket TStep st in
  sgn (fd lo) <> sgn (fd hi) /\ sgn (fd hi) = sgn (fd TMax) /\ TMin < lo /\ hi <= TMax /\
  hi = lo + TStep.
Proof. exact tc_bracket_lemma. Qed.
Print Assumptions tc_bracket_has_sign_change.

Theorem tc_orientation_partial :
  (exists fd, c_conv (tc_loop 1 fd 1 0 2) = true /\ fd 1 < 0 < fd 2) /\
  (exists fd, c_conv (tc_loop 1 fd 1 0 2) = true /\ fd 2 < 0 < fd 1).
Proof. exact tc_orientation_partial_lemma. Qed.
Print Assumptions tc_orientation_partial.

(** every call of tracePhase inside WallGo keeps spinodal detection on, and
    findCriticalTemperature hands its own rTol / paranoid to the parameters of those names;
    no call passes anything positionally beyond (TMin, TMax, dT, rTol) *)
Theorem trace_calls_keep_spinodal_detection :
  trace_param_order = [3; 4; 5]%nat /\
  forallb (fun c => Nat.eqb (src_expr (tc_spinodal c)) X_True && Nat.leb (tc_positional c) 4) trace_calls = true /\
  tc_trace_calls <> [] /\
  forallb (fun c => Nat.eqb (src_expr (tc_paranoid c)) X_caller_paranoid &&
                    Nat.eqb (src_expr (tc_rTol c)) X_caller_rTol) tc_trace_calls = true.
Proof. repeat split; try (vm_compute; reflexivity). vm_compute. discriminate. Qed.
Print Assumptions trace_calls_keep_spinodal_detection.

(** structural facts of the direction loop *)
Theorem sweeps_go_up_then_down :
  first_direction_is_up = true /\ second_direction_is_up = false /\
  (forall (Fld : Type) (T0 : R) (p : Fld) v,
      first_sweep_lists T0 p v = ([T0], [p], [Some v])).
Proof. repeat split. Qed.
Print Assumptions sweeps_go_up_then_down.

(** every entry of the table after a sweep of the stepping loop is an entry the sweep started
    from or was written by the loop (appended, or overwriting the last node when the new
    temperature is within 1e-12 T0 of it), and every entry written by the loop -- for ANY
    behaviour of RK45, BFGS and the finite-difference derivatives -- carries a bound potential
    value, and
    - with re-minimisation at each step (paranoid): it passed the spinodal test AT the
      tabulated field value and its potential is findLocalMinimum's value at that point;
    - without: it passed the test and carries evaluate / findLocalMinimum there, OR it is the
      re-minimisation (tolerance extraTol) of a point that passed the test -- in that last
      case the tabulated point itself is NOT tested (this is the path by which the real
      tracer continues on another phase with paranoid=False; known finding). *)
Theorem tabulated_points_tested_or_reminimised_partial :
  forall (Fld Hess : Type) (X : ext Fld Hess) (T0 rTol : R) (spinodal paranoid : bool)
         (fuel : nat) (st0 : lstate Fld),
  aligned st0 ->
  let st := trace_dir X fuel T0 rTol spinodal paranoid st0 in
  aligned st /\
  Forall (fun e => In e (entries st0) \/ good_entry X T0 rTol spinodal paranoid e) (entries st).
Proof. intros Fld Hess X T0 rTol spinodal paranoid fuel st0. apply sweep_entries. Qed.
Print Assumptions tabulated_points_tested_or_reminimised_partial.

Theorem tabulated_points_pass_spinodal_test :
  forall (Fld Hess : Type) (X : ext Fld Hess) (T0 rTol : R) (spinodal : bool)
         (fuel : nat) (st0 : lstate Fld),
  aligned st0 ->
  let st := trace_dir X fuel T0 rTol spinodal true st0 in
  Forall (fun e => In e (entries st0) \/
            let '(t, (y, p)) := e in
              0 < spinodalEvent X spinodal t y /\
              exists v y0, p = Some v /\ findLocalMinimum X y0 t rTol = (y, v))
         (entries st).
Proof.
  intros Fld Hess X T0 rTol spinodal fuel st0 A.
  destruct (sweep_entries X T0 rTol spinodal true fuel st0 A) as [_ G].
  eapply Forall_impl; [|exact G].
  intros [t [y p]] [Hin|[v [Hp [[_ [Ht [y0 Hf]]]|[[Hf _]|[Hf _]]]]]]; [left; exact Hin| |discriminate|discriminate].
  right. split; [exact Ht|]. exists v, y0. split; assumption.
Qed.
Print Assumptions tabulated_points_pass_spinodal_test.

(** the joined table is strictly increasing in T (so min/max of the table are its first and
    last entries, reached by the downward resp. upward sweep), provided RK45 advances *)
Theorem joined_table_sorted :
  forall (Fld Hess : Type) (XU XD : ext Fld Hess) (T0 rTol : R) (spinodal paranoid : bool)
         (fuel1 fuel2 : nat) (oU oD : ode Fld) (phase0 : Fld) (potential0 : R),
  (forall o o', rk_step XU o = Some o' -> ode_t o < ode_t o') ->
  (forall o o', rk_step XD o = Some o' -> ode_t o' < ode_t o) ->
  ode_t oU = T0 -> ode_t oD = T0 ->
  let '(lT, lF, lP) := first_sweep_lists T0 phase0 potential0 in
  let up := trace_dir XU fuel1 T0 rTol spinodal paranoid (mk_lstate oU None lT lF lP) in
  let down := trace_dir XD fuel2 T0 rTol spinodal paranoid (mk_lstate oD (l_pot up) [] [] []) in
  let TFull := if join_cond (l_T down) then join_T (l_T down) (l_T up) else l_T up in
  incr TFull /\ TFull <> [] /\ lmin TFull = hd 0 TFull /\ lmax TFull = last TFull 0 /\
  (forall x, In x (l_T down) -> x < T0) /\ (forall x, In x (l_T up) -> T0 <= x).
Proof. intros Fld Hess. exact (@joined_table_sorted_lemma Fld Hess). Qed.
Print Assumptions joined_table_sorted.

(** the two-field oracle family: the axis phase (0,b) is a minimum exactly when the curvature
    in the other direction and -2 mub are positive; positive definiteness (hence the spinodal
    temperature) is the same in every rotated field basis *)
Theorem two_field_axis_phase :
  forall mua mub la lb lab b, 0 < lb -> lb * b ^ 2 = - mub ->
  zga mua la lab 0 b = 0 /\ zgb mub lb lab 0 b = 0 /\ zHab lab 0 b = 0 /\
  zHaa mua la lab 0 b = mua - lab * mub / (2 * lb) /\ zHbb mub lb lab 0 b = - 2 * mub /\
  (posdef2 (zHaa mua la lab 0 b) (zHab lab 0 b) (zHbb mub lb lab 0 b) <->
   0 < mua - lab * mub / (2 * lb) /\ 0 < - mub).
Proof. intros. apply z2_phase_B; assumption. Qed.
Print Assumptions two_field_axis_phase.

Theorem positive_definiteness_is_basis_independent :
  forall a b c co si, co ^ 2 + si ^ 2 = 1 ->
  posdef2 (co ^ 2 * a - 2 * co * si * b + si ^ 2 * c)
          (co * si * (a - c) + (co ^ 2 - si ^ 2) * b)
          (si ^ 2 * a + 2 * co * si * b + co ^ 2 * c) <-> posdef2 a b c.
Proof. intros a b c co si H. exact (posdef2_rotation a b c co si H). Qed.
Print Assumptions positive_definiteness_is_basis_independent.

(** structure of the generated loop body; the exhaustive list of reasons for which a sweep
    ends (a new `break` in the source changes [body_shape] and falsifies [break_reasons]) *)
Theorem loop_body_shape : body_shape = [KUpd; KBrk; KUpd; KBrk; KCont; KUpd].
Proof. exact loop_body_shape_lemma. Qed.
Print Assumptions loop_body_shape.

Theorem sweep_end_reasons :
  forall (Fld Hess : Type) (X : ext Fld Hess) (T0 rTol : R) (spinodal paranoid : bool)
         (fuel : nat) (st0 : lstate Fld),
  let '(st', why, s0) := run_while_r fuel (fun st => ode_running (l_ode st))
                           (loop_body X T0 rTol spinodal paranoid) st0 in
  st' = trace_dir X fuel T0 rTol spinodal paranoid st0 /\
  match why with
  | EFuel => True
  | ECond => ode_running (l_ode st') = false
  | EBreak =>
      rk_step X (l_ode s0) = None \/
      exists o1, rk_step X (l_ode s0) = Some o1 /\
        let s1 := seg_1 X T0 rTol spinodal paranoid (set_l_ode s0 o1) in
        spinodalEvent X spinodal (cur_t s1) (cur_y s1) <= 0 \/
        let s3 := seg_3 X T0 rTol spinodal paranoid s1 in
        ode_h (l_ode s3) < 1 / 10000000000000000 * T0 \/
        (l_T s3 <> [] /\ cur_t s3 = last (l_T s3) 0)
  end.
Proof. intros Fld Hess. exact (@sweep_end_reasons_lemma Fld Hess). Qed.
Print Assumptions sweep_end_reasons.

(** entry 0 of the table is findLocalMinimum's output at T0 from the user's guess with
    tolerance extraTol; the assert before the loops only guarantees that all Hessian
    eigenvalues there have the same sign ([first_assert_accepts_maximum]) *)
Theorem first_entry_partial :
  forall (Fld Hess : Type) (X : ext Fld Hess) (guess : Fld) (T0 rTol : R) (o : ode Fld),
  let '(phase0, potential0) := first_point X guess T0 rTol in
  let '(lT, lF, lP) := first_sweep_lists T0 phase0 potential0 in
  let st0 := mk_lstate o None lT lF lP in
  aligned st0 /\ entries st0 = [(T0, (phase0, Some potential0))] /\
  findLocalMinimum X guess T0 (extraTol_of rTol) = (phase0, potential0) /\
  (first_eigs X phase0 T0 <> [] -> first_assert X phase0 T0 = true ->
     Forall (fun ev => 0 < ev) (first_eigs X phase0 T0) \/
     Forall (fun ev => ev < 0) (first_eigs X phase0 T0)).
Proof. intros Fld Hess. exact (@first_entry_lemma Fld Hess). Qed.
Print Assumptions first_entry_partial.

Theorem first_assert_accepts_maximum :
  forall (Fld Hess : Type) (X : ext Fld Hess) p T0,
  eigvalsh X (deriv2Field2 X p T0) = [-1] ->
  first_assert X p T0 = true /\ spinodalEvent X true T0 p <= 0.
Proof. intros Fld Hess. exact (@first_assert_accepts_maximum_lemma Fld Hess). Qed.
Print Assumptions first_assert_accepts_maximum.

(** the joined table, row by row: reversed downward sweep then upward sweep, fields and
    potentials staying attached to their temperatures *)
Theorem joined_entries :
  forall (Fld : Type) (dT uT : list R) (dF uF : list Fld) (dP uP : list (option R)),
  length dT = length dF -> length dF = length dP ->
  combine (join_T dT uT) (combine (join_F dF uF) (join_P dP uP)) =
  rev (combine dT (combine dF dP)) ++ combine uT (combine uF uP).
Proof. intros Fld. exact (@joined_entries_lemma Fld). Qed.
Print Assumptions joined_entries.

(** the assert after the range update: tracePhase refuses ("decrease dT") exactly when the
    table is not longer than the two 2 dT margins (up to the degenerate equality case, where
    the list comparison falls through to the flags) *)
Theorem tail_assert_is_margin_test :
  forall TFull dT st,
  (lmin TFull + 4 * dT < lmax TFull -> tail_assert TFull dT st = true) /\
  (tail_assert TFull dT st = true -> lmin TFull + 4 * dT <= lmax TFull).
Proof.
  intros TFull dT st. unfold tail_assert. destruct st as [a fa b fb].
  cbn [set_minT set_maxT minT maxT minFlag maxFlag]. split.
  - intros H. apply orb_true_iff. left. apply Rltb_true. lra.
  - intros H. apply orb_true_iff in H. destruct H as [H|H].
    + apply Rltb_true in H. lra.
    + apply andb_prop in H. destruct H as [H _]. apply Reqb_true in H. lra.
Qed.
Print Assumptions tail_assert_is_margin_test.

(** the downward sweep is joined exactly when it has at least one node; tracePhase fails
    ("Failed to trace phase") exactly when it is not joined and the upward table has at most
    one node *)
Theorem join_thresholds :
  (forall l : list R, join_cond l = true <-> (1 <= length l)%nat) /\
  (forall l : list R, join_fails l = true <-> (length l <= 1)%nat).
Proof.
  split; intros l; unfold join_cond, join_fails.
  - rewrite Nat.ltb_lt. lia.
  - rewrite Nat.leb_le. lia.
Qed.
Print Assumptions join_thresholds.
