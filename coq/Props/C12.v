(** C12 -- the Boltzmann solution reflects the physics, not the discretisation.

    Every statement is about the model GENERATED on this run from
    src/WallGo/boltzmann.py (BoltzmannSolver.buildLinearEquations, _dfeq),
    equationOfMotion.py (EOM.getBoltzmannFiniteDifference) and collisionArray.py
    (CollisionArray.changeBasis):  module GenC12.Boltz.

    * [source_k e dMsqdChi dTemperaturedChi dvdChi a al be ga] is the entry of the source
      array at particle a and lattice point (al,be,ga); [operator_k e dMsqdChi derivMatrixChi
      derivMatrixRz intertwinerChiMat intertwinerRpMat intertwinerRzMat a al be ga b i j k] the
      entry of the 8-index operator.  The mode dependent arrays (those assigned inside
      `if self.derivatives == "Spectral"`) are arguments, so the statements hold in BOTH
      derivative modes and for ALL four basis combinations.
    * external (fields of [env], arbitrary here): the background profiles, the grid
      coordinates and compactification derivatives, the particle statistics, the collision
      array, collisionMultiplier.  External numerics: np.linalg.solve (hypothesis "left
      inverse"), Polynomial.matrix / derivMatrix / CollisionArray.changeBasis (the three
      per-factor facts of [operator_factorisation_partial], validated by the harness). *)
From Coq Require Import Reals Lra List Bool Arith Lia.
From WG Require Import Lib.NumpySem Lib.BoltzLin.
From GenC12 Require Import Boltz.
Import ListNotations.
Local Open Scope R_scope.

Ltac unfold_model :=
  unfold source_k, operator_k, liouville_k, collision_k, b_source', b_operator', b_operator,
         b_source, b_liouville, b_collision, b_identityParticles.

Section C12.
Variable e : env.

(** ** (1) the source is linear in the three profile derivatives *)
Lemma source_linear_lem dM dT dv dM' dT' dv' c a al be ga :
  source_k e (fun p x => dM p x + c * dM' p x) (fun x => dT x + c * dT' x)
             (fun x => dv x + c * dv' x) a al be ga
  = source_k e dM dT dv a al be ga + c * source_k e dM' dT' dv' a al be ga.
Proof. unfold_model. unfold Rdiv. ring. Qed.

(** ... it only sees the derivatives AT the lattice point (no coupling between points) ... *)
Lemma source_local_lem dM dT dv dM' dT' dv' a al be ga :
  dM a al = dM' a al -> dT al = dT' al -> dv al = dv' al ->
  source_k e dM dT dv a al be ga = source_k e dM' dT' dv' a al be ga.
Proof. intros H1 H2 H3. unfold_model. rewrite H1, H2, H3. reflexivity. Qed.

(** ... hence it vanishes where the background does not vary *)
Lemma source_zero_lem dM dT dv a al be ga :
  dM a al = 0 -> dT al = 0 -> dv al = 0 -> source_k e dM dT dv a al be ga = 0.
Proof. intros H1 H2 H3. unfold_model. rewrite H1, H2, H3. unfold Rdiv. ring. Qed.

(** ** (2) shape of the assembled operator: three tensor products whose prefactors depend
    on the ROW (particle, lattice point) only.  In particular the factored-out T^2 of the
    collision term is the temperature at the grid point al, not at the coefficient index. *)
Definition K1 (a al be ga b : nat) : R :=
  kron a b * (b_dchidxi e al * b_momentumWall e a al be ga).
Definition K2 (dM : nat -> nat -> R) (a al be b : nat) : R :=
  kron a b * (b_dchidxi e al * b_drzdpz e be * (b_gammaWall e / 2) * dM a al).
Definition K3 (al : nat) : R := cmult e * (Tprof e (S al)) ^ 2.

Lemma operator_is_opform dM DChi DRz TChi TRp TRz a al be ga b i j k :
  operator_k e dM DChi DRz TChi TRp TRz a al be ga b i j k
  = opform (K1 a al be ga b) (K2 dM a al be b) (K3 al) TChi TRz TRp DChi DRz
           (fun j k => coll e a be ga b j k) al be ga i j k.
Proof.
  unfold_model. unfold opform, K1, K2, K3, b_temperature. unfold Rdiv. ring.
Qed.

Lemma collision_is_local TChi a al be ga b i j k :
  collision_k e TChi a al be ga b i j k
  = cmult e * (Tprof e (S al)) ^ 2 * TChi al i * coll e a be ga b j k.
Proof. unfold_model. unfold b_temperature. ring. Qed.

End C12.

(** the prefactors do not look at the collision array *)
Lemma K_with_coll c e :
  (forall a al be ga b, K1 (with_coll c e) a al be ga b = K1 e a al be ga b) /\
  (forall dM a al be b, K2 (with_coll c e) dM a al be b = K2 e dM a al be b) /\
  (forall al, K3 (with_coll c e) al = K3 e al).
Proof. repeat split; intros; reflexivity. Qed.

(** operator assembled in the basis (X,Y,Z) [intertwiners X in chi, Y in rz, Z in rp; derivative
    matrices Dc.X and DcZ.Y; collision data transformed along the polynomial axes by Y and Z]
    equals the operator assembled in the cardinal basis [identity intertwiners, cardinal
    derivative matrices Dc, DcZ, cardinal collision data] contracted with X (x) Y (x) Z.
    PARTIAL: that WallGo's matrices satisfy derivMatrix(basis)[1:-1] = derivMatrix(Cardinal)
    [1:-1] . matrix(basis), matrix(Cardinal) = identity, and CollisionArray.changeBasis = tr2
    is a property of polynomial.py / collisionArray.py; it is validated numerically by the
    harness on every run, not proved here. *)
Lemma operator_factorisation_lem (m n : nat) e dM Dc DcZ X Y Z a al be ga b i j k :
  (al < m)%nat -> (be < n)%nat -> (ga < n)%nat ->
  rsum3 m n (fun i' j' k' =>
     operator_k e dM Dc DcZ kron kron kron a al be ga b i' j' k' * (X i' i * Y j' j * Z k' k))
  = operator_k (with_coll (fun a be ga b => tr2 n (coll e a be ga b) Y Z) e)
               dM (mm m Dc X) (mm n DcZ Y) X Z Y a al be ga b i j k.
Proof.
  intros Hal Hbe Hga.
  rewrite operator_is_opform.
  destruct (K_with_coll (fun a be ga b => tr2 n (coll e a be ga b) Y Z) e) as [E1 [E2 E3]].
  rewrite E1, E2, E3. autorewrite with with_coll_db.
  rewrite <- (opform_factor m n) by assumption.
  apply rsum3_ext; intros. rewrite operator_is_opform. reflexivity.
Qed.

(** ** homogeneous background + non-singular operator => no deviation from equilibrium.
    [dec] is ANY enumeration of (particle, lattice point) by the flattened index (the code
    uses C order); the left inverse is what np.linalg.solve needs to exist. *)
Lemma homogeneous_lem e dM dT dv DChi DRz TChi TRp TRz (N : nat)
  (dec : nat -> nat * nat * nat * nat) (Binv : nat -> nat -> R) (x : nat -> R) :
  let A := fun r c => let '(a, al, be, ga) := dec r in let '(b, i, j, k) := dec c in
                      operator_k e dM DChi DRz TChi TRp TRz a al be ga b i j k in
  let s := fun r => let '(a, al, be, ga) := dec r in source_k e dM dT dv a al be ga in
  (forall r c, (r < N)%nat -> (c < N)%nat -> rsum N (fun t => Binv r t * A t c) = kron r c) ->
  (forall r, (r < N)%nat -> mv N A x r = s r) ->
  (forall a al, dM a al = 0) -> (forall al, dT al = 0) -> (forall al, dv al = 0) ->
  forall c, (c < N)%nat -> x c = 0.
Proof.
  intros A s HB Hsol H1 H2 H3.
  apply (left_inverse_zero N A Binv HB).
  intros r Hr. rewrite Hsol by assumption. unfold s.
  destruct (dec r) as [[[a al] be] ga]. apply source_zero_lem; auto.
Qed.

Example left_inverse_satisfiable :
  forall r c, (r < 1)%nat -> (c < 1)%nat -> rsum 1 (fun t => kron r t * kron t c) = kron r c.
Proof. intros r c Hr Hc. assert (r = 0%nat) by lia. assert (c = 0%nat) by lia. subst. cbn. unfold kron; cbn. ring. Qed.

(** ** (2') AST facts: in both derivative modes the three derivatives are derivatives of the
    temperature, velocity and m^2 profiles respectively *)
Lemma derivative_sources_lem :
  forall m t, exists f, In f deriv_facts /\ f_mode f = m /\ f_target f = t /\
                        f_profiles f = [profile_of t] /\ f_deriv f = true.
Proof. apply facts_ok_sound. vm_compute. reflexivity. Qed.

(** ** (4) the finite-difference cross-check works on a deep copy: whatever it does to the
    copy (including the in-place basis change of the copy's CollisionArray), the solver owned
    by the EOM and everything a later spectral solve depends on are unchanged *)
Lemma fd_crosscheck_lem fresh s h :
  fresh <> s_coll s ->
  let w := run fd_copy_kind changeBasis_inplace fd_ops fresh s h in
  owner w = s /\ observable (owner w) (hp w) = observable s h.
Proof. apply fd_safe_sound. vm_compute. reflexivity. Qed.

(* ---------------------------------------------------------------------------------- *)
Theorem source_linear : forall e dM dT dv dM' dT' dv' c a al be ga,
  source_k e (fun p x => dM p x + c * dM' p x) (fun x => dT x + c * dT' x)
             (fun x => dv x + c * dv' x) a al be ga
  = source_k e dM dT dv a al be ga + c * source_k e dM' dT' dv' a al be ga.
Proof. exact source_linear_lem. Qed.
Print Assumptions source_linear.

Theorem source_local : forall e dM dT dv dM' dT' dv' a al be ga,
  dM a al = dM' a al -> dT al = dT' al -> dv al = dv' al ->
  source_k e dM dT dv a al be ga = source_k e dM' dT' dv' a al be ga.
Proof. exact source_local_lem. Qed.
Print Assumptions source_local.

Theorem source_zero_homogeneous : forall e dM dT dv a al be ga,
  dM a al = 0 -> dT al = 0 -> dv al = 0 -> source_k e dM dT dv a al be ga = 0.
Proof. exact source_zero_lem. Qed.
Print Assumptions source_zero_homogeneous.

Theorem collision_temperature_at_grid_point : forall e TChi a al be ga b i j k,
  collision_k e TChi a al be ga b i j k
  = cmult e * (Tprof e (S al)) ^ 2 * TChi al i * coll e a be ga b j k.
Proof. exact collision_is_local. Qed.
Print Assumptions collision_temperature_at_grid_point.

Theorem operator_factorisation_partial : forall (m n : nat) e dM Dc DcZ X Y Z a al be ga b i j k,
  (al < m)%nat -> (be < n)%nat -> (ga < n)%nat ->
  rsum3 m n (fun i' j' k' =>
     operator_k e dM Dc DcZ kron kron kron a al be ga b i' j' k' * (X i' i * Y j' j * Z k' k))
  = operator_k (with_coll (fun a be ga b => tr2 n (coll e a be ga b) Y Z) e)
               dM (mm m Dc X) (mm n DcZ Y) X Z Y a al be ga b i j k.
Proof. exact operator_factorisation_lem. Qed.
Print Assumptions operator_factorisation_partial.

Theorem homogeneous_background_no_deviation :
  forall e dM dT dv DChi DRz TChi TRp TRz (N : nat)
    (dec : nat -> nat * nat * nat * nat) (Binv : nat -> nat -> R) (x : nat -> R),
  let A := fun r c => let '(a, al, be, ga) := dec r in let '(b, i, j, k) := dec c in
                      operator_k e dM DChi DRz TChi TRp TRz a al be ga b i j k in
  let s := fun r => let '(a, al, be, ga) := dec r in source_k e dM dT dv a al be ga in
  (forall r c, (r < N)%nat -> (c < N)%nat -> rsum N (fun t => Binv r t * A t c) = kron r c) ->
  (forall r, (r < N)%nat -> mv N A x r = s r) ->
  (forall a al, dM a al = 0) -> (forall al, dT al = 0) -> (forall al, dv al = 0) ->
  forall c, (c < N)%nat -> x c = 0.
Proof. exact homogeneous_lem. Qed.
Print Assumptions homogeneous_background_no_deviation.

Theorem derivative_sources :
  forall m t, exists f, In f deriv_facts /\ f_mode f = m /\ f_target f = t /\
                        f_profiles f = [profile_of t] /\ f_deriv f = true.
Proof. exact derivative_sources_lem. Qed.
Print Assumptions derivative_sources.

Theorem fd_crosscheck_leaves_solver_unchanged : forall fresh s h,
  fresh <> s_coll s ->
  let w := run fd_copy_kind changeBasis_inplace fd_ops fresh s h in
  owner w = s /\ observable (owner w) (hp w) = observable s h.
Proof. exact fd_crosscheck_lem. Qed.
Print Assumptions fd_crosscheck_leaves_solver_unchanged.

(** ** (3) linear algebra over an arbitrary field, mathcomp matrices *)
From mathcomp Require Import all_ssreflect ssralg matrix.
From WG Require Import Lib.BoltzLinMx.
Local Open Scope ring_scope.

Theorem zero_rhs_zero_solution : forall (F : fieldType) (n : nat) (A : 'M[F]_n) (x : 'cV[F]_n),
  A \in unitmx -> A *m x = 0 -> x = 0.
Proof. exact mx_zero_rhs. Qed.
Print Assumptions zero_rhs_zero_solution.

Theorem basis_change_solution : forall (F : fieldType) (n : nat) (A P : 'M[F]_n) (x b : 'cV[F]_n),
  P \in unitmx -> A *m x = b -> (A *m P) *m (invmx P *m x) = b.
Proof. exact mx_basis_change. Qed.
Print Assumptions basis_change_solution.

Theorem basis_change_unique : forall (F : fieldType) (n : nat) (A P : 'M[F]_n) (x y b : 'cV[F]_n),
  A \in unitmx -> P \in unitmx -> A *m x = b -> (A *m P) *m y = b -> y = invmx P *m x.
Proof. exact mx_basis_change_unique. Qed.
Print Assumptions basis_change_unique.

Theorem same_function_and_moments_in_every_basis :
  forall (F : fieldType) (n : nat) (w : 'rV[F]_n) (A P : 'M[F]_n) (x y b : 'cV[F]_n),
  A \in unitmx -> P \in unitmx -> A *m x = b -> (A *m P) *m y = b -> (w *m P) *m y = w *m x.
Proof. exact mx_same_moments. Qed.
Print Assumptions same_function_and_moments_in_every_basis.
