(** C12 -- the Boltzmann solution reflects the physics, not the discretisation.

    Every statement is about the model GENERATED on this run from
    src/WallGo/boltzmann.py (BoltzmannSolver.buildLinearEquations, _dfeq),
    equationOfMotion.py (EOM.getBoltzmannFiniteDifference) and collisionArray.py
    (CollisionArray.changeBasis):  module GenC12.Boltz.

    * [source_k e dMsqdChi dTemperaturedChi dvdChi a al be ga] is the entry of the source
      array at particle a and lattice point (al,be,ga); [operator_k e dMsqdChi derivMatrixChi
      derivMatrixRz intertwinerChiMat intertwinerRpMat intertwinerRzMat a al be ga b i j k] the
      entry of the 8-index operator.  The mode dependent arrays (those assigned inside
      `if self.derivatives == "Spectral"`) are arguments, so the statements hold in BOTH
      derivative modes and for ALL four basis combinations.
    * external (fields of [env], arbitrary here): the background profiles, the grid
      coordinates and compactification derivatives, the particle statistics, the collision
      array, collisionMultiplier.  External numerics: np.linalg.solve (hypothesis "left
      inverse"), Polynomial.matrix / derivMatrix / CollisionArray.changeBasis (the three
      per-factor facts of [operator_factorisation_partial], validated by the harness). *)
From Coq Require Import Reals Lra List Bool Arith Lia.
Set Warnings "-ambiguous-paths,-notation-overridden,-redundant-canonical-projection".
From Coquelicot Require Import Coquelicot.
From WG Require Import Lib.NumpySem Lib.BoltzLin.
From WG Require Lib.Lagrange Lib.Spectral.
From GenC12 Require Import Boltz.
Import ListNotations.
Local Open Scope R_scope.

Ltac unfold_model :=
  unfold source_k, operator_k, liouville_k, collision_k, b_source', b_operator', b_operator,
         b_source, b_liouville, b_collision, b_identityParticles.

Section C12.
Variable e : env.

(** ** (1) the source is linear in the three profile derivatives *)
Lemma source_linear_lem dM dT dv dM' dT' dv' c a al be ga :
  source_k e (fun p x => dM p x + c * dM' p x) (fun x => dT x + c * dT' x)
             (fun x => dv x + c * dv' x) a al be ga
  = source_k e dM dT dv a al be ga + c * source_k e dM' dT' dv' a al be ga.
Proof. unfold_model. unfold Rdiv. ring. Qed.

(** ... it only sees the derivatives AT the lattice point (no coupling between points) ... *)
Lemma source_local_lem dM dT dv dM' dT' dv' a al be ga :
  dM a al = dM' a al -> dT al = dT' al -> dv al = dv' al ->
  source_k e dM dT dv a al be ga = source_k e dM' dT' dv' a al be ga.
Proof. intros H1 H2 H3. unfold_model. rewrite H1, H2, H3. reflexivity. Qed.

(** ... hence it vanishes where the background does not vary *)
Lemma source_zero_lem dM dT dv a al be ga :
  dM a al = 0 -> dT al = 0 -> dv al = 0 -> source_k e dM dT dv a al be ga = 0.
Proof. intros H1 H2 H3. unfold_model. rewrite H1, H2, H3. unfold Rdiv. ring. Qed.

(** ** (2) shape of the assembled operator: three tensor products whose prefactors depend
    on the ROW (particle, lattice point) only.  In particular the factored-out T^2 of the
    collision term is the temperature at the grid point al, not at the coefficient index. *)
Definition K1 (a al be ga b : nat) : R :=
  kron a b * (b_dchidxi e al * b_momentumWall e a al be ga).
Definition K2 (dM : nat -> nat -> R) (a al be b : nat) : R :=
  kron a b * (b_dchidxi e al * b_drzdpz e be * (b_gammaWall e / 2) * dM a al).
Definition K3 (al : nat) : R := cmult e * (Tprof e (S al)) ^ 2.

Lemma operator_is_opform dM DChi DRz TChi TRp TRz a al be ga b i j k :
  operator_k e dM DChi DRz TChi TRp TRz a al be ga b i j k
  = opform (K1 a al be ga b) (K2 dM a al be b) (K3 al) TChi TRz TRp DChi DRz
           (fun j k => coll e a be ga b j k) al be ga i j k.
Proof.
  unfold_model. unfold opform, K1, K2, K3, b_temperature. unfold Rdiv. ring.
Qed.

Lemma collision_is_local TChi a al be ga b i j k :
  collision_k e TChi a al be ga b i j k
  = cmult e * (Tprof e (S al)) ^ 2 * TChi al i * coll e a be ga b j k.
Proof. unfold_model. unfold b_temperature. ring. Qed.

End C12.

(** ** (1') the source IS minus the Liouville operator applied to the local equilibrium
    distribution  f_eq = 1/(exp(E_pl/T) -+ 1),  E_pl = gamma(v) (E - v pz),  E = sqrt(m^2+pz^2+pp^2):
    for ANY differentiable profiles T, v, m^2 of chi whose values and derivatives at the
    collocation point are the ones the code uses,
        source = - ( K1 * d f_eq/d chi  -  K2 * d f_eq/d pz * dpz/drz ),
    K1, K2 being the coefficients of d/dchi and d/drz in the generated Liouville operator
    ([operator_is_opform]).  This ties every coefficient of the source (and `_dfeq` to `_feq`)
    to the operator on the left-hand side: the linear system is the linearised Boltzmann
    equation  L[f_eq + delta f] = -C[delta f], not merely some linear system. *)
(* the equilibrium distribution without the overflow guard *)
Definition feq_in (s x : R) : R := 1 / (exp x - s).

Lemma dfeq_derivative e s x :
  s * s = 1 -> ~ maxexp e < x -> exp x - s <> 0 ->
  is_derive (feq_in s) x (b__dfeq e x s).
Proof.
  intros Hs Hx Hne. unfold feq_in, b__dfeq.
  destruct (Rlt_dec (maxexp e) x); [contradiction|].
  auto_derive; [assumption|].
  assert (He : exp x <> 0) by (apply Rgt_not_eq, exp_pos).
  rewrite exp_Ropp.
  assert (Hd : exp x - 2 * s + / exp x <> 0).
  { replace (exp x - 2 * s + / exp x) with ((exp x - s) * (exp x - s) / exp x).
    - unfold Rdiv. apply Rmult_integral_contrapositive_currified.
      + apply Rmult_integral_contrapositive_currified; assumption.
      + apply Rinv_neq_0_compat; assumption.
    - field_simplify_eq; [|assumption]. replace (s ^ 2) with (s * s) by ring. rewrite Hs. ring. }
  field_simplify_eq.
  - replace (s ^ 2) with (s * s) by ring. rewrite Hs. ring.
  - repeat split; [assumption| |lra].
    intros H. apply Hd.
    replace (exp x - 2 * s + / exp x) with (((exp x - 2 * s) * exp x + 1) / exp x) by (field; assumption).
    rewrite H. unfold Rdiv. ring.
Qed.



Lemma feq_guard e s x : ~ maxexp e < x -> b__feq e x s = feq_in s x.
Proof. intros H. unfold b__feq, feq_in. destruct (Rlt_dec (maxexp e) x); [contradiction|reflexivity]. Qed.

Section Physics.
Variable e : env.
Variables a al be ga : nat.
Variables T v m2 : R -> R.          (* smooth background profiles, as functions of chi *)
Variable chi0 : R.                  (* the collocation point *)
Variables T' v' m' : R.
Hypothesis HT : is_derive T chi0 T'.
Hypothesis Hv : is_derive v chi0 v'.
Hypothesis Hm : is_derive m2 chi0 m'.
Hypothesis ET : T chi0 = Tprof e (S al).
Hypothesis Ev : v chi0 = vprof e (S al).
Hypothesis Em : m2 chi0 = msqprof e a (S al).
Let pz0 := pzv e be.
Let pp0 := ppv e ga.
Let s := stat e a.
Definition Epl (chi pz : R) : R :=
  (1 / sqrt (1 - v chi ^ 2)) * (sqrt (m2 chi + pz ^ 2 + pp0 ^ 2) - v chi * pz).
Definition xarg (chi pz : R) : R := Epl chi pz / T chi.
Definition Feq (chi pz : R) : R := feq_in s (xarg chi pz).
Hypothesis HT0 : T chi0 <> 0.
Hypothesis Hv0 : 0 < 1 - v chi0 ^ 2.
Hypothesis HE0 : 0 < m2 chi0 + pz0 ^ 2 + pp0 ^ 2.
Hypothesis Hs : s * s = 1.
Hypothesis Hx : ~ maxexp e < xarg chi0 pz0.
Hypothesis Hne : exp (xarg chi0 pz0) - s <> 0.
Hypothesis Hd : dpzdrz e be <> 0.
Let w := sqrt (1 - v chi0 ^ 2).
Let E := sqrt (m2 chi0 + pz0 ^ 2 + pp0 ^ 2).

Lemma w_pos : 0 < w. Proof. apply sqrt_lt_R0; assumption. Qed.
Lemma E_pos : 0 < E. Proof. apply sqrt_lt_R0; assumption. Qed.

Lemma xarg_dchi : is_derive (fun c => xarg c pz0) chi0
  (((v chi0 * v' / (w * w * w)) * (E - v chi0 * pz0) + (1 / w) * (m' / (2 * E) - v' * pz0)) / T chi0
   - (1 / w * (E - v chi0 * pz0)) * T' / (T chi0 * T chi0)).
Proof.
  pose proof w_pos. pose proof E_pos.
  unfold xarg, Epl. auto_derive.
  - repeat split; try (eexists; eassumption); try assumption;
      try (apply Rgt_not_eq, sqrt_lt_R0; assumption).
  - replace (Derive (fun x => T x) chi0) with T' by (symmetry; apply is_derive_unique; exact HT).
    replace (Derive (fun x => v x) chi0) with v' by (symmetry; apply is_derive_unique; exact Hv).
    replace (Derive (fun x => m2 x) chi0) with m' by (symmetry; apply is_derive_unique; exact Hm).
    replace (1 + - (v chi0 * (v chi0 * 1))) with (1 - v chi0 ^ 2) by ring.
    replace (m2 chi0 + pz0 * (pz0 * 1) + pp0 * (pp0 * 1)) with (m2 chi0 + pz0 ^ 2 + pp0 ^ 2) by ring.
    fold w E. field. repeat split; lra.
Qed.

Lemma xarg_dpz : is_derive (fun p => xarg chi0 p) pz0 ((1 / w) * (pz0 / E - v chi0) / T chi0).
Proof.
  pose proof w_pos. pose proof E_pos.
  unfold xarg, Epl. auto_derive.
  - repeat split; try assumption; try (apply Rgt_not_eq, sqrt_lt_R0; assumption).
  - replace (m2 chi0 + pz0 * (pz0 * 1) + pp0 * (pp0 * 1)) with (m2 chi0 + pz0 ^ 2 + pp0 ^ 2) by ring.
    replace (1 - v chi0 * (v chi0 * 1)) with (1 - v chi0 ^ 2) by ring.
    fold w E. field. repeat split; lra.
Qed.

Theorem source_is_minus_liouville_feq dM dT dv DFchi DFpz :
  dM a al = m' -> dT al = T' -> dv al = v' ->
  is_derive (fun c => Feq c pz0) chi0 DFchi ->
  is_derive (fun p => Feq chi0 p) pz0 DFpz ->
  source_k e dM dT dv a al be ga
  = - (K1 e a al be ga a * DFchi - K2 e dM a al be a * (DFpz * dpzdrz e be)).
Proof.
  intros HdM HdT Hdv H1 H2.
  pose proof w_pos as Hw. pose proof E_pos as HE.
  pose proof (dfeq_derivative e s (xarg chi0 pz0) Hs Hx Hne) as Hf.
  assert (D1 : DFchi = b__dfeq e (xarg chi0 pz0) s *
     (((v chi0 * v' / (w * w * w)) * (E - v chi0 * pz0) + (1 / w) * (m' / (2 * E) - v' * pz0)) / T chi0
      - (1 / w * (E - v chi0 * pz0)) * T' / (T chi0 * T chi0))).
  { rewrite <- (is_derive_unique _ _ _ H1). apply is_derive_unique.
    unfold Feq. evar_last.
    - apply (is_derive_comp (feq_in s) (fun c => xarg c pz0)); [exact Hf | exact xarg_dchi].
    - unfold scal; cbn; unfold mult; cbn. ring. }
  assert (D2 : DFpz = b__dfeq e (xarg chi0 pz0) s * ((1 / w) * (pz0 / E - v chi0) / T chi0)).
  { rewrite <- (is_derive_unique _ _ _ H2). apply is_derive_unique.
    unfold Feq. evar_last.
    - apply (is_derive_comp (feq_in s) (fun p => xarg chi0 p)); [exact Hf | exact xarg_dpz].
    - unfold scal; cbn; unfold mult; cbn. ring. }
  assert (Hww : w * w = 1 - v chi0 * v chi0).
  { unfold w. rewrite sqrt_sqrt by lra. ring. }
  pose proof (source_algebra w E (T chi0) (v chi0) pz0 (vwall e) (b_gammaWall e) m' T' v'
                (b__dfeq e (xarg chi0 pz0) s) (b_dchidxi e al) (dpzdrz e be)
                Hww (Rgt_not_eq _ _ Hw) (Rgt_not_eq _ _ HE) HT0 Hd) as A.
  cbv zeta in A.
  rewrite D1, D2. unfold K1, K2. rewrite kron_same.
  unfold source_k, b_source', b_source, b_dfEq, b_momentumWall, b_momentumPlasma, b_energyPlasma,
    b_uwBaruPl, b_gammaPlasma, b_energy, b_temperature, b_v, b_vFull, b_msq, b_msqFull,
    b_statistics, b_pz', b_pz, b_pp', b_pp, b_drzdpz, b_dpzdrz, b_velocityWall.
  rewrite HdM, HdT, Hdv, <- ET, <- Ev, <- Em.
  fold pz0 pp0 s. fold E. fold w.
  change (1 / w * (E - v chi0 * pz0) / T chi0) with (xarg chi0 pz0) in *.
  match type of A with ?l = ?r =>
    transitivity l; [unfold Rdiv; ring | rewrite A; unfold Rdiv; ring] end.
Qed.
End Physics.

(** the hypotheses of [source_is_minus_liouville_feq] are jointly satisfiable by a background
    that VARIES (v(chi) = 3/5 + chi at chi = 0, so v' = 1 and the conclusion is not 0 = 0;
    T = m^2 = 1, a boson at p = 0 in [env_example]) *)
Example physics_hypotheses_satisfiable :
  let e := env_example in
  let T := fun _ : R => 1 in let v := fun c : R => 3 / 5 + c in let m2 := fun _ : R => 1 in
  is_derive T 0 0 /\ is_derive v 0 1 /\ is_derive m2 0 0 /\
  T 0 = Tprof e 1 /\ v 0 = vprof e 1 /\ m2 0 = msqprof e 0 1 /\
  T 0 <> 0 /\ 0 < 1 - v 0 ^ 2 /\ 0 < m2 0 + pzv e 0 ^ 2 + ppv e 0 ^ 2 /\
  stat e 0 * stat e 0 = 1 /\
  ~ maxexp e < xarg e 0 T v m2 0 (pzv e 0) /\
  exp (xarg e 0 T v m2 0 (pzv e 0)) - stat e 0 <> 0 /\
  dpzdrz e 0 <> 0 /\ 0 < 1 - vwall e ^ 2.
Proof.
  cbv zeta.
  assert (X : xarg env_example 0 (fun _ => 1) (fun c => 3 / 5 + c) (fun _ => 1) 0 (pzv env_example 0) = 5 / 4).
  { unfold xarg, Epl, env_example; cbn [ppv pzv].
    replace (1 - (3 / 5 + 0) ^ 2) with ((4 / 5) * (4 / 5)) by field.
    rewrite sqrt_square by lra.
    replace (1 + 0 ^ 2 + 0 ^ 2) with (1 * 1) by ring. rewrite sqrt_square by lra. field. }
  rewrite X.
  unfold env_example; cbn [Tprof vprof msqprof pzv ppv stat maxexp dpzdrz vwall].
  do 3 (split; [auto_derive; [exact I|ring]|]).
  repeat split; try lra.
  pose proof (exp_ineq1 (5 / 4)). lra.
Qed.
(** ... and for this witness the source really is nonzero: -(K1 dF/dchi) with dF/dchi <> 0 is
    what the theorem equates it to; here directly from the generated definition *)
Example physics_witness_source_nonzero :
  source_k env_example (fun _ _ => 0) (fun _ => 0) (fun _ => 1) 0 0 0 0 <> 0.
Proof.
  unfold source_k, b_source', b_source, b_dfEq, b__dfeq, b_momentumWall, b_momentumPlasma,
    b_energyPlasma, b_uwBaruPl, b_gammaPlasma, b_gammaWall, b_energy, b_temperature, b_v, b_vFull,
    b_msq, b_msqFull, b_statistics, b_pz', b_pz, b_pp', b_pp, b_dchidxi, b_dxidchi, b_velocityWall,
    env_example; cbn [Tprof vprof msqprof pzv ppv stat maxexp dxidchi vwall].
  replace (1 + 0 ^ 2 + 0 ^ 2) with (1 * 1) by ring. rewrite sqrt_square by lra.
  replace (1 - (3 / 5) ^ 2) with ((4 / 5) * (4 / 5)) by field. rewrite sqrt_square by lra.
  set (s3 := sqrt (1 - (1 / 2) ^ 2)).
  assert (S3 : 0 < s3) by (apply sqrt_lt_R0; lra).
  set (x := 1 / (4 / 5) * (1 - 3 / 5 * 0) / 1).
  assert (Hx : x = 5 / 4) by (unfold x; field).
  destruct (Rlt_dec 1000 x) as [H|H]; [lra|].
  assert (D : 0 < exp x - 2 * 1 + exp (- x)).
  { assert (H0 : x <> 0) by lra. pose proof (exp_ineq1 x H0). pose proof (exp_pos (- x)). lra. }
  apply Rmult_integral_contrapositive_currified.
  - match goal with |- ?A <> 0 =>
      replace A with (- / (exp x - 2 * 1 + exp (- x))) by (field; lra) end.
    assert (0 < / (exp x - 2 * 1 + exp (- x))) by (apply Rinv_0_lt_compat; lra). lra.
  - match goal with |- ?B <> 0 => replace B with (75 / (128 * s3)) by (field; lra) end.
    apply Rgt_not_eq, Rdiv_lt_0_compat; lra.
Qed.

(** the prefactors do not look at the collision array *)
Lemma K_with_coll c e :
  (forall a al be ga b, K1 (with_coll c e) a al be ga b = K1 e a al be ga b) /\
  (forall dM a al be b, K2 (with_coll c e) dM a al be b = K2 e dM a al be b) /\
  (forall al, K3 (with_coll c e) al = K3 e al).
Proof. repeat split; intros; reflexivity. Qed.

(** operator assembled in the basis (X,Y,Z) [intertwiners X in chi, Y in rz, Z in rp; derivative
    matrices Dc.X and DcZ.Y; collision data transformed along the polynomial axes by Y and Z]
    equals the operator assembled in the cardinal basis [identity intertwiners, cardinal
    derivative matrices Dc, DcZ, cardinal collision data] contracted with X (x) Y (x) Z.
    PARTIAL: that WallGo's matrices satisfy derivMatrix(basis)[1:-1] = derivMatrix(Cardinal)
    [1:-1] . matrix(basis), matrix(Cardinal) = identity, and CollisionArray.changeBasis = tr2
    is a property of polynomial.py / collisionArray.py; it is validated numerically by the
    harness on every run, not proved here. *)
Lemma operator_factorisation_lem (m n : nat) e dM Dc DcZ X Y Z a al be ga b i j k :
  (al < m)%nat -> (be < n)%nat -> (ga < n)%nat ->
  rsum3 m n (fun i' j' k' =>
     operator_k e dM Dc DcZ kron kron kron a al be ga b i' j' k' * (X i' i * Y j' j * Z k' k))
  = operator_k (with_coll (fun a be ga b => tr2 n (coll e a be ga b) Y Z) e)
               dM (mm m Dc X) (mm n DcZ Y) X Z Y a al be ga b i j k.
Proof.
  intros Hal Hbe Hga.
  rewrite operator_is_opform.
  destruct (K_with_coll (fun a be ga b => tr2 n (coll e a be ga b) Y Z) e) as [E1 [E2 E3]].
  rewrite E1, E2, E3. autorewrite with with_coll_db.
  rewrite <- (opform_factor m n) by assumption.
  apply rsum3_ext; intros. rewrite operator_is_opform. reflexivity.
Qed.

(** ** homogeneous background + non-singular operator => no deviation from equilibrium.
    [dec] is ANY enumeration of (particle, lattice point) by the flattened index (the code
    uses C order); the left inverse is what np.linalg.solve needs to exist. *)
Lemma homogeneous_lem e dM dT dv DChi DRz TChi TRp TRz (N : nat)
  (dec : nat -> nat * nat * nat * nat) (Binv : nat -> nat -> R) (x : nat -> R) :
  let A := fun r c => let '(a, al, be, ga) := dec r in let '(b, i, j, k) := dec c in
                      operator_k e dM DChi DRz TChi TRp TRz a al be ga b i j k in
  let s := fun r => let '(a, al, be, ga) := dec r in source_k e dM dT dv a al be ga in
  (forall r c, (r < N)%nat -> (c < N)%nat -> rsum N (fun t => Binv r t * A t c) = kron r c) ->
  (forall r, (r < N)%nat -> mv N A x r = s r) ->
  (forall a al, dM a al = 0) -> (forall al, dT al = 0) -> (forall al, dv al = 0) ->
  forall c, (c < N)%nat -> x c = 0.
Proof.
  intros A s HB Hsol H1 H2 H3.
  apply (left_inverse_zero N A Binv HB).
  intros r Hr. rewrite Hsol by assumption. unfold s.
  destruct (dec r) as [[[a al] be] ga]. apply source_zero_lem; auto.
Qed.

Example left_inverse_satisfiable :
  forall r c, (r < 1)%nat -> (c < 1)%nat -> rsum 1 (fun t => kron r t * kron t c) = kron r c.
Proof. intros r c Hr Hc. assert (r = 0%nat) by lia. assert (c = 0%nat) by lia. subst. cbn. unfold kron; cbn. ring. Qed.

(** ** (2') AST facts: in both derivative modes the three derivatives are derivatives of the
    temperature, velocity and m^2 profiles respectively, taken ALONG CHI (spectral:
    Polynomial(..).derivative(k) with direction[k] = "z"; finite differences: the findiff matrix
    built on chiFull, not the rz one) and cut [1:-1] on the position axis only *)
Lemma derivative_sources_lem :
  forall m t, exists f, In f deriv_facts /\ f_mode f = m /\ f_target f = t /\
                        f_profiles f = [profile_of t] /\ f_deriv f = true /\ f_along_chi f = true.
Proof. apply facts_ok_sound. vm_compute. reflexivity. Qed.

(** ** (4) the finite-difference cross-check works on a deep copy: whatever it does to the
    copy (including the in-place basis change of the copy's CollisionArray), the solver owned
    by the EOM and everything a later spectral solve depends on are unchanged *)
Lemma fd_crosscheck_lem junk fc fb s h :
  fc <> s_coll s -> fb <> s_bg s ->
  let w := run fd_copy_kind deepcopy_structural changeBasis_inplace junk fd_ops fc fb s h in
  owner w = s /\ observable (owner w) (hp w) = observable s h /\
  observable (cpy w) (hp w)
  = fold_left (obs_step changeBasis_inplace) (map snd fd_ops) (observable s h).
Proof. apply fd_safe_sound. vm_compute. reflexivity. Qed.

(** what the copy is, concretely: the owner's problem (same position basis, same background in
    the same frames) in finite-difference mode with Cardinal momentum basis and Cardinal
    collision data *)
Lemma fd_copy_is_fd_solver junk fc fb s h :
  fc <> s_coll s -> fb <> s_bg s ->
  let w := run fd_copy_kind deepcopy_structural changeBasis_inplace junk fd_ops fc fb s h in
  observable (cpy w) (hp w)
  = (FiniteDiff, s_basisM s, Cardinal, Cardinal, h_bg h (s_bg s)).
Proof.
  intros H1 H2. destruct (fd_crosscheck_lem junk fc fb s h H1 H2) as [_ [_ E]].
  cbv zeta. rewrite E. vm_compute. reflexivity.
Qed.

(** ** (5) setBackground stores (and boosts) a copy: the caller's background object is
    unobservably changed, the stored one is in the plasma frame *)
Lemma set_background_lem junk f1 f2 caller h :
  f1 <> bg_vel caller -> f2 <> bg_vel caller ->
  let '(c', s', h') := set_background bg_copy_kind deepcopy_structural junk bg_boost_target
                                      bg_boost_rebinds f1 f2 caller h in
  bg_observable c' h' = bg_observable caller h /\
  bg_observable s' h' = (PlasmaFrame, PlasmaFrame).
Proof. apply bg_safe_sound. vm_compute. reflexivity. Qed.

(** ** (1'') the wall-frame Lorentz factor: gammaWall^2 (1 - vw^2) = 1, and the coefficient of
    d/dchi in the Liouville operator is dchi/dxi * gamma_w (pz - vw E) with E the on-shell energy *)
Lemma gammaWall_lem e : 0 < 1 - vwall e ^ 2 ->
  b_gammaWall e * b_gammaWall e * (1 - vwall e ^ 2) = 1 /\ 0 < b_gammaWall e.
Proof.
  intros H. unfold b_gammaWall, b_velocityWall.
  assert (Hs : 0 < sqrt (1 - vwall e ^ 2)) by (apply sqrt_lt_R0; assumption).
  split.
  - replace (1 - vwall e ^ 2) with (sqrt (1 - vwall e ^ 2) * sqrt (1 - vwall e ^ 2)) at 3
      by (apply sqrt_sqrt; lra).
    field. lra.
  - apply Rdiv_lt_0_compat; lra.
Qed.
Lemma K1_explicit_lem e a al be ga b :
  K1 e a al be ga b
  = kron a b * (1 / dxidchi e al *
      (1 / sqrt (1 - vwall e ^ 2) *
       (pzv e be - vwall e * sqrt (msqprof e a (S al) + pzv e be ^ 2 + ppv e ga ^ 2)))).
Proof.
  unfold K1, b_dchidxi, b_dxidchi, b_momentumWall, b_gammaWall, b_velocityWall, b_energy,
    b_msq, b_msqFull, b_pz', b_pz, b_pp', b_pp. unfold Rdiv. ring.
Qed.
Lemma K2_explicit_lem e dM a al be b :
  K2 e dM a al be b
  = kron a b * (1 / dxidchi e al * (1 / dpzdrz e be) * (1 / sqrt (1 - vwall e ^ 2) / 2) * dM a al).
Proof. unfold K2, b_dchidxi, b_dxidchi, b_drzdpz, b_dpzdrz, b_gammaWall, b_velocityWall. unfold Rdiv. ring. Qed.

(** ** (6) AST facts: solveBoltzmannEquations is build -> np.linalg.solve(operator, source) in
    double precision ([no_downcast]: no astype / dtype / float32 / view construct in build, solve,
    _feq, _dfeq; float64 inputs are checked at run time) -> C-order reshape to the axes
    buildLinearEquations flattened; in getDeltas,
    checkLinearization and estimateTruncationError every use of deltaF goes through a Polynomial
    in the solver's bases converted to one fixed basis, or multiplies an array returned by
    buildLinearEquations (which carries the position intertwiner), and each method converts *)
Lemma solve_facts_lem : solve_ok solve_steps solve_shape build_flat && no_downcast = true.
Proof. vm_compute. reflexivity. Qed.
Lemma deltaF_uses_lem :
  duses_ok deltaF_uses = true /\
  has_poly MgetDeltas deltaF_uses = true /\ has_poly McheckLinearization deltaF_uses = true /\
  has_poly MestimateTruncationError deltaF_uses = true.
Proof. vm_compute. repeat split; reflexivity. Qed.

(** ** (3') BASIS INDEPENDENCE of the solution, composed for the GENERATED operator.
    Index set U4 P m n = (particle, chi, rz, rp).  Ac = operator assembled in the cardinal basis,
    Ab = operator assembled with basis matrices X (chi), Y (rz), Z (rp); the right-hand side is
    the SAME source (source_k takes no basis argument).  If Ac has a left inverse, x solves the
    cardinal system and y the other one, then  x = (X (x) Y (x) Z) y  at every index: y are the
    coefficients, in the new basis, of the function whose grid values are x; and every linear
    functional of the grid values agrees.  (Hypotheses kept: the three per-factor facts built
    into Ab, see operator_factorisation_partial.) *)
Section BasisIndependence.
Variable e : env.
Variables (dM : nat -> nat -> R) (dT dv : nat -> R) (Dc DcZ X Y Z : nat -> nat -> R).
Variables P m n : nat.
Let eb := with_coll (fun a be ga b => tr2 n (coll e a be ga b) Y Z) e.
Definition Acard (r c : idx) : R :=
  operator_k e dM Dc DcZ kron kron kron (p1 r) (p2 r) (p3 r) (p4 r) (p1 c) (p2 c) (p3 c) (p4 c).
Definition Abasis (r c : idx) : R :=
  operator_k eb dM (mm m Dc X) (mm n DcZ Y) X Z Y (p1 r) (p2 r) (p3 r) (p4 r) (p1 c) (p2 c) (p3 c) (p4 c).
Definition Tbasis (c' c : idx) : R :=
  kron (p1 c') (p1 c) * (X (p2 c') (p2 c) * Y (p3 c') (p3 c) * Z (p4 c') (p4 c)).
Definition src (r : idx) : R := source_k e dM dT dv (p1 r) (p2 r) (p3 r) (p4 r).

Lemma Abasis_factor r c : In r (U4 P m n) -> In c (U4 P m n) ->
  Abasis r c = lmm (U4 P m n) Acard Tbasis r c.
Proof.
  intros Hr Hc. apply in_U4 in Hr as (Hr1 & Hr2 & Hr3 & Hr4). apply in_U4 in Hc as (Hc1 & Hc2 & Hc3 & Hc4).
  unfold lmm. rewrite lsum_U4. unfold Acard, Tbasis, Abasis, p1, p2, p3, p4; cbn [fst snd].
  destruct r as [[[a al] be] ga], c as [[[b i] j] k]; cbn [fst snd] in *.
  rewrite (rsum_ext P _ (fun b' => kron b b' *
    rsum3 m n (fun i' j' k' => operator_k e dM Dc DcZ kron kron kron a al be ga b' i' j' k'
                               * (X i' i * Y j' j * Z k' k)))).
  2:{ intros b' _. unfold rsum3. rewrite <- rsum_scal. apply rsum_ext; intros.
      rewrite <- rsum_scal. apply rsum_ext; intros. rewrite <- rsum_scal. apply rsum_ext; intros.
      rewrite (kron_sym b' b). ring. }
  rewrite rsum_kron by assumption.
  symmetry. apply operator_factorisation_lem; assumption.
Qed.

Lemma basis_independence_lem (Binv : idx -> idx -> R) (x y : idx -> R) :
  (forall r c, In r (U4 P m n) -> In c (U4 P m n) ->
     lsum (U4 P m n) (fun t => Binv r t * Acard t c) = dl4 r c) ->
  (forall r, In r (U4 P m n) -> lmv (U4 P m n) Acard x r = src r) ->
  (forall r, In r (U4 P m n) -> lmv (U4 P m n) Abasis y r = src r) ->
  (forall r, In r (U4 P m n) -> x r = lmv (U4 P m n) Tbasis y r) /\
  (forall w, lsum (U4 P m n) (fun r => w r * x r)
             = lsum (U4 P m n) (fun r => w r * lmv (U4 P m n) Tbasis y r)).
Proof.
  intros HB Hx Hy. split.
  - apply (l_basis_change (U4 P m n) dl4 (dl4_sum P m n) Acard Binv HB Abasis Tbasis src x y);
      try assumption. apply Abasis_factor.
  - intros w.
    apply (l_same_functionals (U4 P m n) dl4 (dl4_sum P m n) Acard Binv HB Abasis Tbasis src x y w);
      try assumption. apply Abasis_factor.
Qed.
End BasisIndependence.

(** the hypotheses are jointly satisfiable BY THE GENERATED OPERATOR, for every size: in the
    environment with all leaves 1, delta collision data, no Liouville term (zero derivative
    matrices, zero dm^2/dchi) the operator is the identity on U4 P m n, its own left inverse *)
Example operator_left_inverse_satisfiable (P m n : nat) :
  let e := with_coll (fun a be ga b j k => kron a b * (kron be j * kron ga k)) env_ones in
  let z2 := fun _ _ : nat => 0 in
  (forall r c, Acard e z2 z2 z2 r c = dl4 r c) /\
  (forall r c, In r (U4 P m n) -> In c (U4 P m n) ->
     lsum (U4 P m n) (fun t => dl4 r t * Acard e z2 z2 z2 t c) = dl4 r c).
Proof.
  intros e z2.
  assert (E : forall r c, Acard e z2 z2 z2 r c = dl4 r c).
  { intros r c. unfold Acard. rewrite operator_is_opform. unfold opform, K1, K2, K3, z2, dl4, e.
    autorewrite with with_coll_db. unfold env_ones; cbn [cmult Tprof]. ring. }
  split; [exact E|]. intros r c Hr Hc. rewrite dl4_sum by assumption. apply E.
Qed.

(** ... and by an operator with a NON-TRIVIAL Liouville part: two position points, cardinal
    derivative matrix [[0,1],[0,0]], unit collision term: A = I + k N with k = the generated
    d/dchi coefficient K1 (nonzero), left inverse I - k N *)
Example operator_with_liouville_left_inverse :
  let e := with_coll (fun a be ga b j k => kron a b * (kron be j * kron ga k)) env_example in
  let z2 := fun _ _ : nat => 0 in
  let Dc := fun r c : nat => kron r 0 * kron c 1 in
  let A := Acard e z2 Dc z2 in
  let Binv := fun r c : idx => dl4 r c - (A r c - dl4 r c) in
  A (0, 0, 0, 0)%nat (0, 1, 0, 0)%nat <> 0 /\
  (forall r c, In r (U4 1 2 1) -> In c (U4 1 2 1) ->
     lsum (U4 1 2 1) (fun t => Binv r t * A t c) = dl4 r c).
Proof.
  intros e z2 Dc A Binv.
  assert (E : forall r c, A r c = dl4 r c +
     K1 e (p1 r) (p2 r) (p3 r) (p4 r) (p1 c) * Dc (p2 r) (p2 c) * kron (p3 r) (p3 c) * kron (p4 r) (p4 c)).
  { intros r c. unfold A, Acard. rewrite operator_is_opform. unfold opform, K2, K3, z2, dl4, e.
    autorewrite with with_coll_db. unfold env_example; cbn [cmult Tprof]. ring. }
  split.
  - rewrite E. unfold dl4, Dc, p1, p2, p3, p4, kron; cbn [fst snd Nat.eqb].
    unfold K1, e, b_dchidxi, b_dxidchi, b_momentumWall, b_gammaWall, b_velocityWall, b_energy, b_msq,
      b_msqFull, b_pz', b_pz, b_pp', b_pp, kron; cbn [Nat.eqb].
    autorewrite with with_coll_db. unfold env_example; cbn [dxidchi vwall pzv ppv msqprof].
    replace (1 + 0 ^ 2 + 0 ^ 2) with (1 * 1) by ring. rewrite sqrt_square by lra.
    assert (S3 : 0 < sqrt (1 - (1 / 2) ^ 2)) by (apply sqrt_lt_R0; lra).
    match goal with |- ?B <> 0 =>
      replace B with (- / (2 * sqrt (1 - (1 / 2) ^ 2))) by (field; lra) end.
    assert (0 < / (2 * sqrt (1 - (1 / 2) ^ 2))) by (apply Rinv_0_lt_compat; lra). lra.
  - intros r c Hr Hc. unfold Binv.
    cbn in Hr, Hc.
    destruct Hr as [<-|[<-|[]]]; destruct Hc as [<-|[<-|[]]];
      cbn [U4 flat_map seq map app lsum]; rewrite !E;
      unfold dl4, Dc, p1, p2, p3, p4, kron; cbn [fst snd Nat.eqb]; ring.
Qed.

(** ** (7) a constant profile has zero derivative.  Spectral mode: C16's model of
    Polynomial._cardinalDeriv (Lib/Spectral.v, tied to polynomial.py by the C16 check) applied to
    the grid values of a constant gives 0 at EVERY point of the complete grid; finite
    differences: any matrix whose rows sum to zero (findiff weights: validated) does. *)
Lemma constant_profile_spectral_lem (grid : list R) (c : R) :
  NoDup grid -> grid <> [] ->
  Lagrange.omatvec Lagrange.ROps
    (Spectral.cardinalDeriv Lagrange.ROps Spectral.Dz true grid) (map (fun _ => c) grid)
  = map (fun _ => 0) grid.
Proof.
  intros Hnd Hne.
  apply (Spectral.cardinalDeriv_exact_R Spectral.Dz true grid (fun _ => c) (fun _ => 0)).
  - exact Hnd.
  - apply (Lagrange.is_poly_mono 1); [destruct grid; [contradiction|cbn; lia]|].
    apply Lagrange.is_poly_const.
  - intros g Hg Hn. exfalso. apply Hn. exact Hg.
  - intros x. apply derivable_pt_lim_const.
Qed.

(* ---------------------------------------------------------------------------------- *)
Theorem source_linear : forall e dM dT dv dM' dT' dv' c a al be ga,
  source_k e (fun p x => dM p x + c * dM' p x) (fun x => dT x + c * dT' x)
             (fun x => dv x + c * dv' x) a al be ga
  = source_k e dM dT dv a al be ga + c * source_k e dM' dT' dv' a al be ga.
Proof. exact source_linear_lem. Qed.
Print Assumptions source_linear.

Theorem source_local : forall e dM dT dv dM' dT' dv' a al be ga,
  dM a al = dM' a al -> dT al = dT' al -> dv al = dv' al ->
  source_k e dM dT dv a al be ga = source_k e dM' dT' dv' a al be ga.
Proof. exact source_local_lem. Qed.
Print Assumptions source_local.

Theorem source_zero_homogeneous : forall e dM dT dv a al be ga,
  dM a al = 0 -> dT al = 0 -> dv al = 0 -> source_k e dM dT dv a al be ga = 0.
Proof. exact source_zero_lem. Qed.
Print Assumptions source_zero_homogeneous.

Theorem dfeq_is_derivative_of_feq : forall e s x,
  s * s = 1 -> ~ maxexp e < x -> exp x - s <> 0 ->
  b__feq e x s = feq_in s x /\ is_derive (feq_in s) x (b__dfeq e x s).
Proof. intros. split; [now apply feq_guard | now apply dfeq_derivative]. Qed.
Print Assumptions dfeq_is_derivative_of_feq.

Theorem source_is_minus_liouville_of_equilibrium :
  forall (e : env) (a al be ga : nat) (T v m2 : R -> R) (chi0 T' v' m' : R),
  is_derive T chi0 T' -> is_derive v chi0 v' -> is_derive m2 chi0 m' ->
  T chi0 = Tprof e (S al) -> v chi0 = vprof e (S al) -> m2 chi0 = msqprof e a (S al) ->
  T chi0 <> 0 -> 0 < 1 - v chi0 ^ 2 -> 0 < m2 chi0 + pzv e be ^ 2 + ppv e ga ^ 2 ->
  stat e a * stat e a = 1 ->
  ~ maxexp e < xarg e ga T v m2 chi0 (pzv e be) ->
  exp (xarg e ga T v m2 chi0 (pzv e be)) - stat e a <> 0 ->
  dpzdrz e be <> 0 ->
  forall (dM : nat -> nat -> R) (dT dv : nat -> R) (DFchi DFpz : R),
  dM a al = m' -> dT al = T' -> dv al = v' ->
  is_derive (fun c => Feq e a ga T v m2 c (pzv e be)) chi0 DFchi ->
  is_derive (fun p => Feq e a ga T v m2 chi0 p) (pzv e be) DFpz ->
  source_k e dM dT dv a al be ga
  = - (K1 e a al be ga a * DFchi - K2 e dM a al be a * (DFpz * dpzdrz e be)).
Proof. exact source_is_minus_liouville_feq. Qed.
Print Assumptions source_is_minus_liouville_of_equilibrium.

Theorem collision_temperature_at_grid_point : forall e TChi a al be ga b i j k,
  collision_k e TChi a al be ga b i j k
  = cmult e * (Tprof e (S al)) ^ 2 * TChi al i * coll e a be ga b j k.
Proof. exact collision_is_local. Qed.
Print Assumptions collision_temperature_at_grid_point.

Theorem operator_factorisation_partial : forall (m n : nat) e dM Dc DcZ X Y Z a al be ga b i j k,
  (al < m)%nat -> (be < n)%nat -> (ga < n)%nat ->
  rsum3 m n (fun i' j' k' =>
     operator_k e dM Dc DcZ kron kron kron a al be ga b i' j' k' * (X i' i * Y j' j * Z k' k))
  = operator_k (with_coll (fun a be ga b => tr2 n (coll e a be ga b) Y Z) e)
               dM (mm m Dc X) (mm n DcZ Y) X Z Y a al be ga b i j k.
Proof. exact operator_factorisation_lem. Qed.
Print Assumptions operator_factorisation_partial.

Theorem homogeneous_background_no_deviation :
  forall e dM dT dv DChi DRz TChi TRp TRz (N : nat)
    (dec : nat -> nat * nat * nat * nat) (Binv : nat -> nat -> R) (x : nat -> R),
  let A := fun r c => let '(a, al, be, ga) := dec r in let '(b, i, j, k) := dec c in
                      operator_k e dM DChi DRz TChi TRp TRz a al be ga b i j k in
  let s := fun r => let '(a, al, be, ga) := dec r in source_k e dM dT dv a al be ga in
  (forall r c, (r < N)%nat -> (c < N)%nat -> rsum N (fun t => Binv r t * A t c) = kron r c) ->
  (forall r, (r < N)%nat -> mv N A x r = s r) ->
  (forall a al, dM a al = 0) -> (forall al, dT al = 0) -> (forall al, dv al = 0) ->
  forall c, (c < N)%nat -> x c = 0.
Proof. exact homogeneous_lem. Qed.
Print Assumptions homogeneous_background_no_deviation.

Theorem derivative_sources :
  forall m t, exists f, In f deriv_facts /\ f_mode f = m /\ f_target f = t /\
                        f_profiles f = [profile_of t] /\ f_deriv f = true /\ f_along_chi f = true.
Proof. exact derivative_sources_lem. Qed.
Print Assumptions derivative_sources.

Theorem fd_crosscheck_leaves_solver_unchanged : forall junk fc fb s h,
  fc <> s_coll s -> fb <> s_bg s ->
  let w := run fd_copy_kind deepcopy_structural changeBasis_inplace junk fd_ops fc fb s h in
  owner w = s /\ observable (owner w) (hp w) = observable s h /\
  observable (cpy w) (hp w)
  = fold_left (obs_step changeBasis_inplace) (map snd fd_ops) (observable s h).
Proof. exact fd_crosscheck_lem. Qed.
Print Assumptions fd_crosscheck_leaves_solver_unchanged.

Theorem fd_crosscheck_copy_is_the_fd_solver_of_the_same_problem : forall junk fc fb s h,
  fc <> s_coll s -> fb <> s_bg s ->
  let w := run fd_copy_kind deepcopy_structural changeBasis_inplace junk fd_ops fc fb s h in
  observable (cpy w) (hp w)
  = (FiniteDiff, s_basisM s, Cardinal, Cardinal, h_bg h (s_bg s)).
Proof. exact fd_copy_is_fd_solver. Qed.
Print Assumptions fd_crosscheck_copy_is_the_fd_solver_of_the_same_problem.

Theorem gammaWall_is_lorentz : forall e, 0 < 1 - vwall e ^ 2 ->
  b_gammaWall e * b_gammaWall e * (1 - vwall e ^ 2) = 1 /\ 0 < b_gammaWall e.
Proof. exact gammaWall_lem. Qed.
Print Assumptions gammaWall_is_lorentz.

Theorem liouville_coefficients_explicit : forall e dM a al be ga b,
  K1 e a al be ga b
  = kron a b * (1 / dxidchi e al *
      (1 / sqrt (1 - vwall e ^ 2) *
       (pzv e be - vwall e * sqrt (msqprof e a (S al) + pzv e be ^ 2 + ppv e ga ^ 2)))) /\
  K2 e dM a al be b
  = kron a b * (1 / dxidchi e al * (1 / dpzdrz e be) * (1 / sqrt (1 - vwall e ^ 2) / 2) * dM a al).
Proof. intros. split; [apply K1_explicit_lem|apply K2_explicit_lem]. Qed.
Print Assumptions liouville_coefficients_explicit.

Theorem solve_is_dense_double_solve_in_C_order :
  solve_ok solve_steps solve_shape build_flat && no_downcast = true.
Proof. exact solve_facts_lem. Qed.
Print Assumptions solve_is_dense_double_solve_in_C_order.

Theorem deltaF_only_used_through_its_basis :
  duses_ok deltaF_uses = true /\
  has_poly MgetDeltas deltaF_uses = true /\ has_poly McheckLinearization deltaF_uses = true /\
  has_poly MestimateTruncationError deltaF_uses = true.
Proof. exact deltaF_uses_lem. Qed.
Print Assumptions deltaF_only_used_through_its_basis.

Theorem basis_independence_of_the_solution :
  forall e dM dT dv Dc DcZ X Y Z (P m n : nat) (Binv : idx -> idx -> R) (x y : idx -> R),
  (forall r c, In r (U4 P m n) -> In c (U4 P m n) ->
     lsum (U4 P m n) (fun t => Binv r t * Acard e dM Dc DcZ t c) = dl4 r c) ->
  (forall r, In r (U4 P m n) -> lmv (U4 P m n) (Acard e dM Dc DcZ) x r = src e dM dT dv r) ->
  (forall r, In r (U4 P m n) ->
     lmv (U4 P m n) (Abasis e dM Dc DcZ X Y Z m n) y r = src e dM dT dv r) ->
  (forall r, In r (U4 P m n) -> x r = lmv (U4 P m n) (Tbasis X Y Z) y r) /\
  (forall w, lsum (U4 P m n) (fun r => w r * x r)
             = lsum (U4 P m n) (fun r => w r * lmv (U4 P m n) (Tbasis X Y Z) y r)).
Proof.
  intros e dM dT dv Dc DcZ X Y Z P m n Binv x y HB Hx Hy.
  exact (basis_independence_lem e dM dT dv Dc DcZ X Y Z P m n Binv x y HB Hx Hy).
Qed.
Print Assumptions basis_independence_of_the_solution.

Theorem constant_profile_has_zero_derivative :
  (forall (grid : list R) (c : R), NoDup grid -> grid <> [] ->
     Lagrange.omatvec Lagrange.ROps
       (Spectral.cardinalDeriv Lagrange.ROps Spectral.Dz true grid) (map (fun _ => c) grid)
     = map (fun _ => 0) grid) /\
  (forall n (D : nat -> nat -> R) c i,
     rsum n (fun j => D i j) = 0 -> rsum n (fun j => D i j * c) = 0).
Proof. split; [exact constant_profile_spectral_lem|exact rows_sum_zero_const]. Qed.
Print Assumptions constant_profile_has_zero_derivative.

Theorem set_background_works_on_a_copy : forall junk f1 f2 caller h,
  f1 <> bg_vel caller -> f2 <> bg_vel caller ->
  let '(c', s', h') := set_background bg_copy_kind deepcopy_structural junk bg_boost_target
                                      bg_boost_rebinds f1 f2 caller h in
  bg_observable c' h' = bg_observable caller h /\
  bg_observable s' h' = (PlasmaFrame, PlasmaFrame).
Proof. exact set_background_lem. Qed.
Print Assumptions set_background_works_on_a_copy.

(** ** (3) linear algebra over an arbitrary field, mathcomp matrices *)
From mathcomp Require Import all_ssreflect ssralg matrix.
From WG Require Import Lib.BoltzLinMx.
Local Open Scope ring_scope.

Theorem zero_rhs_zero_solution : forall (F : fieldType) (n : nat) (A : 'M[F]_n) (x : 'cV[F]_n),
  A \in unitmx -> A *m x = 0 -> x = 0.
Proof. exact mx_zero_rhs. Qed.
Print Assumptions zero_rhs_zero_solution.

Theorem basis_change_solution : forall (F : fieldType) (n : nat) (A P : 'M[F]_n) (x b : 'cV[F]_n),
  P \in unitmx -> A *m x = b -> (A *m P) *m (invmx P *m x) = b.
Proof. exact mx_basis_change. Qed.
Print Assumptions basis_change_solution.

Theorem basis_change_unique : forall (F : fieldType) (n : nat) (A P : 'M[F]_n) (x y b : 'cV[F]_n),
  A \in unitmx -> P \in unitmx -> A *m x = b -> (A *m P) *m y = b -> y = invmx P *m x.
Proof. exact mx_basis_change_unique. Qed.
Print Assumptions basis_change_unique.

Theorem same_function_and_moments_in_every_basis :
  forall (F : fieldType) (n : nat) (w : 'rV[F]_n) (A P : 'M[F]_n) (x y b : 'cV[F]_n),
  A \in unitmx -> P \in unitmx -> A *m x = b -> (A *m P) *m y = b -> (w *m P) *m y = w *m x.
Proof. exact mx_same_moments. Qed.
Print Assumptions same_function_and_moments_in_every_basis.
