(** C17 -- grid coordinate maps are monotone bijections with consistent Jacobians; rescaling an
    existing grid equals constructing a new one.

    Every statement is about the model GENERATED on this run from src/WallGo/grid.py and
    src/WallGo/grid3Scales.py (module GenC17.GridGen, tools/gen_grid.py):
      g_*   : class Grid          (compactify, decompactify, compactificationDerivatives, the
                                   cache-managing methods as transformers of [cache g_st]);
      g3_*  : class Grid3Scales   with Python's method resolution (own methods, then Grid's):
                                   _updateParameters (state transformer), term1..term5,
                                   totalMapping, decompactify, compactificationDerivatives, the
                                   INHERITED compactify, and the cache-managing methods.
    The analysis is in Lib/GridMaps.v (closed lemmas, all parameters); here the generated
    definitions are tied to those shapes and the property is stated on them.
    No external numerics are involved in this property: there are no hypotheses about scipy. *)
From Coq Require Import Reals Lra Psatz List.
Set Warnings "-ambiguous-paths".
From Coquelicot Require Import Coquelicot.
From Interval Require Import Tactic.
From WG Require Import Lib.NumpySem Lib.GridMapsCache Lib.GridMaps.
From GenC17 Require Import GridGen.
Import ListNotations.
Local Open Scope R_scope.

(** equality of triples / of real expressions that are the same up to ring normalisation of the
    arithmetic around the (syntactically equal) sqrt / atanh_R / ln / exp atoms *)
Ltac asR' := try match goal with |- ?a = ?b => change (@eq R a b) end.
(** make the arguments of the occurrences of [f] syntactically equal whenever they are equal as
    polynomials / rational expressions (harmless rewritings of the source such as (r-x)**2 for
    (x-r)**2 must not break the tie) *)
Ltac unify_atoms f :=
  repeat match goal with
  | |- context [f ?a] =>
      match goal with
      | |- context [f ?b] =>
          lazymatch a with b => fail | _ => idtac end;
          replace (f a) with (f b) by (apply f_equal; first [ring | (unfold Rdiv; ring) | (field; fail)])
      end
  end.
Ltac req :=
  asR'; first [ reflexivity | ring | (unfold Rdiv; ring) | (field; fail)
              | (unfold Rdiv;
                 repeat (progress (unify_atoms sqrt; unify_atoms Rinv; unify_atoms atanh_R;
                                   unify_atoms ln; unify_atoms exp; unify_atoms tanh;
                                   unify_atoms Rabs));
                 first [reflexivity | ring]) ].
Ltac triple :=
  cbv zeta;
  first [ reflexivity
        | apply (f_equal2 (@pair (R * R) R)); [apply (f_equal2 (@pair R R)) | ]; req ].

Lemma atanh_R_0 : atanh_R 0 = 0.
Proof.
  unfold atanh_R. replace ((1 + 0) / (1 - 0)) with 1 by field.
  rewrite Rabs_R1, ln_1. ring.
Qed.

(* ------------------------------------------------------------------------------------- *)
(** * The simple grid (class Grid) *)
Section Simple.
Variable e : g_env.
Variable s : g_st.
Notation L := (g_positionFalloff s).
Notation T := (g_momentumFalloffT s).
Notation dec := (g_decompactify e s).
Notation com := (g_compactify e s).
Notation jac := (g_compactificationDerivatives e s).

(** tie: the generated point functions are the three scalar maps, component by component *)
Lemma g_dec_shape z pz pp : dec z pz pp = (z_of_chi L z, pz_of_rho T pz, pp_of_rho T pp).
Proof. unfold g_decompactify, z_of_chi, pz_of_rho, pp_of_rho. triple. Qed.
Lemma g_com_shape z pz pp : com z pz pp = (chi_of_z L z, rho_of_pz T pz, rho_of_pp T pp).
Proof. unfold g_compactify, chi_of_z, rho_of_pz, rho_of_pp. triple. Qed.
Lemma g_jac_shape z pz pp : jac z pz pp = (dz_dchi L z, dpz_drho T pz, dpp_drho T pp).
Proof. unfold g_compactificationDerivatives, dz_dchi, dpz_drho, dpp_drho. triple. Qed.

(** each output depends on its own input only (meaning of the array calls in the cache model) *)
Lemma g_separable : separable dec /\ separable com /\ separable jac.
Proof.
  unfold separable, comp1, comp2, comp3. repeat split; intros;
  rewrite ?g_dec_shape, ?g_com_shape, ?g_jac_shape; reflexivity.
Qed.

(** the inverse offered by the object undoes the map, both ways, on the whole domain *)
Lemma simple_inverse_lemma : 0 < L -> T <> 0 ->
  (forall z pz pp, let '(a, b, c) := com z pz pp in dec a b c = (z, pz, pp)) /\
  (forall chi rz rp, -1 < chi < 1 -> -1 < rz < 1 -> rp < 1 ->
     let '(a, b, c) := dec chi rz rp in com a b c = (chi, rz, rp)).
Proof.
  intros HL HT. split.
  - intros z pz pp. rewrite g_com_shape, g_dec_shape.
    rewrite z_chi_inverse, pz_rho_inverse, pp_rho_inverse by assumption. reflexivity.
  - intros chi rz rp H1 H2 H3. rewrite g_dec_shape, g_com_shape.
    rewrite chi_z_inverse, rho_pz_inverse, rho_pp_inverse by assumption. reflexivity.
Qed.

(** compactify lands in the compact domain (so the two maps are bijections between
    R x R x R and (-1,1) x (-1,1) x (-inf,1); p_par >= 0 corresponds to rho_par in [-1,1)) *)
Lemma simple_range_lemma : L <> 0 -> forall z pz pp,
  let '(a, b, c) := com z pz pp in -1 < a < 1 /\ -1 < b < 1 /\ c < 1.
Proof.
  intros HL z pz pp. rewrite g_com_shape. repeat split;
  try apply chi_of_z_range; try apply tanh_range; try apply rho_of_pp_range; assumption.
Qed.

(** the reported Jacobians are the derivatives of the maps *)
Lemma simple_jacobian_lemma :
  (forall chi, -1 < chi < 1 -> derivable_pt_lim (comp1 dec) chi (comp1 jac chi)) /\
  (forall rz, -1 < rz < 1 -> derivable_pt_lim (comp2 dec) rz (comp2 jac rz)) /\
  (forall rp, rp < 1 -> derivable_pt_lim (comp3 dec) rp (comp3 jac rp)).
Proof.
  repeat split; intros x Hx; apply is_derive_Reals; unfold comp1, comp2, comp3;
  rewrite g_jac_shape; cbn [fst snd].
  - apply (is_derive_ext (z_of_chi L)); [intro; rewrite g_dec_shape; reflexivity|].
    apply z_derive; assumption.
  - apply (is_derive_ext (pz_of_rho T)); [intro; rewrite g_dec_shape; reflexivity|].
    apply pz_derive; assumption.
  - apply (is_derive_ext (pp_of_rho T)); [intro; rewrite g_dec_shape; reflexivity|].
    apply pp_derive; assumption.
Qed.

(** strictly increasing in each direction *)
Lemma simple_increasing_lemma : 0 < L -> 0 < T ->
  (forall x y, -1 < x -> x < y -> y < 1 -> comp1 dec x < comp1 dec y) /\
  (forall x y, -1 < x -> x < y -> y < 1 -> comp2 dec x < comp2 dec y) /\
  (forall x y, x < y -> y < 1 -> comp3 dec x < comp3 dec y).
Proof.
  intros HL HT. destruct simple_jacobian_lemma as (J1 & J2 & J3). repeat split.
  - intros x y Hx Hxy Hy.
    apply (incr_of_pos_deriv (comp1 dec) (comp1 jac) (-1) 1); try assumption.
    + intros t Ht. apply is_derive_Reals, J1; assumption.
    + intros t Ht. unfold comp1. rewrite g_jac_shape. cbn [fst snd]. unfold dz_dchi.
      assert (0 < 1 - t^2) by nra. rewrite Rpower_3_2 by assumption.
      apply Rdiv_lt_0_compat; [assumption|]. apply Rmult_lt_0_compat; [assumption|].
      apply sqrt_lt_R0; assumption.
  - intros x y Hx Hxy Hy.
    apply (incr_of_pos_deriv (comp2 dec) (comp2 jac) (-1) 1); try assumption.
    + intros t Ht. apply is_derive_Reals, J2; assumption.
    + intros t Ht. unfold comp2. rewrite g_jac_shape. cbn [fst snd]. unfold dpz_drho.
      apply Rdiv_lt_0_compat; nra.
  - intros x y Hxy Hy.
    apply (incr_of_pos_deriv (comp3 dec) (comp3 jac) (x - 1) 1); try lra.
    + intros t Ht. apply is_derive_Reals, J3; lra.
    + intros t Ht. unfold comp3. rewrite g_jac_shape. cbn [fst snd]. unfold dpp_drho.
      apply Rdiv_lt_0_compat; lra.
Qed.

(** the compact origin (chi, rho_z) = (0,0) and the lower end rho_par = -1 go to (0,0,0) *)
Lemma simple_origin_lemma : dec 0 0 (-1) = (0, 0, 0).
Proof.
  rewrite g_dec_shape. unfold z_of_chi, pz_of_rho, pp_of_rho. rewrite atanh_R_0.
  replace ((1 - -1) / 2) with 1 by field. rewrite ln_1.
  repeat apply f_equal2; unfold Rdiv; ring.
Qed.
End Simple.

(* ------------------------------------------------------------------------------------- *)
(** * The three-scale grid (class Grid3Scales) *)
Section ThreeScale.
Variable e : g3_env.

Notation tI := g3_tailLengthInside.
Notation tO := g3_tailLengthOutside.
Notation LL := g3_wallThickness.
Notation rr := g3_ratioPointsWall.
Notation ss := g3_smoothing.

(** tie: the five generated closures and their sum are [map3], the generated Jacobian is [jac3] *)
Lemma g3_total_shape s x :
  g3_totalMapping e s x = map3 (tI s) (tO s) (LL s) (rr s) (ss s) (g3_aIn s) (g3_aOut s) x.
Proof.
  unfold g3_totalMapping, g3_term1, g3_term2, g3_term3, g3_term4, g3_term5, map3, t1, t2, t3, t4, t5.
  cbv zeta. req.
Qed.

Lemma g3_dec_shape s z pz pp :
  g3_decompactify e s z pz pp =
  (g3_totalMapping e s z - g3_totalMapping e s 0 + g3_wallCenter s,
   pz_of_rho (g3_momentumFalloffT s) pz, pp_of_rho (g3_momentumFalloffT s) pp).
Proof. unfold g3_decompactify, pz_of_rho, pp_of_rho. triple. Qed.

Lemma g3_jac_shape s z pz pp :
  g3_compactificationDerivatives e s z pz pp =
  (jac3 (tI s) (tO s) (LL s) (rr s) (ss s) (g3_aIn s) (g3_aOut s) z,
   dpz_drho (g3_momentumFalloffT s) pz, dpp_drho (g3_momentumFalloffT s) pp).
Proof. unfold g3_compactificationDerivatives, jac3, dpz_drho, dpp_drho. triple. Qed.

(** the inherited compactify, on a Grid3Scales object *)
Lemma g3_com_shape s z pz pp :
  g3_compactify e s z pz pp =
  (chi_of_z (g3_positionFalloff s) z, rho_of_pz (g3_momentumFalloffT s) pz,
   rho_of_pp (g3_momentumFalloffT s) pp).
Proof. unfold g3_compactify, chi_of_z, rho_of_pz, rho_of_pp. triple. Qed.

Lemma g3_separable s : separable (g3_decompactify e s) /\ separable (g3_compactify e s) /\
  separable (g3_compactificationDerivatives e s).
Proof.
  unfold separable, comp1, comp2, comp3. repeat split; intros;
  rewrite ?g3_dec_shape, ?g3_com_shape, ?g3_jac_shape; reflexivity.
Qed.

(** ** the state left by _updateParameters *)
Definition upd (s0 : g3_st) (tIn tOut L r sm c : R) : g3_st :=
  g3__updateParameters e s0 tIn tOut L r sm c.

Lemma upd_fields s0 tIn tOut L r sm c :
  let s := upd s0 tIn tOut L r sm c in
  tI s = tIn /\ tO s = tOut /\ LL s = L /\ rr s = r /\ ss s = sm /\ g3_wallCenter s = c /\
  g3_aIn s = a_of L r sm tIn /\ g3_aOut s = a_of L r sm tOut /\
  g3_positionFalloff s = g3_positionFalloff s0 /\ g3_momentumFalloffT s = g3_momentumFalloffT s0.
Proof.
  destruct s0. unfold upd, g3__updateParameters, a_of. cbn.
  repeat split; first [reflexivity | (apply f_equal2; [apply f_equal|apply f_equal]; ring)].
Qed.

(** the assertions of _updateParameters (generated as a Prop) are exactly [admissible] *)
Lemma pre_admissible tIn tOut L r sm c :
  g3__updateParameters_pre tIn tOut L r sm c <-> admissible tIn tOut L r sm.
Proof. unfold g3__updateParameters_pre, admissible. first [tauto | intuition lra]. Qed.

(** ** Jacobian = derivative of the map: for EVERY parameter state with aIn, aOut, r nonzero *)
Lemma g3_jacobian_lemma s chi : g3_aIn s <> 0 -> g3_aOut s <> 0 -> rr s <> 0 -> -1 < chi < 1 ->
  derivable_pt_lim (comp1 (g3_decompactify e s)) chi
                   (comp1 (g3_compactificationDerivatives e s) chi).
Proof.
  intros HaI HaO Hr Hc. apply is_derive_Reals. unfold comp1. rewrite g3_jac_shape. cbn [fst snd].
  apply (is_derive_ext (fun x => map3 (tI s) (tO s) (LL s) (rr s) (ss s) (g3_aIn s) (g3_aOut s) x
                                 - map3 (tI s) (tO s) (LL s) (rr s) (ss s) (g3_aIn s) (g3_aOut s) 0
                                 + g3_wallCenter s)).
  - intro t. rewrite g3_dec_shape. cbn [fst snd]. rewrite !g3_total_shape. reflexivity.
  - pose proof (map3_derive (tI s) (tO s) (LL s) (rr s) (ss s) (g3_aIn s) (g3_aOut s) HaI HaO Hr chi Hc) as H.
    auto_derive.
    + eexists; exact H.
    + rewrite (is_derive_unique (fun x0 : R => map3 (tI s) (tO s) (LL s) (rr s) (ss s) (g3_aIn s) (g3_aOut s) x0) chi _ H). ring.
Qed.

(** per-term derivatives (argument above 1 / inside (-1,1) is part of the Lib proof) *)
Lemma g3_term_derivs_lemma s x : g3_aIn s <> 0 -> g3_aOut s <> 0 -> rr s <> 0 -> -1 < x < 1 ->
  derivable_pt_lim (g3_term1 e s) x
    ((1 - rr s) * (2 * rr s * tO s - LL s) / rr s / (2 * sqrt ((g3_aOut s)^2 + (x - rr s)^2) * (1 - x))) /\
  derivable_pt_lim (g3_term2 e s) x
    (- (1 + rr s) * (2 * rr s * tO s - LL s) / rr s / (2 * sqrt ((g3_aOut s)^2 + (x - rr s)^2) * (1 + x))) /\
  derivable_pt_lim (g3_term3 e s) x
    ((1 - rr s) * (2 * rr s * tI s - LL s) / rr s / (2 * sqrt ((g3_aIn s)^2 + (x + rr s)^2) * (1 + x))) /\
  derivable_pt_lim (g3_term4 e s) x
    (- (1 + rr s) * (2 * rr s * tI s - LL s) / rr s / (2 * sqrt ((g3_aIn s)^2 + (x + rr s)^2) * (1 - x))) /\
  derivable_pt_lim (g3_term5 e s) x
    ((2 * tI s + 2 * tO s - 4 * ss s * LL s / rr s) / (1 - x^2)).
Proof.
  intros HaI HaO Hr [Hx1 Hx2].
  repeat split; apply is_derive_Reals.
  - apply (is_derive_ext (t1 (tO s) (LL s) (rr s) (g3_aOut s))); [intro; unfold g3_term1, t1; cbv zeta; req |].
    apply t1_derive; assumption.
  - apply (is_derive_ext (t2 (tO s) (LL s) (rr s) (g3_aOut s))); [intro; unfold g3_term2, t2; cbv zeta; req |].
    apply t2_derive; assumption.
  - apply (is_derive_ext (t3 (tI s) (LL s) (rr s) (g3_aIn s))); [intro; unfold g3_term3, t3; cbv zeta; req |].
    apply t3_derive; assumption.
  - apply (is_derive_ext (t4 (tI s) (LL s) (rr s) (g3_aIn s))); [intro; unfold g3_term4, t4; cbv zeta; req |].
    apply t4_derive; assumption.
  - apply (is_derive_ext (t5 (tI s) (tO s) (LL s) (rr s) (ss s))); [intro; unfold g3_term5, t5; cbv zeta; req |].
    apply t5_derive; [assumption | split; assumption].
Qed.

(** chi = 0 goes to the wall centre (every state) *)
Lemma g3_centre_lemma s : comp1 (g3_decompactify e s) 0 = g3_wallCenter s.
Proof. unfold comp1. rewrite g3_dec_shape. cbn [fst snd]. ring. Qed.

(** ** consequences of the parameter assertions of _updateParameters *)
Section Admissible.
Variables (s0 : g3_st) (tIn tOut L r sm c : R).
Hypothesis Hadm : admissible tIn tOut L r sm.
Notation s := (upd s0 tIn tOut L r sm c).

Lemma upd_jac x :
  comp1 (g3_compactificationDerivatives e s) x =
  jac3 tIn tOut L r sm (a_of L r sm tIn) (a_of L r sm tOut) x.
Proof.
  unfold comp1. rewrite g3_jac_shape. cbn [fst snd].
  destruct (upd_fields s0 tIn tOut L r sm c) as (-> & -> & -> & -> & -> & _ & -> & -> & _).
  reflexivity.
Qed.

Lemma upd_nonzero : g3_aIn s <> 0 /\ g3_aOut s <> 0 /\ rr s <> 0.
Proof.
  destruct (upd_fields s0 tIn tOut L r sm c) as (_ & _ & _ & -> & _ & _ & -> & -> & _).
  repeat split; [apply adm_aIn with (tOut := tOut) | apply adm_aOut with (tIn := tIn) | ];
  try assumption. destruct Hadm as (_ & _ & _ & _ & H). lra.
Qed.

(** slope at the centre = wallThickness / ratioPointsWall *)
Lemma g3_slope_centre_lemma : comp1 (g3_compactificationDerivatives e s) 0 = L / r.
Proof. rewrite upd_jac. apply jac3_centre. assumption. Qed.

Lemma g3_jacobian_positive_lemma chi : sm <= 1 -> -1 < chi < 1 ->
  0 < comp1 (g3_compactificationDerivatives e s) chi.
Proof. intros. rewrite upd_jac. apply jac3_pos; assumption. Qed.

Lemma g3_increasing_lemma x y : sm <= 1 -> -1 < x -> x < y -> y < 1 ->
  comp1 (g3_decompactify e s) x < comp1 (g3_decompactify e s) y.
Proof.
  intros Hsm Hx Hxy Hy. destruct upd_nonzero as (N1 & N2 & N3).
  apply (incr_of_pos_deriv (comp1 (g3_decompactify e s))
           (comp1 (g3_compactificationDerivatives e s)) (-1) 1); try assumption.
  - intros t Ht. apply is_derive_Reals, g3_jacobian_lemma; assumption.
  - intros t Ht. apply g3_jacobian_positive_lemma; assumption.
Qed.
End Admissible.

(** ** momentum directions of a Grid3Scales object (its own decompactify / Jacobian lines and the
    inherited compactify): inverses, Jacobians, monotonicity *)
Lemma g3_momentum_lemma s : 0 < g3_momentumFalloffT s ->
  (forall pz pp, comp2 (g3_decompactify e s) (comp2 (g3_compactify e s) pz) = pz /\
                 comp3 (g3_decompactify e s) (comp3 (g3_compactify e s) pp) = pp) /\
  (forall rz rp, -1 < rz < 1 -> rp < 1 ->
     comp2 (g3_compactify e s) (comp2 (g3_decompactify e s) rz) = rz /\
     comp3 (g3_compactify e s) (comp3 (g3_decompactify e s) rp) = rp) /\
  (forall rz, -1 < rz < 1 -> derivable_pt_lim (comp2 (g3_decompactify e s)) rz
                               (comp2 (g3_compactificationDerivatives e s) rz)) /\
  (forall rp, rp < 1 -> derivable_pt_lim (comp3 (g3_decompactify e s)) rp
                               (comp3 (g3_compactificationDerivatives e s) rp)) /\
  (forall x y, -1 < x -> x < y -> y < 1 ->
     comp2 (g3_decompactify e s) x < comp2 (g3_decompactify e s) y) /\
  (forall x y, x < y -> y < 1 -> comp3 (g3_decompactify e s) x < comp3 (g3_decompactify e s) y).
Proof.
  intro HT. assert (HT' : g3_momentumFalloffT s <> 0) by lra.
  assert (J2 : forall rz, -1 < rz < 1 -> is_derive (comp2 (g3_decompactify e s)) rz
                               (comp2 (g3_compactificationDerivatives e s) rz)).
  { intros x Hx. unfold comp2. rewrite g3_jac_shape. cbn [fst snd].
    apply (is_derive_ext (pz_of_rho (g3_momentumFalloffT s))); [intro; rewrite g3_dec_shape; reflexivity|].
    apply pz_derive; assumption. }
  assert (J3 : forall rp, rp < 1 -> is_derive (comp3 (g3_decompactify e s)) rp
                               (comp3 (g3_compactificationDerivatives e s) rp)).
  { intros x Hx. unfold comp3. rewrite g3_jac_shape. cbn [fst snd].
    apply (is_derive_ext (pp_of_rho (g3_momentumFalloffT s))); [intro; rewrite g3_dec_shape; reflexivity|].
    apply pp_derive; assumption. }
  repeat split.
  - unfold comp2. rewrite g3_com_shape, g3_dec_shape. cbn [fst snd]. apply pz_rho_inverse; assumption.
  - unfold comp3. rewrite g3_com_shape, g3_dec_shape. cbn [fst snd]. apply pp_rho_inverse; assumption.
  - unfold comp2. rewrite g3_dec_shape, g3_com_shape. cbn [fst snd]. apply rho_pz_inverse; assumption.
  - unfold comp3. rewrite g3_dec_shape, g3_com_shape. cbn [fst snd]. apply rho_pp_inverse; assumption.
  - intros. apply is_derive_Reals, J2; assumption.
  - intros. apply is_derive_Reals, J3; assumption.
  - intros x y Hx Hxy Hy.
    apply (incr_of_pos_deriv _ (comp2 (g3_compactificationDerivatives e s)) (-1) 1); try assumption.
    intros t Ht. unfold comp2. rewrite g3_jac_shape. cbn [fst snd]. unfold dpz_drho.
    apply Rdiv_lt_0_compat; nra.
  - intros x y Hxy Hy.
    apply (incr_of_pos_deriv _ (comp3 (g3_compactificationDerivatives e s)) (x - 1) 1); try lra.
    + intros t Ht. apply J3; lra.
    + intros t Ht. unfold comp3. rewrite g3_jac_shape. cbn [fst snd]. unfold dpp_drho.
      apply Rdiv_lt_0_compat; lra.
Qed.
End ThreeScale.

(* ------------------------------------------------------------------------------------- *)
(** * Rescaling an existing grid vs constructing a new one
    The cache-managing methods (__init__, _cacheCoordinates, changePositionFalloffScale,
    changeMomentumFalloffScale) are generated as transformers of [cache st]; a grid object is
    its parameter record + the three compact arrays (arbitrary lists) + six cached arrays. *)

(** ** class Grid *)
Section SimpleOps.
Variable e : g_env.
Inductive gop := GPos (newScale : R) | GMom (newScale : R).
Definition gstep (c : cache g_st) (o : gop) : cache g_st :=
  match o with
  | GPos x => g_changePositionFalloffScale e c x
  | GMom x => g_changeMomentumFalloffScale e c x
  end.
(** constructor arguments a fresh grid would need to be in the same place *)
Definition gnext (a : R * R) (o : gop) : R * R :=
  match o with GPos x => (x, snd a) | GMom x => (fst a, x) end.

Lemma g_cache_is_recache c :
  g__cacheCoordinates e c = recache (g_decompactify e) (g_compactificationDerivatives e) (params c) c.
Proof. destruct c. reflexivity. Qed.

Definition gnew (c0 : cache g_st) (a : R * R) := g_init e c0 (fst a) (snd a).

Lemma gstep_new c0 a o : gstep (gnew c0 a) o = gnew c0 (gnext a o).
Proof.
  destruct c0 as [p chi rz rp xi pz pp d1 d2 d3], p, a as [x y], o; reflexivity.
Qed.

(** after ANY sequence of rescaling calls the object equals (every attribute of the model:
    parameters, compact arrays, all six cached arrays) a freshly constructed grid with the
    final scales; the prior content [c0'] of the fresh object is irrelevant *)
Lemma simple_rescale_equals_new_lemma c0 c0' a ops :
  chiValues c0 = chiValues c0' -> rzValues c0 = rzValues c0' -> rpValues c0 = rpValues c0' ->
  fold_left gstep ops (gnew c0 a) = gnew c0' (fold_left gnext ops a).
Proof.
  intros E1 E2 E3. revert a. induction ops as [|o ops IH]; intro a; cbn [fold_left].
  - destruct c0 as [p chi rz rp xi pz pp d1 d2 d3], c0' as [p' chi' rz' rp' xi' pz' pp' d1' d2' d3'], p, p'.
    cbn in E1, E2, E3. subst. reflexivity.
  - rewrite gstep_new. apply IH.
Qed.
End SimpleOps.

(** ** class Grid3Scales *)
Section ThreeScaleOps.
Variable e : g3_env.
Notation dec := (g3_decompactify e).
Notation jac := (g3_compactificationDerivatives e).

Inductive op :=
| ChangePos (tailLengthInside tailLengthOutside wallThickness wallCenter : R)
| ChangeMom (newScale : R).
Definition step (c : cache g3_st) (o : op) : cache g3_st :=
  match o with
  | ChangePos a b l w => g3_changePositionFalloffScale e c a b l w
  | ChangeMom x => g3_changeMomentumFalloffScale e c x
  end.
Definition run (c : cache g3_st) (ops : list op) := fold_left step ops c.

(** constructor arguments (tailIn, tailOut, L, T, ratio, smoothing, centre) *)
Record args := mk_args { a_tIn : R; a_tOut : R; a_L : R; a_T : R; a_r : R; a_sm : R; a_c : R }.
Definition next (a : args) (o : op) : args :=
  match o with
  | ChangePos ti to l w => mk_args ti to l (a_T a) (a_r a) (a_sm a) w
  | ChangeMom x => mk_args (a_tIn a) (a_tOut a) (a_L a) x (a_r a) (a_sm a) (a_c a)
  end.
Definition new (c0 : cache g3_st) (a : args) : cache g3_st :=
  g3_init e c0 (a_tIn a) (a_tOut a) (a_L a) (a_T a) (a_r a) (a_sm a) (a_c a).

(** everything the maps depend on: all parameters except positionFalloff *)
Definition core (p : g3_st) :=
  (g3_tailLengthInside p, g3_tailLengthOutside p, g3_wallThickness p, g3_ratioPointsWall p,
   g3_smoothing p, g3_wallCenter p, g3_aIn p, g3_aOut p, g3_momentumFalloffT p).

Lemma dec_core p q x y z : core p = core q -> dec p x y z = dec q x y z.
Proof.
  destruct p, q. unfold core. cbn. intros [= -> -> -> -> -> -> -> -> ->]. reflexivity.
Qed.
Lemma jac_core p q x y z : core p = core q -> jac p x y z = jac q x y z.
Proof.
  destruct p, q. unfold core. cbn. intros [= -> -> -> -> -> -> -> -> ->]. reflexivity.
Qed.

Lemma g3_cache_is_recache c : g3__cacheCoordinates e c = recache dec jac (params c) c.
Proof. destruct c. reflexivity. Qed.

(** the invariant: the cached arrays are those of the current parameters, and the current
    parameters are (except positionFalloff) those a constructor call with [a] produces *)
Definition inv (c : cache g3_st) (a : args) : Prop :=
  coherent dec jac c /\ forall c0, core (params c) = core (params (new c0 a)).

Lemma new_inv c0 a : inv (new c0 a) a.
Proof.
  split.
  - unfold new, g3_init, g3_base_init. rewrite g3_cache_is_recache. apply recache_coherent.
  - intro c1. destruct c0 as [p ? ? ? ? ? ? ? ? ?], c1 as [p1 ? ? ? ? ? ? ? ? ?], p, p1, a. reflexivity.
Qed.

Lemma step_inv c a o : inv c a -> inv (step c o) (next a o).
Proof.
  intros [Hc Hp]. split.
  - destruct o; unfold step, g3_changePositionFalloffScale, g3_changeMomentumFalloffScale;
      rewrite g3_cache_is_recache; apply recache_coherent.
  - intro c1. specialize (Hp c1). revert Hp.
    destruct c as [p ? ? ? ? ? ? ? ? ?], c1 as [p1 ? ? ? ? ? ? ? ? ?], p, p1, a, o;
    unfold core; cbn; intros [= -> -> -> -> -> -> -> -> ->]; reflexivity.
Qed.

Lemma step_compact c o : same_compact (step c o) c.
Proof. destruct c, o; repeat split. Qed.
Lemma new_compact c0 a : same_compact (new c0 a) c0.
Proof. destruct c0; repeat split. Qed.

Lemma run_inv ops : forall c a, inv c a -> inv (run c ops) (fold_left next ops a) /\
                                          same_compact (run c ops) c.
Proof.
  induction ops as [|o ops IH]; intros c a H; cbn [run fold_left].
  - split; [assumption | repeat split].
  - destruct (IH (step c o) (next a o) (step_inv c a o H)) as [H1 (S1 & S2 & S3)].
    split; [exact H1|]. destruct (step_compact c o) as (T1 & T2 & T3).
    unfold run in *. repeat split; congruence.
Qed.

(** after ANY sequence of rescaling calls: same compact arrays, same six cached arrays, same
    parameters except positionFalloff, as a freshly constructed grid with the final scales *)
Lemma rescale_equals_new_lemma c0 c0' a ops : same_compact c0 c0' ->
  let c1 := run (new c0 a) ops in
  let c2 := new c0' (fold_left next ops a) in
  same_compact c1 c2 /\ same_arrays c1 c2 /\ core (params c1) = core (params c2).
Proof.
  intros (E1 & E2 & E3) c1 c2.
  destruct (run_inv ops (new c0 a) a (new_inv c0 a)) as [[Hc Hp] (S1 & S2 & S3)].
  destruct (new_compact c0 a) as (N1 & N2 & N3).
  destruct (new_compact c0' (fold_left next ops a)) as (M1 & M2 & M3).
  destruct (new_inv c0' (fold_left next ops a)) as [Hc2 _].
  assert (SC : same_compact c1 c2) by (unfold c1, c2; repeat split; congruence).
  assert (CO : core (params c1) = core (params c2)) by apply Hp.
  split; [exact SC|]. split; [|exact CO].
  apply (coherent_same_arrays dec jac); try assumption.
  - intros; apply dec_core; exact CO.
  - intros; apply jac_core; exact CO.
Qed.

(** positionFalloff is written by the constructor only *)
Lemma positionFalloff_frame c o :
  g3_positionFalloff (params (step c o)) = g3_positionFalloff (params c).
Proof. destruct c as [p ? ? ? ? ? ? ? ? ?], p, o; reflexivity. Qed.
Lemma positionFalloff_new c0 a : g3_positionFalloff (params (new c0 a)) = a_L a.
Proof. destruct c0 as [p ? ? ? ? ? ? ? ? ?], p, a; reflexivity. Qed.

(** REFUTED (known finding g3-positionFalloff-stale): a rescaled Grid3Scales differs from a new
    one in the attribute positionFalloff *)
Lemma g3_positionFalloff_stale_witness : exists c0 a ops,
  g3_positionFalloff (params (run (new c0 a) ops)) <>
  g3_positionFalloff (params (new c0 (fold_left next ops a))).
Proof.
  exists (mk_cache (mk_g3_st 0 0 0 0 0 0 0 0 0 0) [] [] [] [] [] [] [] [] []),
         (mk_args 5 5 1 1 (1/2) (1/10) 0), [ChangePos 5 5 2 0].
  unfold run. cbn [fold_left]. rewrite positionFalloff_frame, !positionFalloff_new.
  cbn. lra.
Qed.

(** REFUTED (known finding g3-compactify-not-inverse): the inverse map a Grid3Scales object
    offers (inherited Grid.compactify, with positionFalloff = wallThickness) does not undo its
    decompactify: tails 2, thickness 1, ratio 1/2, smoothing 1/4, chi = 2/5 comes back above 1/2 *)
Lemma g3_compactify_witness : exists c0 a chi,
  admissible (a_tIn a) (a_tOut a) (a_L a) (a_r a) (a_sm a) /\ -1 < chi < 1 /\
  let p := params (new c0 a) in
  comp1 (g3_compactify e p) (comp1 (dec p) chi) > 1/2 /\ chi < 1/2.
Proof.
  exists (mk_cache (mk_g3_st 0 0 0 0 0 0 0 0 0 0) [] [] [] [] [] [] [] [] []),
         (mk_args 2 2 1 1 (1/2) (1/4) 0), (2/5).
  split; [unfold admissible; cbn; lra|]. split; [lra|]. split; [|lra].
  unfold comp1, g3_compactify, g3_decompactify, g3_totalMapping, g3_term1, g3_term2, g3_term3,
    g3_term4, g3_term5, atanh_R. cbn -[sqrt Rabs ln pow].
  match goal with |- context [sqrt ?u / Rabs ?v] => set (aI := sqrt u / Rabs v) end.
  assert (HaI : 866 / 1000 <= aI <= 867 / 1000) by (unfold aI; split; interval with (i_prec 40)).
  clearbody aI. interval with (i_prec 40).
Qed.
End ThreeScaleOps.

(** The hypothesis smoothing <= 1 of the positivity / monotonicity theorems cannot be dropped: the
    assertions of _updateParameters admit smoothing > 1 (the docstring only says it "should be
    smaller than 1"), and then the generated Jacobian can be negative: tails 13/2 and 60,
    thickness 1, ratio 1/2, smoothing 5/2, chi = -1/2. *)
Lemma g3_large_smoothing_witness (e : g3_env) : exists s0 tIn tOut L r sm c chi,
  admissible tIn tOut L r sm /\ 1 < sm /\ -1 < chi < 1 /\
  comp1 (g3_compactificationDerivatives e (upd e s0 tIn tOut L r sm c)) chi < 0.
Proof.
  exists (mk_g3_st 0 0 0 0 0 0 0 0 0 0), (13/2), 60, 1, (1/2), (5/2), 0, (-1/2).
  split; [unfold admissible; lra|]. split; [lra|]. split; [lra|].
  rewrite upd_jac. unfold jac3, a_of. interval with (i_prec 40).
Qed.

(** the hypotheses are satisfiable (the default shape built by WallGoManager) *)
Example admissible_example : admissible 5 5 1 (1/2) (1/10) /\ (1/10 <= 1).
Proof. unfold admissible. lra. Qed.

(* ------------------------------------------------------------------------------------- *)
(** * Error exits: _updateParameters and its callers translated WITH their assertions, in
    program order ([*_x] : state at return or at the raise, completed?) *)
Section ErrorExits.
Variable e : g3_env.
Notation pre := g3__updateParameters_pre.

Lemma upd_x_spec s tIn tOut L r sm c :
  (pre tIn tOut L r sm c ->
     g3__updateParameters_x e s tIn tOut L r sm c =
     (g3__updateParameters e s tIn tOut L r sm c, true)) /\
  (~ pre tIn tOut L r sm c -> g3__updateParameters_x e s tIn tOut L r sm c = (s, false)).
Proof.
  unfold g3__updateParameters_x, g3__updateParameters_pre, g3__updateParameters.
  split; intro H;
  repeat match goal with
         | |- context [Rlt_dec ?a ?b] => destruct (Rlt_dec a b)
         | |- context [Rle_dec ?a ?b] => destruct (Rle_dec a b)
         end;
  cbv beta iota zeta; cbn [negb andb orb]; try reflexivity; exfalso; unfold Rgt, Rge in *;
  first [tauto | (apply H; repeat split; lra) | (decompose [and] H; lra)].
Qed.

Lemma upd_params_id (c : cache g3_st) : upd_params (fun _ => params c) c = c.
Proof. destruct c; reflexivity. Qed.

Lemma changePos_x_spec c tIn tOut L w :
  (pre tIn tOut L (g3_ratioPointsWall (params c)) (g3_smoothing (params c)) w ->
     g3_changePositionFalloffScale_x e c tIn tOut L w =
     (g3_changePositionFalloffScale e c tIn tOut L w, true)) /\
  (~ pre tIn tOut L (g3_ratioPointsWall (params c)) (g3_smoothing (params c)) w ->
     g3_changePositionFalloffScale_x e c tIn tOut L w = (c, false)).
Proof.
  destruct (upd_x_spec (params c) tIn tOut L (g3_ratioPointsWall (params c))
              (g3_smoothing (params c)) w) as [A B].
  unfold g3_changePositionFalloffScale_x, g3_changePositionFalloffScale.
  split; intro H.
  - rewrite (A H). cbv beta iota zeta. cbn [fst snd]. reflexivity.
  - rewrite (B H). cbv beta iota zeta. cbn [fst snd]. rewrite upd_params_id. reflexivity.
Qed.

Lemma init_x_spec c0 tIn tOut L T r sm w :
  (pre tIn tOut L r sm w ->
     g3_init_x e c0 tIn tOut L T r sm w true = (g3_init e c0 tIn tOut L T r sm w, true)) /\
  (~ pre tIn tOut L r sm w -> forall b, g3_init_x e c0 tIn tOut L T r sm w b = (c0, false)) /\
  snd (g3_init_x e c0 tIn tOut L T r sm w false) = false.
Proof.
  destruct (upd_x_spec (params c0) tIn tOut L r sm w) as [A B].
  unfold g3_init_x, g3_init, g3_base_init_x, g3_base_init.
  split; [|split].
  - intro H. cbv beta iota zeta. rewrite ?(A H). cbv beta iota zeta. cbn [fst snd]. reflexivity.
  - intros H b. destruct b; cbv beta iota zeta; rewrite ?(B H); cbv beta iota zeta; cbn [fst snd];
    rewrite ?upd_params_id; reflexivity.
  - destruct (Classical_Prop.classic (pre tIn tOut L r sm w)) as [H | H]; cbv beta iota zeta.
    + rewrite ?(A H). cbv beta iota zeta. cbn [fst snd]. reflexivity.
    + rewrite ?(B H). cbv beta iota zeta. cbn [fst snd]. reflexivity.
Qed.

(** histories in which some calls are rejected (the caller catches the error) *)
Definition s00 := mk_g3_st 0 0 0 0 0 0 0 0 0 0.
Definition accepted (a : args) (o : op) : bool :=
  match o with
  | ChangePos ti to l w => snd (g3__updateParameters_x e s00 ti to l (a_r a) (a_sm a) w)
  | ChangeMom _ => true
  end.
Definition step_x (c : cache g3_st) (o : op) : cache g3_st :=
  match o with
  | ChangePos ti to l w => fst (g3_changePositionFalloffScale_x e c ti to l w)
  | ChangeMom x => g3_changeMomentumFalloffScale e c x
  end.
Definition next_x (a : args) (o : op) : args := if accepted a o then next a o else a.
Definition run_x (c : cache g3_st) (ops : list op) := fold_left step_x ops c.

Lemma inv_r_sm c a : inv e c a ->
  g3_ratioPointsWall (params c) = a_r a /\ g3_smoothing (params c) = a_sm a.
Proof.
  intros [_ Hp]. specialize (Hp c). revert Hp.
  destruct c as [p ? ? ? ? ? ? ? ? ?], p, a. unfold core. cbn.
  intros [= -> -> -> -> -> -> -> -> ->]. split; reflexivity.
Qed.

Lemma step_x_inv c a o : inv e c a -> inv e (step_x c o) (next_x a o).
Proof.
  intro H. destruct o as [ti to l w | x].
  - destruct (inv_r_sm c a H) as [Er Es].
    unfold step_x, next_x, accepted.
    destruct (changePos_x_spec c ti to l w) as [A B].
    destruct (upd_x_spec s00 ti to l (a_r a) (a_sm a) w) as [A' B'].
    rewrite Er, Es in A, B.
    destruct (Classical_Prop.classic (pre ti to l (a_r a) (a_sm a) w)) as [Hp | Hn].
    + rewrite (A Hp), (A' Hp). cbn [fst snd]. apply (step_inv e c a (ChangePos ti to l w) H).
    + rewrite (B Hn), (B' Hn). cbn [fst snd]. exact H.
  - unfold step_x, next_x, accepted. apply (step_inv e c a (ChangeMom x) H).
Qed.

Lemma step_x_compact c o : same_compact (step_x c o) c.
Proof.
  destruct o as [ti to l w | x].
  - unfold step_x. destruct (changePos_x_spec c ti to l w) as [A B].
    destruct (Classical_Prop.classic (pre ti to l (g3_ratioPointsWall (params c))
                                          (g3_smoothing (params c)) w)) as [Hp | Hn].
    + rewrite (A Hp). cbn [fst]. apply (step_compact e c (ChangePos ti to l w)).
    + rewrite (B Hn). cbn [fst]. repeat split.
  - apply (step_compact e c (ChangeMom x)).
Qed.

Lemma run_x_inv ops : forall c a, inv e c a ->
  inv e (run_x c ops) (fold_left next_x ops a) /\ same_compact (run_x c ops) c.
Proof.
  induction ops as [|o ops IH]; intros c a H; cbn [run_x fold_left].
  - split; [assumption | repeat split].
  - destruct (IH (step_x c o) (next_x a o) (step_x_inv c a o H)) as [H1 (S1 & S2 & S3)].
    split; [exact H1|]. destruct (step_x_compact c o) as (T1 & T2 & T3).
    unfold run_x in *. repeat split; congruence.
Qed.

Lemma rescale_with_rejections_lemma c0 c0' a ops : same_compact c0 c0' ->
  let c1 := run_x (new e c0 a) ops in
  let c2 := new e c0' (fold_left next_x ops a) in
  same_compact c1 c2 /\ same_arrays c1 c2 /\ core (params c1) = core (params c2) /\
  coherent (g3_decompactify e) (g3_compactificationDerivatives e) c1.
Proof.
  intros (E1 & E2 & E3) c1 c2.
  destruct (run_x_inv ops (new e c0 a) a (new_inv e c0 a)) as [[Hc Hp] (S1 & S2 & S3)].
  destruct (new_compact e c0 a) as (N1 & N2 & N3).
  destruct (new_compact e c0' (fold_left next_x ops a)) as (M1 & M2 & M3).
  destruct (new_inv e c0' (fold_left next_x ops a)) as [Hc2 _].
  assert (SC : same_compact c1 c2) by (unfold c1, c2; repeat split; congruence).
  assert (CO : core (params c1) = core (params c2)) by apply Hp.
  split; [exact SC|]. split; [|split; [exact CO | exact Hc]].
  apply (coherent_same_arrays (g3_decompactify e) (g3_compactificationDerivatives e));
    try assumption.
  - intros; apply dec_core; exact CO.
  - intros; apply jac_core; exact CO.
Qed.

(** the constructor's parameters ARE those _updateParameters produces (plus T) *)
Lemma new_params_lemma c0 a :
  core (params (new e c0 a)) =
  core (set_g3_momentumFalloffT (a_T a)
          (g3__updateParameters e (params c0) (a_tIn a) (a_tOut a) (a_L a) (a_r a) (a_sm a) (a_c a))).
Proof. destruct c0 as [p ? ? ? ? ? ? ? ? ?], p, a. reflexivity. Qed.
End ErrorExits.

(* ------------------------------------------------------------------------------------- *)
(** * The getters (the only interface BoltzmannSolver / EOM / Polynomial use) *)
Definition fin3 (t : list R * list R * list R) : list ext * list ext * list ext :=
  let '(a, b, c) := t in (map Fin a, map Fin b, map Fin c).
(** [lo :: l ++ [hi]] for the first two directions, [l ++ [hi]] for the third (rho_par = -1 is
    a node) *)
Definition ends3 (lo hi : ext) (t : list R * list R * list R) :=
  let '(a, b, c) := t in
  (lo :: map Fin a ++ [hi], lo :: map Fin b ++ [hi], map Fin c ++ [hi]).

Lemma g_getters_lemma (e : g_env) (c : cache g_st) :
  g_getCompactCoordinates e c false = fin3 (chiValues c, rzValues c, rpValues c) /\
  g_getCoordinates e c false = fin3 (xiValues c, pzValues c, ppValues c) /\
  g_getCompactificationDerivatives e c false = fin3 (dxidchi c, dpzdrz c, dppdrp c) /\
  g_getCompactCoordinates e c true = ends3 (Fin (-1)) (Fin 1) (chiValues c, rzValues c, rpValues c) /\
  g_getCoordinates e c true = ends3 NegInf PosInf (xiValues c, pzValues c, ppValues c) /\
  g_getCompactificationDerivatives e c true = ends3 PosInf PosInf (dxidchi c, dpzdrz c, dppdrp c) /\
  (forall b, g_getCompactCoordinates_z e c b = fst (fst (g_getCompactCoordinates e c b)) /\
             g_getCompactCoordinates_pz e c b = snd (fst (g_getCompactCoordinates e c b)) /\
             g_getCompactCoordinates_pp e c b = snd (g_getCompactCoordinates e c b)).
Proof. repeat split; try reflexivity; destruct b; reflexivity. Qed.

Lemma g3_getters_lemma (e : g3_env) (c : cache g3_st) :
  g3_getCompactCoordinates e c false = fin3 (chiValues c, rzValues c, rpValues c) /\
  g3_getCoordinates e c false = fin3 (xiValues c, pzValues c, ppValues c) /\
  g3_getCompactificationDerivatives e c false = fin3 (dxidchi c, dpzdrz c, dppdrp c) /\
  g3_getCompactCoordinates e c true = ends3 (Fin (-1)) (Fin 1) (chiValues c, rzValues c, rpValues c) /\
  g3_getCoordinates e c true = ends3 NegInf PosInf (xiValues c, pzValues c, ppValues c) /\
  g3_getCompactificationDerivatives e c true = ends3 PosInf PosInf (dxidchi c, dpzdrz c, dppdrp c) /\
  (forall b, g3_getCompactCoordinates_z e c b = fst (fst (g3_getCompactCoordinates e c b)) /\
             g3_getCompactCoordinates_pz e c b = snd (fst (g3_getCompactCoordinates e c b)) /\
             g3_getCompactCoordinates_pp e c b = snd (g3_getCompactCoordinates e c b)).
Proof. repeat split; try reflexivity; destruct b; reflexivity. Qed.

(** on a coherent object the coordinate / Jacobian getters are the maps of the node getter *)
Definition maps3 (f : R -> R -> R -> R * R * R) (t : list R * list R * list R) :=
  let '(a, b, c) := t in (map (comp1 f) a, map (comp2 f) b, map (comp3 f) c).

Lemma coherent_getters {P : Type} (dec jac : P -> R -> R -> R -> R * R * R) (c : cache P) :
  coherent dec jac c ->
  (xiValues c, pzValues c, ppValues c) = maps3 (dec (params c)) (chiValues c, rzValues c, rpValues c) /\
  (dxidchi c, dpzdrz c, dppdrp c) = maps3 (jac (params c)) (chiValues c, rzValues c, rpValues c).
Proof. intros (A1 & A2 & A3 & A4 & A5 & A6). unfold maps3. rewrite <- A1, <- A2, <- A3, <- A4, <- A5, <- A6. split; reflexivity. Qed.

(* ------------------------------------------------------------------------------------- *)
(** * Obligations *)
Theorem simple_inverse : forall e s, 0 < g_positionFalloff s -> g_momentumFalloffT s <> 0 ->
  (forall z pz pp, let '(a, b, c) := g_compactify e s z pz pp in g_decompactify e s a b c = (z, pz, pp)) /\
  (forall chi rz rp, -1 < chi < 1 -> -1 < rz < 1 -> rp < 1 ->
     let '(a, b, c) := g_decompactify e s chi rz rp in g_compactify e s a b c = (chi, rz, rp)).
Proof. exact simple_inverse_lemma. Qed.
Print Assumptions simple_inverse.

Theorem simple_range : forall e s, g_positionFalloff s <> 0 -> forall z pz pp,
  let '(a, b, c) := g_compactify e s z pz pp in -1 < a < 1 /\ -1 < b < 1 /\ c < 1.
Proof. exact simple_range_lemma. Qed.
Print Assumptions simple_range.

Theorem simple_jacobian : forall e s,
  (forall chi, -1 < chi < 1 -> derivable_pt_lim (comp1 (g_decompactify e s)) chi
                                 (comp1 (g_compactificationDerivatives e s) chi)) /\
  (forall rz, -1 < rz < 1 -> derivable_pt_lim (comp2 (g_decompactify e s)) rz
                                 (comp2 (g_compactificationDerivatives e s) rz)) /\
  (forall rp, rp < 1 -> derivable_pt_lim (comp3 (g_decompactify e s)) rp
                                 (comp3 (g_compactificationDerivatives e s) rp)).
Proof. exact simple_jacobian_lemma. Qed.
Print Assumptions simple_jacobian.

Theorem simple_increasing : forall e s, 0 < g_positionFalloff s -> 0 < g_momentumFalloffT s ->
  (forall x y, -1 < x -> x < y -> y < 1 -> comp1 (g_decompactify e s) x < comp1 (g_decompactify e s) y) /\
  (forall x y, -1 < x -> x < y -> y < 1 -> comp2 (g_decompactify e s) x < comp2 (g_decompactify e s) y) /\
  (forall x y, x < y -> y < 1 -> comp3 (g_decompactify e s) x < comp3 (g_decompactify e s) y).
Proof. exact simple_increasing_lemma. Qed.
Print Assumptions simple_increasing.

Theorem origin_to_centre : forall e s, g_decompactify e s 0 0 (-1) = (0, 0, 0).
Proof. exact simple_origin_lemma. Qed.
Print Assumptions origin_to_centre.

Theorem point_functions_separable : forall e s e3 s3,
  (separable (g_decompactify e s) /\ separable (g_compactify e s) /\
   separable (g_compactificationDerivatives e s)) /\
  (separable (g3_decompactify e3 s3) /\ separable (g3_compactify e3 s3) /\
   separable (g3_compactificationDerivatives e3 s3)).
Proof. intros. split; [apply g_separable | apply g3_separable]. Qed.
Print Assumptions point_functions_separable.

Theorem term_derivs : forall e s x,
  g3_aIn s <> 0 -> g3_aOut s <> 0 -> g3_ratioPointsWall s <> 0 -> -1 < x < 1 ->
  derivable_pt_lim (g3_term1 e s) x
    ((1 - g3_ratioPointsWall s) * (2 * g3_ratioPointsWall s * g3_tailLengthOutside s - g3_wallThickness s)
     / g3_ratioPointsWall s / (2 * sqrt ((g3_aOut s)^2 + (x - g3_ratioPointsWall s)^2) * (1 - x))) /\
  derivable_pt_lim (g3_term2 e s) x
    (- (1 + g3_ratioPointsWall s) * (2 * g3_ratioPointsWall s * g3_tailLengthOutside s - g3_wallThickness s)
     / g3_ratioPointsWall s / (2 * sqrt ((g3_aOut s)^2 + (x - g3_ratioPointsWall s)^2) * (1 + x))) /\
  derivable_pt_lim (g3_term3 e s) x
    ((1 - g3_ratioPointsWall s) * (2 * g3_ratioPointsWall s * g3_tailLengthInside s - g3_wallThickness s)
     / g3_ratioPointsWall s / (2 * sqrt ((g3_aIn s)^2 + (x + g3_ratioPointsWall s)^2) * (1 + x))) /\
  derivable_pt_lim (g3_term4 e s) x
    (- (1 + g3_ratioPointsWall s) * (2 * g3_ratioPointsWall s * g3_tailLengthInside s - g3_wallThickness s)
     / g3_ratioPointsWall s / (2 * sqrt ((g3_aIn s)^2 + (x + g3_ratioPointsWall s)^2) * (1 - x))) /\
  derivable_pt_lim (g3_term5 e s) x
    ((2 * g3_tailLengthInside s + 2 * g3_tailLengthOutside s
      - 4 * g3_smoothing s * g3_wallThickness s / g3_ratioPointsWall s) / (1 - x^2)).
Proof. exact g3_term_derivs_lemma. Qed.
Print Assumptions term_derivs.

Theorem g3_jacobian : forall e s chi,
  g3_aIn s <> 0 -> g3_aOut s <> 0 -> g3_ratioPointsWall s <> 0 -> -1 < chi < 1 ->
  derivable_pt_lim (comp1 (g3_decompactify e s)) chi
                   (comp1 (g3_compactificationDerivatives e s) chi).
Proof. exact g3_jacobian_lemma. Qed.
Print Assumptions g3_jacobian.

(** ... in particular for every state produced by _updateParameters under its assertions *)
Theorem g3_jacobian_admissible : forall e s0 tIn tOut L r sm c chi,
  g3__updateParameters_pre tIn tOut L r sm c -> -1 < chi < 1 ->
  let s := g3__updateParameters e s0 tIn tOut L r sm c in
  derivable_pt_lim (comp1 (g3_decompactify e s)) chi
                   (comp1 (g3_compactificationDerivatives e s) chi).
Proof.
  intros e s0 tIn tOut L r sm c chi H Hc s.
  assert (Ha : admissible tIn tOut L r sm) by (apply (proj1 (pre_admissible tIn tOut L r sm c)); assumption).
  destruct (upd_nonzero e s0 tIn tOut L r sm c Ha) as (N1 & N2 & N3).
  apply g3_jacobian_lemma; assumption.
Qed.
Print Assumptions g3_jacobian_admissible.

Theorem g3_jacobian_positive : forall e s0 tIn tOut L r sm c chi,
  g3__updateParameters_pre tIn tOut L r sm c -> sm <= 1 -> -1 < chi < 1 ->
  0 < comp1 (g3_compactificationDerivatives e (g3__updateParameters e s0 tIn tOut L r sm c)) chi.
Proof. intros. apply g3_jacobian_positive_lemma; try assumption; apply (proj1 (pre_admissible tIn tOut L r sm c)); assumption. Qed.
Print Assumptions g3_jacobian_positive.

Theorem g3_increasing : forall e s0 tIn tOut L r sm c x y,
  g3__updateParameters_pre tIn tOut L r sm c -> sm <= 1 -> -1 < x -> x < y -> y < 1 ->
  comp1 (g3_decompactify e (g3__updateParameters e s0 tIn tOut L r sm c)) x <
  comp1 (g3_decompactify e (g3__updateParameters e s0 tIn tOut L r sm c)) y.
Proof. intros. apply g3_increasing_lemma; try assumption; apply (proj1 (pre_admissible tIn tOut L r sm c)); assumption. Qed.
Print Assumptions g3_increasing.

Theorem g3_centre : forall e s, comp1 (g3_decompactify e s) 0 = g3_wallCenter s.
Proof. exact g3_centre_lemma. Qed.
Print Assumptions g3_centre.

Theorem g3_slope_centre : forall e s0 tIn tOut L r sm c,
  g3__updateParameters_pre tIn tOut L r sm c ->
  comp1 (g3_compactificationDerivatives e (g3__updateParameters e s0 tIn tOut L r sm c)) 0 = L / r.
Proof. intros. apply g3_slope_centre_lemma. apply (proj1 (pre_admissible tIn tOut L r sm c)); assumption. Qed.
Print Assumptions g3_slope_centre.

Theorem g3_momentum_maps : forall e s, 0 < g3_momentumFalloffT s ->
  (forall pz pp, comp2 (g3_decompactify e s) (comp2 (g3_compactify e s) pz) = pz /\
                 comp3 (g3_decompactify e s) (comp3 (g3_compactify e s) pp) = pp) /\
  (forall rz rp, -1 < rz < 1 -> rp < 1 ->
     comp2 (g3_compactify e s) (comp2 (g3_decompactify e s) rz) = rz /\
     comp3 (g3_compactify e s) (comp3 (g3_decompactify e s) rp) = rp) /\
  (forall rz, -1 < rz < 1 -> derivable_pt_lim (comp2 (g3_decompactify e s)) rz
                               (comp2 (g3_compactificationDerivatives e s) rz)) /\
  (forall rp, rp < 1 -> derivable_pt_lim (comp3 (g3_decompactify e s)) rp
                               (comp3 (g3_compactificationDerivatives e s) rp)) /\
  (forall x y, -1 < x -> x < y -> y < 1 ->
     comp2 (g3_decompactify e s) x < comp2 (g3_decompactify e s) y) /\
  (forall x y, x < y -> y < 1 -> comp3 (g3_decompactify e s) x < comp3 (g3_decompactify e s) y).
Proof. exact g3_momentum_lemma. Qed.
Print Assumptions g3_momentum_maps.

Theorem simple_rescale_equals_new : forall e c0 c0' a ops,
  chiValues c0 = chiValues c0' -> rzValues c0 = rzValues c0' -> rpValues c0 = rpValues c0' ->
  fold_left (gstep e) ops (gnew e c0 a) = gnew e c0' (fold_left gnext ops a).
Proof. exact simple_rescale_equals_new_lemma. Qed.
Print Assumptions simple_rescale_equals_new.

Theorem rescale_equals_new : forall e c0 c0' a ops, same_compact c0 c0' ->
  let c1 := run e (new e c0 a) ops in
  let c2 := new e c0' (fold_left next ops a) in
  same_compact c1 c2 /\ same_arrays c1 c2 /\ core (params c1) = core (params c2).
Proof. exact rescale_equals_new_lemma. Qed.
Print Assumptions rescale_equals_new.

Theorem g3_positionFalloff_stale_refuted : forall e, exists c0 a ops,
  g3_positionFalloff (params (run e (new e c0 a) ops)) <>
  g3_positionFalloff (params (new e c0 (fold_left next ops a))).
Proof. exact g3_positionFalloff_stale_witness. Qed.
Print Assumptions g3_positionFalloff_stale_refuted.

Theorem g3_compactify_refuted : forall e, exists c0 a chi,
  g3__updateParameters_pre (a_tIn a) (a_tOut a) (a_L a) (a_r a) (a_sm a) (a_c a) /\ -1 < chi < 1 /\
  let p := params (new e c0 a) in
  comp1 (g3_compactify e p) (comp1 (g3_decompactify e p) chi) > 1/2 /\ chi < 1/2.
Proof.
  intro e. destruct (g3_compactify_witness e) as (c0 & a & chi & H1 & H2).
  exists c0, a, chi. split; [apply pre_admissible; exact H1 | exact H2].
Qed.
Print Assumptions g3_compactify_refuted.

Theorem g3_monotone_large_smoothing_refuted : forall e, exists s0 tIn tOut L r sm c chi,
  g3__updateParameters_pre tIn tOut L r sm c /\ 1 < sm /\ -1 < chi < 1 /\
  comp1 (g3_compactificationDerivatives e (g3__updateParameters e s0 tIn tOut L r sm c)) chi < 0.
Proof.
  intro e. destruct (g3_large_smoothing_witness e) as (s0 & tIn & tOut & L & r & sm & c & chi & H1 & H2).
  exists s0, tIn, tOut, L, r, sm, c, chi. split; [apply pre_admissible; exact H1 | exact H2].
Qed.
Print Assumptions g3_monotone_large_smoothing_refuted.

(* ---- added after the white-box audit ---------------------------------------------------- *)

(** the getters return the stored arrays (with -1/1 resp. -inf/+inf at the ends when
    endpoints=True; a `direction` selects a component) -- both classes, every object state *)
Theorem getters_return_the_cache : forall e c e3 c3,
  (g_getCompactCoordinates e c false = fin3 (chiValues c, rzValues c, rpValues c) /\
   g_getCoordinates e c false = fin3 (xiValues c, pzValues c, ppValues c) /\
   g_getCompactificationDerivatives e c false = fin3 (dxidchi c, dpzdrz c, dppdrp c) /\
   g_getCompactCoordinates e c true = ends3 (Fin (-1)) (Fin 1) (chiValues c, rzValues c, rpValues c) /\
   g_getCoordinates e c true = ends3 NegInf PosInf (xiValues c, pzValues c, ppValues c) /\
   g_getCompactificationDerivatives e c true = ends3 PosInf PosInf (dxidchi c, dpzdrz c, dppdrp c) /\
   (forall b, g_getCompactCoordinates_z e c b = fst (fst (g_getCompactCoordinates e c b)) /\
              g_getCompactCoordinates_pz e c b = snd (fst (g_getCompactCoordinates e c b)) /\
              g_getCompactCoordinates_pp e c b = snd (g_getCompactCoordinates e c b))) /\
  (g3_getCompactCoordinates e3 c3 false = fin3 (chiValues c3, rzValues c3, rpValues c3) /\
   g3_getCoordinates e3 c3 false = fin3 (xiValues c3, pzValues c3, ppValues c3) /\
   g3_getCompactificationDerivatives e3 c3 false = fin3 (dxidchi c3, dpzdrz c3, dppdrp c3) /\
   g3_getCompactCoordinates e3 c3 true = ends3 (Fin (-1)) (Fin 1) (chiValues c3, rzValues c3, rpValues c3) /\
   g3_getCoordinates e3 c3 true = ends3 NegInf PosInf (xiValues c3, pzValues c3, ppValues c3) /\
   g3_getCompactificationDerivatives e3 c3 true = ends3 PosInf PosInf (dxidchi c3, dpzdrz c3, dppdrp c3) /\
   (forall b, g3_getCompactCoordinates_z e3 c3 b = fst (fst (g3_getCompactCoordinates e3 c3 b)) /\
              g3_getCompactCoordinates_pz e3 c3 b = snd (fst (g3_getCompactCoordinates e3 c3 b)) /\
              g3_getCompactCoordinates_pp e3 c3 b = snd (g3_getCompactCoordinates e3 c3 b))).
Proof. intros. split; [apply g_getters_lemma | apply g3_getters_lemma]. Qed.
Print Assumptions getters_return_the_cache.

(** _updateParameters with its assertions in program order: it completes exactly under its
    precondition, and a rejected call leaves the state it was given (no store precedes a
    failing assertion) *)
Theorem updateParameters_exits : forall e s tIn tOut L r sm c,
  (g3__updateParameters_pre tIn tOut L r sm c ->
     g3__updateParameters_x e s tIn tOut L r sm c =
     (g3__updateParameters e s tIn tOut L r sm c, true)) /\
  (~ g3__updateParameters_pre tIn tOut L r sm c ->
     g3__updateParameters_x e s tIn tOut L r sm c = (s, false)).
Proof. exact upd_x_spec. Qed.
Print Assumptions updateParameters_exits.

(** a rejected changePositionFalloffScale (the caller catches the error) leaves the whole object
    unchanged; an admissible one is the modelled call; same for the constructor *)
Theorem rejected_call_leaves_object_unchanged : forall e c tIn tOut L w,
  let pre := g3__updateParameters_pre tIn tOut L (g3_ratioPointsWall (params c))
                                      (g3_smoothing (params c)) w in
  (pre -> g3_changePositionFalloffScale_x e c tIn tOut L w =
          (g3_changePositionFalloffScale e c tIn tOut L w, true)) /\
  (~ pre -> g3_changePositionFalloffScale_x e c tIn tOut L w = (c, false)).
Proof. intros. apply changePos_x_spec. Qed.
Print Assumptions rejected_call_leaves_object_unchanged.

(** the constructor: completes (and is the modelled constructor) under the parameter
    precondition when the `spacing` keyword is valid; a call rejected by a PARAMETER assertion
    leaves the object untouched; an invalid `spacing` is always rejected.  (What a re-run of
    __init__ rejected by the spacing check leaves behind is NOT claimed: on the current code the
    scales are already stored then -- known finding reinit-rejected-by-spacing-half-updated;
    the model keeps that check at its position with an opaque truth value.) *)
Theorem constructor_exits : forall e c0 tIn tOut L T r sm w,
  (g3__updateParameters_pre tIn tOut L r sm w ->
     g3_init_x e c0 tIn tOut L T r sm w true = (g3_init e c0 tIn tOut L T r sm w, true)) /\
  (~ g3__updateParameters_pre tIn tOut L r sm w ->
     forall b, g3_init_x e c0 tIn tOut L T r sm w b = (c0, false)) /\
  snd (g3_init_x e c0 tIn tOut L T r sm w false) = false.
Proof. exact init_x_spec. Qed.
Print Assumptions constructor_exits.

(** histories in which ANY of the calls may be rejected: the object equals a new grid built
    with the scales of the accepted calls, its cache is coherent, and (hence) its getters are
    the maps of its node getter with its current parameters and agree with the new grid's *)
Theorem rescale_equals_new_with_rejections : forall e c0 c0' a ops, same_compact c0 c0' ->
  let c1 := run_x e (new e c0 a) ops in
  let c2 := new e c0' (fold_left (next_x e) ops a) in
  let nodes := (chiValues c1, rzValues c1, rpValues c1) in
  (same_compact c1 c2 /\ same_arrays c1 c2 /\ core (params c1) = core (params c2)) /\
  (g3_getCompactCoordinates e c1 false = fin3 nodes /\
   g3_getCoordinates e c1 false = fin3 (maps3 (g3_decompactify e (params c1)) nodes) /\
   g3_getCompactificationDerivatives e c1 false =
     fin3 (maps3 (g3_compactificationDerivatives e (params c1)) nodes) /\
   g3_getCoordinates e c1 true = ends3 NegInf PosInf (maps3 (g3_decompactify e (params c1)) nodes) /\
   g3_getCompactificationDerivatives e c1 true =
     ends3 PosInf PosInf (maps3 (g3_compactificationDerivatives e (params c1)) nodes)) /\
  (forall b, g3_getCoordinates e c1 b = g3_getCoordinates e c2 b /\
             g3_getCompactificationDerivatives e c1 b = g3_getCompactificationDerivatives e c2 b /\
             g3_getCompactCoordinates e c1 b = g3_getCompactCoordinates e c2 b).
Proof.
  intros e c0 c0' a ops H c1 c2 nodes.
  destruct (rescale_with_rejections_lemma e c0 c0' a ops H) as (SC & SA & CO & Hc).
  fold c1 in SC, SA, CO, Hc. fold c2 in SC, SA, CO.
  destruct (g3_getters_lemma e c1) as (G1 & G2 & G3 & G4 & G5 & G6 & _).
  destruct (g3_getters_lemma e c2) as (K1 & K2 & K3 & K4 & K5 & K6 & _).
  destruct (coherent_getters _ _ c1 Hc) as (M1 & M2).
  split; [exact (conj SC (conj SA CO))|]. split.
  - unfold nodes. rewrite <- M1, <- M2. repeat split; assumption.
  - destruct SC as (S1 & S2 & S3). destruct SA as (A1 & A2 & A3 & A4 & A5 & A6).
    intros [|]; rewrite ?G1, ?G2, ?G3, ?G4, ?G5, ?G6, ?K1, ?K2, ?K3, ?K4, ?K5, ?K6,
      ?S1, ?S2, ?S3, ?A1, ?A2, ?A3, ?A4, ?A5, ?A6; repeat split.
Qed.
Print Assumptions rescale_equals_new_with_rejections.

(** simple grid: after any history the getters are the maps of the nodes *)
Theorem simple_getters_after_history : forall e c0 a ops,
  let c1 := fold_left (gstep e) ops (gnew e c0 a) in
  let nodes := (chiValues c1, rzValues c1, rpValues c1) in
  g_getCompactCoordinates e c1 false = fin3 nodes /\
  g_getCoordinates e c1 false = fin3 (maps3 (g_decompactify e (params c1)) nodes) /\
  g_getCompactificationDerivatives e c1 false =
    fin3 (maps3 (g_compactificationDerivatives e (params c1)) nodes).
Proof.
  intros e c0 a ops c1 nodes.
  assert (Hc : coherent (g_decompactify e) (g_compactificationDerivatives e) c1).
  { unfold c1. rewrite (simple_rescale_equals_new_lemma e c0 c0 a ops eq_refl eq_refl eq_refl).
    unfold gnew, g_init. rewrite g_cache_is_recache. apply recache_coherent. }
  destruct (g_getters_lemma e c1) as (G1 & G2 & G3 & _).
  destruct (coherent_getters _ _ c1 Hc) as (M1 & M2).
  unfold nodes. rewrite <- M1, <- M2. repeat split; assumption.
Qed.
Print Assumptions simple_getters_after_history.

(** the parameters of a constructed object are those _updateParameters produces *)
Theorem new_params_link : forall e c0 a,
  core (params (new e c0 a)) =
  core (set_g3_momentumFalloffT (a_T a)
          (g3__updateParameters e (params c0) (a_tIn a) (a_tOut a) (a_L a) (a_r a) (a_sm a) (a_c a))).
Proof. exact new_params_lemma. Qed.
Print Assumptions new_params_link.

(** the three-scale position map is unbounded towards both ends (with monotonicity and
    continuity: a bijection of (-1,1) onto the real line), for smoothing < 1 *)
Theorem g3_ends : forall e s0 tIn tOut L r sm c B,
  g3__updateParameters_pre tIn tOut L r sm c -> sm < 1 ->
  let s := g3__updateParameters e s0 tIn tOut L r sm c in
  (exists d, 0 < d /\ forall x, 1 - d < x < 1 -> B < comp1 (g3_decompactify e s) x) /\
  (exists d, 0 < d /\ forall x, -1 < x < -1 + d -> comp1 (g3_decompactify e s) x < B).
Proof.
  intros e s0 tIn tOut L r sm c B Hpre Hsm s.
  assert (Ha : admissible tIn tOut L r sm) by (apply (proj1 (pre_admissible tIn tOut L r sm c)); assumption).
  assert (E : forall x, comp1 (g3_decompactify e s) x =
                        map3 tIn tOut L r sm (a_of L r sm tIn) (a_of L r sm tOut) x
                        - map3 tIn tOut L r sm (a_of L r sm tIn) (a_of L r sm tOut) 0 + c).
  { intro x. unfold comp1. rewrite g3_dec_shape. cbn [fst snd]. rewrite !g3_total_shape.
    unfold s. fold (upd e s0 tIn tOut L r sm c).
    destruct (upd_fields e s0 tIn tOut L r sm c) as (-> & -> & -> & -> & -> & -> & -> & -> & _).
    reflexivity. }
  destruct (map3_ends tIn tOut L r sm Ha Hsm c B) as [(d1 & Hd1 & H1) (d2 & Hd2 & H2)].
  split; [exists d1 | exists d2]; (split; [assumption|]); intros x Hx; rewrite E; auto.
Qed.
Print Assumptions g3_ends.

(** facts about the rest of the package, extracted on this run *)
Theorem no_foreign_write_found_by_the_scan : foreign_grid_writes = 0%nat.
Proof. reflexivity. Qed.
Print Assumptions no_foreign_write_found_by_the_scan.

(** simple grid: an invalid `spacing` is rejected, a valid one gives the modelled constructor *)
Theorem simple_constructor_exits : forall e c L T,
  g_init_x e c L T true = (g_init e c L T, true) /\ snd (g_init_x e c L T false) = false.
Proof. intros. split; reflexivity. Qed.
Print Assumptions simple_constructor_exits.

(** EOM._updateGrid calls changePositionFalloffScale with admissible arguments whenever the
    thickness it computed is positive (its tails are max(.., L (1/2 + k sm)/r) with k > 1) *)
Theorem eom_updateGrid_admissible : forall e v L w,
  0 < L -> 0 < eom_smoothing e -> 0 < eom_ratioPointsWall e < 1 ->
  let '(ti, to, l, c) := eom_args e v L w in
  g3__updateParameters_pre ti to l (eom_ratioPointsWall e) (eom_smoothing e) c /\ l = L /\ c = w.
Proof.
  intros e v L w HL Hs Hr. unfold eom_args. cbv zeta.
  unfold g3__updateParameters_pre.
  assert (Hb : L * (1 / 2 + eom_smoothing e) / eom_ratioPointsWall e <
               L * (1 / 2 + 21 / 20 * eom_smoothing e) / eom_ratioPointsWall e).
  { unfold Rdiv. apply Rmult_lt_compat_r; [apply Rinv_0_lt_compat; lra | nra]. }
  repeat split; try lra;
  (eapply Rlt_le_trans; [exact Hb | apply Rmax_r]).
Qed.
Print Assumptions eom_updateGrid_admissible.

(** WallGoManager.buildGrid constructs the grid with admissible arguments *)
Theorem mgr_buildGrid_admissible : forall e L mfp T N M r sm Tn,
  0 < L -> 0 < Tn -> 0 < sm -> 0 < r < 1 ->
  let '(_, _, ti, to, l, _, r', sm') := mgr_args e L mfp T N M r sm Tn in
  g3__updateParameters_pre ti to l r' sm' 0.
Proof.
  intros e L mfp T N M r sm Tn HL HT Hs Hr. unfold mgr_args. cbv zeta.
  unfold g3__updateParameters_pre.
  assert (HLT : 0 < L / Tn) by (apply Rdiv_lt_0_compat; lra).
  assert (Hb : L / Tn * (1 / 2 + sm) / r < Rmax mfp (1 / 2 * L * (1 + 3 * sm) / r) / Tn).
  { apply Rlt_le_trans with (1 / 2 * L * (1 + 3 * sm) / r / Tn).
    - assert (E : 1 / 2 * L * (1 + 3 * sm) / r / Tn - L / Tn * (1 / 2 + sm) / r =
                  L * sm / (2 * r * Tn)) by (field; lra).
      assert (0 < L * sm / (2 * r * Tn)) by (apply Rdiv_lt_0_compat; nra). lra.
    - unfold Rdiv. apply Rmult_le_compat_r; [apply Rlt_le, Rinv_0_lt_compat; lra | apply Rmax_r]. }
  repeat split; try lra.
Qed.
Print Assumptions mgr_buildGrid_admissible.

(** ... hence an EOM._updateGrid call on a grid with 0 < smoothing, 0 < ratio < 1 is never
    rejected: it is the modelled changePositionFalloffScale with the extracted arguments (the
    solver's histories are histories of accepted calls) *)
Theorem eom_updateGrid_never_rejected : forall e3 c mfp inc v L w,
  0 < L -> 0 < g3_smoothing (params c) -> 0 < g3_ratioPointsWall (params c) < 1 ->
  let ee := {| eom_meanFreePathScale := mfp; eom_includeOffEq := inc;
               eom_smoothing := g3_smoothing (params c);
               eom_ratioPointsWall := g3_ratioPointsWall (params c) |} in
  let '(ti, to, l, c') := eom_args ee v L w in
  g3_changePositionFalloffScale_x e3 c ti to l c' =
  (g3_changePositionFalloffScale e3 c ti to l c', true).
Proof.
  intros e3 c mfp inc v L w HL Hs Hr ee.
  pose proof (eom_updateGrid_admissible ee v L w HL Hs Hr) as H.
  destruct (eom_args ee v L w) as [[[ti to] l] c'].
  destruct H as (Hpre & _ & _).
  apply (proj1 (changePos_x_spec e3 c ti to l c')). exact Hpre.
Qed.
Print Assumptions eom_updateGrid_never_rejected.
