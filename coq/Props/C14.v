(** C14 -- collision data act identically after loading, basis change and interpolation.

    Everything below is about definitions GENERATED on this run from
    collisionArray.py / boltzmann.py / polynomial.py (modules GenC14.CollisionGen and
    GenC14.BasisGen, see tools/gen_collision.py):
      [the_cfg]        order + exception class of every check of newFromDirectory, basis
                       labels of the two branches, statements/handlers of loadCollisions;
      [interp_layout]  the array pipeline of interpolateCollisionArray;
      [grid_points], [eval_axes]   layout of the evaluation points;
      [tn_matrix], [collision_invT] the matrix pipeline of Polynomial.changeBasis and the
                       flag CollisionArray.changeBasis passes.
    External numerics that are hypotheses, not axioms: np.linalg.inv (Section variable [inv]
    with [inv_ok]), invertibility of the Chebyshev matrices ([unitmx] hypotheses), the output
    layout of Polynomial.evaluate (the definition [evaluated]); each is validated at run time
    by tools/props/C14.py. *)
From Coq Require Import List Arith Lia Bool PeanoNat Reals Lra.
From WG Require Import Lib.Reshape Model.CollisionLoad.
From GenC14 Require Import CollisionGen.
Import ListNotations.

(** * 1. Loading: state machine over all operation sequences *)

Lemma the_cfg_prog_good : prog_good the_cfg = true.
Proof. vm_compute. reflexivity. Qed.

(** a failed load leaves the installed array in place and reports the load's own error *)
Theorem load_atomic : forall s dir N req parts k,
  snd (loadCollisions the_cfg s dir N req parts) = Err k ->
  fst (loadCollisions the_cfg s dir N req parts) = s /\
  newFromDirectory the_cfg dir N req parts true = Err k.
Proof. exact (CollisionLoad.load_atomic the_cfg the_cfg_prog_good). Qed.
Print Assumptions load_atomic.

(** over EVERY sequence of particle-list updates and loads the solver state and the reported
    outcomes are those of "install exactly when the load succeeds" *)
Theorem load_sequences : forall N req ops parts s,
  run the_cfg N req ops parts s = run_spec the_cfg N req ops parts s.
Proof. exact (CollisionLoad.load_sequences the_cfg the_cfg_prog_good). Qed.
Print Assumptions load_sequences.

Lemma the_cfg_data_good : data_good the_cfg = true.
Proof. vm_compute. reflexivity. Qed.

(** Ok => on the requested grid, in the requested basis, every ordered pair (i, j) holds
    exactly the numbers of the file of (particle i, particle j), never transformed under a
    wrong basis label *)
Theorem load_complete : forall dir N req parts a,
  newFromDirectory the_cfg dir N req parts true = Ok a ->
  a_N a = N /\ a_label a = req /\
  forall i j, i < length parts -> j < length parts ->
    exists f, dir (nth i parts 0) (nth j parts 0) = Some f /\
              a_blocks a i j = Some (mkblock (f_data f) N req true).
Proof. exact (CollisionLoad.load_complete the_cfg the_cfg_data_good). Qed.
Print Assumptions load_complete.

(** non-vacuity and a worked instance: two particles, files on N=7 in the Chebyshev basis,
    solver on N=5 asking for Cardinal; then a directory with a missing file *)
Definition dir_ok : directory := fun p q => Some (mkfile 7 Chebyshev (10 * p + q)).
Definition dir_missing : directory := fun p q => if (p =? 4) && (q =? 3) then None else dir_ok p q.
Example load_example :
  (match newFromDirectory the_cfg dir_ok 5 Cardinal [3; 4] true with
   | Ok a => a_blocks a 1 0
   | Err _ => None end) = Some (mkblock 43 5 Cardinal true) /\
  (let '(s, outs) := run the_cfg 5 Cardinal [OpParticles [3; 4]; OpLoad dir_ok; OpLoad dir_missing] [] None in
   (match s with Some a => a_blocks a 0 1 | None => None end, outs)) =
  (Some (mkblock 34 5 Cardinal true), [Ok tt; Err CollisionLoadError]).
Proof. vm_compute. split; reflexivity. Qed.

(** * 2. Interpolation: index arithmetic of evaluate -> truncate -> moveaxis -> reshape *)

Lemma get_reshape {A} new (a : arr A) idx mid :
  inb (shape a) mid -> ravel new idx = ravel (shape a) mid ->
  get (reshape new a) idx = get a mid.
Proof. intros H E. unfold reshape; cbn [get]. rewrite E, unravel_ravel by exact H. reflexivity. Qed.

Fixpoint index_of (a : nat) (l : list nat) : nat :=
  match l with [] => 0 | x :: l' => if x =? a then 0 else S (index_of a l') end.

Section Layout.
Context {X V : Type} (dX : X) (dV : V).
(** [ev x y [a; b; j; k]]: the source polynomial evaluated at pz-coordinate x (array axis 1)
    and pp-coordinate y (array axis 2), remaining components (a, b, j, k) *)
Variable ev : X -> X -> list nat -> V.

(** output layout of Polynomial.evaluate(points, axes): (points, remaining axes in order);
    row r of the points array is the coordinate along axes[r] *)
Definition evaluated (P Nt ns : nat) (rz rp : nat -> X) : arr V :=
  let G := grid_points Nt rz rp dX in
  mkarr [nth 1 (shape G) 0; P; P; ns; ns]
        (fun idx => match idx with
                    | p :: rest => ev (get G [index_of 1 eval_axes; p])
                                      (get G [index_of 2 eval_axes; p]) rest
                    | [] => dV
                    end).

Lemma grid_point_coordinates Nt rz rp al be c : al < Nt - 1 -> be < Nt - 1 -> c < 2 ->
  get (grid_points Nt rz rp dX) [c; al * (Nt - 1) + be] =
  match c with 0 => rz al | _ => rp be end.
Proof.
  intros Ha Hb Hc. unfold grid_points. set (n := Nt - 1) in *.
  rewrite get_reshape with (mid := [c; al; be]).
  - destruct c as [|[|c]]; [reflexivity|reflexivity|lia].
  - cbn. lia.
  - symmetry. apply (ravel_split_axis [2] [] n n [c] al be []). reflexivity.
Qed.

(** D2 (now fixed): entry (a, alpha, beta, b, j, k) of the interpolated data is the
    evaluation at target point (rz alpha, rp beta) of components (a, b, j, k) -- for ALL
    numbers of particles and all sizes *)
Theorem interp_entry_is_pair_evaluation : forall P Nt ns rz rp a al be b j k,
  Nt - 1 <= ns -> a < P -> al < Nt - 1 -> be < Nt - 1 -> b < P -> j < Nt - 1 -> k < Nt - 1 ->
  get (interp_layout P Nt (evaluated P Nt ns rz rp)) [a; al; be; b; j; k] =
  ev (rz al) (rp be) [a; b; j; k].
Proof.
  intros P Nt ns rz rp a al be b j k Hn Ha Hal Hbe Hb Hj Hk.
  unfold interp_layout. set (n := Nt - 1) in *.
  rewrite get_reshape with (mid := [a; al * n + be; b; j; k]).
  - cbn [moveaxis trunc_last2 evaluated get nth remove_at insert_at].
    replace (index_of 1 eval_axes) with 0 by (vm_compute; reflexivity).
    replace (index_of 2 eval_axes) with 1 by (vm_compute; reflexivity).
    fold n. rewrite !grid_point_coordinates by (fold n; lia). reflexivity.
  - cbn. fold n. rewrite !Nat.min_l by lia. repeat split; try lia. nia.
  - cbn [moveaxis trunc_last2 evaluated shape grid_points reshape length Nat.sub nth
         set_last2 remove_at insert_at].
    fold n. rewrite !Nat.min_l by lia.
    apply (ravel_split_axis [P] [P; n; n] n n [a] al be [b; j; k]). reflexivity.
Qed.
End Layout.
Print Assumptions interp_entry_is_pair_evaluation.

(** the generated pipeline on a tagged array, for the record (P=2, Nt=3, ns=3) *)
Example layout_example :
  to_list (interp_layout 2 3 (of_list 0 [4; 2; 2; 3; 3] (seq 0 144))) =
  [0; 1; 3; 4; 9; 10; 12; 13; 36; 37; 39; 40; 45; 46; 48; 49; 72; 73;
   75; 76; 81; 82; 84; 85; 108; 109; 111; 112; 117; 118; 120; 121; 18;
   19; 21; 22; 27; 28; 30; 31; 54; 55; 57; 58; 63; 64; 66; 67; 90; 91;
   93; 94; 99; 100; 102; 103; 126; 127; 129; 130; 135; 136; 138; 139].
Proof. vm_compute. reflexivity. Qed.

(** * 3. Error kinds: every fault of the quantifier is a CollisionLoadError, and a load
       fails ONLY for those faults *)
Lemma the_cfg_kinds_good : kinds_good the_cfg = true.
Proof. vm_compute. reflexivity. Qed.

(** D8 (now fixed): missing file, oversized target, size or basis mismatch between files *)
Theorem load_error_kind : forall dir N req parts k,
  wf_dir dir parts -> known req = true -> parts <> [] ->
  newFromDirectory the_cfg dir N req parts true = Err k -> k = CollisionLoadError.
Proof. exact (CollisionLoad.load_error_kind the_cfg the_cfg_data_good the_cfg_kinds_good). Qed.
Print Assumptions load_error_kind.

Theorem load_succeeds_iff : forall dir N req parts,
  known req = true -> parts <> [] -> wf_dir dir parts ->
  ((exists a, newFromDirectory the_cfg dir N req parts true = Ok a) <->
   fault_free dir N parts).
Proof. exact (CollisionLoad.load_succeeds_iff the_cfg the_cfg_data_good the_cfg_kinds_good). Qed.
Print Assumptions load_succeeds_iff.

(** * 4. Basis change: the collision operator acts identically (mathcomp matrices, any field) *)
From mathcomp Require Import all_ssreflect all_algebra.
From GenC14 Require Import BasisGen.
Set Implicit Arguments. Unset Strict Implicit. Unset Printing Implicit Defensive.
Import GRing.Theory.
Local Open Scope ring_scope.

Section BasisChange.
Variable F : fieldType.
Variable n : nat.
(** np.linalg.inv: a right inverse on invertible matrices (LAPACK; hypothesis) *)
Variable inv : 'M[F]_n -> 'M[F]_n.
Hypothesis inv_ok : forall X : 'M[F]_n, X \in unitmx -> X *m inv X = 1%:M.

Lemma inv_is_invmx X : X \in unitmx -> inv X = invmx X.
Proof. by move=> uX; rewrite -[LHS]mul1mx -(mulVmx uX) -mulmxA inv_ok // mulmx1. Qed.

(** the matrix applied to a DISTRIBUTION (inverseTranspose=False) and to the COLLISION ARRAY
    (the generated flag), for either direction of the change *)
Definition tnF (toCheb : bool) := tn_matrix inv toCheb false.
Definition tnC (toCheb : bool) := tn_matrix inv toCheb collision_invT.

(** "((M^-1)^-1)^T is right multiplication by M": with A the matrix that maps the OLD
    coefficients of a distribution to the NEW ones, the array gets A^-T *)
Lemma tnC_is_inverse_transpose toCheb (T : 'M[F]_n) : T \in unitmx ->
  tnC toCheb T = (invmx (tnF toCheb T))^T /\ tnF toCheb T \in unitmx.
Proof.
  move=> uT; rewrite /tnC /tnF /tn_matrix /collision_invT; case: toCheb => /=.
  - have uI : invmx T \in unitmx by rewrite unitmx_inv.
    by rewrite !inv_is_invmx ?uT ?uI // inv_is_invmx.
  - by rewrite inv_is_invmx.
Qed.

(** one (a, alpha, beta, b) block: X[j,k]; the distribution of particle b: f[j,k];
    action = sum_jk X[j,k] f[j,k] *)
Definition act (X f : 'M[F]_n) : F := \tr (X^T *m f).

Lemma act_sum (X f : 'M[F]_n) : act X f = \sum_j \sum_k X j k * f j k.
Proof.
  rewrite /act /mxtrace exchange_big /=. apply: eq_bigr => j _.
  rewrite mxE. by apply: eq_bigr => k _; rewrite mxE.
Qed.

(** the contraction of the code is a LEFT multiplication along the axis
    ([contraction_left]): along axis j (rows) X -> tn1 *m X, along axis k (columns)
    X -> X *m tn2^T *)
Definition along_both (t1 t2 X : 'M[F]_n) : 'M[F]_n :=
  if contraction_left then t1 *m X *m t2^T else t1^T *m X *m t2.

Theorem basis_change_action (toCheb : bool) (T1 T2 X f : 'M[F]_n) :
  T1 \in unitmx -> T2 \in unitmx ->
  act (along_both (tnC toCheb T1) (tnC toCheb T2) X)
      (along_both (tnF toCheb T1) (tnF toCheb T2) f) = act X f.
Proof.
  move=> u1 u2.
  have [-> uA1] := tnC_is_inverse_transpose toCheb u1.
  have [-> uA2] := tnC_is_inverse_transpose toCheb u2.
  set A1 := tnF toCheb T1 in uA1 *. set A2 := tnF toCheb T2 in uA2 *.
  rewrite /along_both /contraction_left /act.
  rewrite !trmx_mul !trmxK.
  rewrite -!mulmxA (mulmxA (invmx A1)) (mulVmx uA1) mul1mx.
  by rewrite mxtrace_mulC -!mulmxA -trmx_mul (mulVmx uA2) trmx1 !mulmx1.
Qed.

(** the two directions compose to the identity on the array (loading then converting back
    gives the file's numbers) *)
Theorem basis_change_roundtrip (T1 T2 X : 'M[F]_n) : T1 \in unitmx -> T2 \in unitmx ->
  along_both (tnC false T1) (tnC false T2)
             (along_both (tnC true T1) (tnC true T2) X) = X.
Proof.
  move=> u1 u2. rewrite /along_both /contraction_left /tnC /tn_matrix /collision_invT /=.
  have uI1 : invmx T1 \in unitmx by rewrite unitmx_inv.
  have uI2 : invmx T2 \in unitmx by rewrite unitmx_inv.
  rewrite (inv_is_invmx u1) (inv_is_invmx u2) (inv_is_invmx uI1) (inv_is_invmx uI2).
  rewrite !invmxK !trmxK.
  rewrite !mulmxA -trmx_mul (mulmxV u1) trmx1 mul1mx.
  by rewrite -mulmxA (mulmxV u2) mulmx1.
Qed.
End BasisChange.

(** hypotheses are satisfiable: the identity matrix over the rationals, inv := invmx *)
Example basis_change_nonvacuous :
  act (along_both (tnC (@invmx rat_fieldType 2) true 1%:M) (tnC (@invmx _ 2) true 1%:M) 1%:M)
      (along_both (tnF (@invmx _ 2) true 1%:M) (tnF (@invmx _ 2) true 1%:M) 1%:M)
  = act (1%:M : 'M[rat]_2) 1%:M.
Proof.
  apply: basis_change_action; rewrite ?unitmx1 //.
  by move=> X uX; rewrite mulmxV.
Qed.

Theorem basis_change_action_thm : forall (F : fieldType) (n : nat) (inv : 'M[F]_n -> 'M[F]_n),
  (forall X : 'M[F]_n, X \in unitmx -> X *m inv X = 1%:M) ->
  forall (toCheb : bool) (T1 T2 X f : 'M[F]_n), T1 \in unitmx -> T2 \in unitmx ->
  act (along_both (tnC inv toCheb T1) (tnC inv toCheb T2) X)
      (along_both (tnF inv toCheb T1) (tnF inv toCheb T2) f) = act X f.
Proof. exact basis_change_action. Qed.
Print Assumptions basis_change_action_thm.

Theorem basis_change_roundtrip_thm : forall (F : fieldType) (n : nat) (inv : 'M[F]_n -> 'M[F]_n),
  (forall X : 'M[F]_n, X \in unitmx -> X *m inv X = 1%:M) ->
  forall (T1 T2 X : 'M[F]_n), T1 \in unitmx -> T2 \in unitmx ->
  along_both (tnC inv false T1) (tnC inv false T2)
             (along_both (tnC inv true T1) (tnC inv true T2) X) = X.
Proof. exact basis_change_roundtrip. Qed.
Print Assumptions basis_change_roundtrip_thm.
