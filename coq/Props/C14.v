(** C14 -- collision data act identically after loading, basis change and interpolation.

    Everything below is about definitions GENERATED on this run from
    collisionArray.py / boltzmann.py / polynomial.py (modules GenC14.CollisionGen and
    GenC14.BasisGen, see tools/gen_collision.py):
      [the_cfg]        order + exception class of every check of newFromDirectory, basis
                       labels of the two branches, statements/handlers of loadCollisions;
      [interp_layout]  the array pipeline of interpolateCollisionArray;
      [grid_points], [eval_axes]   layout of the evaluation points;
      [tn_matrix], [collision_invT] the matrix pipeline of Polynomial.changeBasis and the
                       flag CollisionArray.changeBasis passes.
    External numerics that are hypotheses, not axioms: np.linalg.inv (Section variable [inv]
    with [inv_ok]), invertibility of the Chebyshev matrices ([unitmx] hypotheses), the output
    layout of Polynomial.evaluate (the definition [evaluated]); each is validated at run time
    by tools/props/C14.py. *)
From Coq Require Import List Arith Lia Bool PeanoNat Reals Lra.
From WG Require Import Lib.Reshape Model.CollisionLoad.
From GenC14 Require Import CollisionGen.
Import ListNotations.

(** * 1. Loading: state machine over all operation sequences *)

(** the three decidable predicates on the extracted facts are established by computation
    inside the theorem that needs them (so a change in the source breaks that theorem) *)
Ltac facts_good := vm_compute; reflexivity.

(** a failed load leaves the installed array in place and reports the load's own error *)
Theorem load_atomic : forall s dir N req parts k,
  snd (loadCollisions the_cfg s dir N req parts) = Err k ->
  fst (loadCollisions the_cfg s dir N req parts) = s /\
  newFromDirectory the_cfg dir N req parts true = Err k.
Proof. apply (CollisionLoad.load_atomic the_cfg). facts_good. Qed.
Print Assumptions load_atomic.

(** over EVERY sequence of particle-list updates and loads the solver state and the reported
    outcomes are those of "install exactly when the load succeeds" *)
Theorem load_sequences : forall N req ops parts s,
  run the_cfg N req ops parts s = run_spec the_cfg N req ops parts s.
Proof. apply (CollisionLoad.load_sequences the_cfg). facts_good. Qed.
Print Assumptions load_sequences.

(** Ok => on the requested grid, in the requested basis, every ordered pair (i, j) holds
    exactly the numbers of the file of (particle i, particle j), never transformed under a
    wrong basis label *)
Theorem load_complete : forall dir N req parts a,
  newFromDirectory the_cfg dir N req parts true = Ok a ->
  a_N a = N /\ a_label a = req /\
  forall i j, i < length parts -> j < length parts ->
    exists f, dir (nth i parts 0) (nth j parts 0) = Some f /\
              a_blocks a i j = Some (mkblock (f_data f) N req true).
Proof. apply (CollisionLoad.load_complete the_cfg). facts_good. Qed.
Print Assumptions load_complete.

(** non-vacuity and a worked instance: two particles, files on N=7 in the Chebyshev basis,
    solver on N=5 asking for Cardinal; then a directory with a missing file *)
Definition dir_ok : directory := fun p q => Some (mkfile 7 Chebyshev (10 * p + q) ShapeOk).
Definition dir_missing : directory := fun p q => if (p =? 4) && (q =? 3) then None else dir_ok p q.
(** a file whose dataset is of lower rank than its metadata announces (numpy would broadcast) *)
(** a file that exists but is not HDF5 (e.g. a git-lfs pointer) *)
Definition dir_unreadable : directory :=
  fun p q => if (p =? 4) && (q =? 4) then Some (mkfile 0 UnknownBasis 0 FileUnreadable) else dir_ok p q.
Definition dir_malformed : directory :=
  fun p q => if (p =? 3) && (q =? 4) then Some (mkfile 7 Chebyshev 99 ShapeBroadcast) else dir_ok p q.
Example load_example :
  (match newFromDirectory the_cfg dir_ok 5 Cardinal [3; 4] true with
   | Ok a => a_blocks a 1 0
   | Err _ => None end) = Some (mkblock 43 5 Cardinal true) /\
  (let '(s, outs) := run the_cfg 5 Cardinal [OpParticles [3; 4]; OpLoad dir_ok; OpLoad dir_missing;
                                              OpLoad dir_malformed; OpLoad dir_unreadable] [] None in
   (match s with Some a => a_blocks a 0 1 | None => None end, outs)) =
  (Some (mkblock 34 5 Cardinal true),
   [Ok tt; Err CollisionLoadError; Err CollisionLoadError; Err CollisionLoadError]).
Proof. vm_compute. split; reflexivity. Qed.

(** * 1b. The two in-package call sites (facts [fd_prog], [manager_handlers],
       [unreviewed_call_paths] extracted from equationOfMotion.py, manager.py and a scan of
       every module of the package) *)

(** EOM.getBoltzmannFiniteDifference -- the only caller of changeBasis on a live array --
    leaves the spectral solver's array (numbers and label) and its basisN untouched, and the
    finite-difference solver applies its array only under the label that is its own basisN *)
Theorem fd_estimate_isolated : forall a bN s',
  a_label a = bN -> known bN = true ->
  fd_run fd_prog (fd_init a bN) = Ok s' ->
  fd_orig s' = a /\ fd_orig_basisN s' = bN /\
  fd_used s' <> [] /\ forall pr, In pr (fd_used s') -> fst pr = snd pr.
Proof. apply (CollisionLoad.fd_isolated fd_prog). facts_good. Qed.
Print Assumptions fd_estimate_isolated.

Example fd_estimate_runs :
  exists s', fd_run fd_prog (fd_init (mkcarray 5 Chebyshev (fun _ _ => None)) Chebyshev) = Ok s' /\
             fd_used s' = [(Cardinal, Cardinal)].
Proof. eexists. split; vm_compute; reflexivity. Qed.

(** The statement below is about ONE call site: the `boltzmannSolver.loadCollisions(...)`
    statement of WallGoManager.setupWallSolver with the handlers of the try statements around
    it ([manager_handlers], none in the shipped code): with off-equilibrium requested the
    complete array is installed or the load's own error leaves setupWallSolver.  That its two
    callers (solveWall, solveWallDetonation) call it by a bare statement outside any try, that
    nobody writes bIncludeOffEquilibrium, and that no other use of the loading / conversion
    entry points (incl. through one level of local aliases, in-place operators, out=) exists in
    the package is what the extractor's scan counts in [unreviewed_call_paths]; the second
    theorem is exactly as strong as that scan. *)
Theorem setupWallSolver_reraises_load_error : forall s load,
  manager_setup manager_handlers true s load =
  match snd load with Ok _ => Ok (fst load, true) | Err k => Err k end.
Proof. apply CollisionLoad.manager_propagates. facts_good. Qed.
Print Assumptions setupWallSolver_reraises_load_error.

Theorem scan_reports_no_unreviewed_use : unreviewed_call_paths = 0.
Proof. facts_good. Qed.
Print Assumptions scan_reports_no_unreviewed_use.

(** * 2. Interpolation: index arithmetic of evaluate -> truncate -> moveaxis -> reshape *)

Lemma get_reshape {A} new (a : arr A) idx mid :
  inb (shape a) mid -> ravel new idx = ravel (shape a) mid ->
  get (reshape new a) idx = get a mid.
Proof. intros H E. unfold reshape; cbn [get]. rewrite E, unravel_ravel by exact H. reflexivity. Qed.

Fixpoint index_of (a : nat) (l : list nat) : nat :=
  match l with [] => 0 | x :: l' => if x =? a then 0 else S (index_of a l') end.

Section Layout.
Context {X V : Type} (dX : X) (dV : V).
(** [ev x y [a; b; j; k]]: the source polynomial evaluated at pz-coordinate x (array axis 1)
    and pp-coordinate y (array axis 2), remaining components (a, b, j, k) *)
Variable ev : X -> X -> list nat -> V.

(** output layout of Polynomial.evaluate(points, axes): (points, remaining axes in order);
    row r of the points array is the coordinate along axes[r] *)
Definition evaluated (P Nt ns : nat) (rz rp : nat -> X) : arr V :=
  let G := grid_points Nt rz rp dX in
  mkarr [nth 1 (shape G) 0; P; P; ns; ns]
        (fun idx => match idx with
                    | p :: rest => ev (get G [index_of 1 eval_axes; p])
                                      (get G [index_of 2 eval_axes; p]) rest
                    | [] => dV
                    end).

Lemma grid_point_coordinates Nt rz rp al be c : al < Nt - 1 -> be < Nt - 1 -> c < 2 ->
  get (grid_points Nt rz rp dX) [c; al * (Nt - 1) + be] =
  match c with 0 => rz al | _ => rp be end.
Proof.
  intros Ha Hb Hc. unfold grid_points. set (n := Nt - 1) in *.
  rewrite get_reshape with (mid := [c; al; be]).
  - destruct c as [|[|c]]; [reflexivity|reflexivity|lia].
  - cbn. lia.
  - symmetry. apply (ravel_split_axis [2] [] n n [c] al be []). reflexivity.
Qed.

(** D2 (now fixed): entry (a, alpha, beta, b, j, k) of the interpolated data is the
    evaluation at target point (rz alpha, rp beta) of components (a, b, j, k) -- for ALL
    numbers of particles and all sizes *)
Theorem interp_entry_is_pair_evaluation : forall P Nt ns rz rp a al be b j k,
  Nt - 1 <= ns -> a < P -> al < Nt - 1 -> be < Nt - 1 -> b < P -> j < Nt - 1 -> k < Nt - 1 ->
  get (interp_layout P Nt (evaluated P Nt ns rz rp)) [a; al; be; b; j; k] =
  ev (rz al) (rp be) [a; b; j; k].
Proof.
  intros P Nt ns rz rp a al be b j k Hn Ha Hal Hbe Hb Hj Hk.
  unfold interp_layout. set (n := Nt - 1) in *.
  rewrite get_reshape with (mid := [a; al * n + be; b; j; k]).
  - cbn [moveaxis trunc_last2 evaluated get nth remove_at insert_at].
    replace (index_of 1 eval_axes) with 0 by (vm_compute; reflexivity).
    replace (index_of 2 eval_axes) with 1 by (vm_compute; reflexivity).
    fold n. rewrite !grid_point_coordinates by (fold n; lia). reflexivity.
  - cbn. fold n. rewrite !Nat.min_l by lia. repeat split; try lia. nia.
  - cbn [moveaxis trunc_last2 evaluated shape grid_points reshape length Nat.sub nth
         set_last2 remove_at insert_at].
    fold n. rewrite !Nat.min_l by lia.
    apply (ravel_split_axis [P] [P; n; n] n n [a] al be [b; j; k]). reflexivity.
Qed.
End Layout.
Print Assumptions interp_entry_is_pair_evaluation.

(** the generated pipeline on a tagged array, for the record (P=2, Nt=3, ns=3) *)
Example layout_example :
  to_list (interp_layout 2 3 (of_list 0 [4; 2; 2; 3; 3] (seq 0 144))) =
  [0; 1; 3; 4; 9; 10; 12; 13; 36; 37; 39; 40; 45; 46; 48; 49; 72; 73;
   75; 76; 81; 82; 84; 85; 108; 109; 111; 112; 117; 118; 120; 121; 18;
   19; 21; 22; 27; 28; 30; 31; 54; 55; 57; 58; 63; 64; 66; 67; 90; 91;
   93; 94; 99; 100; 102; 103; 126; 127; 129; 130; 135; 136; 138; 139].
Proof. vm_compute. reflexivity. Qed.

(** what D2 was: the same pipeline WITHOUT moving the points axis behind the first particle
    axis puts, already for P=2, the evaluation at point 0 of pair (1,0) where point (0,1) of
    pair (0,0) belongs (so the theorem above is not a triviality of reshape) *)
Example moveaxis_is_needed :
  let E := of_list 0 [4; 2; 2; 3; 3] (seq 0 144) in
  get (reshape [2; 2; 2; 2; 2; 2] (trunc_last2 2 2 E)) [0; 0; 1; 0; 0; 0] = get E [0; 1; 0; 0; 0] /\
  get (interp_layout 2 3 E) [0; 0; 1; 0; 0; 0] = get E [1; 0; 0; 0; 0].
Proof. vm_compute. split; reflexivity. Qed.

(** ** 2b. The interpolated operator acts on low-order distributions like the source
       operator, evaluated at the new grid points (all P, all sizes; over R) *)
Section Action.
Local Open Scope R_scope.
Definition Rsum := sumn R 0 Rplus.

Lemma Rsum_S n f : Rsum (S n) f = Rsum n f + f n. Proof. reflexivity. Qed.
Lemma Rsum_0 f : Rsum 0 f = 0. Proof. reflexivity. Qed.

Lemma Rsum_ext n f g : (forall i, (i < n)%nat -> f i = g i) -> Rsum n f = Rsum n g.
Proof.
  induction n as [|n IH]; intros H; [reflexivity|].
  rewrite !Rsum_S, IH by (intros; apply H; lia). rewrite H by lia. reflexivity.
Qed.
Lemma Rsum_zero n f : (forall i, (i < n)%nat -> f i = 0) -> Rsum n f = 0.
Proof.
  induction n as [|n IH]; intros H; [reflexivity|].
  rewrite Rsum_S, IH by (intros; apply H; lia). rewrite H by lia. ring.
Qed.
Lemma Rsum_plus n f g : Rsum n (fun i => f i + g i) = Rsum n f + Rsum n g.
Proof. induction n as [|n IH]; [rewrite !Rsum_0; ring|]. rewrite !Rsum_S, IH. ring. Qed.
Lemma Rsum_mul_r n f x : Rsum n f * x = Rsum n (fun i => f i * x).
Proof. induction n as [|n IH]; [rewrite !Rsum_0; ring|]. rewrite !Rsum_S, <- IH. ring. Qed.
Lemma Rsum_swap n m (f : nat -> nat -> R) :
  Rsum n (fun i => Rsum m (fun j => f i j)) = Rsum m (fun j => Rsum n (fun i => f i j)).
Proof.
  induction n as [|n IH].
  - rewrite Rsum_0. symmetry. apply Rsum_zero. reflexivity.
  - rewrite Rsum_S, IH. symmetry.
    rewrite (Rsum_ext m _ (fun j => Rsum n (fun i => f i j) + f n j))
      by (intros; reflexivity).
    apply Rsum_plus.
Qed.
(** summing further than the support changes nothing *)
Lemma Rsum_extend n m f : (n <= m)%nat -> (forall i, (n <= i < m)%nat -> f i = 0) ->
  Rsum n f = Rsum m f.
Proof.
  intros Hnm. induction m as [|m IH]; intros Hz.
  - replace n with 0%nat by lia. reflexivity.
  - destruct (Nat.eq_dec n (S m)) as [->|Hne]; [reflexivity|].
    rewrite Rsum_S, <- IH by (try lia; intros; apply Hz; lia).
    rewrite Hz by lia. ring.
Qed.

Variables (P ns : nat).
(** source array (polynomial axes in the Chebyshev basis, momentum axes in the Cardinal one) *)
Variable C : list nat -> R.
(** cardinal functions of the SOURCE grid along pz and pp (vanishing at the dropped endpoints) *)
Variables phi psi : nat -> R -> R.

(** Polynomial.evaluate on the two momentum axes: sum of coefficient x cardinal x cardinal *)
Definition ev_card (x y : R) (rest : list nat) : R :=
  match rest with
  | [a; b; j; k] => Rsum ns (fun al' => Rsum ns (fun be' =>
                      C [a; al'; be'; b; j; k] * phi al' x * psi be' y))
  | _ => 0
  end.

Definition S3 (n1 n2 n3 : nat) (f : nat -> nat -> nat -> R) : R :=
  Rsum n1 (fun b => Rsum n2 (fun j => Rsum n3 (fun k => f b j k))).
Definition S2 (f : nat -> nat -> R) : R := Rsum ns (fun a => Rsum ns (fun b => f a b)).

(** the source operator applied to Chebyshev coefficients c: values at the source nodes *)
Definition act_src (c : nat -> nat -> nat -> R) (a al' be' : nat) : R :=
  S3 P ns ns (fun b j k => C [a; al'; be'; b; j; k] * c b j k).
(** the polynomial through node values v (zero at the dropped endpoints) *)
Definition interpolant (v : nat -> nat -> R) (x y : R) : R :=
  S2 (fun al' be' => v al' be' * phi al' x * psi be' y).

Lemma S3_ext n1 n2 n3 f g :
  (forall b j k, (b < n1)%nat -> (j < n2)%nat -> (k < n3)%nat -> f b j k = g b j k) ->
  S3 n1 n2 n3 f = S3 n1 n2 n3 g.
Proof. intros H. unfold S3. repeat (apply Rsum_ext; intros). apply H; assumption. Qed.

Lemma S3_S2_swap n1 n2 n3 (h : nat -> nat -> nat -> nat -> nat -> R) :
  S3 n1 n2 n3 (fun b j k => S2 (fun x y => h b j k x y)) =
  S2 (fun x y => S3 n1 n2 n3 (fun b j k => h b j k x y)).
Proof.
  unfold S3, S2.
  (* move the two inner sums outwards one level at a time *)
  transitivity (Rsum n1 (fun b => Rsum n2 (fun j => Rsum ns (fun x => Rsum ns (fun y =>
                 Rsum n3 (fun k => h b j k x y)))))).
  { repeat (apply Rsum_ext; intros). rewrite Rsum_swap. apply Rsum_ext; intros.
    apply Rsum_swap. }
  transitivity (Rsum n1 (fun b => Rsum ns (fun x => Rsum ns (fun y => Rsum n2 (fun j =>
                 Rsum n3 (fun k => h b j k x y)))))).
  { apply Rsum_ext; intros. rewrite Rsum_swap. apply Rsum_ext; intros. apply Rsum_swap. }
  rewrite Rsum_swap. apply Rsum_ext; intros. apply Rsum_swap.
Qed.

Variables (Nt : nat) (rz rp : nat -> R).
Let n := (Nt - 1)%nat.
(** the array interpolateCollisionArray builds (generated pipeline on the modelled evaluate) *)
Definition interpolated : arr R :=
  interp_layout P Nt (evaluated 0 0 ev_card P Nt ns rz rp).
Definition act_tgt (c : nat -> nat -> nat -> R) (a al be : nat) : R :=
  S3 P n n (fun b j k => get interpolated [a; al; be; b; j; k] * c b j k).

Theorem interp_low_order_exact : forall c a al be,
  (n <= ns)%nat -> (a < P)%nat -> (al < n)%nat -> (be < n)%nat ->
  (forall b j k, (n <= j)%nat \/ (n <= k)%nat -> c b j k = 0) ->
  act_tgt c a al be = interpolant (act_src c a) (rz al) (rp be).
Proof.
  intros c a al be Hn Ha Hal Hbe Hlow. unfold act_tgt, interpolant, act_src.
  (* entries of the interpolated array are point evaluations of the pair *)
  rewrite (S3_ext P n n _ (fun b j k => ev_card (rz al) (rp be) [a; b; j; k] * c b j k)).
  2:{ intros b j k Hb Hj Hk. unfold interpolated.
      rewrite (interp_entry_is_pair_evaluation 0 0 ev_card) by (fold n; lia). reflexivity. }
  (* the truncated sums equal the full ones on low-order coefficients *)
  transitivity (S3 P ns ns (fun b j k => ev_card (rz al) (rp be) [a; b; j; k] * c b j k)).
  { unfold S3. apply Rsum_ext; intros b Hb.
    transitivity (Rsum n (fun j => Rsum ns (fun k =>
                    ev_card (rz al) (rp be) [a; b; j; k] * c b j k))).
    - apply Rsum_ext; intros j Hj. apply Rsum_extend; [exact Hn|].
      intros k Hk. rewrite Hlow by (right; lia). ring.
    - apply Rsum_extend; [exact Hn|]. intros j Hj. apply Rsum_zero.
      intros k Hk. rewrite Hlow by (left; lia). ring. }
  (* exchange the order of summation *)
  cbn [ev_card].
  rewrite (S3_ext P ns ns _ (fun b j k => S2 (fun x y =>
             C [a; x; y; b; j; k] * phi x (rz al) * psi y (rp be) * c b j k))).
  2:{ intros. unfold S2. rewrite Rsum_mul_r. apply Rsum_ext; intros. apply Rsum_mul_r. }
  rewrite S3_S2_swap. unfold S2. apply Rsum_ext; intros x Hx. apply Rsum_ext; intros y Hy.
  unfold S3. rewrite !Rsum_mul_r. apply Rsum_ext; intros b Hb.
  rewrite !Rsum_mul_r. apply Rsum_ext; intros j Hj.
  rewrite !Rsum_mul_r. apply Rsum_ext; intros k Hk. ring.
Qed.

(** pairwise independence: block (a, b) of the result only depends on block (a, b) of the
    source -- whatever other particles are present *)
End Action.

Theorem interp_low_order_exact_thm :
  forall (P ns : nat) (C : list nat -> R) (phi psi : nat -> R -> R) (Nt : nat)
         (rz rp : nat -> R) (c : nat -> nat -> nat -> R) (a al be : nat),
  (Nt - 1 <= ns)%nat -> (a < P)%nat -> (al < Nt - 1)%nat -> (be < Nt - 1)%nat ->
  (forall b j k, (Nt - 1 <= j)%nat \/ (Nt - 1 <= k)%nat -> c b j k = 0%R) ->
  act_tgt P ns C phi psi Nt rz rp c a al be =
  interpolant ns phi psi (act_src P ns C c a) (rz al) (rp be).
Proof. exact interp_low_order_exact. Qed.
Print Assumptions interp_low_order_exact_thm.

Theorem interp_pairwise_independent :
  forall (P P' ns : nat) (C C' : list nat -> R) (phi psi : nat -> R -> R) (Nt : nat)
         (rz rp : nat -> R) (a b a' b' al be j k : nat),
  (Nt - 1 <= ns)%nat -> (a < P)%nat -> (b < P)%nat -> (a' < P')%nat -> (b' < P')%nat ->
  (al < Nt - 1)%nat -> (be < Nt - 1)%nat -> (j < Nt - 1)%nat -> (k < Nt - 1)%nat ->
  (forall x y, C [a; x; y; b; j; k] = C' [a'; x; y; b'; j; k]) ->
  get (interpolated P ns C phi psi Nt rz rp) [a; al; be; b; j; k] =
  get (interpolated P' ns C' phi psi Nt rz rp) [a'; al; be; b'; j; k].
Proof.
  intros P P' ns C C' phi psi Nt rz rp a b a' b' al be j k Hn Ha Hb Ha' Hb' Hal Hbe Hj Hk Hsame.
  unfold interpolated.
  rewrite !(interp_entry_is_pair_evaluation 0%R 0%R) by lia.
  cbn [ev_card]. apply Rsum_ext; intros x Hx. apply Rsum_ext; intros y Hy.
  rewrite Hsame. reflexivity.
Qed.
Print Assumptions interp_pairwise_independent.

(** * 3. Error kinds: every fault of the quantifier is a CollisionLoadError, and a load
       fails ONLY for those faults *)
(** D8 (now fixed): missing file, oversized target, size or basis mismatch between files; and
    (fixed in be912d0) a dataset that is absent or whose shape is not the announced one --
    [wf_dir] only asks for recognised basis names, datasets may be malformed *)
Theorem load_error_kind : forall dir N req parts k,
  wf_dir dir parts -> known req = true -> parts <> [] ->
  newFromDirectory the_cfg dir N req parts true = Err k -> k = CollisionLoadError.
Proof. apply (CollisionLoad.load_error_kind the_cfg); facts_good. Qed.
Print Assumptions load_error_kind.

Theorem load_succeeds_iff : forall dir N req parts,
  known req = true -> parts <> [] -> wf_dir dir parts ->
  ((exists a, newFromDirectory the_cfg dir N req parts true = Ok a) <->
   fault_free dir N parts).
Proof. apply (CollisionLoad.load_succeeds_iff the_cfg); facts_good. Qed.
Print Assumptions load_succeeds_iff.

(** * 4. Basis change: the collision operator acts identically (mathcomp matrices, any field) *)
From mathcomp Require Import all_ssreflect all_algebra.
From GenC14 Require Import BasisGen.
Set Implicit Arguments. Unset Strict Implicit. Unset Printing Implicit Defensive.
Import GRing.Theory.
Local Open Scope ring_scope.

Section BasisChange.
Variable F : fieldType.
Variable n : nat.
(** np.linalg.inv: a right inverse on invertible matrices (LAPACK; hypothesis) *)
Variable inv : 'M[F]_n -> 'M[F]_n.
Hypothesis inv_ok : forall X : 'M[F]_n, X \in unitmx -> X *m inv X = 1%:M.

Lemma inv_is_invmx X : X \in unitmx -> inv X = invmx X.
Proof. by move=> uX; rewrite -[LHS]mul1mx -(mulVmx uX) -mulmxA inv_ok // mulmx1. Qed.

(** the matrix applied to a DISTRIBUTION (inverseTranspose=False) and to the COLLISION ARRAY
    (the generated flag), for either direction of the change *)
Definition tnF (toCheb : bool) := tn_matrix inv toCheb false.
Definition tnC (toCheb : bool) := tn_matrix inv toCheb collision_invT.

(** "((M^-1)^-1)^T is right multiplication by M": with A the matrix that maps the OLD
    coefficients of a distribution to the NEW ones, the array gets A^-T *)
Lemma tnC_is_inverse_transpose toCheb (T : 'M[F]_n) : T \in unitmx ->
  tnC toCheb T = (invmx (tnF toCheb T))^T /\ tnF toCheb T \in unitmx.
Proof.
  move=> uT; rewrite /tnC /tnF /tn_matrix /collision_invT; case: toCheb => /=.
  - have uI : invmx T \in unitmx by rewrite unitmx_inv.
    by rewrite !inv_is_invmx ?uT ?uI // inv_is_invmx.
  - by rewrite inv_is_invmx.
Qed.

(** one (a, alpha, beta, b) block: X[j,k]; the distribution of particle b: f[j,k];
    action = sum_jk X[j,k] f[j,k] *)
Definition act (X f : 'M[F]_n) : F := \tr (X^T *m f).

Lemma act_sum (X f : 'M[F]_n) : act X f = \sum_j \sum_k X j k * f j k.
Proof.
  rewrite /act /mxtrace exchange_big /=. apply: eq_bigr => j _.
  rewrite mxE. by apply: eq_bigr => k _; rewrite mxE.
Qed.

(** the contraction of the code is a LEFT multiplication along the axis
    ([contraction_left]): along axis j (rows) X -> tn1 *m X, along axis k (columns)
    X -> X *m tn2^T *)
Definition along_both (t1 t2 X : 'M[F]_n) : 'M[F]_n :=
  if contraction_left then t1 *m X *m t2^T else t1^T *m X *m t2.

Theorem basis_change_action (toCheb : bool) (T1 T2 X f : 'M[F]_n) :
  T1 \in unitmx -> T2 \in unitmx ->
  act (along_both (tnC toCheb T1) (tnC toCheb T2) X)
      (along_both (tnF toCheb T1) (tnF toCheb T2) f) = act X f.
Proof.
  move=> u1 u2.
  have [-> uA1] := tnC_is_inverse_transpose toCheb u1.
  have [-> uA2] := tnC_is_inverse_transpose toCheb u2.
  set A1 := tnF toCheb T1 in uA1 *. set A2 := tnF toCheb T2 in uA2 *.
  rewrite /along_both /contraction_left /act.
  rewrite !trmx_mul !trmxK.
  rewrite -!mulmxA (mulmxA (invmx A1)) (mulVmx uA1) mul1mx.
  by rewrite mxtrace_mulC -!mulmxA -trmx_mul (mulVmx uA2) trmx1 !mulmx1.
Qed.

(** the two directions compose to the identity on the array (loading then converting back
    gives the file's numbers) *)
Theorem basis_change_roundtrip (T1 T2 X : 'M[F]_n) : T1 \in unitmx -> T2 \in unitmx ->
  along_both (tnC false T1) (tnC false T2)
             (along_both (tnC true T1) (tnC true T2) X) = X.
Proof.
  move=> u1 u2. rewrite /along_both /contraction_left /tnC /tn_matrix /collision_invT /=.
  have uI1 : invmx T1 \in unitmx by rewrite unitmx_inv.
  have uI2 : invmx T2 \in unitmx by rewrite unitmx_inv.
  rewrite (inv_is_invmx u1) (inv_is_invmx u2) (inv_is_invmx uI1) (inv_is_invmx uI2).
  rewrite !invmxK !trmxK.
  rewrite !mulmxA -trmx_mul (mulmxV u1) trmx1 mul1mx.
  by rewrite -mulmxA (mulmxV u2) mulmx1.
Qed.
End BasisChange.

(** hypotheses are satisfiable: the identity matrix over the rationals, inv := invmx *)
Example basis_change_nonvacuous :
  act (along_both (tnC (@invmx rat_fieldType 2) true 1%:M) (tnC (@invmx _ 2) true 1%:M) 1%:M)
      (along_both (tnF (@invmx _ 2) true 1%:M) (tnF (@invmx _ 2) true 1%:M) 1%:M)
  = act (1%:M : 'M[rat]_2) 1%:M.
Proof.
  apply: basis_change_action; rewrite ?unitmx1 //.
  by move=> X uX; rewrite mulmxV.
Qed.

Theorem basis_change_action_thm : forall (F : fieldType) (n : nat) (inv : 'M[F]_n -> 'M[F]_n),
  (forall X : 'M[F]_n, X \in unitmx -> X *m inv X = 1%:M) ->
  forall (toCheb : bool) (T1 T2 X f : 'M[F]_n), T1 \in unitmx -> T2 \in unitmx ->
  act (along_both (tnC inv toCheb T1) (tnC inv toCheb T2) X)
      (along_both (tnF inv toCheb T1) (tnF inv toCheb T2) f) = act X f.
Proof. exact basis_change_action. Qed.
Print Assumptions basis_change_action_thm.

Theorem basis_change_roundtrip_thm : forall (F : fieldType) (n : nat) (inv : 'M[F]_n -> 'M[F]_n),
  (forall X : 'M[F]_n, X \in unitmx -> X *m inv X = 1%:M) ->
  forall (T1 T2 X : 'M[F]_n), T1 \in unitmx -> T2 \in unitmx ->
  along_both (tnC inv false T1) (tnC inv false T2)
             (along_both (tnC inv true T1) (tnC inv true T2) X) = X.
Proof. exact basis_change_roundtrip. Qed.
Print Assumptions basis_change_roundtrip_thm.
