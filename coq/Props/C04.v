(** C04 -- the plasma profile inside the wall conserves T^{30}, T^{33} pointwise; asymptotes.
    Every statement is about the model GENERATED on this run (module GenC04.EomPlasma) from
    helpers.gammaSq, EOM.plasmaVelocity, EOM.temperatureProfileEqLHS, EOM.deltaToTmunu, the
    WHOLE of EOM.findPlasmaProfilePoint (the bracket-search loop as a fuel-indexed Fixpoint)
    and the tail of Hydrodynamics.findHydroBoundaries (sign conventions of c1, velocityMid).
    External numerics are fields of the generated record [env]:
      derivT, evaluate        the effective potential and its T-derivative (any functions);
      minimize_bounded        scipy.optimize.minimize_scalar(method="Bounded", options={xatol}) -> .x
                              (the generated call hands it the translated xatol)
      root_bracketed          scipy.optimize.root_scalar(bracket=, xtol=, rtol=) -> .root
                              (the generated call hands it the translated xtol and rtol)
    and are constrained only by explicit hypotheses of the theorems that need them. *)
From Coq Require Import Reals Lra Lia List Psatz.
From WG Require Import Lib.NumpySem Lib.Plasma Lib.PlasmaLoop.
From GenC04 Require Import EomPlasma.
Import ListNotations.
Local Open Scope R_scope.

(** ** ties between generated definitions and the mathematics of Lib/Plasma.v *)
Definition enthalpy (e : env) (fields : FieldPt) (T : R) : R := - T * derivT e fields T.
Definition kinetic (dPhidz : FieldPt) : R := 1 / 2 * sum_list (map (fun x : R => x ^ 2) dPhidz).

Lemma gammaSq_is_g2 v : gammaSq v = g2 v.
Proof. unfold gammaSq, g2. reflexivity. Qed.

Lemma plasmaVelocity_is_vroot e fields T s1 :
  plasmaVelocity e fields T s1 = vroot (enthalpy e fields T) s1.
Proof.
  unfold plasmaVelocity, vroot, enthalpy. cbv zeta.
  match goal with |- (?a + sqrt ?x) / ?d = (?b + sqrt ?y) / ?d' =>
    replace x with y by ring; replace a with b by ring; replace d with d' by ring end.
  reflexivity.
Qed.

Lemma LHS_form e fields dPhidz T s1 s2 :
  temperatureProfileEqLHS e fields dPhidz T s1 s2 =
  kinetic dPhidz - evaluate e fields T
  + (sqrt (4 * s1 ^ 2 + enthalpy e fields T ^ 2) - enthalpy e fields T) / 2 - s2.
Proof.
  unfold temperatureProfileEqLHS, kinetic, enthalpy. cbv zeta.
  match goal with |- context [sqrt ?x] =>
    replace x with (4 * s1 ^ 2 + (- T * derivT e fields T) ^ 2) by ring end.
  field.
Qed.

(** the stopping tolerances that the generated call hands to the root finder *)
Definition XTOL (e : env) : R := 1 / 10000000000 * Tnucl e.
(** ... and to the bounded minimiser (absolute tolerance on the position, proportional to the scale) *)
Definition XATOL (Tplus Tminus : R) : R := 1 / 10000000 * Rmax Tplus Tminus.
Definition RTOL (e : env) : R := errTol e / 10.

(** ** T^{30}: the generated velocity solves  w gamma^2(v) v = s1,  |v| < 1, uniquely *)
Lemma velocity_T30 e fields T s1 :
  0 < enthalpy e fields T -> s1 <> 0 ->
  let v := plasmaVelocity e fields T s1 in
  enthalpy e fields T * gammaSq v * v = s1 /\ -1 < v < 1 /\
  (forall v', -1 < v' < 1 -> enthalpy e fields T * gammaSq v' * v' = s1 -> v' = v).
Proof.
  intros Hw Hs v. unfold v. rewrite plasmaVelocity_is_vroot. unfold gammaSq.
  split; [apply vroot_solves; assumption|]. split; [apply vroot_subluminal; assumption|].
  intros v' Hv' E. apply vroot_unique; assumption.
Qed.

(** ** T^{33}: the residual of the T^{33} equation at (T, v(T)) IS the generated LHS *)
Lemma T33_residual e fields dPhidz T s1 s2 :
  0 < enthalpy e fields T -> s1 <> 0 ->
  let v := plasmaVelocity e fields T s1 in
  kinetic dPhidz - evaluate e fields T + enthalpy e fields T * gammaSq v * v ^ 2 - s2
  = temperatureProfileEqLHS e fields dPhidz T s1 s2.
Proof.
  intros Hw Hs v. rewrite LHS_form. unfold v. rewrite plasmaVelocity_is_vroot. unfold gammaSq.
  replace (vroot (enthalpy e fields T) s1 ^ 2)
    with (vroot (enthalpy e fields T) s1 * vroot (enthalpy e fields T) s1) by ring.
  rewrite vroot_T33 by assumption. ring.
Qed.

Lemma LHS_zero_iff_T33 e fields dPhidz T s1 s2 :
  0 < enthalpy e fields T -> s1 <> 0 ->
  let v := plasmaVelocity e fields T s1 in
  temperatureProfileEqLHS e fields dPhidz T s1 s2 = 0 <->
  kinetic dPhidz - evaluate e fields T + enthalpy e fields T * gammaSq v * v ^ 2 = s2.
Proof.
  intros Hw Hs v. rewrite <- (T33_residual e fields dPhidz T s1 s2 Hw Hs). fold v. split; intro; lra.
Qed.

(** ** the out-of-equilibrium stress: deltaToTmunu is the momentum flux of the moments *)
Lemma generated_u v : sqrt (gammaSq v) = gam v.
Proof. unfold gam. rewrite gammaSq_is_g2. reflexivity. Qed.

(** components (3,0) and (3,3) of Eq.(14), summed over the particle list *)
Definition eq14_sum (e : env) (index : nat) (fields : FieldPt) (v : R) (D : Deltas) (mu nu : nat) :=
  sum_list (map (fun ip : nat * particle =>
      Tout14 (totalDOFs (snd ip)) (msqVacuum (snd ip) fields) (Delta00 D (fst ip) index)
             (Delta02 D (fst ip) index) (Delta20 D (fst ip) index) (Delta11 D (fst ip) index) v mu nu)
    (enumerate (particles e))).

Lemma deltaToTmunu_eq14 e index fields v D :
  deltaToTmunu e index fields v D = (eq14_sum e index fields v D 3 0, eq14_sum e index fields v D 3 3).
Proof.
  unfold deltaToTmunu, eq14_sum. cbv zeta. rewrite !generated_u.
  f_equal; apply sum_list_map_ext; intros [i p] _; cbn [fst snd]; unfold Tout14, eta; cbn [Nat.eqb];
    rewrite ?uvec_0, ?uvec_3, ?ubar_0, ?ubar_3; field.
Qed.

(** ... and the moments are those of ANY ensembles of momenta, one per particle: the result
    is sum_i N_i * (momentum flux of ensemble i); Delta00 and the masses drop out *)
Lemma deltaToTmunu_flux e index fields v D (ens : nat -> list mom) :
  -1 < v < 1 ->
  (forall i, Delta20 D i index = moment 2 0 (ens i) /\ Delta02 D i index = moment 0 2 (ens i) /\
             Delta11 D i index = moment 1 1 (ens i)) ->
  deltaToTmunu e index fields v D =
  (sum_list (map (fun ip : nat * particle => totalDOFs (snd ip) * flux v (ens (fst ip)) 3 0) (enumerate (particles e))),
   sum_list (map (fun ip : nat * particle => totalDOFs (snd ip) * flux v (ens (fst ip)) 3 3) (enumerate (particles e)))).
Proof.
  intros Hv HD. rewrite deltaToTmunu_eq14. unfold eq14_sum.
  f_equal; apply sum_list_map_ext; intros [i p] _; cbn [fst snd];
    destruct (HD i) as [-> [-> ->]]; apply Tout14_is_flux; auto.
Qed.

Lemma deltaToTmunu_zero e index fields v D :
  (forall i, Delta00 D i index = 0 /\ Delta02 D i index = 0 /\ Delta20 D i index = 0 /\ Delta11 D i index = 0) ->
  deltaToTmunu e index fields v D = (0, 0).
Proof.
  intro H. rewrite deltaToTmunu_eq14. unfold eq14_sum.
  f_equal; apply sum_list_map_zero; intros [i p] _; cbn [fst snd];
    destruct (H i) as [-> [-> [-> ->]]]; unfold Tout14; ring.
Qed.

(** ** asymptotes: with the boundary constants of findHydroBoundaries, (T+, -v+) and (T-, -v-)
       solve both equations where the field gradient vanishes and the field sits in a phase *)
Section Asymptotes.
Variable e : env.
Variable h : H_env.
Variables vp vm Tp Tm : R.
Let c1 := fst (fst (fst (fst (H_hydroBoundaries h vp vm Tp Tm)))).
Let c2 := snd (fst (fst (fst (H_hydroBoundaries h vp vm Tp Tm)))).

Lemma boundaries_form :
  H_hydroBoundaries h vp vm Tp Tm =
  (- (wHighT h Tp * g2 vp * vp), pHighT h Tp + wHighT h Tp * g2 vp * vp ^ 2, Tp, Tm, - ((vp + vm) / 2)).
Proof. unfold H_hydroBoundaries. cbv zeta. rewrite gammaSq_is_g2. repeat f_equal; field. Qed.

Lemma c1_form : c1 = - (wHighT h Tp * g2 vp * vp).
Proof. unfold c1. rewrite boundaries_form. reflexivity. Qed.
Lemma c2_form : c2 = pHighT h Tp + wHighT h Tp * g2 vp * vp ^ 2.
Proof. unfold c2. rewrite boundaries_form. reflexivity. Qed.

(** a state (w, p, velocity -u) with  w g2(u) u = -c1  and  p + w g2(u) u^2 = c2  solves both *)
Lemma state_solves fields dPhidz T (w p u : R) :
  Forall (fun x => x = 0) dPhidz ->
  evaluate e fields T = - p -> enthalpy e fields T = w -> 0 < w -> -1 < u < 1 -> u <> 0 ->
  w * g2 u * u = - c1 -> p + w * g2 u * u ^ 2 = c2 ->
  temperatureProfileEqLHS e fields dPhidz T c1 c2 = 0 /\ plasmaVelocity e fields T c1 = - u.
Proof.
  intros Hd HV Hw Hpos Hu Hu0 E1 E2.
  assert (Hc1 : c1 <> 0).
  { intro Z. rewrite Z in E1. pose proof (g2_pos u Hu).
    assert (w * g2 u <> 0) by nra.
    assert (u = 0); [|contradiction].
    apply (Rmult_eq_reg_l (w * g2 u)); [lra|assumption]. }
  assert (Hwe : 0 < enthalpy e fields T) by lra.
  assert (Hv : plasmaVelocity e fields T c1 = - u).
  { symmetry. apply (velocity_T30 e fields T c1 Hwe Hc1); [lra|].
    rewrite Hw, gammaSq_is_g2. unfold g2 in *. replace (- u * - u) with (u * u) by ring. lra. }
  split; [|exact Hv].
  apply (LHS_zero_iff_T33 e fields dPhidz T c1 c2 Hwe Hc1). cbv zeta. rewrite Hv, Hw, HV.
  unfold kinetic. rewrite (sum_sq_zero _ Hd), gammaSq_is_g2. unfold g2 in *.
  replace (- u * - u) with (u * u) by ring. replace ((- u) ^ 2) with (u ^ 2) by ring. lra.
Qed.

(** in front of the wall: symmetric phase at T+, velocity -v+ *)
Lemma asymptote_front_ fields dPhidz :
  Forall (fun x => x = 0) dPhidz ->
  evaluate e fields Tp = - pHighT h Tp -> enthalpy e fields Tp = wHighT h Tp ->
  0 < wHighT h Tp -> -1 < vp < 1 -> vp <> 0 ->
  temperatureProfileEqLHS e fields dPhidz Tp c1 c2 = 0 /\ plasmaVelocity e fields Tp c1 = - vp.
Proof.
  intros. apply (state_solves fields dPhidz Tp (wHighT h Tp) (pHighT h Tp) vp); try assumption;
    rewrite ?c1_form, ?c2_form; lra.
Qed.

(** behind the wall: broken phase at T-, velocity -v-, given that (v+,T+) and (v-,T-) satisfy the
    junction conditions (the matching equations solved by Hydrodynamics, property C02) *)
Lemma asymptote_back_ fields dPhidz (wm pm : R) :
  Forall (fun x => x = 0) dPhidz ->
  evaluate e fields Tm = - pm -> enthalpy e fields Tm = wm ->
  0 < wm -> -1 < vm < 1 -> vm <> 0 ->
  wm * g2 vm * vm = wHighT h Tp * g2 vp * vp ->
  pm + wm * g2 vm * vm ^ 2 = pHighT h Tp + wHighT h Tp * g2 vp * vp ^ 2 ->
  temperatureProfileEqLHS e fields dPhidz Tm c1 c2 = 0 /\ plasmaVelocity e fields Tm c1 = - vm.
Proof.
  intros. apply (state_solves fields dPhidz Tm wm pm vm); try assumption;
    rewrite ?c1_form, ?c2_form; lra.
Qed.
End Asymptotes.

(** ** the bracket-search loop *)
Section Loop.
Variable e : env.
Variables (fields dPhidz : FieldPt) (s1 s2 M : R).
Notation F := (fun T : R => temperatureProfileEqLHS e fields dPhidz T s1 s2).
Notation loop := (fun fuel => findPlasmaProfilePoint_loop e fuel fields dPhidz s1 s2 M).

Lemma loop_S fuel a b i :
  loop (S fuel) a b i =
  if Rlt_dec (F b) 0
  then (if Rlt_dec 100 i then Some (inl (0, 0)) else loop fuel (a * M) (b * M) (i + 1))
  else Some (inr (a, b, i)).
Proof. reflexivity. Qed.

(** the counter bounds the number of turns: fuel >= 102 - i is always enough *)
Lemma loop_terminates fuel : forall a b i, i <= 101 -> 102 - i <= INR fuel -> loop fuel a b i <> None.
Proof.
  induction fuel as [|fuel IH]; intros a b i Hi Hf.
  - cbn [INR] in Hf. lra.
  - rewrite loop_S. destruct (Rlt_dec (F b) 0); [|discriminate].
    destruct (Rlt_dec 100 i); [discriminate|].
    apply IH; [lra|]. rewrite S_INR in Hf. lra.
Qed.

(** the loop can only give up with (0,0), after more than 100 enlargements *)
Lemma loop_gives_up fuel : forall a b i r, loop fuel a b i = Some (inl r) -> r = (0, 0).
Proof.
  induction fuel as [|fuel IH]; intros a b i r H; [discriminate|].
  rewrite loop_S in H. destruct (Rlt_dec (F b) 0); [|discriminate].
  destruct (Rlt_dec 100 i); [congruence|]. eapply IH; eassumption.
Qed.

(** what it returns otherwise is a sign-change bracket (a', a' M) reached by k multiplications *)
Lemma loop_bracket fuel : forall a b i a' b' i',
  b = a * M -> F a < 0 -> loop fuel a b i = Some (inr (a', b', i')) ->
  F a' < 0 /\ 0 <= F b' /\ b' = a' * M /\ exists k : nat, a' = a * M ^ k.
Proof.
  induction fuel as [|fuel IH]; intros a b i a' b' i' Hb Ha H; [discriminate|].
  rewrite loop_S in H. destruct (Rlt_dec (F b) 0) as [Hlt|Hge].
  - destruct (Rlt_dec 100 i); [discriminate|].
    destruct (IH (a * M) (b * M) (i + 1) a' b' i') as [A [B [C [k K]]]];
      [rewrite Hb; ring | rewrite <- Hb; exact Hlt | exact H |].
    repeat split; try assumption. exists (S k). rewrite K. cbn [pow]. ring.
  - injection H as <- <- <-. repeat split; [assumption|lra|assumption|]. exists 0%nat. cbn [pow]. ring.
Qed.

(** if the LHS stays negative along the whole geometric sequence the loop gives up *)
Lemma loop_all_negative fuel : forall a b i,
  (forall j : nat, F (b * M ^ j) < 0) -> forall r, loop fuel a b i <> Some (inr r).
Proof.
  induction fuel as [|fuel IH]; intros a b i Hall r; [discriminate|].
  rewrite loop_S. pose proof (Hall 0%nat) as H0. cbn [pow] in H0. rewrite Rmult_1_r in H0.
  destruct (Rlt_dec (F b) 0); [|contradiction].
  destruct (Rlt_dec 100 i); [discriminate|].
  apply IH. intro j. replace (b * M * M ^ j) with (b * M ^ (S j)) by (cbn [pow]; ring). apply Hall.
Qed.

(** exact evaluation: the bracket is found at the FIRST k for which the LHS at tmin M^(k+1) is
    not negative (k <= 100 enlargements are allowed) *)
Lemma loop_eval : forall (k fuel : nat) a b i,
  b = a * M -> (k < fuel)%nat -> i + INR k <= 101 ->
  (forall j, (j < k)%nat -> F (b * M ^ j) < 0) -> ~ F (b * M ^ k) < 0 ->
  loop fuel a b i = Some (inr (a * M ^ k, b * M ^ k, i + INR k)).
Proof.
  induction k as [|k IH]; intros fuel a b i Hb Hf Hi Hneg Hpos.
  - destruct fuel as [|fuel]; [lia|]. rewrite loop_S. cbn [pow INR] in *.
    replace (b * 1) with b in Hpos by ring.
    destruct (Rlt_dec (F b) 0); [contradiction|]. rewrite !Rmult_1_r, Rplus_0_r. reflexivity.
  - destruct fuel as [|fuel]; [lia|]. rewrite loop_S.
    assert (H0 : F b < 0). { specialize (Hneg 0%nat). cbn [pow] in Hneg. replace (b * 1) with b in Hneg by ring. apply Hneg. lia. }
    destruct (Rlt_dec (F b) 0); [|contradiction].
    rewrite S_INR in Hi. pose proof (pos_INR k).
    destruct (Rlt_dec 100 i); [lra|].
    rewrite (IH fuel (a * M) (b * M) (i + 1)); [ | rewrite Hb; ring | lia | lra | | ].
    + rewrite S_INR. cbn [pow]. replace (a * M * M ^ k) with (a * (M * M ^ k)) by ring.
      replace (b * M * M ^ k) with (b * (M * M ^ k)) by ring. replace (i + 1 + INR k) with (i + (INR k + 1)) by ring. reflexivity.
    + intros j Hj. replace (b * M * M ^ j) with (b * M ^ (S j)) by (cbn [pow]; ring). apply Hneg. lia.
    + replace (b * M * M ^ k) with (b * M ^ (S k)) by (cbn [pow]; ring). exact Hpos.
Qed.
End Loop.

(** ** the whole of findPlasmaProfilePoint *)
Lemma let_pair {B} (X : R * R) (f : R -> R -> B) : (let '(a, b) := X in f a b) = f (fst X) (snd X).
Proof. destruct X; reflexivity. Qed.

Section Point.
Variable e : env.
Variables (index : nat) (c1 c2 velocityMid : R) (fields dPhidz : FieldPt) (D : Deltas) (Tplus Tminus : R).
Let s1 := c1 - fst (deltaToTmunu e index fields velocityMid D).
Let s2 := c2 - snd (deltaToTmunu e index fields velocityMid D).
Let F := fun T : R => temperatureProfileEqLHS e fields dPhidz T s1 s2.
Let tmin := minimize_bounded e F 0 (2 * Rmax Tplus Tminus) (XATOL Tplus Tminus).
(** the branch rule of the source *)
Let detonation := Rabs (Tnucl e - Tplus) < 1 / 10 ^ 10 * Tnucl e.
(** bring the unfolded generated body to the named quantities, up to ring-equal rewritings of
    s1, s2 and of the minimiser's bounds (so that harmless reorderings of the source still prove) *)
Ltac norm_point :=
  match goal with |- context [minimize_bounded e (fun T : R => temperatureProfileEqLHS e fields dPhidz T ?a ?b) ?lo ?hi ?xa] =>
    replace xa with (XATOL Tplus Tminus) by (unfold XATOL; first [ring | rewrite (Rmax_comm Tplus Tminus); ring]);
    replace a with s1 by (unfold s1; ring);
    replace b with s2 by (unfold s2; ring);
    replace lo with 0 by ring;
    replace hi with (2 * Rmax Tplus Tminus) by first [ring | rewrite (Rmax_comm Tplus Tminus); ring]
  end.
Definition multiplier (det : bool) := if det then Rmin (Tminus / tmin) (4 / 5) else Rmax (Tplus / tmin) (6 / 5).

Inductive outcome (T v : R) : Prop :=
| early_return :        (* no root: the position of the minimum is returned *)
    0 <= F tmin -> T = tmin -> v = plasmaVelocity e fields T s1 -> outcome T v
| gave_up :             (* no bracket after 101 enlargements *)
    F tmin < 0 -> T = 0 -> v = 0 -> outcome T v
| bracketed_root : forall (det : bool) (a b : R) (k : nat),
    F tmin < 0 -> (if det then detonation else ~ detonation) ->
    a = tmin * multiplier det ^ k -> b = a * multiplier det ->
    F a < 0 -> 0 <= F b ->
    T = root_bracketed e F a b (XTOL e) (RTOL e) -> v = plasmaVelocity e fields T s1 -> outcome T v.

Lemma point_cases :
  exists T v, findPlasmaProfilePoint e index c1 c2 velocityMid fields dPhidz D Tplus Tminus = Some (T, v)
              /\ outcome T v.
Proof.
  unfold findPlasmaProfilePoint. rewrite let_pair. cbv zeta.
  norm_point.
  change (fun T : R => temperatureProfileEqLHS e fields dPhidz T s1 s2) with F.
  change (minimize_bounded e F 0 (2 * Rmax Tplus Tminus) (XATOL Tplus Tminus)) with tmin.
  change (temperatureProfileEqLHS e fields dPhidz tmin s1 s2) with (F tmin).
  destruct (Rle_dec 0 (F tmin)) as [Hpos|Hneg].
  { eexists; eexists; split; [reflexivity|]. apply early_return; [assumption|reflexivity|reflexivity]. }
  assert (Hlt : F tmin < 0) by lra.
  destruct (Rlt_dec (Rabs (Tnucl e - Tplus)) (1 / 10000000000 * Tnucl e)) as [Hdet|Hdet].
  - (* detonation branch *)
    assert (Hd : detonation) by (unfold detonation; replace (1 / 10 ^ 10) with (1 / 10000000000) by lra; exact Hdet).
    pose proof (loop_terminates e fields dPhidz s1 s2 (Rmin (Tminus / tmin) (4 / 5)) 200
                  tmin (tmin * Rmin (Tminus / tmin) (4 / 5)) 0) as Hterm.
    destruct (findPlasmaProfilePoint_loop e 200 fields dPhidz s1 s2 (Rmin (Tminus / tmin) (4 / 5))
                tmin (tmin * Rmin (Tminus / tmin) (4 / 5)) 0) as [[r|[[a b] i]]|] eqn:EL.
    + pose proof (loop_gives_up e fields dPhidz s1 s2 _ _ _ _ _ _ EL) as ->.
      eexists; eexists; split; [reflexivity|]. apply gave_up; [assumption|reflexivity|reflexivity].
    + destruct (loop_bracket e fields dPhidz s1 s2 _ _ _ _ _ _ _ _ eq_refl Hlt EL) as [A [B [C [k K]]]].
      eexists; eexists; split; [reflexivity|].
      apply (bracketed_root _ _ true a b k); try assumption; reflexivity.
    + exfalso. apply Hterm; [lra | replace (INR 200) with 200 by (simpl; lra); lra | reflexivity].
  - assert (Hd : ~ detonation) by (unfold detonation; replace (1 / 10 ^ 10) with (1 / 10000000000) by lra; exact Hdet).
    pose proof (loop_terminates e fields dPhidz s1 s2 (Rmax (Tplus / tmin) (6 / 5)) 200
                  tmin (tmin * Rmax (Tplus / tmin) (6 / 5)) 0) as Hterm.
    destruct (findPlasmaProfilePoint_loop e 200 fields dPhidz s1 s2 (Rmax (Tplus / tmin) (6 / 5))
                tmin (tmin * Rmax (Tplus / tmin) (6 / 5)) 0) as [[r|[[a b] i]]|] eqn:EL.
    + pose proof (loop_gives_up e fields dPhidz s1 s2 _ _ _ _ _ _ EL) as ->.
      eexists; eexists; split; [reflexivity|]. apply gave_up; [assumption|reflexivity|reflexivity].
    + destruct (loop_bracket e fields dPhidz s1 s2 _ _ _ _ _ _ _ _ eq_refl Hlt EL) as [A [B [C [k K]]]].
      eexists; eexists; split; [reflexivity|].
      apply (bracketed_root _ _ false a b k); try assumption; reflexivity.
    + exfalso. apply Hterm; [lra | replace (INR 200) with 200 by (simpl; lra); lra | reflexivity].
Qed.

(** exact evaluation of the whole method (used by the certified correspondence and a theorem in its
    own right): which value is returned, as a function of the oracle outputs *)
Lemma point_eval_early :
  0 <= F tmin ->
  findPlasmaProfilePoint e index c1 c2 velocityMid fields dPhidz D Tplus Tminus
  = Some (tmin, plasmaVelocity e fields tmin s1).
Proof.
  intro Hpos. unfold findPlasmaProfilePoint. rewrite let_pair. cbv zeta.
  norm_point.
  change (fun T : R => temperatureProfileEqLHS e fields dPhidz T s1 s2) with F.
  change (minimize_bounded e F 0 (2 * Rmax Tplus Tminus) (XATOL Tplus Tminus)) with tmin.
  change (temperatureProfileEqLHS e fields dPhidz tmin s1 s2) with (F tmin).
  destruct (Rle_dec 0 (F tmin)); [reflexivity|contradiction].
Qed.

Lemma point_eval_root (det : bool) (k : nat) :
  F tmin < 0 -> (if det then detonation else ~ detonation) -> (k <= 100)%nat ->
  let M := multiplier det in
  (forall j, (j < k)%nat -> F (tmin * M * M ^ j) < 0) -> 0 <= F (tmin * M * M ^ k) ->
  findPlasmaProfilePoint e index c1 c2 velocityMid fields dPhidz D Tplus Tminus
  = Some (root_bracketed e F (tmin * M ^ k) (tmin * M * M ^ k) (XTOL e) (RTOL e),
          plasmaVelocity e fields (root_bracketed e F (tmin * M ^ k) (tmin * M * M ^ k) (XTOL e) (RTOL e)) s1).
Proof.
  intros Hneg Hdet Hk M Hj Hpos. unfold findPlasmaProfilePoint. rewrite let_pair. cbv zeta.
  norm_point.
  change (fun T : R => temperatureProfileEqLHS e fields dPhidz T s1 s2) with F.
  change (minimize_bounded e F 0 (2 * Rmax Tplus Tminus) (XATOL Tplus Tminus)) with tmin.
  change (temperatureProfileEqLHS e fields dPhidz tmin s1 s2) with (F tmin).
  destruct (Rle_dec 0 (F tmin)); [lra|].
  assert (Hi : 0 + INR k <= 101). { apply le_INR in Hk. replace (INR 100) with 100 in Hk by (simpl; lra). lra. }
  assert (Hp : ~ F (tmin * M * M ^ k) < 0) by lra.
  destruct (Rlt_dec (Rabs (Tnucl e - Tplus)) (1 / 10000000000 * Tnucl e)) as [Hd|Hd]; destruct det; cbn [multiplier] in *;
    try (exfalso; unfold detonation in Hdet; replace (1 / 10 ^ 10) with (1 / 10000000000) in Hdet by lra; tauto).
  - rewrite (loop_eval e fields dPhidz s1 s2 _ k 200 tmin _ 0 eq_refl); [reflexivity | lia | exact Hi | exact Hj | exact Hp].
  - rewrite (loop_eval e fields dPhidz s1 s2 _ k 200 tmin _ 0 eq_refl); [reflexivity | lia | exact Hi | exact Hj | exact Hp].
Qed.

(** contract assumed of scipy's bracketed root finder (validated by the harness on every point):
    on a sign-change bracket it returns a zero lying between the ends *)
Definition root_contract :=
  forall a b, F a < 0 -> 0 <= F b ->
    F (root_bracketed e F a b (XTOL e) (RTOL e)) = 0 /\ Rmin a b <= root_bracketed e F a b (XTOL e) (RTOL e) <= Rmax a b.

(** Conservation: whenever the point solver takes the root path, both components of the
    energy-momentum tensor are reproduced exactly; on EVERY path T^{30} is reproduced and the
    T^{33} residual equals the generated LHS at the returned temperature. *)
Lemma point_conserves T v :
  findPlasmaProfilePoint e index c1 c2 velocityMid fields dPhidz D Tplus Tminus = Some (T, v) ->
  (T, v) <> (0, 0) -> 0 < enthalpy e fields T -> s1 <> 0 ->
  let Tout30 := fst (deltaToTmunu e index fields velocityMid D) in
  let Tout33 := snd (deltaToTmunu e index fields velocityMid D) in
  (* T^{30} *) enthalpy e fields T * gammaSq v * v + Tout30 = c1 /\ -1 < v < 1 /\
  (* T^{33} residual *)
  kinetic dPhidz - evaluate e fields T + enthalpy e fields T * gammaSq v * v ^ 2 + Tout33 - c2 = F T /\
  (F tmin < 0 -> root_contract -> F T = 0).
Proof.
  intros H Hnz Hw Hs Tout30 Tout33.
  destruct point_cases as [T' [v' [H' O]]]. rewrite H in H'. injection H' as <- <-.
  assert (Hv : v = plasmaVelocity e fields T s1).
  { destruct O as [_ _ Hv | _ -> -> | ? ? ? ? _ _ _ _ _ _ _ Hv]; [exact Hv | exfalso; apply Hnz; reflexivity | exact Hv]. }
  destruct (velocity_T30 e fields T s1 Hw Hs) as [E30 [Hsub _]]. cbv zeta in E30, Hsub. rewrite <- Hv in E30, Hsub.
  pose proof (T33_residual e fields dPhidz T s1 s2 Hw Hs) as E33. cbv zeta in E33. rewrite <- Hv in E33.
  split; [unfold Tout30; rewrite E30; unfold s1; ring|]. split; [exact Hsub|].
  split; [unfold F; rewrite <- E33; unfold Tout33, s2; ring|].
  intros Hneg RC.
  destruct O as [Hpos _ _ | _ -> -> | det a b k _ _ _ _ Fa Fb -> _]; [lra | exfalso; apply Hnz; reflexivity |].
  apply RC; assumption.
Qed.

(** Branch rule: on the deflagration/hybrid branch (|Tn - T+| >= 1e-10) the bracket, hence the
    root, lies at or ABOVE the minimiser; on the detonation branch at or BELOW it. *)
Lemma point_branch T v :
  findPlasmaProfilePoint e index c1 c2 velocityMid fields dPhidz D Tplus Tminus = Some (T, v) ->
  (T, v) <> (0, 0) -> F tmin < 0 -> 0 < tmin -> 0 < Tminus -> root_contract ->
  (~ detonation -> tmin <= T) /\ (detonation -> 0 < T <= tmin).
Proof.
  intros H Hnz Hneg Htmin HTm RC.
  destruct point_cases as [T' [v' [H' O]]]. rewrite H in H'. injection H' as <- <-.
  destruct O as [Hpos _ _ | _ -> -> | det a b k _ Hdet Ha Hb Fa Fb -> _]; [lra | exfalso; apply Hnz; reflexivity |].
  destruct (RC a b Fa Fb) as [_ [Rlo Rhi]].
  destruct det; cbn [multiplier] in *.
  - (* detonation: 0 < M <= 4/5 *)
    set (M := Rmin (Tminus / tmin) (4 / 5)) in *.
    assert (HM : 0 < M <= 4 / 5).
    { unfold M. split; [apply Rmin_glb_lt; [apply Rdiv_lt_0_compat; assumption | lra] | apply Rmin_r]. }
    assert (Hk : 0 < M ^ k <= 1).
    { clear -HM. induction k; cbn [pow]; [lra|]. nra. }
    assert (0 < a <= tmin) by (rewrite Ha; nra).
    assert (0 < b < a) by (rewrite Hb; nra).
    rewrite Rmin_right in Rlo by lra. rewrite Rmax_left in Rhi by lra.
    split; [intro N; contradiction | intros _; lra].
  - (* deflagration / hybrid: M >= 6/5 *)
    set (M := Rmax (Tplus / tmin) (6 / 5)) in *.
    assert (HM : 6 / 5 <= M) by (unfold M; apply Rmax_r).
    assert (Hk : 1 <= M ^ k).
    { clear -HM. induction k; cbn [pow]; [lra|]. nra. }
    assert (tmin <= a) by (rewrite Ha; nra).
    assert (a < b) by (rewrite Hb; nra).
    rewrite Rmin_left in Rlo by lra.
    split; [intros _; lra | intro N; contradiction].
Qed.

(** the give-up outcome, evaluated: on the detonation rule (0 < M <= 1) the geometric sequence stays
    in (0, tmin M]; if the LHS is negative on (0, B] with tmin M <= B, the result is (0,0) *)
Lemma point_eval_gaveup (B : R) :
  F tmin < 0 -> detonation -> 0 < tmin -> 0 < multiplier true <= 1 -> tmin * multiplier true <= B ->
  (forall T, 0 < T <= B -> F T < 0) ->
  findPlasmaProfilePoint e index c1 c2 velocityMid fields dPhidz D Tplus Tminus = Some (0, 0).
Proof.
  intros Hneg Hdet Htm HM HB Hall.
  destruct point_cases as [T [v [H O]]]. rewrite H.
  destruct O as [Hpos _ _ | _ -> -> | det a b k _ Hd Ha Hb Fa Fb _ _]; [lra | reflexivity | exfalso].
  destruct det; [|contradiction].
  set (M := multiplier true) in *.
  assert (Hk : forall n : nat, 0 < M ^ n <= 1).
  { induction n; cbn [pow]; [lra|]. nra. }
  assert (Hbr : 0 < b <= B).
  { pose proof (Hk k) as [K1 K2]. unfold M in HM. fold M in HM. destruct HM as [M1 M2].
    assert (A1 : 0 < a) by (rewrite Ha; apply Rmult_lt_0_compat; assumption).
    assert (A2 : a <= tmin) by (rewrite Ha; nra).
    rewrite Hb. split; [apply Rmult_lt_0_compat; assumption|].
    apply Rle_trans with (tmin * M); [|exact HB]. apply Rmult_le_compat_r; lra. }
  pose proof (Hall b Hbr). lra.
Qed.

(** what scipy documents for a bracketing solver: the returned value lies in the bracket and is
    within xtol + rtol |r| of an exact zero r of the bracket -- for WHATEVER tolerances it is given *)
Definition root_contract_tol :=
  forall a b xt rt, F a < 0 -> 0 <= F b ->
    Rmin a b <= root_bracketed e F a b xt rt <= Rmax a b /\
    exists r, Rmin a b <= r <= Rmax a b /\ F r = 0 /\
              Rabs (root_bracketed e F a b xt rt - r) <= xt + rt * Rabs r.

(** Accuracy of the returned temperature with the tolerances of the generated call: the error is
    RELATIVE (errTol/10 of the root) up to the fixed floor 1e-10, hence independent of the unit
    system for temperatures well above 1e-9; for any Lipschitz bound L of the LHS ON THE SOLVER'S
    BRACKET [lo,hi] the T^{33} residual is bounded by L times that. *)
Lemma point_accuracy T v :
  findPlasmaProfilePoint e index c1 c2 velocityMid fields dPhidz D Tplus Tminus = Some (T, v) ->
  (T, v) <> (0, 0) -> F tmin < 0 -> root_contract_tol ->
  exists r lo hi, lo <= r <= hi /\ lo <= T <= hi /\ F r = 0 /\
    Rabs (T - r) <= 1 / 10 ^ 10 * Tnucl e + errTol e / 10 * Rabs r /\
    forall L, 0 <= L ->
      (forall x y, lo <= x <= hi -> lo <= y <= hi -> Rabs (F x - F y) <= L * Rabs (x - y)) ->
      Rabs (F T) <= L * (1 / 10 ^ 10 * Tnucl e + errTol e / 10 * Rabs r).
Proof.
  intros H Hnz Hneg RC.
  destruct point_cases as [T' [v' [H' O]]]. rewrite H in H'. injection H' as <- <-.
  destruct O as [Hpos _ _ | _ -> -> | det a b k _ _ _ _ Fa Fb -> _]; [lra | exfalso; apply Hnz; reflexivity |].
  destruct (RC a b (XTOL e) (RTOL e) Fa Fb) as [Hin [r [Hr [Fr Hd]]]].
  exists r, (Rmin a b), (Rmax a b). split; [exact Hr|]. split; [exact Hin|]. split; [exact Fr|].
  assert (E : Rabs (root_bracketed e F a b (XTOL e) (RTOL e) - r) <= 1 / 10 ^ 10 * Tnucl e + errTol e / 10 * Rabs r).
  { unfold XTOL, RTOL in Hd. replace (1 / 10 ^ 10) with (1 / 10000000000) by lra. exact Hd. }
  split; [exact E|].
  intros L HL Lip.
  specialize (Lip (root_bracketed e F a b (XTOL e) (RTOL e)) r Hin Hr). rewrite Fr, Rminus_0_r in Lip.
  eapply Rle_trans; [exact Lip|]. apply Rmult_le_compat_l; assumption.
Qed.
End Point.

(** ** the loop over the grid: what the success flag means *)
Section Profile.
Variable e : env.
Variables (N : nat) (c1 c2 velocityMid : R) (fields dPhidz : nat -> FieldPt) (D : Deltas) (Tplus Tminus : R).
Notation point i := (findPlasmaProfilePoint e i c1 c2 velocityMid (fields i) (dPhidz i) D Tplus Tminus).
Notation step := (findPlasmaProfile_step e N c1 c2 velocityMid fields dPhidz D Tplus Tminus).
Definition run (m : nat) :=
  fold_left (fun acc index => match acc with Some st => step st index | None => None end)
            (seq 0 m) (Some (fun _ : nat => 0, fun _ : nat => 0, true)).
Definition good (i : nat) := exists T v, point i = Some (T, v) /\ 0 < T.

Lemma run_is_generated : run N = findPlasmaProfile e N c1 c2 velocityMid fields dPhidz D Tplus Tminus.
Proof. reflexivity. Qed.

Lemma step_spec Tp vp ok i : exists T v, point i = Some (T, v) /\
  step (Tp, vp, ok) i =
  Some (if Rlt_dec 0 T then (upd Tp i T, upd vp i v, ok)
        else (upd Tp i (Tp (pyidx_sub N i 1)), upd vp i (vp (pyidx_sub N i 1)), false)).
Proof.
  destruct (point_cases e i c1 c2 velocityMid (fields i) (dPhidz i) D Tplus Tminus) as [T [v [H _]]].
  exists T, v. split; [exact H|]. unfold findPlasmaProfile_step. rewrite H.
  destruct (Rlt_dec 0 T); reflexivity.
Qed.

Lemma run_inv m : (m <= N)%nat -> exists Tp vp ok, run m = Some (Tp, vp, ok) /\
  (ok = true <-> forall i, (i < m)%nat -> good i) /\
  (forall i T v, (i < m)%nat -> point i = Some (T, v) -> 0 < T -> Tp i = T /\ vp i = v) /\
  (forall i T v, (i < m)%nat -> point i = Some (T, v) -> ~ 0 < T ->
     Tp i = (if Nat.eqb i 0 then 0 else Tp (i - 1)%nat) /\ vp i = (if Nat.eqb i 0 then 0 else vp (i - 1)%nat)) /\
  (forall j, (m <= j)%nat -> Tp j = 0 /\ vp j = 0).
Proof.
  induction m as [|m IH]; intro Hm.
  - exists (fun _ => 0), (fun _ => 0), true. split; [reflexivity|].
    split; [split; [intros _ i Hi; lia | reflexivity]|].
    split; [intros; lia|]. split; [intros; lia|]. intros; split; reflexivity.
  - destruct IH as [Tp [vp [ok [Hrun [Hok [Hval [Hfail Hrest]]]]]]]; [lia|].
    destruct (step_spec Tp vp ok m) as [T [v [Hp Hs]]].
    unfold run. rewrite seq_S, fold_left_app. fold (run m). rewrite Hrun. cbn [fold_left Nat.add]. rewrite Hs.
    assert (Hfail' : forall i T0 v0, (i < m)%nat -> i <> m -> point i = Some (T0, v0) -> ~ 0 < T0 ->
              forall x y, upd Tp m x i = (if Nat.eqb i 0 then 0 else upd Tp m x (i - 1)%nat) /\
                          upd vp m y i = (if Nat.eqb i 0 then 0 else upd vp m y (i - 1)%nat)).
    { intros i T0 v0 Hi Hne Hpi Hn x y. rewrite (upd_other Tp m x i Hne), (upd_other vp m y i Hne).
      destruct (Hfail i T0 v0 Hi Hpi Hn) as [A B].
      revert A B. destruct (Nat.eqb_spec i 0); intros A B; [split; assumption|].
      rewrite (upd_other Tp m x (i - 1)) by lia. rewrite (upd_other vp m y (i - 1)) by lia. split; assumption. }
    destruct (Rlt_dec 0 T) as [Hpos|Hneg].
    + exists (upd Tp m T), (upd vp m v), ok. split; [reflexivity|].
      split; [|split; [|split]].
      * split.
        -- intros Ho i Hi. destruct (Nat.eq_dec i m) as [->|Hne]; [exists T, v; split; assumption|].
           apply Hok; [exact Ho|lia].
        -- intros Hall. apply Hok. intros i Hi. apply Hall. lia.
      * intros i T0 v0 Hi Hpi Hp0. destruct (Nat.eq_dec i m) as [->|Hne].
        -- rewrite Hp in Hpi. injection Hpi as <- <-. rewrite !upd_same. split; reflexivity.
        -- rewrite !upd_other by exact Hne. apply (Hval i T0 v0); [lia|assumption|assumption].
      * intros i T0 v0 Hi Hpi Hn. destruct (Nat.eq_dec i m) as [->|Hne].
        -- rewrite Hp in Hpi. injection Hpi as <- <-. contradiction.
        -- apply (Hfail' i T0 v0); [lia|assumption|assumption|assumption].
      * intros j Hj. rewrite !upd_other by lia. apply Hrest. lia.
    + exists (upd Tp m (Tp (pyidx_sub N m 1))), (upd vp m (vp (pyidx_sub N m 1))), false.
      split; [reflexivity|]. split; [|split; [|split]].
      * split; [discriminate|].
        intros Hall. destruct (Hall m) as [T' [v' [Hp' Hpos']]]; [lia|].
        rewrite Hp in Hp'. injection Hp' as <- <-. contradiction.
      * intros i T0 v0 Hi Hpi Hp0. destruct (Nat.eq_dec i m) as [->|Hne].
        -- rewrite Hp in Hpi. injection Hpi as <- <-. contradiction.
        -- rewrite !upd_other by exact Hne. apply (Hval i T0 v0); [lia|assumption|assumption].
      * intros i T0 v0 Hi Hpi Hn. destruct (Nat.eq_dec i m) as [->|Hne].
        -- rewrite !upd_same. destruct (Nat.eqb_spec m 0) as [->|Hm0].
           ++ rewrite pyidx_sub_wrap by lia. apply Hrest. lia.
           ++ rewrite pyidx_sub_inside by lia. rewrite !upd_other by lia. split; reflexivity.
        -- apply (Hfail' i T0 v0); [lia|assumption|assumption|assumption].
      * intros j Hj. rewrite !upd_other by lia. apply Hrest. lia.
Qed.
End Profile.

(** * Property theorems *)

Theorem plasmaVelocity_solves_T30 : forall e fields T s1,
  0 < - T * derivT e fields T -> s1 <> 0 ->
  let w := - T * derivT e fields T in let v := plasmaVelocity e fields T s1 in
  w * gammaSq v * v = s1 /\ -1 < v < 1 /\
  (forall v', -1 < v' < 1 -> w * gammaSq v' * v' = s1 -> v' = v).
Proof. intros e fields T s1 Hw Hs. exact (velocity_T30 e fields T s1 Hw Hs). Qed.
Print Assumptions plasmaVelocity_solves_T30.

Theorem lhs_zero_iff_T33 : forall e fields dPhidz T s1 s2,
  0 < - T * derivT e fields T -> s1 <> 0 ->
  let w := - T * derivT e fields T in let v := plasmaVelocity e fields T s1 in
  (temperatureProfileEqLHS e fields dPhidz T s1 s2
     = 1 / 2 * sum_list (map (fun x : R => x ^ 2) dPhidz) - evaluate e fields T + w * gammaSq v * v ^ 2 - s2) /\
  (temperatureProfileEqLHS e fields dPhidz T s1 s2 = 0 <->
   1 / 2 * sum_list (map (fun x : R => x ^ 2) dPhidz) - evaluate e fields T + w * gammaSq v * v ^ 2 = s2).
Proof.
  intros e fields dPhidz T s1 s2 Hw Hs. split.
  - symmetry. exact (T33_residual e fields dPhidz T s1 s2 Hw Hs).
  - exact (LHS_zero_iff_T33 e fields dPhidz T s1 s2 Hw Hs).
Qed.
Print Assumptions lhs_zero_iff_T33.

Theorem deltaToTmunu_is_boost : forall e index fields v D (ens : nat -> list mom),
  -1 < v < 1 ->
  (forall i, Delta20 D i index = moment 2 0 (ens i) /\ Delta02 D i index = moment 0 2 (ens i) /\
             Delta11 D i index = moment 1 1 (ens i)) ->
  deltaToTmunu e index fields v D =
  (sum_list (map (fun ip : nat * particle => totalDOFs (snd ip) * flux v (ens (fst ip)) 3 0) (enumerate (particles e))),
   sum_list (map (fun ip : nat * particle => totalDOFs (snd ip) * flux v (ens (fst ip)) 3 3) (enumerate (particles e)))).
Proof. exact deltaToTmunu_flux. Qed.
Print Assumptions deltaToTmunu_is_boost.

(** the code's formula is Eq.(14); Eq.(14) has trace N m^2 Delta00, and the momentum flux of
    an on-shell ensemble has trace m^2 Delta00 and transverse part Delta20-Delta02-m^2 Delta00 *)
Theorem deltaToTmunu_is_eq14_with_trace : forall e index fields v D,
  deltaToTmunu e index fields v D = (eq14_sum e index fields v D 3 0, eq14_sum e index fields v D 3 3) /\
  (-1 < v < 1 -> forall N m2 d00 d02 d20 d11, contract (Tout14 N m2 d00 d02 d20 d11 v) = N * m2 * d00) /\
  (-1 < v < 1 -> forall m2 ens, Forall (on_shell m2) ens ->
     contract (flux v ens) = m2 * moment 0 0 ens /\
     flux v ens 1 1 + flux v ens 2 2 = moment 2 0 ens - moment 0 2 ens - m2 * moment 0 0 ens).
Proof.
  intros e index fields v D. split; [apply deltaToTmunu_eq14|]. split.
  - intros Hv N m2 d00 d02 d20 d11. apply Tout14_trace. exact Hv.
  - intros Hv m2 ens H. split; [apply flux_trace; assumption | apply flux_transverse; assumption].
Qed.
Print Assumptions deltaToTmunu_is_eq14_with_trace.

Theorem asymptote_front : forall e h vp vm Tp Tm fields dPhidz,
  let c1 := fst (fst (fst (fst (H_hydroBoundaries h vp vm Tp Tm)))) in
  let c2 := snd (fst (fst (fst (H_hydroBoundaries h vp vm Tp Tm)))) in
  Forall (fun x => x = 0) dPhidz ->
  evaluate e fields Tp = - pHighT h Tp -> - Tp * derivT e fields Tp = wHighT h Tp ->
  0 < wHighT h Tp -> -1 < vp < 1 -> vp <> 0 ->
  temperatureProfileEqLHS e fields dPhidz Tp c1 c2 = 0 /\ plasmaVelocity e fields Tp c1 = - vp.
Proof. intros. apply asymptote_front_; assumption. Qed.
Print Assumptions asymptote_front.

Theorem asymptote_back : forall e h vp vm Tp Tm fields dPhidz wm pm,
  let c1 := fst (fst (fst (fst (H_hydroBoundaries h vp vm Tp Tm)))) in
  let c2 := snd (fst (fst (fst (H_hydroBoundaries h vp vm Tp Tm)))) in
  Forall (fun x => x = 0) dPhidz ->
  evaluate e fields Tm = - pm -> - Tm * derivT e fields Tm = wm ->
  0 < wm -> -1 < vm < 1 -> vm <> 0 ->
  wm * gammaSq vm * vm = wHighT h Tp * gammaSq vp * vp ->
  pm + wm * gammaSq vm * vm ^ 2 = pHighT h Tp + wHighT h Tp * gammaSq vp * vp ^ 2 ->
  temperatureProfileEqLHS e fields dPhidz Tm c1 c2 = 0 /\ plasmaVelocity e fields Tm c1 = - vm.
Proof. intros until pm. intros c1 c2. rewrite !gammaSq_is_g2. intros. eapply asymptote_back_; eassumption. Qed.
Print Assumptions asymptote_back.

(** the boundary constants handed over by Hydrodynamics: signs of c1 and velocityMid *)
Theorem hydro_boundaries_convention : forall h vp vm Tp Tm,
  H_hydroBoundaries h vp vm Tp Tm =
  (- (wHighT h Tp * gammaSq vp * vp), pHighT h Tp + wHighT h Tp * gammaSq vp * vp ^ 2, Tp, Tm, - ((vp + vm) / 2)).
Proof. intros. rewrite boundaries_form. unfold gammaSq, g2. reflexivity. Qed.
Print Assumptions hydro_boundaries_convention.

Theorem zero_moments_no_stress : forall e index fields v D,
  (forall i, Delta00 D i index = 0 /\ Delta02 D i index = 0 /\ Delta20 D i index = 0 /\ Delta11 D i index = 0) ->
  deltaToTmunu e index fields v D = (0, 0).
Proof. exact deltaToTmunu_zero. Qed.
Print Assumptions zero_moments_no_stress.

(** the point solver always returns (fuel 200 of the generated loop is never exhausted), and
    what it returns is one of: position of a non-negative minimum / (0,0) / bracketed root *)
Theorem profile_point_outcomes : forall e index c1 c2 velocityMid fields dPhidz D Tplus Tminus,
  exists T v, findPlasmaProfilePoint e index c1 c2 velocityMid fields dPhidz D Tplus Tminus = Some (T, v)
              /\ outcome e index c1 c2 velocityMid fields dPhidz D Tplus Tminus T v.
Proof. exact point_cases. Qed.
Print Assumptions profile_point_outcomes.

Theorem profile_point_conserves : forall e index c1 c2 velocityMid fields dPhidz D Tplus Tminus T v,
  let Tout30 := fst (deltaToTmunu e index fields velocityMid D) in
  let Tout33 := snd (deltaToTmunu e index fields velocityMid D) in
  let F := fun T : R => temperatureProfileEqLHS e fields dPhidz T (c1 - Tout30) (c2 - Tout33) in
  let tmin := minimize_bounded e F 0 (2 * Rmax Tplus Tminus) (XATOL Tplus Tminus) in
  findPlasmaProfilePoint e index c1 c2 velocityMid fields dPhidz D Tplus Tminus = Some (T, v) ->
  (T, v) <> (0, 0) -> 0 < - T * derivT e fields T -> c1 - Tout30 <> 0 ->
  let w := - T * derivT e fields T in
  w * gammaSq v * v + Tout30 = c1 /\ -1 < v < 1 /\
  1 / 2 * sum_list (map (fun x : R => x ^ 2) dPhidz) - evaluate e fields T + w * gammaSq v * v ^ 2 + Tout33 - c2 = F T /\
  (F tmin < 0 ->
   (forall a b, F a < 0 -> 0 <= F b -> F (root_bracketed e F a b (XTOL e) (RTOL e)) = 0 /\ Rmin a b <= root_bracketed e F a b (XTOL e) (RTOL e) <= Rmax a b) ->
   F T = 0).
Proof. intros e index c1 c2 velocityMid fields dPhidz D Tplus Tminus T v. exact (point_conserves e index c1 c2 velocityMid fields dPhidz D Tplus Tminus T v). Qed.
Print Assumptions profile_point_conserves.

Theorem branch_rule : forall e index c1 c2 velocityMid fields dPhidz D Tplus Tminus T v,
  let Tout30 := fst (deltaToTmunu e index fields velocityMid D) in
  let Tout33 := snd (deltaToTmunu e index fields velocityMid D) in
  let F := fun T : R => temperatureProfileEqLHS e fields dPhidz T (c1 - Tout30) (c2 - Tout33) in
  let tmin := minimize_bounded e F 0 (2 * Rmax Tplus Tminus) (XATOL Tplus Tminus) in
  findPlasmaProfilePoint e index c1 c2 velocityMid fields dPhidz D Tplus Tminus = Some (T, v) ->
  (T, v) <> (0, 0) -> F tmin < 0 -> 0 < tmin -> 0 < Tminus ->
  (forall a b, F a < 0 -> 0 <= F b -> F (root_bracketed e F a b (XTOL e) (RTOL e)) = 0 /\ Rmin a b <= root_bracketed e F a b (XTOL e) (RTOL e) <= Rmax a b) ->
  (~ Rabs (Tnucl e - Tplus) < 1 / 10 ^ 10 * Tnucl e -> tmin <= T) /\
  (Rabs (Tnucl e - Tplus) < 1 / 10 ^ 10 * Tnucl e -> 0 < T <= tmin).
Proof. intros e index c1 c2 velocityMid fields dPhidz D Tplus Tminus T v. exact (point_branch e index c1 c2 velocityMid fields dPhidz D Tplus Tminus T v). Qed.
Print Assumptions branch_rule.

(** the bracket handed to the root finder is the FIRST sign change in the geometric sequence
    tmin M, tmin M^2, ... (M from the branch rule); exact value of the result in terms of the oracles *)
Theorem bracket_is_first_sign_change : forall e index c1 c2 velocityMid fields dPhidz D Tplus Tminus (det : bool) (k : nat),
  let Tout30 := fst (deltaToTmunu e index fields velocityMid D) in
  let Tout33 := snd (deltaToTmunu e index fields velocityMid D) in
  let F := fun T : R => temperatureProfileEqLHS e fields dPhidz T (c1 - Tout30) (c2 - Tout33) in
  let tmin := minimize_bounded e F 0 (2 * Rmax Tplus Tminus) (XATOL Tplus Tminus) in
  let M := if det then Rmin (Tminus / tmin) (4 / 5) else Rmax (Tplus / tmin) (6 / 5) in
  F tmin < 0 ->
  (if det then Rabs (Tnucl e - Tplus) < 1 / 10 ^ 10 * Tnucl e else ~ Rabs (Tnucl e - Tplus) < 1 / 10 ^ 10 * Tnucl e) ->
  (k <= 100)%nat ->
  (forall j, (j < k)%nat -> F (tmin * M * M ^ j) < 0) -> 0 <= F (tmin * M * M ^ k) ->
  findPlasmaProfilePoint e index c1 c2 velocityMid fields dPhidz D Tplus Tminus
  = Some (root_bracketed e F (tmin * M ^ k) (tmin * M * M ^ k) (XTOL e) (RTOL e),
          plasmaVelocity e fields (root_bracketed e F (tmin * M ^ k) (tmin * M * M ^ k) (XTOL e) (RTOL e)) (c1 - Tout30)).
Proof. intros e index c1 c2 velocityMid fields dPhidz D Tplus Tminus det k. exact (point_eval_root e index c1 c2 velocityMid fields dPhidz D Tplus Tminus det k). Qed.
Print Assumptions bracket_is_first_sign_change.

(** the give-up path: on the detonation rule, an LHS that is negative on (0, B] (B above the first
    trial point tmin M) makes the solver return (0,0) after its 101 enlargements *)
Theorem no_bracket_returns_zero : forall e index c1 c2 velocityMid fields dPhidz D Tplus Tminus B,
  let Tout30 := fst (deltaToTmunu e index fields velocityMid D) in
  let Tout33 := snd (deltaToTmunu e index fields velocityMid D) in
  let F := fun T : R => temperatureProfileEqLHS e fields dPhidz T (c1 - Tout30) (c2 - Tout33) in
  let tmin := minimize_bounded e F 0 (2 * Rmax Tplus Tminus) (XATOL Tplus Tminus) in
  let M := Rmin (Tminus / tmin) (4 / 5) in
  F tmin < 0 -> Rabs (Tnucl e - Tplus) < 1 / 10 ^ 10 * Tnucl e -> 0 < tmin -> 0 < M <= 1 -> tmin * M <= B ->
  (forall T, 0 < T <= B -> F T < 0) ->
  findPlasmaProfilePoint e index c1 c2 velocityMid fields dPhidz D Tplus Tminus = Some (0, 0).
Proof. intros e index c1 c2 velocityMid fields dPhidz D Tplus Tminus B. exact (point_eval_gaveup e index c1 c2 velocityMid fields dPhidz D Tplus Tminus B). Qed.
Print Assumptions no_bracket_returns_zero.

Theorem no_root_returns_minimum : forall e index c1 c2 velocityMid fields dPhidz D Tplus Tminus,
  let Tout30 := fst (deltaToTmunu e index fields velocityMid D) in
  let Tout33 := snd (deltaToTmunu e index fields velocityMid D) in
  let F := fun T : R => temperatureProfileEqLHS e fields dPhidz T (c1 - Tout30) (c2 - Tout33) in
  let tmin := minimize_bounded e F 0 (2 * Rmax Tplus Tminus) (XATOL Tplus Tminus) in
  0 <= F tmin ->
  findPlasmaProfilePoint e index c1 c2 velocityMid fields dPhidz D Tplus Tminus
  = Some (tmin, plasmaVelocity e fields tmin (c1 - Tout30)).
Proof. intros e index c1 c2 velocityMid fields dPhidz D Tplus Tminus. exact (point_eval_early e index c1 c2 velocityMid fields dPhidz D Tplus Tminus). Qed.
Print Assumptions no_root_returns_minimum.

(** the tolerances of the bracketed solve, as facts extracted from the generated call, and the
    resulting accuracy: relative (errTol/10) with an absolute floor of 1e-10 only *)
Theorem root_accuracy_is_relative : forall e index c1 c2 velocityMid fields dPhidz D Tplus Tminus T v,
  let Tout30 := fst (deltaToTmunu e index fields velocityMid D) in
  let Tout33 := snd (deltaToTmunu e index fields velocityMid D) in
  let F := fun T : R => temperatureProfileEqLHS e fields dPhidz T (c1 - Tout30) (c2 - Tout33) in
  let tmin := minimize_bounded e F 0 (2 * Rmax Tplus Tminus) (XATOL Tplus Tminus) in
  findPlasmaProfilePoint e index c1 c2 velocityMid fields dPhidz D Tplus Tminus = Some (T, v) ->
  (T, v) <> (0, 0) -> F tmin < 0 ->
  (forall a b xt rt, F a < 0 -> 0 <= F b ->
     Rmin a b <= root_bracketed e F a b xt rt <= Rmax a b /\
     exists r, Rmin a b <= r <= Rmax a b /\ F r = 0 /\ Rabs (root_bracketed e F a b xt rt - r) <= xt + rt * Rabs r) ->
  exists r lo hi, lo <= r <= hi /\ lo <= T <= hi /\ F r = 0 /\
    Rabs (T - r) <= 1 / 10 ^ 10 * Tnucl e + errTol e / 10 * Rabs r /\
    forall L, 0 <= L ->
      (forall x y, lo <= x <= hi -> lo <= y <= hi -> Rabs (F x - F y) <= L * Rabs (x - y)) ->
      Rabs (F T) <= L * (1 / 10 ^ 10 * Tnucl e + errTol e / 10 * Rabs r).
Proof. intros e index c1 c2 velocityMid fields dPhidz D Tplus Tminus T v. exact (point_accuracy e index c1 c2 velocityMid fields dPhidz D Tplus Tminus T v). Qed.
Print Assumptions root_accuracy_is_relative.

(** the loop over the grid (generated findPlasmaProfile): it always returns; the success flag is
    true EXACTLY when every point solver call returned a positive temperature; the stored profile
    is the point solver's output at such points and a copy of the previous point elsewhere.
    Together with profile_point_outcomes: success excludes only the (0,0) outcome -- a point where
    the LHS has no root (positive minimum) still counts as success. *)
Theorem profile_success_flag : forall e N c1 c2 velocityMid fields dPhidz D Tplus Tminus,
  let point := fun i => findPlasmaProfilePoint e i c1 c2 velocityMid (fields i) (dPhidz i) D Tplus Tminus in
  exists Tp vp ok,
    findPlasmaProfile e N c1 c2 velocityMid fields dPhidz D Tplus Tminus = Some (Tp, vp, ok) /\
    (ok = true <-> forall i, (i < N)%nat -> exists T v, point i = Some (T, v) /\ 0 < T) /\
    (forall i T v, (i < N)%nat -> point i = Some (T, v) -> 0 < T -> Tp i = T /\ vp i = v) /\
    (forall i T v, (i < N)%nat -> point i = Some (T, v) -> ~ 0 < T ->
       Tp i = (if Nat.eqb i 0 then 0 else Tp (i - 1)%nat) /\ vp i = (if Nat.eqb i 0 then 0 else vp (i - 1)%nat)).
Proof.
  intros e N c1 c2 velocityMid fields dPhidz D Tplus Tminus point.
  destruct (run_inv e N c1 c2 velocityMid fields dPhidz D Tplus Tminus N (le_n N)) as [Tp [vp [ok [H1 [H2 [H3 [H4 _]]]]]]].
  exists Tp, vp, ok. rewrite <- run_is_generated. split; [exact H1|]. split; [exact H2|]. split; [exact H3|exact H4].
Qed.
Print Assumptions profile_success_flag.

(** REFUTED as stated: "the solver reports success => T^{33} is reproduced".  Witness (replayed on the
    implementation by the harness): radiation V = -T^4 (w = 4 T^4), no moments, c1 = -1, c2 = 1/4.
    The LHS is positive everywhere, the point solver returns the minimiser's output (here any
    value, 1), the loop keeps the success flag, and the T^{33} residual is LHS(1) > 0. *)
Theorem success_implies_T33_refuted :
  exists e N c1 c2 velocityMid fields dPhidz D Tplus Tminus Tp vp,
    findPlasmaProfile e N c1 c2 velocityMid fields dPhidz D Tplus Tminus = Some (Tp, vp, true) /\
    (0 < N)%nat /\ 0 < Tp 0%nat /\ 0 < - Tp 0%nat * derivT e (fields 0%nat) (Tp 0%nat) /\
    c1 - fst (deltaToTmunu e 0 (fields 0%nat) velocityMid D) <> 0 /\
    1 / 2 * sum_list (map (fun x : R => x ^ 2) (dPhidz 0%nat)) - evaluate e (fields 0%nat) (Tp 0%nat)
      + (- Tp 0%nat * derivT e (fields 0%nat) (Tp 0%nat)) * gammaSq (vp 0%nat) * vp 0%nat ^ 2
      + snd (deltaToTmunu e 0 (fields 0%nat) velocityMid D) - c2 > 0.
Proof.
  set (e := mk_env (1 / 1000) (fun _ T => - 4 * T ^ 3) (fun _ T => - T ^ 4) 1 [] (fun _ _ _ _ => 1) (fun _ a _ _ _ => a)).
  set (D := mk_Deltas (fun _ _ => 0) (fun _ _ => 0) (fun _ _ => 0) (fun _ _ => 0)).
  assert (Hd : forall f v, deltaToTmunu e 0 f v D = (0, 0)).
  { intros f v. apply deltaToTmunu_zero. intro i. repeat split; reflexivity. }
  assert (HF : forall T, temperatureProfileEqLHS e [] [] T (-1 - 0) (1 / 4 - 0)
                         = T ^ 4 + (sqrt (4 + 16 * T ^ 8) - 4 * T ^ 4) / 2 - 1 / 4).
  { intro T. rewrite LHS_form. unfold kinetic, enthalpy. cbn [map derivT evaluate e]. rewrite sum_list_nil.
    replace (4 * (-1 - 0) ^ 2 + (- T * (- 4 * T ^ 3)) ^ 2) with (4 + 16 * T ^ 8) by ring. field. }
  assert (Hs : 4 <= sqrt (4 + 16 * 1 ^ 8)).
  { replace 4 with (sqrt 16) at 1 by (replace 16 with (4 * 4) by ring; apply sqrt_square; lra).
    apply sqrt_le_1; lra. }
  assert (Hpt : findPlasmaProfilePoint e 0 (-1) (1 / 4) 0 [] [] D 1 1 = Some (1, plasmaVelocity e [] 1 (-1 - 0))).
  { pose proof (no_root_returns_minimum e 0 (-1) (1 / 4) 0 [] [] D 1 1) as H. cbv zeta in H.
    rewrite (Hd [] 0) in H. cbn [fst snd] in H. cbn [minimize_bounded e] in H. apply H.
    rewrite HF. lra. }
  exists e, 1%nat, (-1), (1 / 4), 0, (fun _ => []), (fun _ => []), D, 1, 1,
         (upd (fun _ => 0) 0 1), (upd (fun _ => 0) 0 (plasmaVelocity e [] 1 (-1 - 0))).
  split.
  { unfold findPlasmaProfile. cbn [seq fold_left]. unfold findPlasmaProfile_step. rewrite Hpt.
    destruct (Rlt_dec 0 1); [reflexivity|lra]. }
  rewrite !upd_same, (Hd [] 0). cbn [fst snd]. split; [lia|]. split; [lra|].
  assert (Hw : 0 < enthalpy e [] 1) by (unfold enthalpy; cbn [derivT e]; lra).
  split; [exact Hw|]. split; [lra|].
  pose proof (T33_residual e [] [] 1 (-1 - 0) (1 / 4 - 0) Hw ltac:(lra)) as Res. cbv zeta in Res.
  unfold kinetic, enthalpy in Res.
  replace (1 / 2 * sum_list (map (fun x : R => x ^ 2) []) - evaluate e [] 1 +
           - (1) * derivT e [] 1 * gammaSq (plasmaVelocity e [] 1 (-1 - 0)) * plasmaVelocity e [] 1 (-1 - 0) ^ 2 + 0 - 1 / 4)
    with (temperatureProfileEqLHS e [] [] 1 (-1 - 0) (1 / 4 - 0)) by (rewrite <- Res; ring).
  rewrite HF. lra.
Qed.
Print Assumptions success_implies_T33_refuted.

(** non-vacuity: an ideal gas (V = -a T^4, w = 4 a T^4) with one particle satisfies the hypotheses
    of the conservation theorems at T = 1, s1 = -1 *)
Example hypotheses_satisfiable :
  let e := mk_env (1 / 1000) (fun _ T => - 4 * T ^ 3) (fun _ T => - T ^ 4) 1 [mk_particle 12 (fun _ => 1)]
                  (fun _ a _ _ => a) (fun _ a _ _ _ => a) in
  0 < - 1 * derivT e [] 1 /\ (-1 : R) <> 0 /\ -1 < plasmaVelocity e [] 1 (-1) < 0.
Proof.
  cbn [derivT]. split; [lra|]. split; [lra|].
  pose proof (velocity_T30 (mk_env (1 / 1000) (fun _ T => - 4 * T ^ 3) (fun _ T => - T ^ 4) 1 [mk_particle 12 (fun _ => 1)]
                  (fun _ a _ _ => a) (fun _ a _ _ _ => a)) [] 1 (-1)) as H.
  unfold enthalpy in H. cbn [derivT] in H.
  destruct H as [E [[L U] _]]; [lra|lra|]. split; [exact L|].
  set (v := plasmaVelocity _ [] 1 (-1)) in *.
  assert (0 < gammaSq v) by (rewrite gammaSq_is_g2; apply g2_pos; lra).
  nra.
Qed.
