(** C06 -- matchings are physically admissible and correctly classified; the Jouguet velocity
    is the Chapman-Jouguet point; fastestDeflag / slowestDeton respect the tabulated ranges.

    Parts A-C are about definitions GENERATED on this run from src/WallGo/hydrodynamics.py
    (module GenC06.HydroAdmGen); part D about those generated from
    hydrodynamicsTemplateModel.py (GenC06.TemplAdmGen); part E re-exports the theorems of the
    hand-written decision model WG.Model.RangeLimit (tied to the code by correspondence).

    External numerics (never axioms): the solutions returned by scipy root / root_scalar /
    minimize_scalar are universally quantified variables (Tp, Tm, tmSol) constrained only by
    "the residual handed to the solver vanishes there"; the equation of state is the record
    [env] of arbitrary functions, with the thermodynamic identities proved in C10
    (e = w - p, cs^2 = p'/e') as explicit hypotheses. *)
From Coq Require Import Reals Lra Psatz QArith Qreals.
From WG Require Import Lib.NumpySem Lib.HydroAdm.
From GenC06 Require Import HydroAdmGen TemplAdmGen.
From GenC06 Require Thermo.                (* the generated Thermodynamics class (as in C10) *)
From WG Require Import Model.RangeLimit.   (* after the generated modules: [vJ c] is the cfg field *)
Local Open Scope R_scope.

(** the scale factor by which the code multiplies both matching equations never vanishes *)
Lemma scale_pos Tp Tm Tp0 Tm0 :
  0 < (2 ^ 2 + (Tp / Tp0) ^ 2 + (Tm / Tm0) ^ 2) * (2 ^ 2 + (Tp0 / Tp) ^ 2 + (Tm0 / Tm) ^ 2).
Proof.
  apply Rmult_lt_0_compat.
  - pose proof (pow2_ge_0 (Tp / Tp0)). pose proof (pow2_ge_0 (Tm / Tm0)). lra.
  - pose proof (pow2_ge_0 (Tp0 / Tp)). pose proof (pow2_ge_0 (Tm0 / Tm)). lra.
Qed.

Lemma mul_pos_zero x c : 0 < c -> x * c = 0 -> x = 0.
Proof. intros Hc H. apply Rmult_integral in H. destruct H; [assumption|lra]. Qed.

(** * A. Deflagrations and hybrids *)
Section Deflag.
Variable e : env.
Variables vw Tp Tm Tp0 Tm0 : R.

Let vpvm := fst (vpvmAndvpovm e Tp Tm).
Let vpovm := snd (vpvmAndvpovm e Tp Tm).

(** a zero of the residual given to scipy.root satisfies the junction relations with
    v-^2 = min(vw^2, cs^2(T-))  -- for v+ given ... *)
Lemma matching_fixed_root vp :
  matching_fixed e vw vp Tp Tm Tp0 Tm0 = (0, 0) ->
  vpvm / vpovm = Rmin (vw ^ 2) (csqLowT e Tm) /\ vpvm * vpovm = vp ^ 2.
Proof.
  unfold matching_fixed, vpvm, vpovm. destruct (vpvmAndvpovm e Tp Tm) as [a b]. cbn [fst snd].
  pose proof (scale_pos Tp Tm Tp0 Tm0) as C. intro H.
  pose proof (f_equal fst H) as H1. pose proof (f_equal snd H) as H2. cbn [fst snd] in H1, H2.
  apply (mul_pos_zero _ _ C) in H1. apply (mul_pos_zero _ _ C) in H2.
  split; lra.
Qed.

(** ... and for v+ fixed by entropy conservation *)
Lemma matching_entropy_root :
  matching_entropy e vw Tp Tm Tp0 Tm0 = (0, 0) ->
  vpvm / vpovm = Rmin (vw ^ 2) (csqLowT e Tm) /\
  vpvm * vpovm = (Tm ^ 2 - Tp ^ 2 * (1 - Rmin (vw ^ 2) (csqLowT e Tm))) / Tm ^ 2.
Proof.
  unfold matching_entropy, vpvm, vpovm. destruct (vpvmAndvpovm e Tp Tm) as [a b]. cbn [fst snd].
  pose proof (scale_pos Tp Tm Tp0 Tm0) as C. intro H.
  pose proof (f_equal fst H) as H1. pose proof (f_equal snd H) as H2. cbn [fst snd] in H1, H2.
  apply (mul_pos_zero _ _ C) in H1. apply (mul_pos_zero _ _ C) in H2.
  split; lra.
Qed.

(** what matchDeflagOrHyb returns: T+-, and v- by the same rule *)
Lemma deflag_ret_fixed_shape vp :
  deflag_ret_fixed e vw vp Tp Tm =
  (vp, sqrt (Rmax (Rmin (vw ^ 2) (csqLowT e Tm)) 0), Tp, Tm).
Proof. reflexivity. Qed.

Lemma deflag_ret_entropy_shape :
  let vm := sqrt (Rmax (Rmin (vw ^ 2) (csqLowT e Tm)) 0) in
  deflag_ret_entropy e vw Tp Tm =
  (sqrt (Tm ^ 2 - Tp ^ 2 * (1 - vm ^ 2)) / Tm, vm, Tp, Tm).
Proof. reflexivity. Qed.

Hypothesis Hvw : 0 <= vw.
Hypothesis Hcs : 0 <= csqLowT e Tm.

(** classification: below the sound speed behind the wall v- = vw (deflagration); above it
    v- = cs(T-) (hybrid); always 0 <= v- <= vw and v- <= cs(T-) *)
Lemma deflag_classification vp :
  let vm := snd (fst (fst (deflag_ret_fixed e vw vp Tp Tm))) in
  (vw ^ 2 <= csqLowT e Tm -> vm = vw) /\
  (csqLowT e Tm <= vw ^ 2 -> vm = sqrt (csqLowT e Tm)) /\
  0 <= vm <= vw /\ vm ^ 2 <= csqLowT e Tm.
Proof.
  rewrite deflag_ret_fixed_shape. cbn [fst snd]. cbv zeta.
  pose proof (vm_rule_bounds vw (csqLowT e Tm) Hvw Hcs) as B. cbv zeta in B.
  repeat split; try tauto.
  - intro H. apply vm_rule_deflag; assumption.
  - intro H. apply vm_rule_hybrid; assumption.
Qed.

Lemma deflag_classification_entropy :
  let vm := snd (fst (fst (deflag_ret_entropy e vw Tp Tm))) in
  (vw ^ 2 <= csqLowT e Tm -> vm = vw) /\
  (csqLowT e Tm <= vw ^ 2 -> vm = sqrt (csqLowT e Tm)) /\
  0 <= vm <= vw /\ vm ^ 2 <= csqLowT e Tm.
Proof.
  pose proof deflag_ret_entropy_shape as S. cbv zeta in S. rewrite S. cbn [fst snd]. cbv zeta.
  pose proof (vm_rule_bounds vw (csqLowT e Tm) Hvw Hcs) as B. cbv zeta in B.
  repeat split; try tauto.
  - intro H. apply vm_rule_deflag; assumption.
  - intro H. apply vm_rule_hybrid; assumption.
Qed.

(** the returned v- is the junction's v- at every zero of the residual: (v-)^2 = (v+v-)/(v+/v-),
    and the returned v+ is the junction's v+ *)
Lemma deflag_ret_is_junction vp :
  matching_fixed e vw vp Tp Tm Tp0 Tm0 = (0, 0) ->
  let vm := snd (fst (fst (deflag_ret_fixed e vw vp Tp Tm))) in
  vm ^ 2 = vpvm / vpovm /\ vp ^ 2 = vpvm * vpovm.
Proof.
  intro H. destruct (matching_fixed_root vp H) as [H1 H2].
  rewrite deflag_ret_fixed_shape. cbn [fst snd]. cbv zeta.
  pose proof (vm_rule_bounds vw (csqLowT e Tm) Hvw Hcs) as B. cbv zeta in B.
  split; [rewrite H1; tauto|lra].
Qed.

Lemma deflag_ret_entropy_is_junction :
  matching_entropy e vw Tp Tm Tp0 Tm0 = (0, 0) -> 0 < Tm ->
  0 <= Tm ^ 2 - Tp ^ 2 * (1 - Rmin (vw ^ 2) (csqLowT e Tm)) ->
  let r := deflag_ret_entropy e vw Tp Tm in
  let vp := fst (fst (fst r)) in let vm := snd (fst (fst r)) in
  vm ^ 2 = vpvm / vpovm /\ vp ^ 2 = vpvm * vpovm.
Proof.
  intros H HT Hrad. destruct (matching_entropy_root H) as [H1 H2].
  pose proof deflag_ret_entropy_shape as S. cbv zeta in S. cbv zeta. rewrite S. cbn [fst snd].
  pose proof (vm_rule_bounds vw (csqLowT e Tm) Hvw Hcs) as B. cbv zeta in B.
  destruct B as [_ [B _]].
  split; [rewrite H1; exact B|].
  rewrite B, H2. unfold Rdiv. rewrite Rpow_mult_distr.
  rewrite sqrt_pow2 by exact Hrad. rewrite pow_inv. reflexivity.
Qed.
End Deflag.

(** * B. Detonations *)
Section Deton.
Variable e : env.
Variables vw Tm : R.
Notation Tn := (Tnucl e).
Let vpvm := fst (vpvmAndvpovm e Tn Tm).
Let vpovm := snd (vpvmAndvpovm e Tn Tm).

(** v+ = vw and T+ = Tn, whatever the root finder returned; v- from the junction relations *)
Lemma deton_ret_shape :
  deton_ret e vw Tm = (vw, (if Req_EM_T vw 1 then 1 else sqrt (vpvm / vpovm)), Tn, Tm).
Proof.
  unfold deton_ret, vpvm, vpovm. destruct (vpvmAndvpovm e Tn Tm) as [a b]. cbn [fst snd].
  destruct (Req_EM_T vw 1); reflexivity.
Qed.

Hypothesis eH_def : eHighT e Tn = wHighT e Tn - pHighT e Tn.     (* C10: e = w - p *)
Hypothesis eL_def : forall t, eLowT e t = wLowT e t - pLowT e t.

Lemma deton_residual_eq t :
  deton_residual e vw t = detonRes vw (pHighT e Tn) (eHighT e Tn) (pLowT e t) (eLowT e t).
Proof. unfold deton_residual, detonRes. rewrite eH_def, eL_def. reflexivity. Qed.

Lemma vpvm_vpovm_eq : eHighT e Tn - eLowT e Tm <> 0 ->
  vpvm = (pHighT e Tn - pLowT e Tm) / (eHighT e Tn - eLowT e Tm) /\
  vpovm = (eLowT e Tm + pHighT e Tn) / (eHighT e Tn + pLowT e Tm).
Proof.
  intro H. unfold vpvm, vpovm, vpvmAndvpovm. cbn [fst snd].
  destruct (Req_EM_T (eHighT e Tn) (eLowT e Tm)) as [E|E]; [lra|]. cbn [negb]. auto.
Qed.

(** a zero of the residual handed to brentq is a solution of the junction relations with
    v+ = vw :  (v+v-)(v+/v-) = vw^2 *)
Lemma deton_root_is_junction :
  eHighT e Tn - eLowT e Tm <> 0 -> eHighT e Tn + pLowT e Tm <> 0 ->
  deton_residual e vw Tm = 0 -> vpvm * vpovm = vw ^ 2.
Proof.
  intros H1 H2 Hr. rewrite deton_residual_eq in Hr. unfold detonRes in Hr.
  destruct (vpvm_vpovm_eq H1) as [A B]. rewrite A, B.
  assert (E : vw ^ 2 * (eHighT e Tn - eLowT e Tm) =
              (pHighT e Tn - pLowT e Tm) * (eLowT e Tm + pHighT e Tn) / (eHighT e Tn + pLowT e Tm)) by lra.
  apply Rmult_eq_reg_r with (eHighT e Tn - eLowT e Tm); [|exact H1].
  rewrite E. field. split; assumption.
Qed.

(** weak branch: brentq is started on [Tn, argmin residual]; if the residual is non-negative
    from Tn up to the returned root (the root is the first one -- validated by scanning), then
    the detonation is weak or Jouguet: v-^2 >= cs^2(T-) *)
Hypothesis dp_der : derivable_pt_lim (pLowT e) Tm (dpLowT e Tm).
Hypothesis de_der : derivable_pt_lim (eLowT e) Tm (deLowT e Tm).
Hypothesis csq_def : csqLowT e Tm = dpLowT e Tm / deLowT e Tm.    (* C10: cs^2 = p'/e' *)

Lemma deton_weak_branch :
  Tn < Tm -> (forall t, Tn <= t < Tm -> 0 <= deton_residual e vw t) ->
  deton_residual e vw Tm = 0 ->
  0 < deLowT e Tm -> 0 < eHighT e Tn + pHighT e Tn -> 0 < pHighT e Tn + eLowT e Tm ->
  eHighT e Tn - eLowT e Tm <> 0 -> eHighT e Tn + pLowT e Tm <> 0 ->
  csqLowT e Tm <= vpvm / vpovm.
Proof.
  intros HT Hpos Hroot Hde Hw Hn2 Hd1 Hd2.
  set (l := vw ^ 2 * (- deLowT e Tm)
            - (((- dpLowT e Tm) * (eLowT e Tm + pHighT e Tn) + (pHighT e Tn - pLowT e Tm) * deLowT e Tm)
                 * (eHighT e Tn + pLowT e Tm)
               - (pHighT e Tn - pLowT e Tm) * (eLowT e Tm + pHighT e Tn) * dpLowT e Tm)
              / (eHighT e Tn + pLowT e Tm) ^ 2).
  assert (D : derivable_pt_lim (deton_residual e vw) Tm l).
  { apply (derivable_pt_lim_ext
             (fun t => detonRes vw (pHighT e Tn) (eHighT e Tn) (pLowT e t) (eLowT e t))).
    - intro t. symmetry. apply deton_residual_eq.
    - apply detonRes_derivable_pt_lim; assumption. }
  pose proof (first_root_slope _ Tn Tm l HT Hpos Hroot D) as Hl.
  rewrite deton_residual_eq in Hroot.
  assert (Hde' : deLowT e Tm <> 0) by lra.
  assert (Hn2' : pHighT e Tn + eLowT e Tm <> 0) by lra.
  pose proof (detonRes_slope_at_root vw _ _ _ _ (dpLowT e Tm) _ Hde' Hn2' Hd1 Hd2 Hroot) as S.
  fold l in S. destruct (vpvm_vpovm_eq Hd1) as [A B]. rewrite A, B, csq_def.
  set (X := (pHighT e Tn - pLowT e Tm) / (eHighT e Tn - eLowT e Tm) /
            ((eLowT e Tm + pHighT e Tn) / (eHighT e Tn + pLowT e Tm)) - dpLowT e Tm / deLowT e Tm) in *.
  assert (K : 0 < (eHighT e Tn + pHighT e Tn) * deLowT e Tm * (pHighT e Tn + eLowT e Tm)
                  / (eHighT e Tn + pLowT e Tm) ^ 2).
  { apply Rdiv_lt_0_compat; [repeat apply Rmult_lt_0_compat; assumption|].
    assert (0 <> eHighT e Tn + pLowT e Tm) by (intro Q; apply Hd2; symmetry; exact Q).
    pose proof (pow2_ge_0 (eHighT e Tn + pLowT e Tm)). nra. }
  assert (0 <= X) by nra. unfold X in *. lra.
Qed.
End Deton.

(** * C. The Jouguet velocity found by the code is the Chapman-Jouguet point *)
Section Jouguet.
Variable e : env.
Notation Tn := (Tnucl e).
Notation pH := (pHighT e Tn).
Notation eH := (eHighT e Tn).

(** v+^2 as a function of T- at T+ = Tn : the square of what findJouguetVelocity returns *)
Definition vpsq (tm : R) : R :=
  (pH - pLowT e tm) * (pH + eLowT e tm) / (eH - eLowT e tm) / (eH + pLowT e tm).

Lemma vJ_of_tm_is_sqrt_vpsq tm : vJ_of_tm e tm = sqrt (vpsq tm).
Proof. reflexivity. Qed.

Lemma vpDerivNum_eq tm :
  vpDerivNum e tm = vpsqNum pH eH (pLowT e tm) (eLowT e tm) (dpLowT e tm) (deLowT e tm).
Proof. unfold vpDerivNum, vpsqNum. ring. Qed.

(** the function whose zero the code looks for is, up to the positive factor
    ((e+ - e-)(e+ + p-))^2, the derivative of v+^2 with respect to T- *)
Lemma vpDerivNum_is_derivative tm :
  derivable_pt_lim (pLowT e) tm (dpLowT e tm) -> derivable_pt_lim (eLowT e) tm (deLowT e tm) ->
  eH - eLowT e tm <> 0 -> eH + pLowT e tm <> 0 ->
  derivable_pt_lim vpsq tm
    (vpDerivNum e tm / ((eH - eLowT e tm) * (eH + pLowT e tm)) ^ 2).
Proof.
  intros. rewrite vpDerivNum_eq. unfold vpsq. apply vpsq_derivable_pt_lim; assumption.
Qed.

(** Chapman-Jouguet factorisation: d(v+^2)/dT- = K (v-^2 - cs^2(T-)) *)
Lemma CJ_condition tm :
  csqLowT e tm = dpLowT e tm / deLowT e tm ->
  deLowT e tm <> 0 -> pH + eLowT e tm <> 0 -> eH - eLowT e tm <> 0 -> eH + pLowT e tm <> 0 ->
  let vpvm := fst (vpvmAndvpovm e Tn tm) in let vpovm := snd (vpvmAndvpovm e Tn tm) in
  vpDerivNum e tm =
  (eH + pH) * deLowT e tm * (pH + eLowT e tm) * (eH - eLowT e tm) * (vpvm / vpovm - csqLowT e tm).
Proof.
  intros Hc H1 H2 H3 H4. cbv zeta.
  destruct (vpvm_vpovm_eq e tm H3) as [A B]. rewrite A, B, Hc, vpDerivNum_eq.
  apply CJ_factor; assumption.
Qed.

(** hence: the temperature found by the code (a zero of vpDerivNum) is exactly where a
    detonation has v- = cs(T-), and conversely *)
Lemma jouguet_iff_sonic tm :
  csqLowT e tm = dpLowT e tm / deLowT e tm ->
  deLowT e tm <> 0 -> eH + pH <> 0 -> pH + eLowT e tm <> 0 -> eH - eLowT e tm <> 0 ->
  eH + pLowT e tm <> 0 ->
  (vpDerivNum e tm = 0 <->
   fst (vpvmAndvpovm e Tn tm) / snd (vpvmAndvpovm e Tn tm) = csqLowT e tm).
Proof.
  intros Hc H1 Hw H2 H3 H4. pose proof (CJ_condition tm Hc H1 H2 H3 H4) as C. cbv zeta in C.
  rewrite C. split.
  - intro Z. apply Rmult_integral in Z. destruct Z as [Z|Z]; [|lra].
    exfalso. repeat (apply Rmult_integral in Z; destruct Z as [Z|Z]); auto.
  - intro E. rewrite E. ring.
Qed.

(** the detonation AT the returned velocity vJ = sqrt(v+^2(tmSol)) : tmSol solves its matching
    equation, and the code's matchDeton result has v+ = vJ, T+ = Tn, v- = cs(T-) *)
Lemma jouguet_detonation_is_sonic tm :
  eH = wHighT e Tn - pH -> (forall t, eLowT e t = wLowT e t - pLowT e t) ->
  csqLowT e tm = dpLowT e tm / deLowT e tm ->
  deLowT e tm <> 0 -> eH + pH <> 0 -> pH + eLowT e tm <> 0 -> eH - eLowT e tm <> 0 ->
  eH + pLowT e tm <> 0 ->
  0 <= vpsq tm -> vJ_of_tm e tm <> 1 ->
  vpDerivNum e tm = 0 ->
  deton_residual e (vJ_of_tm e tm) tm = 0 /\
  deton_ret e (vJ_of_tm e tm) tm = (vJ_of_tm e tm, sqrt (csqLowT e tm), Tn, tm).
Proof.
  intros HeH HeL Hc H1 Hw H2 H3 H4 Hpos Hne1 Z.
  split.
  - rewrite (deton_residual_eq e _ HeH HeL). unfold detonRes.
    rewrite vJ_of_tm_is_sqrt_vpsq, sqrt_pow2 by exact Hpos. unfold vpsq. field. split; assumption.
  - rewrite deton_ret_shape. destruct (Req_EM_T (vJ_of_tm e tm) 1); [contradiction|].
    apply (jouguet_iff_sonic tm Hc H1 Hw H2 H3 H4) in Z. rewrite Z. reflexivity.
Qed.
End Jouguet.

(** * C''. The Jouguet velocity is the MINIMUM of v+ over T-, and how the code finds it *)
Section JouguetMinimum.
Variable e : env.
Notation Tn := (Tnucl e).
Notation eH := (eHighT e Tn).

(** if vpDerivNum is <= 0 before tm and >= 0 after it (on [a,b]), then v+^2(tm) is the minimum
    of v+^2 on [a,b], and so is the returned vJ = sqrt(v+^2(tm)) *)
Lemma vJ_minimum a b tm :
  a <= tm <= b ->
  (forall c, a <= c <= b -> derivable_pt_lim (pLowT e) c (dpLowT e c) /\
                            derivable_pt_lim (eLowT e) c (deLowT e c) /\
                            eH - eLowT e c <> 0 /\ eH + pLowT e c <> 0) ->
  (forall c, a <= c < tm -> vpDerivNum e c <= 0) ->
  (forall c, tm < c <= b -> 0 <= vpDerivNum e c) ->
  forall t, a <= t <= b -> vpsq e tm <= vpsq e t /\ vJ_of_tm e tm <= vJ_of_tm e t.
Proof.
  intros Hm Hd Hneg Hpos t Ht.
  assert (M : vpsq e tm <= vpsq e t).
  { apply (local_min_of_sign_change (vpsq e)
             (fun c => vpDerivNum e c / ((eH - eLowT e c) * (eH + pLowT e c)) ^ 2) a b tm Hm).
    - intros c Hc. destruct (Hd c Hc) as [D1 [D2 [N1 N2]]].
      apply vpDerivNum_is_derivative; assumption.
    - intros c Hc. destruct (Hd c) as [_ [_ [N1 N2]]]; [lra|].
      assert (0 < ((eH - eLowT e c) * (eH + pLowT e c)) ^ 2).
      { assert ((eH - eLowT e c) * (eH + pLowT e c) <> 0)
          by (apply Rmult_integral_contrapositive_currified; assumption).
        pose proof (pow2_ge_0 ((eH - eLowT e c) * (eH + pLowT e c))). nra. }
      pose proof (Hneg c Hc). unfold Rdiv.
      assert (0 < / ((eH - eLowT e c) * (eH + pLowT e c)) ^ 2) by (apply Rinv_0_lt_compat; assumption).
      nra.
    - intros c Hc. destruct (Hd c) as [_ [_ [N1 N2]]]; [lra|].
      assert (0 < ((eH - eLowT e c) * (eH + pLowT e c)) ^ 2).
      { assert ((eH - eLowT e c) * (eH + pLowT e c) <> 0)
          by (apply Rmult_integral_contrapositive_currified; assumption).
        pose proof (pow2_ge_0 ((eH - eLowT e c) * (eH + pLowT e c))). nra. }
      pose proof (Hpos c Hc). unfold Rdiv.
      assert (0 < / ((eH - eLowT e c) * (eH + pLowT e c)) ^ 2) by (apply Rinv_0_lt_compat; assumption).
      nra.
    - exact Ht. }
  split; [exact M|]. rewrite !vJ_of_tm_is_sqrt_vpsq. apply sqrt_le_1_alt, M.
Qed.

(** the bracket search (generated: jouguet_init, jouguet_loop_test, jouguet_loop_step,
    jouguet_use_brentq, jouguet_brentq_bracket), run with any amount of fuel on any function f *)
Variable f : R -> R.
Hypothesis HTn : 0 < Tn.

Fixpoint jsearch (n : nat) (p : R * R) : R * R :=
  match n with
  | O => p
  | S n' => if jouguet_loop_test e (f (fst p)) (f (snd p)) (fst p) (snd p)
            then jsearch n' (jouguet_loop_step e (fst p) (snd p)) else p
  end.

Lemma step_fst a b : fst (jouguet_loop_step e a b) = b.
Proof. reflexivity. Qed.
Lemma step_snd a b : b < TMaxHydro e -> b < snd (jouguet_loop_step e a b) <= TMaxHydro e.
Proof.
  intro H. unfold jouguet_loop_step. cbn [snd]. split.
  - apply Rmin_glb_lt; lra.
  - apply Rmin_r.
Qed.
Lemma loop_test_true b1 b2 a b : jouguet_loop_test e b1 b2 a b = true -> 0 < b1 * b2 /\ b < TMaxHydro e.
Proof.
  unfold jouguet_loop_test.
  destruct (Rlt_dec 0 (b1 * b2)); destruct (Rlt_dec b (TMaxHydro e)); cbn; intro H;
    try discriminate; auto.
Qed.

(** consecutive brackets are adjacent ([.., b] then [b, b'] with b < b' <= TMaxHydro), and as
    long as the search goes on f has the strict sign of f(Tn) at the left end *)
Lemma jsearch_invariant n : forall p,
  (fst p = Tn \/ 0 < f Tn * f (fst p)) ->
  (fst (jsearch n p) = Tn \/ 0 < f Tn * f (fst (jsearch n p))).
Proof.
  induction n as [|n IH]; intros p Hp; cbn [jsearch]; [exact Hp|].
  destruct (jouguet_loop_test e (f (fst p)) (f (snd p)) (fst p) (snd p)) eqn:T; [|exact Hp].
  apply IH. rewrite step_fst. right.
  apply loop_test_true in T. destruct T as [T _].
  destruct Hp as [E|P]; [rewrite E in T; exact T|].
  apply sign_chain_pos with (f (fst p)); assumption.
Qed.

Lemma jouguet_init_fst : fst (jouguet_init e) = Tn.
Proof. reflexivity. Qed.

(** when brentq is chosen, the bracket it is given, [Tn, Tmax], has a sign change, and the
    sign change sits in the last interval examined *)
Lemma brentq_bracket_sign_change n :
  let q := jsearch n (jouguet_init e) in
  jouguet_use_brentq e (f (fst q)) (f (snd q)) (fst q) (snd q) = true ->
  jouguet_brentq_bracket e (fst q) (snd q) = (Tn, snd q) /\
  f Tn * f (snd q) <= 0 /\ f (fst q) * f (snd q) <= 0.
Proof.
  cbv zeta. set (q := jsearch n (jouguet_init e)).
  unfold jouguet_use_brentq. destruct (Rle_dec (f (fst q) * f (snd q)) 0) as [L|]; [|discriminate].
  intros _. split; [reflexivity|]. split; [|exact L].
  pose proof (jsearch_invariant n (jouguet_init e) (or_introl jouguet_init_fst)) as I.
  fold q in I. destruct I as [E|P].
  - rewrite E in L. exact L.
  - apply sign_chain with (f (fst q)); assumption.
Qed.
End JouguetMinimum.

(** * A'. Temperatures handed to the matching equations, speeds in the unit interval *)
Section Ranges.
Variable e : env.

(** the solver's unknowns are mapped into the open hydro window (TMinHydro, TMaxHydro) *)
Lemma inverse_mapping_range x : TMinHydro e < TMaxHydro e ->
  let r := inverseMappingT e x in
  TMinHydro e < fst r < TMaxHydro e /\ TMinHydro e < snd r < TMaxHydro e.
Proof.
  intro H. unfold inverseMappingT. destruct x as [a b]. cbn [fst snd].
  pose proof PI_RGT_0 as P.
  assert (B : forall y, - (1 / 2) < atan y / PI < 1 / 2).
  { intro y. destruct (atan_bound y) as [L U].
    split; [apply Rmult_lt_reg_r with PI|apply Rmult_lt_reg_r with PI]; try exact P;
      unfold Rdiv; rewrite Rmult_assoc, Rinv_l by lra; lra. }
  assert (E : forall y, atan y * (TMaxHydro e - TMinHydro e) / PI =
                        (atan y / PI) * (TMaxHydro e - TMinHydro e)) by (intro; field; lra).
  rewrite !E. pose proof (B a). pose proof (B b). split; split; nra.
Qed.

Lemma deflag_speeds vw vp Tp Tm : 0 < vw < 1 -> 0 < csqLowT e Tm ->
  let vm := snd (fst (fst (deflag_ret_fixed e vw vp Tp Tm))) in 0 < vm < 1.
Proof.
  intros Hv Hc. rewrite deflag_ret_fixed_shape. cbn [fst snd]. cbv zeta.
  assert (M : 0 < Rmin (vw ^ 2) (csqLowT e Tm)) by (apply Rmin_glb_lt; nra).
  rewrite Rmax_left by lra. split; [apply sqrt_lt_R0, M|].
  pose proof (vm_rule_bounds vw (csqLowT e Tm)) as B. cbv zeta in B.
  rewrite Rmax_left in B by lra. destruct B as [[_ B] _]; lra.
Qed.

Lemma deflag_speeds_entropy vw Tp Tm : 0 < vw < 1 -> 0 < csqLowT e Tm -> 0 < Tm -> Tp <> 0 ->
  0 <= Tm ^ 2 - Tp ^ 2 * (1 - Rmin (vw ^ 2) (csqLowT e Tm)) ->
  let r := deflag_ret_entropy e vw Tp Tm in
  0 < snd (fst (fst r)) < 1 /\ 0 <= fst (fst (fst r)) < 1.
Proof.
  intros Hv Hc HT HTp Hrad.
  pose proof (deflag_ret_entropy_shape e vw Tp Tm) as S. cbv zeta in S. cbv zeta. rewrite S.
  cbn [fst snd].
  pose proof (deflag_speeds vw 0 Tp Tm Hv Hc) as V. rewrite deflag_ret_fixed_shape in V.
  cbn [fst snd] in V. cbv zeta in V.
  pose proof (vm_rule_bounds vw (csqLowT e Tm)) as B. cbv zeta in B.
  destruct B as [_ [B _]]; [lra|lra|].
  set (vm := sqrt (Rmax (Rmin (vw ^ 2) (csqLowT e Tm)) 0)) in *.
  split; [exact V|]. rewrite B.
  set (rad := Tm ^ 2 - Tp ^ 2 * (1 - Rmin (vw ^ 2) (csqLowT e Tm))) in *.
  split.
  - apply Rmult_le_pos; [apply sqrt_pos|]. apply Rlt_le, Rinv_0_lt_compat, HT.
  - apply Rmult_lt_reg_r with Tm; [exact HT|].
    unfold Rdiv. rewrite Rmult_assoc, Rinv_l, Rmult_1_r, Rmult_1_l by lra.
    assert (rad < Tm ^ 2).
    { unfold rad. rewrite <- B.
      assert (0 < Tp ^ 2) by (assert (0 <= Tp ^ 2) by apply pow2_ge_0;
                              assert (Tp ^ 2 <> 0) by (apply pow_nonzero; exact HTp); lra).
      assert (0 < 1 - vm ^ 2) by nra. nra. }
    apply Rlt_le_trans with (sqrt (Tm ^ 2)); [apply sqrt_lt_1_alt; lra|].
    rewrite sqrt_sq_nonneg by lra. lra.
Qed.

(** deflagration (vw below the sound speed behind the wall): any v+ taken from the bracket the
    code searches, [vBracketLow, vpmax] with vpmax <= vw (also after vpmax is re-solved inside
    [vpmax, vw]), is <= v- = vw *)
Lemma vpmax_le_vw vw : findMatching_vpmax e vw <= vw.
Proof. unfold findMatching_vpmax. apply Rmin_l. Qed.

Lemma deflag_vp_le_vm vw vp Tp Tm : 0 <= vw -> vw ^ 2 <= csqLowT e Tm -> vp <= vw ->
  vp <= snd (fst (fst (deflag_ret_fixed e vw vp Tp Tm))).
Proof.
  intros H0 Hc Hv. rewrite deflag_ret_fixed_shape. cbn [fst snd].
  rewrite vm_rule_deflag by assumption. exact Hv.
Qed.
End Ranges.

(** * D. Template model *)
Section Tmpl.
Variable e : t_env.
Hypothesis Hcb : t_init_cb e.                (* self.cb = np.sqrt(self.cb2), from __init__ *)
Hypothesis Hcb2 : 0 < t_cb2 e < 1.
Hypothesis Hal : 0 <= t_alN e.

Notation cb := (t_cb e).
Notation cb2 := (t_cb2 e).
Notation alN := (t_alN e).
Notation vJ := (t_findJouguetVelocity e alN).

Lemma t_vJ_eq : vJ = tvJ cb cb2 alN.
Proof. reflexivity. Qed.

Lemma t_deton_eq vw :
  t_detonationVAndT e vw = (vw, tvm cb2 alN vw, t_Tnucl e, t_findTm e (tvm cb2 alN vw) vw (t_Tnucl e)).
Proof. reflexivity. Qed.

(** the closed-form vJ lies in [cb, 1) *)
Lemma template_vJ_range : cb <= vJ < 1.
Proof.
  rewrite t_vJ_eq. split; [apply tvJ_ge_cb|apply tvJ_lt1]; assumption.
Qed.

(** detonation branch: v+ = vw, T+ = Tn, cb <= v- (weak or Jouguet), v- < v+ for alpha > 0,
    and v- solves the wall junction equation (20a) with alpha_+ = alpha_n *)
Lemma template_deton_branch vw : vJ <= vw -> vw < 1 ->
  let r := t_detonationVAndT e vw in
  let vp := fst (fst (fst r)) in let vm := snd (fst (fst r)) in
  vp = vw /\ snd (fst r) = t_Tnucl e /\ cb <= vm /\ (0 < alN -> vm < vp) /\
  (0 < alN -> t_alpha_plus e vp vm = alN).
Proof.
  intros Hv H1. cbv zeta. rewrite t_deton_eq. cbn [fst snd]. rewrite t_vJ_eq in Hv.
  pose proof (tvm_ge_cb cb cb2 alN Hcb Hcb2 Hal vw Hv) as G.
  pose proof (cb_pos cb cb2 Hcb Hcb2) as P.
  pose proof (tvJ_ge_cb cb cb2 alN Hcb Hcb2 Hal) as J.
  repeat split; try assumption.
  - intro A. apply (tvm_lt_vw cb cb2 alN Hcb Hcb2 Hal); assumption.
  - intro A. pose proof (tvm_quadratic cb cb2 alN Hcb Hcb2 Hal vw Hv) as Q.
    pose proof (tvm_lt_vw cb cb2 alN Hcb Hcb2 Hal vw A Hv H1) as L.
    remember (tvm cb2 alN vw) as vm eqn:Evm. clear Evm. unfold t_alpha_plus. unfold tpart in Q.
    assert (V1 : 1 - vw ^ 2 <> 0) by nra.
    assert (Vm : vm <> 0) by lra.
    assert (C2 : cb2 <> 0) by lra.
    (* alpha_+ = ((vp-vm)(vp vm - cb2)) / (3 cb2 vm (1-vp^2)) and the quadratic *)
    apply Rmult_eq_reg_r with (3 * cb2 * vm * (1 - vw ^ 2)).
    2: { repeat apply Rmult_integral_contrapositive_currified; try assumption; lra. }
    field_simplify_eq; [|repeat split; assumption]. nra.
Qed.

(** at vw = vJ the detonation has v- = cb : vJ is the Chapman-Jouguet velocity *)
Lemma template_vJ_is_CJ : snd (fst (fst (t_detonationVAndT e vJ))) = cb.
Proof.
  rewrite t_deton_eq. cbn [fst snd]. rewrite t_vJ_eq. apply tvm_at_vJ; assumption.
Qed.

(** getVp inverts the junction equation (20a): both branches are roots of
    (vm + 3 cb2 vm al) vp^2 - (cb2 + vm^2) vp + vm cb2 (1 - 3 al) = 0 *)
Lemma template_getVp_solves_junction vm al br :
  br ^ 2 = 1 -> vm + 3 * cb2 * vm * al <> 0 ->
  0 <= vm ^ 4 - 2 * cb2 * vm ^ 2 * (1 - 6 * al) + cb2 ^ 2 * (1 - 12 * vm ^ 2 * al * (1 - 3 * al)) ->
  let vp := t_getVp e vm al br in
  (vm + 3 * cb2 * vm * al) * vp ^ 2 - (cb2 + vm ^ 2) * vp + vm * cb2 * (1 - 3 * al) = 0.
Proof.
  intros Hb Hd Hdisc. cbv zeta. unfold t_getVp. rewrite Rmax_right by exact Hdisc.
  set (D := vm ^ 4 - 2 * cb2 * vm ^ 2 * (1 - 6 * al) + cb2 ^ 2 * (1 - 12 * vm ^ 2 * al * (1 - 3 * al))) in *.
  set (s := sqrt D). assert (Hs : s ^ 2 = D) by (apply sqrt_pow2; exact Hdisc).
  replace (2 * cb2 * vm ^ 2 * (1 - 6 * al)) with (2 * cb2 * vm ^ 2 * (1 - 6 * al)) by ring.
  match goal with |- ?L = 0 =>
    replace L with ((br ^ 2 * s ^ 2 - D) / (4 * (vm + 3 * cb2 * vm * al)))
      by (unfold D; field; exact Hd) end.
  rewrite Hb, Hs. unfold Rdiv. ring.
Qed.

Lemma template_getVp_solves_alpha vm al br :
  br ^ 2 = 1 -> 0 < vm -> 0 <= al ->
  0 <= vm ^ 4 - 2 * cb2 * vm ^ 2 * (1 - 6 * al) + cb2 ^ 2 * (1 - 12 * vm ^ 2 * al * (1 - 3 * al)) ->
  1 - t_getVp e vm al br ^ 2 <> 0 ->
  t_alpha_plus e (t_getVp e vm al br) vm = al.
Proof.
  intros Hb Hvm Ha Hdisc Hv1.
  assert (Hd : vm + 3 * cb2 * vm * al <> 0).
  { assert (0 <= 3 * cb2 * vm * al) by (repeat apply Rmult_le_pos; lra). lra. }
  pose proof (template_getVp_solves_junction vm al br Hb Hd Hdisc) as Q. cbv zeta in Q.
  remember (t_getVp e vm al br) as vp eqn:Evp. clear Evp. unfold t_alpha_plus.
  assert (C2 : cb2 <> 0) by lra. assert (Vm : vm <> 0) by lra.
  apply Rmult_eq_reg_r with (3 * cb2 * vm * (1 - vp ^ 2)).
  2: { repeat apply Rmult_integral_contrapositive_currified; try assumption; lra. }
  field_simplify_eq; [|repeat split; assumption]. nra.
Qed.
End Tmpl.

(** * C'. The same, on the GENERATED Thermodynamics class: the thermodynamic identities that
    parts B and C assume are discharged against thermodynamics.py (any tables, any state) *)
Section OnThermodynamics.
Variable te : Thermo.env.
Variable s : Thermo.st.
Variables Tn vJ0 THydroMax THydroMin : R.

Definition env_of : env :=
  {| Tnucl := Tn; HydroAdmGen.vJ := vJ0; HydroAdmGen.TMaxLowT := Thermo.TMaxLowT s;
     TMaxHydro := THydroMax; TMinHydro := THydroMin;
     pHighT := Thermo.pHighT te s; pLowT := Thermo.pLowT te s;
     eHighT := Thermo.eHighT te s; eLowT := Thermo.eLowT te s;
     wHighT := Thermo.wHighT te s; wLowT := Thermo.wLowT te s;
     dpLowT := Thermo.dpLowT te s; deLowT := Thermo.deLowT te s;
     csqLowT := Thermo.csqLowT te s; csqHighT := Thermo.csqHighT te s |}.

Lemma thermo_eL t : eLowT env_of t = wLowT env_of t - pLowT env_of t.
Proof. cbn. unfold Thermo.eLowT, Thermo.wLowT. ring. Qed.
Lemma thermo_eH t : eHighT env_of t = wHighT env_of t - pHighT env_of t.
Proof. cbn. unfold Thermo.eHighT, Thermo.wHighT. ring. Qed.
Lemma thermo_csq t : Thermo.TMinLowT s <= t <= Thermo.TMaxLowT s ->
  csqLowT env_of t = dpLowT env_of t / deLowT env_of t.
Proof.
  intros [H1 H2]. cbn. unfold Thermo.csqLowT.
  destruct (Rlt_dec t (Thermo.TMinLowT s)); [lra|].
  destruct (Rlt_dec (Thermo.TMaxLowT s) t); [lra|reflexivity].
Qed.

Lemma jouguet_iff_sonic_thermo tm :
  Thermo.TMinLowT s <= tm <= Thermo.TMaxLowT s ->
  deLowT env_of tm <> 0 -> eHighT env_of Tn + pHighT env_of Tn <> 0 ->
  pHighT env_of Tn + eLowT env_of tm <> 0 -> eHighT env_of Tn - eLowT env_of tm <> 0 ->
  eHighT env_of Tn + pLowT env_of tm <> 0 ->
  (vpDerivNum env_of tm = 0 <->
   fst (vpvmAndvpovm env_of Tn tm) / snd (vpvmAndvpovm env_of Tn tm) = csqLowT env_of tm).
Proof. intros R0. apply (jouguet_iff_sonic env_of tm). apply thermo_csq, R0. Qed.

Lemma jouguet_detonation_is_sonic_thermo tm :
  Thermo.TMinLowT s <= tm <= Thermo.TMaxLowT s ->
  deLowT env_of tm <> 0 -> eHighT env_of Tn + pHighT env_of Tn <> 0 ->
  pHighT env_of Tn + eLowT env_of tm <> 0 -> eHighT env_of Tn - eLowT env_of tm <> 0 ->
  eHighT env_of Tn + pLowT env_of tm <> 0 ->
  0 <= vpsq env_of tm -> vJ_of_tm env_of tm <> 1 ->
  vpDerivNum env_of tm = 0 ->
  deton_residual env_of (vJ_of_tm env_of tm) tm = 0 /\
  deton_ret env_of (vJ_of_tm env_of tm) tm =
    (vJ_of_tm env_of tm, sqrt (csqLowT env_of tm), Tn, tm).
Proof.
  intros R0. apply (jouguet_detonation_is_sonic env_of tm).
  - apply thermo_eH. - apply thermo_eL. - apply thermo_csq, R0.
Qed.

Lemma deton_weak_branch_thermo vw Tm :
  Thermo.TMinLowT s <= Tm <= Thermo.TMaxLowT s ->
  derivable_pt_lim (pLowT env_of) Tm (dpLowT env_of Tm) ->
  derivable_pt_lim (eLowT env_of) Tm (deLowT env_of Tm) ->
  Tn < Tm -> (forall t, Tn <= t < Tm -> 0 <= deton_residual env_of vw t) ->
  deton_residual env_of vw Tm = 0 ->
  0 < deLowT env_of Tm -> 0 < eHighT env_of Tn + pHighT env_of Tn ->
  0 < pHighT env_of Tn + eLowT env_of Tm ->
  eHighT env_of Tn - eLowT env_of Tm <> 0 -> eHighT env_of Tn + pLowT env_of Tm <> 0 ->
  csqLowT env_of Tm <= fst (vpvmAndvpovm env_of Tn Tm) / snd (vpvmAndvpovm env_of Tn Tm).
Proof.
  intros R0 D1 D2. apply (deton_weak_branch env_of vw Tm (thermo_eH Tn) thermo_eL D1 D2).
  apply thermo_csq, R0.
Qed.
End OnThermodynamics.

(* ------------------------------------------------------------------------------------ *)
(** * Obligations *)

Theorem vm_rule : forall e vw vp Tp Tm Tp0 Tm0,
  matching_fixed e vw vp Tp Tm Tp0 Tm0 = (0, 0) ->
  fst (vpvmAndvpovm e Tp Tm) / snd (vpvmAndvpovm e Tp Tm) = Rmin (vw ^ 2) (csqLowT e Tm) /\
  fst (vpvmAndvpovm e Tp Tm) * snd (vpvmAndvpovm e Tp Tm) = vp ^ 2.
Proof. intros. eapply matching_fixed_root; eassumption. Qed.
Print Assumptions vm_rule.

Theorem vm_rule_entropy : forall e vw Tp Tm Tp0 Tm0,
  matching_entropy e vw Tp Tm Tp0 Tm0 = (0, 0) ->
  fst (vpvmAndvpovm e Tp Tm) / snd (vpvmAndvpovm e Tp Tm) = Rmin (vw ^ 2) (csqLowT e Tm) /\
  fst (vpvmAndvpovm e Tp Tm) * snd (vpvmAndvpovm e Tp Tm) =
    (Tm ^ 2 - Tp ^ 2 * (1 - Rmin (vw ^ 2) (csqLowT e Tm))) / Tm ^ 2.
Proof. intros. eapply matching_entropy_root; eassumption. Qed.
Print Assumptions vm_rule_entropy.

Theorem deflagration_hybrid_classification : forall e vw vp Tp Tm,
  0 <= vw -> 0 <= csqLowT e Tm ->
  let r := deflag_ret_fixed e vw vp Tp Tm in
  let vm := snd (fst (fst r)) in
  fst (fst (fst r)) = vp /\ snd (fst r) = Tp /\ snd r = Tm /\
  (vw ^ 2 <= csqLowT e Tm -> vm = vw) /\
  (csqLowT e Tm <= vw ^ 2 -> vm = sqrt (csqLowT e Tm)) /\
  0 <= vm <= vw /\ vm ^ 2 <= csqLowT e Tm.
Proof.
  intros e vw vp Tp Tm H1 H2. cbv zeta.
  pose proof (deflag_classification e vw Tp Tm H1 H2 vp) as C. cbv zeta in C.
  rewrite deflag_ret_fixed_shape in *. cbn [fst snd] in *. tauto.
Qed.
Print Assumptions deflagration_hybrid_classification.

Theorem deflagration_hybrid_classification_entropy : forall e vw Tp Tm,
  0 <= vw -> 0 <= csqLowT e Tm ->
  let r := deflag_ret_entropy e vw Tp Tm in
  let vm := snd (fst (fst r)) in
  snd (fst r) = Tp /\ snd r = Tm /\
  (vw ^ 2 <= csqLowT e Tm -> vm = vw) /\
  (csqLowT e Tm <= vw ^ 2 -> vm = sqrt (csqLowT e Tm)) /\
  0 <= vm <= vw /\ vm ^ 2 <= csqLowT e Tm.
Proof.
  intros e vw Tp Tm H1 H2. cbv zeta.
  pose proof (deflag_classification_entropy e vw Tp Tm H1 H2) as C. cbv zeta in C.
  split; [reflexivity|]. split; [reflexivity|]. exact C.
Qed.
Print Assumptions deflagration_hybrid_classification_entropy.

Theorem returned_deflagration_is_the_junction_solution : forall e vw vp Tp Tm Tp0 Tm0,
  0 <= vw -> 0 <= csqLowT e Tm ->
  matching_fixed e vw vp Tp Tm Tp0 Tm0 = (0, 0) ->
  let vm := snd (fst (fst (deflag_ret_fixed e vw vp Tp Tm))) in
  vm ^ 2 = fst (vpvmAndvpovm e Tp Tm) / snd (vpvmAndvpovm e Tp Tm) /\
  vp ^ 2 = fst (vpvmAndvpovm e Tp Tm) * snd (vpvmAndvpovm e Tp Tm).
Proof. intros. eapply deflag_ret_is_junction; eassumption. Qed.
Print Assumptions returned_deflagration_is_the_junction_solution.

Theorem returned_entropy_deflagration_is_the_junction_solution : forall e vw Tp Tm Tp0 Tm0,
  0 <= vw -> 0 <= csqLowT e Tm ->
  matching_entropy e vw Tp Tm Tp0 Tm0 = (0, 0) -> 0 < Tm ->
  0 <= Tm ^ 2 - Tp ^ 2 * (1 - Rmin (vw ^ 2) (csqLowT e Tm)) ->
  let r := deflag_ret_entropy e vw Tp Tm in
  snd (fst (fst r)) ^ 2 = fst (vpvmAndvpovm e Tp Tm) / snd (vpvmAndvpovm e Tp Tm) /\
  fst (fst (fst r)) ^ 2 = fst (vpvmAndvpovm e Tp Tm) * snd (vpvmAndvpovm e Tp Tm).
Proof. intros. eapply deflag_ret_entropy_is_junction; eassumption. Qed.
Print Assumptions returned_entropy_deflagration_is_the_junction_solution.

Theorem deton_vp : forall e vw Tm,
  fst (fst (fst (deton_ret e vw Tm))) = vw /\ snd (fst (deton_ret e vw Tm)) = Tnucl e /\
  snd (deton_ret e vw Tm) = Tm /\
  (vw <> 1 -> snd (fst (fst (deton_ret e vw Tm))) =
              sqrt (fst (vpvmAndvpovm e (Tnucl e) Tm) / snd (vpvmAndvpovm e (Tnucl e) Tm))).
Proof.
  intros. rewrite deton_ret_shape. cbn [fst snd]. repeat split.
  intro H. destruct (Req_EM_T vw 1); [contradiction|reflexivity].
Qed.
Print Assumptions deton_vp.

Theorem deton_root_solves_junction : forall e vw Tm,
  eHighT e (Tnucl e) = wHighT e (Tnucl e) - pHighT e (Tnucl e) ->
  (forall t, eLowT e t = wLowT e t - pLowT e t) ->
  eHighT e (Tnucl e) - eLowT e Tm <> 0 -> eHighT e (Tnucl e) + pLowT e Tm <> 0 ->
  deton_residual e vw Tm = 0 ->
  fst (vpvmAndvpovm e (Tnucl e) Tm) * snd (vpvmAndvpovm e (Tnucl e) Tm) = vw ^ 2.
Proof. intros. eapply deton_root_is_junction; eassumption. Qed.
Print Assumptions deton_root_solves_junction.

Theorem first_root_detonation_is_weak : forall e vw Tm,
  eHighT e (Tnucl e) = wHighT e (Tnucl e) - pHighT e (Tnucl e) ->
  (forall t, eLowT e t = wLowT e t - pLowT e t) ->
  derivable_pt_lim (pLowT e) Tm (dpLowT e Tm) -> derivable_pt_lim (eLowT e) Tm (deLowT e Tm) ->
  csqLowT e Tm = dpLowT e Tm / deLowT e Tm ->
  Tnucl e < Tm -> (forall t, Tnucl e <= t < Tm -> 0 <= deton_residual e vw t) ->
  deton_residual e vw Tm = 0 ->
  0 < deLowT e Tm -> 0 < eHighT e (Tnucl e) + pHighT e (Tnucl e) ->
  0 < pHighT e (Tnucl e) + eLowT e Tm ->
  eHighT e (Tnucl e) - eLowT e Tm <> 0 -> eHighT e (Tnucl e) + pLowT e Tm <> 0 ->
  csqLowT e Tm <= fst (vpvmAndvpovm e (Tnucl e) Tm) / snd (vpvmAndvpovm e (Tnucl e) Tm).
Proof. intros. eapply deton_weak_branch; eassumption. Qed.
Print Assumptions first_root_detonation_is_weak.

Theorem vpDerivNum_is_derivative_of_vpsq : forall e tm,
  derivable_pt_lim (pLowT e) tm (dpLowT e tm) -> derivable_pt_lim (eLowT e) tm (deLowT e tm) ->
  eHighT e (Tnucl e) - eLowT e tm <> 0 -> eHighT e (Tnucl e) + pLowT e tm <> 0 ->
  (forall t, vJ_of_tm e t = sqrt (vpsq e t)) /\
  derivable_pt_lim (vpsq e) tm
    (vpDerivNum e tm / ((eHighT e (Tnucl e) - eLowT e tm) * (eHighT e (Tnucl e) + pLowT e tm)) ^ 2).
Proof.
  intros. split; [intro; apply vJ_of_tm_is_sqrt_vpsq|apply vpDerivNum_is_derivative; assumption].
Qed.
Print Assumptions vpDerivNum_is_derivative_of_vpsq.

Theorem CJ_factorisation : forall e tm,
  csqLowT e tm = dpLowT e tm / deLowT e tm ->
  deLowT e tm <> 0 -> pHighT e (Tnucl e) + eLowT e tm <> 0 ->
  eHighT e (Tnucl e) - eLowT e tm <> 0 -> eHighT e (Tnucl e) + pLowT e tm <> 0 ->
  vpDerivNum e tm =
  (eHighT e (Tnucl e) + pHighT e (Tnucl e)) * deLowT e tm * (pHighT e (Tnucl e) + eLowT e tm)
  * (eHighT e (Tnucl e) - eLowT e tm)
  * (fst (vpvmAndvpovm e (Tnucl e) tm) / snd (vpvmAndvpovm e (Tnucl e) tm) - csqLowT e tm).
Proof. intros. apply CJ_condition; assumption. Qed.
Print Assumptions CJ_factorisation.

Theorem jouguet_point_is_sonic : forall e tm,
  csqLowT e tm = dpLowT e tm / deLowT e tm ->
  deLowT e tm <> 0 -> eHighT e (Tnucl e) + pHighT e (Tnucl e) <> 0 ->
  pHighT e (Tnucl e) + eLowT e tm <> 0 ->
  eHighT e (Tnucl e) - eLowT e tm <> 0 -> eHighT e (Tnucl e) + pLowT e tm <> 0 ->
  (vpDerivNum e tm = 0 <->
   fst (vpvmAndvpovm e (Tnucl e) tm) / snd (vpvmAndvpovm e (Tnucl e) tm) = csqLowT e tm).
Proof. intros. apply jouguet_iff_sonic; assumption. Qed.
Print Assumptions jouguet_point_is_sonic.

Theorem detonation_at_vJ_is_Chapman_Jouguet : forall e tm,
  eHighT e (Tnucl e) = wHighT e (Tnucl e) - pHighT e (Tnucl e) ->
  (forall t, eLowT e t = wLowT e t - pLowT e t) ->
  csqLowT e tm = dpLowT e tm / deLowT e tm ->
  deLowT e tm <> 0 -> eHighT e (Tnucl e) + pHighT e (Tnucl e) <> 0 ->
  pHighT e (Tnucl e) + eLowT e tm <> 0 ->
  eHighT e (Tnucl e) - eLowT e tm <> 0 -> eHighT e (Tnucl e) + pLowT e tm <> 0 ->
  0 <= vpsq e tm -> vJ_of_tm e tm <> 1 ->
  vpDerivNum e tm = 0 ->
  deton_residual e (vJ_of_tm e tm) tm = 0 /\
  deton_ret e (vJ_of_tm e tm) tm = (vJ_of_tm e tm, sqrt (csqLowT e tm), Tnucl e, tm).
Proof. intros. apply jouguet_detonation_is_sonic; assumption. Qed.
Print Assumptions detonation_at_vJ_is_Chapman_Jouguet.

(** on the generated Thermodynamics class the identity hypotheses are theorems *)
Theorem jouguet_point_is_sonic_on_Thermodynamics : forall te s Tn vJ0 THmax THmin tm,
  let e := env_of te s Tn vJ0 THmax THmin in
  Thermo.TMinLowT s <= tm <= Thermo.TMaxLowT s ->
  deLowT e tm <> 0 -> eHighT e Tn + pHighT e Tn <> 0 -> pHighT e Tn + eLowT e tm <> 0 ->
  eHighT e Tn - eLowT e tm <> 0 -> eHighT e Tn + pLowT e tm <> 0 ->
  (vpDerivNum e tm = 0 <->
   fst (vpvmAndvpovm e Tn tm) / snd (vpvmAndvpovm e Tn tm) = csqLowT e tm).
Proof. intros. apply jouguet_iff_sonic_thermo; assumption. Qed.
Print Assumptions jouguet_point_is_sonic_on_Thermodynamics.

Theorem detonation_at_vJ_is_Chapman_Jouguet_on_Thermodynamics : forall te s Tn vJ0 THmax THmin tm,
  let e := env_of te s Tn vJ0 THmax THmin in
  Thermo.TMinLowT s <= tm <= Thermo.TMaxLowT s ->
  deLowT e tm <> 0 -> eHighT e Tn + pHighT e Tn <> 0 -> pHighT e Tn + eLowT e tm <> 0 ->
  eHighT e Tn - eLowT e tm <> 0 -> eHighT e Tn + pLowT e tm <> 0 ->
  0 <= vpsq e tm -> vJ_of_tm e tm <> 1 -> vpDerivNum e tm = 0 ->
  deton_residual e (vJ_of_tm e tm) tm = 0 /\
  deton_ret e (vJ_of_tm e tm) tm = (vJ_of_tm e tm, sqrt (csqLowT e tm), Tn, tm).
Proof. intros. apply jouguet_detonation_is_sonic_thermo; assumption. Qed.
Print Assumptions detonation_at_vJ_is_Chapman_Jouguet_on_Thermodynamics.

Theorem first_root_detonation_is_weak_on_Thermodynamics : forall te s Tn vJ0 THmax THmin vw Tm,
  let e := env_of te s Tn vJ0 THmax THmin in
  Thermo.TMinLowT s <= Tm <= Thermo.TMaxLowT s ->
  derivable_pt_lim (pLowT e) Tm (dpLowT e Tm) -> derivable_pt_lim (eLowT e) Tm (deLowT e Tm) ->
  Tn < Tm -> (forall t, Tn <= t < Tm -> 0 <= deton_residual e vw t) ->
  deton_residual e vw Tm = 0 ->
  0 < deLowT e Tm -> 0 < eHighT e Tn + pHighT e Tn -> 0 < pHighT e Tn + eLowT e Tm ->
  eHighT e Tn - eLowT e Tm <> 0 -> eHighT e Tn + pLowT e Tm <> 0 ->
  csqLowT e Tm <= fst (vpvmAndvpovm e Tn Tm) / snd (vpvmAndvpovm e Tn Tm).
Proof. intros. eapply deton_weak_branch_thermo with (vw := vw); eassumption. Qed.
Print Assumptions first_root_detonation_is_weak_on_Thermodynamics.

Theorem template_vJ_in_range : forall e,
  t_init_cb e -> 0 < t_cb2 e < 1 -> 0 <= t_alN e ->
  t_cb e <= t_findJouguetVelocity e (t_alN e) < 1.
Proof. intros. apply template_vJ_range; assumption. Qed.
Print Assumptions template_vJ_in_range.

Theorem template_detonation_branch : forall e vw,
  t_init_cb e -> 0 < t_cb2 e < 1 -> 0 <= t_alN e ->
  t_findJouguetVelocity e (t_alN e) <= vw -> vw < 1 ->
  let r := t_detonationVAndT e vw in
  let vp := fst (fst (fst r)) in let vm := snd (fst (fst r)) in
  vp = vw /\ snd (fst r) = t_Tnucl e /\ t_cb e <= vm /\ (0 < t_alN e -> vm < vp) /\
  (0 < t_alN e -> t_alpha_plus e vp vm = t_alN e).
Proof. intros. apply template_deton_branch; assumption. Qed.
Print Assumptions template_detonation_branch.

Theorem template_vJ_is_Chapman_Jouguet : forall e,
  t_init_cb e -> 0 < t_cb2 e < 1 -> 0 <= t_alN e ->
  snd (fst (fst (t_detonationVAndT e (t_findJouguetVelocity e (t_alN e))))) = t_cb e.
Proof. intros. apply template_vJ_is_CJ; assumption. Qed.
Print Assumptions template_vJ_is_Chapman_Jouguet.

Theorem getVp_solves_alpha : forall e vm al br,
  0 < t_cb2 e < 1 -> br ^ 2 = 1 -> 0 < vm -> 0 <= al ->
  0 <= vm ^ 4 - 2 * t_cb2 e * vm ^ 2 * (1 - 6 * al)
       + t_cb2 e ^ 2 * (1 - 12 * vm ^ 2 * al * (1 - 3 * al)) ->
  1 - t_getVp e vm al br ^ 2 <> 0 ->
  t_alpha_plus e (t_getVp e vm al br) vm = al.
Proof. intros. apply template_getVp_solves_alpha; assumption. Qed.
Print Assumptions getVp_solves_alpha.

(** vJ is the minimum of v+(T-), the bracket search, temperature window, unit interval *)
Theorem vJ_is_minimum_of_vp : forall e a b tm,
  a <= tm <= b ->
  (forall c, a <= c <= b -> derivable_pt_lim (pLowT e) c (dpLowT e c) /\
                            derivable_pt_lim (eLowT e) c (deLowT e c) /\
                            eHighT e (Tnucl e) - eLowT e c <> 0 /\ eHighT e (Tnucl e) + pLowT e c <> 0) ->
  (forall c, a <= c < tm -> vpDerivNum e c <= 0) ->
  (forall c, tm < c <= b -> 0 <= vpDerivNum e c) ->
  forall t, a <= t <= b -> vpsq e tm <= vpsq e t /\ vJ_of_tm e tm <= vJ_of_tm e t.
Proof. intros. eapply vJ_minimum; eassumption. Qed.
Print Assumptions vJ_is_minimum_of_vp.

Theorem jouguet_brackets_are_adjacent : forall e a b,
  0 < Tnucl e -> fst (jouguet_init e) = Tnucl e /\
  fst (jouguet_loop_step e a b) = b /\
  (b < TMaxHydro e -> b < snd (jouguet_loop_step e a b) <= TMaxHydro e) /\
  (forall b1 b2, jouguet_loop_test e b1 b2 a b = true -> 0 < b1 * b2 /\ b < TMaxHydro e).
Proof.
  intros e a b H. split; [reflexivity|]. split; [apply step_fst|]. split; [apply step_snd; exact H|].
  intros b1 b2 T. eapply loop_test_true. exact T.
Qed.
Print Assumptions jouguet_brackets_are_adjacent.

(** the first bracket [Tn, min(max(2Tn, TMaxLowT), TMaxHydro)] is a proper interval inside the
    hydro window, and the secant fallback is started on the two ends of the bracket reached *)
Theorem jouguet_first_bracket_and_secant_start : forall e a b,
  0 < Tnucl e -> Tnucl e < TMaxHydro e ->
  Tnucl e < snd (jouguet_init e) <= TMaxHydro e /\
  (2 * Tnucl e <= TMaxHydro e -> 2 * Tnucl e <= snd (jouguet_init e)) /\
  jouguet_secant_start e a b = (Tnucl e, b) /\ jouguet_brentq_bracket e a b = (Tnucl e, b).
Proof.
  intros e a b H0 H1. unfold jouguet_init. cbn [fst snd].
  pose proof (Rmax_l (2 * Tnucl e) (HydroAdmGen.TMaxLowT e)) as M.
  repeat split.
  - apply Rmin_glb_lt; lra.
  - apply Rmin_r.
  - intro H2. apply Rmin_glb; lra.
Qed.
Print Assumptions jouguet_first_bracket_and_secant_start.

Theorem jouguet_brentq_bracket_has_sign_change : forall e (f : R -> R) n,
  let q := jsearch e f n (jouguet_init e) in
  jouguet_use_brentq e (f (fst q)) (f (snd q)) (fst q) (snd q) = true ->
  jouguet_brentq_bracket e (fst q) (snd q) = (Tnucl e, snd q) /\
  f (Tnucl e) * f (snd q) <= 0 /\ f (fst q) * f (snd q) <= 0.
Proof. intros e f n. apply brentq_bracket_sign_change. Qed.
Print Assumptions jouguet_brentq_bracket_has_sign_change.

Theorem mapped_temperatures_in_hydro_window : forall e x, TMinHydro e < TMaxHydro e ->
  let r := inverseMappingT e x in
  TMinHydro e < fst r < TMaxHydro e /\ TMinHydro e < snd r < TMaxHydro e.
Proof. intros. apply inverse_mapping_range. assumption. Qed.
Print Assumptions mapped_temperatures_in_hydro_window.

Theorem deflagration_speeds_in_unit_interval : forall e vw vp Tp Tm,
  0 < vw < 1 -> 0 < csqLowT e Tm ->
  (0 < snd (fst (fst (deflag_ret_fixed e vw vp Tp Tm))) < 1) /\
  (0 < Tm -> Tp <> 0 -> 0 <= Tm ^ 2 - Tp ^ 2 * (1 - Rmin (vw ^ 2) (csqLowT e Tm)) ->
   0 < snd (fst (fst (deflag_ret_entropy e vw Tp Tm))) < 1 /\
   0 <= fst (fst (fst (deflag_ret_entropy e vw Tp Tm))) < 1).
Proof.
  intros e vw vp Tp Tm H1 H2. split; [apply deflag_speeds; assumption|].
  intros. apply deflag_speeds_entropy; assumption.
Qed.
Print Assumptions deflagration_speeds_in_unit_interval.

Theorem deflagration_vp_le_vm : forall e vw vp Tp Tm,
  0 <= vw -> vw ^ 2 <= csqLowT e Tm ->
  findMatching_vpmax e vw <= vw /\
  (vp <= vw -> vp <= snd (fst (fst (deflag_ret_fixed e vw vp Tp Tm)))).
Proof. intros. split; [apply vpmax_le_vw|intro; apply deflag_vp_le_vm; assumption]. Qed.
Print Assumptions deflagration_vp_le_vm.

(** which family findMatching computes, and the template's v- rule *)
Theorem findMatching_dispatch : forall e vw,
  (is_detonation e vw = true <-> HydroAdmGen.vJ e < vw) /\
  (is_detonation e vw = false <-> vw <= HydroAdmGen.vJ e).
Proof.
  intros e vw. unfold is_detonation. destruct (Rlt_dec (HydroAdmGen.vJ e) vw); split; split; intros;
    try reflexivity; try discriminate; try assumption; lra.
Qed.
Print Assumptions findMatching_dispatch.

Theorem template_dispatch_and_vm_rule : forall e vw,
  (t_is_detonation e vw = true <-> t_vJ e < vw) /\
  (vw <= t_cb e -> t_vm_of_vw e vw = vw) /\ (t_cb e <= vw -> t_vm_of_vw e vw = t_cb e).
Proof.
  intros e vw. unfold t_is_detonation, t_vm_of_vw. repeat split.
  - destruct (Rlt_dec (t_vJ e) vw); [auto|discriminate].
  - destruct (Rlt_dec (t_vJ e) vw); [auto|contradiction].
  - intro H. apply Rmin_right, H.
  - intro H. apply Rmin_left, H.
Qed.
Print Assumptions template_dispatch_and_vm_rule.

(** ** decision model (WG.Model.RangeLimit), real instance *)
Theorem fastest_le_vJ : forall c Tp Tm brentq tol,
  0 < vBracketLow c ->
  brent_spec brentq tol (fun v => Tm v - TMaxLowT c) (vMin c + vBracketLow c) (vJ c - vBracketLow c) ->
  forall flags, fst (fastestDeflag opsR c Tp Tm brentq flags) <= vJ c.
Proof. intros. eapply RangeLimit.fastest_le_vJ; eassumption. Qed.
Print Assumptions fastest_le_vJ.

Theorem fastest_is_range_hit : forall c Tp Tm brentq tol,
  brent_spec brentq tol (fun v => Tm v - TMaxLowT c) (vMin c + vBracketLow c) (vJ c - vBracketLow c) ->
  brent_spec brentq tol (fun v => Tp v - TMaxHighT c) (vMin c + vBracketLow c) (vJ c - vBracketLow c) ->
  forall flags, let v := fst (fastestDeflag opsR c Tp Tm brentq flags) in
  v < vJ c ->
  vMin c + vBracketLow c <= v <= vJ c - vBracketLow c /\
  exists r0, vMin c + vBracketLow c <= r0 <= vJ c - vBracketLow c /\ Rabs (v - r0) <= tol /\
             (Tm r0 = TMaxLowT c \/ Tp r0 = TMaxHighT c).
Proof. intros. eapply RangeLimit.fastest_is_range_hit; eassumption. Qed.
Print Assumptions fastest_is_range_hit.

Theorem fastest_slower_walls_in_range : forall c Tp Tm brentq tol,
  brent_spec brentq tol (fun v => Tm v - TMaxLowT c) (vMin c + vBracketLow c) (vJ c - vBracketLow c) ->
  brent_spec brentq tol (fun v => Tp v - TMaxHighT c) (vMin c + vBracketLow c) (vJ c - vBracketLow c) ->
  incr_on Tm (vMin c + vBracketLow c) (vJ c - vBracketLow c) ->
  incr_on Tp (vMin c + vBracketLow c) (vJ c - vBracketLow c) ->
  Tm (vMin c + vBracketLow c) <= TMaxLowT c -> Tp (vMin c + vBracketLow c) <= TMaxHighT c ->
  forall flags vw, vMin c + vBracketLow c <= vw <= vJ c - vBracketLow c ->
  vw <= fst (fastestDeflag opsR c Tp Tm brentq flags) - tol ->
  Tm vw <= TMaxLowT c /\ Tp vw <= TMaxHighT c.
Proof. intros. eapply RangeLimit.fastest_slower_walls_in_range; eassumption. Qed.
Print Assumptions fastest_slower_walls_in_range.

Theorem fastest_is_maximal : forall c Tp Tm brentq tol,
  brent_spec brentq tol (fun v => Tm v - TMaxLowT c) (vMin c + vBracketLow c) (vJ c - vBracketLow c) ->
  brent_spec brentq tol (fun v => Tp v - TMaxHighT c) (vMin c + vBracketLow c) (vJ c - vBracketLow c) ->
  sincr_on Tm (vMin c + vBracketLow c) (vJ c - vBracketLow c) ->
  sincr_on Tp (vMin c + vBracketLow c) (vJ c - vBracketLow c) ->
  forall flags, fst (fastestDeflag opsR c Tp Tm brentq flags) < vJ c ->
  forall vw, fst (fastestDeflag opsR c Tp Tm brentq flags) + tol < vw -> vw <= vJ c - vBracketLow c ->
  TMaxLowT c < Tm vw \/ TMaxHighT c < Tp vw.
Proof. intros. eapply RangeLimit.fastest_is_maximal; eassumption. Qed.
Print Assumptions fastest_is_maximal.

Theorem fastest_flags_sound : forall c Tp Tm brentq tol,
  brent_spec brentq tol (fun v => Tm v - TMaxLowT c) (vMin c + vBracketLow c) (vJ c - vBracketLow c) ->
  brent_spec brentq tol (fun v => Tp v - TMaxHighT c) (vMin c + vBracketLow c) (vJ c - vBracketLow c) ->
  let out := snd (fastestDeflag opsR c Tp Tm brentq (false, false)) in
  (snd out = true -> lowEnds c = false /\
     exists r0, vMin c + vBracketLow c <= r0 <= vJ c - vBracketLow c /\ Tm r0 = TMaxLowT c) /\
  (fst out = true -> highEnds c = false /\
     exists r0, vMin c + vBracketLow c <= r0 <= vJ c - vBracketLow c /\ Tp r0 = TMaxHighT c).
Proof. intros. eapply RangeLimit.fastest_flags_sound; eassumption. Qed.
Print Assumptions fastest_flags_sound.

Theorem fastest_blind_when_window_starts_out_of_range : forall c Tp Tm brentq tol,
  brent_spec brentq tol (fun v => Tm v - TMaxLowT c) (vMin c + vBracketLow c) (vJ c - vBracketLow c) ->
  brent_spec brentq tol (fun v => Tp v - TMaxHighT c) (vMin c + vBracketLow c) (vJ c - vBracketLow c) ->
  vMin c + vBracketLow c <= vJ c - vBracketLow c ->
  incr_on Tm (vMin c + vBracketLow c) (vJ c - vBracketLow c) ->
  incr_on Tp (vMin c + vBracketLow c) (vJ c - vBracketLow c) ->
  Tm (vJ c - vBracketLow c) < TMaxLowT c -> TMaxHighT c < Tp (vMin c + vBracketLow c) ->
  forall flags,
  fastestDeflag opsR c Tp Tm brentq flags = (vJ c, (false, false)) /\
  forall vw, vMin c + vBracketLow c <= vw <= vJ c - vBracketLow c -> TMaxHighT c < Tp vw.
Proof. intros. eapply RangeLimit.fastest_blind_when_window_starts_out_of_range; eassumption. Qed.
Print Assumptions fastest_blind_when_window_starts_out_of_range.

Theorem fastest_value_independent_of_flags : forall c Tp Tm brentq f1 f2,
  fst (fastestDeflag opsR c Tp Tm brentq f1) = fst (fastestDeflag opsR c Tp Tm brentq f2).
Proof. intros. apply RangeLimit.fastest_value_independent_of_flags. Qed.
Print Assumptions fastest_value_independent_of_flags.

Theorem slowest_bounds : forall c Tm brentq tol,
  vJ c + / 10000 <= 1 ->
  brent_spec brentq tol (fun v => Tm v - TMaxLowT c) (vJ c + / 10000) 1 ->
  vJ c <= slowestDeton opsR c Tm brentq <= 1.
Proof. intros. eapply RangeLimit.slowest_bounds; eassumption. Qed.
Print Assumptions slowest_bounds.

Theorem slowest_faster_walls_in_range : forall c Tm brentq tol,
  vJ c + / 10000 <= 1 -> tol <= / 100 ->
  brent_spec brentq tol (fun v => Tm v - TMaxLowT c) (vJ c + / 10000) 1 ->
  decr_on Tm (vJ c + / 10000) 1 -> Tm 1 <= TMaxLowT c ->
  forall vw, vJ c + / 10000 <= vw <= 1 -> slowestDeton opsR c Tm brentq <= vw ->
  Tm vw <= TMaxLowT c.
Proof. intros. eapply RangeLimit.slowest_faster_walls_in_range; eassumption. Qed.
Print Assumptions slowest_faster_walls_in_range.

Theorem slowest_one_means_none_admissible : forall c Tm brentq,
  decr_on Tm (vJ c + / 10000) 1 -> TMaxLowT c < Tm 1 ->
  slowestDeton opsR c Tm brentq = 1 /\
  forall vw, vJ c + / 10000 <= vw <= 1 -> TMaxLowT c < Tm vw.
Proof. intros. eapply RangeLimit.slowest_one_means_none_admissible; eassumption. Qed.
Print Assumptions slowest_one_means_none_admissible.

Theorem slowest_is_range_hit : forall c Tm brentq tol,
  vJ c + / 10000 <= 1 ->
  brent_spec brentq tol (fun v => Tm v - TMaxLowT c) (vJ c + / 10000) 1 ->
  vJ c < slowestDeton opsR c Tm brentq -> slowestDeton opsR c Tm brentq < 1 ->
  exists r0, vJ c + / 10000 <= r0 <= 1 /\ Tm r0 = TMaxLowT c /\
             Rabs (slowestDeton opsR c Tm brentq - / 100 - r0) <= tol.
Proof. intros. eapply RangeLimit.slowest_is_range_hit; eassumption. Qed.
Print Assumptions slowest_is_range_hit.

(** ** non-vacuity *)
(** non-vacuity of first_root_detonation_is_weak: p-(T) = T, e-(T) = 3T (cs^2 = 1/3), p+ = 0,
    e+ = 1, Tn = 1/2, vw = 7/8: the residual is (5T-7)(9T-7)/(64(1+T)), first zero T- = 7/9 *)
Example weak_branch_hypotheses_satisfiable :
  let e := {| Tnucl := 1 / 2; HydroAdmGen.vJ := 0; HydroAdmGen.TMaxLowT := 1; TMaxHydro := 5;
              TMinHydro := 1 / 200;
              pHighT := fun _ => 0; pLowT := fun t => t; eHighT := fun _ => 1;
              eLowT := fun t => 3 * t; wHighT := fun _ => 1; wLowT := fun t => 4 * t;
              dpLowT := fun _ => 1; deLowT := fun _ => 3; csqLowT := fun _ => 1 / 3;
              csqHighT := fun _ => 1 / 3 |} in
  let vw := 7 / 8 in let Tm := 7 / 9 in
  eHighT e (Tnucl e) = wHighT e (Tnucl e) - pHighT e (Tnucl e) /\
  (forall t, eLowT e t = wLowT e t - pLowT e t) /\
  derivable_pt_lim (pLowT e) Tm (dpLowT e Tm) /\ derivable_pt_lim (eLowT e) Tm (deLowT e Tm) /\
  csqLowT e Tm = dpLowT e Tm / deLowT e Tm /\
  Tnucl e < Tm /\ (forall t, Tnucl e <= t < Tm -> 0 <= deton_residual e vw t) /\
  deton_residual e vw Tm = 0 /\
  0 < deLowT e Tm /\ 0 < eHighT e (Tnucl e) + pHighT e (Tnucl e) /\
  0 < pHighT e (Tnucl e) + eLowT e Tm /\
  eHighT e (Tnucl e) - eLowT e Tm <> 0 /\ eHighT e (Tnucl e) + pLowT e Tm <> 0.
Proof.
  cbv zeta. unfold deton_residual. cbn.
  repeat split; try lra.
  - intro t. ring.
  - apply derivable_pt_lim_id.
  - intros eps He. exists (mkposreal 1 Rlt_0_1). intros h Hh _.
    replace ((3 * (7 / 9 + h) - 3 * (7 / 9)) / h - 3) with 0 by (field; exact Hh).
    rewrite Rabs_R0. exact He.
  - intros t [H1 H2].
    replace (7 / 8 * (7 / 8 * 1) * (1 - 0 - (4 * t - t)) - (0 - t) * (4 * t - t + 0) / (1 - 0 + t))
      with ((5 * t - 7) * (9 * t - 7) / (64 * (1 + t))) by (field; lra).
    apply Rmult_le_pos; [|apply Rlt_le, Rinv_0_lt_compat; lra]. nra.
Qed.

(** template hypotheses: cb2 = 1/4, cb = 1/2, alpha = 1/10 *)
Example template_hypotheses_satisfiable :
  let e := mk_t_env (1 / 4) (1 / 3) (1 / 10) 1 (1 / 2) (sqrt (1 / 3)) 1 1 1 5 4 (3 / 4) (fun _ _ _ => 1) in
  t_init_cb e /\ 0 < t_cb2 e < 1 /\ 0 <= t_alN e.
Proof.
  cbn. unfold t_init_cb. cbn. repeat split; try lra.
  replace (1 / 4) with ((1 / 2) * (1 / 2)) by field. symmetry. apply sqrt_square. lra.
Qed.

(** the brentq hypotheses hold for an exact root finder on the curves T-(v) = T+(v) = v *)
Example brent_spec_satisfiable :
  let brentq := fun (f : R -> R) (a b : R) =>
    if Rlt_dec 0 (f a * f b) then None else Some (a - f a * (b - a) / (f b - f a)) in
  brent_spec brentq 0 (fun v => v - 1 / 2) (1 / 4) (3 / 4) /\
  brent_spec brentq 0 (fun v => v - 2) (1 / 4) (3 / 4).
Proof.
  cbv zeta. unfold brent_spec. split; split.
  - destruct (Rlt_dec 0 ((1 / 4 - 1 / 2) * (3 / 4 - 1 / 2))) as [H|H]; [lra|discriminate].
  - intros r. destruct (Rlt_dec 0 ((1 / 4 - 1 / 2) * (3 / 4 - 1 / 2))) as [H|H]; [discriminate|].
    intro E. injection E as E.
    assert (R12 : r = 1 / 2) by (rewrite <- E; field).
    subst r. split; [lra|]. exists (1 / 2). repeat split; try lra.
    match goal with |- Rabs ?x <= _ => replace x with 0 by lra end. rewrite Rabs_R0. lra.
  - intros _. lra.
  - intros r. destruct (Rlt_dec 0 ((1 / 4 - 2) * (3 / 4 - 2))) as [H|H]; [discriminate|lra].
Qed.
