(** C01 -- the reported wall velocity is a bracketed zero of the total pressure; runaway;
    error labelling; history independence.

    Model: WG.Model.SolveWall (hand-written model of the decision logic of EOM.solveWall and
    findWallVelocityDeflagrationHybrid over two oracles: one wallPressure evaluation, the
    brentq root finder).  It is tied to the current source on every run by
      - GenC01.EomFacts: literals, scalar expressions, def-use table of results.set* and
        provenance of the solver objects, all extracted from the AST of
        equationOfMotion.py / manager.py (tools/gen_eom_facts.py);
      - the correspondence harness (tools/props/C01.py): the REAL EOM.solveWall driven by
        synthetic pressure curves vs. the model evaluated by vm_compute.
    External numerics (hypotheses, never axioms): [rootfind_contract] = scipy brentq's
    termination test, re-validated on the recorded evaluation trace of every real run; the
    pressure oracle [P] is an arbitrary function. *)
From Coq Require Import QArith Qabs Qminmax Qround Lqa List Bool ZArith Lia String.
From WG Require Import Model.SolveWall.
From GenC01 Require Import EomFacts.
Import ListNotations.
Local Open Scope Q_scope.

(** ** 0. the generated expressions are what the model assumes *)

(** the tolerance handed to the root finder IS the configured errTol, and the reported
    minimum error is errTol * root *)
Lemma xtol_is_errTol : forall e, gen_xtol e == e.
Proof. intro e. unfold gen_xtol. lra. Qed.

Lemma velErr_is_errTol_times_root : forall e r, gen_velErr e r == e * r.
Proof. intros e r. unfold gen_velErr. ring. Qed.

Theorem tolerance_configured :
  (forall e, gen_xtol e == e) /\ (forall e r, gen_velErr e r == e * r) /\
  gen_velErr_offEq_bounded_below = true /\
  gen_rootfinder_method = "brentq"%string /\
  gen_rootfinder_bracket = [0%nat; 1%nat] /\
  gen_rootfinder_extra_keywords = [] /\
  gen_wrapper_calls_wallPressure_once_at_its_argument = true.
Proof.
  split; [exact xtol_is_errTol|]. split; [exact velErr_is_errTol_times_root|].
  repeat split; vm_compute; reflexivity.
Qed.
Print Assumptions tolerance_configured.

Theorem pressure_tolerance :
  0 < gen_atol0 /\ gen_atol0_before_first_eval = true /\
  gen_atol2_between_loop_and_rootfinder = true /\
  (forall e r a b, gen_atol2 e r a b == atolFactor * e * (1 - r) * Qmin (Qabs a) (Qabs b)) /\
  (forall b cMin cMax, atol2 (cfg b) cMin cMax ==
       gen_atol2 (c_errTol b) (c_pressRelErrTol b) (pressureOf cMin) (pressureOf cMax)).
Proof.
  split; [vm_compute; reflexivity|]. split; [reflexivity|]. split; [reflexivity|].
  assert (H : forall e r a b,
             gen_atol2 e r a b == atolFactor * e * (1 - r) * Qmin (Qabs a) (Qabs b)).
  { intros. unfold gen_atol2, atolFactor. field. }
  split; [exact H|]. intros. rewrite H. unfold atol2, cfg; cbn. reflexivity.
Qed.
Print Assumptions pressure_tolerance.

(** the two guards of pressureWrapper are the model's *)
Theorem wrapper_guards :
  (forall b x vmin vmax, gen_guardMin x vmin vmax = true <-> nearOrBelow (cfg b) x vmin = true) /\
  (forall b x vmin vmax, gen_guardMax x vmin vmax = true <-> nearOrAbove (cfg b) x vmax = true) /\
  gen_wrapper_cached = [(AtMin, 0%nat); (AtMax, 0%nat)] /\
  nth_error gen_wallPressure_returns 0 = Some "pressure"%string.
Proof.
  repeat split; try reflexivity;
    unfold gen_guardMin, gen_guardMax, nearOrBelow, nearOrAbove, cfg, endTol; cbn [c_endTol];
    rewrite ?orb_true_iff, ?Qltb_true; tauto.
Qed.
Print Assumptions wrapper_guards.

Lemma endTol_pos b : 0 < c_endTol (cfg b).
Proof. reflexivity. Qed.

(** ** 1. success => bracketed sign change within the configured tolerance *)
Theorem success_brackets :
  forall P rootfind b s0 vmin vmax g0 optMin optMax fuel o v,
  let c := cfg b in
  rootfind_contract rootfind -> vmin < vmax ->
  solveWall P rootfind c s0 vmin vmax g0 optMin optMax fuel = RDone o ->
  r_success (o_res o) = true -> r_velocity (o_res o) = Some v ->
  exists s tr cMin cMax,
    bracket_phase P c s0 vmin vmax g0 optMin optMax fuel
      = BOk s tr cMin cMax (o_doublings o) (o_vmin o) /\
    pressureOf cMin <= 0 /\ 0 <= pressureOf cMax /\ o_vmin o < vmax /\
    o_vmin o <= v /\ v <= vmax /\
    let W := wrapper P c (atol2 c cMin cMax) cMin cMax (o_vmin o) vmax in
    exists lo hi, o_vmin o <= lo /\ lo <= v /\ v <= hi /\ hi <= vmax /\
                  W lo <= 0 /\ 0 <= W hi /\
                  hi - lo < c_errTol b + brentq_rtol * Qabs v.
Proof.
  intros P rootfind b s0 vmin vmax g0 optMin optMax fuel o v c HRF Hlt H Hs Hv.
  destruct (SolveWall.success_brackets P rootfind c s0 vmin vmax g0 optMin optMax fuel o v
              HRF (endTol_pos b) Hlt H Hs Hv)
    as [s [tr [cMin [cMax [HB [A1 [A2 [A3 [A4 [A5 [lo [hi R]]]]]]]]]]]].
  exists s, tr, cMin, cMax. repeat (split; [assumption|]).
  exists lo, hi.
  assert (E : c_xtol c == c_errTol b) by (unfold c, cfg; cbn [c_xtol]; apply xtol_is_errTol).
  rewrite <- E. exact R.
Qed.
Print Assumptions success_brackets.

(** inside the bracket and away from its two ends the function seen by the root finder IS
    the wall pressure evaluated with this run's tolerance and interpolated first guess *)
Theorem wrapper_is_pressure :
  forall P b a cMin cMax vmin vmax x,
  vmin + endTol <= x -> x <= vmax - endTol ->
  wrapper P (cfg b) a cMin cMax vmin vmax x
  = eo_pressure (P a x (guessAt cMin cMax vmin vmax x)).
Proof.
  intros. apply wrapper_inside; cbn [c_endTol cfg]; try assumption. unfold endTol. lra.
Qed.
Print Assumptions wrapper_is_pressure.

(** ** 2. the velocity lies in the hydrodynamically allowed window *)
Theorem success_in_window :
  forall P rootfind b s0 vMinHydro fastestDeflag thickIni nFields fuel o v,
  let c := cfg b in
  rootfind_contract rootfind ->
  0 < vMinHydro -> vMinHydro < Qmin (c_vJ b) fastestDeflag ->
  findDeflag P rootfind c s0 vMinHydro fastestDeflag thickIni nFields fuel = RDone o ->
  r_success (o_res o) = true -> r_velocity (o_res o) = Some v ->
  vMinHydro <= v /\ v <= c_vJ b /\ v <= fastestDeflag /\ r_type (o_res o) = Deflagration.
Proof.
  intros P rootfind b s0 vMinHydro fastestDeflag thickIni nFields fuel o v c HRF Hpos Hlt H Hs Hv.
  exact (SolveWall.success_in_window P rootfind c s0 vMinHydro fastestDeflag thickIni nFields
           fuel o v HRF (endTol_pos b) Hpos Hlt H Hs Hv).
Qed.
Print Assumptions success_in_window.

(** for any bracket (also the detonation search): type by v > vJ, all checks passed *)
Theorem success_checks :
  forall P rootfind b s0 vmin vmax g0 optMin optMax fuel o v,
  let c := cfg b in
  solveWall P rootfind c s0 vmin vmax g0 optMin optMax fuel = RDone o ->
  r_success (o_res o) = true -> r_velocity (o_res o) = Some v ->
  let fin := so_out (r_src (o_res o)) in
  eo_tprofOk fin = true /\ eo_pressOk fin = true /\
  c_TMinLow b <= eo_Tminus fin /\ eo_Tminus fin <= c_TMaxLow b /\
  c_TMinHigh b <= eo_Tplus fin /\ eo_Tplus fin <= c_TMaxHigh b /\
  saturated c (eo_params fin) = false /\
  r_msg (o_res o) = MsgFound /\
  ((r_type (o_res o) = Detonation /\ c_vJ b < v) \/ (r_type (o_res o) = Deflagration /\ v <= c_vJ b)).
Proof.
  intros P rootfind b s0 vmin vmax g0 optMin optMax fuel o v c H Hs Hv.
  exact (SolveWall.success_checks P rootfind c s0 vmin vmax g0 optMin optMax fuel o v H Hs Hv).
Qed.
Print Assumptions success_checks.

(** ** 3. runaway *)
Theorem runaway_sound :
  forall P rootfind b s0 vmin vmax g0 optMin optMax fuel o,
  let c := cfg b in
  solveWall P rootfind c s0 vmin vmax g0 optMin optMax fuel = RDone o ->
  r_type (o_res o) = Runaway ->
  r_success (o_res o) = true /\ r_velocity (o_res o) = None /\
  so_out (r_src (o_res o)) = match optMax with Some x => x | None => P gen_atol0 vmax g0 end /\
  eo_pressure (match optMax with Some x => x | None => P gen_atol0 vmax g0 end) < 0.
Proof.
  intros P rootfind b s0 vmin vmax g0 optMin optMax fuel o c H Ht.
  exact (SolveWall.runaway_sound P rootfind c s0 vmin vmax g0 optMin optMax fuel o H Ht).
Qed.
Print Assumptions runaway_sound.

(** ** 4. error labelling *)
Theorem error_iff_not_success :
  forall P rootfind b s0 vmin vmax g0 optMin optMax fuel o,
  solveWall P rootfind (cfg b) s0 vmin vmax g0 optMin optMax fuel = RDone o ->
  (r_type (o_res o) = ErrorType <-> r_success (o_res o) = false).
Proof. intros. eapply SolveWall.error_iff_not_success; eassumption. Qed.
Print Assumptions error_iff_not_success.

Theorem velocity_none_iff :
  forall P rootfind b s0 vmin vmax g0 optMin optMax fuel o,
  solveWall P rootfind (cfg b) s0 vmin vmax g0 optMin optMax fuel = RDone o ->
  (r_velocity (o_res o) = None <->
   (r_msg (o_res o) = MsgRunaway \/ r_msg (o_res o) = MsgPositiveAtZero)).
Proof. intros. eapply SolveWall.velocity_none_iff; eassumption. Qed.
Print Assumptions velocity_none_iff.

(** "an unsuccessful run is ALWAYS labelled" fails in one corner of the faithful model: when
    the doubled lower end lands within 1e-10 of the upper end, pressureWrapper answers both
    ends of the bracket with the cached lower value, brentq raises ValueError and solveWall
    lets it escape (no WallGoResults at all).  Witness below; replayed on the implementation
    by the harness.  [raises_only_degenerate]: this is the only way. *)
Definition degenerate_seg (x0 p : Q) : seg :=
  mkSeg x0 p 0 true true true true 100 90 [1] [0].
Definition degenerate_P :=
  Pcurve gen_atol0 (degenerate_seg 0 1) [degenerate_seg (3 # 10) (-1); degenerate_seg ((1 # 2) + (1 # 1099511627776)) 2].
Definition base0 : config :=
  mkConfig (1 # 1000) (1 # 10) (7 # 10) (1 # 2) 10 200 10 200 (1 # 128) 10 (-10) 10 0 0 0 0 (fun _ => 0).

Theorem unsuccessful_always_labelled_refuted :
  exists P rootfind b s0 vmin vmax g0 fuel k v,
    vmin < vmax /\ 0 < vmin /\
    solveWall P rootfind (cfg b) s0 vmin vmax g0 None None fuel = RRaises k v.
Proof.
  exists degenerate_P, (fun _ a _ _ => mkRf a false []), base0, (mkState 0 true true),
         (1 # 4), ((1 # 2) + (1 # 1099511627776)), (mkGuess [1] [0]), 5%nat.
  eexists. eexists. split; [reflexivity|]. split; [reflexivity|].
  vm_compute. reflexivity.
Qed.
Print Assumptions unsuccessful_always_labelled_refuted.

Theorem raises_only_degenerate :
  forall P rootfind b s0 vmin vmax g0 optMin optMax fuel k v,
  vmin < vmax ->
  solveWall P rootfind (cfg b) s0 vmin vmax g0 optMin optMax fuel = RRaises k v ->
  v < vmax /\ vmax - v < endTol.
Proof.
  intros P rootfind b s0 vmin vmax g0 optMin optMax fuel k v Hlt H.
  exact (SolveWall.raises_only_degenerate P rootfind (cfg b) s0 vmin vmax g0 optMin optMax fuel
           k v (endTol_pos b) Hlt H).
Qed.
Print Assumptions raises_only_degenerate.

(** ** 5. the doubling loop terminates *)
Theorem doubling_terminates :
  forall P rootfind b s0 vmin vmax g0 optMin optMax fuel,
  0 < vmin -> vmin < vmax -> (fuel_for vmin vmax <= fuel)%nat ->
  solveWall P rootfind (cfg b) s0 vmin vmax g0 optMin optMax fuel <> ROutOfFuel.
Proof. intros. apply SolveWall.doubling_terminates; assumption. Qed.
Print Assumptions doubling_terminates.

Theorem doubled_vmin :
  forall P rootfind b s0 vmin vmax g0 optMin optMax fuel o v,
  0 < vmin -> vmin < vmax ->
  solveWall P rootfind (cfg b) s0 vmin vmax g0 optMin optMax fuel = RDone o ->
  r_velocity (o_res o) = Some v ->
  o_vmin o == vmin * pow2 (o_doublings o) /\ vmin <= o_vmin o /\ o_vmin o < vmax.
Proof. intros. eapply SolveWall.doubled_vmin; eassumption. Qed.
Print Assumptions doubled_vmin.

(** ** 6. the returned fields are those of the evaluation at the returned velocity *)
Theorem results_from_final_eval :
  forall P rootfind b s0 vmin vmax g0 optMin optMax fuel o v,
  solveWall P rootfind (cfg b) s0 vmin vmax g0 optMin optMax fuel = RDone o ->
  r_velocity (o_res o) = Some v ->
  exists earlier a g,
    o_trace o = (earlier ++ [mkEvalRec v a g (P a v g)])%list /\
    r_src (o_res o) = mkSourced (P a v g) (FromEval (List.length earlier)) /\
    o_state o = mkState a (eo_tprofOk (P a v g)) (eo_pressOk (P a v g)) /\
    (exists e, r_velErr (o_res o) = Some e /\ e == c_errTol b * v) /\
    r_vLTE (o_res o) = c_vLTE b.
Proof.
  intros P rootfind b s0 vmin vmax g0 optMin optMax fuel o v H Hv.
  destruct (SolveWall.results_from_final_eval P rootfind (cfg b) s0 vmin vmax g0 optMin optMax
              fuel o v H Hv) as [earlier [a [g [A1 [A2 [A3 [A4 A5]]]]]]].
  exists earlier, a, g. repeat (split; [assumption|]). split; [|exact A5].
  eexists. split; [exact A4|]. cbn [cfg c_velErr]. apply velErr_is_errTol_times_root.
Qed.
Print Assumptions results_from_final_eval.

(** the same on the source: def-use table of results.set* extracted from solveWall's AST
    (all paths).  Every object handed to a setter at an exit that reports a velocity comes
    from the tuple of the wallPressure call made at [optimizeResult.root], from the tuple
    position that carries that kind of object; that call is the last one on the path; the
    runaway exit reports the tuple at the upper end, the positive-pressure exit the tuple at
    the (doubled) lower end; a velocity is reported exactly at the exits behind the root
    finder, and it is the root finder's root. *)
Definition expected_name (setter : string) : string :=
  if String.eqb setter "setWallParams" then "wallParams"
  else if String.eqb setter "setHydroResults" then "hydroResults"
  else if String.eqb setter "setBoltzmannBackground" then "boltzmannBackground"
  else if String.eqb setter "setBoltzmannResults" then "boltzmannResults"
  else "?".

Definition site_eqb (a b : site) : bool :=
  match a, b with
  | AtMax, AtMax | AtMin, AtMin | AtRoot, AtRoot => true
  | _, _ => false
  end.

Definition expected_site (label : string) : site :=
  if String.eqb label "RUNAWAY@bracket" then AtMax
  else if String.eqb label "ERROR@bracket" then AtMin
  else if String.eqb label "ERROR@root" then AtRoot
  else if String.eqb label "DEFLAGRATION@root" then AtRoot
  else if String.eqb label "DETONATION@root" then AtRoot
  else Unknown.

Definition row_ok (row : string * string * list (site * nat)) : bool :=
  let '(label, setter, origins) := row in
  match origins with
  | [(s, i)] =>
      site_eqb s (expected_site label) &&
      match nth_error gen_wallPressure_returns i with
      | Some nm => String.eqb nm (expected_name setter)
      | None => false
      end
  | _ => false
  end.

Definition labels : list string :=
  ["DEFLAGRATION@root"; "DETONATION@root"; "ERROR@bracket"; "ERROR@root"; "RUNAWAY@bracket"]%string.
Definition four_setters : list string :=
  ["setBoltzmannBackground"; "setBoltzmannResults"; "setHydroResults"; "setWallParams"]%string.

Definition has_row (label setter : string) : bool :=
  existsb (fun r => let '(l, s, _) := r in String.eqb l label && String.eqb s setter) gen_setters.

Definition velocity_ok (row : string * list velKind) : bool :=
  let '(label, ks) := row in
  match ks with
  | [VRoot] => site_eqb (expected_site label) AtRoot
  | [VNone] => negb (site_eqb (expected_site label) AtRoot)
  | _ => false
  end.

Definition success_ok (row : string * list string) : bool :=
  let '(label, ss) := row in
  match ss with
  | [s] => if String.eqb label "ERROR@bracket" || String.eqb label "ERROR@root"
           then String.eqb s "False" else String.eqb s "True"
  | _ => false
  end.

Theorem results_defuse :
  forallb row_ok gen_setters = true /\
  forallb (fun l => forallb (has_row l) four_setters) labels = true /\
  map fst gen_velocity = labels /\ forallb velocity_ok gen_velocity = true /\
  forallb (fun r => snd r) gen_lte_from_hydrodynamics = true /\
  map fst gen_lte_from_hydrodynamics = labels /\
  forallb (fun r => match snd r with [AtRoot] => true | _ => false end) gen_last_eval = true /\
  map fst gen_last_eval = ["DEFLAGRATION@root"; "DETONATION@root"; "ERROR@root"]%string /\
  map fst gen_exit_success = labels /\ forallb success_ok gen_exit_success = true.
Proof. repeat split; vm_compute; reflexivity. Qed.
Print Assumptions results_defuse.

(** ** 7. history independence *)
(** (a) inside one EOM object: nothing solveWall returns depends on the values of
    pressAbsErrTol / successTemperatureProfile / successWallPressure found on entry *)
Theorem solveWall_state_independent :
  forall P rootfind b s0 s0' vmin vmax g0 optMin optMax fuel,
  run_visible (solveWall P rootfind (cfg b) s0 vmin vmax g0 optMin optMax fuel) =
  run_visible (solveWall P rootfind (cfg b) s0' vmin vmax g0 optMin optMax fuel).
Proof. intros. apply SolveWall.solveWall_state_independent. Qed.
Print Assumptions solveWall_state_independent.

(** (b) across calls on one manager: setupWallSolver returns, on EVERY path, a WallSolver
    constructed during the call from an EOM, a Grid3Scales and a BoltzmannSolver constructed
    during the call; the EOM is built on the manager's CURRENT thermodynamics and
    hydrodynamics attributes; nothing built there is stored on the manager; solveWall and
    solveWallDetonation take their EOM from that call. *)
Definition is_new (cls : string) (p : prov) : bool :=
  match p with PNew c _ => String.eqb c cls | _ => false end.
Definition is_self (attr : string) (p : prov) : bool :=
  match p with PSelf a => String.eqb a attr | _ => false end.
Fixpoint lookup (n : string) (l : list (string * prov)) : prov :=
  match l with
  | [] => POther "missing"
  | (m, q) :: r => if String.eqb m n then q else lookup n r
  end.
Definition arg (n : string) (p : prov) : prov :=
  match p with PNew _ args => lookup n args | _ => POther "missing" end.
(* self.config.<section>.<name> *)
Definition is_cfg (section name : string) (p : prov) : bool :=
  match p with
  | PField (PField (PSelf c) s) n =>
      String.eqb c "config" && String.eqb s section && String.eqb n name
  | _ => false
  end.
Definition mem (x : string) (l : list string) : bool := existsb (String.eqb x) l.

(** what a solver object may be built from: the manager's CURRENT model / thermodynamics /
    hydrodynamics / config / phase info / collision directory, the arguments of the call,
    constants, and arithmetic on those.  Anything stored elsewhere (another attribute of self,
    a subscripted container, a global, an unknown function) is refused. *)
Definition live_attrs : list string :=
  ["thermodynamics"; "hydrodynamics"; "config"; "model"; "phasesAtTn"; "collisionDirectory"]%string.
Definition pure_funs : list string := ["<op>"; "<tuple>"; "max"; "min"; "abs"; "float"; "int"]%string.

Fixpoint leaves_ok (p : prov) : bool :=
  match p with
  | PNew _ args =>
      (fix go (l : list (string * prov)) : bool :=
         match l with [] => true | (_, q) :: r => leaves_ok q && go r end) args
  | PCall f args =>
      mem f pure_funs &&
      (fix go (l : list prov) : bool :=
         match l with [] => true | q :: r => leaves_ok q && go r end) args
  | PSelf a => mem a live_attrs
  | PParam _ => true
  | PField q _ => leaves_ok q
  | PStored _ => false
  | PPhi alts =>
      (fix go (l : list prov) : bool :=
         match l with [] => true | q :: r => leaves_ok q && go r end) alts
  | POther w => String.eqb w "const"
  end.

Definition fresh_solver (p : prov) : bool :=
  is_new "WallSolver" p &&
  let eom := arg "#0" p in let grid := arg "#1" p in let bs := arg "#2" p in
  is_new "EOM" eom && is_new "Grid3Scales" grid && is_new "BoltzmannSolver" bs &&
  is_new "BoltzmannSolver" (arg "boltzmannSolver" eom) &&
  is_self "thermodynamics" (arg "thermodynamics" eom) &&
  is_self "hydrodynamics" (arg "hydrodynamics" eom) &&
  is_new "Grid3Scales" (arg "grid" eom) && is_new "Grid3Scales" (arg "#0" bs) &&
  (* the tolerances and bounds of the EOM are read from the live config in this call *)
  is_cfg "configEOM" "errTol" (arg "errTol" eom) &&
  is_cfg "configEOM" "maxIterations" (arg "maxIterations" eom) &&
  is_cfg "configEOM" "pressRelErrTol" (arg "pressRelErrTol" eom) &&
  is_cfg "configEOM" "conserveEnergyMomentum" (arg "forceEnergyConservation" eom) &&
  is_cfg "configEOM" "wallThicknessBounds" (arg "wallThicknessBounds" eom) &&
  is_cfg "configEOM" "wallOffsetBounds" (arg "wallOffsetBounds" eom) &&
  is_cfg "configGrid" "spatialGridSize" (arg "#0" grid) &&
  is_cfg "configGrid" "momentumGridSize" (arg "#1" grid) &&
  leaves_ok p.

(* the only attribute that may be set on the freshly built objects after construction *)
Definition settable_attrs : list string := ["includeOffEq"]%string.

Theorem fresh_solver_per_call :
  gen_setupWallSolver_returns <> [] /\
  forallb fresh_solver gen_setupWallSolver_returns = true /\
  gen_setupWallSolver_stores_on_self = [] /\
  forallb (fun sv => mem (fst sv) settable_attrs && leaves_ok (snd sv))
          gen_setupWallSolver_local_stores = true /\
  (* solveWall / solveWallDetonation / wallSpeedLTE store nothing at all: no attribute or item
     store (through self or any alias), no mutating container call *)
  gen_manager_entry_stores = [] /\
  gen_solveWall_uses_fresh_setup = true /\ gen_solveWallDetonation_uses_fresh_setup = true.
Proof. split; [discriminate|]. repeat split; vm_compute; reflexivity. Qed.
Print Assumptions fresh_solver_per_call.

(** (c) the settings handed to EOM(...) reach the attributes solveWall reads: in the
    straight-line EOM.__init__ each attribute is assigned from the constructor parameter of
    that role, and no other method of EOM stores to them *)
Definition wired (attr param : string) : bool :=
  existsb (fun w => String.eqb (fst w) attr && String.eqb (snd w) param) gen_eom_init_wiring.
Theorem eom_settings_wired :
  wired "errTol" "errTol" = true /\ wired "maxIterations" "maxIterations" = true /\
  wired "pressRelErrTol" "pressRelErrTol" = true /\ wired "thermo" "thermodynamics" = true /\
  wired "hydrodynamics" "hydrodynamics" = true /\ wired "grid" "grid" = true /\
  wired "boltzmannSolver" "boltzmannSolver" = true /\
  wired "forceEnergyConservation" "forceEnergyConservation" = true /\
  wired "wallThicknessBounds" "wallThicknessBounds" = true /\
  wired "wallOffsetBounds" "wallOffsetBounds" = true /\
  (* one assignment each *)
  List.length gen_eom_init_wiring = List.length (nodup string_dec (map fst gen_eom_init_wiring)) /\
  gen_eom_setting_stores_elsewhere = [].
Proof. repeat split; vm_compute; reflexivity. Qed.
Print Assumptions eom_settings_wired.

(** ** 8. solveWall has no side channel: the only attributes it stores directly are
       results.hasOutOfEquilibrium and self.pressAbsErrTol (everything else goes through the
       setters covered by [results_defuse]; any other expression statement makes the extractor
       fail), and each of its nine exits carries its own kind of message *)
Definition count_msg (k : msgKind) : nat :=
  List.length (filter (msg_eqb k) gen_message_kinds).
Theorem solveWall_no_side_channel :
  gen_solveWall_attribute_stores = ["results.hasOutOfEquilibrium"; "self.pressAbsErrTol"]%string /\
  forallb (fun k => Nat.eqb (count_msg k) 1)
          [MsgRunaway; MsgPositiveAtZero; MsgTemperatureProfile; MsgTminusRange; MsgTplusRange;
           MsgPressureNotConverged; MsgRootFinder; MsgSaturated; MsgFound] = true /\
  List.length gen_message_kinds = 9%nat.
Proof. repeat split; vm_compute; reflexivity. Qed.
Print Assumptions solveWall_no_side_channel.

(** the saturation guard of solveWall compares the returned wall parameters with the SAME
    expressions (canonical text, locals inlined) that bound the minimiser of
    _intermediatePressureResults, and the minimiser is handed those bounds: a saturated
    parameter is exactly equal to the tested value *)
Theorem saturation_guard_is_minimiser_bound :
  gen_guard_bound_exprs = gen_minimiser_bound_exprs /\
  List.length gen_guard_bound_exprs = 4%nat /\
  List.length (nodup string_dec gen_guard_bound_exprs) = 4%nat /\
  gen_minimiser_gets_these_bounds = true.
Proof. repeat split; vm_compute; reflexivity. Qed.
Print Assumptions saturation_guard_is_minimiser_bound.

(** findWallVelocityDeflagrationHybrid is the model's [findDeflag]: one return,
    solveWall(self.hydrodynamics.vMin, min(vJ, fastestDeflag()), uniform guess), default
    thickness 5/Tnucl, no store on any object, no call besides those *)
Theorem deflag_search_structure :
  gen_deflag_lower = "self.hydrodynamics.vMin"%string /\
  gen_deflag_upper_is_min_vJ_fastestDeflag = true /\ gen_deflag_guess_is_uniform = true /\
  gen_deflag_default_thickness_is_5_over_Tnucl = true /\
  gen_deflag_stores = [] /\ gen_deflag_other_calls = [].
Proof. repeat split; vm_compute; reflexivity. Qed.
Print Assumptions deflag_search_structure.

(** ** 9. the flag successWallPressure (oracle output [eo_pressOk] of the model) is lowered on
       every way out of wallPressure's iteration except the convergence test: the loop is
       `while True`, the flag is raised before it, exactly one `break` does not lower the flag
       and it sits in the branch of a `<` comparison at loop level, every other `break` lowers
       it first (one of them guarded by maxIterations), there is no return/continue in the loop
       (extractor fails otherwise), and nothing else in the class writes the flag *)
Definition unflagged (b : bool * bool * bool) : bool := negb (fst (fst b)).
Theorem wallPressure_flag_structure :
  gen_wp_loop_kind = "while_true"%string /\ gen_wp_flag_raised_before_loop = true /\
  List.length (filter unflagged gen_wp_breaks) = 1%nat /\
  forallb (fun b => snd (fst b)) (filter unflagged gen_wp_breaks) = true /\
  existsb (fun b => fst (fst b) && snd b) gen_wp_breaks = true /\
  gen_flag_writers =
    [("successTemperatureProfile", ["__init__=True"; "findPlasmaProfile=False"; "findPlasmaProfile=True"]);
     ("successWallPressure", ["__init__=True"; "wallPressure=False"; "wallPressure=True"])]%string.
Proof. repeat split; vm_compute; reflexivity. Qed.
Print Assumptions wallPressure_flag_structure.

(** ** 10. the detonation search.  [findWallVelocityDetonation] calls solveWall with both end
       tuples supplied; on the source (symbolic run of its scan loop) the tuples are the ones
       evaluated at the two ends handed over and the call is guarded by p(hi) >= 0 >= p(lo).
       For such a call the model gives: no doubling, the bracket is not moved, the reported
       velocity lies in it and is a DETONATION when the bracket lies above vJ. *)
Theorem detonation_callsites_paired :
  gen_deton_callsites <> [] /\ forallb (fun c => fst c && snd c) gen_deton_callsites = true.
Proof. split; [discriminate|vm_compute; reflexivity]. Qed.
Print Assumptions detonation_callsites_paired.

Theorem detonation_call_window :
  forall P rootfind b s0 vlo vhi g0 oMin oMax fuel o v,
  let c := cfg b in
  rootfind_contract rootfind -> vlo < vhi -> eo_pressure oMin <= 0 ->
  solveWall P rootfind c s0 vlo vhi g0 (Some oMin) (Some oMax) fuel = RDone o ->
  r_success (o_res o) = true -> r_velocity (o_res o) = Some v ->
  o_doublings o = 0%nat /\ o_vmin o = vlo /\ vlo <= v /\ v <= vhi /\
  (c_vJ b < vlo -> r_type (o_res o) = Detonation) /\
  (vhi <= c_vJ b -> r_type (o_res o) = Deflagration).
Proof.
  intros P rootfind b s0 vlo vhi g0 oMin oMax fuel o v c HRF Hlt Hp H Hs Hv.
  exact (SolveWall.given_bracket_window P rootfind c s0 vlo vhi g0 oMin oMax fuel o v
           HRF (endTol_pos b) Hlt Hp H Hs Hv).
Qed.
Print Assumptions detonation_call_window.

(** the sign change lies within the configured tolerance on either side of the velocity *)
Corollary sign_change_within_tolerance :
  forall P rootfind b s0 vmin vmax g0 optMin optMax fuel o v,
  let c := cfg b in
  rootfind_contract rootfind -> vmin < vmax ->
  solveWall P rootfind c s0 vmin vmax g0 optMin optMax fuel = RDone o ->
  r_success (o_res o) = true -> r_velocity (o_res o) = Some v ->
  exists cMin cMax lo hi,
    let W := wrapper P c (atol2 c cMin cMax) cMin cMax (o_vmin o) vmax in
    let tol := c_errTol b + brentq_rtol * Qabs v in
    v - tol < lo /\ lo <= v /\ v <= hi /\ hi < v + tol /\ W lo <= 0 /\ 0 <= W hi.
Proof.
  intros P rootfind b s0 vmin vmax g0 optMin optMax fuel o v c HRF Hlt H Hs Hv.
  destruct (success_brackets P rootfind b s0 vmin vmax g0 optMin optMax fuel o v HRF Hlt H Hs Hv)
    as (s & tr & cMin & cMax & _ & _ & _ & _ & _ & _ & lo & hi & A & B & C & D & E & F & G).
  exists cMin, cMax, lo, hi. cbv zeta. repeat split; try assumption; lra.
Qed.
Print Assumptions sign_change_within_tolerance.

(** ** non-vacuity *)
(** the contract is satisfiable by a converging root finder (bisection, for EVERY function),
    and with it a run of the model succeeds (computed), so that [success_brackets] applies *)
Theorem contract_satisfiable : rootfind_contract bisect_rf.
Proof. exact bisect_contract. Qed.
Print Assumptions contract_satisfiable.

Definition demo_P := Pcurve gen_atol0 (mkSeg 0 (-(2 # 5)) 1 true true true true 100 90 [1] [0]) [].
Definition base1 : config :=
  mkConfig (1 # 10) (1 # 10) (7 # 10) (1 # 2) 10 200 10 200 (1 # 128) 10 (-10) 10 0 0 0 0 (fun _ => 0).
Example success_reachable :
  exists o v, solveWall demo_P bisect_rf (cfg base1) (mkState 0 false false) (1 # 100) (13 # 20)
                        (mkGuess [1] [0]) None None 10 = RDone o /\
              r_success (o_res o) = true /\ r_velocity (o_res o) = Some v /\
              r_type (o_res o) = Deflagration /\ Qabs (v - (2 # 5)) < 1 # 10.
Proof. do 2 eexists. split; [vm_compute; reflexivity|]. vm_compute. repeat split. Qed.

(** ... with both end tuples supplied above vJ (the detonation search's call) *)
Definition demo_seg := mkSeg 0 (-(4 # 5)) 1 true true true true 100 90 [1] [0].
Example detonation_call_reachable :
  exists o v,
    c_vJ base1 < (3 # 4) /\ (3 # 4) < (9 # 10) /\
    eo_pressure (Pcurve gen_atol0 demo_seg [] gen_atol0 (3 # 4) (mkGuess [] [])) <= 0 /\
    solveWall (Pcurve gen_atol0 demo_seg []) bisect_rf (cfg base1) (mkState 0 false false)
              (3 # 4) (9 # 10) (mkGuess [1] [0])
              (Some (Pcurve gen_atol0 demo_seg [] gen_atol0 (3 # 4) (mkGuess [] [])))
              (Some (Pcurve gen_atol0 demo_seg [] gen_atol0 (9 # 10) (mkGuess [] []))) 0 = RDone o /\
    r_success (o_res o) = true /\ r_velocity (o_res o) = Some v /\
    r_type (o_res o) = Detonation /\ (3 # 4) <= v /\ v <= (9 # 10).
Proof.
  do 2 eexists. split; [reflexivity|]. split; [reflexivity|]. split; [vm_compute; discriminate|].
  split; [vm_compute; reflexivity|]. vm_compute. repeat split; discriminate.
Qed.

(** ... and through the deflagration search, whose window hypotheses are satisfiable *)
Example success_reachable_findDeflag :
  0 < (1 # 100) /\ (1 # 100) < Qmin (c_vJ base1) (13 # 20) /\
  exists o v, findDeflag demo_P bisect_rf (cfg base1) (mkState 0 false false) (1 # 100) (13 # 20)
                         (5 # 64) 1 10 = RDone o /\
              r_success (o_res o) = true /\ r_velocity (o_res o) = Some v /\
              (1 # 100) <= v /\ v <= (13 # 20).
Proof.
  split; [reflexivity|]. split; [reflexivity|].
  do 2 eexists. split; [vm_compute; reflexivity|]. vm_compute. repeat split; discriminate.
Qed.

(** the same with a recorded root-finder outcome, as in the correspondence cases *)
Definition demo_rf : (Q -> Q) -> Q -> Q -> Q -> rfOut :=
  fun _ _ _ _ => mkRf (2 # 5) true [1 # 100; 13 # 20; 2 # 5].
Example success_reachable_recorded :
  match solveWall demo_P demo_rf (cfg base0) (mkState 0 false false) (1 # 100) (13 # 20)
                  (mkGuess [1] [0]) None None 10 with
  | RDone o => r_success (o_res o) = true /\ r_velocity (o_res o) = Some (2 # 5) /\
               r_type (o_res o) = Deflagration /\ List.length (o_trace o) = 4%nat
  | _ => False
  end.
Proof. vm_compute. repeat split. Qed.
