(** C07 -- results are covariant under a change of units.

    Proof half.  Every definition below the imports is GENERATED on this run from the
    current sources (GenC07.Thermo from thermodynamics.py by tools/gen_thermo.py;
    GenC07.UnitsGen from helpers.py, hydrodynamics.py, equationOfMotion.py, grid3Scales.py
    and GenC07.Sites from the AST of seven modules by tools/gen_units.py).

    A change of units by [lam > 0] multiplies temperatures and field values by [lam],
    lengths by [/ lam], pressures / energy densities / the effective potential by
    [lam ^ 4].  "The same physics in other units" is expressed by rescaling the external
    collaborators the generated model is parametric in (free-energy tables, effective
    potential, wall parameters): [scale_env], [hy_scale], [eom_scale].  Each theorem says
    that a generated function, given rescaled inputs, returns its old value times the
    power of [lam] that belongs to the dimension of its result.

    External numerics: none is modelled here (the tables / potential are record fields of
    the generated [env]); scipy's internal absolute defaults are exercised only by the
    metamorphic runs of tools/props/C07.py. *)
From Coq Require Import Reals Lra List String ZArith.
From WG Require Import Lib.NumpySem Lib.EosTemplate Lib.Units.
From GenC07 Require Import Thermo UnitsGen Sites.
Local Open Scope R_scope.

Lemma unscale lam T : 0 < lam -> lam * T / lam = T.
Proof. intro H. field. lra. Qed.

Ltac lampos :=
  match goal with
  | H : 0 < ?l |- _ =>
    is_var l;
    assert (0 < l ^ 2) by (apply pow_lt; exact H);
    assert (0 < l ^ 3) by (apply pow_lt; exact H);
    assert (0 < l ^ 4) by (apply pow_lt; exact H)
  end.

(* ------------------------------------------------------------------------------------ *)
(** * Hydrodynamics (hydrodynamics.py, helpers.py) *)

(** the same equation of state in units rescaled by lam *)
Definition hy_scale (lam : R) (e : hy_env) : hy_env :=
  {| hy_TMaxHydro := lam * hy_TMaxHydro e;
     hy_TMinHydro := lam * hy_TMinHydro e;
     th_pHighT := fun T => lam ^ 4 * th_pHighT e (T / lam);
     th_pLowT := fun T => lam ^ 4 * th_pLowT e (T / lam);
     th_eHighT := fun T => lam ^ 4 * th_eHighT e (T / lam);
     th_eLowT := fun T => lam ^ 4 * th_eLowT e (T / lam);
     th_csqHighT := fun T => th_csqHighT e (T / lam);
     th_csqLowT := fun T => th_csqLowT e (T / lam) |}.

(** v+ v-  and  v+ / v-  from the junction conditions do not depend on the units ... *)
Lemma vpvm_invariant lam e Tp Tm : 0 < lam ->
  th_eHighT e Tp <> th_eLowT e Tm ->
  hy_vpvmAndvpovm (hy_scale lam e) (lam * Tp) (lam * Tm) = hy_vpvmAndvpovm e Tp Tm.
Proof.
  intros Hl Hne. lampos. unfold hy_vpvmAndvpovm, hy_scale.
  cbn [th_pHighT th_pLowT th_eHighT th_eLowT]. rewrite !unscale by exact Hl.
  destruct (Req_EM_T (lam ^ 4 * th_eHighT e Tp) (lam ^ 4 * th_eLowT e Tm)) as [E|_].
  { exfalso. apply Hne. apply (Rmult_eq_reg_l (lam ^ 4)); [exact E|lra]. }
  destruct (Req_EM_T (th_eHighT e Tp) (th_eLowT e Tm)) as [E|_]; [contradiction|].
  cbn [negb]. f_equal.
  - rewrite <- !Rmult_minus_distr_l. apply div_scale. lra.
  - rewrite <- !Rmult_plus_distr_l. apply div_scale. lra.
Qed.

(** ... except on the degenerate branch  e+ = e-, where the code returns the DIMENSIONFUL
    sentinel (p+ - p-) * 1e50  (recorded as a tolerance site, kind "branch") *)
Lemma vpvm_degenerate_branch_scales lam e Tp Tm : 0 < lam ->
  th_eHighT e Tp = th_eLowT e Tm ->
  fst (hy_vpvmAndvpovm (hy_scale lam e) (lam * Tp) (lam * Tm)) =
  lam ^ 4 * fst (hy_vpvmAndvpovm e Tp Tm).
Proof.
  intros Hl He. unfold hy_vpvmAndvpovm, hy_scale.
  cbn [th_pHighT th_pLowT th_eHighT th_eLowT fst]. rewrite !unscale by exact Hl.
  destruct (Req_EM_T (lam ^ 4 * th_eHighT e Tp) (lam ^ 4 * th_eLowT e Tm)) as [_|N];
    [|exfalso; apply N; rewrite He; reflexivity].
  destruct (Req_EM_T (th_eHighT e Tp) (th_eLowT e Tm)) as [_|N]; [|contradiction].
  cbn [negb]. ring.
Qed.

(** self-similar fluid equations: d xi / dv is dimensionless, dT/dv scales like T *)
Lemma shockDE_scaling lam e v xi T b : 0 < lam ->
  hy_shockDE_shock (hy_scale lam e) v (xi, lam * T) b =
    (fst (hy_shockDE_shock e v (xi, T) b), lam * snd (hy_shockDE_shock e v (xi, T) b)) /\
  hy_shockDE_rarefaction (hy_scale lam e) v (xi, lam * T) b =
    (fst (hy_shockDE_rarefaction e v (xi, T) b),
     lam * snd (hy_shockDE_rarefaction e v (xi, T) b)).
Proof.
  intro Hl. unfold hy_shockDE_shock, hy_shockDE_rarefaction, hy_scale.
  cbn [th_csqHighT th_csqLowT fst snd]. rewrite !unscale by exact Hl.
  split; f_equal; ring.
Qed.

(** the temperature window [TMinHydro, TMaxHydro] is mapped covariantly *)
Lemma mappingT_invariant lam e Tp Tm : 0 < lam ->
  hy_mappingT (hy_scale lam e) (lam * Tp, lam * Tm) = hy_mappingT e (Tp, Tm).
Proof.
  intro Hl. unfold hy_mappingT, hy_scale. cbn [hy_TMaxHydro hy_TMinHydro].
  rewrite <- Rmult_minus_distr_l, <- Rmult_plus_distr_l.
  unfold Rdiv. rewrite Rinv_mult.
  set (q := / (hy_TMaxHydro e - hy_TMinHydro e)).
  f_equal; f_equal; field; lra.
Qed.

Lemma inverseMappingT_scales lam e x y : 0 < lam ->
  hy_inverseMappingT (hy_scale lam e) (x, y) =
  (lam * fst (hy_inverseMappingT e (x, y)), lam * snd (hy_inverseMappingT e (x, y))).
Proof.
  intro Hl. unfold hy_inverseMappingT, hy_scale. cbn [hy_TMaxHydro hy_TMinHydro fst snd].
  f_equal; field; apply PI_neq0.
Qed.

(* ------------------------------------------------------------------------------------ *)
(** * Equation of motion (equationOfMotion.py; one scalar field) *)

Definition eom_scale (lam : R) (e : eom_env) : eom_env :=
  {| wp_widths := wp_widths e / lam;                 (* a length *)
     wp_offsets := wp_offsets e;                     (* in units of the width *)
     veff_dT := fun phi T => lam ^ 3 * veff_dT e (phi / lam) (T / lam);
     veff := fun phi T => lam ^ 4 * veff e (phi / lam) (T / lam) |}.

(** tanh ansatz: fields scale like lam, d phi / dz like lam^2 when positions scale like 1/lam *)
Lemma wallProfile_scaling lam e z vL vH w : 0 < lam ->
  eom_wallProfile (eom_scale lam e) (z / lam) (lam * vL) (lam * vH) w =
  (lam * fst (eom_wallProfile e z vL vH w), lam ^ 2 * snd (eom_wallProfile e z vL vH w)).
Proof.
  intro Hl. unfold eom_wallProfile, eom_scale. cbn [wp_widths wp_offsets fst snd].
  assert (E : z / lam / (wp_widths e / lam) = z / wp_widths e).
  { unfold Rdiv. rewrite Rinv_mult, Rinv_inv. set (q := / wp_widths e). field. lra. }
  rewrite E. set (A := z / wp_widths e + wp_offsets e).
  f_equal; [ring|].
  replace (wp_widths e / lam * cosh A ^ 2) with (/ lam * (wp_widths e * cosh A ^ 2))
    by (unfold Rdiv; ring).
  unfold Rdiv. rewrite Rinv_mult, Rinv_inv. set (q := / (wp_widths e * cosh A ^ 2)). ring.
Qed.

Lemma sqrt_s1_enthalpy k s h : 0 < k ->
  sqrt (4 * (k * s) ^ 2 + (k * h) ^ 2) = k * sqrt (4 * s ^ 2 + h ^ 2).
Proof.
  intro Hk. rewrite <- sqrt_scale_sq by lra. f_equal. ring.
Qed.

(** plasma velocity inside the wall: dimensionless *)
Lemma plasmaVelocity_invariant lam e phi T s1 : 0 < lam ->
  eom_plasmaVelocity (eom_scale lam e) (lam * phi) (lam * T) (lam ^ 4 * s1) =
  eom_plasmaVelocity e phi T s1.
Proof.
  intro Hl. lampos. unfold eom_plasmaVelocity, eom_scale. cbn [veff_dT].
  rewrite !unscale by exact Hl.
  replace (- (lam * T) * (lam ^ 3 * veff_dT e phi T)) with (lam ^ 4 * (- T * veff_dT e phi T))
    by ring.
  rewrite sqrt_s1_enthalpy by lra.
  replace (2 * (lam ^ 4 * s1)) with (lam ^ 4 * (2 * s1)) by ring.
  rewrite Ropp_mult_distr_r, <- Rmult_plus_distr_l. apply div_scale. lra.
Qed.

(** left-hand side of the local temperature equation (T^33 balance): a pressure *)
Lemma temperatureProfileEqLHS_scaling lam e phi dphi T s1 s2 : 0 < lam ->
  eom_temperatureProfileEqLHS (eom_scale lam e) (lam * phi) (lam ^ 2 * dphi) (lam * T)
                              (lam ^ 4 * s1) (lam ^ 4 * s2) =
  lam ^ 4 * eom_temperatureProfileEqLHS e phi dphi T s1 s2.
Proof.
  intro Hl. lampos. unfold eom_temperatureProfileEqLHS, eom_scale. cbn [veff_dT veff].
  rewrite !unscale by exact Hl.
  replace (- (lam * T) * (lam ^ 3 * veff_dT e phi T)) with (lam ^ 4 * (- T * veff_dT e phi T))
    by ring.
  rewrite sqrt_s1_enthalpy by lra. ring.
Qed.

(* ------------------------------------------------------------------------------------ *)
(** * Grid3Scales._updateParameters (grid3Scales.py): lengths ~ 1/lam, aIn aOut invariant *)
Lemma grid_a_invariant k sm L r t :
  0 < k ->
  sqrt (4 * sm * (k * L) * r ^ 2 * (2 * r * (k * t) - k * L * (1 + sm))) /
    Rabs (2 * r * (k * t) - k * L * (1 + 2 * sm)) =
  sqrt (4 * sm * L * r ^ 2 * (2 * r * t - L * (1 + sm))) / Rabs (2 * r * t - L * (1 + 2 * sm)).
Proof.
  intro Hk.
  replace (4 * sm * (k * L) * r ^ 2 * (2 * r * (k * t) - k * L * (1 + sm)))
    with (k * k * (4 * sm * L * r ^ 2 * (2 * r * t - L * (1 + sm)))) by ring.
  replace (2 * r * (k * t) - k * L * (1 + 2 * sm)) with (k * (2 * r * t - L * (1 + 2 * sm)))
    by ring.
  rewrite sqrt_scale_sq, Rabs_scale by lra. apply div_scale. lra.
Qed.

Lemma grid_parameters_scaling lam e s s' tIn tOut L r sm c : 0 < lam ->
  let G := gr_updateParameters e s tIn tOut L r sm c in
  let G' := gr_updateParameters e s' (/ lam * tIn) (/ lam * tOut) (/ lam * L) r sm (/ lam * c) in
  gr_aIn G' = gr_aIn G /\ gr_aOut G' = gr_aOut G /\
  gr_tailLengthInside G' = / lam * gr_tailLengthInside G /\
  gr_tailLengthOutside G' = / lam * gr_tailLengthOutside G /\
  gr_wallThickness G' = / lam * gr_wallThickness G /\
  gr_wallCenter G' = / lam * gr_wallCenter G /\
  gr_ratioPointsWall G' = gr_ratioPointsWall G /\ gr_smoothing G' = gr_smoothing G.
Proof.
  intros Hl G G'. assert (Hk : 0 < / lam) by (apply Rinv_0_lt_compat; exact Hl).
  unfold G, G', gr_updateParameters.
  repeat (rewrite ?get_gr_aIn_set_gr_aIn, ?get_gr_aIn_set_gr_aOut,
                  ?get_gr_aOut_set_gr_aOut, ?get_gr_aOut_set_gr_aIn,
                  ?get_gr_tailLengthInside_set_gr_aIn, ?get_gr_tailLengthInside_set_gr_aOut,
                  ?get_gr_tailLengthOutside_set_gr_aIn, ?get_gr_tailLengthOutside_set_gr_aOut,
                  ?get_gr_wallThickness_set_gr_aIn, ?get_gr_wallThickness_set_gr_aOut,
                  ?get_gr_wallCenter_set_gr_aIn, ?get_gr_wallCenter_set_gr_aOut,
                  ?get_gr_ratioPointsWall_set_gr_aIn, ?get_gr_ratioPointsWall_set_gr_aOut,
                  ?get_gr_smoothing_set_gr_aIn, ?get_gr_smoothing_set_gr_aOut).
  cbn.
  repeat split; try reflexivity; apply grid_a_invariant; exact Hk.
Qed.
