(** C07 -- results are covariant under a change of units.

    Proof half.  Every definition below the imports is GENERATED on this run from the
    current sources (GenC07.Thermo from thermodynamics.py by tools/gen_thermo.py;
    GenC07.UnitsGen from helpers.py, hydrodynamics.py, equationOfMotion.py, grid3Scales.py
    and GenC07.Sites from the AST of seven modules by tools/gen_units.py).

    A change of units by [lam > 0] multiplies temperatures and field values by [lam],
    lengths by [/ lam], pressures / energy densities / the effective potential by
    [lam ^ 4].  "The same physics in other units" is expressed by rescaling the external
    collaborators the generated model is parametric in (free-energy tables, effective
    potential, wall parameters): [scale_env], [hy_scale], [eom_scale].  Each theorem says
    that a generated function, given rescaled inputs, returns its old value times the
    power of [lam] that belongs to the dimension of its result.

    External numerics: none is modelled here (the tables / potential are record fields of
    the generated [env]); scipy's internal absolute defaults are exercised only by the
    metamorphic runs of tools/props/C07.py. *)
From Coq Require Import Reals Lra List String ZArith.
From WG Require Import Lib.NumpySem Lib.EosTemplate Lib.Units Lib.UnitsEos.
From GenC07 Require Import Thermo UnitsGen Sites.
Local Open Scope R_scope.

Lemma unscale lam T : 0 < lam -> lam * T / lam = T.
Proof. intro H. field. lra. Qed.

Ltac lampos :=
  match goal with
  | H : 0 < ?l |- _ =>
    is_var l;
    assert (0 < l ^ 2) by (apply pow_lt; exact H);
    assert (0 < l ^ 3) by (apply pow_lt; exact H);
    assert (0 < l ^ 4) by (apply pow_lt; exact H)
  end.

(* ------------------------------------------------------------------------------------ *)
(** * Hydrodynamics (hydrodynamics.py, helpers.py) *)

(** the same equation of state in units rescaled by lam *)
Definition hy_scale (lam : R) (e : hy_env) : hy_env :=
  {| hy_TMaxHydro := lam * hy_TMaxHydro e;
     hy_TMinHydro := lam * hy_TMinHydro e;
     hy_Tnucl := lam * hy_Tnucl e;
     th_dpLowT := fun T => lam ^ 3 * th_dpLowT e (T / lam);
     th_deLowT := fun T => lam ^ 3 * th_deLowT e (T / lam);
     th_pHighT := fun T => lam ^ 4 * th_pHighT e (T / lam);
     th_pLowT := fun T => lam ^ 4 * th_pLowT e (T / lam);
     th_eHighT := fun T => lam ^ 4 * th_eHighT e (T / lam);
     th_eLowT := fun T => lam ^ 4 * th_eLowT e (T / lam);
     th_csqHighT := fun T => th_csqHighT e (T / lam);
     th_csqLowT := fun T => th_csqLowT e (T / lam) |}.

(** v+ v-  and  v+ / v-  from the junction conditions do not depend on the units ... *)
Lemma vpvm_invariant lam e Tp Tm : 0 < lam ->
  th_eHighT e Tp <> th_eLowT e Tm ->
  hy_vpvmAndvpovm (hy_scale lam e) (lam * Tp) (lam * Tm) = hy_vpvmAndvpovm e Tp Tm.
Proof.
  intros Hl Hne. lampos. unfold hy_vpvmAndvpovm, hy_scale.
  cbn [th_pHighT th_pLowT th_eHighT th_eLowT]. rewrite !unscale by exact Hl.
  destruct (Req_EM_T (lam ^ 4 * th_eHighT e Tp) (lam ^ 4 * th_eLowT e Tm)) as [E|_].
  { exfalso. apply Hne. apply (Rmult_eq_reg_l (lam ^ 4)); [exact E|lra]. }
  destruct (Req_EM_T (th_eHighT e Tp) (th_eLowT e Tm)) as [E|_]; [contradiction|].
  cbn [negb]. f_equal.
  - rewrite <- !Rmult_minus_distr_l. apply div_scale. lra.
  - rewrite <- !Rmult_plus_distr_l. apply div_scale. lra.
Qed.

(** ... except on the degenerate branch  e+ = e-, where the code returns the DIMENSIONFUL
    sentinel (p+ - p-) * 1e50  (recorded as a tolerance site, kind "branch") *)
Lemma vpvm_degenerate_branch_scales lam e Tp Tm : 0 < lam ->
  th_eHighT e Tp = th_eLowT e Tm ->
  fst (hy_vpvmAndvpovm (hy_scale lam e) (lam * Tp) (lam * Tm)) =
  lam ^ 4 * fst (hy_vpvmAndvpovm e Tp Tm).
Proof.
  intros Hl He. unfold hy_vpvmAndvpovm, hy_scale.
  cbn [th_pHighT th_pLowT th_eHighT th_eLowT fst]. rewrite !unscale by exact Hl.
  destruct (Req_EM_T (lam ^ 4 * th_eHighT e Tp) (lam ^ 4 * th_eLowT e Tm)) as [_|N];
    [|exfalso; apply N; rewrite He; reflexivity].
  destruct (Req_EM_T (th_eHighT e Tp) (th_eLowT e Tm)) as [_|N]; [|contradiction].
  cbn [negb]. ring.
Qed.

(** Jouguet point: the function whose root findJouguetVelocity looks for (numerator of
    d(v+^2)/dT-) is homogeneous of degree 15, so its roots are covariant: T-_J ~ lam *)
Lemma vpDerivNum_scaling lam e tm : 0 < lam ->
  hy_vpDerivNum (hy_scale lam e) (lam * tm) = lam ^ 15 * hy_vpDerivNum e tm.
Proof.
  intro Hl. unfold hy_vpDerivNum, hy_scale.
  cbn [th_pHighT th_pLowT th_eHighT th_eLowT th_dpLowT th_deLowT hy_Tnucl].
  rewrite !unscale by exact Hl. ring.
Qed.

Lemma jouguet_root_covariant lam e tm : 0 < lam ->
  (hy_vpDerivNum (hy_scale lam e) (lam * tm) = 0 <-> hy_vpDerivNum e tm = 0).
Proof.
  intro Hl. rewrite vpDerivNum_scaling by exact Hl.
  assert (H : lam ^ 15 <> 0) by (apply Rgt_not_eq, pow_lt; exact Hl).
  split; intro E; [|rewrite E; ring].
  apply Rmult_integral in E. destruct E as [E|E]; [contradiction|exact E].
Qed.

(** self-similar fluid equations: d xi / dv is dimensionless, dT/dv scales like T *)
Lemma shockDE_scaling lam e v xi T b : 0 < lam ->
  hy_shockDE_shock (hy_scale lam e) v (xi, lam * T) b =
    (fst (hy_shockDE_shock e v (xi, T) b), lam * snd (hy_shockDE_shock e v (xi, T) b)) /\
  hy_shockDE_rarefaction (hy_scale lam e) v (xi, lam * T) b =
    (fst (hy_shockDE_rarefaction e v (xi, T) b),
     lam * snd (hy_shockDE_rarefaction e v (xi, T) b)).
Proof.
  intro Hl. unfold hy_shockDE_shock, hy_shockDE_rarefaction, hy_scale.
  cbn [th_csqHighT th_csqLowT fst snd]. rewrite !unscale by exact Hl.
  split; f_equal; ring.
Qed.

(** the temperature window [TMinHydro, TMaxHydro] is mapped covariantly *)
Lemma mappingT_invariant lam e Tp Tm : 0 < lam ->
  hy_mappingT (hy_scale lam e) (lam * Tp, lam * Tm) = hy_mappingT e (Tp, Tm).
Proof.
  intro Hl. unfold hy_mappingT, hy_scale. cbn [hy_TMaxHydro hy_TMinHydro].
  rewrite <- Rmult_minus_distr_l, <- Rmult_plus_distr_l.
  unfold Rdiv. rewrite Rinv_mult.
  set (q := / (hy_TMaxHydro e - hy_TMinHydro e)).
  f_equal; f_equal; field; lra.
Qed.

Lemma inverseMappingT_scales lam e x y : 0 < lam ->
  hy_inverseMappingT (hy_scale lam e) (x, y) =
  (lam * fst (hy_inverseMappingT e (x, y)), lam * snd (hy_inverseMappingT e (x, y))).
Proof.
  intro Hl. unfold hy_inverseMappingT, hy_scale. cbn [hy_TMaxHydro hy_TMinHydro fst snd].
  f_equal; field; apply PI_neq0.
Qed.

(* ------------------------------------------------------------------------------------ *)
(** * Equation of motion (equationOfMotion.py; one scalar field) *)

Definition eom_scale (lam : R) (e : eom_env) : eom_env :=
  {| wp_widths := wp_widths e / lam;                 (* a length *)
     wp_offsets := wp_offsets e;                     (* in units of the width *)
     veff_dT := fun phi T => lam ^ 3 * veff_dT e (phi / lam) (T / lam);
     veff := fun phi T => lam ^ 4 * veff e (phi / lam) (T / lam) |}.

(** tanh ansatz: fields scale like lam, d phi / dz like lam^2 when positions scale like 1/lam *)
Lemma wallProfile_scaling lam e z vL vH w : 0 < lam ->
  eom_wallProfile (eom_scale lam e) (z / lam) (lam * vL) (lam * vH) w =
  (lam * fst (eom_wallProfile e z vL vH w), lam ^ 2 * snd (eom_wallProfile e z vL vH w)).
Proof.
  intro Hl. unfold eom_wallProfile, eom_scale. cbn [wp_widths wp_offsets fst snd].
  assert (E : z / lam / (wp_widths e / lam) = z / wp_widths e).
  { unfold Rdiv. rewrite Rinv_mult, Rinv_inv. set (q := / wp_widths e). field. lra. }
  rewrite E. set (A := z / wp_widths e + wp_offsets e).
  f_equal; [ring|].
  replace (wp_widths e / lam * cosh A ^ 2) with (/ lam * (wp_widths e * cosh A ^ 2))
    by (unfold Rdiv; ring).
  unfold Rdiv. rewrite Rinv_mult, Rinv_inv. set (q := / (wp_widths e * cosh A ^ 2)). ring.
Qed.

Lemma sqrt_s1_enthalpy k s h : 0 < k ->
  sqrt (4 * (k * s) ^ 2 + (k * h) ^ 2) = k * sqrt (4 * s ^ 2 + h ^ 2).
Proof.
  intro Hk. rewrite <- sqrt_scale_sq by lra. f_equal. ring.
Qed.

(** plasma velocity inside the wall: dimensionless *)
Lemma plasmaVelocity_invariant lam e phi T s1 : 0 < lam ->
  eom_plasmaVelocity (eom_scale lam e) (lam * phi) (lam * T) (lam ^ 4 * s1) =
  eom_plasmaVelocity e phi T s1.
Proof.
  intro Hl. lampos. unfold eom_plasmaVelocity, eom_scale. cbn [veff_dT].
  rewrite !unscale by exact Hl.
  replace (- (lam * T) * (lam ^ 3 * veff_dT e phi T)) with (lam ^ 4 * (- T * veff_dT e phi T))
    by ring.
  rewrite sqrt_s1_enthalpy by lra.
  replace (2 * (lam ^ 4 * s1)) with (lam ^ 4 * (2 * s1)) by ring.
  rewrite Ropp_mult_distr_r, <- Rmult_plus_distr_l. apply div_scale. lra.
Qed.

(** left-hand side of the local temperature equation (T^33 balance): a pressure *)
Lemma temperatureProfileEqLHS_scaling lam e phi dphi T s1 s2 : 0 < lam ->
  eom_temperatureProfileEqLHS (eom_scale lam e) (lam * phi) (lam ^ 2 * dphi) (lam * T)
                              (lam ^ 4 * s1) (lam ^ 4 * s2) =
  lam ^ 4 * eom_temperatureProfileEqLHS e phi dphi T s1 s2.
Proof.
  intro Hl. lampos. unfold eom_temperatureProfileEqLHS, eom_scale. cbn [veff_dT veff].
  rewrite !unscale by exact Hl.
  replace (- (lam * T) * (lam ^ 3 * veff_dT e phi T)) with (lam ^ 4 * (- T * veff_dT e phi T))
    by ring.
  rewrite sqrt_s1_enthalpy by lra. ring.
Qed.

(* ------------------------------------------------------------------------------------ *)
(** * Grid3Scales._updateParameters (grid3Scales.py): lengths ~ 1/lam, aIn aOut invariant *)
Lemma grid_a_invariant k sm L r t :
  0 < k ->
  sqrt (4 * sm * (k * L) * r ^ 2 * (2 * r * (k * t) - k * L * (1 + sm))) /
    Rabs (2 * r * (k * t) - k * L * (1 + 2 * sm)) =
  sqrt (4 * sm * L * r ^ 2 * (2 * r * t - L * (1 + sm))) / Rabs (2 * r * t - L * (1 + 2 * sm)).
Proof.
  intro Hk.
  replace (4 * sm * (k * L) * r ^ 2 * (2 * r * (k * t) - k * L * (1 + sm)))
    with (k * k * (4 * sm * L * r ^ 2 * (2 * r * t - L * (1 + sm)))) by ring.
  replace (2 * r * (k * t) - k * L * (1 + 2 * sm)) with (k * (2 * r * t - L * (1 + 2 * sm)))
    by ring.
  rewrite sqrt_scale_sq, Rabs_scale by lra. apply div_scale. lra.
Qed.

Lemma grid_parameters_scaling lam e s s' tIn tOut L r sm c : 0 < lam ->
  let G := gr_updateParameters e s tIn tOut L r sm c in
  let G' := gr_updateParameters e s' (/ lam * tIn) (/ lam * tOut) (/ lam * L) r sm (/ lam * c) in
  gr_aIn G' = gr_aIn G /\ gr_aOut G' = gr_aOut G /\
  gr_tailLengthInside G' = / lam * gr_tailLengthInside G /\
  gr_tailLengthOutside G' = / lam * gr_tailLengthOutside G /\
  gr_wallThickness G' = / lam * gr_wallThickness G /\
  gr_wallCenter G' = / lam * gr_wallCenter G /\
  gr_ratioPointsWall G' = gr_ratioPointsWall G /\ gr_smoothing G' = gr_smoothing G.
Proof.
  intros Hl G G'. assert (Hk : 0 < / lam) by (apply Rinv_0_lt_compat; exact Hl).
  unfold G, G', gr_updateParameters.
  repeat (rewrite ?get_gr_aIn_set_gr_aIn, ?get_gr_aIn_set_gr_aOut,
                  ?get_gr_aOut_set_gr_aOut, ?get_gr_aOut_set_gr_aIn,
                  ?get_gr_tailLengthInside_set_gr_aIn, ?get_gr_tailLengthInside_set_gr_aOut,
                  ?get_gr_tailLengthOutside_set_gr_aIn, ?get_gr_tailLengthOutside_set_gr_aOut,
                  ?get_gr_wallThickness_set_gr_aIn, ?get_gr_wallThickness_set_gr_aOut,
                  ?get_gr_wallCenter_set_gr_aIn, ?get_gr_wallCenter_set_gr_aOut,
                  ?get_gr_ratioPointsWall_set_gr_aIn, ?get_gr_ratioPointsWall_set_gr_aOut,
                  ?get_gr_smoothing_set_gr_aIn, ?get_gr_smoothing_set_gr_aOut).
  cbn.
  repeat split; try reflexivity; apply grid_a_invariant; exact Hk.
Qed.


(** the coordinate maps chi -> z, rho_z -> p_z, rho_par -> p_par : z ~ 1/lam, momenta ~ lam *)
Definition grid_scaled (lam : R) (s s' : gr_st) : Prop :=
  gr_tailLengthInside s' = / lam * gr_tailLengthInside s /\
  gr_tailLengthOutside s' = / lam * gr_tailLengthOutside s /\
  gr_wallThickness s' = / lam * gr_wallThickness s /\
  gr_wallCenter s' = / lam * gr_wallCenter s /\
  gr_ratioPointsWall s' = gr_ratioPointsWall s /\ gr_smoothing s' = gr_smoothing s /\
  gr_aIn s' = gr_aIn s /\ gr_aOut s' = gr_aOut s /\
  gr_momentumFalloffT s' = lam * gr_momentumFalloffT s.

Lemma totalMapping_scaling lam e s s' x : grid_scaled lam s s' ->
  gr_totalMapping e s' x = / lam * gr_totalMapping e s x.
Proof.
  intros [E1 [E2 [E3 [E4 [E5 [E6 [E7 [E8 E9]]]]]]]].
  unfold gr_totalMapping, gr_term1, gr_term2, gr_term3, gr_term4, gr_term5.
  rewrite E1, E2, E3, E5, E6, E7, E8. unfold Rdiv. ring.
Qed.

Lemma decompactify_scaling lam e s s' x y w : grid_scaled lam s s' ->
  gr_decompactify e s' x y w =
  (/ lam * fst (fst (gr_decompactify e s x y w)),
   lam * snd (fst (gr_decompactify e s x y w)),
   lam * snd (gr_decompactify e s x y w)).
Proof.
  intro H. pose proof (totalMapping_scaling lam e s s' x H) as Hx.
  pose proof (totalMapping_scaling lam e s s' 0 H) as H0.
  destruct H as [E1 [E2 [E3 [E4 [E5 [E6 [E7 [E8 E9]]]]]]]].
  unfold gr_decompactify. cbn [fst snd]. rewrite Hx, H0, E4, E9.
  f_equal; [f_equal|]; ring.
Qed.

(* ------------------------------------------------------------------------------------ *)
(** * Thermodynamics (thermodynamics.py): all piecewise EOS functions and setExtrapolate *)

(** the same free-energy tables in units rescaled by lam *)
Definition scale_env (lam : R) (e : env) : env :=
  {| fHigh := sc4 lam (fHigh e); fLow := sc4 lam (fLow e);
     dfHigh := sc3 lam (dfHigh e); ddfHigh := sc2 lam (ddfHigh e);
     dfLow := sc3 lam (dfLow e); ddfLow := sc2 lam (ddfLow e);
     tabMaxHigh := lam * tabMaxHigh e; tabMinHigh := lam * tabMinHigh e;
     tabMaxLow := lam * tabMaxLow e; tabMinLow := lam * tabMinLow e |}.

(** ** HIGH-temperature phase *)
Section ThermoHigh.
Variable lam : R.
Hypothesis Hlam : 0 < lam.
Variable e : env.
Notation e' := (scale_env lam e).

(** tie: the generated functions are instances of the template of Lib/EosTemplate.v *)
Lemma pHighT_is_P e0 s T :
  pHighT e0 s T = P (TMinHighT s) (TMaxHighT s) (fHigh e0) (muMinHighT s) (aMinHighT s)
                       (epsilonMinHighT s) (muMaxHighT s) (aMaxHighT s) (epsilonMaxHighT s) T.
Proof. unfold pHighT, P. repeat (match goal with |- context [Rlt_dec ?x ?y] => destruct (Rlt_dec x y) end); ring. Qed.
Lemma dpHighT_is_DP e0 s T :
  dpHighT e0 s T = DP (TMinHighT s) (TMaxHighT s) (dfHigh e0) (muMinHighT s) (aMinHighT s)
                          (muMaxHighT s) (aMaxHighT s) T.
Proof. unfold dpHighT, DP. repeat (match goal with |- context [Rlt_dec ?x ?y] => destruct (Rlt_dec x y) end); ring. Qed.
Lemma ddpHighT_is_DDP e0 s T :
  ddpHighT e0 s T = DDP (TMinHighT s) (TMaxHighT s) (ddfHigh e0) (muMinHighT s) (aMinHighT s)
                             (muMaxHighT s) (aMaxHighT s) T.
Proof. unfold ddpHighT, DDP. repeat (match goal with |- context [Rlt_dec ?x ?y] => destruct (Rlt_dec x y) end); ring. Qed.
Lemma deHighT_is_DE e0 s T :
  deHighT e0 s T = DE (TMinHighT s) (TMaxHighT s) (ddfHigh e0) (muMinHighT s) (aMinHighT s)
                           (muMaxHighT s) (aMaxHighT s) T.
Proof. unfold deHighT, DE. rewrite ddpHighT_is_DDP. reflexivity. Qed.
Lemma csqHighT_is_CSQ e0 s T :
  csqHighT e0 s T = CSQ (TMinHighT s) (TMaxHighT s) (dfHigh e0) (ddfHigh e0) (muMinHighT s)
                                    (aMinHighT s) (muMaxHighT s) (aMaxHighT s) T.
Proof.
  unfold csqHighT, CSQ. rewrite !dpHighT_is_DP, !deHighT_is_DE.
  repeat (match goal with |- context [Rlt_dec ?x ?y] => destruct (Rlt_dec x y) end); reflexivity.
Qed.

(** two states describing the same extrapolated equation of state in the two unit systems *)
Definition scaled_High (s s' : st) : Prop :=
  TMinHighT s' = lam * TMinHighT s /\ TMaxHighT s' = lam * TMaxHighT s /\
  muMinHighT s' = muMinHighT s /\ muMaxHighT s' = muMaxHighT s /\
  aMinHighT s' = Rpower lam (4 - muMinHighT s) * aMinHighT s /\
  aMaxHighT s' = Rpower lam (4 - muMaxHighT s) * aMaxHighT s /\
  epsilonMinHighT s' = lam ^ 4 * epsilonMinHighT s /\
  epsilonMaxHighT s' = lam ^ 4 * epsilonMaxHighT s.

Ltac use_scaled H :=
  destruct H as [E1 [E2 [E3 [E4 [E5 [E6 [E7 E8]]]]]]];
  rewrite ?pHighT_is_P, ?dpHighT_is_DP, ?ddpHighT_is_DDP, ?deHighT_is_DE, ?csqHighT_is_CSQ;
  rewrite ?E1, ?E2, ?E3, ?E4, ?E5, ?E6, ?E7, ?E8;
  cbn [fHigh dfHigh ddfHigh scale_env].

(** p ~ lam^4, dp/dT ~ lam^3, d2p/dT2 ~ lam^2, e ~ lam^4, w ~ lam^4, de/dT ~ lam^3 *)
Lemma functions_scale_High s s' T : 0 < T -> scaled_High s s' ->
  pHighT e' s' (lam * T) = lam ^ 4 * pHighT e s T /\
  dpHighT e' s' (lam * T) = lam ^ 3 * dpHighT e s T /\
  ddpHighT e' s' (lam * T) = lam ^ 2 * ddpHighT e s T /\
  eHighT e' s' (lam * T) = lam ^ 4 * eHighT e s T /\
  wHighT e' s' (lam * T) = lam ^ 4 * wHighT e s T /\
  deHighT e' s' (lam * T) = lam ^ 3 * deHighT e s T.
Proof.
  intros HT H.
  assert (Hp : pHighT e' s' (lam * T) = lam ^ 4 * pHighT e s T).
  { use_scaled H. apply (P_scale lam Hlam). exact HT. }
  assert (Hdp : dpHighT e' s' (lam * T) = lam ^ 3 * dpHighT e s T).
  { use_scaled H. apply (DP_scale lam Hlam). exact HT. }
  assert (Hddp : ddpHighT e' s' (lam * T) = lam ^ 2 * ddpHighT e s T).
  { use_scaled H. apply (DDP_scale lam Hlam). exact HT. }
  repeat split; try assumption.
  - unfold eHighT. rewrite Hp, Hdp. ring.
  - unfold wHighT. rewrite Hdp. ring.
  - unfold deHighT. rewrite Hddp. ring.
Qed.

(** the sound speed is dimensionless *)
Lemma csq_invariant_High s s' T : 0 < T -> 0 < TMinHighT s -> 0 < TMaxHighT s ->
  scaled_High s s' -> csqHighT e' s' (lam * T) = csqHighT e s T.
Proof.
  intros HT Ha Hb H. use_scaled H. apply (CSQ_scale lam Hlam); assumption.
Qed.

(** *** setExtrapolate computes covariant coefficients *)
Notation a := (tabMinHigh e).
Notation b := (tabMaxHigh e).

Lemma High_in e0 s T : TMinHighT s = tabMinHigh e0 -> TMaxHighT s = tabMaxHigh e0 ->
  tabMinHigh e0 <= T <= tabMaxHigh e0 ->
  pHighT e0 s T = - (fHigh e0) T /\ dpHighT e0 s T = - (dfHigh e0) T /\
  ddpHighT e0 s T = - (ddfHigh e0) T /\
  csqHighT e0 s T = (- (dfHigh e0) T) / (T * - (ddfHigh e0) T).
Proof.
  intros E1 E2 [H1 H2].
  assert (p : pHighT e0 s T = - (fHigh e0) T).
  { unfold pHighT. rewrite E1, E2. destruct (Rlt_dec T (tabMinHigh e0)); [lra|]. destruct (Rlt_dec (tabMaxHigh e0) T); [lra|ring]. }
  assert (dp : dpHighT e0 s T = - (dfHigh e0) T).
  { unfold dpHighT. rewrite E1, E2. destruct (Rlt_dec T (tabMinHigh e0)); [lra|]. destruct (Rlt_dec (tabMaxHigh e0) T); [lra|ring]. }
  assert (ddp : ddpHighT e0 s T = - (ddfHigh e0) T).
  { unfold ddpHighT. rewrite E1, E2. destruct (Rlt_dec T (tabMinHigh e0)); [lra|]. destruct (Rlt_dec (tabMaxHigh e0) T); [lra|ring]. }
  repeat split; try assumption.
  unfold csqHighT. rewrite E1, E2. destruct (Rlt_dec T (tabMinHigh e0)); [lra|]. destruct (Rlt_dec (tabMaxHigh e0) T); [lra|].
  unfold deHighT. rewrite dp, ddp. reflexivity.
Qed.

Section SE.
Variable e0 : env.
Variable s0 : st.
Hypothesis Hab0 : tabMinHigh e0 < tabMaxHigh e0.
Let S := setExtrapolate e0 s0.
Ltac side_High := first [lra | unfold S, setExtrapolate; autorewrite with setExtrapolate_db; reflexivity].

Lemma S_range_High : TMinHighT S = tabMinHigh e0 /\ TMaxHighT S = tabMaxHigh e0.
Proof. split; side_High. Qed.
Lemma in_csq_High s T : TMinHighT s = tabMinHigh e0 -> TMaxHighT s = tabMaxHigh e0 -> tabMinHigh e0 <= T <= tabMaxHigh e0 ->
  csqHighT e0 s T = (- (dfHigh e0) T) / (T * - (ddfHigh e0) T).
Proof. intros E1 E2 HT. apply (High_in e0 s T E1 E2 HT). Qed.
Lemma in_dp_High s T : TMinHighT s = tabMinHigh e0 -> TMaxHighT s = tabMaxHigh e0 -> tabMinHigh e0 <= T <= tabMaxHigh e0 ->
  dpHighT e0 s T = - (dfHigh e0) T.
Proof. intros E1 E2 HT. apply (High_in e0 s T E1 E2 HT). Qed.
Lemma in_p_High s T : TMinHighT s = tabMinHigh e0 -> TMaxHighT s = tabMaxHigh e0 -> tabMinHigh e0 <= T <= tabMaxHigh e0 ->
  pHighT e0 s T = - (fHigh e0) T.
Proof. intros E1 E2 HT. apply (High_in e0 s T E1 E2 HT). Qed.

Lemma matched_lo_High : matched (fHigh e0) (dfHigh e0) (ddfHigh e0) (tabMinHigh e0) (muMinHighT S) (aMinHighT S) (epsilonMinHighT S).
Proof.
  unfold matched, S, setExtrapolate. autorewrite with setExtrapolate_db. unfold wHighT.
  repeat rewrite in_csq_High by side_High. repeat rewrite in_dp_High by side_High.
  repeat rewrite in_p_High by side_High.
  repeat split; reflexivity.
Qed.
Lemma matched_hi_High : matched (fHigh e0) (dfHigh e0) (ddfHigh e0) (tabMaxHigh e0) (muMaxHighT S) (aMaxHighT S) (epsilonMaxHighT S).
Proof.
  unfold matched, S, setExtrapolate. autorewrite with setExtrapolate_db. unfold wHighT.
  repeat rewrite in_csq_High by side_High. repeat rewrite in_dp_High by side_High.
  repeat rewrite in_p_High by side_High.
  repeat split; reflexivity.
Qed.
End SE.

Hypothesis Hab : a < b.
Hypothesis Ha : 0 < a.

(** whatever the states before the two calls *)
Lemma setExtrapolate_covariant_High s0 s0' :
  scaled_High (setExtrapolate e s0) (setExtrapolate e' s0').
Proof.
  assert (Hab' : tabMinHigh e' < tabMaxHigh e') by (cbn [tabMinHigh tabMaxHigh scale_env]; nra).
  destruct (S_range_High e s0) as [Ra Rb]. destruct (S_range_High e' s0') as [Ra' Rb'].
  pose proof (matched_lo_High e s0 Hab) as ML. pose proof (matched_hi_High e s0 Hab) as MH.
  pose proof (matched_lo_High e' s0' Hab') as ML'. pose proof (matched_hi_High e' s0' Hab') as MH'.
  apply (matched_scale lam) in ML; [|exact Hlam|exact Ha].
  apply (matched_scale lam) in MH; [|exact Hlam|lra].
  cbn [tabMinHigh tabMaxHigh fHigh dfHigh ddfHigh scale_env] in ML', MH', Ra', Rb'.
  destruct (matched_unique _ _ _ _ _ _ _ _ _ _ ML ML') as [U1 [U2 U3]].
  destruct (matched_unique _ _ _ _ _ _ _ _ _ _ MH MH') as [V1 [V2 V3]].
  unfold scaled_High. rewrite Ra, Rb, Ra', Rb'. unfold scA in U2, V2.
  repeat split; assumption.
Qed.
End ThermoHigh.

(** ** LOW-temperature phase *)
Section ThermoLow.
Variable lam : R.
Hypothesis Hlam : 0 < lam.
Variable e : env.
Notation e' := (scale_env lam e).

(** tie: the generated functions are instances of the template of Lib/EosTemplate.v *)
Lemma pLowT_is_P e0 s T :
  pLowT e0 s T = P (TMinLowT s) (TMaxLowT s) (fLow e0) (muMinLowT s) (aMinLowT s)
                       (epsilonMinLowT s) (muMaxLowT s) (aMaxLowT s) (epsilonMaxLowT s) T.
Proof. unfold pLowT, P. repeat (match goal with |- context [Rlt_dec ?x ?y] => destruct (Rlt_dec x y) end); ring. Qed.
Lemma dpLowT_is_DP e0 s T :
  dpLowT e0 s T = DP (TMinLowT s) (TMaxLowT s) (dfLow e0) (muMinLowT s) (aMinLowT s)
                          (muMaxLowT s) (aMaxLowT s) T.
Proof. unfold dpLowT, DP. repeat (match goal with |- context [Rlt_dec ?x ?y] => destruct (Rlt_dec x y) end); ring. Qed.
Lemma ddpLowT_is_DDP e0 s T :
  ddpLowT e0 s T = DDP (TMinLowT s) (TMaxLowT s) (ddfLow e0) (muMinLowT s) (aMinLowT s)
                             (muMaxLowT s) (aMaxLowT s) T.
Proof. unfold ddpLowT, DDP. repeat (match goal with |- context [Rlt_dec ?x ?y] => destruct (Rlt_dec x y) end); ring. Qed.
Lemma deLowT_is_DE e0 s T :
  deLowT e0 s T = DE (TMinLowT s) (TMaxLowT s) (ddfLow e0) (muMinLowT s) (aMinLowT s)
                           (muMaxLowT s) (aMaxLowT s) T.
Proof. unfold deLowT, DE. rewrite ddpLowT_is_DDP. reflexivity. Qed.
Lemma csqLowT_is_CSQ e0 s T :
  csqLowT e0 s T = CSQ (TMinLowT s) (TMaxLowT s) (dfLow e0) (ddfLow e0) (muMinLowT s)
                                    (aMinLowT s) (muMaxLowT s) (aMaxLowT s) T.
Proof.
  unfold csqLowT, CSQ. rewrite !dpLowT_is_DP, !deLowT_is_DE.
  repeat (match goal with |- context [Rlt_dec ?x ?y] => destruct (Rlt_dec x y) end); reflexivity.
Qed.

(** two states describing the same extrapolated equation of state in the two unit systems *)
Definition scaled_Low (s s' : st) : Prop :=
  TMinLowT s' = lam * TMinLowT s /\ TMaxLowT s' = lam * TMaxLowT s /\
  muMinLowT s' = muMinLowT s /\ muMaxLowT s' = muMaxLowT s /\
  aMinLowT s' = Rpower lam (4 - muMinLowT s) * aMinLowT s /\
  aMaxLowT s' = Rpower lam (4 - muMaxLowT s) * aMaxLowT s /\
  epsilonMinLowT s' = lam ^ 4 * epsilonMinLowT s /\
  epsilonMaxLowT s' = lam ^ 4 * epsilonMaxLowT s.

Ltac use_scaled H :=
  destruct H as [E1 [E2 [E3 [E4 [E5 [E6 [E7 E8]]]]]]];
  rewrite ?pLowT_is_P, ?dpLowT_is_DP, ?ddpLowT_is_DDP, ?deLowT_is_DE, ?csqLowT_is_CSQ;
  rewrite ?E1, ?E2, ?E3, ?E4, ?E5, ?E6, ?E7, ?E8;
  cbn [fLow dfLow ddfLow scale_env].

(** p ~ lam^4, dp/dT ~ lam^3, d2p/dT2 ~ lam^2, e ~ lam^4, w ~ lam^4, de/dT ~ lam^3 *)
Lemma functions_scale_Low s s' T : 0 < T -> scaled_Low s s' ->
  pLowT e' s' (lam * T) = lam ^ 4 * pLowT e s T /\
  dpLowT e' s' (lam * T) = lam ^ 3 * dpLowT e s T /\
  ddpLowT e' s' (lam * T) = lam ^ 2 * ddpLowT e s T /\
  eLowT e' s' (lam * T) = lam ^ 4 * eLowT e s T /\
  wLowT e' s' (lam * T) = lam ^ 4 * wLowT e s T /\
  deLowT e' s' (lam * T) = lam ^ 3 * deLowT e s T.
Proof.
  intros HT H.
  assert (Hp : pLowT e' s' (lam * T) = lam ^ 4 * pLowT e s T).
  { use_scaled H. apply (P_scale lam Hlam). exact HT. }
  assert (Hdp : dpLowT e' s' (lam * T) = lam ^ 3 * dpLowT e s T).
  { use_scaled H. apply (DP_scale lam Hlam). exact HT. }
  assert (Hddp : ddpLowT e' s' (lam * T) = lam ^ 2 * ddpLowT e s T).
  { use_scaled H. apply (DDP_scale lam Hlam). exact HT. }
  repeat split; try assumption.
  - unfold eLowT. rewrite Hp, Hdp. ring.
  - unfold wLowT. rewrite Hdp. ring.
  - unfold deLowT. rewrite Hddp. ring.
Qed.

(** the sound speed is dimensionless *)
Lemma csq_invariant_Low s s' T : 0 < T -> 0 < TMinLowT s -> 0 < TMaxLowT s ->
  scaled_Low s s' -> csqLowT e' s' (lam * T) = csqLowT e s T.
Proof.
  intros HT Ha Hb H. use_scaled H. apply (CSQ_scale lam Hlam); assumption.
Qed.

(** *** setExtrapolate computes covariant coefficients *)
Notation a := (tabMinLow e).
Notation b := (tabMaxLow e).

Lemma Low_in e0 s T : TMinLowT s = tabMinLow e0 -> TMaxLowT s = tabMaxLow e0 ->
  tabMinLow e0 <= T <= tabMaxLow e0 ->
  pLowT e0 s T = - (fLow e0) T /\ dpLowT e0 s T = - (dfLow e0) T /\
  ddpLowT e0 s T = - (ddfLow e0) T /\
  csqLowT e0 s T = (- (dfLow e0) T) / (T * - (ddfLow e0) T).
Proof.
  intros E1 E2 [H1 H2].
  assert (p : pLowT e0 s T = - (fLow e0) T).
  { unfold pLowT. rewrite E1, E2. destruct (Rlt_dec T (tabMinLow e0)); [lra|]. destruct (Rlt_dec (tabMaxLow e0) T); [lra|ring]. }
  assert (dp : dpLowT e0 s T = - (dfLow e0) T).
  { unfold dpLowT. rewrite E1, E2. destruct (Rlt_dec T (tabMinLow e0)); [lra|]. destruct (Rlt_dec (tabMaxLow e0) T); [lra|ring]. }
  assert (ddp : ddpLowT e0 s T = - (ddfLow e0) T).
  { unfold ddpLowT. rewrite E1, E2. destruct (Rlt_dec T (tabMinLow e0)); [lra|]. destruct (Rlt_dec (tabMaxLow e0) T); [lra|ring]. }
  repeat split; try assumption.
  unfold csqLowT. rewrite E1, E2. destruct (Rlt_dec T (tabMinLow e0)); [lra|]. destruct (Rlt_dec (tabMaxLow e0) T); [lra|].
  unfold deLowT. rewrite dp, ddp. reflexivity.
Qed.

Section SE.
Variable e0 : env.
Variable s0 : st.
Hypothesis Hab0 : tabMinLow e0 < tabMaxLow e0.
Let S := setExtrapolate e0 s0.
Ltac side_Low := first [lra | unfold S, setExtrapolate; autorewrite with setExtrapolate_db; reflexivity].

Lemma S_range_Low : TMinLowT S = tabMinLow e0 /\ TMaxLowT S = tabMaxLow e0.
Proof. split; side_Low. Qed.
Lemma in_csq_Low s T : TMinLowT s = tabMinLow e0 -> TMaxLowT s = tabMaxLow e0 -> tabMinLow e0 <= T <= tabMaxLow e0 ->
  csqLowT e0 s T = (- (dfLow e0) T) / (T * - (ddfLow e0) T).
Proof. intros E1 E2 HT. apply (Low_in e0 s T E1 E2 HT). Qed.
Lemma in_dp_Low s T : TMinLowT s = tabMinLow e0 -> TMaxLowT s = tabMaxLow e0 -> tabMinLow e0 <= T <= tabMaxLow e0 ->
  dpLowT e0 s T = - (dfLow e0) T.
Proof. intros E1 E2 HT. apply (Low_in e0 s T E1 E2 HT). Qed.
Lemma in_p_Low s T : TMinLowT s = tabMinLow e0 -> TMaxLowT s = tabMaxLow e0 -> tabMinLow e0 <= T <= tabMaxLow e0 ->
  pLowT e0 s T = - (fLow e0) T.
Proof. intros E1 E2 HT. apply (Low_in e0 s T E1 E2 HT). Qed.

Lemma matched_lo_Low : matched (fLow e0) (dfLow e0) (ddfLow e0) (tabMinLow e0) (muMinLowT S) (aMinLowT S) (epsilonMinLowT S).
Proof.
  unfold matched, S, setExtrapolate. autorewrite with setExtrapolate_db. unfold wLowT.
  repeat rewrite in_csq_Low by side_Low. repeat rewrite in_dp_Low by side_Low.
  repeat rewrite in_p_Low by side_Low.
  repeat split; reflexivity.
Qed.
Lemma matched_hi_Low : matched (fLow e0) (dfLow e0) (ddfLow e0) (tabMaxLow e0) (muMaxLowT S) (aMaxLowT S) (epsilonMaxLowT S).
Proof.
  unfold matched, S, setExtrapolate. autorewrite with setExtrapolate_db. unfold wLowT.
  repeat rewrite in_csq_Low by side_Low. repeat rewrite in_dp_Low by side_Low.
  repeat rewrite in_p_Low by side_Low.
  repeat split; reflexivity.
Qed.
End SE.

Hypothesis Hab : a < b.
Hypothesis Ha : 0 < a.

(** whatever the states before the two calls *)
Lemma setExtrapolate_covariant_Low s0 s0' :
  scaled_Low (setExtrapolate e s0) (setExtrapolate e' s0').
Proof.
  assert (Hab' : tabMinLow e' < tabMaxLow e') by (cbn [tabMinLow tabMaxLow scale_env]; nra).
  destruct (S_range_Low e s0) as [Ra Rb]. destruct (S_range_Low e' s0') as [Ra' Rb'].
  pose proof (matched_lo_Low e s0 Hab) as ML. pose proof (matched_hi_Low e s0 Hab) as MH.
  pose proof (matched_lo_Low e' s0' Hab') as ML'. pose proof (matched_hi_Low e' s0' Hab') as MH'.
  apply (matched_scale lam) in ML; [|exact Hlam|exact Ha].
  apply (matched_scale lam) in MH; [|exact Hlam|lra].
  cbn [tabMinLow tabMaxLow fLow dfLow ddfLow scale_env] in ML', MH', Ra', Rb'.
  destruct (matched_unique _ _ _ _ _ _ _ _ _ _ ML ML') as [U1 [U2 U3]].
  destruct (matched_unique _ _ _ _ _ _ _ _ _ _ MH MH') as [V1 [V2 V3]].
  unfold scaled_Low. rewrite Ra, Rb, Ra', Rb'. unfold scA in U2, V2.
  repeat split; assumption.
Qed.
End ThermoLow.

(** ** transition strength alpha(T): dimensionless *)
Lemma alpha_invariant lam e s s' T : 0 < lam -> 0 < T ->
  0 < TMinLowT s -> 0 < TMaxLowT s ->
  scaled_High lam s s' -> scaled_Low lam s s' ->
  alpha (scale_env lam e) s' (lam * T) = alpha e s T.
Proof.
  intros Hl HT Ha Hb HH HL.
  destruct (functions_scale_High lam Hl e s s' T HT HH) as [pH [_ [_ [eH [wH _]]]]].
  destruct (functions_scale_Low lam Hl e s s' T HT HL) as [pL [_ [_ [eL _]]]].
  pose proof (csq_invariant_Low lam Hl e s s' T HT Ha Hb HL) as cL.
  unfold alpha. rewrite pH, pL, eH, eL, wH, cL.
  assert (H4 : lam ^ 4 <> 0) by (apply Rgt_not_eq, pow_lt; exact Hl).
  set (c := csqLowT e s T). set (w := wHighT e s T).
  replace ((lam ^ 4 * eHighT e s T - lam ^ 4 * eLowT e s T -
            (lam ^ 4 * pHighT e s T - lam ^ 4 * pLowT e s T) / c) / 3)
    with (lam ^ 4 * ((eHighT e s T - eLowT e s T - (pHighT e s T - pLowT e s T) / c) / 3))
    by (unfold Rdiv; ring).
  apply div_scale. exact H4.
Qed.

(** after setExtrapolate in both unit systems every EOS function is covariant *)
Lemma thermodynamics_covariant lam e s0 s0' T :
  0 < lam -> 0 < T ->
  0 < tabMinHigh e < tabMaxHigh e -> 0 < tabMinLow e < tabMaxLow e ->
  let S := setExtrapolate e s0 in
  let e' := scale_env lam e in
  let S' := setExtrapolate e' s0' in
  pHighT e' S' (lam * T) = lam ^ 4 * pHighT e S T /\
  dpHighT e' S' (lam * T) = lam ^ 3 * dpHighT e S T /\
  ddpHighT e' S' (lam * T) = lam ^ 2 * ddpHighT e S T /\
  eHighT e' S' (lam * T) = lam ^ 4 * eHighT e S T /\
  wHighT e' S' (lam * T) = lam ^ 4 * wHighT e S T /\
  csqHighT e' S' (lam * T) = csqHighT e S T /\
  pLowT e' S' (lam * T) = lam ^ 4 * pLowT e S T /\
  dpLowT e' S' (lam * T) = lam ^ 3 * dpLowT e S T /\
  ddpLowT e' S' (lam * T) = lam ^ 2 * ddpLowT e S T /\
  eLowT e' S' (lam * T) = lam ^ 4 * eLowT e S T /\
  wLowT e' S' (lam * T) = lam ^ 4 * wLowT e S T /\
  csqLowT e' S' (lam * T) = csqLowT e S T /\
  alpha e' S' (lam * T) = alpha e S T.
Proof.
  intros Hl HT [HaH HabH] [HaL HabL] S e' S'.
  pose proof (setExtrapolate_covariant_High lam Hl e HabH HaH s0 s0') as CH.
  pose proof (setExtrapolate_covariant_Low lam Hl e HabL HaL s0 s0') as CL.
  fold S e' S' in CH, CL.
  destruct (S_range_High e s0) as [RaH RbH]. destruct (S_range_Low e s0) as [RaL RbL].
  fold S in RaH, RbH, RaL, RbL.
  destruct (functions_scale_High lam Hl e S S' T HT CH) as [A1 [A2 [A3 [A4 [A5 _]]]]].
  destruct (functions_scale_Low lam Hl e S S' T HT CL) as [B1 [B2 [B3 [B4 [B5 _]]]]].
  assert (A6 : csqHighT e' S' (lam * T) = csqHighT e S T).
  { apply csq_invariant_High; try assumption; rewrite ?RaH, ?RbH; lra. }
  assert (B6 : csqLowT e' S' (lam * T) = csqLowT e S T).
  { apply csq_invariant_Low; try assumption; rewrite ?RaL, ?RbL; lra. }
  repeat split; try assumption.
  apply alpha_invariant; try assumption; rewrite ?RaL, ?RbL; lra.
Qed.

(* ==================================================================================== *)
(** * Property theorems *)

Theorem equation_of_state_covariant_High : forall lam e s s' T,
  0 < lam -> 0 < T -> scaled_High lam s s' ->
  pHighT (scale_env lam e) s' (lam * T) = lam ^ 4 * pHighT e s T /\
  dpHighT (scale_env lam e) s' (lam * T) = lam ^ 3 * dpHighT e s T /\
  ddpHighT (scale_env lam e) s' (lam * T) = lam ^ 2 * ddpHighT e s T /\
  eHighT (scale_env lam e) s' (lam * T) = lam ^ 4 * eHighT e s T /\
  wHighT (scale_env lam e) s' (lam * T) = lam ^ 4 * wHighT e s T /\
  deHighT (scale_env lam e) s' (lam * T) = lam ^ 3 * deHighT e s T.
Proof. intros lam e s s' T Hl HT H. exact (functions_scale_High lam Hl e s s' T HT H). Qed.
Print Assumptions equation_of_state_covariant_High.

Theorem equation_of_state_covariant_Low : forall lam e s s' T,
  0 < lam -> 0 < T -> scaled_Low lam s s' ->
  pLowT (scale_env lam e) s' (lam * T) = lam ^ 4 * pLowT e s T /\
  dpLowT (scale_env lam e) s' (lam * T) = lam ^ 3 * dpLowT e s T /\
  ddpLowT (scale_env lam e) s' (lam * T) = lam ^ 2 * ddpLowT e s T /\
  eLowT (scale_env lam e) s' (lam * T) = lam ^ 4 * eLowT e s T /\
  wLowT (scale_env lam e) s' (lam * T) = lam ^ 4 * wLowT e s T /\
  deLowT (scale_env lam e) s' (lam * T) = lam ^ 3 * deLowT e s T.
Proof. intros lam e s s' T Hl HT H. exact (functions_scale_Low lam Hl e s s' T HT H). Qed.
Print Assumptions equation_of_state_covariant_Low.

Theorem sound_speed_and_alpha_invariant : forall lam e s s' T,
  0 < lam -> 0 < T ->
  0 < TMinHighT s -> 0 < TMaxHighT s -> 0 < TMinLowT s -> 0 < TMaxLowT s ->
  scaled_High lam s s' -> scaled_Low lam s s' ->
  csqHighT (scale_env lam e) s' (lam * T) = csqHighT e s T /\
  csqLowT (scale_env lam e) s' (lam * T) = csqLowT e s T /\
  alpha (scale_env lam e) s' (lam * T) = alpha e s T.
Proof.
  intros lam e s s' T Hl HT H1 H2 H3 H4 HH HL. repeat split.
  - apply csq_invariant_High; assumption.
  - apply csq_invariant_Low; assumption.
  - apply alpha_invariant; assumption.
Qed.
Print Assumptions sound_speed_and_alpha_invariant.

(** mu invariant, a ~ lam^(4-mu), eps ~ lam^4, range ends ~ lam -- for ANY prior states *)
Theorem setExtrapolate_covariant : forall lam e s0 s0',
  0 < lam -> 0 < tabMinHigh e < tabMaxHigh e -> 0 < tabMinLow e < tabMaxLow e ->
  scaled_High lam (setExtrapolate e s0) (setExtrapolate (scale_env lam e) s0') /\
  scaled_Low lam (setExtrapolate e s0) (setExtrapolate (scale_env lam e) s0').
Proof.
  intros lam e s0 s0' Hl [H1 H2] [H3 H4]. split.
  - apply setExtrapolate_covariant_High; assumption.
  - apply setExtrapolate_covariant_Low; assumption.
Qed.
Print Assumptions setExtrapolate_covariant.

Theorem thermodynamics_covariant_end_to_end : forall lam e s0 s0' T,
  0 < lam -> 0 < T ->
  0 < tabMinHigh e < tabMaxHigh e -> 0 < tabMinLow e < tabMaxLow e ->
  let S := setExtrapolate e s0 in
  let e' := scale_env lam e in
  let S' := setExtrapolate e' s0' in
  pHighT e' S' (lam * T) = lam ^ 4 * pHighT e S T /\
  dpHighT e' S' (lam * T) = lam ^ 3 * dpHighT e S T /\
  ddpHighT e' S' (lam * T) = lam ^ 2 * ddpHighT e S T /\
  eHighT e' S' (lam * T) = lam ^ 4 * eHighT e S T /\
  wHighT e' S' (lam * T) = lam ^ 4 * wHighT e S T /\
  csqHighT e' S' (lam * T) = csqHighT e S T /\
  pLowT e' S' (lam * T) = lam ^ 4 * pLowT e S T /\
  dpLowT e' S' (lam * T) = lam ^ 3 * dpLowT e S T /\
  ddpLowT e' S' (lam * T) = lam ^ 2 * ddpLowT e S T /\
  eLowT e' S' (lam * T) = lam ^ 4 * eLowT e S T /\
  wLowT e' S' (lam * T) = lam ^ 4 * wLowT e S T /\
  csqLowT e' S' (lam * T) = csqLowT e S T /\
  alpha e' S' (lam * T) = alpha e S T.
Proof. exact thermodynamics_covariant. Qed.
Print Assumptions thermodynamics_covariant_end_to_end.

Theorem junction_velocities_invariant : forall lam e Tp Tm,
  0 < lam -> th_eHighT e Tp <> th_eLowT e Tm ->
  hy_vpvmAndvpovm (hy_scale lam e) (lam * Tp) (lam * Tm) = hy_vpvmAndvpovm e Tp Tm.
Proof. exact vpvm_invariant. Qed.
Print Assumptions junction_velocities_invariant.

(** the sentinel (p+ - p-) * 1e50 returned when e+ = e- exactly is a pressure: tolerance
    site "branch" in Hydrodynamics.vpvmAndvpovm *)
Theorem junction_degenerate_branch_scales_like_pressure : forall lam e Tp Tm,
  0 < lam -> th_eHighT e Tp = th_eLowT e Tm ->
  fst (hy_vpvmAndvpovm (hy_scale lam e) (lam * Tp) (lam * Tm)) =
  lam ^ 4 * fst (hy_vpvmAndvpovm e Tp Tm).
Proof. exact vpvm_degenerate_branch_scales. Qed.
Print Assumptions junction_degenerate_branch_scales_like_pressure.

(** HOMOGENEITY of the function whose root findJouguetVelocity looks for, hence equal zero
    sets up to T -> lam T.  This is not invariance of vJ as computed: which root is selected
    (bracket min(max(2Tn, TMaxLowT), TMaxHydro), the +Tnucl loop, the secant and template
    fall-backs) is not modelled; vJ itself is compared by the metamorphic runs only. *)
Theorem jouguet_function_homogeneous : forall lam e tm, 0 < lam ->
  hy_vpDerivNum (hy_scale lam e) (lam * tm) = lam ^ 15 * hy_vpDerivNum e tm /\
  (hy_vpDerivNum (hy_scale lam e) (lam * tm) = 0 <-> hy_vpDerivNum e tm = 0).
Proof.
  intros lam e tm Hl. split; [apply vpDerivNum_scaling | apply jouguet_root_covariant]; exact Hl.
Qed.
Print Assumptions jouguet_function_homogeneous.

Theorem shock_equations_covariant : forall lam e v xi T b, 0 < lam ->
  hy_shockDE_shock (hy_scale lam e) v (xi, lam * T) b =
    (fst (hy_shockDE_shock e v (xi, T) b), lam * snd (hy_shockDE_shock e v (xi, T) b)) /\
  hy_shockDE_rarefaction (hy_scale lam e) v (xi, lam * T) b =
    (fst (hy_shockDE_rarefaction e v (xi, T) b),
     lam * snd (hy_shockDE_rarefaction e v (xi, T) b)).
Proof. exact shockDE_scaling. Qed.
Print Assumptions shock_equations_covariant.

Theorem temperature_window_map_covariant : forall lam e Tp Tm x y, 0 < lam ->
  hy_mappingT (hy_scale lam e) (lam * Tp, lam * Tm) = hy_mappingT e (Tp, Tm) /\
  hy_inverseMappingT (hy_scale lam e) (x, y) =
  (lam * fst (hy_inverseMappingT e (x, y)), lam * snd (hy_inverseMappingT e (x, y))).
Proof.
  intros lam e Tp Tm x y Hl. split;
    [apply mappingT_invariant | apply inverseMappingT_scales]; exact Hl.
Qed.
Print Assumptions temperature_window_map_covariant.

Theorem wall_profile_covariant : forall lam e z vL vH w, 0 < lam ->
  eom_wallProfile (eom_scale lam e) (z / lam) (lam * vL) (lam * vH) w =
  (lam * fst (eom_wallProfile e z vL vH w), lam ^ 2 * snd (eom_wallProfile e z vL vH w)).
Proof. exact wallProfile_scaling. Qed.
Print Assumptions wall_profile_covariant.

Theorem plasma_velocity_invariant : forall lam e phi T s1, 0 < lam ->
  eom_plasmaVelocity (eom_scale lam e) (lam * phi) (lam * T) (lam ^ 4 * s1) =
  eom_plasmaVelocity e phi T s1.
Proof. exact plasmaVelocity_invariant. Qed.
Print Assumptions plasma_velocity_invariant.

Theorem temperature_profile_equation_covariant : forall lam e phi dphi T s1 s2, 0 < lam ->
  eom_temperatureProfileEqLHS (eom_scale lam e) (lam * phi) (lam ^ 2 * dphi) (lam * T)
                              (lam ^ 4 * s1) (lam ^ 4 * s2) =
  lam ^ 4 * eom_temperatureProfileEqLHS e phi dphi T s1 s2.
Proof. exact temperatureProfileEqLHS_scaling. Qed.
Print Assumptions temperature_profile_equation_covariant.

Theorem grid_parameters_covariant : forall lam e s s' tIn tOut L r sm c, 0 < lam ->
  let G := gr_updateParameters e s tIn tOut L r sm c in
  let G' := gr_updateParameters e s' (/ lam * tIn) (/ lam * tOut) (/ lam * L) r sm (/ lam * c) in
  gr_aIn G' = gr_aIn G /\ gr_aOut G' = gr_aOut G /\
  gr_tailLengthInside G' = / lam * gr_tailLengthInside G /\
  gr_tailLengthOutside G' = / lam * gr_tailLengthOutside G /\
  gr_wallThickness G' = / lam * gr_wallThickness G /\
  gr_wallCenter G' = / lam * gr_wallCenter G /\
  gr_ratioPointsWall G' = gr_ratioPointsWall G /\ gr_smoothing G' = gr_smoothing G.
Proof. exact grid_parameters_scaling. Qed.
Print Assumptions grid_parameters_covariant.

Theorem grid_maps_covariant : forall lam e s s' x y w, grid_scaled lam s s' ->
  gr_decompactify e s' x y w =
  (/ lam * fst (fst (gr_decompactify e s x y w)),
   lam * snd (fst (gr_decompactify e s x y w)),
   lam * snd (gr_decompactify e s x y w)).
Proof. exact decompactify_scaling. Qed.
Print Assumptions grid_maps_covariant.

(** non-vacuity: a table satisfying the hypotheses (ideal gas f = -T^4 on [1,2]), and a
    pair of states related by [scaled_High] *)
Example hypotheses_satisfiable :
  let e := {| fHigh := fun T => - T ^ 4; fLow := fun T => - T ^ 4;
              dfHigh := fun T => - 4 * T ^ 3; ddfHigh := fun T => - 12 * T ^ 2;
              dfLow := fun T => - 4 * T ^ 3; ddfLow := fun T => - 12 * T ^ 2;
              tabMaxHigh := 2; tabMinHigh := 1; tabMaxLow := 2; tabMinLow := 1 |} in
  0 < tabMinHigh e < tabMaxHigh e /\ 0 < tabMinLow e < tabMaxLow e /\
  forall s0, scaled_High 2 (setExtrapolate e s0) (setExtrapolate (scale_env 2 e) s0).
Proof.
  intro e.
  assert (H1 : 0 < tabMinHigh e < tabMaxHigh e) by (unfold e; cbn [tabMinHigh tabMaxHigh]; lra).
  assert (H2 : 0 < tabMinLow e < tabMaxLow e) by (unfold e; cbn [tabMinLow tabMaxLow]; lra).
  split; [exact H1|]. split; [exact H2|].
  intro s0. apply setExtrapolate_covariant_High; lra.
Qed.

(* ------------------------------------------------------------------------------------ *)
(** * Absolute tolerances on dimensionful quantities *)

(** An absolute test |x| < tol on a quantity of dimension d <> 0 changes its outcome under
    some change of units, whatever the non-zero value x ... *)
Theorem absolute_tolerance_is_not_covariant : forall (d : Z) tol x,
  (d <> 0)%Z -> 0 < tol -> x <> 0 ->
  exists lam, 0 < lam /\ abs_test tol (Rpower lam (IZR d) * x) <> abs_test tol x.
Proof.
  intros d tol x Hd Ht Hx. apply abs_tolerance_not_covariant; try assumption.
  intro E. apply Hd. apply eq_IZR. exact E.
Qed.
Print Assumptions absolute_tolerance_is_not_covariant.

(** ... while a tolerance multiplied by a scale of the same dimension is covariant *)
Theorem relative_tolerance_is_covariant : forall k tol x s,
  0 < k -> (Rabs (k * x) < tol * (k * s) <-> Rabs x < tol * s).
Proof. exact rel_tolerance_covariant. Qed.
Print Assumptions relative_tolerance_is_covariant.

Import ListNotations.
Local Open Scope string_scope.

(** The REVIEWED list of places where a pure number meets a dimensionful quantity in
    equationOfMotion.py, hydrodynamics.py, hydrodynamicsTemplateModel.py, thermodynamics.py,
    freeEnergy.py, effectivePotential.py, manager.py (dimension analysis of tools/
    gen_units.py; [s_dim] = mass dimension of the quantity).  Each is tolerated today
    because it stays far inside the solver tolerances for unit factors 1e-2 .. 1e2 (measured
    by the metamorphic runs of tools/props/C07.py):
    - pressAbsErrTol = 1e-8: provisional absolute pressure tolerance for the two bracket
      pressures of EOM.solveWall, replaced by a relative one before the root search;
    - (|Tnucl - Tplus| < 1e-10 and xtol=1e-10 in findPlasmaProfilePoint were on this list until
      /repo 12044cf made them relative to Tnucl);
    - xtol=1e-10 / xtol=self.atol (1e-10): absolute x-tolerance of temperature roots, always
      combined with a relative tolerance that dominates for T >> 1e-10;
    - (p+ - p-) * 1e50: sentinel when e+ = e- exactly (see
      junction_degenerate_branch_scales_like_pressure);
    - minimize(tol=tol): scipy's gradient tolerance on Veff(phi) in findLocalMinimum;
    - allclose(atol=1e-05): "are the two phases the same point" in validatePhaseInput;
    - cmp? 1e-06 ~ np.sum(sol.fun ** 2): residual of the matching equations in mapped
      variables (dimension unknown to the naming table: recorded fail-closed, kind "cmp?");
    - scale=1.0 defaults of helpers.derivative/gradient/hessian (pseudo-dimension 1000 = "the
      variable differentiated with respect to"): every caller in WallGo passes scale= (a call
      without it is a site of kind "noscale").
    - notol: Nelder-Mead (wall widths/offsets) and minimize_scalar "Bounded" (matchDeton) calls
      that leave scipy's absolute xatol/fatol defaults in force (exercised by the metamorphic
      runs only).
    Kind "absent" = a dimensionful parameter of a WallGo callable left to a numeric default;
    kind "default" = such a default itself (none today besides helpers' scale=1.0).
    Kinds ending in "?" are places where a float literal or an absolute solver keyword meets
    an expression whose dimension the naming table cannot tell (fail closed). *)
Definition reviewed_sites : list site := [
  mk_site "equationOfMotion.py" "EOM.solveWall" "assign" "pressAbsErrTol = 1e-08" (Some 4%Z) 1;
  mk_site "equationOfMotion.py" "EOM._intermediatePressureResults" "notol" "minimize('Nelder-Mead') without an absolute tolerance keyword" None 1;
  mk_site "hydrodynamics.py" "Hydrodynamics.findJouguetVelocity" "xtol" "root_scalar(xtol=self.atol)" (Some 1%Z) 2;
  mk_site "hydrodynamics.py" "Hydrodynamics.vpvmAndvpovm" "branch" "(pHighT - pLowT) / (eHighT - eLowT)" (Some 4%Z) 1;
  mk_site "hydrodynamics.py" "Hydrodynamics.matchDeton" "notol" "minimize_scalar('Bounded') without an absolute tolerance keyword" (Some 1%Z) 1;
  mk_site "hydrodynamics.py" "Hydrodynamics.matchDeton" "xtol" "root_scalar(xtol=self.atol)" (Some 1%Z) 1;
  mk_site "hydrodynamics.py" "Hydrodynamics.matchDeflagOrHyb" "cmp?" "1e-06 ~ np.sum(sol.fun ** 2)" None 1;
  mk_site "hydrodynamics.py" "Hydrodynamics.solveHydroShock" "xtol" "root_scalar(xtol=self.atol)" (Some 1%Z) 2;
  mk_site "hydrodynamics.py" "Hydrodynamics.strongestShock" "xtol" "root_scalar(xtol=self.atol)" (Some 1%Z) 1;
  mk_site "effectivePotential.py" "EffectivePotential.findLocalMinimum" "xtol" "minimize(tol=tol)" (Some 1%Z) 1;
  mk_site "manager.py" "WallGoManager.validatePhaseInput" "xtol" "allclose(atol=1e-05)" (Some 1%Z) 1;
  mk_site "helpers.py" "derivative" "default" "scale=1.0" (Some 1000%Z) 1;
  mk_site "helpers.py" "gradient" "default" "scale=1.0" (Some 1000%Z) 1;
  mk_site "helpers.py" "hessian" "default" "scale=1.0" (Some 1000%Z) 1
].

(** the sites found in the CURRENT sources are exactly the reviewed ones: a new absolute
    tolerance on a dimensionful quantity, or a lost / added unit conversion (a bound, an
    argument or a stored value whose dimension no longer matches), changes [sites] *)
Theorem tolerance_sites_are_the_reviewed_ones : sites = reviewed_sites.
Proof. vm_compute. reflexivity. Qed.
Print Assumptions tolerance_sites_are_the_reviewed_ones.

(** every reviewed site concerns a quantity of non-zero dimension, so by
    [absolute_tolerance_is_not_covariant] none of them is covariant *)
Theorem reviewed_sites_are_dimensionful :
  Forall (fun s => match s_dim s with Some d => d <> 0%Z | None => True end) reviewed_sites.
Proof. repeat constructor; try discriminate. Qed.
Print Assumptions reviewed_sites_are_dimensionful.

(** Every input of every entry point of WallGoManager (setupThermodynamicsHydrodynamics:
    phaseInfo, veffDerivativeScales; solveWall/setupWallSolver: wallSolverSettings; buildGrid,
    buildEOM: the lengths in units of 1/Tnucl; ...) is consumed on EVERY call, not only when
    some earlier state allows it -- otherwise unit-carrying inputs of an earlier call (variation
    scales, hence finite-difference steps, tracer step and margins) would survive a change of
    units of the same objects.  [flows] is extracted from the AST of manager.py on this run. *)
Theorem every_manager_input_is_consumed_on_every_call :
  Forall (fun f => f_always f = true) flows.
Proof. repeat constructor. Qed.
Print Assumptions every_manager_input_is_consumed_on_every_call.

Theorem manager_inputs_are_recorded : (List.length flows >= 10)%nat /\
  existsb (fun f => (String.eqb (f_fun f) "setupThermodynamicsHydrodynamics" &&
                     String.eqb (f_param f) "veffDerivativeScales")%bool) flows = true.
Proof. split; [vm_compute; repeat constructor | vm_compute; reflexivity]. Qed.
Print Assumptions manager_inputs_are_recorded.

(** State that the wall-solving entry points (setupWallSolver, solveWall, solveWallDetonation,
    wallSpeedLTE, buildGrid, buildEOM and what they call) store on the manager and read back
    must be rebuilt by setupThermodynamicsHydrodynamics (or a method it calls): a cache that
    survives a new set-up keeps the thermodynamics, Tnucl and units of the previous one.
    [solver_state] is extracted from the AST of manager.py on this run (today: empty). *)
Theorem solver_state_is_rebuilt_by_setup :
  Forall (fun a => implb (c_read a) (c_rebuilt a) = true) solver_state.
Proof. repeat constructor. Qed.
Print Assumptions solver_state_is_rebuilt_by_setup.

(** Numeric DEFAULTS that carry or hide a unit (every field of the config.py dataclasses, every
    defaulted tolerance / step / scale parameter of the analysed modules): the justification of
    the tolerated sites ("dominated by the relative tolerance", "far inside the solver
    tolerance") depends on these NUMBERS, so they are pinned to the reviewed values. *)
Definition reviewed_default_values : list (string * (string * string)) := [
  ("equationOfMotion.py:__init__", ("errTol", "0.001"));
  ("equationOfMotion.py:__init__", ("pressRelErrTol", "0.3679"));
  ("equationOfMotion.py:findWallVelocityDetonation", ("rtol", "0.01"));
  ("hydrodynamicsTemplateModel.py:__init__", ("rtol", "1e-06"));
  ("hydrodynamicsTemplateModel.py:__init__", ("atol", "1e-10"));
  ("thermodynamics.py:findCriticalTemperature", ("rTol", "1e-06"));
  ("freeEnergy.py:tracePhase", ("rTol", "1e-06"));
  ("helpers.py:derivative", ("epsilon", "1e-16"));
  ("helpers.py:derivative", ("scale", "1.0"));
  ("helpers.py:gradient", ("epsilon", "1e-16"));
  ("helpers.py:gradient", ("scale", "1.0"));
  ("helpers.py:hessian", ("epsilon", "1e-16"));
  ("helpers.py:hessian", ("scale", "1.0"));
  ("config.py:ConfigGrid", ("spatialGridSize", "40"));
  ("config.py:ConfigGrid", ("momentumGridSize", "11"));
  ("config.py:ConfigGrid", ("ratioPointsWall", "0.5"));
  ("config.py:ConfigGrid", ("smoothing", "0.1"));
  ("config.py:ConfigEOM", ("errTol", "0.001"));
  ("config.py:ConfigEOM", ("pressRelErrTol", "0.1"));
  ("config.py:ConfigEOM", ("maxIterations", "20"));
  ("config.py:ConfigEOM", ("conserveEnergyMomentum", "True"));
  ("config.py:ConfigEOM", ("wallThicknessBounds", "field(default_factory=lambda: [0.1, 100.0])"));
  ("config.py:ConfigEOM", ("wallOffsetBounds", "field(default_factory=lambda: [-10.0, 10.0])"));
  ("config.py:ConfigEOM", ("vwMaxDeton", "0.99"));
  ("config.py:ConfigEOM", ("nbrPointsMinDeton", "5"));
  ("config.py:ConfigEOM", ("nbrPointsMaxDeton", "20"));
  ("config.py:ConfigEOM", ("overshootProbDeton", "0.05"));
  ("config.py:ConfigHydrodynamics", ("tmin", "0.01"));
  ("config.py:ConfigHydrodynamics", ("tmax", "10.0"));
  ("config.py:ConfigHydrodynamics", ("relativeTol", "1e-06"));
  ("config.py:ConfigHydrodynamics", ("absoluteTol", "1e-10"));
  ("config.py:ConfigThermodynamics", ("tmin", "0.8"));
  ("config.py:ConfigThermodynamics", ("tmax", "1.2"));
  ("config.py:ConfigThermodynamics", ("phaseTracerTol", "1e-06"));
  ("config.py:ConfigThermodynamics", ("phaseTracerFirstStep", "None"));
  ("config.py:ConfigBoltzmannSolver", ("basisM", "'Cardinal'"));
  ("config.py:ConfigBoltzmannSolver", ("basisN", "'Chebyshev'"));
  ("config.py:ConfigBoltzmannSolver", ("collisionMultiplier", "1.0"));
  ("config.py:Config", ("configGrid", "field(default_factory=lambda: ConfigGrid())"));
  ("config.py:Config", ("configEOM", "field(default_factory=lambda: ConfigEOM())"));
  ("config.py:Config", ("configHydrodynamics", "field(default_factory=lambda: ConfigHydrodynamics())"));
  ("config.py:Config", ("configThermodynamics", "field(default_factory=lambda: ConfigThermodynamics())"));
  ("config.py:Config", ("configBoltzmannSolver", "field(default_factory=lambda: ConfigBoltzmannSolver())"));
  ("interpolatableFunction.py:derivative", ("epsilon", "1e-16"));
  ("interpolatableFunction.py:derivative", ("scale", "1.0"))
].
Theorem default_values_are_the_reviewed_ones : default_values = reviewed_default_values.
Proof. vm_compute. reflexivity. Qed.
Print Assumptions default_values_are_the_reviewed_ones.

(** The entry points the input-flow and cache-invalidation facts are computed over: a renamed
    or new method of WallGoManager must be looked at (the extractor itself fails closed when
    one of its root entry points is missing). *)
Definition reviewed_manager_methods : list string := ["__init__"; "getMomentumGridSize"; "setVerbosity"; "setupThermodynamicsHydrodynamics"; "isModelValid"; "registerModel"; "validatePhaseInput"; "initTemperatureRange"; "setPathToCollisionData"; "getCurrentCollisionDirectory"; "wallSpeedLTE"; "solveWall"; "solveWallDetonation"; "setupWallSolver"; "_initHydrodynamics"; "buildGrid"; "buildEOM"].
Theorem manager_methods_are_the_reviewed_ones : manager_methods = reviewed_manager_methods.
Proof. vm_compute. reflexivity. Qed.
Print Assumptions manager_methods_are_the_reviewed_ones.
