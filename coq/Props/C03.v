(** C03 -- the matched flow reaches the nucleation temperature ahead of the wall; the detonation
    front is undisturbed; the efficiency factor is the kinetic-energy integral of that flow.

    Every statement is about definitions GENERATED on this run from
    src/WallGo/hydrodynamics.py (shockDE, the closures shock / TiiShock and the three-way
    choice of the shock-front state in solveHydroShock, the kappa integrands and prefactors of
    efficiencyFactor, the head of matchDeton), hydrodynamicsTemplateModel.py (_dxiAndWdv) and
    helpers.py (gammaSq, boostVelocity)  -- module GenC03.HydroShock.
    The equation of state (csqHighT e, wHighT e, pHighT e, ...) is arbitrary (fields of `env`).
    External numerics, NOT modelled: solve_ivp follows shockDE (its last point enters as the
    parameters ivpV ivpXi ivpT of frontState), root_scalar returns a zero of TiiShock, Simpson
    integrates the sampled profile.  They are validated at run time by an independent
    integrator written in xi (tools/props/C03.py). *)
From Coq Require Import Reals Lra.
From WG Require Import Lib.NumpySem Lib.HydroShock.
From GenC03 Require Import HydroShock.
Local Open Scope R_scope.

(** ** helpers: Lorentz factor and velocity addition *)
Lemma gammaSq_is_gam2 v : gammaSq v = gam2 v.
Proof. unfold gammaSq, gam2. try reflexivity; f_equal; ring. Qed.
Lemma boostVelocity_is_mu xi v : boostVelocity xi v = mu xi v.
Proof. unfold boostVelocity, mu. try reflexivity; f_equal; ring. Qed.

(** ** the ODE integrated by the code is the self-similar flow *)
Lemma shockDE_shock_value e v xi T :
  v <> 0 -> csqHighT e T <> 0 -> 1 - v * v <> 0 -> 1 - xi * v <> 0 ->
  shockDE e v (xi, T) true = (dxi_dv (csqHighT e T) xi v, dT_dv T xi v).
Proof.
  intros. unfold shockDE, dxi_dv, dT_dv. cbv zeta. cbv iota beta.
  unfold gammaSq, boostVelocity, gam2, mu.
  f_equal; field; repeat split; assumption.
Qed.

Lemma shockDE_rarefaction_value e v xi T :
  v <> 0 -> csqLowT e T <> 0 -> 1 - v * v <> 0 -> 1 - xi * v <> 0 ->
  shockDE e v (xi, T) false = (dxi_dv (csqLowT e T) xi v, dT_dv T xi v).
Proof.
  intros. unfold shockDE, dxi_dv, dT_dv. cbv zeta. cbv iota beta.
  unfold gammaSq, boostVelocity, gam2, mu.
  f_equal; field; repeat split; assumption.
Qed.

Section Similarity.
Variable e : env.
Variables v xi T : R.
Hypothesis HT : 0 < T.                       (* the guard `if T <= 0: raise` of shockDE *)
Hypothesis Hv : 0 < v < 1.
Hypothesis Hxi : 0 < xi < 1.

Let nz1 : v <> 0. Proof. lra. Qed.
Let nz2 : 1 - v * v <> 0. Proof. nra. Qed.
Let nz3 : 1 - xi * v <> 0. Proof. nra. Qed.
Let nz4 : 1 - v * xi <> 0. Proof. nra. Qed.

(** generic statement for either wave: w and cs2 of the phase the wave lives in *)
Lemma similarity_generic (w cs2 : R) (b : bool) :
  w <> 0 -> cs2 <> 0 ->
  shockDE e v (xi, T) b = (dxi_dv cs2 xi v, dT_dv T xi v) ->
  let X := fst (shockDE e v (xi, T) b) in
  let Y := snd (shockDE e v (xi, T) b) in
  (exists E P, v_laws w cs2 T xi v X Y E P) /\
  (forall X' Y' E P, v_laws w cs2 T xi v X' Y' E P -> X' = X /\ Y' = Y) /\
  (X <> 0 ->
     (exists de dp, xi_laws w cs2 T xi v (1 / X) (Y / X) de dp) /\
     (forall dv dT de dp, xi_laws w cs2 T xi v dv dT de dp -> dv <> 0 ->
        dv = 1 / X /\ dT = Y / X)).
Proof.
  intros Hw Hc Hval X Y. subst X Y. rewrite Hval. cbn [fst snd].
  assert (HT' : T <> 0) by lra. assert (Hx' : xi <> 0) by lra.
  split; [|split].
  - eexists. eexists. apply v_laws_solution; assumption.
  - intros X' Y' E P HL.
    destruct (v_laws_unique w cs2 T xi v Hw Hc HT' Hx' nz1 nz2 nz4 X' Y' E P HL) as (A & B & _).
    split; assumption.
  - intro HX. split.
    + eexists. eexists. apply xi_laws_solution; assumption.
    + intros dv dT de dp HL Hdv.
      destruct (xi_laws_unique w cs2 T xi v Hw Hc HT' Hx' nz1 nz2 nz4 dv dT de dp HL Hdv)
        as (A & B).
      split.
      * rewrite <- A. field. assumption.
      * rewrite <- A, <- B. field. assumption.
Qed.
End Similarity.

(** ** shock front: position, state, crossing *)
Lemma shock_zero_iff e v xi T :
  shock e v (xi, T) = 0 <-> mu xi v * xi = csqHighT e T.
Proof. unfold shock, boostVelocity, mu. cbv iota beta. split; intro; lra. Qed.

Lemma shock_kappa_same e v xiT : shock_kappa e v xiT = shock e v xiT.
Proof. destruct xiT as [xi T]. unfold shock_kappa, shock. cbv iota beta. ring. Qed.

(** the state from which the front is crossed: three cases of solveHydroShock *)
Lemma frontState_cases e vw vp Tp ivpV ivpXi ivpT :
  let v0 := mu vw vp in
  (0 < mu vw v0 * vw - csqHighT e Tp ->
     frontState e vw vp Tp ivpV ivpXi ivpT = (v0, vw, Tp)) /\
  (~ 0 < mu vw v0 * vw - csqHighT e Tp -> vw = vp ->
     frontState e vw vp Tp ivpV ivpXi ivpT = (0, sqrt (csqHighT e Tp), Tp)) /\
  (~ 0 < mu vw v0 * vw - csqHighT e Tp -> vw <> vp ->
     frontState e vw vp Tp ivpV ivpXi ivpT = (ivpV, ivpXi, ivpT)).
Proof.
  intro v0. unfold frontState, shock. cbv zeta. cbv iota beta.
  unfold v0, boostVelocity, mu in *.
  repeat split; intros;
    repeat match goal with |- context [Rlt_dec ?x ?y] => destruct (Rlt_dec x y) end;
    repeat match goal with |- context [Req_EM_T ?x ?y] => destruct (Req_EM_T x y) end;
    try reflexivity; try contradiction; try (exfalso; lra).
Qed.

(** plasma at rest in front of the wall (vw = v+): the front sits at the sound speed and the
    front condition holds there *)
Lemma frontState_rest_on_front e Tp :
  0 <= csqHighT e Tp ->
  shock e 0 (sqrt (csqHighT e Tp), Tp) = 0.
Proof.
  intro H. apply shock_zero_iff. unfold mu.
  replace ((sqrt (csqHighT e Tp) - 0) / (1 - sqrt (csqHighT e Tp) * 0)) with
      (sqrt (csqHighT e Tp)) by (field; lra).
  apply sqrt_sqrt. assumption.
Qed.

(** the residual handed to the root finder vanishes exactly when the energy flux is continuous
    across the front, the fluid ahead being at rest in the plasma frame (velocity xi in the
    front frame) at temperature tn *)
Lemma TiiShock_zero_iff e vm xi Tm tn :
  1 - xi * xi <> 0 ->
  (TiiShock e vm xi Tm tn = 0 <->
   energy_flux (wHighT e tn) xi = energy_flux (wHighT e Tm) (mu xi vm)).
Proof.
  intro H. unfold TiiShock, energy_flux.
  unfold gammaSq, boostVelocity, mu, gam2.
  assert (E : wHighT e tn * xi / (1 - xi ^ 2) = wHighT e tn * (1 / (1 - xi * xi)) * xi)
    by (field; intro A; apply H; lra).
  rewrite E. split; intro; lra.
Qed.

(** constant sound speed ahead of the wall: momentum flux is continuous too *)
Lemma shock_momentum e vm xi Tm tn :
  0 < xi < 1 -> 0 < mu xi vm < 1 ->
  shock e vm (xi, Tm) = 0 ->
  TiiShock e vm xi Tm tn = 0 ->
  pHighT e Tm - pHighT e tn =
    csqHighT e Tm * ((wHighT e Tm - pHighT e Tm) - (wHighT e tn - pHighT e tn)) ->
  momentum_flux (wHighT e tn) (pHighT e tn) xi =
  momentum_flux (wHighT e Tm) (pHighT e Tm) (mu xi vm).
Proof.
  intros Hxi Hmu Hs Ht Hcs.
  apply shock_zero_iff in Hs. apply TiiShock_zero_iff in Ht; [|nra].
  apply junction_momentum_from_energy;
    [nra | nra | lra | lra | nra | exact Ht | rewrite Hcs, <- Hs; ring].
Qed.

(** at rest: the temperature ahead of the front has the enthalpy of the wall value *)
Lemma TiiShock_rest e cs Tp tn :
  0 < cs < 1 -> (TiiShock e 0 cs Tp tn = 0 <-> wHighT e tn = wHighT e Tp).
Proof.
  intro H. rewrite TiiShock_zero_iff by nra. unfold energy_flux, mu.
  replace ((cs - 0) / (1 - cs * 0)) with cs by (field; lra).
  assert (G : 0 < gam2 cs) by (apply gam2_pos; lra).
  split; intro A.
  - apply Rmult_eq_reg_r with (gam2 cs * cs); [lra|nra].
  - rewrite A. ring.
Qed.

(** ** detonations *)
Lemma matchDeton_front_value e vw : matchDeton_front e vw = (vw, Tnucl e).
Proof. unfold matchDeton_front. cbv zeta. try reflexivity; f_equal; ring. Qed.

(** ** efficiency factor *)
Lemma kappa_parts e vw xi v T I :
  vw <> 0 -> wHighT e (Tnucl e) <> 0 -> alN e <> 0 ->
  kappaSW_integrand e xi v (kappaSW_enthalpy e T) = xi ^ 2 * v ^ 2 * gam2 v * wHighT e T /\
  kappaRW_integrand e xi v (kappaRW_enthalpy e T) = xi ^ 2 * v ^ 2 * gam2 v * wLowT e T /\
  kappaSW_of e vw I = 4 / (vw ^ 3 * alN e * wHighT e (Tnucl e)) * I /\
  kappaRW_of e vw I = - (4 / (vw ^ 3 * alN e * wHighT e (Tnucl e)) * I).
Proof.
  intros. unfold kappaSW_integrand, kappaRW_integrand, kappaSW_enthalpy, kappaRW_enthalpy,
    kappaSW_of, kappaRW_of, gammaSq, gam2.
  repeat split; try ring; field; repeat split; assumption.
Qed.

(** ** template model: the same flow in the variables (xi, w) *)
Lemma template_flow_is_general_flow (te : t_env) v xi w (b : bool) T X Y E P :
  let cs2 := if b then t_cs2 te else t_cb2 te in
  v <> 0 -> cs2 <> 0 -> w <> 0 -> T <> 0 -> xi <> 0 -> 1 - v * v <> 0 -> 1 - v * xi <> 0 ->
  v_laws w cs2 T xi v X Y E P ->
  t_dxiAndWdv te v (xi, w) b = (X, E + P).
Proof.
  intros cs2 Hv Hc Hw HT Hxi Hg Hd HL.
  pose proof (v_laws_enthalpy _ _ _ _ _ _ _ _ _ Hc HL Hd Hg) as HW.
  destruct (v_laws_unique w cs2 T xi v Hw Hc HT Hxi Hv Hg Hd X Y E P HL) as (HX & _).
  rewrite HW, HX. unfold t_dxiAndWdv, dxi_dv, gam2, mu. cbv zeta. cbv iota beta.
  assert (Hd' : 1 - xi * v <> 0) by (intro A; apply Hd; lra).
  assert (Hg' : 1 - v ^ 2 <> 0) by (intro A; apply Hg; lra).
  subst cs2. destruct b;
    (destruct (Req_EM_T v 0); [contradiction|]); cbn [negb];
    f_equal; field; repeat split; assumption.
Qed.

(** * Property theorems *)

(** shock wave: (dxi/dv, dT/dv) returned by shockDE is THE solution of the conservation laws
    of the self-similar flow -- in the v-parametrised form and, away from the sonic point,
    in the xi-parametrised form integrated by the independent oracle *)
Theorem shockDE_is_similarity_flow : forall e v xi T,
  0 < T -> 0 < v < 1 -> 0 < xi < 1 -> wHighT e T <> 0 -> csqHighT e T <> 0 ->
  let w := wHighT e T in let cs2 := csqHighT e T in
  let X := fst (shockDE e v (xi, T) true) in
  let Y := snd (shockDE e v (xi, T) true) in
  (exists E P, v_laws w cs2 T xi v X Y E P) /\
  (forall X' Y' E P, v_laws w cs2 T xi v X' Y' E P -> X' = X /\ Y' = Y) /\
  (X <> 0 ->
     (exists de dp, xi_laws w cs2 T xi v (1 / X) (Y / X) de dp) /\
     (forall dv dT de dp, xi_laws w cs2 T xi v dv dT de dp -> dv <> 0 ->
        dv = 1 / X /\ dT = Y / X)).
Proof.
  intros e v xi T HT Hv Hxi Hw Hc. apply similarity_generic; try assumption.
  apply shockDE_shock_value; try assumption; nra.
Qed.
Print Assumptions shockDE_is_similarity_flow.

Theorem shockDE_rarefaction_is_similarity_flow : forall e v xi T,
  0 < T -> 0 < v < 1 -> 0 < xi < 1 -> wLowT e T <> 0 -> csqLowT e T <> 0 ->
  let w := wLowT e T in let cs2 := csqLowT e T in
  let X := fst (shockDE e v (xi, T) false) in
  let Y := snd (shockDE e v (xi, T) false) in
  (exists E P, v_laws w cs2 T xi v X Y E P) /\
  (forall X' Y' E P, v_laws w cs2 T xi v X' Y' E P -> X' = X /\ Y' = Y) /\
  (X <> 0 ->
     (exists de dp, xi_laws w cs2 T xi v (1 / X) (Y / X) de dp) /\
     (forall dv dT de dp, xi_laws w cs2 T xi v dv dT de dp -> dv <> 0 ->
        dv = 1 / X /\ dT = Y / X)).
Proof.
  intros e v xi T HT Hv Hxi Hw Hc. apply similarity_generic; try assumption.
  apply shockDE_rarefaction_value; try assumption; nra.
Qed.
Print Assumptions shockDE_rarefaction_is_similarity_flow.

Theorem template_shock_equal : forall (te : t_env) v xi w (b : bool) T X Y E P,
  let cs2 := if b then t_cs2 te else t_cb2 te in
  v <> 0 -> cs2 <> 0 -> w <> 0 -> T <> 0 -> xi <> 0 -> 1 - v * v <> 0 -> 1 - v * xi <> 0 ->
  v_laws w cs2 T xi v X Y E P ->
  t_dxiAndWdv te v (xi, w) b = (X, E + P).
Proof. exact template_flow_is_general_flow. Qed.
Print Assumptions template_shock_equal.

(** the integration stops where mu(xi,v) xi = cs^2(T) with the LOCAL temperature, in
    solveHydroShock and in efficiencyFactor alike *)
Theorem shock_front_condition : forall e v xi T,
  (shock e v (xi, T) = 0 <-> mu xi v * xi = csqHighT e T) /\
  shock_kappa e v (xi, T) = shock e v (xi, T).
Proof. intros. split; [apply shock_zero_iff|apply shock_kappa_same]. Qed.
Print Assumptions shock_front_condition.

Theorem shock_front_state : forall e vw vp Tp ivpV ivpXi ivpT,
  let v0 := mu vw vp in
  (0 < mu vw v0 * vw - csqHighT e Tp ->
     frontState e vw vp Tp ivpV ivpXi ivpT = (v0, vw, Tp)) /\
  (~ 0 < mu vw v0 * vw - csqHighT e Tp -> vw = vp ->
     frontState e vw vp Tp ivpV ivpXi ivpT = (0, sqrt (csqHighT e Tp), Tp) /\
     (0 <= csqHighT e Tp -> shock e 0 (sqrt (csqHighT e Tp), Tp) = 0)) /\
  (~ 0 < mu vw v0 * vw - csqHighT e Tp -> vw <> vp ->
     frontState e vw vp Tp ivpV ivpXi ivpT = (ivpV, ivpXi, ivpT)).
Proof.
  intros. destruct (frontState_cases e vw vp Tp ivpV ivpXi ivpT) as (A & B & C).
  repeat split; auto. intros; apply frontState_rest_on_front; assumption.
Qed.
Print Assumptions shock_front_state.

(** crossing the front: root of TiiShock <=> energy flux continuous into plasma at rest at tn *)
Theorem shock_energy_flux : forall e vm xi Tm tn,
  1 - xi * xi <> 0 ->
  (TiiShock e vm xi Tm tn = 0 <->
   energy_flux (wHighT e tn) xi = energy_flux (wHighT e Tm) (mu xi vm)).
Proof. exact TiiShock_zero_iff. Qed.
Print Assumptions shock_energy_flux.

Theorem shock_momentum_const_cs : forall e vm xi Tm tn,
  0 < xi < 1 -> 0 < mu xi vm < 1 ->
  shock e vm (xi, Tm) = 0 ->
  TiiShock e vm xi Tm tn = 0 ->
  pHighT e Tm - pHighT e tn =
    csqHighT e Tm * ((wHighT e Tm - pHighT e Tm) - (wHighT e tn - pHighT e tn)) ->
  momentum_flux (wHighT e tn) (pHighT e tn) xi =
  momentum_flux (wHighT e Tm) (pHighT e Tm) (mu xi vm).
Proof. exact shock_momentum. Qed.
Print Assumptions shock_momentum_const_cs.

Theorem shock_rest_frame : forall e cs Tp tn,
  0 < cs < 1 -> (TiiShock e 0 cs Tp tn = 0 <-> wHighT e tn = wHighT e Tp).
Proof. exact TiiShock_rest. Qed.
Print Assumptions shock_rest_frame.

Theorem deton_front_undisturbed : forall e vw, matchDeton_front e vw = (vw, Tnucl e).
Proof. exact matchDeton_front_value. Qed.
Print Assumptions deton_front_undisturbed.

Theorem kappa_integrand : forall e vw xi v T I,
  vw <> 0 -> wHighT e (Tnucl e) <> 0 -> alN e <> 0 ->
  kappaSW_integrand e xi v (kappaSW_enthalpy e T) = xi ^ 2 * v ^ 2 * gam2 v * wHighT e T /\
  kappaRW_integrand e xi v (kappaRW_enthalpy e T) = xi ^ 2 * v ^ 2 * gam2 v * wLowT e T /\
  kappaSW_of e vw I = 4 / (vw ^ 3 * alN e * wHighT e (Tnucl e)) * I /\
  kappaRW_of e vw I = - (4 / (vw ^ 3 * alN e * wHighT e (Tnucl e)) * I).
Proof. exact kappa_parts. Qed.
Print Assumptions kappa_integrand.

(** ** efficiency factor: which waves are integrated, and from which state *)
Lemma kappaPlan_cases e vw vp vm Tp Tm :
  let P := kappaPlan e vw vp vm Tp Tm in
  (vw < vJ e -> shock_kappa e (mu vw vp) (vw, Tp) < 0 -> vw <> vp ->
     fst P = (1, mu vw vp, vw, Tp)) /\
  (~ (vw < vJ e /\ shock_kappa e (mu vw vp) (vw, Tp) < 0 /\ vw <> vp) ->
     fst P = (0, 0, 0, 0)) /\
  (csqLowT e Tm < vw ^ 2 -> snd P = (1, mu vw vm, vw, Tm)) /\
  (~ csqLowT e Tm < vw ^ 2 -> snd P = (0, 0, 0, 0)).
Proof.
  intro P. subst P. unfold kappaPlan. cbv zeta.
  unfold boostVelocity, mu in *.
  repeat split; intros;
    repeat match goal with |- context [Rlt_dec ?x ?y] => destruct (Rlt_dec x y) end;
    repeat match goal with |- context [Req_EM_T ?x ?y] => destruct (Req_EM_T x y) end;
    cbn [andb negb fst snd]; try reflexivity; try contradiction; try (exfalso; lra);
    try (exfalso; tauto).
Qed.

(** ** the residual whose zero findMatching returns *)
Lemma shootResidual_value e vw vp :
  shootResidual e vw vp = shockTn e vw vp (snd (fst (matchAt e vw vp))) - Tnucl e.
Proof.
  unfold shootResidual. destruct (matchAt e vw vp) as [[[a b] c] d]. cbn [fst snd]. ring.
Qed.

(** * Property theorems (continued) *)

Theorem kappa_plan : forall e vw vp vm Tp Tm,
  let P := kappaPlan e vw vp vm Tp Tm in
  (vw < vJ e -> shock_kappa e (mu vw vp) (vw, Tp) < 0 -> vw <> vp ->
     fst P = (1, mu vw vp, vw, Tp)) /\
  (~ (vw < vJ e /\ shock_kappa e (mu vw vp) (vw, Tp) < 0 /\ vw <> vp) ->
     fst P = (0, 0, 0, 0)) /\
  (csqLowT e Tm < vw ^ 2 -> snd P = (1, mu vw vm, vw, Tm)) /\
  (~ csqLowT e Tm < vw ^ 2 -> snd P = (0, 0, 0, 0)).
Proof. exact kappaPlan_cases. Qed.
Print Assumptions kappa_plan.

(** COMPOSITION.  The deflagration/hybrid branch of findMatching returns
    matchDeflagOrHyb(vw, v+) with v+ a zero of the generated `shootResidual` (structural fact of
    the generator + this definition).  If (A1) solve_ivp followed the generated shockDE from the
    wall state (mu vw v+, vw, T+) down to the terminal event, (A2) root_scalar returned a zero of
    the generated TiiShock for the generated front state, then the profile obeys the
    conservation laws of a self-similar flow at every point, ends on the shock front
    mu(xi,v) xi = cs^2(T), and the energy flux is continuous there into plasma at rest at
    exactly the nucleation temperature of the solver: the returned matching reaches Tn.
    xiF, TF : the profile (xi(v), T(v)) produced by the integrator; vS its last velocity. *)
Theorem returned_matching_reaches_Tn : forall e vw vp (xiF TF : R -> R) vS,
  let Tp := snd (fst (matchAt e vw vp)) in
  let v0 := mu vw vp in
  shootResidual e vw vp = 0 ->
  ~ 0 < mu vw v0 * vw - csqHighT e Tp -> vw <> vp ->
  0 < vS <= v0 -> v0 < 1 ->
  xiF v0 = vw -> TF v0 = Tp ->
  (forall v, vS <= v <= v0 ->
     0 < TF v /\ 0 < xiF v < 1 /\ wHighT e (TF v) <> 0 /\ csqHighT e (TF v) <> 0 /\
     derivable_pt_lim xiF v (fst (shockDE e v (xiF v, TF v) true)) /\
     derivable_pt_lim TF v (snd (shockDE e v (xiF v, TF v) true))) ->
  shock e vS (xiF vS, TF vS) = 0 ->
  (forall vm xi Tm, frontState e vw vp Tp vS (xiF vS) (TF vS) = (vm, xi, Tm) ->
     TiiShock e vm xi Tm (shockTn e vw vp Tp) = 0) ->
  (forall v, vS <= v <= v0 -> exists X Y E P,
      derivable_pt_lim xiF v X /\ derivable_pt_lim TF v Y /\
      v_laws (wHighT e (TF v)) (csqHighT e (TF v)) (TF v) (xiF v) v X Y E P) /\
  mu (xiF vS) vS * xiF vS = csqHighT e (TF vS) /\
  energy_flux (wHighT e (Tnucl e)) (xiF vS) =
  energy_flux (wHighT e (TF vS)) (mu (xiF vS) vS) /\
  (* the profile is the one that starts from the RETURNED state: fluid velocity mu vw v+ in the
     frame of the bubble centre at the wall position xi = vw with T = T+ *)
  (xiF (mu vw vp), TF (mu vw vp)) = (vw, snd (fst (matchAt e vw vp))).
Proof.
  intros e vw vp xiF TF vS Tp v0 Hroot Hbr Hne HvS Hv0 Hx0 HT0 Hode Hev Htii.
  assert (Hstart : (xiF (mu vw vp), TF (mu vw vp)) = (vw, snd (fst (matchAt e vw vp)))).
  { fold v0 Tp. rewrite Hx0, HT0. reflexivity. }
  cut ((forall v, vS <= v <= v0 -> exists X Y E P,
          derivable_pt_lim xiF v X /\ derivable_pt_lim TF v Y /\
          v_laws (wHighT e (TF v)) (csqHighT e (TF v)) (TF v) (xiF v) v X Y E P) /\
       mu (xiF vS) vS * xiF vS = csqHighT e (TF vS) /\
       energy_flux (wHighT e (Tnucl e)) (xiF vS) =
       energy_flux (wHighT e (TF vS)) (mu (xiF vS) vS)).
  { intros (A & B & C). repeat split; assumption. }
  assert (HTn : shockTn e vw vp Tp = Tnucl e).
  { rewrite shootResidual_value in Hroot. fold Tp in Hroot. lra. }
  split; [|split].
  - intros v Hv. destruct (Hode v Hv) as (H1 & H2 & H3 & H4 & H5 & H6).
    assert (Hvv : 0 < v < 1) by lra.
    destruct (shockDE_is_similarity_flow e v (xiF v) (TF v) H1 Hvv H2 H3 H4) as ((E & P & HL) & _).
    exists (fst (shockDE e v (xiF v, TF v) true)), (snd (shockDE e v (xiF v, TF v) true)), E, P.
    split; [assumption|]. split; [assumption|]. exact HL.
  - apply shock_zero_iff. exact Hev.
  - destruct (frontState_cases e vw vp Tp vS (xiF vS) (TF vS)) as (_ & _ & C).
    fold v0 in C. specialize (C Hbr Hne).
    specialize (Htii _ _ _ C). rewrite HTn in Htii.
    assert (HS : vS <= vS <= v0) by lra.
    destruct (Hode vS HS) as (_ & H2 & _).
    apply TiiShock_zero_iff in Htii; [exact Htii|nra].
Qed.
Print Assumptions returned_matching_reaches_Tn.

(** joint satisfiability of ALL hypotheses of returned_matching_reaches_Tn: radiation-like EOS
    (w = T, cs^2 = 1/3), Tn = 5; wall at vw = 2/3 with v+ = 1/2, T+ = 9, so that the fluid
    velocity at the wall is mu = 1/4 and the front coincides with the wall (vS = v0): the
    profile is the tangent line of the flow there. *)
Example composition_hypotheses_satisfiable :
  let e := mk_env 5 (1/100) 10 (7/10) (fun _ => 1/3) (fun _ => 1/3) (fun T => T)
                  (fun T => T) (fun T => T / 4) (fun T => T / 4) (fun T => 3 * T / 4)
                  (fun T => 3 * T / 4) (1/10) (fun x => x) (fun _ _ => (0, 0, 9, 0))
                  (fun _ _ _ => 5) in
  let vw := 2/3 in let vp := 1/2 in let v0 := 1/4 in
  let X0 := fst (shockDE e v0 (vw, 9) true) in let Y0 := snd (shockDE e v0 (vw, 9) true) in
  let xiF := fun v => vw + X0 * (v - v0) in let TF := fun v => 9 + Y0 * (v - v0) in
  mu vw vp = v0 /\
  shootResidual e vw vp = 0 /\
  ~ 0 < mu vw v0 * vw - csqHighT e 9 /\ vw <> vp /\ 0 < v0 <= v0 /\ v0 < 1 /\
  xiF v0 = vw /\ TF v0 = 9 /\
  (forall v, v0 <= v <= v0 ->
     0 < TF v /\ 0 < xiF v < 1 /\ wHighT e (TF v) <> 0 /\ csqHighT e (TF v) <> 0 /\
     derivable_pt_lim xiF v (fst (shockDE e v (xiF v, TF v) true)) /\
     derivable_pt_lim TF v (snd (shockDE e v (xiF v, TF v) true))) /\
  shock e v0 (xiF v0, TF v0) = 0 /\
  (forall vm xi Tm, frontState e vw vp 9 v0 (xiF v0) (TF v0) = (vm, xi, Tm) ->
     TiiShock e vm xi Tm (shockTn e vw vp 9) = 0).
Proof.
  cbv zeta.
  assert (Emu : mu (2/3) (1/2) = 1/4) by (unfold mu; lra).
  assert (Emu2 : mu (2/3) (1/4) = 1/2) by (unfold mu; lra).
  set (e := mk_env _ _ _ _ _ _ _ _ _ _ _ _ _ _ _ _).
  assert (Lin : forall a c b x, derivable_pt_lim (fun v => a + c * (v - b)) x c).
  { intros a c b x eps Heps. exists (mkposreal 1 Rlt_0_1). intros h Hh _.
    replace ((a + c * (x + h - b) - (a + c * (x - b))) / h - c) with 0 by (field; assumption).
    rewrite Rabs_R0. assumption. }
  split; [exact Emu|]. split.
  { rewrite shootResidual_value. unfold e. cbn [matchAt shockTn Tnucl fst snd]. ring. }
  split; [rewrite Emu2; unfold e; cbn [csqHighT]; lra|].
  split; [lra|]. split; [lra|]. split; [lra|].
  split; [ring|]. split; [ring|]. split.
  { intros v Hv. assert (Ev : v = 1/4) by lra. subst v.
    replace (2 / 3 + fst (shockDE e (1 / 4) (2 / 3, 9) true) * (1 / 4 - 1 / 4)) with (2/3) by ring.
    replace (9 + snd (shockDE e (1 / 4) (2 / 3, 9) true) * (1 / 4 - 1 / 4)) with 9 by ring.
    unfold e at 1 2. cbn [wHighT csqHighT].
    repeat split; try lra; apply Lin. }
  split.
  { replace (2 / 3 + fst (shockDE e (1 / 4) (2 / 3, 9) true) * (1 / 4 - 1 / 4)) with (2/3) by ring.
    replace (9 + snd (shockDE e (1 / 4) (2 / 3, 9) true) * (1 / 4 - 1 / 4)) with 9 by ring.
    apply shock_zero_iff. rewrite Emu2. unfold e. cbn [csqHighT]. lra. }
  intros vm xi Tm HF.
  replace (2 / 3 + fst (shockDE e (1 / 4) (2 / 3, 9) true) * (1 / 4 - 1 / 4)) with (2/3) in HF by ring.
  replace (9 + snd (shockDE e (1 / 4) (2 / 3, 9) true) * (1 / 4 - 1 / 4)) with 9 in HF by ring.
  destruct (frontState_cases e (2/3) (1/2) 9 (1/4) (2/3) 9) as (_ & _ & C).
  rewrite Emu, Emu2 in C.
  rewrite C in HF by (unfold e; cbn [csqHighT]; lra).
  injection HF as <- <- <-.
  unfold e. cbn [shockTn]. apply TiiShock_zero_iff; [lra|].
  rewrite Emu2. unfold energy_flux, gam2. cbn [wHighT]. lra.
Qed.

(** non-vacuity: ideal gas p = T^4, w = 4 T^4, cs^2 = 1/3; a point inside a shock wave *)
Example hypotheses_satisfiable :
  let e := mk_env 1 (1/100) 10 (7/10) (fun _ => 1/3) (fun _ => 1/3) (fun T => 4 * T ^ 4)
                  (fun T => 4 * T ^ 4) (fun T => T ^ 4) (fun T => T ^ 4) (fun T => 3 * T ^ 4)
                  (fun T => 3 * T ^ 4) (1/10) (fun x => x) (fun _ _ => (0, 0, 0, 0))
                  (fun _ _ _ => 0) in
  0 < 1 /\ 0 < 1/10 < 1 /\ 0 < 6/10 < 1 /\ wHighT e 1 <> 0 /\ csqHighT e 1 <> 0 /\
  fst (shockDE e (1/10) (6/10, 1) true) <> 0.
Proof.
  cbv zeta. cbn [wHighT csqHighT]. repeat split; try lra.
  rewrite shockDE_shock_value by (cbn [csqHighT]; lra).
  cbn [fst csqHighT]. unfold dxi_dv, gam2, mu. lra.
Qed.

(** non-vacuity of shock_momentum_const_cs: radiation-like EOS w = T, p = T/4 (cs^2 = 1/3),
    front at xi = 2/3, fluid velocity 1/4 behind it (mu = 1/2), T = 9 behind, 5 ahead *)
Example momentum_hypotheses_satisfiable :
  let e := mk_env 5 (1/100) 10 (7/10) (fun _ => 1/3) (fun _ => 1/3) (fun T => T)
                  (fun T => T) (fun T => T / 4) (fun T => T / 4) (fun T => 3 * T / 4)
                  (fun T => 3 * T / 4) (1/10) (fun x => x) (fun _ _ => (0, 0, 0, 0))
                  (fun _ _ _ => 0) in
  0 < 2/3 < 1 /\ 0 < mu (2/3) (1/4) < 1 /\ shock e (1/4) (2/3, 9) = 0 /\
  TiiShock e (1/4) (2/3) 9 5 = 0 /\
  pHighT e 9 - pHighT e 5 =
    csqHighT e 9 * ((wHighT e 9 - pHighT e 9) - (wHighT e 5 - pHighT e 5)).
Proof.
  cbv zeta. unfold shock, TiiShock, boostVelocity, gammaSq, mu.
  cbn [wHighT csqHighT pHighT]. repeat split; lra.
Qed.
