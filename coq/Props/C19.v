(** C19 -- finite-difference derivatives are exact on low-degree polynomials and never
    leave the stated bounds.  All statements are about the tables and the row-selection
    rule GENERATED from /repo/src/WallGo/helpers.py on this run (module GenC19.Tables). *)
From Coq Require Import Reals List ZArith QArith Qabs Qreals Lqa Lia Bool.
From WG Require Import Lib.Stencil.
From GenC19 Require Import Tables.
Import ListNotations.

(** ** 1. every row of every table is exact up to degree (#points - 1) *)
Lemma first2_rows : table_exact 1 FIRST_DERIV_COEFF_2 FIRST_DERIV_POS_2.
Proof. table_exact_tac. Qed.
Lemma first4_rows : table_exact 1 FIRST_DERIV_COEFF_4 FIRST_DERIV_POS_4.
Proof. table_exact_tac. Qed.
Lemma second2_rows : table_exact 2 SECOND_DERIV_COEFF_2 SECOND_DERIV_POS_2.
Proof. table_exact_tac. Qed.
Lemma second4_rows : table_exact 2 SECOND_DERIV_COEFF_4 SECOND_DERIV_POS_4.
Proof. table_exact_tac. Qed.

Theorem stencil_rows_exact :
  table_exact 1 FIRST_DERIV_COEFF_2 FIRST_DERIV_POS_2 /\
  table_exact 1 FIRST_DERIV_COEFF_4 FIRST_DERIV_POS_4 /\
  table_exact 2 SECOND_DERIV_COEFF_2 SECOND_DERIV_POS_2 /\
  table_exact 2 SECOND_DERIV_COEFF_4 SECOND_DERIV_POS_4.
Proof. exact (conj first2_rows (conj first4_rows (conj second2_rows second4_rows))). Qed.
Print Assumptions stencil_rows_exact.

(** non-vacuity: the tables are not empty and have the expected number of rows *)
Example tables_nonempty :
  length FIRST_DERIV_COEFF_2 = 3%nat /\ length FIRST_DERIV_COEFF_4 = 5%nat /\
  length SECOND_DERIV_COEFF_2 = 3%nat /\ length SECOND_DERIV_COEFF_4 = 5%nat.
Proof. repeat split; reflexivity. Qed.

(** ** 2. the central rows (row 0, the one used in the interior, by `gradient`, and
       whenever the offsets cancel) gain one degree *)
Definition central_exact (n d : nat) (coefT posT : list (list Q)) : Prop :=
  match nth_error coefT 0, nth_error posT 0 with
  | Some c, Some p => row_exact n d c p
  | _, _ => False
  end.

Lemma central_first2 : central_exact 1 2 FIRST_DERIV_COEFF_2 FIRST_DERIV_POS_2.
Proof. unfold central_exact; cbn [nth_error FIRST_DERIV_COEFF_2 FIRST_DERIV_POS_2]. row_exact_tac. Qed.
Lemma central_first4 : central_exact 1 4 FIRST_DERIV_COEFF_4 FIRST_DERIV_POS_4.
Proof. unfold central_exact; cbn [nth_error FIRST_DERIV_COEFF_4 FIRST_DERIV_POS_4]. row_exact_tac. Qed.
Lemma central_second2 : central_exact 2 3 SECOND_DERIV_COEFF_2 SECOND_DERIV_POS_2.
Proof. unfold central_exact; cbn [nth_error SECOND_DERIV_COEFF_2 SECOND_DERIV_POS_2]. row_exact_tac. Qed.
Lemma central_second4 : central_exact 2 5 SECOND_DERIV_COEFF_4 SECOND_DERIV_POS_4.
Proof. unfold central_exact; cbn [nth_error SECOND_DERIV_COEFF_4 SECOND_DERIV_POS_4]. row_exact_tac. Qed.

Theorem central_rows_exact :
  central_exact 1 2 FIRST_DERIV_COEFF_2 FIRST_DERIV_POS_2 /\
  central_exact 1 4 FIRST_DERIV_COEFF_4 FIRST_DERIV_POS_4 /\
  central_exact 2 3 SECOND_DERIV_COEFF_2 SECOND_DERIV_POS_2 /\
  central_exact 2 5 SECOND_DERIV_COEFF_4 SECOND_DERIV_POS_4.
Proof. exact (conj central_first2 (conj central_first4 (conj central_second2 central_second4))). Qed.
Print Assumptions central_rows_exact.

(** ** 3. gradient: the row it indexes is the central one (exact to degree 2 / 4 along
       the differentiated variable; the other variables are frozen parameters of [f]) *)
Theorem gradient_exact :
  gradient_row = 0%nat /\
  (forall c p, nth_error FIRST_DERIV_COEFF_2 gradient_row = Some c ->
               nth_error FIRST_DERIV_POS_2 gradient_row = Some p -> row_exact 1 2 c p) /\
  (forall c p, nth_error FIRST_DERIV_COEFF_4 gradient_row = Some c ->
               nth_error FIRST_DERIV_POS_4 gradient_row = Some p -> row_exact 1 4 c p).
Proof.
  split; [reflexivity|]. split; intros c p Hc Hp.
  - pose proof central_first2 as H. unfold central_exact in H.
    change gradient_row with 0%nat in Hc, Hp. rewrite Hc, Hp in H. exact H.
  - pose proof central_first4 as H. unfold central_exact in H.
    change gradient_row with 0%nat in Hc, Hp. rewrite Hc, Hp in H. exact H.
Qed.
Print Assumptions gradient_exact.

(** ** 4. Hessian: mixed second derivative, exact on bivariate polynomials of total
       degree <= 3 (order 2) and <= 5 (order 4); and the diagonal entries (x-axis =
       y-axis, shifts add up) are exact second derivatives to the same degree. *)
Section Hess.
Local Open Scope R_scope.

(** sum_{i<=d} sum_{j<=d-i} c i j u^i v^j *)
Fixpoint tri_row (c : nat -> R) (k : nat) (v : R) : R :=
  match k with O => c O | S m => tri_row c m v + c (S m) * v ^ (S m) end.
Fixpoint tri (c : nat -> nat -> R) (d i : nat) (u v : R) : R :=
  (* terms with first index d-i .. d ; called with i = d *)
  match i with
  | O => tri_row (c O) d v
  | S m => tri c d m u v + u ^ (S m) * tri_row (c (S m)) (d - S m) v
  end.
Definition poly2 (c : nat -> nat -> R) (d : nat) (u v : R) : R := tri c d d u v.
(** its mixed derivative d2/du dv, written out directly *)
Definition dmix (c : nat -> nat -> R) (d : nat) (u v : R) : R :=
  tri (fun i j => INR (S i) * INR (S j) * c (S i) (S j)) (d - 2) (d - 2) u v.
(** along one variable: p(t) = sum_k c k t^k and its second derivative *)
Definition d2uni (c : nat -> R) (d : nat) (t : R) : R :=
  tri_row (fun k => INR (S (S k)) * INR (S k) * c (S (S k))) (d - 2) t.

Definition hess_exact (d : nat) (coef : list Q) (posT : list (list Q)) : Prop :=
  match nth_error posT hessian_xrow, nth_error posT hessian_yrow with
  | Some sx, Some sy =>
      (forall c x y dx dy, dx <> 0 -> dy <> 0 ->
         stencil2R coef sx sy (poly2 c d) x y dx dy = dmix c d x y) /\
      (forall c x dx, dx <> 0 ->
         stencil2R coef sx sy (fun a b => tri_row c d (a + b - x)) x x dx dx
         = d2uni c d x)
  | _, _ => False
  end.

Lemma hess2 : hess_exact 3 HESSIAN_COEFF_2 HESSIAN_POS_2.
Proof.
  unfold hess_exact; cbn [nth_error hessian_xrow hessian_yrow HESSIAN_POS_2].
  split; intros; unfold stencil2R, poly2, dmix, d2uni;
    cbn [combine map fold_right fst snd tri tri_row Nat.sub HESSIAN_COEFF_2 INR pow];
    unfold Q2R; cbn [Qnum Qden]; field; auto.
Qed.
Lemma hess4 : hess_exact 5 HESSIAN_COEFF_4 HESSIAN_POS_4.
Proof.
  unfold hess_exact; cbn [nth_error hessian_xrow hessian_yrow HESSIAN_POS_4].
  split; intros; unfold stencil2R, poly2, dmix, d2uni;
    cbn [combine map fold_right fst snd tri tri_row Nat.sub HESSIAN_COEFF_4 INR pow];
    unfold Q2R; cbn [Qnum Qden]; field; auto.
Qed.
End Hess.

Theorem hessian_exact :
  hess_exact 3 HESSIAN_COEFF_2 HESSIAN_POS_2 /\ hess_exact 5 HESSIAN_COEFF_4 HESSIAN_POS_4.
Proof. exact (conj hess2 hess4). Qed.
Print Assumptions hessian_exact.

(** ** 5. never evaluates outside the bounds, provided the interval is at least as wide
       as the stencil (K = number of points of the one-sided rows) *)
Local Open Scope Q_scope.

Definition points_ok (posT : list (list Q)) (order : Z) (K : Q) : Prop :=
  forall x dx lb ub, 0 < dx -> in_bounds lb ub x -> wide lb ub K dx ->
    match eval_points offset posT order x dx lb ub with
    | Some pts => Forall (in_bounds lb ub) pts
    | None => False
    end.

Ltac cmp_cases :=
  repeat match goal with
  | |- context [qlt ?a ?b] =>
      let E := fresh "E" in destruct (qlt a b) eqn:E;
      [apply qlt_true in E | apply qlt_false in E]
  end.

Ltac points_tac :=
  intros x dx lb ub Hdx [Hl Hu] Hw;
  unfold eval_points, offset, gt_b, lt_b, wide, in_bounds in *;
  destruct lb as [| |l]; destruct ub as [| |u]; try contradiction;
  cmp_cases;
  match goal with
  | |- context [pyindex ?t ?z] =>
      let r := eval vm_compute in (pyindex t z) in change (pyindex t z) with r
  end;
  cbn [option_map map];
  try (exfalso; lra);
  repeat (apply Forall_cons; [split; try exact I; lra|]); try apply Forall_nil.

Lemma points_first2 : points_ok FIRST_DERIV_POS_2 2 2.
Proof. points_tac. Qed.
Lemma points_second2 : points_ok SECOND_DERIV_POS_2 2 3.
Proof. points_tac. Qed.
Lemma points_first4 : points_ok FIRST_DERIV_POS_4 4 4.
Proof. points_tac. Qed.
Lemma points_second4 : points_ok SECOND_DERIV_POS_4 4 5.
Proof. points_tac. Qed.

Theorem stays_in_bounds :
  points_ok FIRST_DERIV_POS_2 2 2 /\ points_ok SECOND_DERIV_POS_2 2 3 /\
  points_ok FIRST_DERIV_POS_4 4 4 /\ points_ok SECOND_DERIV_POS_4 4 5.
Proof. exact (conj points_first2 (conj points_second2 (conj points_first4 points_second4))). Qed.
Print Assumptions stays_in_bounds.

(** the hypotheses are satisfiable, at a bound, with a finite interval *)
Example stays_in_bounds_nonvacuous :
  0 < (1#4) /\ in_bounds (Fin 0) (Fin 1) 0 /\ wide (Fin 0) (Fin 1) 4 (1#4).
Proof. unfold in_bounds, wide; repeat split; try lra; discriminate. Qed.

(** the selected row is also a row of the coefficient table (same index), so the value
    returned is the stencil of section 1 *)
Theorem temperature_bound :
  (* bounds = (0, +inf), the way derivT calls it: never evaluates at T < 0 *)
  forall T dT, 0 <= T -> 0 < dT ->
    match eval_points offset FIRST_DERIV_POS_4 4 T dT (Fin 0) PosInf with
    | Some pts => Forall (fun t => 0 <= t) pts
    | None => False
    end.
Proof.
  intros T dT HT HdT.
  pose proof (points_first4 T dT (Fin 0) PosInf HdT) as H.
  assert (Hin : in_bounds (Fin 0) PosInf T) by (unfold in_bounds; split; [exact HT|exact I]).
  specialize (H Hin I).
  destruct (eval_points offset FIRST_DERIV_POS_4 4 T dT (Fin 0) PosInf); [|exact H].
  eapply Forall_impl; [|exact H]. intros a [Ha _]. exact Ha.
Qed.
Print Assumptions temperature_bound.

(** ** 6. without the width hypothesis the claim is FALSE of the faithful model: the two
       offsets cancel and the central stencil leaves the interval (known finding D5). *)
Theorem stays_in_bounds_narrow_refuted :
  exists x dx lb ub, 0 < dx /\ in_bounds lb ub x /\
    match eval_points offset FIRST_DERIV_POS_2 2 x dx lb ub with
    | Some pts => Exists (fun p => ~ in_bounds lb ub p) pts
    | None => True
    end.
Proof.
  exists (1#2), 1, (Fin 0), (Fin 1). split; [reflexivity|]. split.
  - unfold in_bounds; split; discriminate.
  - vm_compute. apply Exists_cons_hd. intros [H _]. apply H. reflexivity.
Qed.
Print Assumptions stays_in_bounds_narrow_refuted.
