(** C19 -- finite-difference derivatives are exact on low-degree polynomials and never
    leave the stated bounds.  All statements are about the tables and the row-selection
    rule GENERATED from /repo/src/WallGo/helpers.py on this run (module GenC19.Tables) and
    the call-site facts GENERATED from effectivePotential.py (module GenC19.PotFacts). *)
From Coq Require Import Reals List ZArith QArith Qabs Qreals Lqa Lia Bool.
From WG Require Import Lib.Stencil.
From GenC19 Require Import Tables PotFacts.
Import ListNotations.

(** ** 1. every row of every table is exact up to degree (#points - 1) *)
Lemma first2_rows : table_exact 1 FIRST_DERIV_COEFF_2 FIRST_DERIV_POS_2.
Proof. table_exact_tac. Qed.
Lemma first4_rows : table_exact 1 FIRST_DERIV_COEFF_4 FIRST_DERIV_POS_4.
Proof. table_exact_tac. Qed.
Lemma second2_rows : table_exact 2 SECOND_DERIV_COEFF_2 SECOND_DERIV_POS_2.
Proof. table_exact_tac. Qed.
Lemma second4_rows : table_exact 2 SECOND_DERIV_COEFF_4 SECOND_DERIV_POS_4.
Proof. table_exact_tac. Qed.

Theorem stencil_rows_exact :
  table_exact 1 FIRST_DERIV_COEFF_2 FIRST_DERIV_POS_2 /\
  table_exact 1 FIRST_DERIV_COEFF_4 FIRST_DERIV_POS_4 /\
  table_exact 2 SECOND_DERIV_COEFF_2 SECOND_DERIV_POS_2 /\
  table_exact 2 SECOND_DERIV_COEFF_4 SECOND_DERIV_POS_4.
Proof. exact (conj first2_rows (conj first4_rows (conj second2_rows second4_rows))). Qed.
Print Assumptions stencil_rows_exact.

(** non-vacuity: the tables are not empty and have the expected number of rows *)
Example tables_nonempty :
  length FIRST_DERIV_COEFF_2 = 3%nat /\ length FIRST_DERIV_COEFF_4 = 5%nat /\
  length SECOND_DERIV_COEFF_2 = 3%nat /\ length SECOND_DERIV_COEFF_4 = 5%nat.
Proof. repeat split; reflexivity. Qed.

(** ** 2. the central rows (row 0, the one used in the interior, by `gradient`, and
       whenever the offsets cancel) gain one degree *)
Definition central_exact (n d : nat) (coefT posT : list (list Q)) : Prop :=
  match nth_error coefT 0, nth_error posT 0 with
  | Some c, Some p => row_exact n d c p
  | _, _ => False
  end.

Lemma central_first2 : central_exact 1 2 FIRST_DERIV_COEFF_2 FIRST_DERIV_POS_2.
Proof. unfold central_exact; cbn [nth_error FIRST_DERIV_COEFF_2 FIRST_DERIV_POS_2]. row_exact_tac. Qed.
Lemma central_first4 : central_exact 1 4 FIRST_DERIV_COEFF_4 FIRST_DERIV_POS_4.
Proof. unfold central_exact; cbn [nth_error FIRST_DERIV_COEFF_4 FIRST_DERIV_POS_4]. row_exact_tac. Qed.
Lemma central_second2 : central_exact 2 3 SECOND_DERIV_COEFF_2 SECOND_DERIV_POS_2.
Proof. unfold central_exact; cbn [nth_error SECOND_DERIV_COEFF_2 SECOND_DERIV_POS_2]. row_exact_tac. Qed.
Lemma central_second4 : central_exact 2 5 SECOND_DERIV_COEFF_4 SECOND_DERIV_POS_4.
Proof. unfold central_exact; cbn [nth_error SECOND_DERIV_COEFF_4 SECOND_DERIV_POS_4]. row_exact_tac. Qed.

Theorem central_rows_exact :
  central_exact 1 2 FIRST_DERIV_COEFF_2 FIRST_DERIV_POS_2 /\
  central_exact 1 4 FIRST_DERIV_COEFF_4 FIRST_DERIV_POS_4 /\
  central_exact 2 3 SECOND_DERIV_COEFF_2 SECOND_DERIV_POS_2 /\
  central_exact 2 5 SECOND_DERIV_COEFF_4 SECOND_DERIV_POS_4.
Proof. exact (conj central_first2 (conj central_first4 (conj central_second2 central_second4))). Qed.
Print Assumptions central_rows_exact.

(** ** 3. gradient: the row it indexes is the central one (exact to degree 2 / 4 along
       the differentiated variable; the other variables are frozen parameters of [f]) *)
Theorem gradient_exact :
  gradient_row = 0%nat /\
  (forall c p, nth_error FIRST_DERIV_COEFF_2 gradient_row = Some c ->
               nth_error FIRST_DERIV_POS_2 gradient_row = Some p -> row_exact 1 2 c p) /\
  (forall c p, nth_error FIRST_DERIV_COEFF_4 gradient_row = Some c ->
               nth_error FIRST_DERIV_POS_4 gradient_row = Some p -> row_exact 1 4 c p).
Proof.
  split; [reflexivity|]. split; intros c p Hc Hp.
  - pose proof central_first2 as H. unfold central_exact in H.
    change gradient_row with 0%nat in Hc, Hp. rewrite Hc, Hp in H. exact H.
  - pose proof central_first4 as H. unfold central_exact in H.
    change gradient_row with 0%nat in Hc, Hp. rewrite Hc, Hp in H. exact H.
Qed.
Print Assumptions gradient_exact.

(** ** 4. Hessian: mixed second derivative, exact on bivariate polynomials of total
       degree <= 3 (order 2) and <= 5 (order 4); and the diagonal entries (x-axis =
       y-axis, shifts add up) are exact second derivatives to the same degree. *)
Section Hess.
Local Open Scope R_scope.

(** sum_{i<=d} sum_{j<=d-i} c i j u^i v^j *)
Fixpoint tri_row (c : nat -> R) (k : nat) (v : R) : R :=
  match k with O => c O | S m => tri_row c m v + c (S m) * v ^ (S m) end.
Fixpoint tri (c : nat -> nat -> R) (d i : nat) (u v : R) : R :=
  (* terms with first index d-i .. d ; called with i = d *)
  match i with
  | O => tri_row (c O) d v
  | S m => tri c d m u v + u ^ (S m) * tri_row (c (S m)) (d - S m) v
  end.
Definition poly2 (c : nat -> nat -> R) (d : nat) (u v : R) : R := tri c d d u v.
(** its mixed derivative d2/du dv, written out directly *)
Definition dmix (c : nat -> nat -> R) (d : nat) (u v : R) : R :=
  tri (fun i j => INR (S i) * INR (S j) * c (S i) (S j)) (d - 2) (d - 2) u v.
(** along one variable: p(t) = sum_k c k t^k and its second derivative *)
Definition d2uni (c : nat -> R) (d : nat) (t : R) : R :=
  tri_row (fun k => INR (S (S k)) * INR (S k) * c (S (S k))) (d - 2) t.

Definition hess_exact (d : nat) (coef : list Q) (posT : list (list Q)) : Prop :=
  match nth_error posT hessian_xrow, nth_error posT hessian_yrow with
  | Some sx, Some sy =>
      (forall c x y dx dy, dx <> 0 -> dy <> 0 ->
         stencil2R coef sx sy (poly2 c d) x y dx dy = dmix c d x y) /\
      (forall c x dx, dx <> 0 ->
         stencil2R coef sx sy (fun a b => tri_row c d (a + b - x)) x x dx dx
         = d2uni c d x)
  | _, _ => False
  end.

Lemma hess2 : hess_exact 3 HESSIAN_COEFF_2 HESSIAN_POS_2.
Proof.
  unfold hess_exact; cbn [nth_error hessian_xrow hessian_yrow HESSIAN_POS_2].
  split; intros; unfold stencil2R, poly2, dmix, d2uni;
    cbn [combine map fold_right fst snd tri tri_row Nat.sub HESSIAN_COEFF_2 INR pow];
    unfold Q2R; cbn [Qnum Qden]; field; auto.
Qed.
Lemma hess4 : hess_exact 5 HESSIAN_COEFF_4 HESSIAN_POS_4.
Proof.
  unfold hess_exact; cbn [nth_error hessian_xrow hessian_yrow HESSIAN_POS_4].
  split; intros; unfold stencil2R, poly2, dmix, d2uni;
    cbn [combine map fold_right fst snd tri tri_row Nat.sub HESSIAN_COEFF_4 INR pow];
    unfold Q2R; cbn [Qnum Qden]; field; auto.
Qed.
End Hess.

Theorem hessian_exact :
  hess_exact 3 HESSIAN_COEFF_2 HESSIAN_POS_2 /\ hess_exact 5 HESSIAN_COEFF_4 HESSIAN_POS_4.
Proof. exact (conj hess2 hess4). Qed.
Print Assumptions hessian_exact.

(** ** 5. never evaluates outside the bounds, provided the interval is at least as wide
       as the stencil (K = number of points of the one-sided rows) *)
Local Open Scope Q_scope.

Definition points_ok (posT : list (list Q)) (order : Z) (K : Q) : Prop :=
  forall x dx lb ub, 0 < dx -> in_bounds lb ub x -> wide lb ub K dx ->
    match eval_points offset posT order x dx lb ub with
    | Some pts => Forall (in_bounds lb ub) pts
    | None => False
    end.

Ltac cmp_cases :=
  repeat match goal with
  | |- context [qlt ?a ?b] =>
      let E := fresh "E" in destruct (qlt a b) eqn:E;
      [apply qlt_true in E | apply qlt_false in E]
  end.

Ltac points_tac :=
  intros x dx lb ub Hdx [Hl Hu] Hw;
  unfold eval_points, offset, gt_b, lt_b, wide, in_bounds in *;
  destruct lb as [| |l]; destruct ub as [| |u]; try contradiction;
  cmp_cases;
  match goal with
  | |- context [pyindex ?t ?z] =>
      let r := eval vm_compute in (pyindex t z) in change (pyindex t z) with r
  end;
  cbn [option_map map];
  try (exfalso; lra);
  repeat (apply Forall_cons; [split; try exact I; lra|]); try apply Forall_nil.

Lemma points_first2 : points_ok FIRST_DERIV_POS_2 2 2.
Proof. points_tac. Qed.
Lemma points_second2 : points_ok SECOND_DERIV_POS_2 2 3.
Proof. points_tac. Qed.
Lemma points_first4 : points_ok FIRST_DERIV_POS_4 4 4.
Proof. points_tac. Qed.
Lemma points_second4 : points_ok SECOND_DERIV_POS_4 4 5.
Proof. points_tac. Qed.

Theorem stays_in_bounds :
  points_ok FIRST_DERIV_POS_2 2 2 /\ points_ok SECOND_DERIV_POS_2 2 3 /\
  points_ok FIRST_DERIV_POS_4 4 4 /\ points_ok SECOND_DERIV_POS_4 4 5.
Proof. exact (conj points_first2 (conj points_second2 (conj points_first4 points_second4))). Qed.
Print Assumptions stays_in_bounds.

(** the hypotheses are satisfiable, at a bound, with a finite interval *)
Example stays_in_bounds_nonvacuous :
  0 < (1#4) /\ in_bounds (Fin 0) (Fin 1) 0 /\ wide (Fin 0) (Fin 1) 4 (1#4).
Proof. unfold in_bounds, wide; repeat split; try lra; discriminate. Qed.

(** ** 5a. the guard.  [guard] is the assertion `x inside bounds` of derivative, translated
       from the source: the code refuses (AssertionError, before any evaluation of f) exactly
       the x outside [lb, ub]; so for EVERY x -- no in-bounds hypothesis -- a call either is
       refused or evaluates f inside the bounds only. *)
Lemma guard_iff x lb ub : guard x lb ub = true <-> in_bounds lb ub x.
Proof.
  unfold guard, le_b, ge_b, gt_b, lt_b, in_bounds.
  destruct lb as [| |l]; destruct ub as [| |u]; cbn [negb];
    rewrite ?andb_true_iff, ?negb_true_iff, ?qlt_false;
    intuition (try discriminate; try reflexivity; auto).
Qed.

Definition guarded_points (posT : list (list Q)) (order : Z) (x dx : Q) (lb ub : bound) :=
  if guard x lb ub then eval_points offset posT order x dx lb ub else None.

Definition refused_or_inside (posT : list (list Q)) (order : Z) (K : Q) : Prop :=
  forall x dx lb ub, 0 < dx -> wide lb ub K dx ->
    match guarded_points posT order x dx lb ub with
    | Some pts => in_bounds lb ub x /\ Forall (in_bounds lb ub) pts
    | None => ~ in_bounds lb ub x
    end.

Lemma refused_of posT order K : points_ok posT order K -> refused_or_inside posT order K.
Proof.
  intros HP x dx lb ub Hdx Hw. unfold guarded_points.
  destruct (guard x lb ub) eqn:G.
  - apply guard_iff in G. specialize (HP x dx lb ub Hdx G Hw).
    destruct (eval_points offset posT order x dx lb ub); [split; assumption|contradiction].
  - intro Hin. apply guard_iff in Hin. congruence.
Qed.

Theorem rejected_or_in_bounds :
  (forall x lb ub, guard x lb ub = true <-> in_bounds lb ub x) /\
  refused_or_inside FIRST_DERIV_POS_2 2 2 /\ refused_or_inside SECOND_DERIV_POS_2 2 3 /\
  refused_or_inside FIRST_DERIV_POS_4 4 4 /\ refused_or_inside SECOND_DERIV_POS_4 4 5.
Proof.
  split; [exact guard_iff|].
  exact (conj (refused_of _ _ _ points_first2) (conj (refused_of _ _ _ points_second2)
        (conj (refused_of _ _ _ points_first4) (refused_of _ _ _ points_second4)))).
Qed.
Print Assumptions rejected_or_in_bounds.

(** both outcomes occur: x = -1/10^10 with bounds (0, +inf) is refused, x = 0 is accepted *)
Example guard_instances :
  guard (-(1 # 10000000000)) (Fin 0) PosInf = false /\ guard 0 (Fin 0) PosInf = true.
Proof. split; vm_compute; reflexivity. Qed.

(** ** 5b. which row is used, as a function of the distances to the bounds (interior: the
       central row 0; less than one step from the lower/upper bound: the fully one-sided row
       +1/-1 (order 2) or +2/-2 (order 4); between one and two steps (order 4): +1/-1).
       Negative rows index the tables from the end (pyindex). *)
Ltac rowsel_tac :=
  intros x dx lb ub Hdx [Hl Hu] Hw;
  unfold offset, gt_b, lt_b, wide, in_bounds in *;
  destruct lb as [| |l]; destruct ub as [| |u]; try contradiction;
  cmp_cases; cbn [b2z negb]; try reflexivity; exfalso; lra.

Theorem row_selection :
  (forall x dx lb ub, 0 < dx -> in_bounds lb ub x -> wide lb ub 2 dx ->
     offset 2 x dx lb ub =
     (if lt_b (x - dx) lb then 1 else if gt_b (x + dx) ub then -1 else 0)%Z) /\
  (forall x dx lb ub, 0 < dx -> in_bounds lb ub x -> wide lb ub 4 dx ->
     offset 4 x dx lb ub =
     (if lt_b (x - dx) lb then 2 else if lt_b (x - 2 * dx) lb then 1 else
      if gt_b (x + dx) ub then -2 else if gt_b (x + 2 * dx) ub then -1 else 0)%Z).
Proof. split; rowsel_tac. Qed.
Print Assumptions row_selection.

(** ** 6. COMPOSITION: the value [derivative] returns.  [derivQ offset coefT posT n order f x
       dx lb ub] is the executable model of the whole function (row selection by the generated
       [offset], negative indexing, coefficients / dx^n, weighted sum); it is compared with
       the implementation by vm_compute on every run.  For EVERY x, every dx <> 0 (either
       sign, any size), EVERY pair of bounds -- no width, no in-bounds hypothesis -- and every
       polynomial with at most #points coefficients (degree <= #points - 1) it returns the
       exact derivative: whichever row the rule picks is a row of the table, and all rows are
       exact.  In particular the value stays exact in intervals narrower than the stencil
       (section 8): there only the abscissas are wrong. *)
Lemma b2z_range b : (0 <= b2z b <= 1)%Z.
Proof. destruct b; cbn; lia. Qed.

Ltac offset_range_tac :=
  intros; unfold offset; cbv zeta;
  repeat match goal with
  | |- context [b2z ?b] =>
      let H := fresh "H" in let z := fresh "z" in
      pose proof (b2z_range b) as H; set (z := b2z b) in *; clearbody z
  end;
  try match goal with |- context [(?a =? ?b)%Z] =>
      let r := eval vm_compute in (a =? b)%Z in change (a =? b)%Z with r end;
  cbv iota; lia.

(** the selected row always exists: |offset| <= 1 (order 2, 3-row tables), <= 2 (order 4,
    5-row tables) *)
Lemma offset_range2 x dx lb ub : (-1 <= offset 2 x dx lb ub <= 1)%Z.
Proof. offset_range_tac. Qed.
Lemma offset_range4 x dx lb ub : (-2 <= offset 4 x dx lb ub <= 2)%Z.
Proof. offset_range_tac. Qed.

Definition value_exact (n : nat) (order : Z) (npts : nat) (coefT posT : list (list Q)) : Prop :=
  forall (a : list Q) (x dx : Q) (lb ub : bound),
    ~ dx == 0 -> (length a <= npts)%nat ->
    exists v, derivQ offset coefT posT n order (pevalQ a) x dx lb ub = Some v /\
              Q2R v = peval (pderivn n (map Q2R a)) (Q2R x).

Ltac value_exact_tac rows range :=
  intros a x dx lb ub Hdx Ha;
  eapply derivQ_exact;
  [ exact rows
  | repeat (apply Forall_cons; [reflexivity|]); apply Forall_nil
  | pose proof (range x dx lb ub);
    match goal with |- context [Z.of_nat (length ?t)] =>
      let r := eval vm_compute in (Z.of_nat (length t)) in
      change (Z.of_nat (length t)) with r end; lia
  | exact Hdx
  | exact Ha ].

Lemma value_first2 : value_exact 1 2 2 FIRST_DERIV_COEFF_2 FIRST_DERIV_POS_2.
Proof. value_exact_tac first2_rows offset_range2. Qed.
Lemma value_first4 : value_exact 1 4 4 FIRST_DERIV_COEFF_4 FIRST_DERIV_POS_4.
Proof. value_exact_tac first4_rows offset_range4. Qed.
Lemma value_second2 : value_exact 2 2 3 SECOND_DERIV_COEFF_2 SECOND_DERIV_POS_2.
Proof. value_exact_tac second2_rows offset_range2. Qed.
Lemma value_second4 : value_exact 2 4 5 SECOND_DERIV_COEFF_4 SECOND_DERIV_POS_4.
Proof. value_exact_tac second4_rows offset_range4. Qed.

Theorem derivative_value_exact :
  value_exact 1 2 2 FIRST_DERIV_COEFF_2 FIRST_DERIV_POS_2 /\
  value_exact 1 4 4 FIRST_DERIV_COEFF_4 FIRST_DERIV_POS_4 /\
  value_exact 2 2 3 SECOND_DERIV_COEFF_2 SECOND_DERIV_POS_2 /\
  value_exact 2 4 5 SECOND_DERIV_COEFF_4 SECOND_DERIV_POS_4.
Proof. exact (conj value_first2 (conj value_first4 (conj value_second2 value_second4))). Qed.
Print Assumptions derivative_value_exact.

(** non-vacuity: a cubic, a negative step, a narrow interval -- the model value IS computed
    and is the derivative (3 x^2 at x = 1/2 is 3/4) *)
Example value_exact_instance :
  match derivQ offset FIRST_DERIV_COEFF_4 FIRST_DERIV_POS_4 1 4 (pevalQ [0; 0; 0; 1]) (1#2)
               (-(1#3)) (Fin 0) (Fin 1) with
  | Some v => v == 3#4
  | None => False
  end.
Proof. vm_compute. reflexivity. Qed.

(** ** 7. the whole contract for intervals at least as wide as the stencil: abscissas inside
       the bounds AND exact value, for one and the same selected row *)
Definition contract (n : nat) (order : Z) (npts : nat) (K : Q) (coefT posT : list (list Q)) : Prop :=
  forall (a : list Q) x dx lb ub, 0 < dx -> in_bounds lb ub x -> wide lb ub K dx ->
    (length a <= npts)%nat ->
    exists pts v, eval_points offset posT order x dx lb ub = Some pts /\
                  Forall (in_bounds lb ub) pts /\
                  derivQ offset coefT posT n order (pevalQ a) x dx lb ub = Some v /\
                  Q2R v = peval (pderivn n (map Q2R a)) (Q2R x).

Lemma contract_of n order npts K coefT posT :
  points_ok posT order K -> value_exact n order npts coefT posT -> contract n order npts K coefT posT.
Proof.
  intros HP HV a x dx lb ub Hdx Hin Hw Ha.
  specialize (HP x dx lb ub Hdx Hin Hw).
  destruct (eval_points offset posT order x dx lb ub) as [pts|]; [|contradiction].
  assert (Hnz : ~ dx == 0) by (intro E; rewrite E in Hdx; discriminate).
  destruct (HV a x dx lb ub Hnz Ha) as [v [Hv Ev]].
  exists pts, v. repeat split; assumption.
Qed.

Theorem derivative_exact_and_in_bounds :
  contract 1 2 2 2 FIRST_DERIV_COEFF_2 FIRST_DERIV_POS_2 /\
  contract 1 4 4 4 FIRST_DERIV_COEFF_4 FIRST_DERIV_POS_4 /\
  contract 2 2 3 3 SECOND_DERIV_COEFF_2 SECOND_DERIV_POS_2 /\
  contract 2 4 5 5 SECOND_DERIV_COEFF_4 SECOND_DERIV_POS_4.
Proof.
  repeat split.
  - exact (contract_of _ _ _ _ _ _ points_first2 value_first2).
  - exact (contract_of _ _ _ _ _ _ points_first4 value_first4).
  - exact (contract_of _ _ _ _ _ _ points_second2 value_second2).
  - exact (contract_of _ _ _ _ _ _ points_second4 value_second4).
Qed.
Print Assumptions derivative_exact_and_in_bounds.

(** ** 8. intervals NARROWER than the stencil (known finding D5 / narrow-bounds).  Precisely:
       (a) the value is still exact (section 6, no hypothesis on the bounds);
       (b) if the interval is narrower than ONE step, some abscissa is outside the bounds
           for every admissible x, for all four tables;
       (c) the width K*dx of section 5 is sharp: at width (K - 1/2) dx there is an x whose
           stencil leaves the interval, for all four tables; and the recorded input
           (x = 1/2, dx = 1, bounds (0,1), order 2, n = 1) is one such witness. *)
Definition leaves_if_narrower_than_step (posT : list (list Q)) (order : Z) : Prop :=
  forall x dx l u, 0 < dx -> l <= x -> x <= u -> u - l < dx ->
    match eval_points offset posT order x dx (Fin l) (Fin u) with
    | Some pts => Exists (fun p => ~ in_bounds (Fin l) (Fin u) p) pts
    | None => False
    end.

Ltac exists_out_tac :=
  first [ apply Exists_cons_hd; unfold in_bounds; intros [? ?]; lra
        | apply Exists_cons_tl; exists_out_tac ].

Ltac narrow_tac :=
  intros x dx l u Hdx Hl Hu Hn;
  unfold eval_points, offset, gt_b, lt_b;
  cmp_cases;
  try (exfalso; lra);
  match goal with
  | |- context [pyindex ?t ?z] =>
      let r := eval vm_compute in (pyindex t z) in change (pyindex t z) with r
  end;
  cbn [option_map map];
  exists_out_tac.

Lemma narrow_first2 : leaves_if_narrower_than_step FIRST_DERIV_POS_2 2.
Proof. narrow_tac. Qed.
Lemma narrow_second2 : leaves_if_narrower_than_step SECOND_DERIV_POS_2 2.
Proof. narrow_tac. Qed.
Lemma narrow_first4 : leaves_if_narrower_than_step FIRST_DERIV_POS_4 4.
Proof. narrow_tac. Qed.
Lemma narrow_second4 : leaves_if_narrower_than_step SECOND_DERIV_POS_4 4.
Proof. narrow_tac. Qed.

Theorem narrow_interval_leaves_bounds :
  leaves_if_narrower_than_step FIRST_DERIV_POS_2 2 /\
  leaves_if_narrower_than_step SECOND_DERIV_POS_2 2 /\
  leaves_if_narrower_than_step FIRST_DERIV_POS_4 4 /\
  leaves_if_narrower_than_step SECOND_DERIV_POS_4 4.
Proof. exact (conj narrow_first2 (conj narrow_second2 (conj narrow_first4 narrow_second4))). Qed.
Print Assumptions narrow_interval_leaves_bounds.

Definition refuted_at (posT : list (list Q)) (order : Z) (K : Q) : Prop :=
  exists x dx lb ub, 0 < dx /\ in_bounds lb ub x /\ wide lb ub (K - (1#2)) dx /\
    match eval_points offset posT order x dx lb ub with
    | Some pts => Exists (fun p => ~ in_bounds lb ub p) pts
    | None => True
    end.

Ltac refute_tac K :=
  exists (3#4), 1, (Fin 0), (Fin (K - (1#2)));
  split; [reflexivity|]; split; [unfold in_bounds; split; discriminate|];
  split; [unfold wide; discriminate|];
  vm_compute;
  repeat first [ apply Exists_cons_hd; intros [H1 H2];
                 first [apply H1; reflexivity | apply H2; reflexivity]
               | apply Exists_cons_tl ].

Theorem stays_in_bounds_narrow_refuted :
  (* the recorded input of the known finding *)
  (exists x dx lb ub, x = (1#2) /\ dx = 1 /\ lb = Fin 0 /\ ub = Fin 1 /\
     0 < dx /\ in_bounds lb ub x /\
     match eval_points offset FIRST_DERIV_POS_2 2 x dx lb ub with
     | Some pts => Exists (fun p => ~ in_bounds lb ub p) pts
     | None => True
     end) /\
  (* K is sharp for every table *)
  refuted_at FIRST_DERIV_POS_2 2 2 /\ refuted_at SECOND_DERIV_POS_2 2 3 /\
  refuted_at FIRST_DERIV_POS_4 4 4 /\ refuted_at SECOND_DERIV_POS_4 4 5.
Proof.
  split.
  - exists (1#2), 1, (Fin 0), (Fin 1). repeat (split; [reflexivity|]). split.
    + unfold in_bounds; split; discriminate.
    + vm_compute. apply Exists_cons_hd. intros [H _]. apply H. reflexivity.
  - repeat split.
    + refute_tac 2.
    + refute_tac 3.
    + refute_tac 4.
    + refute_tac 5.
Qed.
Print Assumptions stays_in_bounds_narrow_refuted.

(** ** 9. the call sites in EffectivePotential (facts generated from effectivePotential.py).
       derivT: n, order and bounds are whatever the source passes (or the defaults of
       helpers.derivative); the theorem is about THOSE values. *)
Definition posT_of (n : nat) (order : Z) : list (list Q) :=
  match n, order with
  | 1%nat, 2%Z => FIRST_DERIV_POS_2 | 1%nat, 4%Z => FIRST_DERIV_POS_4
  | 2%nat, 2%Z => SECOND_DERIV_POS_2 | 2%nat, 4%Z => SECOND_DERIV_POS_4
  | _, _ => []
  end.
Definition coefT_of (n : nat) (order : Z) : list (list Q) :=
  match n, order with
  | 1%nat, 2%Z => FIRST_DERIV_COEFF_2 | 1%nat, 4%Z => FIRST_DERIV_COEFF_4
  | 2%nat, 2%Z => SECOND_DERIV_COEFF_2 | 2%nat, 4%Z => SECOND_DERIV_COEFF_4
  | _, _ => []
  end.
Definition K_of (n : nat) (order : Z) : Q :=
  match n, order with
  | 1%nat, 2%Z => 2 | 1%nat, 4%Z => 4 | 2%nat, 2%Z => 3 | 2%nat, 4%Z => 5 | _, _ => 0
  end.
Definition npts_of (n : nat) (order : Z) : nat :=
  match n, order with
  | 1%nat, 2%Z => 2 | 1%nat, 4%Z => 4 | 2%nat, 2%Z => 3 | 2%nat, 4%Z => 5 | _, _ => 0
  end.

Lemma derivT_points : points_ok (posT_of derivT_n derivT_order) derivT_order (K_of derivT_n derivT_order).
Proof.
  first [ exact points_first2 | exact points_first4 | exact points_second2 | exact points_second4 ].
Qed.
Lemma derivT_value :
  value_exact derivT_n derivT_order (npts_of derivT_n derivT_order)
              (coefT_of derivT_n derivT_order) (posT_of derivT_n derivT_order).
Proof.
  first [ exact value_first2 | exact value_first4 | exact value_second2 | exact value_second4 ].
Qed.

(** derivT never evaluates the potential at T < 0, for every admissible T (including T = 0
    and T within two steps of 0) and every step dT > 0 -- an ASSUMPTION: the step is
    temperatureVariationScale * effectivePotentialError^(1/5) and nothing in the code makes the
    scale positive; with a negative scale derivT(T=0) evaluates at T < 0 on the unchanged
    tree (logged by the check as an observation, outside the quantifier) -- and returns the exact T-derivative
    of potentials polynomial in T of degree <= #points - 1. *)
Theorem derivT_bound_positive_step :
  forall (a : list Q) T dT, in_bounds derivT_lb derivT_ub T -> 0 < dT ->
    (length a <= npts_of derivT_n derivT_order)%nat ->
    exists pts v,
      eval_points offset (posT_of derivT_n derivT_order) derivT_order T dT derivT_lb derivT_ub
        = Some pts /\
      Forall (fun t => 0 <= t) pts /\
      derivQ offset (coefT_of derivT_n derivT_order) (posT_of derivT_n derivT_order)
             derivT_n derivT_order (pevalQ a) T dT derivT_lb derivT_ub = Some v /\
      Q2R v = peval (pderivn derivT_n (map Q2R a)) (Q2R T).
Proof.
  intros a T dT Hin HdT Ha.
  assert (Hw : wide derivT_lb derivT_ub (K_of derivT_n derivT_order) dT) by exact I.
  destruct (contract_of _ _ _ _ _ _ derivT_points derivT_value a T dT _ _ HdT Hin Hw Ha)
    as [pts [v [Hp [Hb [Hv Ev]]]]].
  exists pts, v. repeat split; try assumption.
  eapply Forall_impl; [|exact Hb].
  intros t [Ht _]. unfold derivT_lb in Ht. lra.
Qed.
Print Assumptions derivT_bound_positive_step.

(** the hypotheses of [derivT_bound_positive_step] are satisfiable at the bound itself *)
Example derivT_bound_nonvacuous :
  in_bounds derivT_lb derivT_ub 0 /\ (0 < npts_of derivT_n derivT_order)%nat /\
  posT_of derivT_n derivT_order <> [].
Proof.
  split; [unfold in_bounds, derivT_lb, derivT_ub; split; [discriminate|exact I]|].
  split; [vm_compute; lia|discriminate].
Qed.

(** gradient / hessian call sites: the combined array has the fields in slots 0..nf-1 and
    the temperature in slot nf (both in __combineInputs, which writes every slot of the
    np.empty buffer, and in __wrapperPotential); the combined scales have the same layout,
    and the scale of the temperature slot is the one derivT uses; derivField differentiates
    along the field slots; deriv2FieldT pairs field slots with the temperature slot and
    drops the length-1 axis; deriv2Field2 is the field-field block; allSecondDerivatives
    computes the full Hessian and slices field-field, (T, fields) and (T, T).  For every
    number of fields nf >= 1. *)
Definition order_ok (o : Z) : Prop := o = 2%Z \/ o = 4%Z.

Lemma nth_slots nf : nth nf (repeat FieldScale nf ++ [TempScale]) FieldScale = TempScale.
Proof.
  rewrite app_nth2; rewrite repeat_length; [|lia]. rewrite Nat.sub_diag. reflexivity.
Qed.

Theorem potential_call_sites : forall nf : nat, (1 <= nf)%nat ->
  let len := S nf in
  sel combine_fields len = Some (seq 0 nf) /\ sel combine_T len = Some [nf] /\
  sel wrapper_fields len = Some (seq 0 nf) /\ sel wrapper_T len = Some [nf] /\
  scale_slots scales_layout nf = repeat FieldScale nf ++ [TempScale] /\
  nth nf (scale_slots scales_layout nf) FieldScale = derivT_scale /\
  axes_sel derivField_axis nf len = Some (seq 0 nf) /\
  axes_sel deriv2FieldT_x nf len = Some (seq 0 nf) /\
  axes_sel deriv2FieldT_y nf len = Some [nf] /\
  sel deriv2FieldT_post 1 = Some [0%nat] /\
  axes_sel deriv2Field2_x nf len = Some (seq 0 nf) /\
  axes_sel deriv2Field2_y nf len = Some (seq 0 nf) /\
  axes_sel allSecond_x nf len = Some (seq 0 len) /\
  axes_sel allSecond_y nf len = Some (seq 0 len) /\
  (sel (fst allSecond_hess) len, sel (snd allSecond_hess) len)
    = (Some (seq 0 nf), Some (seq 0 nf)) /\
  (* (T, fields) block, in either orientation: the Hessian stencil is symmetric *)
  ((sel (fst allSecond_dgraddT) len, sel (snd allSecond_dgraddT) len)
     = (Some [nf], Some (seq 0 nf)) \/
   (sel (fst allSecond_dgraddT) len, sel (snd allSecond_dgraddT) len)
     = (Some (seq 0 nf), Some [nf])) /\
  (sel (fst allSecond_d2VdT2) len, sel (snd allSecond_d2VdT2) len)
    = (Some [nf], Some [nf]) /\
  order_ok derivT_order /\ order_ok derivField_order /\ order_ok deriv2FieldT_order /\
  order_ok deriv2Field2_order /\ order_ok allSecond_order.
Proof.
  intros nf Hnf len. subst len.
  assert (Hs : scale_slots scales_layout nf = repeat FieldScale nf ++ [TempScale]).
  { unfold scale_slots, scales_layout. cbn [flat_map]. rewrite app_nil_r. reflexivity. }
  unfold combine_fields, combine_T, wrapper_fields, wrapper_T, derivField_axis,
    deriv2FieldT_x, deriv2FieldT_y, deriv2FieldT_post, deriv2Field2_x, deriv2Field2_y,
    allSecond_x, allSecond_y, allSecond_hess, allSecond_dgraddT, allSecond_d2VdT2,
    derivT_scale, order_ok, derivT_order, derivField_order, deriv2FieldT_order,
    deriv2Field2_order, allSecond_order.
  cbn [fst snd axes_sel].
  rewrite ?sel_last, ?sel_upto_last, ?axes_last, ?sel_first, ?pynorm_last, Hs, nth_slots.
  cbn [option_map].
  repeat split; try reflexivity; first [left; reflexivity | right; reflexivity].
Qed.
Print Assumptions potential_call_sites.

(** the stencils used at those call sites (generated order, generated row numbers) are the
    ones proved exact in sections 3 and 4 *)
Theorem potential_stencils_exact :
  (forall c p, nth_error (coefT_of 1 derivField_order) gradient_row = Some c ->
               nth_error (posT_of 1 derivField_order) gradient_row = Some p ->
               row_exact 1 (Z.to_nat derivField_order) c p) /\
  (allSecond_order = 4%Z -> hess_exact 5 HESSIAN_COEFF_4 HESSIAN_POS_4) /\
  (allSecond_order = 2%Z -> hess_exact 3 HESSIAN_COEFF_2 HESSIAN_POS_2) /\
  allSecond_order = deriv2Field2_order /\ allSecond_order = deriv2FieldT_order.
Proof.
  split.
  - destruct gradient_exact as [_ [G2 G4]].
    first [ exact G4 | exact G2 ].
  - split; [intros _; exact hess4|]. split; [intros _; exact hess2|].
    split; reflexivity.
Qed.
Print Assumptions potential_stencils_exact.
