(** C20 -- thermal integrals, their shipped tables and the ideal-gas limit.

    Everything below is about text GENERATED ON THIS RUN from the current sources:
      GenC20.Integrands      the six integrands of JbIntegral / JfIntegral and the two `wrapper`
                             closures (pyrx, from PotentialTools/integrals.py);
      GenC20.ThermalSumGen   potentialOneLoopThermal and the enum EImaginaryOption
                             (from PotentialTools/effectivePotentialNoResum.py);
      GenC20.Ctors           how the two constructors pass their parameters to the base class;
      GenC20.TabJb / TabJf   the 10000 rows of the two shipped data files, as exact rationals.
    External (never axioms): scipy's quad is the record field [quad]/[quad_inf] of Integrands.env;
    the integrals object used by the potential is the record ThermalSumGen.env (fields Jb, Jf);
    the closed forms Jb(0) = -pi^4/45, Jf(0) = -7 pi^4/360 are hypotheses of [stefan_boltzmann]
    (validated numerically by the harness). *)
From Coq Require Import Reals Lra List ZArith Bool Lia.
From WG Require Import Lib.NumpySem Lib.ThermalTrig Lib.ThermalSum Lib.ThermalTables Lib.ThermalClosed.
From GenC20 Require Integrands ThermalSumGen TabJb TabJf Ctors.
Import ListNotations.
Local Open Scope R_scope.

(** * 1. the negative-argument integrands are the principal logarithm of 1 -+ exp(-i s) *)
Module I := Integrands.
Section Integrands.
Variable e : I.env.
Notation epsb := I.Jb_SMALL_NUMBER.
Notation epsf := I.Jf_SMALL_NUMBER.

Lemma epsb_pos : 0 < epsb. Proof. unfold epsb. lra. Qed.
Lemma epsf_pos : 0 < epsf. Proof. unfold epsf. lra. Qed.

(** the constant written in the integrands is the class constant *)
Lemma pos_branch_forms x y :
  I.JbPosReal e x y = y ^ 2 * ln (1 - exp (- sqrt (y ^ 2 + x)) + epsb) /\
  I.JfPosReal e x y = - (y ^ 2 * ln (1 + exp (- sqrt (y ^ 2 + x)) + epsf)).
Proof. unfold I.JbPosReal, I.JfPosReal, epsb, epsf. split; ring. Qed.

(** real parts: |1 - e^{-is}| and |1 + e^{-is}|, for EVERY x, y (s = sqrt(-y^2-x)) *)
Lemma neg_branch_real_Jb x y :
  let s := sqrt (- y ^ 2 - x) in
  I.JbNegReal e x y = y ^ 2 * ln (sqrt ((1 - cos s) ^ 2 + (sin s) ^ 2) + epsb).
Proof.
  intros s. rewrite mod_one_minus_expi. unfold I.JbNegReal, epsb, s.
  replace (1 / 2 * sqrt (- y ^ 2 - x)) with (sqrt (- y ^ 2 - x) / 2) by field.
  reflexivity.
Qed.

Lemma neg_branch_real_Jf x y :
  let s := sqrt (- y ^ 2 - x) in
  I.JfNegReal e x y = - (y ^ 2 * ln (sqrt ((1 + cos s) ^ 2 + (- sin s) ^ 2) + epsf)).
Proof.
  intros s. rewrite mod_one_plus_expi. unfold I.JfNegReal, epsf, s.
  replace (1 / 2 * sqrt (- y ^ 2 - x)) with (sqrt (- y ^ 2 - x) / 2) by field.
  ring.
Qed.

(** imaginary part, bosonic.  Write s = 2u + 2k pi with 0 < u < pi (possible for every s > 0 that
    is not a multiple of 2 pi, see [s_decomposes]).  Then theta = pi/2 - u = (pi - s)/2 + k pi is
    the PRINCIPAL argument of 1 - e^{-is} (polar form with theta in (-pi/2,pi/2)), and the
    generated integrand is y^2 theta up to y^2 eps -- outside the sliver -eps <= tan(s/2) <= 0. *)
Lemma neg_branch_imag_Jb x y u (k : nat) :
  sqrt (- y ^ 2 - x) = 2 * u + 2 * INR k * PI -> 0 < u < PI ->
  ~ (- epsb <= tan u <= 0) ->
  let s := sqrt (- y ^ 2 - x) in
  let theta := PI / 2 - u in
  (y ^ 2 * (theta - epsb) <= I.JbNegImag e x y <= y ^ 2 * theta) /\
  theta = (PI - s) / 2 + INR k * PI /\
  (1 - cos s = 2 * Rabs (sin (s / 2)) * cos theta /\
   sin s = 2 * Rabs (sin (s / 2)) * sin theta /\
   - PI / 2 < theta < PI / 2 /\ 0 < 2 * Rabs (sin (s / 2))).
Proof.
  intros Hs Hu Ht s theta.
  split; [|split].
  - unfold I.JbNegImag. fold epsb.
    replace (1 / 2 * sqrt (- y ^ 2 - x)) with (u + INR k * PI) by (rewrite Hs; field).
    assert (Ht' : ~ (- epsb <= tan (u + INR k * PI) <= 0)) by (rewrite tan_shift; exact Ht).
    pose proof (atan_inv_tan_regulated u k epsb (Rlt_le _ _ epsb_pos) Hu Ht') as [A B].
    assert (0 <= y ^ 2) by (simpl; nra).
    unfold theta. split; nra.
  - unfold theta, s. rewrite Hs. field.
  - unfold s. rewrite Hs. exact (polar_one_minus_expi u k Hu).
Qed.

(** first sheet: the familiar closed form (pi - s)/2 is right for 0 < s < 2 pi ... *)
Corollary neg_branch_imag_Jb_first_sheet x y :
  let s := sqrt (- y ^ 2 - x) in
  0 < s < 2 * PI -> ~ (- epsb <= tan (s / 2) <= 0) ->
  y ^ 2 * ((PI - s) / 2 - epsb) <= I.JbNegImag e x y <= y ^ 2 * ((PI - s) / 2).
Proof.
  intros s Hs Ht.
  destruct (neg_branch_imag_Jb x y (s / 2) 0) as [H _].
  - unfold s. simpl INR. field.
  - lra.
  - exact Ht.
  - replace (PI / 2 - s / 2) with ((PI - s) / 2) in H by field. exact H.
Qed.

(** ... and wrong by pi on the second sheet 2 pi < s < 4 pi (x < -4 pi^2): the principal argument
    wraps.  An implementation returning y^2 (pi - s)/2 there contradicts this lemma. *)
Corollary neg_branch_imag_Jb_wraps x y :
  let s := sqrt (- y ^ 2 - x) in
  2 * PI < s < 4 * PI -> ~ (- epsb <= tan (s / 2 - PI) <= 0) ->
  y ^ 2 * ((PI - s) / 2 + PI - epsb) <= I.JbNegImag e x y.
Proof.
  intros s Hs Ht.
  destruct (neg_branch_imag_Jb x y (s / 2 - PI) 1) as [H _].
  - unfold s. simpl INR. field.
  - lra.
  - exact Ht.
  - replace (PI / 2 - (s / 2 - PI)) with ((PI - s) / 2 + PI) in H by field. apply H.
Qed.

(** whatever the arguments, the imaginary integrands are bounded by y^2 pi/2 (an arctan);
    the unwrapped closed form is not *)
Lemma neg_imag_bounded x y :
  Rabs (I.JbNegImag e x y) <= y ^ 2 * (PI / 2) /\ Rabs (I.JfNegImag e x y) <= y ^ 2 * (PI / 2).
Proof.
  assert (Hy : 0 <= y ^ 2) by (simpl; nra).
  unfold I.JbNegImag, I.JfNegImag. split; rewrite Rabs_mult, (Rabs_pos_eq _ Hy);
    apply Rmult_le_compat_l; try assumption; left; apply atan_abs_bound.
Qed.

(** imaginary part, fermionic: s = 2v + 2k pi, |v| < pi/2; the principal argument of
    1 + e^{-is} is -v, and Jf = - integral, so the integrand of Im Jf is + y^2 v *)
Lemma neg_branch_imag_Jf x y v (k : nat) :
  sqrt (- y ^ 2 - x) = 2 * v + 2 * INR k * PI -> - PI / 2 < v < PI / 2 ->
  let s := sqrt (- y ^ 2 - x) in
  let theta := - v in
  (y ^ 2 * (- theta) <= I.JfNegImag e x y <= y ^ 2 * (- theta + epsf)) /\
  (1 + cos s = 2 * Rabs (cos (s / 2)) * cos theta /\
   - sin s = 2 * Rabs (cos (s / 2)) * sin theta /\
   - PI / 2 < theta < PI / 2 /\ 0 < 2 * Rabs (cos (s / 2))).
Proof.
  intros Hs Hv s theta. split.
  - unfold I.JfNegImag. fold epsf.
    replace (1 / 2 * sqrt (- y ^ 2 - x)) with (v + INR k * PI) by (rewrite Hs; field).
    pose proof (atan_tan_regulated v k epsf (Rlt_le _ _ epsf_pos) Hv) as [A B].
    assert (0 <= y ^ 2) by (simpl; nra).
    unfold theta. split; nra.
  - unfold s. rewrite Hs. exact (polar_one_plus_expi v k Hv).
Qed.

(** the hypotheses are satisfiable for every s > 0 off the branch points *)
Lemma s_decomposes s : 0 < s ->
  (exists (k : nat) u, s = 2 * u + 2 * INR k * PI /\ 0 < u < PI) \/
  (exists k : nat, s = 2 * INR k * PI).
Proof.
  intros Hs.
  destruct (decompose_period s (2 * PI) ltac:(pose proof PI_RGT_0; lra) ltac:(lra))
    as [k [r [E [R0 R1]]]].
  destruct (Req_dec r 0) as [Z|NZ].
  - right. exists k. rewrite E, Z. ring.
  - left. exists k, (r / 2). split; [rewrite E; field|lra].
Qed.

(** * 2. which integrand is integrated where: the pieces meet at y = sqrt|x| *)
Lemma split_point_Jb x : x < 0 ->
  let c := sqrt (- x) in
  I.JbWrapper e x =
    (I.quad e (I.JbNegReal e x) 0 c + I.quad_inf e (I.JbPosReal e x) c,
     I.quad e (I.JbNegImag e x) 0 c) /\
  c ^ 2 + x = 0 /\ 0 < c /\
  (forall y, 0 <= y < c -> 0 < - y ^ 2 - x) /\      (* negative-argument formulas: s > 0 *)
  (forall y, c < y -> 0 < y ^ 2 + x) /\             (* ordinary formula: real square root *)
  I.JbNegReal e x c = I.JbPosReal e x c.           (* the two real integrands agree at the split *)
Proof.
  intros Hx c.
  assert (Hc : 0 < c) by (apply sqrt_lt_R0; lra).
  assert (Hcc : c ^ 2 = - x) by (unfold c; simpl; rewrite Rmult_1_r, sqrt_sqrt; lra).
  split; [|split; [|split; [|split; [|split]]]].
  - unfold I.JbWrapper. destruct (Rle_dec 0 x); [lra|].
    rewrite (Rabs_left x Hx). reflexivity.
  - lra.
  - exact Hc.
  - intros y [Hy0 Hy1]. assert (y ^ 2 < c ^ 2) by (simpl; nra). lra.
  - intros y Hy. assert (c ^ 2 < y ^ 2) by (simpl; nra). lra.
  - unfold I.JbNegReal, I.JbPosReal.
    replace (- c ^ 2 - x) with 0 by lra. replace (c ^ 2 + x) with 0 by lra.
    rewrite sqrt_0, Rmult_0_r, sin_0, Rabs_R0, Ropp_0, exp_0. f_equal. f_equal. ring.
Qed.

Lemma split_point_Jf x : x < 0 ->
  let c := sqrt (- x) in
  I.JfWrapper e x =
    (I.quad e (I.JfNegReal e x) 0 c + I.quad_inf e (I.JfPosReal e x) c,
     I.quad e (I.JfNegImag e x) 0 c) /\
  c ^ 2 + x = 0 /\ 0 < c /\
  (forall y, 0 <= y < c -> 0 < - y ^ 2 - x) /\
  (forall y, c < y -> 0 < y ^ 2 + x) /\
  I.JfNegReal e x c = I.JfPosReal e x c.
Proof.
  intros Hx c.
  assert (Hc : 0 < c) by (apply sqrt_lt_R0; lra).
  assert (Hcc : c ^ 2 = - x) by (unfold c; simpl; rewrite Rmult_1_r, sqrt_sqrt; lra).
  split; [|split; [|split; [|split; [|split]]]].
  - unfold I.JfWrapper. destruct (Rle_dec 0 x); [lra|].
    rewrite (Rabs_left x Hx). reflexivity.
  - lra.
  - exact Hc.
  - intros y [Hy0 Hy1]. assert (y ^ 2 < c ^ 2) by (simpl; nra). lra.
  - intros y Hy. assert (c ^ 2 < y ^ 2) by (simpl; nra). lra.
  - unfold I.JfNegReal, I.JfPosReal.
    replace (- c ^ 2 - x) with 0 by lra. replace (c ^ 2 + x) with 0 by lra.
    rewrite sqrt_0, Rmult_0_r, cos_0, Rabs_R1, Ropp_0, exp_0. f_equal. f_equal. ring.
Qed.

Lemma nonneg_argument x : 0 <= x ->
  I.JbWrapper e x = (I.quad_inf e (I.JbPosReal e x) 0, 0) /\
  I.JfWrapper e x = (I.quad_inf e (I.JfPosReal e x) 0, 0) /\
  (forall y, 0 < y -> 0 < y ^ 2 + x).
Proof.
  intros Hx. unfold I.JbWrapper, I.JfWrapper. destruct (Rle_dec 0 x); [|lra].
  repeat split. intros y Hy. assert (0 < y ^ 2) by (simpl; nra). lra.
Qed.
(** the dispatcher of _functionImplementation (scalar branch; the generator checks that the
    array branch applies the same expression to every element) adds nothing to `wrapper` *)
Lemma dispatcher_Jb x : I.JbEval e x = I.JbWrapper e x.
Proof. unfold I.JbEval. cbv zeta. destruct (I.JbWrapper e x). reflexivity. Qed.
Lemma dispatcher_Jf x : I.JfEval e x = I.JfWrapper e x.
Proof. unfold I.JfEval. cbv zeta. destruct (I.JfWrapper e x). reflexivity. Qed.
End Integrands.

(** * 3. the one-loop thermal sum *)
Module S := ThermalSumGen.
Section Sum.
Variable e : S.env.
Notation eps := S.SMALL_NUMBER.
Lemma eps_pos : 0 < eps.
Proof. unfold eps. lra. Qed.

(** T^4/(2 pi^2) * ( sum_b n_b Re Jb(m_b^2/T^2) + sum_f n_f Re Jf(m_f^2/T^2) ) *)
Definition thermal_value (mB nB mF nF : list R) (T : R) : R :=
  (sumR (zipR (fun a b => a * b) nB (map (fun m => fst (S.Jb e (m / (T ^ 2 + eps)))) mB)) +
   sumR (zipR (fun a b => a * b) nF (map (fun m => fst (S.Jf e (m / (T ^ 2 + eps)))) mF)))
  * T ^ 4 / (2 * PI * PI).

Definition has_negative (mB mF : list R) : bool :=
  existsb (fun m => if Rlt_dec m 0 then true else false) mB ||
  existsb (fun m => if Rlt_dec m 0 then true else false) mF.

Theorem thermal_sum_form opt mB nB mF nF T :
  S.potentialOneLoopThermal e opt mB nB mF nF T =
  match opt with
  | S.ABS_ARGUMENT => Some (thermal_value (map Rabs mB) nB (map Rabs mF) nF T)
  | S.PRINCIPAL_PART => Some (thermal_value mB nB mF nF T)
  | S.ABS_RESULT => Some (if has_negative mB mF then Rabs (thermal_value mB nB mF nF T)
                          else thermal_value mB nB mF nF T)
  | S.ERROR => if has_negative mB mF then None else Some (thermal_value mB nB mF nF T)
  end.
Proof.
  unfold S.potentialOneLoopThermal, thermal_value, has_negative.
  destruct opt; cbn [S.EImaginaryOption_eq_dec S.EImaginaryOption_rec S.EImaginaryOption_rect
                     sumbool_rec sumbool_rect];
    rewrite ?map_map.
  - destruct (_ || _); reflexivity.
  - assert (H : existsb (fun m => if Rlt_dec m 0 then true else false) (map Rabs mB) ||
               existsb (fun m => if Rlt_dec m 0 then true else false) (map Rabs mF) = false).
    { rewrite !existsb_neg_false by apply Forall_abs_nonneg. reflexivity. }
    rewrite H. reflexivity.
  - destruct (_ || _); reflexivity.
  - destruct (_ || _); reflexivity.
Qed.

(** Stefan-Boltzmann: massless content of n_b bosonic and n_f fermionic degrees of freedom *)
Theorem stefan_boltzmann opt mB nB mF nF T :
  fst (S.Jb e 0) = - PI ^ 4 / 45 -> fst (S.Jf e 0) = - 7 * PI ^ 4 / 360 ->
  Forall (fun m => m = 0) mB -> Forall (fun m => m = 0) mF ->
  length nB = length mB -> length nF = length mF ->
  S.potentialOneLoopThermal e opt mB nB mF nF T =
  Some (- (PI ^ 2 / 90) * (sumR nB + 7 / 8 * sumR nF) * T ^ 4).
Proof.
  intros Hb Hf ZB ZF LB LF.
  assert (NB : Forall (fun m => 0 <= m) mB) by (eapply Forall_impl; [|exact ZB]; simpl; intros; lra).
  assert (NF : Forall (fun m => 0 <= m) mF) by (eapply Forall_impl; [|exact ZF]; simpl; intros; lra).
  assert (AB : map Rabs mB = mB).
  { clear - ZB. induction ZB as [|m l Hm _ IH]; simpl; [reflexivity|]. rewrite IH, Hm, Rabs_R0. reflexivity. }
  assert (AF : map Rabs mF = mF).
  { clear - ZF. induction ZF as [|m l Hm _ IH]; simpl; [reflexivity|]. rewrite IH, Hm, Rabs_R0. reflexivity. }
  assert (HN : has_negative mB mF = false).
  { unfold has_negative. rewrite !existsb_neg_false by assumption. reflexivity. }
  assert (V : thermal_value mB nB mF nF T = - (PI ^ 2 / 90) * (sumR nB + 7 / 8 * sumR nF) * T ^ 4).
  { unfold thermal_value.
    rewrite (sumR_zip_const nB _ (- PI ^ 4 / 45)), (sumR_zip_const nF _ (- 7 * PI ^ 4 / 360)).
    - pose proof PI_RGT_0. field. lra.
    - rewrite map_length. exact LF.
    - apply Forall_map. eapply Forall_impl; [|exact ZF]. cbv beta. intros m ->.
      unfold Rdiv at 1. rewrite Rmult_0_l. exact Hf.
    - rewrite map_length. exact LB.
    - apply Forall_map. eapply Forall_impl; [|exact ZB]. cbv beta. intros m ->.
      unfold Rdiv at 1. rewrite Rmult_0_l. exact Hb. }
  rewrite thermal_sum_form. destruct opt; rewrite ?AB, ?AF, ?HN, V; reflexivity.
Qed.

(** Boltzmann suppression: if |Re J| <= delta beyond X (the envelope is validated by the harness
    and by the table theorems), a spectrum with all m^2/T^2 >= X contributes at most
    delta * (sum |n|) * T^4 / (2 pi^2) *)
Theorem heavy_suppressed opt mB nB mF nF T X delta :
  (forall x, X <= x -> Rabs (fst (S.Jb e x)) <= delta) ->
  (forall x, X <= x -> Rabs (fst (S.Jf e x)) <= delta) ->
  0 <= X ->
  Forall (fun m => X <= m / (T ^ 2 + eps)) mB -> Forall (fun m => X <= m / (T ^ 2 + eps)) mF ->
  length nB = length mB -> length nF = length mF ->
  exists v, S.potentialOneLoopThermal e opt mB nB mF nF T = Some v /\
    Rabs v <= delta * (sumR (map Rabs nB) + sumR (map Rabs nF)) * T ^ 4 / (2 * PI * PI).
Proof.
  intros Eb Ef HX HB HF LB LF.
  assert (He : 0 < T ^ 2 + eps).
  { assert (0 <= T ^ 2) by (simpl; nra). pose proof eps_pos. lra. }
  assert (pos : forall l, Forall (fun m => X <= m / (T ^ 2 + eps)) l -> Forall (fun m => 0 <= m) l).
  { intros l H. eapply Forall_impl; [|exact H]. cbv beta. intros m Hm.
    assert (0 <= m / (T ^ 2 + eps)) by lra.
    replace m with (m / (T ^ 2 + eps) * (T ^ 2 + eps)) by (field; lra). nra. }
  assert (NB := pos _ HB). assert (NF := pos _ HF).
  assert (AB : map Rabs mB = mB).
  { clear - NB. induction NB as [|m l Hm _ IH]; simpl; [reflexivity|]. rewrite IH, Rabs_pos_eq by assumption. reflexivity. }
  assert (AF : map Rabs mF = mF).
  { clear - NF. induction NF as [|m l Hm _ IH]; simpl; [reflexivity|]. rewrite IH, Rabs_pos_eq by assumption. reflexivity. }
  assert (HN : has_negative mB mF = false).
  { unfold has_negative. rewrite !existsb_neg_false by assumption. reflexivity. }
  exists (thermal_value mB nB mF nF T). split.
  - rewrite thermal_sum_form. destruct opt; rewrite ?AB, ?AF, ?HN; reflexivity.
  - unfold thermal_value.
    assert (B1 : Rabs (sumR (zipR (fun a b => a * b) nB (map (fun m => fst (S.Jb e (m / (T ^ 2 + eps)))) mB)))
                 <= delta * sumR (map Rabs nB)).
    { apply sumR_zip_bound; [rewrite map_length; exact LB|]. apply Forall_map.
      eapply Forall_impl; [|exact HB]. cbv beta. intros m Hm. apply Eb. exact Hm. }
    assert (B2 : Rabs (sumR (zipR (fun a b => a * b) nF (map (fun m => fst (S.Jf e (m / (T ^ 2 + eps)))) mF)))
                 <= delta * sumR (map Rabs nF)).
    { apply sumR_zip_bound; [rewrite map_length; exact LF|]. apply Forall_map.
      eapply Forall_impl; [|exact HF]. cbv beta. intros m Hm. apply Ef. exact Hm. }
    set (a := sumR _) in *. set (b := sumR (zipR _ nF _)) in *.
    assert (HT : 0 <= T ^ 4) by (replace (T ^ 4) with ((T ^ 2) ^ 2) by ring; apply pow2_ge_0).
    assert (HP : 0 < 2 * PI * PI) by (pose proof PI_RGT_0; nra).
    unfold Rdiv. rewrite !Rabs_mult, (Rabs_pos_eq (T ^ 4)) by assumption.
    rewrite (Rabs_pos_eq (/ (2 * PI * PI))) by (left; apply Rinv_0_lt_compat; assumption).
    assert (Hab : Rabs (a + b) <= delta * (sumR (map Rabs nB) + sumR (map Rabs nF))).
    { eapply Rle_trans; [apply Rabs_triang|]. lra. }
    assert (0 < / (2 * PI * PI)) by (apply Rinv_0_lt_compat; assumption).
    apply Rmult_le_compat_r; [lra|]. apply Rmult_le_compat_r; assumption.
Qed.

(** an ARRAY of temperatures (the `ndim > 0` branch, generated separately): the result is the
    list of the scalar results, the raise / abs decisions being those of the (T-independent)
    masses *)
Theorem thermal_sum_array_form opt mB nB mF nF Ts :
  S.potentialOneLoopThermalArr e opt mB nB mF nF Ts =
  match opt with
  | S.ABS_ARGUMENT => Some (map (thermal_value (map Rabs mB) nB (map Rabs mF) nF) Ts)
  | S.PRINCIPAL_PART => Some (map (thermal_value mB nB mF nF) Ts)
  | S.ABS_RESULT => Some (if has_negative mB mF
                          then map (fun T => Rabs (thermal_value mB nB mF nF T)) Ts
                          else map (thermal_value mB nB mF nF) Ts)
  | S.ERROR => if has_negative mB mF then None else Some (map (thermal_value mB nB mF nF) Ts)
  end.
Proof.
  assert (K : forall a b,
    map (fun t => t / (2 * PI * PI))
      (zipR (fun p q => p * q)
         (zipR (fun p q => p + q)
            (map sumR (map (zipR (fun p q => p * q) nB) (map (map fst)
               (map (map (S.Jb e)) (map (fun t => map (fun m => m / t) a)
                  (map (fun t => t + eps) (map (fun t => t ^ 2) Ts)))))))
            (map sumR (map (zipR (fun p q => p * q) nF) (map (map fst)
               (map (map (S.Jf e)) (map (fun t => map (fun m => m / t) b)
                  (map (fun t => t + eps) (map (fun t => t ^ 2) Ts))))))))
         (map (fun t => t ^ 4) Ts))
    = map (thermal_value a nB b nF) Ts).
  { intros a b. rewrite !map_map. rewrite !zipR_map_same. rewrite map_map.
    apply map_ext. intros T. unfold thermal_value. rewrite !map_map. reflexivity. }
  unfold S.potentialOneLoopThermalArr, has_negative.
  destruct opt; cbn [S.EImaginaryOption_eq_dec S.EImaginaryOption_rec S.EImaginaryOption_rect
                     sumbool_rec sumbool_rect]; cbv zeta; rewrite K.
  - destruct (_ || _); reflexivity.
  - assert (H : existsb (fun m => if Rlt_dec m 0 then true else false) (map Rabs mB) ||
               existsb (fun m => if Rlt_dec m 0 then true else false) (map Rabs mF) = false).
    { rewrite !existsb_neg_false by apply Forall_abs_nonneg. reflexivity. }
    rewrite H. reflexivity.
  - destruct (_ || _); [rewrite map_map|]; reflexivity.
  - destruct (_ || _); reflexivity.
Qed.

(** array and scalar calls agree element by element *)
Corollary array_is_map_of_scalar opt mB nB mF nF Ts i T :
  nth_error Ts i = Some T ->
  match S.potentialOneLoopThermalArr e opt mB nB mF nF Ts,
        S.potentialOneLoopThermal e opt mB nB mF nF T with
  | Some l, Some v => nth_error l i = Some v
  | None, None => True
  | _, _ => False
  end.
Proof.
  intros H. rewrite thermal_sum_array_form, thermal_sum_form.
  destruct opt; try destruct (has_negative mB mF); try exact I;
    erewrite map_nth_error by exact H; reflexivity.
Qed.

(** continuity in the masses.  Re Jb, Re Jf are NOT globally Lipschitz with a useful constant
    (|dRe Jb/dx| reaches 3 below the first branch point), so the bound is required on an interval
    [a, b] of arguments only -- the harness validates L = pi^2/12 (1.01) for Jb on [-9.5, 60] and
    0.6 for Jf on [-6, 60] -- and all m^2/(T^2+eps) are assumed inside.  Then the thermal sum moves
    by at most  T^4/(2 pi^2) / (T^2+eps) (Lb sum_b |n_i||dm_i^2| + Lf sum_f |n_i||dm_i^2|). *)
Definition args_in (a b T : R) (m : list R) : Prop :=
  Forall (fun x => a <= x / (T ^ 2 + eps) <= b) m.

Theorem mass_lipschitz ab bb af bf mB mB' nB mF mF' nF T Lb Lf :
  (forall x y, ab <= x <= bb -> ab <= y <= bb ->
     Rabs (fst (S.Jb e x) - fst (S.Jb e y)) <= Lb * Rabs (x - y)) ->
  (forall x y, af <= x <= bf -> af <= y <= bf ->
     Rabs (fst (S.Jf e x) - fst (S.Jf e y)) <= Lf * Rabs (x - y)) ->
  args_in ab bb T mB -> args_in ab bb T mB' -> args_in af bf T mF -> args_in af bf T mF' ->
  length nB = length mB -> length mB = length mB' ->
  length nF = length mF -> length mF = length mF' ->
  Rabs (thermal_value mB nB mF nF T - thermal_value mB' nB mF' nF T) <=
  T ^ 4 / (2 * PI * PI) * / (T ^ 2 + eps) *
  (Lb * sumR (zipR (fun p q => p * q) (map Rabs nB) (map Rabs (zipR (fun p q => p - q) mB mB'))) +
   Lf * sumR (zipR (fun p q => p * q) (map Rabs nF) (map Rabs (zipR (fun p q => p - q) mF mF')))).
Proof.
  intros HLb HLf Ib Ib' If If' B1 B2 F1 F2.
  assert (He : 0 < T ^ 2 + eps).
  { assert (0 <= T ^ 2) by (simpl; nra). pose proof eps_pos. lra. }
  assert (scaled : forall (J : R -> R * R) a b L,
    (forall x y, a <= x <= b -> a <= y <= b ->
       Rabs (fst (J x) - fst (J y)) <= L * Rabs (x - y)) ->
    forall x y, a <= x / (T ^ 2 + eps) <= b -> a <= y / (T ^ 2 + eps) <= b ->
      Rabs ((fun m => fst (J (m / (T ^ 2 + eps)))) x -
            (fun m => fst (J (m / (T ^ 2 + eps)))) y)
      <= L * / (T ^ 2 + eps) * Rabs (x - y)).
  { intros J a b L HJ x y Hx Hy. cbv beta. eapply Rle_trans; [apply HJ; assumption|].
    replace (x / (T ^ 2 + eps) - y / (T ^ 2 + eps)) with ((x - y) * / (T ^ 2 + eps))
      by (field; lra).
    rewrite Rabs_mult, (Rabs_pos_eq (/ (T ^ 2 + eps)))
      by (left; apply Rinv_0_lt_compat; lra).
    right. ring. }
  pose proof (sumR_zip_lipschitz _ _ _ nB mB mB' (scaled _ _ _ _ HLb) Ib Ib' B1 B2) as Db.
  pose proof (sumR_zip_lipschitz _ _ _ nF mF mF' (scaled _ _ _ _ HLf) If If' F1 F2) as Df.
  unfold thermal_value.
  set (a := sumR (zipR _ nB (map _ mB))) in *. set (a' := sumR (zipR _ nB (map _ mB'))) in *.
  set (b := sumR (zipR _ nF (map _ mF))) in *. set (b' := sumR (zipR _ nF (map _ mF'))) in *.
  set (sb := sumR (zipR _ (map Rabs nB) _)) in *. set (sf := sumR (zipR _ (map Rabs nF) _)) in *.
  assert (HT : 0 <= T ^ 4) by (replace (T ^ 4) with ((T ^ 2) ^ 2) by ring; apply pow2_ge_0).
  assert (HP : 0 < / (2 * PI * PI)) by (apply Rinv_0_lt_compat; pose proof PI_RGT_0; nra).
  replace ((a + b) * T ^ 4 / (2 * PI * PI) - (a' + b') * T ^ 4 / (2 * PI * PI))
    with (((a - a') + (b - b')) * (T ^ 4 * / (2 * PI * PI))) by (unfold Rdiv; ring).
  rewrite Rabs_mult, (Rabs_pos_eq (T ^ 4 * / _)) by nra.
  assert (Hab : Rabs (a - a' + (b - b')) <= / (T ^ 2 + eps) * (Lb * sb + Lf * sf)).
  { eapply Rle_trans; [apply Rabs_triang|]. lra. }
  assert (0 <= T ^ 4 * / (2 * PI * PI)) by nra.
  unfold Rdiv in *. nra.
Qed.

(** the interval hypotheses are satisfiable together with the closed forms at 0 (affine J) *)
Example lipschitz_hypotheses_satisfiable :
  exists (e0 : S.env) (L : R), 0 < L /\
    fst (S.Jb e0 0) = - PI ^ 4 / 45 /\ fst (S.Jf e0 0) = - 7 * PI ^ 4 / 360 /\
    (forall x y, -1 <= x <= 1 -> -1 <= y <= 1 ->
       Rabs (fst (S.Jb e0 x) - fst (S.Jb e0 y)) <= L * Rabs (x - y)) /\
    (forall x y, -1 <= x <= 1 -> -1 <= y <= 1 ->
       Rabs (fst (S.Jf e0 x) - fst (S.Jf e0 y)) <= L * Rabs (x - y)).
Proof.
  exists (S.mk_env (fun x => (- PI ^ 4 / 45 + x / 2, 0)) (fun x => (- 7 * PI ^ 4 / 360 - x / 3, 0))), 1.
  cbn [S.Jb S.Jf fst]. repeat split; try lra; intros x y _ _.
  - replace (- PI ^ 4 / 45 + x / 2 - (- PI ^ 4 / 45 + y / 2)) with ((x - y) * / 2) by field.
    rewrite Rabs_mult, (Rabs_pos_eq (/ 2)) by lra. pose proof (Rabs_pos (x - y)). lra.
  - replace (- 7 * PI ^ 4 / 360 - x / 3 - (- 7 * PI ^ 4 / 360 - y / 3)) with ((x - y) * - / 3) by field.
    rewrite Rabs_mult, Rabs_Ropp, (Rabs_pos_eq (/ 3)) by lra. pose proof (Rabs_pos (x - y)). lra.
Qed.

(** the hypotheses of the two theorems are satisfiable (e.g. constant J) *)
Example sum_hypotheses_satisfiable :
  exists e0 : S.env, fst (S.Jb e0 0) = - PI ^ 4 / 45 /\ fst (S.Jf e0 0) = - 7 * PI ^ 4 / 360.
Proof.
  exists (S.mk_env (fun _ => (- PI ^ 4 / 45, 0)) (fun _ => (- 7 * PI ^ 4 / 360, 0))). split; reflexivity.
Qed.
End Sum.

(** * 4. the shipped tables (exact rational arithmetic; the integer z stands for z / U, U = 10^30) *)
Local Open Scope Z_scope.

Definition XMIN : Z := -20 * U.
Definition XMAX : Z := 1000 * U.

(** ** 4.1 grid: 10000 rows, uniform to 1e-12, strictly increasing, spanning [-20, 1000] *)
Definition table_grid (rows : list row) : Prop :=
  length rows = 10000%nat /\
  option_map rx (nth_error rows 0) = Some XMIN /\
  option_map rx (nth_error rows 9999) = Some XMAX /\
  (forall i r, nth_error rows i = Some r ->
     Z.abs (rx r * 9999 - (XMIN * 9999 + (XMAX - XMIN) * Z.of_nat i)) <= 9999 * (U / 10 ^ 12)) /\
  (forall i a b t, skipn i rows = a :: b :: t -> rx a < rx b).

(* constants are passed as arguments: the VM is call-by-value, so they are computed once, not once
   per row *)
Definition grid_row (x0 dx tol : Z) (i : Z) (r : row) : bool :=
  Z.abs (rx r * 9999 - (x0 + dx * i)) <=? tol.
Definition incr_win (l : list row) : bool :=
  match l with a :: b :: _ => rx a <? rx b | _ => true end.
Definition opt_eqb (a : option Z) (b : Z) : bool :=
  match a with Some v => v =? b | None => false end.
Definition grid_check (rows : list row) : bool :=
  (Nat.eqb (length rows) 10000 && opt_eqb (option_map rx (nth_error rows 0)) XMIN &&
   opt_eqb (option_map rx (nth_error rows 9999)) XMAX &&
   all_idx (grid_row (XMIN * 9999) (XMAX - XMIN) (9999 * (U / 10 ^ 12))) 0 rows &&
   all_tails incr_win rows)%bool.

Lemma opt_eqb_sound a b : opt_eqb a b = true -> a = Some b.
Proof. destruct a; simpl; [|discriminate]. intros H. apply Z.eqb_eq in H. congruence. Qed.

Lemma grid_sound rows : grid_check rows = true -> table_grid rows.
Proof.
  unfold grid_check. rewrite !andb_true_iff. intros [[[[H1 H2] H3] H4] H5].
  split; [apply Nat.eqb_eq; exact H1|].
  split; [apply opt_eqb_sound; exact H2|].
  split; [apply opt_eqb_sound; exact H3|]. split.
  - intros i r E. pose proof (all_idx_sound _ _ _ H4 i r E) as H. unfold grid_row in H.
    apply Z.leb_le in H. rewrite Z.add_0_l in H. exact H.
  - intros i a b t E. pose proof (all_tails_sound _ _ H5 i) as H. rewrite E in H.
    simpl in H. apply Z.ltb_lt. exact H.
Qed.

(** ** 4.2 imaginary column: exactly zero for x > 0, positive for x < 0 *)
Definition table_imag (rows : list row) : Prop :=
  forall r, In r rows -> (0 < rx r -> rim r = 0) /\ (rx r < 0 -> 0 < rim r).
Definition imag_row (r : row) : bool :=
  ((if 0 <? rx r then rim r =? 0 else true) && (if rx r <? 0 then 0 <? rim r else true))%bool.
Lemma imag_sound rows : forallb imag_row rows = true -> table_imag rows.
Proof.
  intros H r Hr. pose proof (forallb_In _ _ H r Hr) as C. unfold imag_row in C.
  apply andb_true_iff in C. destruct C as [C1 C2]. split; intros Hx.
  - apply Z.ltb_lt in Hx. rewrite Hx in C1. apply Z.eqb_eq. exact C1.
  - apply Z.ltb_lt in Hx. rewrite Hx in C2. apply Z.ltb_lt. exact C2.
Qed.

(** ** 4.3 shape of the real part on x > 0: negative; strictly increasing while |J| > 1e-7 and
    never decreasing by more than 1e-11; strictly concave while |J| > 1e-6 and second differences
    below 1e-10 afterwards (the files carry ~1e-11 of quadrature noise); |J| <= 1e-7 from x = 441 *)
Definition table_shape (rows : list row) : Prop :=
  (forall r, In r rows -> 0 < rx r -> rre r < 0) /\
  (forall r, In r rows -> 441 * U <= rx r -> - (U / 10 ^ 7) <= rre r) /\
  (forall i a b t, skipn i rows = a :: b :: t -> 0 < rx a ->
     (rre b < - (U / 10 ^ 7) -> rre a < rre b) /\ - (U / 10 ^ 11) <= rre b - rre a) /\
  (forall i a b c t, skipn i rows = a :: b :: c :: t -> 0 < rx a ->
     (rre c < - (U / 10 ^ 6) -> d2 (rre a) (rre b) (rre c) < 0) /\
     (- (U / 10 ^ 6) <= rre a -> Z.abs (d2 (rre a) (rre b) (rre c)) <= U / 10 ^ 10)).

Definition shape_row (x441 m7 : Z) (r : row) : bool :=
  ((if 0 <? rx r then rre r <? 0 else true) &&
   (if x441 <=? rx r then m7 <=? rre r else true))%bool.
Definition shape_win2 (m7 m11 : Z) (l : list row) : bool :=
  match l with
  | a :: b :: _ =>
      if 0 <? rx a then
        ((if rre b <? m7 then rre a <? rre b else true) && (m11 <=? rre b - rre a))%bool
      else true
  | _ => true
  end.
Definition shape_win3 (m6 p10 : Z) (l : list row) : bool :=
  match l with
  | a :: b :: c :: _ =>
      if 0 <? rx a then
        ((if rre c <? m6 then d2 (rre a) (rre b) (rre c) <? 0 else true) &&
         (if m6 <=? rre a then Z.abs (d2 (rre a) (rre b) (rre c)) <=? p10 else true))%bool
      else true
  | _ => true
  end.
Definition shape_check rows : bool :=
  (forallb (shape_row (441 * U) (- (U / 10 ^ 7))) rows &&
   all_tails (shape_win2 (- (U / 10 ^ 7)) (- (U / 10 ^ 11))) rows &&
   all_tails (shape_win3 (- (U / 10 ^ 6)) (U / 10 ^ 10)) rows)%bool.

Lemma shape_sound rows : shape_check rows = true -> table_shape rows.
Proof.
  unfold shape_check. rewrite !andb_true_iff. intros [[H1 H2] H3].
  split; [|split; [|split]].
  - intros r Hr Hx. pose proof (forallb_In _ _ H1 r Hr) as C. unfold shape_row in C.
    apply andb_true_iff in C. destruct C as [C _]. apply Z.ltb_lt in Hx. rewrite Hx in C.
    apply Z.ltb_lt. exact C.
  - intros r Hr Hx. pose proof (forallb_In _ _ H1 r Hr) as C. unfold shape_row in C.
    apply andb_true_iff in C. destruct C as [_ C]. apply Z.leb_le in Hx. rewrite Hx in C.
    apply Z.leb_le. exact C.
  - intros i a b t E Hx. pose proof (all_tails_sound _ _ H2 i) as C. rewrite E in C.
    unfold shape_win2 in C. apply Z.ltb_lt in Hx. rewrite Hx in C.
    apply andb_true_iff in C. destruct C as [C1 C2]. split.
    + intros Hb. apply Z.ltb_lt in Hb. rewrite Hb in C1. apply Z.ltb_lt. exact C1.
    + apply Z.leb_le. exact C2.
  - intros i a b c t E Hx. pose proof (all_tails_sound _ _ H3 i) as C. rewrite E in C.
    unfold shape_win3 in C. apply Z.ltb_lt in Hx. rewrite Hx in C.
    apply andb_true_iff in C. destruct C as [C1 C2]. split.
    + intros Hc. apply Z.ltb_lt in Hc. rewrite Hc in C1. apply Z.ltb_lt. exact C1.
    + intros Ha. apply Z.leb_le in Ha. rewrite Ha in C2. apply Z.leb_le. exact C2.
Qed.

(** ** 4.4 smoothness: fourth differences.  For five consecutive rows a..e inside a region where the
    function is analytic,  |d4| <= K / x_c^2 + N  (K, N in units of 1e-12; N = 2e-10 is the noise
    floor of the files).  A single entry off by delta moves three neighbouring fourth differences
    by 4 delta, 6 delta, 4 delta: with K = 1e-4 an isolated error above ~1e-7 at |x| ~ 12 is
    excluded.  Regions: Jb  |x| >= 1 (non-analytic at 0 only);  Jf  -7 <= x <= -1 or x >= 1
    (non-analytic at 0 and at -pi^2).  Below -12.5 the Jf file is rough (unresolved kink of the
    integrand, see the harness): only |d4 re| <= 2e-3 and |d4 im| <= 0.3 hold there. *)
Definition d4_small (K N : Z) (xc d : Z) : Prop :=
  Z.abs d * xc ^ 2 * 10 ^ 12 <= K * U ^ 3 + N * xc ^ 2 * U.
(* checker: with D = |d4| 1e12 - N U, the bound reads D x_c^2 <= K U^3; D <= 0 (always the case
   in the tail of the files) needs no multiplication *)
Definition d4_smallb (KU3 NU : Z) (xc d : Z) : bool :=
  let D := Z.abs d * 1000000000000 - NU in
  if D <=? 0 then true else D * (xc * xc) <=? KU3.
Lemma d4_smallb_sound K N xc d : 0 <= K -> d4_smallb (K * U ^ 3) (N * U) xc d = true ->
  d4_small K N xc d.
Proof.
  intros HK. unfold d4_smallb, d4_small. cbv zeta.
  replace (10 ^ 12) with 1000000000000 by reflexivity.
  replace (xc ^ 2) with (xc * xc) by ring.
  assert (0 <= xc * xc) by nia. assert (0 <= K * U ^ 3) by (pose proof U_pos; nia).
  destruct (Z.leb_spec (Z.abs d * 1000000000000 - N * U) 0) as [L|L]; intros C.
  - nia.
  - apply Z.leb_le in C. nia.
Qed.

Definition table_smooth (region : Z -> Z -> bool) (Kre Kim N : Z) (rows : list row) : Prop :=
  forall i a b c d e t, skipn i rows = a :: b :: c :: d :: e :: t -> region (rx a) (rx e) = true ->
    d4_small Kre N (rx c) (d4 (rre a) (rre b) (rre c) (rre d) (rre e)) /\
    d4_small Kim N (rx c) (d4 (rim a) (rim b) (rim c) (rim d) (rim e)).
Definition smooth_win (region : Z -> Z -> bool) (KreU3 KimU3 NU : Z) (l : list row) : bool :=
  match l with
  | a :: b :: c :: d :: e :: _ =>
      if region (rx a) (rx e) then
        (d4_smallb KreU3 NU (rx c) (d4 (rre a) (rre b) (rre c) (rre d) (rre e)) &&
         d4_smallb KimU3 NU (rx c) (d4 (rim a) (rim b) (rim c) (rim d) (rim e)))%bool
      else true
  | _ => true
  end.
Lemma smooth_sound region Kre Kim N rows : 0 <= Kre -> 0 <= Kim ->
  all_tails (smooth_win region (Kre * U ^ 3) (Kim * U ^ 3) (N * U)) rows = true ->
  table_smooth region Kre Kim N rows.
Proof.
  intros K1 K2 H i a b c d e t E R. pose proof (all_tails_sound _ _ H i) as C. rewrite E in C.
  unfold smooth_win in C. rewrite R in C. apply andb_true_iff in C. destruct C as [C1 C2].
  split; apply d4_smallb_sound; assumption.
Qed.

Definition region_Jb (xa xe : Z) : bool := ((xe <=? - U) || (U <=? xa))%bool.
Definition region_Jf (xa xe : Z) : bool :=
  (((-7000000000000000000000000000000 <=? xa) && (xe <=? - U)) || (U <=? xa))%bool.      (* -7 U *)
Definition region_Jf_low (xa xe : Z) : bool := xe <=? -12500000000000000000000000000000. (* -12.5 U *)

Definition table_rough (region : Z -> Z -> bool) (Bre Bim : Z) (rows : list row) : Prop :=
  forall i a b c d e t, skipn i rows = a :: b :: c :: d :: e :: t -> region (rx a) (rx e) = true ->
    Z.abs (d4 (rre a) (rre b) (rre c) (rre d) (rre e)) <= Bre /\
    Z.abs (d4 (rim a) (rim b) (rim c) (rim d) (rim e)) <= Bim.
Definition rough_win (region : Z -> Z -> bool) (Bre Bim : Z) (l : list row) : bool :=
  match l with
  | a :: b :: c :: d :: e :: _ =>
      if region (rx a) (rx e) then
        ((Z.abs (d4 (rre a) (rre b) (rre c) (rre d) (rre e)) <=? Bre) &&
         (Z.abs (d4 (rim a) (rim b) (rim c) (rim d) (rim e)) <=? Bim))%bool
      else true
  | _ => true
  end.
Lemma rough_sound region Bre Bim rows :
  all_tails (rough_win region Bre Bim) rows = true -> table_rough region Bre Bim rows.
Proof.
  intros H i a b c d e t E R. pose proof (all_tails_sound _ _ H i) as C. rewrite E in C.
  unfold rough_win in C. rewrite R in C. apply andb_true_iff in C. destruct C as [C1 C2].
  split; apply Z.leb_le; assumption.
Qed.

(** ** the two files *)
Notation JbRows := TabJb.JbRows.
Notation JfRows := TabJf.JfRows.

Theorem table_grid_Jb : table_grid JbRows.
Proof. apply grid_sound. vm_compute. reflexivity. Qed.
Theorem table_grid_Jf : table_grid JfRows.
Proof. apply grid_sound. vm_compute. reflexivity. Qed.
Theorem table_imag_Jb : table_imag JbRows.
Proof. apply imag_sound. vm_compute. reflexivity. Qed.
Theorem table_imag_Jf : table_imag JfRows.
Proof. apply imag_sound. vm_compute. reflexivity. Qed.
Theorem table_shape_Jb : table_shape JbRows.
Proof. apply shape_sound. vm_compute. reflexivity. Qed.
Theorem table_shape_Jf : table_shape JfRows.
Proof. apply shape_sound. vm_compute. reflexivity. Qed.
(** K = 1e-4 for both columns of Jb; Jf: K = 5e-4 (real), 1e-9 (imaginary: a quadratic there) *)
Theorem table_smooth_Jb : table_smooth region_Jb (10 ^ 8) (10 ^ 8) 200 JbRows.
Proof. apply smooth_sound; [lia|lia|]. vm_compute. reflexivity. Qed.
Theorem table_smooth_Jf :
  table_smooth region_Jf (5 * 10 ^ 8) (10 ^ 3) 200 JfRows /\
  table_rough region_Jf_low (2 * (U / 10 ^ 3)) (3 * (U / 10)) JfRows.
Proof. split; [apply smooth_sound; [lia|lia|]|apply rough_sound]; vm_compute; reflexivity. Qed.

(** ** 4.4b the same with band-wise constants.  The x-axis is cut into geometric bands (ratio
    1.25, signed); in each band |d4| of both columns is bounded by twice the largest value found
    in the shipped file (never below the 2e-10 noise floor).  Calibrated on the shipped files, as
    the design allows; a regenerated table with different quadrature noise may need new numbers.
    An isolated node error delta changes the fourth differences centred on the node and its
    neighbours by 6, 4, 4 delta, so it is excluded above (bound + actual)/6 <= bound/4:
    2e-7 at x = 3.4, 4e-8 at x = 10, 5e-11 beyond x = 55. *)
Definition band := (Z * Z * Z * Z)%type.      (* lo <= x_c < hi, bound real, bound imaginary *)
Definition bands_Jb : list (Z * Z * Z * Z) := [
  (-21000000000000000000000000000000, -18189892802450229709035222052067, 41000000000000000000000, 45000000000000000000000);
  (-18189892802450229709035222052067, -14551912568306010928961748633879, 22000000000000000000000, 79000000000000000000000);
  (-14551912568306010928961748633879, -11641532756489493201483312731767, 67000000000000000000000, 140000000000000000000000);
  (-11641532756489493201483312731767, -9313225058004640371229698375870, 130000000000000000000000, 240000000000000000000000);
  (-9313225058004640371229698375870, -7450581395348837209302325581395, 230000000000000000000000, 430000000000000000000000);
  (-7450581395348837209302325581395, -5960465116279069767441860465116, 360000000000000000000000, 720000000000000000000000);
  (-5960465116279069767441860465116, -4768370607028753993610223642172, 570000000000000000000000, 1300000000000000000000000);
  (-4768370607028753993610223642172, -3814696485623003194888178913738, 890000000000000000000000, 2200000000000000000000000);
  (-3814696485623003194888178913738, -3051756007393715341959334565619, 1500000000000000000000000, 3900000000000000000000000);
  (-3051756007393715341959334565619, -2441406250000000000000000000000, 2300000000000000000000000, 6800000000000000000000000);
  (-2441406250000000000000000000000, -1953125000000000000000000000000, 3300000000000000000000000, 11000000000000000000000000);
  (-1953125000000000000000000000000, -1562500000000000000000000000000, 5100000000000000000000000, 19000000000000000000000000);
  (-1562500000000000000000000000000, -1250000000000000000000000000000, 7700000000000000000000000, 32000000000000000000000000);
  (-1250000000000000000000000000000, -1000000000000000000000000000000, 9000000000000000000000000, 39000000000000000000000000);
  (1000000000000000000000000000000, 1250000000000000000000000000000, 31000000000000000000000000, 200000000000000000000);
  (1250000000000000000000000000000, 1562500000000000000000000000000, 25000000000000000000000000, 200000000000000000000);
  (1562500000000000000000000000000, 1953125000000000000000000000000, 14000000000000000000000000, 200000000000000000000);
  (1953125000000000000000000000000, 2441406250000000000000000000000, 7600000000000000000000000, 200000000000000000000);
  (2441406250000000000000000000000, 3051756007393715341959334565619, 4600000000000000000000000, 200000000000000000000);
  (3051756007393715341959334565619, 3814696485623003194888178913738, 2500000000000000000000000, 200000000000000000000);
  (3814696485623003194888178913738, 4768370607028753993610223642172, 1300000000000000000000000, 200000000000000000000);
  (4768370607028753993610223642172, 5960465116279069767441860465116, 700000000000000000000000, 200000000000000000000);
  (5960465116279069767441860465116, 7450581395348837209302325581395, 360000000000000000000000, 200000000000000000000);
  (7450581395348837209302325581395, 9313225058004640371229698375870, 180000000000000000000000, 200000000000000000000);
  (9313225058004640371229698375870, 11641532756489493201483312731767, 91000000000000000000000, 200000000000000000000);
  (11641532756489493201483312731767, 14551912568306010928961748633879, 45000000000000000000000, 200000000000000000000);
  (14551912568306010928961748633879, 18189892802450229709035222052067, 22000000000000000000000, 200000000000000000000);
  (18189892802450229709035222052067, 22737362637362637362637362637362, 9600000000000000000000, 200000000000000000000);
  (22737362637362637362637362637362, 28421708185053380782918149466192, 4300000000000000000000, 200000000000000000000);
  (28421708185053380782918149466192, 35527139874739039665970772442588, 1900000000000000000000, 200000000000000000000);
  (35527139874739039665970772442588, 44408921933085501858736059479553, 680000000000000000000, 200000000000000000000);
  (44408921933085501858736059479553, 55511152416356877323420074349442, 250000000000000000000, 200000000000000000000);
  (55511152416356877323420074349442, 69388944723618090452261306532663, 200000000000000000000, 200000000000000000000);
  (69388944723618090452261306532663, 86736175115207373271889400921658, 200000000000000000000, 200000000000000000000);
  (86736175115207373271889400921658, 108420219244823386114494518879415, 200000000000000000000, 200000000000000000000);
  (108420219244823386114494518879415, 135525270758122743682310469314079, 200000000000000000000, 200000000000000000000);
  (135525270758122743682310469314079, 169406593406593406593406593406593, 200000000000000000000, 200000000000000000000);
  (169406593406593406593406593406593, 211758241758241758241758241758241, 200000000000000000000, 200000000000000000000);
  (211758241758241758241758241758241, 264697796432318992654774396642182, 200000000000000000000, 200000000000000000000);
  (264697796432318992654774396642182, 330872246696035242290748898678414, 200000000000000000000, 200000000000000000000);
  (330872246696035242290748898678414, 413590308370044052863436123348017, 200000000000000000000, 200000000000000000000);
  (413590308370044052863436123348017, 516987885462555066079295154185022, 200000000000000000000, 200000000000000000000);
  (516987885462555066079295154185022, 646234856535600425079702444208289, 200000000000000000000, 200000000000000000000);
  (646234856535600425079702444208289, 807793565683646112600536193029490, 200000000000000000000, 200000000000000000000);
  (807793565683646112600536193029490, 1001000000000000000000000000000000, 200000000000000000000, 200000000000000000000)].
Definition bands_Jf : list (Z * Z * Z * Z) := [
  (-7450581395348837209302325581395, -5960465116279069767441860465116, 7100000000000000000000000, 200000000000000000000);
  (-5960465116279069767441860465116, -4768370607028753993610223642172, 3800000000000000000000000, 200000000000000000000);
  (-4768370607028753993610223642172, -3814696485623003194888178913738, 1500000000000000000000000, 200000000000000000000);
  (-3814696485623003194888178913738, -3051756007393715341959334565619, 450000000000000000000000, 200000000000000000000);
  (-3051756007393715341959334565619, -2441406250000000000000000000000, 1400000000000000000000000, 200000000000000000000);
  (-2441406250000000000000000000000, -1953125000000000000000000000000, 2500000000000000000000000, 200000000000000000000);
  (-1953125000000000000000000000000, -1562500000000000000000000000000, 4500000000000000000000000, 200000000000000000000);
  (-1562500000000000000000000000000, -1250000000000000000000000000000, 7100000000000000000000000, 200000000000000000000);
  (-1250000000000000000000000000000, -1000000000000000000000000000000, 8500000000000000000000000, 200000000000000000000);
  (1000000000000000000000000000000, 1250000000000000000000000000000, 8900000000000000000000000, 200000000000000000000);
  (1250000000000000000000000000000, 1562500000000000000000000000000, 7600000000000000000000000, 200000000000000000000);
  (1562500000000000000000000000000, 1953125000000000000000000000000, 4900000000000000000000000, 200000000000000000000);
  (1953125000000000000000000000000, 2441406250000000000000000000000, 3100000000000000000000000, 200000000000000000000);
  (2441406250000000000000000000000, 3051756007393715341959334565619, 2100000000000000000000000, 200000000000000000000);
  (3051756007393715341959334565619, 3814696485623003194888178913738, 1300000000000000000000000, 200000000000000000000);
  (3814696485623003194888178913738, 4768370607028753993610223642172, 730000000000000000000000, 200000000000000000000);
  (4768370607028753993610223642172, 5960465116279069767441860465116, 440000000000000000000000, 200000000000000000000);
  (5960465116279069767441860465116, 7450581395348837209302325581395, 250000000000000000000000, 200000000000000000000);
  (7450581395348837209302325581395, 9313225058004640371229698375870, 140000000000000000000000, 200000000000000000000);
  (9313225058004640371229698375870, 11641532756489493201483312731767, 74000000000000000000000, 200000000000000000000);
  (11641532756489493201483312731767, 14551912568306010928961748633879, 39000000000000000000000, 200000000000000000000);
  (14551912568306010928961748633879, 18189892802450229709035222052067, 20000000000000000000000, 200000000000000000000);
  (18189892802450229709035222052067, 22737362637362637362637362637362, 9000000000000000000000, 200000000000000000000);
  (22737362637362637362637362637362, 28421708185053380782918149466192, 4100000000000000000000, 200000000000000000000);
  (28421708185053380782918149466192, 35527139874739039665970772442588, 1900000000000000000000, 200000000000000000000);
  (35527139874739039665970772442588, 44408921933085501858736059479553, 670000000000000000000, 200000000000000000000);
  (44408921933085501858736059479553, 55511152416356877323420074349442, 250000000000000000000, 200000000000000000000);
  (55511152416356877323420074349442, 69388944723618090452261306532663, 200000000000000000000, 200000000000000000000);
  (69388944723618090452261306532663, 86736175115207373271889400921658, 200000000000000000000, 200000000000000000000);
  (86736175115207373271889400921658, 108420219244823386114494518879415, 200000000000000000000, 200000000000000000000);
  (108420219244823386114494518879415, 135525270758122743682310469314079, 200000000000000000000, 200000000000000000000);
  (135525270758122743682310469314079, 169406593406593406593406593406593, 200000000000000000000, 200000000000000000000);
  (169406593406593406593406593406593, 211758241758241758241758241758241, 200000000000000000000, 200000000000000000000);
  (211758241758241758241758241758241, 264697796432318992654774396642182, 200000000000000000000, 200000000000000000000);
  (264697796432318992654774396642182, 330872246696035242290748898678414, 200000000000000000000, 200000000000000000000);
  (330872246696035242290748898678414, 413590308370044052863436123348017, 200000000000000000000, 200000000000000000000);
  (413590308370044052863436123348017, 516987885462555066079295154185022, 200000000000000000000, 200000000000000000000);
  (516987885462555066079295154185022, 646234856535600425079702444208289, 200000000000000000000, 200000000000000000000);
  (646234856535600425079702444208289, 807793565683646112600536193029490, 200000000000000000000, 200000000000000000000);
  (807793565683646112600536193029490, 1001000000000000000000000000000000, 200000000000000000000, 200000000000000000000)].

Definition in_band (xc : Z) (b : band) : bool :=
  let '(lo, hi, _, _) := b in ((lo <=? xc) && (xc <? hi))%bool.
Definition table_bands (region : Z -> Z -> bool) (bands : list band) (rows : list row) : Prop :=
  forall i a b c d e t, skipn i rows = a :: b :: c :: d :: e :: t -> region (rx a) (rx e) = true ->
    (exists bd, In bd bands /\ in_band (rx c) bd = true) /\
    (forall lo hi Bre Bim, In (lo, hi, Bre, Bim) bands -> lo <= rx c < hi ->
       Z.abs (d4 (rre a) (rre b) (rre c) (rre d) (rre e)) <= Bre /\
       Z.abs (d4 (rim a) (rim b) (rim c) (rim d) (rim e)) <= Bim).
Definition bands_win (region : Z -> Z -> bool) (bands : list band) (l : list row) : bool :=
  match l with
  | a :: b :: c :: d :: e :: _ =>
      if region (rx a) (rx e) then
        let dre := Z.abs (d4 (rre a) (rre b) (rre c) (rre d) (rre e)) in
        let dim := Z.abs (d4 (rim a) (rim b) (rim c) (rim d) (rim e)) in
        let xc := rx c in
        (existsb (in_band xc) bands &&
         forallb (fun bd : band => let '(lo, hi, Bre, Bim) := bd in
                    if ((lo <=? xc) && (xc <? hi))%bool
                    then ((dre <=? Bre) && (dim <=? Bim))%bool else true) bands)%bool
      else true
  | _ => true
  end.
Lemma bands_sound region bands rows :
  all_tails (bands_win region bands) rows = true -> table_bands region bands rows.
Proof.
  intros H i a b c d e t E R. pose proof (all_tails_sound _ _ H i) as C. rewrite E in C.
  unfold bands_win in C. rewrite R in C. cbv zeta in C.
  apply andb_true_iff in C. destruct C as [C1 C2]. split.
  - apply existsb_exists in C1. destruct C1 as [bd [I1 I2]]. exists bd. split; assumption.
  - intros lo hi Bre Bim Hin [L1 L2].
    pose proof (forallb_In _ _ C2 _ Hin) as C. cbv beta iota in C.
    apply Z.leb_le in L1. apply Z.ltb_lt in L2. rewrite L1, L2 in C. simpl in C.
    apply andb_true_iff in C. destruct C as [A1 A2]. split; apply Z.leb_le; assumption.
Qed.
Theorem table_bands_Jb : table_bands region_Jb bands_Jb JbRows.
Proof. apply bands_sound. vm_compute. reflexivity. Qed.
Theorem table_bands_Jf : table_bands region_Jf bands_Jf JfRows.
Proof. apply bands_sound. vm_compute. reflexivity. Qed.

(** ** 4.5 the imaginary columns against the first-sheet closed forms (real-number statements):
    Im Jb = pi (c^3/6 - x^2/32), c = sqrt(-x), for EVERY negative row of the Jb file (all of them
    have x >= -20 > -4 pi^2), and Im Jf = pi x^2/32 for the rows with -9.8 <= x < 0 (> -pi^2),
    to 1e-9.  (Below -pi^2 the Jf column carries the unresolved-kink noise, see the harness.) *)
Theorem table_imag_closed_Jb : imag_closed_Jb JbRows.
Proof. apply imag_closed_Jb_sound. vm_compute. reflexivity. Qed.
Theorem table_imag_closed_Jf : imag_closed_Jf (-9800000000000000000000000000000) JfRows.
Proof. apply imag_closed_Jf_sound. vm_compute. reflexivity. Qed.
Definition in_first_sheet_Jf (r : row) : bool :=
  ((-9800000000000000000000000000000 <=? rx r) && (rx r <? 0))%bool.
Example imag_closed_nonempty :
  (190 <= length (filter (fun r => (rx r <? 0)%Z) JbRows))%nat /\
  (90 <= length (filter in_first_sheet_Jf JfRows))%nat.
Proof. split; apply Nat.leb_le; vm_compute; reflexivity. Qed.

(** non-vacuity: how many windows each region contains *)
Fixpoint count_windows (region : Z -> Z -> bool) (rows : list row) : nat :=
  ((match rows with a :: _ :: _ :: _ :: e :: _ => if region (rx a) (rx e) then 1 else 0 | _ => 0 end) +
   match rows with [] => 0 | _ :: t => count_windows region t end)%nat.

Example regions_nonempty :
  (9000 <= count_windows region_Jb JbRows /\ 9000 <= count_windows region_Jf JfRows /\
   50 <= count_windows region_Jf_low JfRows)%nat.
Proof. repeat split; apply Nat.leb_le; vm_compute; reflexivity. Qed.

(** * 5. constructors: every parameter of InterpolatableFunction.__init__ (in particular
    bUseAdaptiveInterpolation) receives the same-named parameter of JbIntegral / JfIntegral.__init__;
    otherwise an object built with bUseAdaptiveInterpolation=False silently answers from an
    adaptively built spline after 500 evaluations *)
Theorem constructors_forward :
  (forall j name, nth_error Ctors.BaseCtorParams j = Some name ->
     exists i, nth_error Ctors.JbForward j = Some (Some i) /\
               nth_error Ctors.JbCtorParams i = Some name) /\
  (forall j name, nth_error Ctors.BaseCtorParams j = Some name ->
     exists i, nth_error Ctors.JfForward j = Some (Some i) /\
               nth_error Ctors.JfCtorParams i = Some name) /\
  In ADAPTIVE_PARAM Ctors.BaseCtorParams.
Proof.
  split; [|split].
  - apply forwards_all_sound. vm_compute. reflexivity.
  - apply forwards_all_sound. vm_compute. reflexivity.
  - vm_compute. tauto.
Qed.

(** * 6. the shipped path: EffectivePotentialNoResum(useDefaultInterpolation=True).  Generated facts:
    the extrapolation types it sets on the two tables.  Hand-written (two lines, compared with the
    running object by the harness; the class itself belongs to C18): what
    InterpolatableFunction._evaluateOutOfBounds returns beyond an end of the table. *)
Definition beyond_table (ty : Ctors.EExtrapolationType) (edge : R) (direct spline : R -> R)
  (x : R) : option R :=
  match ty with
  | Ctors.XNONE => Some (direct x)
  | Ctors.XERROR => None
  | Ctors.XCONSTANT => Some edge
  | Ctors.XFUNCTION => Some (spline x)
  end.

Lemma last_row_small rows r : table_shape rows -> table_grid rows ->
  nth_error rows 9999 = Some r -> (Rabs (IZR (rre r) / IZR U) <= / 10000000)%R.
Proof.
  intros [Hneg [Hs _]] [_ [_ [Hx [_ _]]]] Hr.
  assert (Hin : In r rows) by (eapply nth_error_In; exact Hr).
  rewrite Hr in Hx. simpl in Hx. injection Hx as Hx.
  assert (Hpos : 0 < rx r) by (rewrite Hx; unfold XMAX; pose proof U_pos; lia).
  assert (L : - (U / 10 ^ 7) <= rre r)
    by (apply Hs; [exact Hin|rewrite Hx; unfold XMAX; pose proof U_pos; lia]).
  assert (N : rre r <= 0) by (apply Z.lt_le_incl, Hneg; assumption).
  apply IZR_le in L, N. rewrite opp_IZR in L.
  assert (E : U / 10 ^ 7 = 100000000000000000000000) by (vm_compute; reflexivity).
  rewrite E in L.
  assert (E' : (IZR 100000000000000000000000 = IZR U * / 10000000)%R) by (unfold U; lra).
  rewrite E' in L.
  pose proof IZR_U_pos as HU.
  apply Rabs_le. unfold Rdiv. split.
  - apply Rmult_le_reg_r with (IZR U); [lra|]. rewrite Rmult_assoc, Rinv_l by lra. lra.
  - apply Rmult_le_reg_r with (IZR U); [lra|]. rewrite Rmult_assoc, Rinv_l by lra. lra.
Qed.

(** heavy species stay suppressed beyond the upper end of the tables on the shipped path: the
    upper extrapolation is CONSTANT, so the value is the last row, and |last row| <= 1e-7.  (With
    FUNCTION the cubic of the last segment would be extrapolated: no bound.)  Below the lower end
    the type is CONSTANT as well: the shipped path answers J(-20), which is NOT the integral --
    recorded by the harness as known finding shipped-path-constant-below-table. *)
Theorem shipped_path_beyond_table : forall direct spline (x : R) rb rf,
  nth_error JbRows 9999 = Some rb -> nth_error JfRows 9999 = Some rf ->
  (exists vb, beyond_table Ctors.DefaultInterp_Jb_upper (IZR (rre rb) / IZR U) direct spline x
              = Some vb /\ Rabs vb <= / 10000000)%R /\
  (exists vf, beyond_table Ctors.DefaultInterp_Jf_upper (IZR (rre rf) / IZR U) direct spline x
              = Some vf /\ Rabs vf <= / 10000000)%R /\
  Ctors.DefaultInterp_Jb_lower = Ctors.XCONSTANT /\ Ctors.DefaultInterp_Jf_lower = Ctors.XCONSTANT /\
  (* the settings are applied to a private copy, not to the module-level defaultIntegrals, and
     the rebuilt spline of that copy uses the same (default, not-a-knot) end condition *)
  Ctors.DefaultInterpAliasesGlobal = false /\ Ctors.SplineEndCondition_not_a_knot = true.
Proof.
  intros direct spline x rb rf Hb Hf. repeat split.
  - eexists. split; [reflexivity|].
    exact (last_row_small _ _ table_shape_Jb table_grid_Jb Hb).
  - eexists. split; [reflexivity|].
    exact (last_row_small _ _ table_shape_Jf table_grid_Jf Hf).
Qed.


(** * obligations *)
Local Open Scope R_scope.
Theorem neg_branch_real : forall (e : I.env) x y,
  let s := sqrt (- y ^ 2 - x) in
  I.JbNegReal e x y = y ^ 2 * ln (sqrt ((1 - cos s) ^ 2 + (sin s) ^ 2) + I.Jb_SMALL_NUMBER) /\
  I.JfNegReal e x y = - (y ^ 2 * ln (sqrt ((1 + cos s) ^ 2 + (- sin s) ^ 2) + I.Jf_SMALL_NUMBER)) /\
  sqrt ((1 - cos s) ^ 2 + (sin s) ^ 2) = 2 * Rabs (sin (s / 2)) /\
  sqrt ((1 + cos s) ^ 2 + (- sin s) ^ 2) = 2 * Rabs (cos (s / 2)).
Proof.
  intros e x y s. repeat split.
  - exact (neg_branch_real_Jb e x y).
  - exact (neg_branch_real_Jf e x y).
  - apply mod_one_minus_expi.
  - apply mod_one_plus_expi.
Qed.
Print Assumptions neg_branch_real.

Theorem neg_branch_imag_boson : forall (e : I.env) x y u (k : nat),
  sqrt (- y ^ 2 - x) = 2 * u + 2 * INR k * PI -> 0 < u < PI ->
  ~ (- I.Jb_SMALL_NUMBER <= tan u <= 0) ->
  let s := sqrt (- y ^ 2 - x) in
  let theta := PI / 2 - u in
  (y ^ 2 * (theta - I.Jb_SMALL_NUMBER) <= I.JbNegImag e x y <= y ^ 2 * theta) /\
  theta = (PI - s) / 2 + INR k * PI /\
  (1 - cos s = 2 * Rabs (sin (s / 2)) * cos theta /\
   sin s = 2 * Rabs (sin (s / 2)) * sin theta /\
   - PI / 2 < theta < PI / 2 /\ 0 < 2 * Rabs (sin (s / 2))).
Proof. exact neg_branch_imag_Jb. Qed.
Print Assumptions neg_branch_imag_boson.

Theorem neg_branch_imag_boson_wraps : forall (e : I.env) x y,
  let s := sqrt (- y ^ 2 - x) in
  (0 < s < 2 * PI -> ~ (- I.Jb_SMALL_NUMBER <= tan (s / 2) <= 0) ->
     y ^ 2 * ((PI - s) / 2 - I.Jb_SMALL_NUMBER) <= I.JbNegImag e x y <= y ^ 2 * ((PI - s) / 2)) /\
  (2 * PI < s < 4 * PI -> ~ (- I.Jb_SMALL_NUMBER <= tan (s / 2 - PI) <= 0) ->
     y ^ 2 * ((PI - s) / 2 + PI - I.Jb_SMALL_NUMBER) <= I.JbNegImag e x y) /\
  Rabs (I.JbNegImag e x y) <= y ^ 2 * (PI / 2) /\ Rabs (I.JfNegImag e x y) <= y ^ 2 * (PI / 2).
Proof.
  intros e x y s. split; [|split].
  - exact (neg_branch_imag_Jb_first_sheet e x y).
  - exact (neg_branch_imag_Jb_wraps e x y).
  - exact (neg_imag_bounded e x y).
Qed.
Print Assumptions neg_branch_imag_boson_wraps.

Theorem neg_branch_imag_fermion : forall (e : I.env) x y v (k : nat),
  sqrt (- y ^ 2 - x) = 2 * v + 2 * INR k * PI -> - PI / 2 < v < PI / 2 ->
  let s := sqrt (- y ^ 2 - x) in
  let theta := - v in
  (y ^ 2 * (- theta) <= I.JfNegImag e x y <= y ^ 2 * (- theta + I.Jf_SMALL_NUMBER)) /\
  (1 + cos s = 2 * Rabs (cos (s / 2)) * cos theta /\
   - sin s = 2 * Rabs (cos (s / 2)) * sin theta /\
   - PI / 2 < theta < PI / 2 /\ 0 < 2 * Rabs (cos (s / 2))).
Proof. exact neg_branch_imag_Jf. Qed.
Print Assumptions neg_branch_imag_fermion.

Theorem split_point : forall (e : I.env) x,
  (x < 0 ->
   let c := sqrt (- x) in
   I.JbWrapper e x = (I.quad e (I.JbNegReal e x) 0 c + I.quad_inf e (I.JbPosReal e x) c,
                      I.quad e (I.JbNegImag e x) 0 c) /\
   I.JfWrapper e x = (I.quad e (I.JfNegReal e x) 0 c + I.quad_inf e (I.JfPosReal e x) c,
                      I.quad e (I.JfNegImag e x) 0 c) /\
   c ^ 2 + x = 0 /\ 0 < c /\
   (forall y, 0 <= y < c -> 0 < - y ^ 2 - x) /\ (forall y, c < y -> 0 < y ^ 2 + x) /\
   I.JbNegReal e x c = I.JbPosReal e x c /\ I.JfNegReal e x c = I.JfPosReal e x c) /\
  (0 <= x ->
   I.JbWrapper e x = (I.quad_inf e (I.JbPosReal e x) 0, 0) /\
   I.JfWrapper e x = (I.quad_inf e (I.JfPosReal e x) 0, 0) /\
   (forall y, 0 < y -> 0 < y ^ 2 + x)).
Proof.
  intros e x. split.
  - intros Hx c.
    destruct (split_point_Jb e x Hx) as [A [B [C [D [E F]]]]].
    destruct (split_point_Jf e x Hx) as [A' [_ [_ [_ [_ F']]]]].
    repeat split; assumption.
  - exact (nonneg_argument e x).
Qed.
Print Assumptions split_point.

Theorem dispatcher_is_wrapper : forall (e : I.env) x,
  I.JbEval e x = I.JbWrapper e x /\ I.JfEval e x = I.JfWrapper e x.
Proof. intros e x. exact (conj (dispatcher_Jb e x) (dispatcher_Jf e x)). Qed.
Print Assumptions dispatcher_is_wrapper.

Theorem thermal_sum : forall (e : S.env) opt mB nB mF nF T,
  S.potentialOneLoopThermal e opt mB nB mF nF T =
  match opt with
  | S.ABS_ARGUMENT => Some (thermal_value e (map Rabs mB) nB (map Rabs mF) nF T)
  | S.PRINCIPAL_PART => Some (thermal_value e mB nB mF nF T)
  | S.ABS_RESULT => Some (if has_negative mB mF then Rabs (thermal_value e mB nB mF nF T)
                          else thermal_value e mB nB mF nF T)
  | S.ERROR => if has_negative mB mF then None else Some (thermal_value e mB nB mF nF T)
  end.
Proof. exact thermal_sum_form. Qed.
Print Assumptions thermal_sum.

Theorem thermal_sum_array : forall (e : S.env) opt mB nB mF nF Ts i T,
  nth_error Ts i = Some T ->
  match S.potentialOneLoopThermalArr e opt mB nB mF nF Ts,
        S.potentialOneLoopThermal e opt mB nB mF nF T with
  | Some l, Some v => nth_error l i = Some v
  | None, None => True
  | _, _ => False
  end.
Proof. exact array_is_map_of_scalar. Qed.
Print Assumptions thermal_sum_array.

Theorem continuous_in_masses : forall (e : S.env) ab bb af bf mB mB' nB mF mF' nF T Lb Lf,
  (forall x y, ab <= x <= bb -> ab <= y <= bb ->
     Rabs (fst (S.Jb e x) - fst (S.Jb e y)) <= Lb * Rabs (x - y)) ->
  (forall x y, af <= x <= bf -> af <= y <= bf ->
     Rabs (fst (S.Jf e x) - fst (S.Jf e y)) <= Lf * Rabs (x - y)) ->
  args_in ab bb T mB -> args_in ab bb T mB' -> args_in af bf T mF -> args_in af bf T mF' ->
  length nB = length mB -> length mB = length mB' ->
  length nF = length mF -> length mF = length mF' ->
  Rabs (thermal_value e mB nB mF nF T - thermal_value e mB' nB mF' nF T) <=
  T ^ 4 / (2 * PI * PI) * / (T ^ 2 + S.SMALL_NUMBER) *
  (Lb * sumR (zipR (fun p q => p * q) (map Rabs nB) (map Rabs (zipR (fun p q => p - q) mB mB'))) +
   Lf * sumR (zipR (fun p q => p * q) (map Rabs nF) (map Rabs (zipR (fun p q => p - q) mF mF')))).
Proof. exact mass_lipschitz. Qed.
Print Assumptions continuous_in_masses.

Theorem stefan_boltzmann_limit : forall (e : S.env) opt mB nB mF nF T,
  fst (S.Jb e 0) = - PI ^ 4 / 45 -> fst (S.Jf e 0) = - 7 * PI ^ 4 / 360 ->
  Forall (fun m => m = 0) mB -> Forall (fun m => m = 0) mF ->
  length nB = length mB -> length nF = length mF ->
  S.potentialOneLoopThermal e opt mB nB mF nF T =
  Some (- (PI ^ 2 / 90) * (sumR nB + 7 / 8 * sumR nF) * T ^ 4).
Proof. exact stefan_boltzmann. Qed.
Print Assumptions stefan_boltzmann_limit.

Theorem heavy_mass_suppressed : forall (e : S.env) opt mB nB mF nF T X delta,
  (forall x, X <= x -> Rabs (fst (S.Jb e x)) <= delta) ->
  (forall x, X <= x -> Rabs (fst (S.Jf e x)) <= delta) ->
  0 <= X ->
  Forall (fun m => X <= m / (T ^ 2 + S.SMALL_NUMBER)) mB ->
  Forall (fun m => X <= m / (T ^ 2 + S.SMALL_NUMBER)) mF ->
  length nB = length mB -> length nF = length mF ->
  exists v, S.potentialOneLoopThermal e opt mB nB mF nF T = Some v /\
    Rabs v <= delta * (sumR (map Rabs nB) + sumR (map Rabs nF)) * T ^ 4 / (2 * PI * PI).
Proof. exact heavy_suppressed. Qed.
Print Assumptions heavy_mass_suppressed.

Print Assumptions constructors_forward.

Print Assumptions shipped_path_beyond_table.

Theorem tables_grid : table_grid JbRows /\ table_grid JfRows.
Proof. exact (conj table_grid_Jb table_grid_Jf). Qed.
Print Assumptions tables_grid.
Theorem tables_imag_column : table_imag JbRows /\ table_imag JfRows.
Proof. exact (conj table_imag_Jb table_imag_Jf). Qed.
Print Assumptions tables_imag_column.
Theorem tables_shape : table_shape JbRows /\ table_shape JfRows.
Proof. exact (conj table_shape_Jb table_shape_Jf). Qed.
Print Assumptions tables_shape.
Theorem tables_imag_closed_form :
  imag_closed_Jb JbRows /\ imag_closed_Jf (-9800000000000000000000000000000) JfRows.
Proof. exact (conj table_imag_closed_Jb table_imag_closed_Jf). Qed.
Print Assumptions tables_imag_closed_form.
Theorem tables_smooth_bands :
  table_bands region_Jb bands_Jb JbRows /\ table_bands region_Jf bands_Jf JfRows.
Proof. exact (conj table_bands_Jb table_bands_Jf). Qed.
Print Assumptions tables_smooth_bands.
Theorem tables_smooth :
  table_smooth region_Jb (10 ^ 8) (10 ^ 8) 200 JbRows /\
  table_smooth region_Jf (5 * 10 ^ 8) (10 ^ 3) 200 JfRows /\
  table_rough region_Jf_low (2 * (U / 10 ^ 3)) (3 * (U / 10)) JfRows.
Proof. exact (conj table_smooth_Jb table_smooth_Jf). Qed.
Print Assumptions tables_smooth.
