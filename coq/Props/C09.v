(** C09 -- in a uniform plasma the wall pressure equals the free-energy difference, and the
    field gradient used in the pressure integral is the exact derivative of the profile.

    Generated from src/WallGo/equationOfMotion.py on this run (module GenC09.EomProfile):
      - [wallProfile]       : EOM.wallProfile, one field (tanh ansatz and its gradient);
      - [updateGrid1/2]     : EOM._updateGrid for one / two fields;
      - [pressure_integrand]: the def-use slice of EOM._intermediatePressureResults that is
        handed to Polynomial.integrate, with a VERSION on every use of the wall parameters
        ([wid v i], [off v i]), of the grid ([xi e g c], [dzdchi e g c]: every call through
        self that is not known to leave the grid alone starts a new version) and of the
        Boltzmann results ([offEq e b ...]; b changes only under [includeOffEq e]);
        [returned_wall_version] / [final_grid_version] are what the caller gets back.
    Two kinds of theorems:
      - CODE PATH ([code_pressure_integrand_*], [quadrature_on_the_grid_of_the_profile],
        [grid_remap_resolves_the_wall], [dPhidz_is_derivative], [profile_connects_the_phases]):
        statements about the generated definitions;
      - CALCULUS over the generated profile ([total_derivative_one_field],
        [pressure_is_free_energy_difference_*], [temperature_independent_field_part_*]): the
        integrand dV(profile) * gradient is written in the statement; only [wallProfile] in
        them comes from the source.
    External (hypotheses, never axioms): the potential V with continuous gradient and the
    fact that derivField is that gradient (finite differences, C19/C08), np.sum(axis=1) = sum
    over fields, zero incoming Boltzmann results, the grid map chi -> z with
    getCompactificationDerivatives as its derivative (proved for Grid3Scales by C17, validated
    numerically here) and its limits at chi = -1, +1.  The quadrature error is measured by the
    harness, not assumed. *)
Set Warnings "-ambiguous-paths".
From Coq Require Import Reals Lra.
From Coquelicot Require Import Coquelicot.
From WG Require Import Lib.NumpySem Lib.WallProfile.
From GenC09 Require Import EomProfile.
Local Open Scope R_scope.

(** * Tie: the generated profile is the template, for all inputs *)
(* the argument of tanh / cosh is brought to the form z / w + d whatever way the source
   spells it *)
Ltac norm_arg z w d :=
  repeat match goal with
  | |- context [tanh ?a] =>
      lazymatch a with (z / w + d) => fail | _ =>
        replace a with (z / w + d) by (unfold Rdiv; ring) end
  | |- context [cosh ?a] =>
      lazymatch a with (z / w + d) => fail | _ =>
        replace a with (z / w + d) by (unfold Rdiv; ring) end
  end.

Lemma profile_is_Phi pe z lo hi w d : fst (wallProfile pe z lo hi w d) = Phi lo hi w d z.
Proof. unfold wallProfile, Phi. cbv zeta. cbn [fst]. norm_arg z w d. field. Qed.

Lemma gradient_is_dPhi pe z lo hi w d : w <> 0 ->
  snd (wallProfile pe z lo hi w d) = dPhi lo hi w d z.
Proof.
  intros Hw. unfold wallProfile. cbv zeta. cbn [snd]. norm_arg z w d.
  generalize (cosh_neq_0 (z / w + d)); intro Hc.
  (* the source may write sech^2 as 1/cosh^2 or as 1 - tanh^2 (Lib: inv_cosh2) *)
  first [ unfold dPhi; field; split; assumption
        | rewrite dPhi_alt by exact Hw; field; exact Hw
        | rewrite dPhi_alt by exact Hw; rewrite <- !inv_cosh2; field; split; assumption
        | unfold dPhi; rewrite !inv_cosh2; field; exact Hw ].
Qed.

Section Profile.
Variable pe : env.
Variables lo hi w d : R.
Notation prof := (fun z => fst (wallProfile pe z lo hi w d)).
Notation grad := (fun z => snd (wallProfile pe z lo hi w d)).

Lemma grad_is_derivative z : w <> 0 -> is_derive prof z (grad z).
Proof.
  intros Hw. apply is_derive_ext with (f := Phi lo hi w d).
  { intro t. symmetry. apply profile_is_Phi. }
  rewrite gradient_is_dPhi by exact Hw. apply Phi_is_derive. exact Hw.
Qed.

Lemma grad_continuous z : w <> 0 -> continuous grad z.
Proof.
  intros Hw. apply continuous_ext with (f := dPhi lo hi w d).
  { intro t. symmetry. apply gradient_is_dPhi. exact Hw. }
  apply dPhi_continuous. exact Hw.
Qed.

Lemma prof_limits : 0 < w -> is_lim prof m_infty lo /\ is_lim prof p_infty hi.
Proof.
  intros Hw. split.
  - apply is_lim_ext with (f := Phi lo hi w d); [intro; symmetry; apply profile_is_Phi|].
    apply Phi_lim_m; exact Hw.
  - apply is_lim_ext with (f := Phi lo hi w d); [intro; symmetry; apply profile_is_Phi|].
    apply Phi_lim_p; exact Hw.
Qed.
End Profile.

(** * The generated pressure integrand is a total derivative (one field) *)
Section Integrand1.
Variable pe : env.
Variable e : penv.
Variables lo hi : nat -> R.
Variables wid off : nat -> nat -> R.
Variable dV : R -> R.
(* one field; no out-of-equilibrium particles; uniform temperature or a field gradient that
   does not depend on temperature: along the temperature profile the gradient is dV *)
Hypothesis Hsum : forall f, fieldSum e f = f 0%nat.
(* premise of the property, as the code realises it: includeOffEq is off and the Boltzmann
   results handed in by the caller are zero (wallPressure initialises them to zero).  The
   generated term selects the Boltzmann-results version through [includeOffEq e]. *)
Hypothesis Hinc : includeOffEq e = false.
Hypothesis Hoff : forall F c i, offEq e incoming_boltzmann_version F c i = 0.
Hypothesis HdV : forall F c, dVdPhi e F (Tprof e c) 0%nat = dV (F 0%nat).

Let k := returned_wall_version.
Let g := final_grid_version.
Let w := wid k 0%nat.
Let d := off k 0%nat.
Hypothesis Hw : w <> 0.

Lemma integrand_1 c :
  pressure_integrand pe e lo hi wid off c =
  dV (Phi (lo 0%nat) (hi 0%nat) w d (xi e g c)) * dPhi (lo 0%nat) (hi 0%nat) w d (xi e g c)
  * (- dzdchi e g c).
Proof.
  unfold pressure_integrand. rewrite Hsum. rewrite HdV. rewrite Hinc. cbv iota.
  pose proof Hoff as Hoff0. unfold incoming_boltzmann_version in Hoff0. rewrite Hoff0.
  rewrite profile_is_Phi.
  unfold w, d, k, g, returned_wall_version, final_grid_version in *.
  rewrite gradient_is_dPhi by exact Hw.
  unfold Rdiv. ring.
Qed.
End Integrand1.

(** * ... and for two fields *)
Section Integrand2.
Variable pe : env.
Variable e : penv.
Variables lo hi : nat -> R.
Variables wid off : nat -> nat -> R.
Variables dV1 dV2 : R -> R -> R.
Hypothesis Hsum : forall f, fieldSum e f = f 0%nat + f 1%nat.
Hypothesis Hinc : includeOffEq e = false.
Hypothesis Hoff : forall F c i, offEq e incoming_boltzmann_version F c i = 0.
Hypothesis HdV1 : forall F c, dVdPhi e F (Tprof e c) 0%nat = dV1 (F 0%nat) (F 1%nat).
Hypothesis HdV2 : forall F c, dVdPhi e F (Tprof e c) 1%nat = dV2 (F 0%nat) (F 1%nat).

Let k := returned_wall_version.
Let g := final_grid_version.
Hypothesis Hw0 : wid k 0%nat <> 0.
Hypothesis Hw1 : wid k 1%nat <> 0.
Let p0 := Phi (lo 0%nat) (hi 0%nat) (wid k 0%nat) (off k 0%nat).
Let p1 := Phi (lo 1%nat) (hi 1%nat) (wid k 1%nat) (off k 1%nat).
Let q0 := dPhi (lo 0%nat) (hi 0%nat) (wid k 0%nat) (off k 0%nat).
Let q1 := dPhi (lo 1%nat) (hi 1%nat) (wid k 1%nat) (off k 1%nat).

Lemma integrand_2 c :
  pressure_integrand pe e lo hi wid off c =
  (dV1 (p0 (xi e g c)) (p1 (xi e g c)) * q0 (xi e g c) +
   dV2 (p0 (xi e g c)) (p1 (xi e g c)) * q1 (xi e g c)) * (- dzdchi e g c).
Proof.
  unfold pressure_integrand. rewrite Hsum. rewrite HdV1, HdV2. rewrite Hinc. cbv iota.
  pose proof Hoff as Hoff0. unfold incoming_boltzmann_version in Hoff0. rewrite !Hoff0.
  rewrite !profile_is_Phi.
  unfold p0, p1, q0, q1, k, g, returned_wall_version, final_grid_version in *.
  rewrite (gradient_is_dPhi pe _ (lo 0%nat)) by exact Hw0.
  rewrite (gradient_is_dPhi pe _ (lo 1%nat)) by exact Hw1.
  unfold Rdiv. ring.
Qed.
End Integrand2.

(** * The grid re-mapping of EOM._updateGrid (generated, one and two fields) always
    satisfies the preconditions of Grid3Scales and covers the wall *)
Section Grid.
Variable e : ug_env.
Hypothesis Hs : 0 < smoothing e.
Hypothesis Hr : 0 < ratioPointsWall e.
Notation s := (smoothing e).
Notation r := (ratioPointsWall e).

(* whatever the floor [q] of the tail length is, as long as it exceeds the Grid3Scales bound *)
Lemma tail_facts (L X q : R) : 0 < L -> L * (1 / 2 + s) / r < q ->
  let t := Rmax X q in
  L * (1 / 2 + s) / r < t /\ 0 < 2 * r * t - L * (1 + s).
Proof.
  intros HL Hq t.
  assert (Ht : q <= t) by apply Rmax_r.
  split; [lra|].
  assert (H2 : 2 * r * (L * (1 / 2 + s) / r) < 2 * r * q).
  { apply Rmult_lt_compat_l; [lra|exact Hq]. }
  replace (2 * r * (L * (1 / 2 + s) / r)) with (L * (1 + 2 * s)) in H2 by (field; lra).
  assert (H3 : 2 * r * q <= 2 * r * t) by (apply Rmult_le_compat_l; [lra|exact Ht]).
  nra.
Qed.

Lemma tail_facts_l (L X q : R) : 0 < L -> L * (1 / 2 + s) / r < q ->
  let t := Rmax q X in
  L * (1 / 2 + s) / r < t /\ 0 < 2 * r * t - L * (1 + s).
Proof. intros HL Hq. rewrite Rmax_comm. apply tail_facts; assumption. Qed.

(* the floor in the source: L * (1/2 + k s) / r with any literal k > 1 *)
Ltac floor_ok HL :=
  unfold Rdiv; apply Rmult_lt_compat_r; [apply Rinv_0_lt_compat; exact Hr|];
  generalize Hs HL; clear; intros; nra.

Ltac tails L HL :=
  repeat match goal with
  | |- context [Rmax ?X ?q] =>
      lazymatch goal with H : _ < Rmax X q |- _ => fail | _ => idtac end;
      first [ let H := fresh "T" in
              assert (H : L * (1 / 2 + s) / r < q) by floor_ok HL;
              let H' := fresh "T" in
              pose proof (tail_facts L X q HL H) as H'; cbv zeta in H'; destruct H' as [? ?]
            | let H := fresh "T" in
              assert (H : L * (1 / 2 + s) / r < X) by floor_ok HL;
              let H' := fresh "T" in
              pose proof (tail_facts_l L q X HL H) as H'; cbv zeta in H'; destruct H' as [? ?] ]
  end.

Variables w0 o0 w1 o1 v : R.
Hypothesis Hw0 : 0 < w0.
Hypothesis Hw1 : 0 < w1.

Lemma updateGrid2_ok :
  let res := updateGrid2 e w0 o0 w1 o1 v in
  let tin := fst (fst (fst res)) in let tout := snd (fst (fst res)) in
  let L := snd (fst res) in let c := snd res in
  let mid := c + L * ln 2 / 2 in
  0 < L /\
  L * (1 / 2 + s) / r < tin /\ L * (1 / 2 + s) / r < tout /\
  0 < 2 * r * tin - L * (1 + s) /\ 0 < 2 * r * tout - L * (1 + s) /\
  mid - L <= (-1 - o0) * w0 /\ (1 - o0) * w0 <= mid + L /\
  mid - L <= (-1 - o1) * w1 /\ (1 - o1) * w1 <= mid + L /\
  (ug_includeOffEq e = 0 -> tin = tout).
Proof.
  unfold updateGrid2. cbv zeta. cbn [fst snd].
  set (A := Rmax ((1 - o0) * w0) ((1 - o1) * w1)).
  set (B := Rmin ((-1 - o0) * w0) ((-1 - o1) * w1)).
  assert (A0 : (1 - o0) * w0 <= A) by apply Rmax_l.
  assert (A1 : (1 - o1) * w1 <= A) by apply Rmax_r.
  assert (B0 : B <= (-1 - o0) * w0) by apply Rmin_l.
  assert (B1 : B <= (-1 - o1) * w1) by apply Rmin_r.
  assert (HL : 0 < (A - B) / 2) by nra.
  tails ((A - B) / 2) HL.
  repeat split; try lra.
  intros Hz. rewrite Hz. rewrite !Rmult_0_r. reflexivity.
Qed.

Lemma updateGrid1_ok :
  let res := updateGrid1 e w0 o0 v in
  let tin := fst (fst (fst res)) in let tout := snd (fst (fst res)) in
  let L := snd (fst res) in let c := snd res in
  let mid := c + L * ln 2 / 2 in
  L = w0 /\ mid = - o0 * w0 /\
  L * (1 / 2 + s) / r < tin /\ L * (1 / 2 + s) / r < tout /\
  0 < 2 * r * tin - L * (1 + s) /\ 0 < 2 * r * tout - L * (1 + s) /\
  (ug_includeOffEq e = 0 -> tin = tout).
Proof.
  unfold updateGrid1. cbv zeta. cbn [fst snd].
  assert (EL : ((1 - o0) * w0 - (-1 - o0) * w0) / 2 = w0) by field.
  rewrite !EL.
  tails w0 Hw0.
  repeat split; try lra.
  intros Hz. rewrite Hz. rewrite !Rmult_0_r. reflexivity.
Qed.
End Grid.

(** * Theorems *)

(** the gradient returned by wallProfile is the derivative of the profile it returns
    (Coquelicot and Stdlib formulations) *)
Theorem dPhidz_is_derivative : forall pe lo hi w d z, w <> 0 ->
  is_derive (fun z => fst (wallProfile pe z lo hi w d)) z (snd (wallProfile pe z lo hi w d)) /\
  derivable_pt_lim (fun z => fst (wallProfile pe z lo hi w d)) z
                   (snd (wallProfile pe z lo hi w d)).
Proof.
  intros. split; [|apply is_derive_Reals]; apply grad_is_derivative; assumption.
Qed.
Print Assumptions dPhidz_is_derivative.

(** the profile interpolates between the two phases *)
Theorem profile_connects_the_phases : forall pe lo hi w d, 0 < w ->
  is_lim (fun z => fst (wallProfile pe z lo hi w d)) m_infty lo /\
  is_lim (fun z => fst (wallProfile pe z lo hi w d)) p_infty hi.
Proof. intros. apply prof_limits. assumption. Qed.
Print Assumptions profile_connects_the_phases.

(** one field, ANY C1 potential, ANY wall width and offset: the integral of
    dV/dphi . dphi/dz over any stretch of the wall is the potential difference *)
Theorem total_derivative_one_field : forall pe (V dV : R -> R) lo hi w d a b, w <> 0 ->
  (forall x, is_derive V x (dV x)) -> (forall x, continuous dV x) ->
  is_RInt (fun z => dV (fst (wallProfile pe z lo hi w d)) * snd (wallProfile pe z lo hi w d))
          a b (V (fst (wallProfile pe b lo hi w d)) - V (fst (wallProfile pe a lo hi w d))).
Proof.
  intros pe V dV lo hi w d a b Hw HV HdV.
  apply (total_derivative_1 V dV HV HdV
           (fun z => fst (wallProfile pe z lo hi w d)) (fun z => snd (wallProfile pe z lo hi w d))).
  - intro z. apply grad_is_derivative. exact Hw.
  - intro z. apply grad_continuous. exact Hw.
Qed.
Print Assumptions total_derivative_one_field.

(** ... and over the whole wall minus that integral (the pressure) is V(low) - V(high) *)
Theorem pressure_is_free_energy_difference_one_field :
  forall pe (V dV : R -> R) lo hi w d, 0 < w ->
  (forall x, is_derive V x (dV x)) -> (forall x, continuous dV x) ->
  filterlim (fun ab : R * R =>
     - RInt (fun z => dV (fst (wallProfile pe z lo hi w d)) * snd (wallProfile pe z lo hi w d))
            (fst ab) (snd ab))
    (filter_prod (Rbar_locally m_infty) (Rbar_locally p_infty)) (locally (V lo - V hi)).
Proof.
  intros pe V dV lo hi w d Hw HV HdV.
  assert (Hw' : w <> 0) by lra.
  apply (pressure_whole_line_1 V dV HV HdV
           (fun z => fst (wallProfile pe z lo hi w d)) (fun z => snd (wallProfile pe z lo hi w d))).
  - intro z. apply grad_is_derivative. exact Hw'.
  - intro z. apply grad_continuous. exact Hw'.
  - apply prof_limits; exact Hw.
  - apply prof_limits; exact Hw.
Qed.
Print Assumptions pressure_is_free_energy_difference_one_field.

(** two fields with independent widths and offsets, ANY differentiable potential with
    continuous gradient *)
Theorem pressure_is_free_energy_difference_two_fields :
  forall pe (V dV1 dV2 : R -> R -> R) lo1 hi1 w1 d1 lo2 hi2 w2 d2, 0 < w1 -> 0 < w2 ->
  (forall x y, differentiable_pt_lim V x y (dV1 x y) (dV2 x y)) ->
  (forall x y, continuous (fun p : R * R => dV1 (fst p) (snd p)) (x, y)) ->
  (forall x y, continuous (fun p : R * R => dV2 (fst p) (snd p)) (x, y)) ->
  let f1 := fun z => fst (wallProfile pe z lo1 hi1 w1 d1) in
  let g1 := fun z => snd (wallProfile pe z lo1 hi1 w1 d1) in
  let f2 := fun z => fst (wallProfile pe z lo2 hi2 w2 d2) in
  let g2 := fun z => snd (wallProfile pe z lo2 hi2 w2 d2) in
  let dVdz := fun z => dV1 (f1 z) (f2 z) * g1 z + dV2 (f1 z) (f2 z) * g2 z in
  (forall a b, is_RInt dVdz a b (V (f1 b) (f2 b) - V (f1 a) (f2 a))) /\
  filterlim (fun ab : R * R => - RInt dVdz (fst ab) (snd ab))
    (filter_prod (Rbar_locally m_infty) (Rbar_locally p_infty))
    (locally (V lo1 lo2 - V hi1 hi2)).
Proof.
  intros pe V dV1 dV2 lo1 hi1 w1 d1 lo2 hi2 w2 d2 Hw1 Hw2 HV H1 H2 f1 g1 f2 g2 dVdz.
  assert (Hw1' : w1 <> 0) by lra. assert (Hw2' : w2 <> 0) by lra.
  assert (D1 : forall z, is_derive f1 z (g1 z)) by (intro; apply grad_is_derivative; exact Hw1').
  assert (D2 : forall z, is_derive f2 z (g2 z)) by (intro; apply grad_is_derivative; exact Hw2').
  assert (C1 : forall z, continuous g1 z) by (intro; apply grad_continuous; exact Hw1').
  assert (C2 : forall z, continuous g2 z) by (intro; apply grad_continuous; exact Hw2').
  split.
  - intros a b. apply (total_derivative_2 V dV1 dV2 HV H1 H2 f1 g1 f2 g2 D1 D2 C1 C2).
  - apply (pressure_whole_line_2 V dV1 dV2 HV H1 H2 f1 g1 f2 g2 D1 D2 C1 C2).
    + apply prof_limits; exact Hw1. + apply prof_limits; exact Hw1.
    + apply prof_limits; exact Hw2. + apply prof_limits; exact Hw2.
Qed.
Print Assumptions pressure_is_free_energy_difference_two_fields.

(** a field-dependent part that does not depend on temperature: the same holds for ANY
    temperature profile T(z) *)
Theorem temperature_independent_field_part_any_T_profile :
  forall pe (Vt dVt : R -> R -> R) (V0 f : R -> R) T0 lo hi w d (Tz : R -> R) a b, w <> 0 ->
  (forall p T, Vt p T = V0 p + f T) ->
  (forall p T, is_derive (fun q => Vt q T) p (dVt p T)) ->
  (forall p, continuous (fun q => dVt q T0) p) ->
  is_RInt (fun z => dVt (fst (wallProfile pe z lo hi w d)) (Tz z) * snd (wallProfile pe z lo hi w d))
          a b (Vt (fst (wallProfile pe b lo hi w d)) T0 - Vt (fst (wallProfile pe a lo hi w d)) T0).
Proof.
  intros pe Vt dVt V0 f T0 lo hi w d Tz a b Hw Hs Hd Hc.
  apply (total_derivative_any_temperature_profile Vt dVt V0 f Hs Hd T0 Hc
           (fun z => fst (wallProfile pe z lo hi w d)) (fun z => snd (wallProfile pe z lo hi w d))).
  - intro z. apply grad_is_derivative. exact Hw.
  - intro z. apply grad_continuous. exact Hw.
Qed.
Print Assumptions temperature_independent_field_part_any_T_profile.

(** THE CODE PATH.  The quantity that _intermediatePressureResults hands to the quadrature,
    as a function of the compact grid coordinate, integrates EXACTLY to the potential
    difference between the two ends -- for the wall parameters that are RETURNED and on the
    grid the caller sees; and the ends tend to V(low) - V(high).  One field.
    Hypotheses: no out-of-equilibrium term, gradient independent of the temperature along
    the profile, [dzdchi] is the derivative of the grid map (C17). *)
Theorem code_pressure_integrand_one_field :
  forall pe e lo hi wid off (V dV : R -> R),
  (forall f, fieldSum e f = f 0%nat) ->
  includeOffEq e = false ->
  (forall F c i, offEq e incoming_boltzmann_version F c i = 0) ->
  (forall F c, dVdPhi e F (Tprof e c) 0%nat = dV (F 0%nat)) ->
  (forall x, is_derive V x (dV x)) -> (forall x, continuous dV x) ->
  let k := returned_wall_version in let g := final_grid_version in
  let phi := fun z => fst (wallProfile pe z (lo 0%nat) (hi 0%nat) (wid k 0%nat) (off k 0%nat)) in
  0 < wid k 0%nat ->
  (forall ca cb,
     (forall c, Rmin ca cb <= c <= Rmax ca cb ->
                is_derive (xi e g) c (dzdchi e g c) /\ continuous (dzdchi e g) c) ->
     is_RInt (pressure_integrand pe e lo hi wid off) ca cb
             (V (phi (xi e g ca)) - V (phi (xi e g cb)))) /\
  (filterlim (xi e g) (at_right (-1)) (Rbar_locally m_infty) ->
   filterlim (xi e g) (at_left 1) (Rbar_locally p_infty) ->
   filterlim (fun ab : R * R => V (phi (xi e g (fst ab))) - V (phi (xi e g (snd ab))))
     (filter_prod (at_right (-1)) (at_left 1)) (locally (V (lo 0%nat) - V (hi 0%nat)))).
Proof.
  intros pe e lo hi wid off V dV Hsum Hinc Hoff HdVe HV HdV k g phi Hw.
  assert (Hw' : wid k 0%nat <> 0) by lra.
  split.
  - intros ca cb HJ.
    apply is_RInt_ext with
      (f := fun c => dV (Phi (lo 0%nat) (hi 0%nat) (wid k 0%nat) (off k 0%nat) (xi e g c))
                     * dPhi (lo 0%nat) (hi 0%nat) (wid k 0%nat) (off k 0%nat) (xi e g c)
                     * (- dzdchi e g c)).
    { intros c _. symmetry. apply (integrand_1 pe e lo hi wid off dV Hsum Hinc Hoff HdVe Hw'). }
    unfold phi. rewrite !profile_is_Phi.
    apply (total_derivative_compact_1 V dV HV HdV
             (Phi (lo 0%nat) (hi 0%nat) (wid k 0%nat) (off k 0%nat))
             (dPhi (lo 0%nat) (hi 0%nat) (wid k 0%nat) (off k 0%nat))).
    + intro z. apply Phi_is_derive. exact Hw'.
    + intro z. apply dPhi_continuous. exact Hw'.
    + intros c Hc. apply HJ. exact Hc.
    + intros c Hc. apply HJ. exact Hc.
  - intros Za Zb.
    refine (endpoint_limit_1 V phi (xi e g) (lo 0%nat) (hi 0%nat) (at_right (-1)) (at_left 1)
              _ _ _ _ Za Zb).
    + apply edc. eexists. apply HV.
    + apply edc. eexists. apply HV.
    + apply prof_limits. exact Hw.
    + apply prof_limits. exact Hw.
Qed.
Print Assumptions code_pressure_integrand_one_field.

(** the same for two fields and any differentiable potential, including the limit *)
Theorem code_pressure_integrand_two_fields :
  forall pe e lo hi wid off (V dV1 dV2 : R -> R -> R),
  (forall f, fieldSum e f = f 0%nat + f 1%nat) ->
  includeOffEq e = false ->
  (forall F c i, offEq e incoming_boltzmann_version F c i = 0) ->
  (forall F c, dVdPhi e F (Tprof e c) 0%nat = dV1 (F 0%nat) (F 1%nat)) ->
  (forall F c, dVdPhi e F (Tprof e c) 1%nat = dV2 (F 0%nat) (F 1%nat)) ->
  (forall x y, differentiable_pt_lim V x y (dV1 x y) (dV2 x y)) ->
  (forall x y, continuous (fun p : R * R => dV1 (fst p) (snd p)) (x, y)) ->
  (forall x y, continuous (fun p : R * R => dV2 (fst p) (snd p)) (x, y)) ->
  let k := returned_wall_version in let g := final_grid_version in
  let phi0 := fun z => fst (wallProfile pe z (lo 0%nat) (hi 0%nat) (wid k 0%nat) (off k 0%nat)) in
  let phi1 := fun z => fst (wallProfile pe z (lo 1%nat) (hi 1%nat) (wid k 1%nat) (off k 1%nat)) in
  0 < wid k 0%nat -> 0 < wid k 1%nat ->
  (forall ca cb,
    (forall c, Rmin ca cb <= c <= Rmax ca cb ->
               is_derive (xi e g) c (dzdchi e g c) /\ continuous (dzdchi e g) c) ->
    is_RInt (pressure_integrand pe e lo hi wid off) ca cb
            (V (phi0 (xi e g ca)) (phi1 (xi e g ca)) - V (phi0 (xi e g cb)) (phi1 (xi e g cb)))) /\
  (filterlim (xi e g) (at_right (-1)) (Rbar_locally m_infty) ->
   filterlim (xi e g) (at_left 1) (Rbar_locally p_infty) ->
   filterlim (fun ab : R * R => V (phi0 (xi e g (fst ab))) (phi1 (xi e g (fst ab)))
                                - V (phi0 (xi e g (snd ab))) (phi1 (xi e g (snd ab))))
     (filter_prod (at_right (-1)) (at_left 1))
     (locally (V (lo 0%nat) (lo 1%nat) - V (hi 0%nat) (hi 1%nat)))).
Proof.
  intros pe e lo hi wid off V dV1 dV2 Hsum Hinc Hoff H1 H2 HV C1 C2 k g phi0 phi1 Hp0 Hp1.
  assert (Hw0 : wid k 0%nat <> 0) by lra. assert (Hw1 : wid k 1%nat <> 0) by lra.
  split.
  - intros ca cb HJ.
    apply is_RInt_ext with
      (f := fun c =>
         (dV1 (Phi (lo 0%nat) (hi 0%nat) (wid k 0%nat) (off k 0%nat) (xi e g c))
              (Phi (lo 1%nat) (hi 1%nat) (wid k 1%nat) (off k 1%nat) (xi e g c))
          * dPhi (lo 0%nat) (hi 0%nat) (wid k 0%nat) (off k 0%nat) (xi e g c) +
          dV2 (Phi (lo 0%nat) (hi 0%nat) (wid k 0%nat) (off k 0%nat) (xi e g c))
              (Phi (lo 1%nat) (hi 1%nat) (wid k 1%nat) (off k 1%nat) (xi e g c))
          * dPhi (lo 1%nat) (hi 1%nat) (wid k 1%nat) (off k 1%nat) (xi e g c))
         * (- dzdchi e g c)).
    { intros c _. symmetry.
      apply (integrand_2 pe e lo hi wid off dV1 dV2 Hsum Hinc Hoff H1 H2 Hw0 Hw1). }
    unfold phi0, phi1. rewrite !profile_is_Phi.
    apply (total_derivative_compact_2 V dV1 dV2 HV C1 C2
             (Phi (lo 0%nat) (hi 0%nat) (wid k 0%nat) (off k 0%nat))
             (dPhi (lo 0%nat) (hi 0%nat) (wid k 0%nat) (off k 0%nat))
             (Phi (lo 1%nat) (hi 1%nat) (wid k 1%nat) (off k 1%nat))
             (dPhi (lo 1%nat) (hi 1%nat) (wid k 1%nat) (off k 1%nat))).
    + intro z. apply Phi_is_derive. exact Hw0.
    + intro z. apply Phi_is_derive. exact Hw1.
    + intro z. apply dPhi_continuous. exact Hw0.
    + intro z. apply dPhi_continuous. exact Hw1.
    + intros c Hc. apply HJ. exact Hc.
    + intros c Hc. apply HJ. exact Hc.
  - intros Za Zb.
    refine (endpoint_limit_2 V phi0 phi1 (xi e g) (lo 0%nat) (hi 0%nat) (lo 1%nat) (hi 1%nat)
              (at_right (-1)) (at_left 1) _ _ _ _ _ _ Za Zb).
    + eapply differentiable_continuous_2. apply HV.
    + eapply differentiable_continuous_2. apply HV.
    + apply prof_limits. exact Hp0.
    + apply prof_limits. exact Hp0.
    + apply prof_limits. exact Hp1.
    + apply prof_limits. exact Hp1.
Qed.
Print Assumptions code_pressure_integrand_two_fields.

(** the quadrature and the field profile live on the same grid *)
Theorem quadrature_on_the_grid_of_the_profile : quadrature_grid_version = final_grid_version.
Proof. vm_compute. reflexivity. Qed.
Print Assumptions quadrature_on_the_grid_of_the_profile.

(** EOM._updateGrid (two fields, one field): for ALL positive widths, all offsets, every
    plasma velocity and mean free path, the re-mapped grid has positive wall thickness, tails
    that satisfy the assertions of Grid3Scales (so aIn, aOut are well defined), its linear
    region [centre - L, centre + L] (centre before the ln2 shift) contains every field's
    [-(1+offset) width, (1-offset) width], and the two tails coincide (aIn = aOut) when
    includeOffEq is off *)
Theorem grid_remap_resolves_the_wall : forall e w0 o0 w1 o1 v,
  0 < smoothing e -> 0 < ratioPointsWall e -> 0 < w0 -> 0 < w1 ->
  let s := smoothing e in let r := ratioPointsWall e in
  (let res := updateGrid2 e w0 o0 w1 o1 v in
   let tin := fst (fst (fst res)) in let tout := snd (fst (fst res)) in
   let L := snd (fst res) in let c := snd res in
   let mid := c + L * ln 2 / 2 in
   0 < L /\
   L * (1 / 2 + s) / r < tin /\ L * (1 / 2 + s) / r < tout /\
   0 < 2 * r * tin - L * (1 + s) /\ 0 < 2 * r * tout - L * (1 + s) /\
   mid - L <= (-1 - o0) * w0 /\ (1 - o0) * w0 <= mid + L /\
   mid - L <= (-1 - o1) * w1 /\ (1 - o1) * w1 <= mid + L /\
   (ug_includeOffEq e = 0 -> tin = tout)) /\
  (let res := updateGrid1 e w0 o0 v in
   let tin := fst (fst (fst res)) in let tout := snd (fst (fst res)) in
   let L := snd (fst res) in let c := snd res in
   let mid := c + L * ln 2 / 2 in
   L = w0 /\ mid = - o0 * w0 /\
   L * (1 / 2 + s) / r < tin /\ L * (1 / 2 + s) / r < tout /\
   0 < 2 * r * tin - L * (1 + s) /\ 0 < 2 * r * tout - L * (1 + s) /\
   (ug_includeOffEq e = 0 -> tin = tout)).
Proof.
  intros e w0 o0 w1 o1 v Hs Hr Hw0 Hw1 s r. split.
  - apply updateGrid2_ok; assumption.
  - apply updateGrid1_ok; assumption.
Qed.
Print Assumptions grid_remap_resolves_the_wall.

(** non-vacuity: ALL hypotheses of [code_pressure_integrand_one_field], including the
    Jacobian on every stretch inside (-1,1) and the two limits of the grid map at chi = -1, +1,
    hold for a concrete collaborator record (V = x^2, one field, grid map
    z = 1/(1-chi) - 1/(1+chi) of Lib.WallProfile) *)
Example hypotheses_satisfiable :
  let e := mk_penv (fun F _ _ => 2 * F 0%nat) false (fun _ _ _ _ => 0) (fun f => f 0%nat)
                   (fun _ => zmapW) (fun _ => JW) (fun _ => 1) in
  (forall f, fieldSum e f = f 0%nat) /\ includeOffEq e = false /\
  (forall F c i, offEq e incoming_boltzmann_version F c i = 0) /\
  (forall F c, dVdPhi e F (Tprof e c) 0%nat = 2 * F 0%nat) /\
  (forall x, is_derive (fun x => x ^ 2) x (2 * x)) /\ (forall x, continuous (fun x => 2 * x) x) /\
  (forall g ca cb, -1 < Rmin ca cb -> Rmax ca cb < 1 ->
     forall c, Rmin ca cb <= c <= Rmax ca cb ->
     is_derive (xi e g) c (dzdchi e g c) /\ continuous (dzdchi e g) c) /\
  (forall g, filterlim (xi e g) (at_right (-1)) (Rbar_locally m_infty)) /\
  (forall g, filterlim (xi e g) (at_left 1) (Rbar_locally p_infty)).
Proof.
  cbn. split; [intros; reflexivity|]. split; [reflexivity|]. split; [intros; reflexivity|].
  split; [intros; reflexivity|]. split; [|split; [|split; [|split]]].
  - intro x. auto_derive; [exact I|ring].
  - intro x. apply edc. auto_derive. exact I.
  - intros g ca cb Ha Hb c Hc. split; [apply zmapW_is_derive|apply JW_continuous]; lra.
  - intros g. apply zmapW_lim_m.
  - intros g. apply zmapW_lim_p.
Qed.

(** ... and for two fields: V(x,y) = x*y is differentiable with continuous gradient (y, x) *)
Example two_field_hypotheses_satisfiable :
  let e := mk_penv (fun F _ i => match i with O => F 1%nat | _ => F 0%nat end) false
                   (fun _ _ _ _ => 0) (fun f => f 0%nat + f 1%nat)
                   (fun _ => zmapW) (fun _ => JW) (fun _ => 1) in
  (forall f, fieldSum e f = f 0%nat + f 1%nat) /\ includeOffEq e = false /\
  (forall F c i, offEq e incoming_boltzmann_version F c i = 0) /\
  (forall F c, dVdPhi e F (Tprof e c) 0%nat = (fun x y : R => y) (F 0%nat) (F 1%nat)) /\
  (forall F c, dVdPhi e F (Tprof e c) 1%nat = (fun x y : R => x) (F 0%nat) (F 1%nat)) /\
  (forall x y, differentiable_pt_lim (fun x y => x * y) x y y x) /\
  (forall x y, continuous (fun p : R * R => snd p) (x, y)) /\
  (forall x y, continuous (fun p : R * R => fst p) (x, y)).
Proof.
  cbn. split; [intros; reflexivity|]. split; [reflexivity|]. split; [intros; reflexivity|].
  split; [intros; reflexivity|]. split; [intros; reflexivity|].
  split; [|split].
  - intros x y eps. exists eps. intros u v Hu Hv.
    replace (u * v - x * y - (y * (u - x) + x * (v - y))) with ((u - x) * (v - y)) by ring.
    rewrite Rabs_mult.
    assert (H1 : Rabs (u - x) <= Rmax (Rabs (u - x)) (Rabs (v - y))) by apply Rmax_l.
    assert (H2 : Rabs (v - y) <= Rmax (Rabs (u - x)) (Rabs (v - y))) by apply Rmax_r.
    assert (H0 := Rabs_pos (u - x)). assert (H0' := Rabs_pos (v - y)).
    destruct eps as [e0 He]; cbn in *. nra.
  - intros x y. apply continuous_snd.
  - intros x y. apply continuous_fst.
Qed.
