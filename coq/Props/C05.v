(** C05 -- the LTE wall velocity conserves the entropy flux across the wall.

    Statements about definitions GENERATED on this run (module GenC05.HydroLTE) from
    src/WallGo/hydrodynamics.py: the closure `matching` of matchDeflagOrHyb specialised to
    vp=None (matchingLTE), vpvmAndvpovm, the statements of matchDeflagOrHyb after the 2x2
    solve (matchTail);  from hydrodynamicsTemplateModel.py: findvwLTE with its closure
    shootingInLTE, getVp, the bounds (vm, vpMax, alMin, alMax) of solveAlpha and the two
    closed forms of alpha_+;  GenC05.LteFacts: the two literal offsets of
    Hydrodynamics.findvwLTE.  The decision logic of Hydrodynamics.findvwLTE is the
    hand-written executable model WG.Model.FindVwLTE (tied by AST facts + vm_compute
    correspondence on recorded runs, see tools/props/C05.py).
    External numerics (oracles, never axioms): scipy root (hybr) returns a zero of `matching`;
    root_scalar; solve_ivp inside solveHydroShock / _shooting; maxAl. *)
From Coq Require Import Reals Lra QArith String List.
Import ListNotations.
From WG Require Import Lib.NumpySem Lib.HydroShock Model.FindVwLTE.
From GenC05 Require Import HydroLTE LteFacts.
Local Open Scope R_scope.

(** ** the 2x2 system handed to the solver when vp is None *)
Lemma scale_factor_pos (a b a0 b0 : R) :
  0 < (2 ^ 2 + (a / a0) ^ 2 + (b / b0) ^ 2) * (2 ^ 2 + (a0 / a) ^ 2 + (b0 / b) ^ 2).
Proof.
  apply Rmult_lt_0_compat.
  - pose proof (pow2_ge_0 (a / a0)). pose proof (pow2_ge_0 (b / b0)). lra.
  - pose proof (pow2_ge_0 (a0 / a)). pose proof (pow2_ge_0 (b0 / b)). lra.
Qed.

Lemma matchingLTE_root e vw Tpm0 x :
  let Tp := fst (invMap e x) in let Tm := snd (invMap e x) in
  let vmsq := Rmin (vw ^ 2) (csqLowT e Tm) in
  let vpvm := fst (vpvmAndvpovm e Tp Tm) in let vpovm := snd (vpvmAndvpovm e Tp Tm) in
  Tm <> 0 ->
  matchingLTE e vw Tpm0 x = (0, 0) ->
  Tp ^ 2 * (1 - vmsq) = Tm ^ 2 * (1 - vpvm * vpovm) /\ vpvm / vpovm = vmsq.
Proof.
  intros Tp Tm vmsq vpvm vpovm HTm. unfold matchingLTE. cbv zeta.
  fold Tp Tm. fold vmsq.
  destruct (vpvmAndvpovm e Tp Tm) as [a b] eqn:E.
  assert (Ea : vpvm = a) by reflexivity.
  assert (Eb : vpovm = b) by reflexivity.
  rewrite Ea, Eb. clear Ea Eb.
  intro H. injection H as H1 H2.
  pose proof (scale_factor_pos Tp Tm (fst Tpm0) (snd Tpm0)) as Hc.
  apply Rmult_integral in H1. apply Rmult_integral in H2.
  destruct H1 as [H1|H1]; [|exfalso; lra]. destruct H2 as [H2|H2]; [|exfalso; lra].
  split.
  - apply (entropy_squared_form Tp Tm (a * b) vmsq HTm). apply Rminus_diag_uniq. exact H1.
  - apply Rminus_diag_uniq. exact H2.
Qed.

(** ** what matchDeflagOrHyb returns from the solved temperatures *)
Lemma matchTail_value e vw Tp Tm :
  matchTail e vw Tp Tm =
  (sqrt (Tm ^ 2 - Tp ^ 2 * (1 - sqrt (Rmax (Rmin (vw ^ 2) (csqLowT e Tm)) 0) ^ 2)) / Tm,
   sqrt (Rmax (Rmin (vw ^ 2) (csqLowT e Tm)) 0), Tp, Tm).
Proof. unfold matchTail. cbv zeta. repeat f_equal. Qed.

Section Tail.
Variable e : env.
Variables vw Tp Tm : R.
Let vmsq := Rmin (vw ^ 2) (csqLowT e Tm).
Hypothesis HTp : 0 < Tp.
Hypothesis HTm : 0 < Tm.
Hypothesis Hvm : 0 <= vmsq < 1.
Hypothesis Hreal : 0 <= Tm ^ 2 - Tp ^ 2 * (1 - vmsq).      (* otherwise vp is NaN: the code raises *)

Let vp := fst (fst (fst (matchTail e vw Tp Tm))).
Let vm := snd (fst (fst (matchTail e vw Tp Tm))).

Lemma tail_vm : vm = sqrt vmsq /\ vm * vm = vmsq /\ 0 <= vm < 1.
Proof.
  unfold vm. rewrite matchTail_value. cbn [fst snd]. fold vmsq.
  rewrite Rmax_left by lra. split; [reflexivity|]. split.
  - apply sqrt_sqrt. lra.
  - split; [apply sqrt_pos|]. rewrite <- sqrt_1. apply sqrt_lt_1_alt. lra.
Qed.

Lemma tail_vp : vp * vp = (Tm ^ 2 - Tp ^ 2 * (1 - vmsq)) / Tm ^ 2 /\ 0 <= vp < 1.
Proof.
  destruct tail_vm as (Evm & Evm2 & _).
  unfold vp. rewrite matchTail_value. cbn [fst snd]. fold vmsq.
  rewrite Rmax_left by lra.
  replace (sqrt vmsq ^ 2) with vmsq by (rewrite <- Evm, <- Evm2; ring).
  set (D := Tm ^ 2 - Tp ^ 2 * (1 - vmsq)) in *.
  assert (S2 : sqrt D * sqrt D = D) by (apply sqrt_sqrt; assumption).
  split.
  - replace (sqrt D / Tm * (sqrt D / Tm)) with (sqrt D * sqrt D / Tm ^ 2) by (field; lra).
    rewrite S2. reflexivity.
  - assert (0 <= sqrt D) by apply sqrt_pos.
    split.
    + apply Rmult_le_pos; [assumption|]. apply Rlt_le, Rinv_0_lt_compat; assumption.
    + apply Rmult_lt_reg_r with Tm; [assumption|].
      replace (sqrt D / Tm * Tm) with (sqrt D) by (field; lra). rewrite Rmult_1_l.
      rewrite <- (sqrt_Rsqr Tm) by lra. apply sqrt_lt_1_alt. unfold Rsqr, D. split; [assumption|].
      assert (0 < Tp ^ 2 * (1 - vmsq)) by (apply Rmult_lt_0_compat; [apply pow_lt; lra|lra]).
      lra.
Qed.

(** entropy flux: T+ gamma+ = T- gamma- for the returned quadruple *)
Lemma tail_entropy :
  Tp ^ 2 * (1 - vm * vm) = Tm ^ 2 * (1 - vp * vp) /\
  Tp * sqrt (gam2 vp) = Tm * sqrt (gam2 vm).
Proof.
  destruct tail_vm as (_ & Evm2 & Bvm). destruct tail_vp as (Evp2 & Bvp).
  assert (A : Tp ^ 2 * (1 - vm * vm) = Tm ^ 2 * (1 - vp * vp)).
  { rewrite Evm2, Evp2. field. lra. }
  split; [exact A|]. apply entropy_gamma_form; try assumption; lra.
Qed.

(** with a zero of the generated 2x2 system: energy and momentum fluxes as well *)
Hypothesis Hne : eHighT e Tp <> eLowT e Tm.
Hypothesis Hden : eHighT e Tp + pLowT e Tm <> 0.
Hypothesis Hpos1 : 0 < fst (vpvmAndvpovm e Tp Tm).
Hypothesis Hpos2 : 0 < snd (vpvmAndvpovm e Tp Tm).

Lemma vpvm_value :
  vpvmAndvpovm e Tp Tm =
  ((pHighT e Tp - pLowT e Tm) / (eHighT e Tp - eLowT e Tm),
   (eLowT e Tm + pHighT e Tp) / (eHighT e Tp + pLowT e Tm)).
Proof.
  unfold vpvmAndvpovm. cbv zeta.
  destruct (Req_EM_T (eHighT e Tp) (eLowT e Tm)); [contradiction|]. reflexivity.
Qed.

Lemma tail_fluxes x Tpm0 :
  invMap e x = (Tp, Tm) -> matchingLTE e vw Tpm0 x = (0, 0) ->
  energy_flux (eHighT e Tp + pHighT e Tp) vp = energy_flux (eLowT e Tm + pLowT e Tm) vm /\
  momentum_flux (eHighT e Tp + pHighT e Tp) (pHighT e Tp) vp =
  momentum_flux (eLowT e Tm + pLowT e Tm) (pLowT e Tm) vm.
Proof.
  intros Hx Hroot.
  pose proof (matchingLTE_root e vw Tpm0 x) as R. cbv zeta in R. rewrite Hx in R.
  cbn [fst snd] in R. fold vmsq in R. specialize (R (Rgt_not_eq _ _ HTm) Hroot).
  destruct R as [R1 R2].
  set (a := fst (vpvmAndvpovm e Tp Tm)) in *. set (b := snd (vpvmAndvpovm e Tp Tm)) in *.
  destruct tail_vm as (_ & Evm2 & Bvm). destruct tail_vp as (Evp2 & Bvp).
  (* vp^2 = a b, vm^2 = a / b *)
  assert (P2 : vp * vp = a * b).
  { rewrite Evp2. apply Rmult_eq_reg_l with (Tm ^ 2); [|apply pow_nonzero; lra].
    replace (Tm ^ 2 * ((Tm ^ 2 - Tp ^ 2 * (1 - vmsq)) / Tm ^ 2)) with
        (Tm ^ 2 - Tp ^ 2 * (1 - vmsq)) by (field; lra). lra. }
  assert (M2 : vm * vm = a / b) by (rewrite Evm2; symmetry; exact R2).
  assert (Hvm0 : 0 < vm).
  { destruct Bvm as [[H|H] _]; [assumption|]. exfalso. rewrite <- H in M2.
    assert (0 < a / b) by (apply Rdiv_lt_0_compat; assumption). lra. }
  assert (Hvp0 : 0 < vp).
  { destruct Bvp as [[H|H] _]; [assumption|]. exfalso. rewrite <- H in P2.
    assert (0 < a * b) by (apply Rmult_lt_0_compat; assumption). lra. }
  assert (PM : vp * vm = a).
  { apply Rsqr_inj; [nra|lra|]. unfold Rsqr.
    replace (vp * vm * (vp * vm)) with ((vp * vp) * (vm * vm)) by ring.
    rewrite P2, M2. field. lra. }
  assert (PO : vp / vm = b).
  { apply Rmult_eq_reg_r with (vm * vm); [|nra].
    replace (vp / vm * (vm * vm)) with (vp * vm) by (field; lra).
    rewrite PM, M2. field. lra. }
  assert (Ea : a = (pHighT e Tp - pLowT e Tm) / (eHighT e Tp - eLowT e Tm))
    by (unfold a; rewrite vpvm_value; reflexivity).
  assert (Eb : b = (eLowT e Tm + pHighT e Tp) / (eHighT e Tp + pLowT e Tm))
    by (unfold b; rewrite vpvm_value; reflexivity).
  apply junction_from_relations; try lra.
Qed.
End Tail.

(** ** template model *)
Lemma alpha_forms_agree te vm vp :
  vm <> 0 -> t_cb2 te <> 0 -> 1 - vp ^ 2 <> 0 ->
  t_alpha_shooting te vm vp = t_alpha_initial te vm vp.
Proof. intros. unfold t_alpha_shooting, t_alpha_initial. field. repeat split; assumption. Qed.

Lemma solveAlpha_bounds_spec te vw :
  let vm := Rmin (t_cb te) vw in
  (* documented: constraint=True imposes v+ < min(cs^2/vw, vw); otherwise v+ < v- *)
  (forall c, fst (fst (fst (t_solveAlpha_bounds te vw c))) = vm) /\
  snd (fst (fst (t_solveAlpha_bounds te vw true))) = Rmin (t_cs2 te / vw) vw /\
  snd (fst (fst (t_solveAlpha_bounds te vw false))) = vm /\
  (forall c, snd (t_solveAlpha_bounds te vw c) = 1 / 3) /\
  (forall c, let vpMax := snd (fst (fst (t_solveAlpha_bounds te vw c))) in
             let alMin := snd (fst (t_solveAlpha_bounds te vw c)) in
             t_alpha_initial te vm vpMax < alMin /\
             (t_mu te - t_nu te) / (3 * t_mu te) < alMin /\ 0 < alMin) /\
  (vm <> 0 -> t_cb2 te <> 0 -> 1 - vm ^ 2 <> 0 ->
   snd (fst (t_solveAlpha_bounds te vw false)) =
   Rmax (Rmax 0 ((t_mu te - t_nu te) / (3 * t_mu te))) 0 + 1 / 10000000000).
Proof.
  intro vm. unfold t_solveAlpha_bounds. cbv zeta. cbn [fst snd]. fold vm.
  split; [intros []; reflexivity|]. split; [reflexivity|]. split; [reflexivity|].
  split; [intros []; reflexivity|]. split.
  - intros c. cbv zeta. destruct c; cbn [fst snd]; unfold t_alpha_initial;
      match goal with |- ?a < Rmax (Rmax ?x ?y) ?z + ?d /\ _ =>
        pose proof (Rmax_l (Rmax x y) z); pose proof (Rmax_r (Rmax x y) z);
        pose proof (Rmax_l x y); pose proof (Rmax_r x y) end;
      repeat split; lra.
  - intros H1 H2 H3. f_equal. f_equal. f_equal. field. repeat split; assumption.
Qed.

Lemma template_findvwLTE_cases te :
  let lo1 := (1 - t_psiN te) / 3 in let lo2 := (t_mu te - t_nu te) / (3 * t_mu te) in
  (t_alN te < lo1 \/ t_alN te <= lo2 -> t_findvwLTE te = 0) /\
  (~ (t_alN te < lo1 \/ t_alN te <= lo2) ->
   (maxAl100 te < t_alN te \/ t_shootingInLTE te (t_vJ te) < 0) -> t_findvwLTE te = 1) /\
  (lo1 <= t_alN te -> lo2 < t_alN te -> t_alN te <= maxAl100 te ->
   0 <= t_shootingInLTE te (t_vJ te) ->
   t_findvwLTE te = rootLTE te (1 / 1000) (t_vJ te)).
Proof.
  intros lo1 lo2. unfold t_findvwLTE. fold lo1 lo2.
  repeat split; intros;
    repeat match goal with |- context [Rlt_dec ?x ?y] => destruct (Rlt_dec x y) end;
    repeat match goal with |- context [Rle_dec ?x ?y] => destruct (Rle_dec x y) end;
    cbn [orb]; try reflexivity; try (exfalso; lra); try (exfalso; tauto).
Qed.

Lemma template_shootingInLTE_def te vw :
  t_shootingInLTE te vw =
  shooting te vw (t_getVp te (Rmin (t_cb te) vw) (solveAlphaRoot te vw) (-1)).
Proof. unfold t_shootingInLTE. cbv zeta. repeat f_equal; ring. Qed.

(** * Property theorems *)

(** the generated residual with vp=None contains the entropy relation: at a zero,
    T+^2 (1 - v-^2) = T-^2 (1 - v+^2) with v+^2 := (v+v-)(v+/v-), and v-^2 = min(vw^2, cb^2(T-)) *)
Theorem entropy_relation : forall e vw Tpm0 x,
  let Tp := fst (invMap e x) in let Tm := snd (invMap e x) in
  let vmsq := Rmin (vw ^ 2) (csqLowT e Tm) in
  let vpvm := fst (vpvmAndvpovm e Tp Tm) in let vpovm := snd (vpvmAndvpovm e Tp Tm) in
  Tm <> 0 ->
  matchingLTE e vw Tpm0 x = (0, 0) ->
  Tp ^ 2 * (1 - vmsq) = Tm ^ 2 * (1 - vpvm * vpovm) /\ vpvm / vpovm = vmsq.
Proof. exact matchingLTE_root. Qed.
Print Assumptions entropy_relation.

(** the quadruple returned by matchDeflagOrHyb(vw) satisfies T+ gamma+ = T- gamma-, whatever
    temperatures the solver produced *)
Theorem returned_matching_conserves_entropy_for_any_vw : forall e vw Tp Tm,
  let vmsq := Rmin (vw ^ 2) (csqLowT e Tm) in
  0 < Tp -> 0 < Tm -> 0 <= vmsq < 1 -> 0 <= Tm ^ 2 - Tp ^ 2 * (1 - vmsq) ->
  let vp := fst (fst (fst (matchTail e vw Tp Tm))) in
  let vm := snd (fst (fst (matchTail e vw Tp Tm))) in
  snd (fst (matchTail e vw Tp Tm)) = Tp /\ snd (matchTail e vw Tp Tm) = Tm /\
  vm * vm = vmsq /\ 0 <= vm < 1 /\ 0 <= vp < 1 /\
  Tp ^ 2 * (1 - vm * vm) = Tm ^ 2 * (1 - vp * vp) /\
  Tp * sqrt (gam2 vp) = Tm * sqrt (gam2 vm).
Proof.
  intros e vw Tp Tm vmsq H1 H2 H3 H4 vp vm.
  destruct (tail_vm e vw Tp Tm H3) as (_ & A & B).
  destruct (tail_vp e vw Tp Tm H1 H2 H3 H4) as (_ & C).
  destruct (tail_entropy e vw Tp Tm H1 H2 H3 H4) as (D & E).
  split; [rewrite matchTail_value; reflexivity|].
  split; [rewrite matchTail_value; reflexivity|].
  repeat split; try apply A; try apply B; try apply C; assumption.
Qed.
Print Assumptions returned_matching_conserves_entropy_for_any_vw.

(** ... and, when the temperatures are a zero of the generated 2x2 system, energy and
    momentum flux as well (the first sentence of the property) *)
Theorem lte_matching_conserves_all_fluxes : forall e vw Tp Tm x Tpm0,
  let vmsq := Rmin (vw ^ 2) (csqLowT e Tm) in
  0 < Tp -> 0 < Tm -> 0 <= vmsq < 1 -> 0 <= Tm ^ 2 - Tp ^ 2 * (1 - vmsq) ->
  eHighT e Tp <> eLowT e Tm -> eHighT e Tp + pLowT e Tm <> 0 ->
  0 < fst (vpvmAndvpovm e Tp Tm) -> 0 < snd (vpvmAndvpovm e Tp Tm) ->
  invMap e x = (Tp, Tm) -> matchingLTE e vw Tpm0 x = (0, 0) ->
  let vp := fst (fst (fst (matchTail e vw Tp Tm))) in
  let vm := snd (fst (fst (matchTail e vw Tp Tm))) in
  energy_flux (eHighT e Tp + pHighT e Tp) vp = energy_flux (eLowT e Tm + pLowT e Tm) vm /\
  momentum_flux (eHighT e Tp + pHighT e Tp) (pHighT e Tp) vp =
  momentum_flux (eLowT e Tm + pLowT e Tm) (pLowT e Tm) vm /\
  Tp * sqrt (gam2 vp) = Tm * sqrt (gam2 vm).
Proof.
  intros e vw Tp Tm x Tpm0 vmsq H1 H2 H3 H4 H5 H6 H7 H8 Hx Hr vp vm.
  destruct (tail_fluxes e vw Tp Tm H1 H2 H3 H4 H5 H6 H7 H8 x Tpm0 Hx Hr) as (A & B).
  destruct (tail_entropy e vw Tp Tm H1 H2 H3 H4) as (_ & E).
  repeat split; assumption.
Qed.
Print Assumptions lte_matching_conserves_all_fluxes.

(** template model: decision rule of findvwLTE and the alpha bounds of solveAlpha *)
Theorem template_lte_decisions : forall te,
  let lo1 := (1 - t_psiN te) / 3 in let lo2 := (t_mu te - t_nu te) / (3 * t_mu te) in
  (t_alN te < lo1 \/ t_alN te <= lo2 -> t_findvwLTE te = 0) /\
  (~ (t_alN te < lo1 \/ t_alN te <= lo2) ->
   (maxAl100 te < t_alN te \/ t_shootingInLTE te (t_vJ te) < 0) -> t_findvwLTE te = 1) /\
  (lo1 <= t_alN te -> lo2 < t_alN te -> t_alN te <= maxAl100 te ->
   0 <= t_shootingInLTE te (t_vJ te) ->
   t_findvwLTE te = rootLTE te (1 / 1000) (t_vJ te)).
Proof. exact template_findvwLTE_cases. Qed.
Print Assumptions template_lte_decisions.

Theorem template_lte_interior : forall te,
  0 < t_findvwLTE te < 1 ->
  (1 - t_psiN te) / 3 <= t_alN te /\ (t_mu te - t_nu te) / (3 * t_mu te) < t_alN te /\
  t_alN te <= maxAl100 te /\ 0 <= t_shootingInLTE te (t_vJ te) /\
  t_findvwLTE te = rootLTE te (1 / 1000) (t_vJ te) /\
  (forall vw, t_shootingInLTE te vw =
     shooting te vw (t_getVp te (Rmin (t_cb te) vw) (solveAlphaRoot te vw) (-1))).
Proof.
  intros te H. destruct (template_findvwLTE_cases te) as (A & B & C). cbv zeta in *.
  destruct (Rlt_dec (t_alN te) ((1 - t_psiN te) / 3)) as [a|a];
    [rewrite A in H by (left; assumption); lra|].
  destruct (Rle_dec (t_alN te) ((t_mu te - t_nu te) / (3 * t_mu te))) as [b|b];
    [rewrite A in H by (right; assumption); lra|].
  assert (N : ~ (t_alN te < (1 - t_psiN te) / 3 \/
                 t_alN te <= (t_mu te - t_nu te) / (3 * t_mu te))) by tauto.
  destruct (Rlt_dec (maxAl100 te) (t_alN te)) as [c|c];
    [rewrite (B N) in H by (left; assumption); lra|].
  destruct (Rlt_dec (t_shootingInLTE te (t_vJ te)) 0) as [d|d];
    [rewrite (B N) in H by (right; assumption); lra|].
  split; [lra|]. split; [lra|]. split; [lra|]. split; [lra|]. split.
  - apply C; lra.
  - apply template_shootingInLTE_def.
Qed.
Print Assumptions template_lte_interior.

Theorem template_alpha_bounds : forall te vw,
  let vm := Rmin (t_cb te) vw in
  (forall c, fst (fst (fst (t_solveAlpha_bounds te vw c))) = vm) /\
  snd (fst (fst (t_solveAlpha_bounds te vw true))) = Rmin (t_cs2 te / vw) vw /\
  snd (fst (fst (t_solveAlpha_bounds te vw false))) = vm /\
  (forall c, snd (t_solveAlpha_bounds te vw c) = 1 / 3) /\
  (forall c, let vpMax := snd (fst (fst (t_solveAlpha_bounds te vw c))) in
             let alMin := snd (fst (t_solveAlpha_bounds te vw c)) in
             t_alpha_initial te vm vpMax < alMin /\
             (t_mu te - t_nu te) / (3 * t_mu te) < alMin /\ 0 < alMin) /\
  (vm <> 0 -> t_cb2 te <> 0 -> 1 - vm ^ 2 <> 0 ->
   snd (fst (t_solveAlpha_bounds te vw false)) =
   Rmax (Rmax 0 ((t_mu te - t_nu te) / (3 * t_mu te))) 0 + 1 / 10000000000).
Proof. exact solveAlpha_bounds_spec. Qed.
Print Assumptions template_alpha_bounds.

Theorem template_alpha_forms : forall te vm vp,
  vm <> 0 -> t_cb2 te <> 0 -> 1 - vp ^ 2 <> 0 ->
  t_alpha_shooting te vm vp = t_alpha_initial te vm vp.
Proof. exact alpha_forms_agree. Qed.
Print Assumptions template_alpha_forms.

(** one source for the nucleation temperature: outside __init__ every method of Hydrodynamics
    and of the template class reads it as self.Tnucl (the copy taken when the solver was
    built) -- in particular findvwLTE with its closures, findMatching, solveHydroShock and
    matchDeflagOrHyb agree on the temperature they shoot for, whatever happens to the model
    object afterwards.  The lists are def-use facts regenerated from the AST on every run. *)
Theorem nucleation_temperature_single_source :
  tnucl_foreign_reads = nil /\
  (forall m, In m ["Hydrodynamics.findvwLTE"; "Hydrodynamics.findMatching";
                   "Hydrodynamics.solveHydroShock"; "Hydrodynamics.matchDeflagOrHyb"]%string ->
             exists n, In (m, S n) tnucl_own_reads).
Proof.
  split; [reflexivity|].
  intros m H. cbn in H.
  repeat (destruct H as [H|H]; [subst m; eexists; unfold tnucl_own_reads; cbn;
                                 repeat (first [left; reflexivity | right])|]).
  contradiction.
Qed.
Print Assumptions nucleation_temperature_single_source.

(** general model: decision logic of Hydrodynamics.findvwLTE, offsets taken from the source *)
Notation lte := (findvwLTE lte_epsJ lte_epsShock).

Theorem lte_interior : forall o vMin vJ csTn,
  (0 < value (lte o vMin vJ csTn) < 1)%Q ->
  exists v vmax, lte o vMin vJ csTn = Interior v /\ (v == value (lte o vMin vJ csTn))%Q /\
    vmax_of lte_epsJ lte_epsShock o vJ csTn = Some vmax /\
    (fst (diff o vmax) <= 0)%Q /\ snd (diff o vmax) = true /\ (0 <= fst (diff o vMin))%Q /\
    v = rootDiff o vMin vmax /\
    (((shock o (vJ - lte_epsJ) <= 0)%Q /\ vmax = (vJ - lte_epsJ)%Q) \/
     ((0 < shock o (vJ - lte_epsJ))%Q /\
      exists r, rootShock o csTn vJ = Some r /\ vmax = (r - lte_epsShock)%Q)).
Proof.
  intros o vMin vJ csTn H.
  destruct (value_interior _ _ _ _ _ _ H) as (v & Hv & Ev).
  destruct (interior_sound _ _ _ _ _ _ v Hv) as (vmax & A & B & C & D & E).
  exists v, vmax. repeat split; try assumption. apply vmax_origin; assumption.
Qed.
Print Assumptions lte_interior.

Theorem lte_zero : forall o vMin vJ csTn,
  lte o vMin vJ csTn = Static ->
  exists vmax, vmax_of lte_epsJ lte_epsShock o vJ csTn = Some vmax /\
    (fst (diff o vmax) <= 0)%Q /\ snd (diff o vmax) = true /\ (fst (diff o vMin) < 0)%Q.
Proof. intros o vMin vJ csTn H. exact (static_sound _ _ _ _ _ _ H). Qed.
Print Assumptions lte_zero.

Theorem lte_one : forall o vMin vJ csTn,
  lte o vMin vJ csTn = Runaway ->
  ((0 < shock o (vJ - lte_epsJ))%Q /\ rootShock o csTn vJ = None) \/
  exists vmax, vmax_of lte_epsJ lte_epsShock o vJ csTn = Some vmax /\
    ((0 < fst (diff o vmax))%Q \/ snd (diff o vmax) = false).
Proof. intros o vMin vJ csTn H. exact (runaway_sound _ _ _ _ _ _ H). Qed.
Print Assumptions lte_one.

Theorem lte_outcomes_complete : forall o vMin vJ csTn vmax,
  vmax_of lte_epsJ lte_epsShock o vJ csTn = Some vmax ->
  (fst (diff o vmax) <= 0)%Q -> snd (diff o vmax) = true ->
  ((fst (diff o vMin) < 0)%Q -> lte o vMin vJ csTn = Static) /\
  ((0 <= fst (diff o vMin))%Q -> lte o vMin vJ csTn = Interior (rootDiff o vMin vmax)).
Proof.
  intros. split; intro.
  - eapply static_complete; eassumption.
  - eapply interior_complete; eassumption.
Qed.
Print Assumptions lte_outcomes_complete.

(** bracketing root finder => the interior result lies in [vMin, vmax] *)
Theorem lte_interior_in_window : forall o vMin vJ csTn,
  (forall a b, (a <= b)%Q -> (fst (diff o b) <= 0)%Q -> (0 <= fst (diff o a))%Q ->
               (a <= rootDiff o a b <= b)%Q) ->
  forall v vmax, lte o vMin vJ csTn = Interior v ->
  vmax_of lte_epsJ lte_epsShock o vJ csTn = Some vmax -> (vMin <= vmax)%Q ->
  (vMin <= v <= vmax)%Q.
Proof. intros o vMin vJ csTn Hc v vmax H E L. eapply interior_in_window; eassumption. Qed.
Print Assumptions lte_interior_in_window.

(** PARTIAL.  Property: "when it returns the runaway sentinel the entropy mismatch keeps one
    sign over the whole deflagration/hybrid window".  The code tests ONE end only (lte_one);
    the whole-window statement is proved here only under monotonicity of the mismatch in the
    wall velocity, which is physics, not code; tools/props/C05.py validates it by scanning
    the window (64 / 512 velocities). *)
Theorem lte_one_whole_window_partial : forall o vMin vJ csTn,
  (forall a b, (a <= b)%Q -> (fst (diff o b) <= fst (diff o a))%Q) ->
  (forall vmax, vmax_of lte_epsJ lte_epsShock o vJ csTn = Some vmax ->
     (0 < fst (diff o vmax))%Q -> forall v, (v <= vmax)%Q -> (0 < fst (diff o v))%Q) /\
  (lte o vMin vJ csTn = Static -> forall v, (vMin <= v)%Q -> (fst (diff o v) < 0)%Q).
Proof.
  intros o vMin vJ csTn Hm. split.
  - intros vmax E H v Hv. eapply runaway_whole_window; eassumption.
  - intros H v Hv. eapply static_whole_window; eassumption.
Qed.
Print Assumptions lte_one_whole_window_partial.

(** the property's sentinel clauses speak about the entropy mismatch of the Tn-reaching
    matching; the code tests the shock-temperature difference of the entropy-conserving one.
    With the sign equivalence as an explicit hypothesis (validated by the harness on the scan
    grid) the outcomes read as the property states them. *)
Theorem lte_sentinel_bridge : forall o vMin vJ csTn (mism : Q -> Q),
  (forall v, (0 < fst (diff o v))%Q <-> (0 < mism v)%Q) ->
  (forall v, (fst (diff o v) < 0)%Q <-> (mism v < 0)%Q) ->
  (lte o vMin vJ csTn = Static -> (mism vMin < 0)%Q) /\
  (lte o vMin vJ csTn = Runaway ->
     ((0 < shock o (vJ - lte_epsJ))%Q /\ rootShock o csTn vJ = None) \/
     exists vmax, vmax_of lte_epsJ lte_epsShock o vJ csTn = Some vmax /\
       ((0 < mism vmax)%Q \/ snd (diff o vmax) = false)) /\
  (forall v, lte o vMin vJ csTn = Interior v ->
     exists vmax, vmax_of lte_epsJ lte_epsShock o vJ csTn = Some vmax /\
       ~ (0 < mism vmax)%Q /\ ~ (mism vMin < 0)%Q /\ v = rootDiff o vMin vmax).
Proof.
  intros o vMin vJ csTn mism Hp Hn. split; [|split].
  - eapply static_mismatch; eassumption.
  - eapply runaway_mismatch; eassumption.
  - intros v. eapply interior_mismatch; eassumption.
Qed.
Print Assumptions lte_sentinel_bridge.

(** Tn boundary at an interior result, under the bracketing root finder's contract with an
    explicit tolerance (validated: the code's own shooting function at the returned velocity
    is measured against it, and the independent integrator confirms the temperature) *)
Theorem lte_interior_reaches_Tn : forall o vMin vJ csTn (tol : Q),
  (forall a b, (a <= b)%Q -> (fst (diff o b) <= 0)%Q -> (0 <= fst (diff o a))%Q ->
               (Qabs.Qabs (fst (diff o (rootDiff o a b))) <= tol)%Q) ->
  forall v vmax, lte o vMin vJ csTn = Interior v ->
  vmax_of lte_epsJ lte_epsShock o vJ csTn = Some vmax -> (vMin <= vmax)%Q ->
  (Qabs.Qabs (fst (diff o v)) <= tol)%Q.
Proof. intros o vMin vJ csTn tol H v vmax Hv E L. eapply interior_reaches_Tn; eassumption. Qed.
Print Assumptions lte_interior_reaches_Tn.

(** the flag consulted by findvwLTE: generated definition of Hydrodynamics.success *)
Theorem success_definition : forall (hybr_ok : bool) (sumsq : R),
  success_of hybr_ok sumsq = true <-> hybr_ok = true \/ sumsq < 1 / 1000000.
Proof.
  intros b s. unfold success_of. destruct b; cbn [orb].
  - split; intro; [left; reflexivity|reflexivity].
  - destruct (Rlt_dec s (1 / 1000000)) as [H|H]; split; intro A.
    + right. lra.
    + reflexivity.
    + discriminate.
    + destruct A as [A|A]; [discriminate|lra].
Qed.
Print Assumptions success_definition.

(** non-vacuity of the hypotheses of the flux theorem: bag-like numbers
    p+ = T^4 - 1/10, e+ = 3 T^4 + 1/10, p- = (9/10) T^4, e- = (27/10) T^4; T+ = 1, T- = 99/100,
    subsonic wall vw = 1/2 *)
Example hypotheses_satisfiable :
  let e := mk_env 1 (1/100) 10 (fun _ => 1/3) (fun _ => 1/3) (fun T => 4 * T ^ 4)
                  (fun T => 36/10 * T ^ 4) (fun T => T ^ 4 - 1/10) (fun T => 9/10 * T ^ 4)
                  (fun T => 3 * T ^ 4 + 1/10) (fun T => 27/10 * T ^ 4) (1/10) (fun x => x) in
  let Tp := 1 in let Tm := 99/100 in let vmsq := Rmin ((1/2) ^ 2) (csqLowT e Tm) in
  0 < Tp /\ 0 < Tm /\ 0 <= vmsq < 1 /\ 0 <= Tm ^ 2 - Tp ^ 2 * (1 - vmsq) /\
  eHighT e Tp <> eLowT e Tm /\ eHighT e Tp + pLowT e Tm <> 0 /\
  0 < fst (vpvmAndvpovm e Tp Tm) /\ 0 < snd (vpvmAndvpovm e Tp Tm).
Proof.
  cbv zeta. cbn [csqLowT eHighT eLowT pLowT pHighT].
  assert (E : Rmin ((1 / 2) ^ 2) (1 / 3) = 1 / 4) by (rewrite Rmin_left; lra).
  rewrite E. repeat split; try lra.
  - unfold vpvmAndvpovm. cbv zeta. cbn [csqLowT eHighT eLowT pLowT pHighT fst snd].
    destruct (Req_EM_T _ _) as [A|A]; [exfalso; lra|]. cbn [negb fst].
    apply Rdiv_lt_0_compat; lra.
  - unfold vpvmAndvpovm. cbv zeta. cbn [csqLowT eHighT eLowT pLowT pHighT fst snd].
    apply Rdiv_lt_0_compat; lra.
Qed.
