(** C08 -- results are covariant under relabelling of field space
    (new field j = s_j * old field p(j) + c_j : permutation, reflection, translation).

    Every statement is about the definitions GENERATED on this run from
    src/WallGo/equationOfMotion.py (wallProfile, action, _updateGrid, _toWallParams,
    temperatureProfileEqLHS, the arguments / method / use of the answer of
    scipy.optimize.minimize, the relaxation step, the clipping, dV/dz), containers.py
    (WallParams arithmetic) and fields.py (Fields helpers) by tools/gen_fields.py -- module
    GenC08.FieldGen.  The generator also fails closed on in-place stores to translated names
    and on comparisons / reductions / positional indices on field-axis data outside the model.

    External (NOT modelled; Section variables below): the user's potential, the particle
    masses and the spectral quadrature that turn a field profile into the potential part U
    of the action ([Vint]), scipy's Nelder-Mead minimiser, root finders, phase tracing.  What
    is proved is that everything WallGo itself does to the field axis commutes with the
    relabelling, so the objective handed to the minimiser for the relabelled model is the old
    objective (and, when the pinned field stays first, the whole minimisation problem is the
    old one), and that moving the pinned (offset = 0) field to another field is a
    z-translation. *)
From Coq Require Import Reals List Lra Lia Permutation Arith.
From WG Require Import Lib.FieldSpace.
From GenC08 Require Import FieldGen.
Import ListNotations.
Local Open Scope R_scope.

(** the wall configuration as the code sees it: one tanh per field *)
Definition profile (z : R) (fs : list wfield) : list R :=
  map (fun f => wallProfile_ret0 z (vevLow f) (vevHigh f) (width f) (offset f)) fs.
Definition dprofile (z : R) (fs : list wfield) : list R :=
  map (fun f => wallProfile_ret1 z (vevLow f) (vevHigh f) (width f) (offset f)) fs.

(** ** 1. the tanh ansatz is equivariant *)
Lemma profile_affine z lo hi w o s c :
  wallProfile_ret0 z (s * lo + c) (s * hi + c) w o = s * wallProfile_ret0 z lo hi w o + c.
Proof. unfold wallProfile_ret0, Rdiv. ring. Qed.
Lemma dprofile_affine z lo hi w o s c :
  wallProfile_ret1 z (s * lo + c) (s * hi + c) w o = s * wallProfile_ret1 z lo hi w o.
Proof. unfold wallProfile_ret1, Rdiv. ring. Qed.

(** both branches of `if np.isscalar(z)` compute the same function *)
Lemma wallProfile_scalar_branch z lo hi w o :
  wallProfile_ret0_scalarz z lo hi w o = wallProfile_ret0 z lo hi w o /\
  wallProfile_ret1_scalarz z lo hi w o = wallProfile_ret1 z lo hi w o.
Proof.
  unfold wallProfile_ret0_scalarz, wallProfile_ret0, wallProfile_ret1_scalarz, wallProfile_ret1.
  split; first [reflexivity | unfold Rdiv; ring].
Qed.

Lemma profile_relabel_full T fs z : wf_relab (length fs) T ->
  profile z (relabel T fs) = relabel_point T (profile z fs) /\
  dprofile z (relabel T fs) = relabel_vec T (dprofile z fs).
Proof.
  intros HT. unfold profile, dprofile, relabel, relabel_point, relabel_vec.
  rewrite !map_map. split; apply map_ext_in; intros t Ht;
    pose proof (wf_relab_idx _ _ _ HT Ht) as Hi;
    cbn [vevLow vevHigh width offset relabel1].
  - rewrite profile_affine. rewrite nth_map_in with (da := wf0) by exact Hi. reflexivity.
  - rewrite dprofile_affine. rewrite nth_map_in with (da := wf0) by exact Hi. reflexivity.
Qed.

(** ** 2. the kinetic term K only sees (vevHigh - vevLow)^2 and the width *)
Lemma kinetic_invariant_full T fs U : wf_relab (length fs) T ->
  action_ret U (relabel T fs) = action_ret U fs.
Proof.
  intros HT. unfold action_ret.
  match goal with |- context [sumR (map ?g (relabel T fs))] =>
    rewrite (sumR_perm _ _ (relabel_map_invariant g T fs
      ltac:(intros s c f [-> | ->]; cbn [vevLow vevHigh width offset relabel1];
            unfold Rdiv; ring) HT)) end.
  reflexivity.
Qed.

(** the objective handed to the minimiser: U is a functional of the profile (external:
    user potential + quadrature); "potential transformed consistently" is [Vcov] *)
Section ActionCovariance.
Variables Vint Vint' : (R -> list R) -> R.
Variable T : list triple.
Hypothesis Vcov : forall prof prof' : R -> list R,
  (forall z, prof' z = relabel_point T (prof z)) -> Vint' prof' = Vint prof.
Definition action_model (V : (R -> list R) -> R) (fs : list wfield) : R :=
  action_ret (V (fun z => profile z fs)) fs.
Lemma action_covariant_full fs : wf_relab (length fs) T ->
  action_model Vint' (relabel T fs) = action_model Vint fs.
Proof.
  intros HT. unfold action_model.
  rewrite (Vcov (fun z => profile z fs) (fun z => profile z (relabel T fs)))
    by (intros z; apply profile_relabel_full, HT).
  apply kinetic_invariant_full, HT.
Qed.
End ActionCovariance.

(** ** 3. the grid follows the envelope of all walls: no field is special *)
Lemma grid_perm_full e fs fs' v : Permutation fs fs' ->
  updateGrid_arg0 e fs v = updateGrid_arg0 e fs' v /\
  updateGrid_arg1 e fs v = updateGrid_arg1 e fs' v /\
  updateGrid_arg2 e fs v = updateGrid_arg2 e fs' v /\
  updateGrid_arg3 e fs v = updateGrid_arg3 e fs' v.
Proof.
  intros H. unfold updateGrid_arg0, updateGrid_arg1, updateGrid_arg2, updateGrid_arg3.
  repeat erewrite (maxR_perm _ _ (Permutation_map _ H)).
  repeat erewrite (minR_perm _ _ (Permutation_map _ H)).
  repeat split; reflexivity.
Qed.

Lemma grid_relabel_full e T fs v : wf_relab (length fs) T ->
  updateGrid_arg0 e (relabel T fs) v = updateGrid_arg0 e fs v /\
  updateGrid_arg1 e (relabel T fs) v = updateGrid_arg1 e fs v /\
  updateGrid_arg2 e (relabel T fs) v = updateGrid_arg2 e fs v /\
  updateGrid_arg3 e (relabel T fs) v = updateGrid_arg3 e fs v.
Proof.
  intros HT. unfold updateGrid_arg0, updateGrid_arg1, updateGrid_arg2, updateGrid_arg3.
  repeat match goal with |- context [maxR (map ?g (relabel T fs))] =>
    rewrite (maxR_perm _ _ (relabel_map_invariant g T fs
      ltac:(intros s c f _; reflexivity) HT)) end.
  repeat match goal with |- context [minR (map ?g (relabel T fs))] =>
    rewrite (minR_perm _ _ (relabel_map_invariant g T fs
      ltac:(intros s c f _; reflexivity) HT)) end.
  repeat split; reflexivity.
Qed.

(** the grid window [c0 - thickness, c0 + thickness], c0 = centre + thickness*ln2/2 (the
    geometric centre before the ln2/2 shift towards the source peak), contains the interval
    [z_f - L_f, z_f + L_f] of EVERY wall (z_f = -d_f L_f), and is the smallest such window *)
Lemma grid_contains_full e fs v f : In f fs ->
  let thick := updateGrid_arg2 e fs v in
  let c0 := updateGrid_arg3 e fs v + thick * ln 2 / 2 in
  c0 - thick <= (-1 - offset f) * width f /\ (1 - offset f) * width f <= c0 + thick.
Proof.
  intros Hf. unfold updateGrid_arg2, updateGrid_arg3.
  match goal with |- context [maxR (map ?g fs)] =>
    pose proof (maxR_ub (map g fs) (g f) (in_map g fs f Hf)) as HM; set (M := maxR (map g fs)) in * end.
  match goal with |- context [minR (map ?g fs)] =>
    pose proof (minR_lb (map g fs) (g f) (in_map g fs f Hf)) as Hm; set (m := minR (map g fs)) in * end.
  cbv beta in HM, Hm. cbv zeta. split; lra.
Qed.
Lemma grid_tight_full e fs v : fs <> [] ->
  let thick := updateGrid_arg2 e fs v in
  let c0 := updateGrid_arg3 e fs v + thick * ln 2 / 2 in
  (exists f, In f fs /\ (1 - offset f) * width f = c0 + thick) /\
  (exists f, In f fs /\ (-1 - offset f) * width f = c0 - thick).
Proof.
  intros Hne. unfold updateGrid_arg2, updateGrid_arg3. cbv zeta. split.
  - match goal with |- context [maxR (map ?g fs)] =>
      destruct (proj1 (in_map_iff g fs _) (maxR_in (map g fs) (map_neq_nil g fs Hne))) as [f [E Hf]];
      exists f; split; [exact Hf|]; set (M := maxR (map g fs)) in * end.
    cbv beta in E. lra.
  - match goal with |- context [minR (map ?g fs)] =>
      destruct (proj1 (in_map_iff g fs _) (minR_in (map g fs) (map_neq_nil g fs Hne))) as [f [E Hf]];
      exists f; split; [exact Hf|]; set (m := minR (map g fs)) in * end.
    cbv beta in E. lra.
Qed.

(** ** 4. re-pinning = z-translation *)
Lemma profile_shift1 z c lo hi w o : w <> 0 ->
  wallProfile_ret0 z lo hi w (o - c / w) = wallProfile_ret0 (z - c) lo hi w o /\
  wallProfile_ret1 z lo hi w (o - c / w) = wallProfile_ret1 (z - c) lo hi w o.
Proof.
  intros Hw. unfold wallProfile_ret0, wallProfile_ret1. split.
  - match goal with |- ?l = ?r =>
      match l with context [tanh ?X] => match r with context [tanh ?Y] =>
        replace X with Y by (field; exact Hw) end end end. reflexivity.
  - match goal with |- ?l = ?r =>
      match l with context [cosh ?X] => match r with context [cosh ?Y] =>
        replace X with Y by (field; exact Hw) end end end. reflexivity.
Qed.

Lemma profile_shift z c fs : Forall (fun f => width f <> 0) fs ->
  profile z (shift_offsets c fs) = profile (z - c) fs /\
  dprofile z (shift_offsets c fs) = dprofile (z - c) fs.
Proof.
  intros Hw. rewrite Forall_forall in Hw. unfold profile, dprofile, shift_offsets.
  rewrite !map_map. split; apply map_ext_in; intros f Hf; cbn [vevLow vevHigh width offset];
    apply (profile_shift1 z c _ _ _ _ (Hw f Hf)).
Qed.

Ltac shift_maps c fs Hw :=
  repeat match goal with
  | |- context [map ?g (shift_offsets c fs)] =>
      let E := fresh "E" in
      assert (E : map g (shift_offsets c fs) = map (fun x => x + c) (map g fs))
        by (unfold shift_offsets; rewrite !map_map; apply map_ext_in; intros f Hf;
            cbn [vevLow vevHigh width offset]; field; exact (Hw f Hf));
      rewrite E; clear E
  end.

Lemma grid_shift_full e c fs v : fs <> [] -> Forall (fun f => width f <> 0) fs ->
  updateGrid_arg0 e (shift_offsets c fs) v = updateGrid_arg0 e fs v /\
  updateGrid_arg1 e (shift_offsets c fs) v = updateGrid_arg1 e fs v /\
  updateGrid_arg2 e (shift_offsets c fs) v = updateGrid_arg2 e fs v /\
  updateGrid_arg3 e (shift_offsets c fs) v = updateGrid_arg3 e fs v + c.
Proof.
  intros Hne Hw. rewrite Forall_forall in Hw.
  unfold updateGrid_arg0, updateGrid_arg1, updateGrid_arg2, updateGrid_arg3.
  shift_maps c fs Hw.
  rewrite !maxR_shift by (apply map_neq_nil, Hne).
  rewrite !minR_shift by (apply map_neq_nil, Hne).
  repeat split; first [solve [field] | f_equal; unfold Rdiv; ring].
Qed.

(** two fields, first one pinned: listing them in the other order (so that the other
    field is pinned) gives offsets (0, -(L1/L0) d1) and the same walls moved by L1 d1 *)
Lemma swap_two_fields_full f0 f1 z : offset f0 = 0 -> width f0 <> 0 -> width f1 <> 0 ->
  map offset (repin f1 [f1; f0]) = [0; - (width f1 / width f0) * offset f1] /\
  profile z (repin f1 [f1; f0]) = rev (profile (z - width f1 * offset f1) [f0; f1]).
Proof.
  intros H0 Hw0 Hw1. split.
  - unfold repin, shift_offsets. cbn [map offset]. rewrite H0. f_equal; [field; exact Hw1|].
    f_equal. field. exact Hw0.
  - unfold repin. rewrite (proj1 (profile_shift z _ [f1; f0] ltac:(repeat constructor; assumption))).
    reflexivity.
Qed.

(** ** 5. dV/dz = sum_i d_iV phi_i' : gradient and tangent both pick up the sign *)
Definition relabel_cov (T : list triple) (ts : list (R * R * R)) : list (R * R * R) :=
  map (fun t => (fun s x => (s * fst (fst x), s * snd (fst x), s * snd x)) (t_sgn t)
                  (nth (t_idx t) ts (0, 0, 0))) T.
Lemma dVdz_invariant_full T ts : wf_relab (length ts) T ->
  dVdz_point (relabel_cov T ts) = dVdz_point ts.
Proof.
  intros HT. unfold dVdz_point, relabel_cov.
  match goal with |- sumR (map ?g _) = _ =>
    apply sumR_perm;
    apply (relabel_gen_invariant (0, 0, 0)
             (fun s x => (s * fst (fst x), s * snd (fst x), s * snd x)) g T ts);
    [intros s x [-> | ->]; cbn [fst snd]; ring | exact HT] end.
Qed.

(** ** 5b. energy-momentum conservation inside the wall: the kinetic term sum_i phi_i'^2 of
    temperatureProfileEqLHS only sees the squares (the potential and its T-derivative at
    the field point are external and transformed consistently) *)
Lemma temperatureLHS_invariant_full T dP Tm veff dVdT s1 s2 : wf_relab (length dP) T ->
  temperatureLHS (relabel_vec T dP) Tm veff dVdT s1 s2 = temperatureLHS dP Tm veff dVdT s1 s2.
Proof.
  intros HT. unfold temperatureLHS, relabel_vec.
  match goal with |- context [sumR (map ?g (map _ T))] =>
    pose proof (relabel_gen_invariant 0 (fun s x => s * x) g T dP
                  ltac:(intros s x [-> | ->]; ring) HT) as P end.
  cbv beta in P. rewrite (sumR_perm _ _ P). reflexivity.
Qed.

(** ** 6. what the minimiser receives *)
Lemma x0_layout n widths offsets : length widths = n -> length offsets = n -> (1 <= n)%nat ->
  length (minimize_x0 widths offsets) = (2 * n - 1)%nat /\
  (forall k, (k < n)%nat -> nth k (minimize_x0 widths offsets) 0 = nth k widths 0) /\
  (forall j, (1 <= j < n)%nat ->
     nth (n + j - 1) (minimize_x0 widths offsets) 0 = nth j offsets 0).
Proof.
  intros Hw Ho Hn. unfold minimize_x0. repeat split.
  - rewrite app_length, skipn_length. lia.
  - intros k Hk. apply app_nth1. lia.
  - intros j Hj. rewrite app_nth2 by lia. rewrite nth_skipn_add. f_equal. lia.
Qed.

Lemma bounds_layout b n : (1 <= n)%nat ->
  length (minimize_lb b n) = (2 * n - 1)%nat /\ length (minimize_ub b n) = (2 * n - 1)%nat /\
  (forall k, (k < n)%nat ->
     nth k (minimize_lb b n) 0 = thickLo b / Tnucl b /\
     nth k (minimize_ub b n) 0 = thickHi b / Tnucl b) /\
  (forall j, (1 <= j < n)%nat ->
     nth (n + j - 1) (minimize_lb b n) 0 = offLo b /\
     nth (n + j - 1) (minimize_ub b n) 0 = offHi b).
Proof.
  intros Hn. unfold minimize_lb, minimize_ub. repeat split.
  - rewrite app_length, !repeat_length. lia.
  - rewrite app_length, !repeat_length. lia.
  - rewrite app_nth1 by (rewrite repeat_length; lia). apply nth_repeat_lt. lia.
  - rewrite app_nth1 by (rewrite repeat_length; lia). apply nth_repeat_lt. lia.
  - rewrite app_nth2 by (rewrite repeat_length; lia). rewrite repeat_length.
    apply nth_repeat_lt. lia.
  - rewrite app_nth2 by (rewrite repeat_length; lia). rewrite repeat_length.
    apply nth_repeat_lt. lia.
Qed.

Lemma toWallParams_roundtrip n widths offsets : length widths = n ->
  toWallParams_widths n (minimize_x0 widths offsets) = widths /\
  toWallParams_offsets n (minimize_x0 widths offsets) = 0 :: tl offsets.
Proof.
  intros Hw. unfold toWallParams_widths, toWallParams_offsets, minimize_x0. split.
  - rewrite firstn_app, <- Hw, firstn_all, Nat.sub_diag. cbn [firstn]. apply app_nil_r.
  - rewrite skipn_app, <- Hw, skipn_all, Nat.sub_diag. cbn [skipn app].
    destruct offsets; reflexivity.
Qed.

(** ** 7. clipping of the incoming wall parameters (every field, also the pinned one) *)
Ltac minmax :=
  unfold Rmax, Rmin;
  repeat match goal with |- context [Rle_dec ?x ?y] =>
    lazymatch x with context [Rle_dec _ _] => fail | _ =>
    lazymatch y with context [Rle_dec _ _] => fail | _ => destruct (Rle_dec x y) end end end;
  try lra.

Lemma clip_box b : offLo b < 0 < offHi b ->
  clip_offsets b 0 = 0 /\
  (forall d, (11 / 10) * offLo b <= clip_offsets b d <= offHi b) /\
  (forall d, (11 / 10) * offLo b <= d <= (9 / 10) * offHi b -> clip_offsets b d = d) /\
  (0 < thickLo b -> (11 / 10) * thickLo b <= (9 / 10) * thickHi b -> 0 < Tnucl b ->
   forall w, thickLo b / Tnucl b <= clip_widths b w <= thickHi b / Tnucl b).
Proof.
  intros [H1 H2]. split; [|split; [|split]].
  - unfold clip_offsets. minmax.
  - intros d. unfold clip_offsets. minmax.
  - intros d Hd. unfold clip_offsets. minmax.
  - intros Hl Hlh HT w.
    assert (Hi : 0 < / Tnucl b) by (apply Rinv_0_lt_compat, HT).
    assert (A : 0 < thickLo b * / Tnucl b) by (apply Rmult_lt_0_compat; assumption).
    assert (B : (11 / 10) * (thickLo b * / Tnucl b) <= (9 / 10) * (thickHi b * / Tnucl b)).
    { replace ((11 / 10) * (thickLo b * / Tnucl b)) with ((11 / 10) * thickLo b * / Tnucl b) by ring.
      replace ((9 / 10) * (thickHi b * / Tnucl b)) with ((9 / 10) * thickHi b * / Tnucl b) by ring.
      apply Rmult_le_compat_r; [lra|exact Hlh]. }
    unfold clip_widths, Rdiv in *. minmax.
Qed.

(** ** 8. permutations that keep the pinned field first: the minimisation problem itself is
    carried over EXACTLY (same box, same objective), so the minimising widths and offsets
    are the permuted ones.  [feasible] is the box the minimiser works in (first offset 0,
    every width in [wl,wh], every other offset in [ol,oh]); the vevs are data. *)
Section SamePin.
Variables Vint Vint' : (R -> list R) -> R.
Variable T : list triple.
Variable n : nat.
Hypothesis Hn : (1 <= n)%nat.
Hypothesis HT : wf_relab n T.
Hypothesis Hpin : t_idx (nth 0 T (0%nat, 0, 0)) = 0%nat.
Hypothesis Vcov : forall prof prof' : R -> list R,
  (forall z, prof' z = relabel_point T (prof z)) -> Vint' prof' = Vint prof.
Variables wl wh ol oh : R.

Definition feasible (fs : list wfield) : Prop :=
  length fs = n /\ offset (nth 0 fs wf0) = 0 /\
  (forall j, (j < n)%nat -> wl <= width (nth j fs wf0) <= wh) /\
  (forall j, (1 <= j < n)%nat -> ol <= offset (nth j fs wf0) <= oh).
Definition same_vevs (gs fs : list wfield) : Prop :=
  length gs = length fs /\ forall j, (j < length fs)%nat ->
    vevLow (nth j gs wf0) = vevLow (nth j fs wf0) /\
    vevHigh (nth j gs wf0) = vevHigh (nth j fs wf0).

Let idxs := map t_idx T.
Let d3 : triple := (0%nat, 0, 0).

Lemma len_T : length T = n.
Proof. exact (wf_relab_length _ _ HT). Qed.
Lemma idx_nth j : (j < n)%nat -> nth j idxs 0%nat = t_idx (nth j T d3).
Proof. intros Hj. unfold idxs. apply nth_map_in. now rewrite len_T. Qed.
Lemma idx_lt j : (j < n)%nat -> (t_idx (nth j T d3) < n)%nat.
Proof. intros Hj. apply (wf_relab_idx _ _ _ HT). apply nth_In. now rewrite len_T. Qed.
Lemma idx_pos j : (j < n)%nat -> pos (t_idx (nth j T d3)) idxs = j.
Proof.
  intros Hj. rewrite <- idx_nth by exact Hj. apply pos_nth.
  - exact (wf_relab_NoDup _ _ HT).
  - unfold idxs. now rewrite map_length, len_T.
Qed.
Lemma idx_nonzero j : (1 <= j < n)%nat -> (1 <= t_idx (nth j T d3))%nat.
Proof.
  intros Hj. destruct (t_idx (nth j T d3)) eqn:E; [|lia]. exfalso.
  assert (A : pos (t_idx (nth j T d3)) idxs = j) by (apply idx_pos; lia).
  assert (B : pos (t_idx (nth 0 T d3)) idxs = 0%nat) by (apply idx_pos; lia).
  unfold d3 in *. rewrite E in A. rewrite Hpin in B. lia.
Qed.
Lemma nth_relabel_rec fs j : (j < n)%nat ->
  nth j (relabel T fs) wf0 =
  relabel1 (t_sgn (nth j T d3)) (t_shift (nth j T d3)) (nth (t_idx (nth j T d3)) fs wf0).
Proof.
  intros Hj. unfold relabel. rewrite nth_map_in with (da := d3) by (now rewrite len_T).
  reflexivity.
Qed.

Lemma feasible_relabel fs : feasible fs -> feasible (relabel T fs).
Proof.
  intros [L [O [W B]]]. split; [|split; [|split]].
  - unfold relabel. now rewrite map_length, len_T.
  - rewrite nth_relabel_rec by lia. cbn [offset relabel1]. unfold d3. now rewrite Hpin.
  - intros j Hj. rewrite nth_relabel_rec by exact Hj. cbn [width relabel1]. apply W, idx_lt, Hj.
  - intros j Hj. rewrite nth_relabel_rec by lia. cbn [offset relabel1]. apply B.
    split; [apply idx_nonzero, Hj|apply idx_lt; lia].
Qed.

Definition pull_back (fs gs' : list wfield) : list wfield :=
  map (fun i => mk_wfield (vevLow (nth i fs wf0)) (vevHigh (nth i fs wf0))
                          (width (nth (pos i idxs) gs' wf0)) (offset (nth (pos i idxs) gs' wf0)))
      (seq 0 n).
Lemma nth_pull_back fs gs' i : (i < n)%nat ->
  nth i (pull_back fs gs') wf0 =
  mk_wfield (vevLow (nth i fs wf0)) (vevHigh (nth i fs wf0))
            (width (nth (pos i idxs) gs' wf0)) (offset (nth (pos i idxs) gs' wf0)).
Proof.
  intros Hi. unfold pull_back. rewrite nth_map_in with (da := 0%nat) by (now rewrite seq_length).
  now rewrite seq_nth by exact Hi.
Qed.
Lemma pos_lt i : (i < n)%nat -> (pos i idxs < n)%nat /\ nth (pos i idxs) idxs 0%nat = i.
Proof.
  intros Hi. destruct (nth_pos idxs i (wf_relab_In _ _ _ HT Hi)) as [A B].
  unfold idxs in A at 2. rewrite map_length, len_T in A. split; assumption.
Qed.

Lemma pull_back_spec fs gs' : length fs = n -> feasible gs' -> same_vevs gs' (relabel T fs) ->
  feasible (pull_back fs gs') /\ same_vevs (pull_back fs gs') fs /\
  relabel T (pull_back fs gs') = gs'.
Proof.
  intros Lf [L [O [W B]]] [SL SV]. split; [|split].
  - split; [|split; [|split]].
    + unfold pull_back. now rewrite map_length, seq_length.
    + rewrite nth_pull_back by lia. cbn [offset].
      assert (E : pos 0 idxs = 0%nat).
      { pose proof (idx_pos 0 ltac:(lia)) as E0. unfold d3 in E0. now rewrite Hpin in E0. }
      now rewrite E.
    + intros j Hj. rewrite nth_pull_back by exact Hj. cbn [width]. apply W, pos_lt, Hj.
    + intros j Hj. rewrite nth_pull_back by lia. cbn [offset].
      destruct (pos_lt j ltac:(lia)) as [A C]. apply B. split; [|exact A].
      destruct (pos j idxs) eqn:E; [|lia]. exfalso.
      rewrite idx_nth in C by lia. unfold d3 in C. rewrite Hpin in C. lia.
  - split.
    + unfold pull_back. now rewrite map_length, seq_length, Lf.
    + intros j Hj. rewrite Lf in Hj. rewrite nth_pull_back by exact Hj. cbn [vevLow vevHigh]. auto.
  - apply nth_ext with (d := wf0) (d' := wf0).
    + unfold relabel. now rewrite map_length, len_T, L.
    + intros j Hj. unfold relabel in Hj. rewrite map_length, len_T in Hj.
      rewrite nth_relabel_rec by exact Hj.
      rewrite nth_pull_back by (apply idx_lt, Hj). rewrite idx_pos by exact Hj.
      assert (Hj' : (j < length (relabel T fs))%nat)
        by (unfold relabel; now rewrite map_length, len_T).
      destruct (SV j Hj') as [E1 E2]. rewrite nth_relabel_rec in E1, E2 by exact Hj.
      cbn [vevLow vevHigh relabel1] in E1, E2. unfold relabel1. cbn [vevLow vevHigh width offset].
      rewrite <- E1, <- E2. destruct (nth j gs' wf0). reflexivity.
Qed.

Lemma same_pin_full fs : feasible fs ->
  feasible (relabel T fs) /\
  ((forall gs, feasible gs -> same_vevs gs fs -> action_model Vint fs <= action_model Vint gs) ->
   forall gs', feasible gs' -> same_vevs gs' (relabel T fs) ->
     action_model Vint' (relabel T fs) <= action_model Vint' gs').
Proof.
  intros F. split; [exact (feasible_relabel fs F)|]. intros Hmin gs' F' S'.
  destruct F as [Lf Frest].
  destruct (pull_back_spec fs gs' Lf F' S') as [Fg [Sg Eg]].
  rewrite <- Eg.
  rewrite (action_covariant_full Vint Vint' T Vcov fs) by (now rewrite Lf).
  rewrite (action_covariant_full Vint Vint' T Vcov (pull_back fs gs'))
    by (destruct Fg as [Lg _]; now rewrite Lg).
  apply Hmin; [exact Fg|exact Sg].
Qed.
End SamePin.

(** pinned offset and WallParams arithmetic *)
Lemma relax_and_arith :
  (forall m, relax_params m 0 0 = 0) /\
  (forall m x, relax_params m x x = x) /\
  (forall m x y, relax_params m x y = m * x + (1 - m) * y) /\
  (forall aw ao bw bo, WallParams_add_widths aw ao bw bo = aw + bw /\
                       WallParams_add_offsets aw ao bw bo = ao + bo /\
                       WallParams_sub_widths aw ao bw bo = aw - bw /\
                       WallParams_sub_offsets aw ao bw bo = ao - bo) /\
  (forall aw ao k, WallParams_mul_widths aw ao k = aw * k /\
                   WallParams_mul_offsets aw ao k = ao * k /\
                   WallParams_div_widths aw ao k = aw / k /\
                   WallParams_div_offsets aw ao k = ao / k).
Proof.
  unfold relax_params, WallParams_add_widths, WallParams_add_offsets, WallParams_sub_widths,
    WallParams_sub_offsets, WallParams_mul_widths, WallParams_mul_offsets,
    WallParams_div_widths, WallParams_div_offsets, Rdiv.
  repeat split; intros; ring.
Qed.

(** =================================================================================== *)
(** ** The obligations *)

Theorem profile_relabel : forall T fs z, wf_relab (length fs) T ->
  profile z (relabel T fs) = relabel_point T (profile z fs) /\
  dprofile z (relabel T fs) = relabel_vec T (dprofile z fs).
Proof. exact profile_relabel_full. Qed.
Print Assumptions profile_relabel.

Theorem profile_scalar_branch : forall z lo hi w o,
  wallProfile_ret0_scalarz z lo hi w o = wallProfile_ret0 z lo hi w o /\
  wallProfile_ret1_scalarz z lo hi w o = wallProfile_ret1 z lo hi w o.
Proof. exact wallProfile_scalar_branch. Qed.
Print Assumptions profile_scalar_branch.

Theorem kinetic_invariant : forall T fs U, wf_relab (length fs) T ->
  action_ret U (relabel T fs) = action_ret U fs.
Proof. exact kinetic_invariant_full. Qed.
Print Assumptions kinetic_invariant.

Theorem action_covariant : forall (Vint Vint' : (R -> list R) -> R) T,
  (forall prof prof' : R -> list R,
     (forall z, prof' z = relabel_point T (prof z)) -> Vint' prof' = Vint prof) ->
  forall fs, wf_relab (length fs) T ->
  action_model Vint' (relabel T fs) = action_model Vint fs.
Proof. exact action_covariant_full. Qed.
Print Assumptions action_covariant.

Theorem grid_envelope_perm_invariant : forall e fs fs' v, Permutation fs fs' ->
  updateGrid_arg0 e fs v = updateGrid_arg0 e fs' v /\
  updateGrid_arg1 e fs v = updateGrid_arg1 e fs' v /\
  updateGrid_arg2 e fs v = updateGrid_arg2 e fs' v /\
  updateGrid_arg3 e fs v = updateGrid_arg3 e fs' v.
Proof. exact grid_perm_full. Qed.
Print Assumptions grid_envelope_perm_invariant.

Theorem grid_envelope_relabel_invariant : forall e T fs v, wf_relab (length fs) T ->
  updateGrid_arg0 e (relabel T fs) v = updateGrid_arg0 e fs v /\
  updateGrid_arg1 e (relabel T fs) v = updateGrid_arg1 e fs v /\
  updateGrid_arg2 e (relabel T fs) v = updateGrid_arg2 e fs v /\
  updateGrid_arg3 e (relabel T fs) v = updateGrid_arg3 e fs v.
Proof. exact grid_relabel_full. Qed.
Print Assumptions grid_envelope_relabel_invariant.

Theorem grid_envelope_contains_all_walls : forall e fs v,
  let thick := updateGrid_arg2 e fs v in
  let c0 := updateGrid_arg3 e fs v + thick * ln 2 / 2 in
  (forall f, In f fs ->
     c0 - thick <= (-1 - offset f) * width f /\ (1 - offset f) * width f <= c0 + thick) /\
  (fs <> [] -> (exists f, In f fs /\ (1 - offset f) * width f = c0 + thick) /\
               (exists f, In f fs /\ (-1 - offset f) * width f = c0 - thick)).
Proof.
  intros e fs v. cbv zeta. split.
  - intros f Hf. exact (grid_contains_full e fs v f Hf).
  - intros Hne. exact (grid_tight_full e fs v Hne).
Qed.
Print Assumptions grid_envelope_contains_all_walls.

(** pinning field p instead (offsets d_i - (L_p/L_i) d_p) is the z-translation by L_p d_p:
    same walls, same grid thickness and tails, grid centre moved along *)
Theorem offset_repin : forall e p fs v z, fs <> [] -> Forall (fun f => width f <> 0) fs ->
  (forall j, (j < length fs)%nat ->
     offset (nth j (repin p fs) wf0) =
     offset (nth j fs wf0) - (width p / width (nth j fs wf0)) * offset p) /\
  profile z (repin p fs) = profile (z - width p * offset p) fs /\
  dprofile z (repin p fs) = dprofile (z - width p * offset p) fs /\
  updateGrid_arg0 e (repin p fs) v = updateGrid_arg0 e fs v /\
  updateGrid_arg1 e (repin p fs) v = updateGrid_arg1 e fs v /\
  updateGrid_arg2 e (repin p fs) v = updateGrid_arg2 e fs v /\
  updateGrid_arg3 e (repin p fs) v = updateGrid_arg3 e fs v + width p * offset p.
Proof.
  intros e p fs v z Hne Hw. split; [|split; [|split]].
  - intros j Hj. apply repin_offset; [exact Hj|]. rewrite Forall_forall in Hw.
    apply Hw, nth_In, Hj.
  - apply profile_shift, Hw.
  - apply profile_shift, Hw.
  - apply grid_shift_full; assumption.
Qed.
Print Assumptions offset_repin.

Theorem swap_two_fields : forall f0 f1 z, offset f0 = 0 -> width f0 <> 0 -> width f1 <> 0 ->
  map offset (repin f1 [f1; f0]) = [0; - (width f1 / width f0) * offset f1] /\
  profile z (repin f1 [f1; f0]) = rev (profile (z - width f1 * offset f1) [f0; f1]).
Proof. exact swap_two_fields_full. Qed.
Print Assumptions swap_two_fields.

(* the two component-index conjuncts are TIE CHECKS (facts read off the AST) *)
Theorem dVdz_invariant :
  (forall T ts, wf_relab (length ts) T -> dVdz_point (relabel_cov T ts) = dVdz_point ts) /\
  dVdz_dPhidz_component = 1%nat /\ dVdz_fields_component = 0%nat.
Proof. split; [exact dVdz_invariant_full|split; reflexivity]. Qed.
Print Assumptions dVdz_invariant.

Theorem temperatureLHS_invariant : forall T dP Tm veff dVdT s1 s2, wf_relab (length dP) T ->
  temperatureLHS (relabel_vec T dP) Tm veff dVdT s1 s2 = temperatureLHS dP Tm veff dVdT s1 s2.
Proof. exact temperatureLHS_invariant_full. Qed.
Print Assumptions temperatureLHS_invariant.
(** non-vacuity: the kinetic term is really there (two fields, one of them reflected) *)
Example temperatureLHS_sees_gradient :
  temperatureLHS [1; -1] 1 0 0 0 0 - temperatureLHS [0; 0] 1 0 0 0 0 = 1.
Proof. unfold temperatureLHS. cbn [map sumR]. field. Qed.

(** every component of the minimiser's argument gets the bounds of its own kind: widths
    the thickness bounds, the offset of EVERY non-pinned field the offset bounds; with the
    configured symmetric offset bounds the feasible box is invariant under d -> -d (which
    is how a relative offset moves when two fields are listed in the other order) *)
Theorem minimizer_bounds_aligned : forall b n widths offsets,
  length widths = n -> length offsets = n -> (1 <= n)%nat ->
  length (minimize_x0 widths offsets) = length (minimize_lb b n) /\
  length (minimize_x0 widths offsets) = length (minimize_ub b n) /\
  (forall k, (k < n)%nat ->
     nth k (minimize_x0 widths offsets) 0 = nth k widths 0 /\
     nth k (minimize_lb b n) 0 = thickLo b / Tnucl b /\
     nth k (minimize_ub b n) 0 = thickHi b / Tnucl b) /\
  (forall j, (1 <= j < n)%nat ->
     nth (n + j - 1) (minimize_x0 widths offsets) 0 = nth j offsets 0 /\
     nth (n + j - 1) (minimize_lb b n) 0 = offLo b /\
     nth (n + j - 1) (minimize_ub b n) 0 = offHi b /\
     (offLo b = - offHi b -> forall d,
        nth (n + j - 1) (minimize_lb b n) 0 <= d <= nth (n + j - 1) (minimize_ub b n) 0 <->
        nth (n + j - 1) (minimize_lb b n) 0 <= - d <= nth (n + j - 1) (minimize_ub b n) 0)).
Proof.
  intros b n widths offsets Hw Ho Hn.
  destruct (x0_layout n widths offsets Hw Ho Hn) as [L0 [X1 X2]].
  destruct (bounds_layout b n Hn) as [L1 [L2 [B1 B2]]].
  split; [congruence|]. split; [congruence|]. split.
  - intros k Hk. destruct (B1 k Hk). auto.
  - intros j Hj. destruct (B2 j Hj) as [E1 E2]. repeat split; auto; rewrite E1, E2 in *; lra.
Qed.
Print Assumptions minimizer_bounds_aligned.

Theorem toWallParams_inverts_packing : forall n widths offsets, length widths = n ->
  toWallParams_widths n (minimize_x0 widths offsets) = widths /\
  toWallParams_offsets n (minimize_x0 widths offsets) = 0 :: tl offsets.
Proof. exact toWallParams_roundtrip. Qed.
Print Assumptions toWallParams_inverts_packing.

(** the clipping applied to the incoming parameters keeps the pinned offset at 0, is the
    identity well inside the bounds and puts the widths inside the minimiser's bounds.
    _partial: the LOWER offset side is only 1.1*offLo, which for the (negative) configured
    offLo = -10 is -11, i.e. OUTSIDE the minimiser's bound and not the mirror image of the
    upper side 0.9*offHi = 9 (see the Example below); scipy clips the start vector itself. *)
Theorem clip_keeps_pin_partial : forall b, offLo b < 0 < offHi b ->
  clip_offsets b 0 = 0 /\
  (forall d, (11 / 10) * offLo b <= clip_offsets b d <= offHi b) /\
  (forall d, (11 / 10) * offLo b <= d <= (9 / 10) * offHi b -> clip_offsets b d = d) /\
  (0 < thickLo b -> (11 / 10) * thickLo b <= (9 / 10) * thickHi b -> 0 < Tnucl b ->
   forall w, thickLo b / Tnucl b <= clip_widths b w <= thickHi b / Tnucl b).
Proof. exact clip_box. Qed.
Print Assumptions clip_keeps_pin_partial.
Example clip_lower_side_outside_bounds :
  let b := mk_bcfg (1 / 10) 100 (-10) 10 100 in
  clip_offsets b (-20) = -11 /\ clip_offsets b (-20) < offLo b /\ clip_offsets b 20 = 9.
Proof. cbn [offLo offHi]. unfold clip_offsets. cbn [offLo offHi]. repeat split; minmax. Qed.

(** the minimisation problem for a relabelling that keeps the pinned field first is the old
    problem: feasible sets and objective values correspond one to one, hence a minimiser of
    the old problem is carried to a minimiser of the new one (widths and offsets permuted
    along with the fields; exact, no z-translation involved) *)
Theorem objective_covariant_same_pin :
  forall (Vint Vint' : (R -> list R) -> R) (T : list triple) (n : nat),
  (1 <= n)%nat -> wf_relab n T -> t_idx (nth 0 T (0%nat, 0, 0)) = 0%nat ->
  (forall prof prof' : R -> list R,
     (forall z, prof' z = relabel_point T (prof z)) -> Vint' prof' = Vint prof) ->
  forall wl wh ol oh fs, feasible n wl wh ol oh fs ->
  feasible n wl wh ol oh (relabel T fs) /\
  ((forall gs, feasible n wl wh ol oh gs -> same_vevs gs fs ->
      action_model Vint fs <= action_model Vint gs) ->
   forall gs', feasible n wl wh ol oh gs' -> same_vevs gs' (relabel T fs) ->
     action_model Vint' (relabel T fs) <= action_model Vint' gs').
Proof. exact same_pin_full. Qed.
Print Assumptions objective_covariant_same_pin.
Example feasible_example :
  feasible 2 (1 / 1000) 1 (-10) 10 [mk_wfield 0 160 (1 / 20) 0; mk_wfield 94 0 (1 / 25) (2 / 3)].
Proof.
  split; [reflexivity|]. split; [reflexivity|]. split.
  - intros j Hj. destruct j as [|[|j]]; cbn; try lra. lia.
  - intros j Hj. destruct j as [|[|j]]; cbn; try lra; lia.
Qed.

(** TIE CHECK (restates the generated definitions; proved by ring): relaxation towards the
    minimiser's answer and WallParams arithmetic act on widths and offsets separately and
    componentwise *)
Theorem relaxation_and_arith_tie :
  (forall m, relax_params m 0 0 = 0) /\
  (forall m x, relax_params m x x = x) /\
  (forall m x y, relax_params m x y = m * x + (1 - m) * y) /\
  (forall aw ao bw bo, WallParams_add_widths aw ao bw bo = aw + bw /\
                       WallParams_add_offsets aw ao bw bo = ao + bo /\
                       WallParams_sub_widths aw ao bw bo = aw - bw /\
                       WallParams_sub_offsets aw ao bw bo = ao - bo) /\
  (forall aw ao k, WallParams_mul_widths aw ao k = aw * k /\
                   WallParams_mul_offsets aw ao k = ao * k /\
                   WallParams_div_widths aw ao k = aw / k /\
                   WallParams_div_offsets aw ao k = ao / k).
Proof. exact relax_and_arith. Qed.
Print Assumptions relaxation_and_arith_tie.

(** composed: whatever the minimiser returns (any vector x), whatever the multiplier, the
    first offset of the new wall parameters is 0 when the incoming first offset was 0:
    clipping keeps 0, _toWallParams puts 0 in front, relaxation of 0 towards 0 is 0 *)
Theorem pinned_offset_stays_zero : forall b n x m, offLo b < 0 < offHi b ->
  relax_params m (nth 0 (toWallParams_offsets n x) 0) (clip_offsets b 0) = 0.
Proof.
  intros b n x m Hb. rewrite (proj1 (clip_box b Hb)).
  unfold toWallParams_offsets. cbn [app nth]. apply (proj1 relax_and_arith).
Qed.
Print Assumptions pinned_offset_stays_zero.

(** the box of [objective_covariant_same_pin], instantiated with the configured bounds, is
    exactly the box scipy.optimize.minimize receives for the packed start vector *)
Theorem same_pin_box_is_minimizer_box : forall b n fs, (1 <= n)%nat -> length fs = n ->
  offset (nth 0 fs wf0) = 0 ->
  (feasible n (thickLo b / Tnucl b) (thickHi b / Tnucl b) (offLo b) (offHi b) fs <->
   forall k, (k < 2 * n - 1)%nat ->
     nth k (minimize_lb b n) 0 <= nth k (minimize_x0 (map width fs) (map offset fs)) 0
       <= nth k (minimize_ub b n) 0).
Proof.
  intros b n fs Hn Lf O0.
  destruct (minimizer_bounds_aligned b n (map width fs) (map offset fs)
              ltac:(now rewrite map_length) ltac:(now rewrite map_length) Hn)
    as [_ [_ [W B]]].
  assert (Ew : forall k, (k < n)%nat -> nth k (map width fs) 0 = width (nth k fs wf0))
    by (intros k Hk; apply nth_map_in; now rewrite Lf).
  assert (Eo : forall k, (k < n)%nat -> nth k (map offset fs) 0 = offset (nth k fs wf0))
    by (intros k Hk; apply nth_map_in; now rewrite Lf).
  split.
  - intros [_ [_ [Fw Fo]]] k Hk. destruct (Nat.lt_ge_cases k n) as [Hl|Hg].
    + destruct (W k Hl) as [E1 [E2 E3]]. rewrite E1, E2, E3, Ew by exact Hl. apply Fw, Hl.
    + assert (Hj : (1 <= k - n + 1 < n)%nat) by lia.
      destruct (B (k - n + 1)%nat Hj) as [E1 [E2 [E3 _]]].
      replace (n + (k - n + 1) - 1)%nat with k in E1, E2, E3 by lia.
      rewrite E1, E2, E3, Eo by lia. apply Fo, Hj.
  - intros H. split; [exact Lf|]. split; [exact O0|]. split.
    + intros j Hj. destruct (W j Hj) as [E1 [E2 E3]].
      specialize (H j ltac:(lia)). rewrite E1, E2, E3, Ew in H by exact Hj. exact H.
    + intros j Hj. destruct (B j Hj) as [E1 [E2 [E3 _]]].
      specialize (H (n + j - 1)%nat ltac:(lia)). rewrite E1, E2, E3, Eo in H by lia. exact H.
Qed.
Print Assumptions same_pin_box_is_minimizer_box.

(** the hypotheses of [objective_covariant_same_pin] are satisfiable by a genuine
    relabelling: three fields, first one kept (reflected and shifted), the other two swapped *)
Example same_pin_T3 :
  wf_relab 3 [(0%nat, -1, 5); (2%nat, 1, 0); (1%nat, 1, -3)] /\
  t_idx (nth 0 [(0%nat, -1, 5); (2%nat, 1, 0); (1%nat, 1, -3)] (0%nat, 0, 0)) = 0%nat.
Proof.
  split; [|reflexivity]. split.
  - cbn. apply perm_skip, perm_swap.
  - repeat constructor; cbn; lra.
Qed.

(* the conjuncts about the axis constants, takeSlice over field types and the order of
   fieldsWithEndpoints are TIE CHECKS by unfolding the generated definitions *)
(** Fields helpers commute with a permutation of the columns (= relabelling of fields) *)
Theorem fields_axes : forall (A : Type) (d : A) (p : list nat) (M lo hi : list (list A)),
  overFieldPoints = 0%nat /\ overFieldTypes = 1%nat /\
  (forall j, (j < length p)%nat ->
     Fields_getField d (permute_cols d p M) j = Fields_getField d M (nth j p 0%nat)) /\
  (forall i, (i < length M)%nat ->
     Fields_getFieldPoint d (permute_cols d p M) i = permute_vec d p (Fields_getFieldPoint d M i)) /\
  (forall a b, Fields_takeSlice d (permute_cols d p M) a b overFieldPoints =
               permute_cols d p (Fields_takeSlice d M a b overFieldPoints)) /\
  (forall a b, Fields_takeSlice d M a b overFieldTypes = mcols_slice a b M) /\
  fieldsWithEndpoints (permute_cols d p lo) (permute_cols d p M) (permute_cols d p hi) =
    permute_cols d p (fieldsWithEndpoints lo M hi) /\
  fieldsWithEndpoints lo M hi = lo ++ M ++ hi /\
  (M <> [] -> Fields_numPoints (permute_cols d p M) = Fields_numPoints M /\
              Fields_numFields (permute_cols d p M) = length p /\
              Fields_numPoints M = length M /\ Fields_numFields M = length (nth 0 M [])).
Proof.
  intros A d p M lo hi.
  split; [reflexivity|]. split; [reflexivity|]. split; [|split; [|split; [|split; [|split; [|split]]]]].
  - intros j Hj. unfold Fields_getField. apply mcol_permute_cols, Hj.
  - intros i Hi. unfold Fields_getFieldPoint. apply mrow_permute_cols, Hi.
  - intros a b. unfold Fields_takeSlice. rewrite Nat.eqb_refl. apply mrows_slice_permute_cols.
  - intros a b. unfold Fields_takeSlice. reflexivity.
  - unfold fieldsWithEndpoints. apply (mconcat_rows_permute_cols d).
  - reflexivity.
  - intros HM. unfold Fields_numPoints, Fields_numFields.
    destruct (mshape_permute_cols d p M HM) as [E1 E2]. repeat split; assumption || reflexivity.
Qed.
Print Assumptions fields_axes.

(** non-vacuity: a genuine relabelling of two fields (swap, reflect the first, shift both)
    satisfies the hypothesis, and the kinetic term is not constant *)
Example wf_relab_example : wf_relab 2 [(1%nat, -1, 5); (0%nat, 1, -3)].
Proof.
  split.
  - cbn. apply perm_swap.
  - repeat constructor; cbn; lra.
Qed.
Example kinetic_not_constant :
  action_ret 0 [mk_wfield 0 6 1 0] <> action_ret 0 [mk_wfield 0 12 1 0].
Proof. unfold action_ret. cbn [map sumR vevLow vevHigh width]. lra. Qed.
