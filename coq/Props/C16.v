(** C16 -- spectral polynomial calculus is exact on the polynomial space of the grid. *)
From Coq Require Import Reals List Lra Lia Bool Arith.
From WG Require Import Lib.Lagrange Lib.Cheb Lib.Spectral.
Import ListNotations.
Local Open Scope R_scope.

Theorem cardinal_delta : forall grid xn xm, In xm grid ->
  cardinal ROps grid xn xm = if Req_EM_T xn xm then 1 else 0.
Proof. exact cardinal_delta_R. Qed.
Print Assumptions cardinal_delta.
