(** C16 -- spectral polynomial calculus is exact on the polynomial space of the grid.

    Three layers.
    (1) GenC16.PolyCfg: facts regenerated from src/WallGo/polynomial.py on this run by
        tools/gen_poly.py (which index range / restriction / rows / weights every method
        uses for every direction and end-point flag, for changeBasis on a rank-2 object for
        every ordered pair of axis kinds).  Section 1 proves that they coincide with the
        hand-written model Lib.Spectral and that they are mutually consistent.
    (2) Lib.Spectral: the model of the Polynomial class (one definition, executed over
        rationals against the running implementation, reasoned about over R here).
    (3) Lib.Lagrange / Lib.Cheb / Lib.Quadrature: the mathematics, for ARBITRARY distinct
        nodes and ALL sizes.
    External numerics: np.linalg.inv (hypothesis of [change_basis_roundtrip]); everything
    else in this class is closed-form. *)
From Coq Require Import Reals List Lra Lia Bool Arith ZArith.
Set Warnings "-ambiguous-paths".
From Coquelicot Require Import Coquelicot.
From WG Require Import Lib.Lagrange Lib.Cheb Lib.Spectral Lib.Quadrature Lib.SpectralQuad Lib.ChebIndep.
From GenC16 Require Import PolyCfg.
Import ListNotations.
Local Open Scope R_scope.

(** * 1. the facts extracted from the source are the model's, and are consistent *)
Definition cfg_same (a b : axcfg) : Prop :=
  c_lo a = c_lo b /\ c_hi a = c_hi b /\ c_restr a = c_restr b.

Lemma index_ranges_match_model_lemma d ep M N size : sizes_ok d M N ->
  cfg_same (gen_evalCard d ep M N) (cfg_evalCard d ep M N) /\
  cfg_same (gen_evalCheb d ep M N) (cfg_evalCheb d ep M N) /\
  cfg_same (gen_chebMatrix d ep size) (cfg_chebMatrix d ep size) /\
  cfg_same (gen_chebDeriv d ep size) (cfg_chebDeriv d ep size) /\
  gen_cardDeriv_rows d ep = trim_rows d ep /\
  gen_int_div d ep M N = wdiv d M N /\
  halved_ok d ep (gen_int_halved d ep).
Proof.
  intro HS. unfold cfg_same, halved_ok.
  destruct d, ep; cbn in *; repeat split; try reflexivity; try lia;
    repeat (constructor; [cbn; tauto|]); constructor.
Qed.
Theorem generated_index_ranges_match_model : forall d ep M N size, sizes_ok d M N ->
  cfg_same (gen_evalCard d ep M N) (cfg_evalCard d ep M N) /\
  cfg_same (gen_evalCheb d ep M N) (cfg_evalCheb d ep M N) /\
  cfg_same (gen_chebMatrix d ep size) (cfg_chebMatrix d ep size) /\
  cfg_same (gen_chebDeriv d ep size) (cfg_chebDeriv d ep size) /\
  gen_cardDeriv_rows d ep = trim_rows d ep /\
  gen_int_div d ep M N = wdiv d M N /\
  halved_ok d ep (gen_int_halved d ep).
Proof. exact index_ranges_match_model_lemma. Qed.
Print Assumptions generated_index_ranges_match_model.

(** changeBasis on a rank-2 object: what is used for an axis depends on THAT axis only
    (per-axis independence of the basis change, also for mixed end-point tuples) *)
Lemma changeBasis_axis_independent_lemma d1 e1 d2 e2 M N :
  cfg_same (gen_changeBasis_first d1 e1 d2 e2 M N) (cfg_changeBasis d1 e1 M N) /\
  cfg_same (gen_changeBasis_second d1 e1 d2 e2 M N) (cfg_changeBasis d2 e2 M N).
Proof.
  unfold cfg_same.
  destruct d1, e1, d2, e2; cbn; repeat split; try reflexivity; lia.
Qed.
Theorem changeBasis_axis_independent : forall d1 e1 d2 e2 M N,
  cfg_same (gen_changeBasis_first d1 e1 d2 e2 M N) (cfg_changeBasis d1 e1 M N) /\
  cfg_same (gen_changeBasis_second d1 e1 d2 e2 M N) (cfg_changeBasis d2 e2 M N).
Proof. exact changeBasis_axis_independent_lemma. Qed.
Print Assumptions changeBasis_axis_independent.

(** which matrix changeBasis contracts with the coefficients, as an expression in the matrix T
    of basis-function values (extracted by following np.linalg.inv / np.transpose /
    expand_dims to the np.sum): towards Cardinal it is T, towards Chebyshev the inverse, with
    inverseTranspose=True the inverse transpose of the matrix used without it; 'Array' axes are
    skipped whatever label is requested for them *)
Fixpoint mpar (m : mexpr) : bool * bool :=     (* (inversions mod 2, transpositions mod 2) *)
  match m with
  | MT => (false, false)
  | MInv a => (negb (fst (mpar a)), snd (mpar a))
  | MTr a => (fst (mpar a), negb (snd (mpar a)))
  end.
(** compared up to spelling: inversion and transposition are commuting involutions, so the
    matrix is determined by the two parities (transpose(inv(inv(T))) and transpose(T) are the
    same fact).  Extracted for every direction / end-point flag and ranks 1..6, which must all
    agree. *)
Theorem changeBasis_matrix_expression :
  mpar (gen_cb_matrix false false) = mpar MT /\
  mpar (gen_cb_matrix true false) = mpar (MInv (gen_cb_matrix false false)) /\
  (forall b, mpar (gen_cb_matrix b true) = mpar (MTr (MInv (gen_cb_matrix b false)))) /\
  gen_cb_skips_array_axes = true.
Proof. repeat split; try reflexivity. intro b; destruct b; reflexivity. Qed.
Print Assumptions changeBasis_matrix_expression.

(** the restricted functions and the derivative entries the source computes *)
Lemma functions_match_model_lemma {T} (O : Ops T) x n r d ep :
  gen_chebyshev O x n r = chebyshev O x n r /\
  gen_chebyshevDeriv O x n d ep = chebyshevDeriv O x n (full_restr d) ep.
Proof.
  split.
  - destruct r; unfold gen_chebyshev, chebyshev; try reflexivity;
      destruct (Nat.even n); reflexivity.
  - destruct d, ep; unfold gen_chebyshevDeriv, chebyshevDeriv; cbn; reflexivity.
Qed.
Theorem generated_functions_match_model : forall T (O : Ops T) x n r d ep,
  gen_chebyshev O x n r = chebyshev O x n r /\
  gen_chebyshevDeriv O x n d ep = chebyshevDeriv O x n (full_restr d) ep.
Proof. intros. apply functions_match_model_lemma. Qed.
Print Assumptions generated_functions_match_model.

(** model-free consistency of the extracted facts: the odd-n correction of
    _chebyshevDeriv is applied exactly when the basis that changeBasis / evaluate /
    _chebyshevMatrix use for the same axis kind is the fully restricted one, and all four
    methods use the same Chebyshev orders *)
Lemma derivative_correction_consistent_lemma d ep M N : sizes_ok d M N ->
  (gen_chebDeriv_corr d ep = true <-> c_restr (gen_changeBasis_second d ep d ep M N) = RFull) /\
  c_restr (gen_evalCheb d ep M N) = c_restr (gen_changeBasis_second d ep d ep M N) /\
  c_restr (gen_chebMatrix d ep 0) = c_restr (gen_changeBasis_second d ep d ep M N) /\
  cfg_range (gen_evalCheb d ep M N) = cfg_range (gen_changeBasis_second d ep d ep M N) /\
  cfg_range (gen_chebDeriv d ep (gsize d M N)) = cfg_range (gen_changeBasis_second d ep d ep M N) /\
  cfg_range (gen_chebMatrix d ep (gsize d M N - fst (gen_cardDeriv_rows d ep) - snd (gen_cardDeriv_rows d ep)))
    = cfg_range (gen_changeBasis_second d ep d ep M N).
Proof.
  intro HS. unfold cfg_range, arange.
  destruct d, ep; cbn in *; repeat split; try reflexivity; try discriminate;
    try (f_equal; lia).
Qed.
Theorem derivative_correction_consistent_with_basis : forall d ep M N, sizes_ok d M N ->
  (gen_chebDeriv_corr d ep = true <-> c_restr (gen_changeBasis_second d ep d ep M N) = RFull) /\
  c_restr (gen_evalCheb d ep M N) = c_restr (gen_changeBasis_second d ep d ep M N) /\
  c_restr (gen_chebMatrix d ep 0) = c_restr (gen_changeBasis_second d ep d ep M N) /\
  cfg_range (gen_evalCheb d ep M N) = cfg_range (gen_changeBasis_second d ep d ep M N) /\
  cfg_range (gen_chebDeriv d ep (gsize d M N)) = cfg_range (gen_changeBasis_second d ep d ep M N) /\
  cfg_range (gen_chebMatrix d ep (gsize d M N - fst (gen_cardDeriv_rows d ep) - snd (gen_cardDeriv_rows d ep)))
    = cfg_range (gen_changeBasis_second d ep d ep M N).
Proof. exact derivative_correction_consistent_lemma. Qed.
Print Assumptions derivative_correction_consistent_with_basis.

(** Gate on the scanner's verdict -- NOT a theorem about numpy.  All the content is in the
    (trusted, Python) may-alias scan of tools/gen_poly.py over every method of the class:
    augmented assignments, stores through subscripts / foreign attributes, `out=`, mutating
    ndarray / list methods and numpy functions must act on objects allocated inside the
    method (fresh on every path); `del`, `global`, nested definitions, decorators and
    module-level patching of the class fail closed.  This obligation only forces the run to
    stop when the scan reports an update of a possibly-aliased object, or when the array
    that [integrate] multiplies in place is not freshly allocated (no weight / weight=None /
    a weight array).  The behavioural statement (operand, caller's array, arguments and grid
    unchanged; repeated calls agree) is measured on the implementation by the harness. *)
Theorem scan_reports_no_inplace_update_of_operand :
  gen_inplace_on_operand = 0%nat /\ (forall w, gen_int_fresh w = true).
Proof. split; [reflexivity|]. intro w; destruct w; reflexivity. Qed.
Print Assumptions scan_reports_no_inplace_update_of_operand.

(** _cardinalMatrix (reached through matrix("Cardinal", ..), the Boltzmann intertwiners):
    the source returns np.identity(size); the extracted size is the number of nodes of
    getCompactCoordinates(endpoints, direction), and the identity of that size IS the matrix
    of its docstring, M_ij = C_j(x_i), with the cardinal functions [evaluate] uses -- for
    every direction and end-point flag, any distinct nodes, all sizes.  matrix / derivMatrix
    forward (direction, endpoints) unchanged to the builder of the requested basis, and
    `endpoints` defaults to False everywhere. *)
Lemma cardinal_matrix_lemma d ep (grid : list R) M N :
  NoDup grid -> length grid = gsize d M N -> sizes_ok d M N ->
  gen_cardMatrix_size d ep M N = length (trim d ep grid) /\
  cardinalMatrixDef ROps d ep grid M N = identityM ROps (gen_cardMatrix_size d ep M N).
Proof.
  intros Hnd L HS.
  assert (E : gen_cardMatrix_size d ep M N = length (trim d ep grid)).
  { rewrite trim_pyslice. unfold pyslice. rewrite firstn_length, skipn_length, L.
    destruct d, ep; cbn in *; lia. }
  split; [exact E|]. rewrite E. now apply cardinalMatrix_is_definition.
Qed.
Theorem cardinal_matrix_is_identity : forall d ep (grid : list R) M N,
  NoDup grid -> length grid = gsize d M N -> sizes_ok d M N ->
  gen_cardMatrix_size d ep M N = length (trim d ep grid) /\
  cardinalMatrixDef ROps d ep grid M N = identityM ROps (gen_cardMatrix_size d ep M N).
Proof. exact cardinal_matrix_lemma. Qed.
Print Assumptions cardinal_matrix_is_identity.

Theorem dispatchers_forward_and_defaults :
  gen_dispatch_forwards = true /\ gen_default_endpoints = repeat false 6.
Proof. split; reflexivity. Qed.
Print Assumptions dispatchers_forward_and_defaults.

(** * 2. cardinal functions, interpolation, derivative matrix: arbitrary distinct nodes *)
Theorem cardinal_delta : forall grid xn xm, In xm grid ->
  cardinal ROps grid xn xm = if Req_EM_T xn xm then 1 else 0.
Proof. exact cardinal_delta_R. Qed.
Print Assumptions cardinal_delta.

Theorem roots_bound_thm : forall (rs a : list R),
  NoDup rs -> (length a <= length rs)%nat -> (forall r, In r rs -> pev a r = 0) ->
  forall x, pev a x = 0.
Proof. exact roots_bound. Qed.
Print Assumptions roots_bound_thm.

(** degree <= n on n+1 distinct nodes is reproduced at EVERY x *)
Theorem interp_exact : forall grid a,
  NoDup grid -> (length a <= length grid)%nat ->
  forall x, interp grid grid (pev a) x = pev a x.
Proof. exact interp_exact_R. Qed.
Print Assumptions interp_exact.

(** with dropped boundary points, for polynomials vanishing there *)
Theorem interp_exact_dropped_points : forall grid sel f,
  NoDup grid -> NoDup sel -> incl sel grid -> is_poly (length grid) f ->
  (forall g, In g grid -> ~ In g sel -> f g = 0) ->
  forall x, interp grid sel f x = f x.
Proof. exact interp_exact_fn. Qed.
Print Assumptions interp_exact_dropped_points.

(** every entry of the matrix _cardinalDeriv builds is the derivative of a cardinal
    function at a node (diagonal and off-diagonal formulas) *)
Theorem cardinal_deriv_entries : forall grid xi xj,
  NoDup grid -> In xj grid ->
  derivable_pt_lim (cardinal ROps grid xi) xj (cd_entry ROps grid xi xj).
Proof. exact cd_entry_is_derivative. Qed.
Print Assumptions cardinal_deriv_entries.

(** deriv_matrix_exact: for every direction and end-point flag, the model's
    _cardinalDeriv applied to the grid values gives the exact derivative at ALL points of
    the complete grid, boundaries included (z, pz: both ends dropped; pp: the half-open
    grid) *)
Theorem deriv_matrix_exact : forall d ep grid f f',
  NoDup grid -> is_poly (length grid) f ->
  (forall g, In g grid -> ~ In g (trim d ep grid) -> f g = 0) ->
  (forall x, derivable_pt_lim f x (f' x)) ->
  omatvec ROps (cardinalDeriv ROps d ep grid) (map f (trim d ep grid)) = map f' grid.
Proof. exact cardinalDeriv_exact_R. Qed.
Print Assumptions deriv_matrix_exact.

Theorem deriv_matrix_exact_poly : forall grid sel a xj,
  NoDup grid -> NoDup sel -> incl sel grid -> (length a <= length grid)%nat ->
  (forall g, In g grid -> ~ In g sel -> pev a g = 0) -> In xj grid ->
  Rsum (map (fun xi => cd_entry ROps grid xi xj * pev a xi) sel) = pev (pder a) xj.
Proof. exact deriv_matrix_exact_R. Qed.
Print Assumptions deriv_matrix_exact_poly.

(** * 3. Chebyshev side *)
Theorem cheb_cos_thm : forall n t, TR n (cos t) = cos (INR n * t).
Proof. exact cheb_cos. Qed.
Print Assumptions cheb_cos_thm.

Theorem cheb_deriv_thm : forall n x, derivable_pt_lim (TR n) x (INR n * Um1R n x).
Proof. exact cheb_deriv. Qed.
Print Assumptions cheb_deriv_thm.

Theorem restricted_vanish : forall n,
  gen_chebyshev ROps 1 n RFull = 0 /\ gen_chebyshev ROps (-1) n RFull = 0 /\
  gen_chebyshev ROps 1 n RPartial = 0.
Proof.
  intro n. rewrite !(proj1 (functions_match_model_lemma ROps _ n _ Dz true)).
  destruct (restricted_full_vanish n) as [A B]. repeat split; try assumption.
  apply restricted_partial_vanish.
Qed.
Print Assumptions restricted_vanish.

(** the entries of _chebyshevDeriv (as extracted) are the derivatives of the basis
    functions that the same axis kind uses everywhere else *)
Theorem cheb_deriv_entries : forall d ep n x,
  derivable_pt_lim (fun y => gen_chebyshev ROps y n (eff_restr d ep)) x
                   (gen_chebyshevDeriv ROps x n d ep).
Proof.
  intros d ep n x. rewrite (proj2 (functions_match_model_lemma ROps x n RNone d ep)).
  apply (derivable_pt_lim_ext (fun y => chebyshev ROps y n (eff_restr d ep))).
  - intro y. symmetry. apply (proj1 (functions_match_model_lemma ROps y n (eff_restr d ep) d ep)).
  - apply chebyshevDeriv_entry_R.
Qed.
Print Assumptions cheb_deriv_entries.

(** derivative in the Chebyshev representation: exact at every point of the complete grid *)
Theorem cheb_deriv_matrix_exact : forall d ep M N grid c,
  length grid = gsize d M N -> sizes_ok d M N ->
  Forall2 (fun xj dj => derivable_pt_lim (chebFun d ep M N c) xj dj)
          grid (omatvec ROps (chebyshevDerivM ROps d ep grid) c).
Proof. exact chebyshevDeriv_exact_R. Qed.
Print Assumptions cheb_deriv_matrix_exact.

(** evaluate_agrees: Chebyshev evaluation of c = cardinal evaluation of tnMatrix c, at
    every x, for every direction / end-point flag (needs the dropped points to be +-1) *)
Theorem evaluate_agrees : forall d ep M N grid c x,
  grid_ok d M N grid -> sizes_ok d M N ->
  odot ROps (evalRow ROps Chebyshev d ep grid M N x) c =
  odot ROps (evalRow ROps Cardinal d ep grid M N x)
       (omatvec ROps (tnMatrix ROps d ep grid M N) c).
Proof. exact evaluate_agrees_R. Qed.
Print Assumptions evaluate_agrees.

(** grid values at grid points *)
Theorem evaluate_at_grid_point : forall grid sel v xm,
  NoDup sel -> In xm sel -> incl sel grid ->
  odot ROps (map (fun xn => cardinal ROps grid xn xm) sel) (map v sel) = v xm.
Proof. exact evaluate_at_node_R. Qed.
Print Assumptions evaluate_at_grid_point.

(** the cardinal indices of evaluate select the nodes of getCompactCoordinates *)
Theorem evaluate_indices_are_nodes : forall d ep (grid : list R) M N,
  length grid = gsize d M N -> sizes_ok d M N ->
  map (fun n => nth n grid 0) (cfg_range (gen_evalCard d ep M N)) = pyslice (gen_cardDeriv_rows d ep) grid.
Proof.
  intros d ep grid M N L HS.
  destruct (index_ranges_match_model_lemma d ep M N 0%nat HS) as [[A [B _]] [_ [_ [_ [E _]]]]].
  rewrite E, <- trim_pyslice, <- (evalCard_nodes d ep grid M N L HS).
  unfold cfg_range. now rewrite A, B.
Qed.
Print Assumptions evaluate_indices_are_nodes.

(** change of basis round trip.  External: np.linalg.inv, represented by an arbitrary
    function [inv] of which ONLY the residual property  T (inv v) = v  is assumed (the harness
    checks exactly this on every run: the model matrix applied to the implementation's
    Cardinal -> Chebyshev output reproduces the input).  Conclusions: Chebyshev -> Cardinal ->
    Chebyshev returns the coefficients (uses injectivity of the basis matrix, proved below
    from the roots bound and the exact degree of T_n); Cardinal -> Chebyshev -> Cardinal
    returning the grid values IS the hypothesis (measured, not concluded).  Not proved: that such an [inv] exists (surjectivity of T, i.e.
    "injective square matrix is invertible"). *)
Theorem change_basis_roundtrip_from_residual : forall d ep M N grid (inv : list R -> list R),
  grid_ok d M N grid -> sizes_ok d M N ->
  let n := length (cfg_range (cfg_changeBasis d ep M N)) in
  let T := tnMatrix ROps d ep grid M N in
  (forall v, length v = n -> length (inv v) = n /\ omatvec ROps T (inv v) = v) ->
  forall c, length c = n -> inv (omatvec ROps T c) = c.
Proof.
  intros d ep M N grid inv G HS n T H. exact (proj1 (roundtrip_from_residual d ep M N grid inv G HS H)).
Qed.
Print Assumptions change_basis_roundtrip_from_residual.

(** the Chebyshev coefficients of given grid values are unique *)
Theorem chebyshev_coefficients_unique : forall d ep M N grid c c',
  grid_ok d M N grid -> sizes_ok d M N ->
  length c = length (cfg_range (cfg_changeBasis d ep M N)) -> length c' = length c ->
  omatvec ROps (tnMatrix ROps d ep grid M N) c' = omatvec ROps (tnMatrix ROps d ep grid M N) c ->
  c' = c.
Proof. exact tnMatrix_unique. Qed.
Print Assumptions chebyshev_coefficients_unique.

(** basis_matrix_invertible: the matrix that changeBasis builds and inverts is square and
    has a trivial kernel -- for every direction and end-point flag, on every well-formed
    grid (distinct nodes, end points -1 / +1), for all sizes.  (That an injective square
    real matrix has a two-sided inverse is standard linear algebra and not formalised;
    [change_basis_roundtrip_from_residual] assumes only the residual property of the computed inverse.) *)
Theorem basis_matrix_injective : forall d ep M N grid c,
  grid_ok d M N grid -> sizes_ok d M N ->
  length c = length (cfg_range (cfg_changeBasis d ep M N)) ->
  List.Forall (fun v => v = 0) (omatvec ROps (tnMatrix ROps d ep grid M N) c) ->
  List.Forall (fun v => v = 0) c.
Proof. exact tnMatrix_injective. Qed.
Print Assumptions basis_matrix_injective.

Theorem basis_matrix_square : forall d ep M N (grid : list R),
  length grid = gsize d M N -> sizes_ok d M N ->
  length (cfg_range (cfg_changeBasis d ep M N)) = length (trim d ep grid).
Proof. exact tnMatrix_square. Qed.
Print Assumptions basis_matrix_square.

(** T_n has exact degree n (n distinct roots cos((2j+1)pi/2n), T_n(1) = 1) *)
Theorem cheb_exact_degree : forall n, is_poly (S n) (TR n) /\ ~ is_poly n (TR n).
Proof. intro n. split; [apply TR_is_poly|apply TR_not_lower]. Qed.
Print Assumptions cheb_exact_degree.

(** linearity of the action of ANY matrix of the model on a coefficient vector (a fact about
    the model's dot product; that numpy's sum(matrix * expand_dims(c)) is this product is
    validated by the correspondence runs, not proved) *)
Lemma model_matrix_action_linear_lemma (m : list (list R)) (a b : list R) k :
  length a = length b ->
  omatvec ROps m (map (fun p => k * fst p + snd p) (combine a b)) =
  map (fun p => k * fst p + snd p) (combine (omatvec ROps m a) (omatvec ROps m b)).
Proof.
  intro L. unfold omatvec. induction m as [|r m IH]; [reflexivity|].
  cbn [map combine fst snd]. rewrite IH. f_equal. now apply odot_linear.
Qed.
Theorem model_matrix_action_linear : forall (m : list (list R)) (a b : list R) k,
  length a = length b ->
  omatvec ROps m (map (fun p => k * fst p + snd p) (combine a b)) =
  map (fun p => k * fst p + snd p) (combine (omatvec ROps m a) (omatvec ROps m b)).
Proof. exact model_matrix_action_linear_lemma. Qed.
Print Assumptions model_matrix_action_linear.

(** The model's rank-r operators act along axis i+1 by mapping the axis-i operator over the
    leading index.  This holds BY DEFINITION of [apply_axis] / [contract_axis] (it is how the
    model spells "independently along each axis"); it says nothing about numpy.  The
    implementation's expand_dims/sum plumbing is compared with these operators by exact
    evaluation (ranks 1-3 quick, 4 thorough) and with the numpy oracle (ranks up to 6). *)
Theorem model_operators_axiswise_by_definition : forall T (O : Ops T) i m r l,
  apply_axis O (S i) m (Vec l) = Vec (map (apply_axis O i m) l) /\
  contract_axis O (S i) r (Vec l) = Vec (map (contract_axis O i r) l).
Proof. intros. split; reflexivity. Qed.
Print Assumptions model_operators_axiswise_by_definition.

(** * 4. Gauss-Chebyshev-Lobatto quadrature *)
Theorem gcl_cos_sum_thm : forall n m : nat, (1 <= n)%nat -> (1 <= m <= 2 * n - 1)%nat ->
  sum_pp (fun k => cos (INR m * (INR k * PI / INR n))) n = 0.
Proof. exact gcl_cos_sum. Qed.
Print Assumptions gcl_cos_sum_thm.

(** (pi/n) sum'' g(k pi/n) = int_0^pi g for every trigonometric polynomial of degree <= 2n-1 *)
Theorem gcl_exact_thm : forall n a, (1 <= n)%nat -> (length a <= 2 * n)%nat ->
  is_RInt (trigpoly a) 0 PI (PI / INR n * sum_pp (fun k => trigpoly a (INR k * PI / INR n)) n).
Proof. exact gcl_exact. Qed.
Print Assumptions gcl_exact_thm.

(** the code's rule: summand sqrt(1-x_k^2) F(x_k) with F = sqrt(1-x^2) q, q of degree
    <= 2n-3 (given by its Chebyshev expansion): exact, with halved OR unhalved end weights *)
Theorem gcl_weighted_exact_thm : forall n b, (2 <= n)%nat -> (length b <= 2 * n - 2)%nat ->
  is_RInt (fun t => sin t ^ 2 * trigpoly b t) 0 PI
          (PI / INR n * sum_pp (fun k => sin (INR k * PI / INR n) ^ 2 * trigpoly b (INR k * PI / INR n)) n) /\
  is_RInt (fun t => sin t ^ 2 * trigpoly b t) 0 PI
          (PI / INR n * sum_f_R0 (fun k => sin (INR k * PI / INR n) ^ 2 * trigpoly b (INR k * PI / INR n)) n).
Proof. intros. split; [now apply gcl_weighted_exact|now apply gcl_weighted_exact_plain]. Qed.
Print Assumptions gcl_weighted_exact_thm.

(** the model of [integrate] (weights pi/n as extracted: divisor, halved entries; dropped end
    points; factor sqrt(1-x^2)) is the uniform rule on the complete grid -- the end-point
    terms vanish, so halving / dropping them is immaterial *)
Theorem integrate_rule_is_uniform : forall d ep grid M N g,
  sizes_ok d M N -> hd 0 grid = -1 -> last grid 0 = 1 -> (3 <= length grid)%nat ->
  ruleRH (gen_int_halved d ep) (gen_int_div d ep M N) d ep grid g
  = / INR (gen_int_div d ep M N) * Rsum (map (tfun g) grid).
Proof.
  intros d ep grid M N g HS Hh Hl Hlen.
  apply rule_is_uniform_gen; try assumption.
  apply (index_ranges_match_model_lemma d ep M N 0%nat HS).
Qed.
Print Assumptions integrate_rule_is_uniform.

(** integrate is exact on the exactness class, on the Gauss-Lobatto nodes, for every
    direction and end-point flag, with the divisor and the halved entries AS EXTRACTED from
    the source: for q with q(-cos t) = sum_{j<=2n-3} b_j cos(j t),
    pi * rule(q) = int_0^pi sin^2 t q(-cos t) dt   ( = int_{-1}^{1} sqrt(1-x^2) q(x) dx by
    the substitution x = -cos t, which is not formalised).  n = M, N, N-1 for z, pz, pp. *)
Theorem integrate_exact : forall d ep M N b q,
  sizes_ok d M N ->
  (2 <= gen_int_div d ep M N)%nat -> (length b <= 2 * gen_int_div d ep M N - 2)%nat ->
  (forall t, q (- cos t) = trigpoly b t) ->
  gen_int_div d ep M N = wdiv d M N /\
  is_RInt (fun t => sin t ^ 2 * trigpoly b t) 0 PI
          (PI * ruleRH (gen_int_halved d ep) (gen_int_div d ep M N) d ep
                       (gcl_grid (gen_int_div d ep M N)) q).
Proof.
  intros d ep M N b q HS Hn Hb Hq. split.
  - apply (index_ranges_match_model_lemma d ep M N 0%nat HS).
  - apply integrate_exact_gen; try assumption.
    apply (index_ranges_match_model_lemma d ep M N 0%nat HS).
Qed.
Print Assumptions integrate_exact.

(** non-vacuity: a concrete well-formed grid (M = 2: nodes -1, 0, 1) *)
Example grid_ok_example : grid_ok Dz 2 3 [-1; 0; 1] /\ sizes_ok Dz 2 3.
Proof.
  unfold grid_ok, sizes_ok. repeat split; try reflexivity; try lia.
  repeat constructor; cbn; intros H; repeat destruct H as [H|H]; try lra; try contradiction.
Qed.

(** non-vacuity of the hypotheses of [deriv_matrix_exact]: f = 1 - x^2 on the z grid without
    end points (vanishes at the dropped points, 3 coefficients on 3 nodes, f' = -2x) *)
Example deriv_matrix_exact_hypotheses :
  let grid := [-1; 0; 1] in let f := fun x : R => 1 - x * x in
  NoDup grid /\ is_poly (length grid) f /\
  (forall g, In g grid -> ~ In g (trim Dz false grid) -> f g = 0) /\
  (forall x, derivable_pt_lim f x (-2 * x)).
Proof.
  cbn zeta. repeat split.
  - repeat constructor; cbn; intros H; repeat destruct H as [H|H]; try lra; try contradiction.
  - exists [1; 0; -1]. split; [cbn; lia|]. intro x. cbn. ring.
  - intros g Hin Hn. cbn in Hin, Hn. destruct Hin as [<-|[<-|[<-|[]]]]; try ring.
    exfalso. apply Hn. now left.
  - intro x.
    apply (derivable_pt_lim_ext (fun y => (fun _ => 1) y - ((fun z => z) y * (fun z => z) y)%R));
      [reflexivity|].
    replace (-2 * x) with (0 - (1 * x + x * 1)) by ring.
    apply derivable_pt_lim_minus; [apply derivable_pt_lim_const|].
    apply (derivable_pt_lim_mult (fun z => z) (fun z => z)); apply derivable_pt_lim_id.
Qed.

(** non-vacuity of the hypotheses of [integrate_exact]: q = 1 (b = [1]) for M = 4 *)
Example integrate_exact_hypotheses :
  sizes_ok Dz 4 5 /\ (2 <= gen_int_div Dz false 4 5)%nat /\
  (length [1] <= 2 * gen_int_div Dz false 4 5 - 2)%nat /\
  (forall t, (fun _ : R => 1) (- cos t) = trigpoly [1] t).
Proof.
  repeat split; cbn; try lia. intro t. unfold trigpoly. cbn.
  rewrite Rmult_0_l, cos_0. ring.
Qed.

(** the hypothesis of [change_basis_roundtrip_from_residual] is satisfiable: M = 2, z without end
    points: T is the 1x1 matrix (T_2(0) - 1) = (-2), its inverse divides by -2 *)
Example roundtrip_hypothesis_satisfiable :
  let T := tnMatrix ROps Dz false [-1; 0; 1] 2 3 in
  length (cfg_range (cfg_changeBasis Dz false 2 3)) = 1%nat /\
  forall v, length v = 1%nat ->
    length (map (fun x => x / -2) v) = 1%nat /\ omatvec ROps T (map (fun x => x / -2) v) = v.
Proof.
  cbn zeta. split; [reflexivity|]. intros v L.
  destruct v as [|x [|y v]]; try discriminate L. split; [reflexivity|].
  unfold omatvec, tnMatrix, cfg_range, arange. cbn. f_equal. field.
Qed.
