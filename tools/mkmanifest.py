"""Writes /verif/MANIFEST.json from the table below (single source of truth)."""
import json
import os

V = os.path.dirname(os.path.dirname(os.path.abspath(__file__)))

CHECKS = {
 "C19": dict(
  text="Coq proof, for the stencil tables and row-selection rule regenerated from helpers.py on every run, that every row differentiates every polynomial of degree <= #points-1 exactly (central rows one degree more), that the Hessian stencil is exact on bivariate total degree 3/5, and that no evaluation point leaves the bounds when the interval is at least as wide as the stencil; the narrow-interval case is refuted by a witness (known finding). The hand-written evaluation-point model is compared exactly (vm_compute) with the implementation on dyadic inputs and the property is also evaluated directly on the implementation for non-dyadic floats and all input shapes.",
  note="Trusted: Coq kernel+vm_compute; tools/gen_helpers.py (AST translator, fail-closed); the correspondence harness. Axioms: ClassicalDedekindReals.sig_forall_dec, FunctionalExtensionality.functional_extensionality_dep (Stdlib Reals). Modelled not verified: binary64 rounding, numpy broadcasting.",
  technique="Coq proof over generated stencil tables (field/lra) + exact vm_compute correspondence",
  design="4/C19"),
 "C10": dict(
  text="The whole Thermodynamics class (16 methods incl. setExtrapolate as a state transformer) is regenerated from thermodynamics.py by the pyrx AST translator on every run. Coq proves for EVERY free-energy table (abstract functions f, f', f'' with w>0, de/dT>0 at the range ends) and EVERY prior object state: e=Tp'-p, w=Tp', de=Tp'' at all T; cs2 = p'/e' at every T>0 including both extrapolated regions; p', p'' are the derivatives of p (derivable_pt_lim) at EVERY T>0: below, inside and above the table and at the two junction temperatures themselves; p, p', p'', cs2 are continuous across both ends of both phases (continuity_pt, given continuity of the table there); p = -Veff inside. Model-vs-code agreement is certified per sample by the Interval tactic; the property is also evaluated directly on the implementation with stub and traced free energies.",
  note="Trusted: Coq kernel; Interval tactic; tools/pyrx.py + gen_thermo.py translator; harness tolerances (1e-9 rel.). Axioms: Classical_Prop.classic, ClassicalDedekindReals.sig_forall_dec/sig_not_dec, functional_extensionality_dep (Stdlib Reals). Hypotheses (external): CubicSpline and its derivative(k) are a C2 function and its derivatives.",
  technique="Coq proof over pyrx-generated model (Reals, derivable_pt_lim/continuity_pt) + certified interval evaluation",
  design="4/C10"),
 "C14": dict(
  text="On every run the facts of collision loading are re-extracted from the Python AST (order and exception class of every check of CollisionArray.newFromDirectory, file/dataset/store index order, basis labels of the equal-size and interpolation branches, statements and handlers of BoltzmannSolver.loadCollisions), as are the array pipeline of interpolateCollisionArray (evaluate -> truncate -> moveaxis -> reshape, meshgrid layout of the points) and the matrix pipeline of Polynomial.changeBasis with the inverseTranspose flag CollisionArray.changeBasis passes. Coq proves for every number of particles, every size, every directory and every operation sequence: a failed load leaves the installed array in place and is reported as the load's own error; over all sequences of particle-list updates and loads the solver state is 'install exactly on success'; a successful load holds for every ordered pair exactly its file's numbers on the requested grid and basis; missing file / oversized target / size or basis mismatch are CollisionLoadError and are the only reasons a load fails; entry (a,alpha,beta,b,j,k) of the interpolated data is the evaluation at target point (alpha,beta) of pair (a,b) (all P, n), hence blocks are pairwise independent and the interpolated operator acts on every low-order distribution as the source operator evaluated at the new points; the inverse-transpose basis change leaves the operator action on every distribution unchanged and round-trips (mathcomp, any field, any n). The state machine and the array pipeline are compared exactly (vm_compute) with the running code on op sequences over synthetic HDF5 directories and on tagged arrays; the property is evaluated directly on the implementation against an independent numpy reference for P in 1..3, both stored x both requested bases, smaller odd targets, pairs loaded alone, and fault sequences.",
  note="Trusted: Coq kernel+vm_compute; mathcomp matrix library; tools/gen_collision.py (fail-closed AST fact extractor / array-pipeline translator); the harness (h5py fixtures, numpy reference: Chebyshev evaluation + Lagrange interpolation, tolerance 1e-8 rel.). Axioms: ClassicalDedekindReals.sig_forall_dec, functional_extensionality_dep (Stdlib Reals, only in the two theorems over R). Hypotheses (external, validated at run time): np.linalg.inv is a right inverse on invertible matrices; the restricted Chebyshev node matrices are invertible (C16); Polynomial.evaluate returns (points, remaining axes) (statement patterns checked in the AST); file numbers are abstract data ids in the state machine.",
  technique="Coq proof over a cfg-parametrised state machine (facts generated from the AST), C-order index arithmetic over nat for all sizes, mathcomp matrix algebra; exact vm_compute op-sequence and tagged-array correspondence; direct validation against an independent reference",
  design="4/C14"),
 "C09": dict(
  text="EOM.wallProfile (per field), EOM._updateGrid (1 and 2 fields) and the def-use slice of EOM._intermediatePressureResults that is handed to Polynomial.integrate are regenerated from equationOfMotion.py on every run; in the slice every use of the wall parameters and of the grid carries the version (re-definition) that reaches it. Coq (Coquelicot) proves for ALL vevs, widths, offsets: the returned gradient is the derivative of the returned profile; the profile tends to the two phases; for every C1 potential the integral of dV/dphi.dphi/dz along the wall is the potential difference (one field; two fields with independent widths/offsets and any differentiable V), its whole-line limit is V(low)-V(high), the same for any T(z) when the field part is T-independent, and in the compactified coordinate with weight -dz/dchi; the GENERATED integrand equals that total derivative for the wall parameters that are RETURNED and on the grid the caller sees, so it integrates exactly to the end-point difference, which tends to V(low)-V(high); the re-mapped grid of _updateGrid always satisfies the Grid3Scales preconditions and contains every field's wall, with equal tails when includeOffEq is off. Certified interval evaluation ties the generated wallProfile/_updateGrid to the running code; the real EOM pressure is compared with V(low)-V(high) on 1- and 2-field quartic potentials over widths within x3, |offset|<=2, M=40..240, both grid settings (unequal tails), imposed and moved walls, and the Jacobian hypothesis is validated on every grid used.",
  note="Trusted: Coq kernel; Coquelicot; Interval tactic; tools/pyrx.py + tools/gen_eom_profile.py (fail-closed AST translator: per-field scalarisation, versioned def-use slice); harness tolerances. Axioms: Classical_Prop.classic, ClassicalDedekindReals.sig_forall_dec/sig_not_dec, functional_extensionality_dep (Stdlib Reals/Coquelicot). Hypotheses (external, validated at run time): dzdchi is the derivative of the grid map chi->z (proved by C17) and the map reaches +-infinity at chi=+-1; derivField is the gradient of the potential (FD exact on quartics, C19/C08); no out-of-equilibrium term; Gauss-Lobatto quadrature error (calibrated tolerance in R = M*min(width)/L and M, recorded in the evidence; at M<60 with unequal long tails the quadrature itself is accurate to percent level only). Not covered: general n>2 fields in Coq (generic V proved for 1 and 2 fields), convergence rate of the quadrature, mutation of self.grid by callees not visible as self.grid.<m>()/self._updateGrid() calls.",
  technique="Coq/Coquelicot proof over pyrx-generated model + versioned def-use slice (is_derive, is_RInt, filterlim) + certified interval evaluation + direct validation on the real EOM",
  design="4/C09"),
}

NOT_APPLICABLE = {}

def main():
    props = [json.loads(l)["id"] for l in open(os.path.join(V, "properties.jsonl"))]
    checks = []
    for pid in props:
        if pid not in CHECKS:
            continue
        c = CHECKS[pid]
        checks.append(dict(
            property_id=pid,
            quick_cmd="./check %s --tier quick" % pid,
            thorough_cmd="./check %s --tier thorough" % pid,
            evidence_file="/verif/evidence/%s.json" % pid,
            replay_cmd_template="./check %s --replay {path}" % pid,
            engine="wallgo-coq",
            level_claimed=dict(category=c.get("category", "proof"), text=c["text"],
                               design_ref="DESIGN.md section " + c["design"]),
            level_note=c["note"], technique=c["technique"]))
    na = [dict(property_id=p, reason=NOT_APPLICABLE.get(
        p, "check not built yet in this revision (work in progress; see DESIGN.md section 4)"))
        for p in props if p not in CHECKS]
    m = dict(
        version=1,
        setup_cmd="./setup.sh",
        hooks=dict(guard="WALLGO_VERIF", enable="no source hooks are needed; the harness wraps bound methods of live objects from outside",
                   baseline_off_cmd="cd /repo && /venv/bin/python -m pytest -ra -q -p no:cacheprovider --timeout=900 --continue-on-collection-errors",
                   source_commits=[], add_only=True),
        engines=[dict(name="wallgo-coq", path="/verif/check",
                      serves_properties=[c["property_id"] for c in checks],
                      kind_free_text="Coq 8.16 models (generated from the Python source by fail-closed AST translators, or hand-written and tied by exact vm_compute/interval correspondence) + theorems; Python harness validates hypotheses about scipy numerics on the real code")],
        checks=checks,
        notes="See DESIGN.md. Known findings: known_findings.json. Seeded changes used to test the checks: seeded/.",
        not_applicable=na)
    json.dump(m, open(os.path.join(V, "MANIFEST.json"), "w"), indent=1)
    print("MANIFEST: %d checks, %d not claimed" % (len(checks), len(na)))

if __name__ == "__main__":
    main()
