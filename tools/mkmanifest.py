"""Writes /verif/MANIFEST.json from the table below (single source of truth)."""
import json
import os

V = os.path.dirname(os.path.dirname(os.path.abspath(__file__)))

CHECKS = {
 "C19": dict(
  text="Coq proof, for the stencil tables and row-selection rule regenerated from helpers.py on every run, that every row differentiates every polynomial of degree <= #points-1 exactly (central rows one degree more), that the Hessian stencil is exact on bivariate total degree 3/5, and that no evaluation point leaves the bounds when the interval is at least as wide as the stencil; the narrow-interval case is refuted by a witness (known finding). The hand-written evaluation-point model is compared exactly (vm_compute) with the implementation on dyadic inputs and the property is also evaluated directly on the implementation for non-dyadic floats and all input shapes.",
  note="Trusted: Coq kernel+vm_compute; tools/gen_helpers.py (AST translator, fail-closed); the correspondence harness. Axioms: ClassicalDedekindReals.sig_forall_dec, FunctionalExtensionality.functional_extensionality_dep (Stdlib Reals). Modelled not verified: binary64 rounding, numpy broadcasting.",
  technique="Coq proof over generated stencil tables (field/lra) + exact vm_compute correspondence",
  design="4/C19"),
 "C10": dict(
  text="The whole Thermodynamics class (16 methods incl. setExtrapolate as a state transformer) is regenerated from thermodynamics.py by the pyrx AST translator on every run. Coq proves for EVERY free-energy table (abstract functions f, f', f'' with w>0, de/dT>0 at the range ends) and EVERY prior object state: e=Tp'-p, w=Tp', de=Tp'' at all T; cs2 = p'/e' at every T>0 including both extrapolated regions; p', p'' are the derivatives of p (derivable_pt_lim) at EVERY T>0: below, inside and above the table and at the two junction temperatures themselves; p, p', p'', cs2 are continuous across both ends of both phases (continuity_pt, given continuity of the table there); p = -Veff inside. Model-vs-code agreement is certified per sample by the Interval tactic; the property is also evaluated directly on the implementation with stub and traced free energies.",
  note="Trusted: Coq kernel; Interval tactic; tools/pyrx.py + gen_thermo.py translator; harness tolerances (1e-9 rel.). Axioms: Classical_Prop.classic, ClassicalDedekindReals.sig_forall_dec/sig_not_dec, functional_extensionality_dep (Stdlib Reals). Hypotheses (external): CubicSpline and its derivative(k) are a C2 function and its derivatives.",
  technique="Coq proof over pyrx-generated model (Reals, derivable_pt_lim/continuity_pt) + certified interval evaluation",
  design="4/C10"),
}

NOT_APPLICABLE = {}

def main():
    props = [json.loads(l)["id"] for l in open(os.path.join(V, "properties.jsonl"))]
    checks = []
    for pid in props:
        if pid not in CHECKS:
            continue
        c = CHECKS[pid]
        checks.append(dict(
            property_id=pid,
            quick_cmd="./check %s --tier quick" % pid,
            thorough_cmd="./check %s --tier thorough" % pid,
            evidence_file="/verif/evidence/%s.json" % pid,
            replay_cmd_template="./check %s --replay {path}" % pid,
            engine="wallgo-coq",
            level_claimed=dict(category=c.get("category", "proof"), text=c["text"],
                               design_ref="DESIGN.md section " + c["design"]),
            level_note=c["note"], technique=c["technique"]))
    na = [dict(property_id=p, reason=NOT_APPLICABLE.get(
        p, "check not built yet in this revision (work in progress; see DESIGN.md section 4)"))
        for p in props if p not in CHECKS]
    m = dict(
        version=1,
        setup_cmd="./setup.sh",
        hooks=dict(guard="WALLGO_VERIF", enable="no source hooks are needed; the harness wraps bound methods of live objects from outside",
                   baseline_off_cmd="cd /repo && /venv/bin/python -m pytest -ra -q -p no:cacheprovider --timeout=900 --continue-on-collection-errors",
                   source_commits=[], add_only=True),
        engines=[dict(name="wallgo-coq", path="/verif/check",
                      serves_properties=[c["property_id"] for c in checks],
                      kind_free_text="Coq 8.16 models (generated from the Python source by fail-closed AST translators, or hand-written and tied by exact vm_compute/interval correspondence) + theorems; Python harness validates hypotheses about scipy numerics on the real code")],
        checks=checks,
        notes="See DESIGN.md. Known findings: known_findings.json. Seeded changes used to test the checks: seeded/.",
        not_applicable=na)
    json.dump(m, open(os.path.join(V, "MANIFEST.json"), "w"), indent=1)
    print("MANIFEST: %d checks, %d not claimed" % (len(checks), len(na)))

if __name__ == "__main__":
    main()
