"""Writes /verif/MANIFEST.json from the table below (single source of truth)."""
import json
import os

V = os.path.dirname(os.path.dirname(os.path.abspath(__file__)))

CHECKS = {}
_ED = os.path.join(V, "tools", "manifest_entries")
for _fn in sorted(os.listdir(_ED)):
    if _fn.endswith(".py") and _fn[0] == "C":
        _ns = {}
        exec(open(os.path.join(_ED, _fn)).read(), _ns)
        CHECKS[_fn[:-3]] = _ns["ENTRY"]

NOT_APPLICABLE = {}

def main():
    props = [json.loads(l)["id"] for l in open(os.path.join(V, "properties.jsonl"))]
    checks = []
    for pid in props:
        if pid not in CHECKS:
            continue
        c = CHECKS[pid]
        checks.append(dict(
            property_id=pid,
            quick_cmd="./check %s --tier quick" % pid,
            thorough_cmd="./check %s --tier thorough" % pid,
            evidence_file="/verif/evidence/%s.json" % pid,
            replay_cmd_template="./check %s --replay {path}" % pid,
            engine="wallgo-coq",
            level_claimed=dict(category=c.get("category", "proof"), text=c["text"],
                               design_ref="DESIGN.md section " + c["design"]),
            level_note=c["note"], technique=c["technique"]))
    na = [dict(property_id=p, reason=NOT_APPLICABLE.get(
        p, "check not built yet in this revision (work in progress; see DESIGN.md section 4)"))
        for p in props if p not in CHECKS]
    m = dict(
        version=1,
        setup_cmd="./setup.sh",
        hooks=dict(guard="WALLGO_VERIF", enable="no source hooks are needed; the harness wraps bound methods of live objects from outside",
                   baseline_off_cmd="cd /repo && /venv/bin/python -m pytest -ra -q -p no:cacheprovider --timeout=900 --continue-on-collection-errors",
                   source_commits=[], add_only=True),
        engines=[dict(name="wallgo-coq", path="/verif/check",
                      serves_properties=[c["property_id"] for c in checks],
                      kind_free_text="Coq 8.16 models (generated from the Python source by fail-closed AST translators, or hand-written and tied by exact vm_compute/interval correspondence) + theorems; Python harness validates hypotheses about scipy numerics on the real code")],
        checks=checks,
        notes="See DESIGN.md. Known findings: known_findings.json. Seeded changes used to test the checks: seeded/.",
        not_applicable=na)
    json.dump(m, open(os.path.join(V, "MANIFEST.json"), "w"), indent=1)
    print("MANIFEST: %d checks, %d not claimed" % (len(checks), len(na)))

if __name__ == "__main__":
    main()
