"""pyrx -- fail-closed symbolic translator from pure numeric Python to Coq terms over R.

It translates methods (and closures nested in methods) of one class into Gallina
definitions inside a Coq Section.  Supported subset (everything else raises
TranslateError, which the checks report as a broken tie):

  statements : docstring, assert (recorded, no-op), logging.* / print (no-op),
               x = e, a, b = e, x op= e, self.attr = e (state mode), if/elif/else,
               return e, nested def (closure; translated on request), pass
  expressions: numbers, names, + - * / ** unary -, pow/abs/min/max/float, np.sqrt/exp/
               log/tanh/cosh/sinh/arctanh/abs/sign/minimum/maximum/asarray, tuples,
               t[i] with literal i, conditional expressions, comparisons and and/or/not
               in tests, self.method(args) for translated methods, and *externals*:
               call / attribute patterns given by the caller that become Section
               variables (the collaborators the model is parametric in).

Reals: literals are exact decimals; `a ** n` with literal integer n is `pow`, otherwise
`Rpower`; comparisons use Rlt_dec / Rle_dec / Req_EM_T.
"""
from __future__ import annotations

import ast
import hashlib
from fractions import Fraction


class TranslateError(Exception):
    pass


def rlit(q):
    q = Fraction(q)
    if q.denominator == 1:
        return "%d" % q.numerator if q.numerator >= 0 else "(%d)" % q.numerator
    return "(%d / %d)" % (q.numerator, q.denominator)


def const_value(node):
    """exact Fraction of a numeric literal (possibly signed), else None"""
    if isinstance(node, ast.Constant) and isinstance(node.value, (int, float)) and \
            not isinstance(node.value, bool):
        if isinstance(node.value, int):
            return Fraction(node.value)
        return Fraction(repr(node.value))
    if isinstance(node, ast.UnaryOp) and isinstance(node.op, ast.USub):
        v = const_value(node.operand)
        return None if v is None else -v
    return None


class Pattern:
    """External collaborator: python expression pattern with holes _0,_1,... -> Coq
    function (a Section variable) applied to the translated holes."""

    def __init__(self, pat, coq, ty):
        self.pat = ast.parse(pat, mode="eval").body
        self.coq = coq
        self.ty = ty           # Coq type of the Section variable

    def match(self, node):
        holes = {}
        if _match(self.pat, node, holes):
            return [holes[k] for k in sorted(holes)]
        return None


def _match(p, n, holes):
    if isinstance(p, ast.Name) and p.id.startswith("_") and p.id[1:].isdigit():
        k = int(p.id[1:])
        if k in holes:
            return ast.dump(holes[k]) == ast.dump(n)
        holes[k] = n
        return True
    if type(p) is not type(n):
        return False
    for f in p._fields:
        if f == "ctx":
            continue
        a, b = getattr(p, f, None), getattr(n, f, None)
        if isinstance(a, list):
            if not isinstance(b, list) or len(a) != len(b):
                return False
            for x, y in zip(a, b):
                if isinstance(x, ast.AST):
                    if not _match(x, y, holes):
                        return False
                elif x != y:
                    return False
        elif isinstance(a, ast.AST):
            if not isinstance(b, ast.AST) or not _match(a, b, holes):
                return False
        elif a != b:
            return False
    return True


NP_FUN1 = {"sqrt": "sqrt", "exp": "exp", "log": "ln", "tanh": "tanh", "cosh": "cosh",
           "sinh": "sinh", "abs": "Rabs", "absolute": "Rabs", "arctanh": "atanh_R",
           "sign": "sign_R", "arctan": "atan", "tan": "tan", "cos": "cos", "sin": "sin"}
IDENT = {"float", "asarray", "array", "asanyarray", "squeeze", "real"}


class Env:
    def __init__(self, parent=None):
        self.v = dict(parent.v) if parent else {}

    def copy(self):
        return Env(self)


PLAIN_DECORATORS = ("staticmethod", "classmethod", "abstractmethod")
HOOK_METHODS = ("__getattr__", "__getattribute__", "__setattr__", "__delattr__", "__deepcopy__",
                "__copy__", "__getstate__", "__setstate__", "__reduce__", "__reduce_ex__",
                "__init_subclass__", "__class_getitem__", "__new__")


def check_plain_class(cls_node, allow_hooks=()):
    """Fail closed on everything that changes what `self.m(...)` / `self.a` mean without
    showing up in the method bodies the translators read: decorators (memoisation, wrappers),
    attribute / copy hooks, metaclasses, methods defined twice, class-level assignments that
    rebind a method name."""
    if any(k.arg == "metaclass" for k in cls_node.keywords):
        raise TranslateError("class %s has a metaclass" % cls_node.name)
    for d in cls_node.decorator_list:
        raise TranslateError("class %s is decorated (%s)" % (cls_node.name, ast.unparse(d)))
    seen = {}
    for f in cls_node.body:
        if isinstance(f, (ast.FunctionDef, ast.AsyncFunctionDef)):
            for d in f.decorator_list:
                if not (isinstance(d, ast.Name) and d.id in PLAIN_DECORATORS):
                    raise TranslateError("method %s.%s is decorated with %s (line %d)" % (
                        cls_node.name, f.name, ast.unparse(d), f.lineno))
            if f.name in seen:
                raise TranslateError("method %s.%s is defined twice (lines %d, %d)" % (
                    cls_node.name, f.name, seen[f.name], f.lineno))
            seen[f.name] = f.lineno
            if f.name in HOOK_METHODS and f.name not in allow_hooks:
                raise TranslateError("class %s defines the hook %s (line %d)" % (
                    cls_node.name, f.name, f.lineno))
    for f in cls_node.body:
        tg = []
        if isinstance(f, ast.Assign):
            tg = f.targets
        elif isinstance(f, (ast.AnnAssign, ast.AugAssign)):
            tg = [f.target]
        for t in tg:
            if isinstance(t, ast.Name) and t.id in seen:
                raise TranslateError("class %s rebinds the method name %s at class level (line %d)"
                                     % (cls_node.name, t.id, f.lineno))


def check_plain_source(src, classes=None):
    """check_plain_class for the named classes (default: all) of one source text."""
    for n in ast.parse(src).body:
        if isinstance(n, ast.ClassDef) and (classes is None or n.name in classes):
            check_plain_class(n)


class ClassTranslator:
    """Translate selected methods of one class.

    attrs     : list of float attributes of self modelled as record fields (state mode)
                or Section variables (param mode)
    externals : list of Pattern
    methods   : names of methods that may be called as self.m(...) (translated)
    state     : True -> methods take the record `s`; attribute stores update it
    """

    def __init__(self, src, cls, attrs, externals, methods, state=False, prefix="",
                 sub_objects=None):
        self.tree = ast.parse(src)
        self.src = src
        self.cls = None
        for n in self.tree.body:
            if isinstance(n, ast.ClassDef) and n.name == cls:
                self.cls = n
        if self.cls is None:
            raise TranslateError("class %s not found" % cls)
        self.fn = {f.name: f for f in self.cls.body if isinstance(f, ast.FunctionDef)}
        check_plain_class(self.cls)
        self.attrs = list(attrs)
        self.externals = externals
        self.methods = list(methods)
        self.state = state
        self.prefix = prefix
        self.used_ext = []
        self.asserts = []
        self.fresh = 0
        self.spans = {}
        self.svar = "s"

    # -- expressions -----------------------------------------------------------------
    def ext(self, node):
        for p in self.externals:
            m = p.match(node)
            if m is not None:
                if p not in self.used_ext:
                    self.used_ext.append(p)
                return p, m
        return None

    def expr(self, node, env):
        e = self.ext(node)
        if e is not None:
            p, holes = e
            if not holes:
                return "(%s e)" % p.coq
            return "(%s e %s)" % (p.coq, " ".join(self.expr(h, env) for h in holes))
        c = const_value(node)
        if c is not None:
            return rlit(c)
        if isinstance(node, ast.Name):
            if node.id in env.v:
                return env.v[node.id]
            raise TranslateError("unbound name %s (line %d)" % (node.id, node.lineno))
        if isinstance(node, ast.Attribute):
            if isinstance(node.value, ast.Name) and node.value.id == "self" and \
                    node.attr in self.attrs:
                return "(%s %s)" % (self.an(node.attr), self.svar) if self.state else \
                    "(%s e)" % self.an(node.attr)
            if isinstance(node.value, ast.Name) and node.value.id in ("np", "numpy",
                                                                      "math"):
                if node.attr == "pi":
                    return "PI"
                if node.attr == "inf":
                    raise TranslateError("np.inf in arithmetic (line %d)" % node.lineno)
            raise TranslateError("attribute %s (line %d)" % (ast.unparse(node),
                                                             node.lineno))
        if isinstance(node, ast.UnaryOp):
            if isinstance(node.op, ast.USub):
                return "(- %s)" % self.expr(node.operand, env)
            if isinstance(node.op, ast.UAdd):
                return self.expr(node.operand, env)
            raise TranslateError("unary operator (line %d)" % node.lineno)
        if isinstance(node, ast.BinOp):
            if isinstance(node.op, ast.Pow):
                return self.power(node.left, node.right, env)
            a, b = self.expr(node.left, env), self.expr(node.right, env)
            op = {ast.Add: "+", ast.Sub: "-", ast.Mult: "*", ast.Div: "/"}.get(
                type(node.op))
            if op is None:
                raise TranslateError("operator %s (line %d)" % (
                    type(node.op).__name__, node.lineno))
            return "(%s %s %s)" % (a, op, b)
        if isinstance(node, ast.IfExp):
            return "(if %s then %s else %s)" % (self.test(node.test, env),
                                                self.expr(node.body, env),
                                                self.expr(node.orelse, env))
        if isinstance(node, ast.Tuple) or isinstance(node, ast.List):
            return "(" + ", ".join(self.expr(e, env) for e in node.elts) + ")"
        if isinstance(node, ast.Subscript):
            return self.subscript(node, env)
        if isinstance(node, ast.Call):
            return self.call(node, env)
        raise TranslateError("expression %s (line %d)" % (type(node).__name__,
                                                          getattr(node, "lineno", 0)))

    def an(self, a):
        return self.prefix + a

    def power(self, base, expo, env):
        c = const_value(expo)
        b = self.expr(base, env)
        if c is not None and c.denominator == 1:
            n = int(c)
            if n >= 0:
                return "(%s ^ %d)" % (b, n)
            return "(/ (%s ^ %d))" % (b, -n)
        if c is not None and c == Fraction(1, 2):
            return "(sqrt %s)" % b
        return "(Rpower %s %s)" % (b, self.expr(expo, env))

    def subscript(self, node, env):
        idx = node.slice
        c = const_value(idx)
        if c is None or c.denominator != 1:
            raise TranslateError("non-literal subscript (line %d)" % node.lineno)
        i = int(c)
        # tuple literal known in env as python-side tuple?
        if isinstance(node.value, ast.Name) and (node.value.id, "tuple") in env.v:
            parts = env.v[(node.value.id, "tuple")]
            if not -len(parts) <= i < len(parts):
                raise TranslateError("tuple index out of range")
            return parts[i]
        v = self.expr(node.value, env)
        ar = env.v.get((ast.unparse(node.value), "arity"))
        if ar is None:
            raise TranslateError("subscript of value with unknown arity: %s (line %d)"
                                 % (ast.unparse(node), node.lineno))
        return proj(v, i % ar, ar)

    def call(self, node, env):
        f = node.func
        args = node.args
        if node.keywords:
            raise TranslateError("keyword arguments in call %s (line %d)" % (
                ast.unparse(node)[:60], node.lineno))
        if isinstance(f, ast.Name):
            if f.id in IDENT and len(args) == 1:
                return self.expr(args[0], env)
            if f.id == "abs" and len(args) == 1:
                return "(Rabs %s)" % self.expr(args[0], env)
            if f.id == "pow" and len(args) == 2:
                return self.power(args[0], args[1], env)
            if f.id in ("min", "max") and len(args) == 2:
                return "(R%s %s %s)" % (f.id, self.expr(args[0], env),
                                        self.expr(args[1], env))
            if (f.id, "closure") in env.v:
                return "(%s %s)" % (env.v[(f.id, "closure")],
                                    " ".join(self.expr(a, env) for a in args))
            raise TranslateError("call to %s (line %d)" % (f.id, node.lineno))
        if isinstance(f, ast.Attribute):
            if isinstance(f.value, ast.Name) and f.value.id in ("np", "numpy", "math"):
                if f.attr in IDENT and len(args) >= 1:
                    return self.expr(args[0], env)
                if f.attr in NP_FUN1 and len(args) == 1:
                    return "(%s %s)" % (NP_FUN1[f.attr], self.expr(args[0], env))
                if f.attr in ("minimum", "maximum", "fmin", "fmax") and len(args) == 2:
                    return "(R%s %s %s)" % ("min" if "min" in f.attr else "max",
                                            self.expr(args[0], env),
                                            self.expr(args[1], env))
                if f.attr == "power" and len(args) == 2:
                    return self.power(args[0], args[1], env)
                raise TranslateError("numpy function %s (line %d)" % (f.attr,
                                                                      node.lineno))
            if isinstance(f.value, ast.Name) and f.value.id == "self" and \
                    f.attr in self.methods:
                a = " ".join(self.expr(x, env) for x in args)
                s = " e " + self.svar if self.state else " e"
                return "(%s%s %s)" % (self.an(f.attr), s, a) if a else \
                    "(%s%s)" % (self.an(f.attr), s)
        raise TranslateError("call %s (line %d)" % (ast.unparse(node)[:70], node.lineno))

    # -- tests -----------------------------------------------------------------------
    def test(self, node, env):
        """Coq sumbool/bool usable after `if`"""
        if isinstance(node, ast.Compare) and len(node.ops) == 1:
            a = self.expr(node.left, env)
            b = self.expr(node.comparators[0], env)
            op = type(node.ops[0])
            if op is ast.Lt:
                return "Rlt_dec %s %s" % (a, b)
            if op is ast.Gt:
                return "Rlt_dec %s %s" % (b, a)
            if op is ast.LtE:
                return "Rle_dec %s %s" % (a, b)
            if op is ast.GtE:
                return "Rle_dec %s %s" % (b, a)
            if op is ast.Eq:
                return "Req_EM_T %s %s" % (a, b)
            if op is ast.NotEq:
                return "negb (if Req_EM_T %s %s then true else false)" % (a, b)
        if isinstance(node, ast.Compare) and len(node.ops) == 2:
            # a < b < c
            first = ast.Compare(node.left, [node.ops[0]], [node.comparators[0]])
            second = ast.Compare(node.comparators[0], [node.ops[1]],
                                 [node.comparators[1]])
            return "(if %s then (if %s then true else false) else false)" % (
                self.test(first, env), self.test(second, env))
        if isinstance(node, ast.BoolOp):
            parts = ["(if %s then true else false)" % self.test(v, env)
                     for v in node.values]
            op = " && " if isinstance(node.op, ast.And) else " || "
            return "(" + op.join(parts) + ")"
        if isinstance(node, ast.UnaryOp) and isinstance(node.op, ast.Not):
            return "negb (if %s then true else false)" % self.test(node.operand, env)
        raise TranslateError("test %s (line %d)" % (ast.unparse(node)[:60],
                                                    node.lineno))

    # -- statements ------------------------------------------------------------------
    def block(self, stmts, env, k):
        """Translate statement list; `k(env)` gives the term for falling off the end."""
        if not stmts:
            return k(env)
        st, rest = stmts[0], stmts[1:]
        if isinstance(st, ast.Expr):
            v = st.value
            if isinstance(v, ast.Constant) and isinstance(v.value, str):
                return self.block(rest, env, k)
            if isinstance(v, ast.Call) and isinstance(v.func, ast.Attribute) and \
                    isinstance(v.func.value, ast.Name) and v.func.value.id in (
                        "logging", "logger", "warnings"):
                return self.block(rest, env, k)
            if isinstance(v, ast.Call) and isinstance(v.func, ast.Name) and \
                    v.func.id == "print":
                return self.block(rest, env, k)
            raise TranslateError("expression statement %s (line %d)" % (
                ast.unparse(st)[:60], st.lineno))
        if isinstance(st, ast.Pass):
            return self.block(rest, env, k)
        if isinstance(st, ast.Assert):
            self.asserts.append(ast.unparse(st.test))
            return self.block(rest, env, k)
        if isinstance(st, ast.AnnAssign):
            if st.value is None:
                return self.block(rest, env, k)
            st = ast.Assign(targets=[st.target], value=st.value, lineno=st.lineno)
        if isinstance(st, ast.AugAssign):
            st = ast.Assign(targets=[st.target], value=ast.BinOp(
                left=_load(st.target), op=st.op, right=st.value, lineno=st.lineno),
                lineno=st.lineno)
        if isinstance(st, ast.Assign):
            if len(st.targets) != 1:
                raise TranslateError("chained assignment (line %d)" % st.lineno)
            tg = st.targets[0]
            if isinstance(tg, ast.Name):
                if isinstance(st.value, (ast.Tuple, ast.List)) and \
                        self.ext(st.value) is None:
                    parts = []
                    out = []
                    env2 = env.copy()
                    for j, e in enumerate(st.value.elts):
                        nm = self.newname(tg.id + "_%d" % j)
                        out.append("let %s := %s in" % (nm, self.expr(e, env)))
                        parts.append(nm)
                    env2.v[(tg.id, "tuple")] = parts
                    env2.v[tg.id] = "(" + ", ".join(parts) + ")"
                    return "\n  ".join(out) + "\n  " + self.block(rest, env2, k)
                val = self.expr(st.value, env)
                nm = self.newname(tg.id)
                env2 = env.copy()
                env2.v[tg.id] = nm
                env2.v.pop((tg.id, "tuple"), None)
                ar = self.arity_of(st.value, env)
                if ar:
                    env2.v[(tg.id, "arity")] = ar
                return "let %s := %s in\n  %s" % (nm, val, self.block(rest, env2, k))
            if isinstance(tg, (ast.Tuple, ast.List)):
                names = []
                env2 = env.copy()
                for e in tg.elts:
                    if not isinstance(e, ast.Name):
                        raise TranslateError("unpack target (line %d)" % st.lineno)
                    nm = self.newname(e.id)
                    names.append(nm)
                    env2.v[e.id] = nm
                    env2.v.pop((e.id, "tuple"), None)
                if isinstance(st.value, (ast.Tuple, ast.List)) and \
                        len(st.value.elts) == len(names):
                    vals = [self.expr(e, env) for e in st.value.elts]
                    out = ["let %s := %s in" % (n, v) for n, v in zip(names, vals)]
                    return "\n  ".join(out) + "\n  " + self.block(rest, env2, k)
                val = self.expr(st.value, env)
                return "let '(%s) := %s in\n  %s" % (", ".join(names), val,
                                                     self.block(rest, env2, k))
            if isinstance(tg, ast.Attribute) and isinstance(tg.value, ast.Name) and \
                    tg.value.id == "self" and tg.attr in self.attrs and self.state:
                val = self.expr(st.value, env)
                return "let s := set_%s %s s in\n  %s" % (self.an(tg.attr), val,
                                                         self.block(rest, env, k))
            raise TranslateError("assignment target %s (line %d)" % (
                ast.unparse(tg), st.lineno))
        if isinstance(st, ast.Return):
            if st.value is None:
                return k(env)
            return self.expr(st.value, env)
        if isinstance(st, ast.If):
            t = self.test(st.test, env)
            a = self.block(st.body + rest, env.copy(), k)
            b = self.block(st.orelse + rest, env.copy(), k)
            return "if %s\n  then (%s)\n  else (%s)" % (t, a, b)
        if isinstance(st, ast.FunctionDef):
            # closures are translated on request only; remember it exists
            env2 = env.copy()
            env2.v[(st.name, "def")] = st
            return self.block(rest, env2, k)
        raise TranslateError("statement %s (line %d)" % (type(st).__name__, st.lineno))

    def arity_of(self, node, env):
        e = self.ext(node)
        if e is not None:
            ty = e[0].ty.split("->")[-1]
            return ty.count("*") + 1 if "*" in ty else 0
        if isinstance(node, ast.Call) and isinstance(node.func, ast.Attribute) and \
                isinstance(node.func.value, ast.Name) and node.func.value.id == "self":
            return self.ret_arity.get(node.func.attr, 0)
        return 0

    ret_arity: dict = {}

    def newname(self, base):
        self.fresh += 1
        return "%s_%d" % (base.replace(".", "_"), self.fresh)

    # -- definitions -----------------------------------------------------------------
    def params(self, fn, types=None):
        types = types or {}
        ps = []
        for a in fn.args.args:
            if a.arg == "self":
                continue
            ps.append((a.arg, types.get(a.arg, "R")))
        return ps

    def method(self, name, types=None, coq_name=None, fixed=None):
        """Definition for method `name`. `fixed`: dict param -> python AST constant
        assumed for optional parameters (specialisation)."""
        fn = self.fn.get(name)
        if fn is None:
            raise TranslateError("method %s not found" % name)
        env = Env()
        ps = self.params(fn, types)
        for p, _ in ps:
            env.v[p] = p
        stores = any(isinstance(n, ast.Attribute) and isinstance(n.ctx, ast.Store)
                     for n in ast.walk(fn))
        if stores and not self.state:
            raise TranslateError("method %s stores attributes (state mode required)" %
                                 name)
        end = (lambda e: "s") if stores else (lambda e: _fail(
            "method %s can fall off its end" % name))
        body = self.block(fn.body, env, end)
        s = "(e : %senv) (s : %sst) " % (self.prefix, self.prefix) if self.state else \
            "(e : %senv) " % self.prefix
        args = " ".join("(%s : %s)" % p for p in ps)
        cn = coq_name or self.an(name)
        self.spans[cn] = (fn.lineno, fn.end_lineno, _sha(ast.unparse(fn)))
        return "Definition %s %s%s :=\n  %s." % (cn, s, args, body)

    def method_steps(self, name):
        """A method that is a straight line of `self.attr = expr` stores is emitted as
        one named state transformer per store (name_1 .. name_n, name := name_n), so
        that proofs can peel the stores one at a time."""
        fn = self.fn.get(name)
        if fn is None:
            raise TranslateError("method %s not found" % name)
        if not self.state:
            raise TranslateError("method_steps needs state mode")
        if [a.arg for a in fn.args.args] != ["self"]:
            raise TranslateError("method_steps: %s takes parameters" % name)
        defs, k = [], 0
        env = Env()
        for st in fn.body:
            if isinstance(st, ast.Expr) and isinstance(st.value, ast.Constant):
                continue
            if not (isinstance(st, ast.Assign) and len(st.targets) == 1 and
                    isinstance(st.targets[0], ast.Attribute) and
                    isinstance(st.targets[0].value, ast.Name) and
                    st.targets[0].value.id == "self" and
                    st.targets[0].attr in self.attrs):
                raise TranslateError("method_steps: %s is not a straight line of "
                                     "attribute stores (line %d)" % (name, st.lineno))
            k += 1
            nm, px = self.an(name), self.prefix
            prev = "s0" if k == 1 else "(%s_%d e s0)" % (nm, k - 1)
            self.svar = prev
            val = self.expr(st.value, env)
            self.svar = "s"
            X = self.an(st.targets[0].attr)
            defs.append("Definition %s_%d (e : %senv) (s0 : %sst) : %sst :=\n  set_%s %s %s."
                        % (nm, k, px, px, px, X, val, prev))
            # characterising lemmas (checked by Coq): the stored field, and the frame
            defs.append("Lemma %s_%d_%s e s0 : %s (%s_%d e s0) = %s.\nProof. exact "
                        "(get_%s_set_%s _ _). Qed." % (nm, k, X, X, nm, k, val, X, X))
            defs.append("#[export] Hint Rewrite %s_%d_%s : %s_db." % (nm, k, X, nm))
            for b in self.attrs:
                F = self.an(b)
                if F == X:
                    continue
                defs.append("Lemma %s_%d_%s e s0 : %s (%s_%d e s0) = %s %s.\nProof. "
                            "exact (get_%s_set_%s _ _). Qed."
                            % (nm, k, F, F, nm, k, F, prev, F, X))
                defs.append("#[export] Hint Rewrite %s_%d_%s : %s_db." % (nm, k, F, nm))
        defs.append("Definition %s (e : %senv) (s0 : %sst) : %sst := %s_%d e s0." % (
            self.an(name), self.prefix, self.prefix, self.prefix, self.an(name), k))
        self.spans[self.an(name)] = (fn.lineno, fn.end_lineno, _sha(ast.unparse(fn)))
        self.steps = getattr(self, "steps", {})
        self.steps[name] = [st.targets[0].attr for st in fn.body
                            if isinstance(st, ast.Assign)]
        return "\n".join(defs)

    def closure(self, method, cname, coq_name, opaque=(), types=None, extra_params=()):
        """Definition for closure `cname` nested in `method`; parameters are the
        method's parameters, the `opaque` locals (assignments to them in the prefix are
        skipped: they come from solvers) and the closure's own parameters."""
        fn = self.fn.get(method)
        if fn is None:
            raise TranslateError("method %s not found" % method)
        types = types or {}
        env = Env()
        ps = self.params(fn, types)
        for p, _ in ps:
            env.v[p] = p
        for o in opaque:
            env.v[o] = o
        prefix, target = [], None
        for st in _flatten_to(fn.body, cname):
            if isinstance(st, ast.FunctionDef) and st.name == cname:
                target = st
                break
            if _assigns_any(st, opaque):
                continue
            prefix.append(st)
        if target is None:
            raise TranslateError("closure %s not found in %s" % (cname, method))
        cps = [(a.arg, types.get(a.arg, "R")) for a in target.args.args]

        def k(env2):
            for p, _ in cps:
                env2.v[p] = p
            return self.block(target.body, env2, lambda e: _fail(
                "closure %s can fall off its end" % cname))
        # only keep prefix statements the closure (transitively) needs
        needed = _needed(prefix, target, set(p for p, _ in ps) | set(opaque))
        body = self.block(needed, env, k)
        s = "(e : %senv) (s : %sst) " % (self.prefix, self.prefix) if self.state else \
            "(e : %senv) " % self.prefix
        allp = ps + [(o, types.get(o, "R")) for o in opaque] + list(extra_params) + cps
        used = [p for p in allp if _mentions_word(body, p[0])]
        args = " ".join("(%s : %s)" % p for p in used)
        self.spans[coq_name] = (target.lineno, target.end_lineno,
                                _sha(ast.unparse(target)))
        return "Definition %s %s%s :=\n  %s." % (coq_name, s, args, body), \
            [p[0] for p in used]

    def header(self, extra_vars=()):
        out = []
        fields, seen = [], set()
        if not self.state:
            for a in self.attrs:
                fields.append("%s : R" % self.an(a))
        for p in self.externals:
            if p.coq not in seen:
                seen.add(p.coq)
                fields.append("%s : %s" % (p.coq, p.ty))
        for nm, ty in extra_vars:
            fields.append("%s : %s" % (nm, ty))
        out.append("Record %senv := mk_%senv { %s }." % (
            self.prefix, self.prefix, ";\n  ".join(fields) if fields else "env_unit : unit"))
        if self.state:
            out.append("Record %sst := mk_%sst { %s }." % (
                self.prefix, self.prefix,
                "; ".join("%s : R" % self.an(a) for a in self.attrs)))
            for a in self.attrs:
                fields = "; ".join(
                    "%s := %s" % (self.an(b), "v" if b == a else "%s s" % self.an(b))
                    for b in self.attrs)
                out.append("Definition set_%s (v : R) (s : %sst) : %sst := {| %s |}."
                           % (self.an(a), self.prefix, self.prefix, fields))
            for a in self.attrs:
                for b in self.attrs:
                    out.append("Lemma get_%s_set_%s v s : %s (set_%s v s) = %s.\nProof. "
                               "destruct s; reflexivity. Qed." % (
                                   self.an(b), self.an(a), self.an(b), self.an(a),
                                   "v" if a == b else "%s s" % self.an(b)))
        return "\n".join(out)

    def ext_vars(self):
        seen = []
        out = []
        for p in self.externals:
            if p in self.used_ext and p.coq not in seen:
                seen.append(p.coq)
                out.append("Variable %s : %s." % (p.coq, p.ty))
        return "\n".join(out)


def proj(v, i, n):
    """i-th projection of a right-nested-free Coq n-tuple ((a,b),c)..."""
    # Coq tuples (a, b, c) = ((a, b), c)
    t = v
    for _ in range(n - 1 - i):
        t = "(fst %s)" % t
    if i > 0:
        t = "(snd %s)" % t
    return t


def _fail(msg):
    raise TranslateError(msg)


def _sha(s):
    return hashlib.sha256(s.encode()).hexdigest()[:12]


def _load(t):
    n = ast.parse(ast.unparse(t), mode="eval").body
    return n


def _assigns_any(st, names):
    for n in ast.walk(st):
        if isinstance(n, ast.Name) and isinstance(n.ctx, ast.Store) and n.id in names:
            return True
    return False


def _flatten_to(body, cname):
    """statements of the method up to the closure definition (top level only)"""
    return body


def _names_loaded(node):
    return {n.id for n in ast.walk(node) if isinstance(n, ast.Name) and
            isinstance(n.ctx, ast.Load)}


def _needed(prefix, target, given):
    """backward slice of prefix statements needed by the closure body"""
    need = _names_loaded(target) - {a.arg for a in target.args.args}
    keep = []
    for st in reversed(prefix):
        if isinstance(st, ast.FunctionDef):
            if st.name in need:
                keep.append(st)
                need |= _names_loaded(st)
            continue
        stored = {n.id for n in ast.walk(st) if isinstance(n, ast.Name) and
                  isinstance(n.ctx, ast.Store)}
        if stored & need:
            keep.append(st)
            need |= _names_loaded(st)
        elif isinstance(st, (ast.Assert,)):
            continue
    keep.reverse()
    return keep


def _mentions_word(text, w):
    import re
    return re.search(r"(?<![\w'])%s(?![\w'])" % re.escape(w), text) is not None


COQ_PRELUDE = """From Coq Require Import Reals.
From WG Require Import Lib.NumpySem.
Local Open Scope R_scope.
"""
