"""Generated model of the pressure integral of WallGo.EOM (property C09).

Two pieces are regenerated from src/WallGo/equationOfMotion.py on every run:

1. `wallProfile` -- the tanh ansatz and its z-derivative, scalarised PER FIELD (numpy
   broadcasting is elementwise: entry [k, i] of the result depends on z[k] and on the
   i-th vev / width / offset only; the correspondence check compares the scalar model with
   the real array code on multi-field inputs) and handed to the pyrx translator.

2. the DEF-USE SLICE of `_intermediatePressureResults` that produces the returned
   pressure: a small fail-closed symbolic executor walks the straight-line body, gives
   every (re)definition of `wallParams` and every possible mutation of `self.grid` a
   VERSION number, and emits the integrand handed to `Polynomial.integrate` as a Coq
   term in which each use of the wall parameters / of the grid carries the version that
   reaches it.  Props/C09.v proves that this term is  dV/dphi(profile) . d(profile)/dz .
   (-dz/dchi)  for ONE wall (the returned one) and ONE grid -- which is false as soon
   as the gradient comes from another version than the fields.

Anything outside the recognised forms raises pyrx.TranslateError (reported as a broken tie).
"""
from __future__ import annotations

import ast
import copy

import pyrx
from pyrx import TranslateError

WALLPROFILE_PARAMS = ["self", "z", "vevLowT", "vevHighT", "wallParams"]


# ---------------------------------------------------------------------------------------
# 1. wallProfile, per field

class _Scalarise(ast.NodeTransformer):
    """numpy-array idioms of wallProfile -> the scalar computation of one entry"""

    def visit_Subscript(self, node):
        self.generic_visit(node)
        sl = node.slice
        if isinstance(sl, ast.Tuple) and len(sl.elts) == 2:
            kinds = []
            for e in sl.elts:
                if isinstance(e, ast.Slice) and e.lower is None and e.upper is None \
                        and e.step is None:
                    kinds.append("all")
                elif isinstance(e, ast.Constant) and e.value is None:
                    kinds.append("new")
                else:
                    kinds.append("?")
            if sorted(kinds) == ["all", "new"]:
                return node.value          # x[:, None] / x[None, :] : broadcasting only
        return node

    def visit_Attribute(self, node):
        self.generic_visit(node)
        if isinstance(node.value, ast.Name) and node.value.id == "wallParams":
            if node.attr == "widths":
                return ast.copy_location(ast.Name("width", node.ctx), node)
            if node.attr == "offsets":
                return ast.copy_location(ast.Name("offset", node.ctx), node)
            raise TranslateError("wallProfile uses wallParams.%s (line %d)" % (
                node.attr, node.lineno))
        return node

    def visit_Call(self, node):
        self.generic_visit(node)
        if ast.unparse(node.func) == "Fields.castFromNumpy" and len(node.args) == 1 \
                and not node.keywords:
            return node.args[0]
        return node

    def _stmts(self, body):
        out = []
        for st in body:
            r = self.visit(st)
            if isinstance(r, list):
                out.extend(r)
            elif r is not None:
                out.append(r)
        return out

    def visit_With(self, node):
        ok = all(ast.unparse(it.context_expr) == "warnings.catch_warnings()" and
                 it.optional_vars is None for it in node.items)
        if not ok:
            raise TranslateError("with-statement %s (line %d)" % (
                ast.unparse(node.items[0].context_expr), node.lineno))
        return self._stmts(node.body)

    def visit_If(self, node):
        t = ast.unparse(node.test)
        if t.startswith("np.isscalar("):
            a = self._stmts(node.body)
            b = self._stmts(node.orelse)
            da = [ast.dump(x) for x in a]
            db = [ast.dump(x) for x in b]
            if da != db:
                raise TranslateError(
                    "scalar and array branch of `if %s` differ after removing the "
                    "broadcasting indices (line %d)" % (t, node.lineno))
            return a
        self.generic_visit(node)
        return node


def scalarised_wallprofile(src):
    tree = ast.parse(src)
    fn = None
    for n in tree.body:
        if isinstance(n, ast.ClassDef) and n.name == "EOM":
            for f in n.body:
                if isinstance(f, ast.FunctionDef) and f.name == "wallProfile":
                    fn = f
    if fn is None:
        raise TranslateError("EOM.wallProfile not found")
    actual = [a.arg for a in fn.args.args]
    if len(actual) != len(WALLPROFILE_PARAMS) or actual[0] != "self" or fn.args.vararg or \
            fn.args.kwarg or fn.args.kwonlyargs:
        raise TranslateError("wallProfile signature changed: %s" % actual)
    if actual != WALLPROFILE_PARAMS:
        # parameters are identified by position; rename them to the canonical names
        ren = dict(zip(actual, WALLPROFILE_PARAMS))
        clash = {n.id for n in ast.walk(fn) if isinstance(n, ast.Name)} & \
            (set(WALLPROFILE_PARAMS) - set(actual))
        if clash:
            raise TranslateError("wallProfile: local names %s clash with canonical "
                                 "parameter names" % sorted(clash))
        fn = copy.deepcopy(fn)
        for n in ast.walk(fn):
            if isinstance(n, ast.Name) and n.id in ren:
                n.id = ren[n.id]
            if isinstance(n, ast.arg) and n.arg in ren:
                n.arg = ren[n.arg]
    span = (fn.lineno, fn.end_lineno, pyrx._sha(ast.unparse(fn)))
    fn2 = copy.deepcopy(fn)
    sc = _Scalarise()
    fn2.body = sc._stmts(fn2.body)
    if fn2.body and isinstance(fn2.body[0], ast.Expr) and \
            isinstance(fn2.body[0].value, ast.Constant):
        fn2.body = fn2.body[1:]
    fn2.args.args = [ast.arg(a) for a in ["self", "z", "vevLowT", "vevHighT", "width",
                                          "offset"]]
    fn2.returns = None
    fn2.decorator_list = []
    for n in ast.walk(fn2):
        if isinstance(n, ast.Name) and n.id == "wallParams":
            raise TranslateError("wallProfile uses wallParams other than .widths/.offsets")
    cls = ast.ClassDef(name="EOM", bases=[], keywords=[], body=[fn2], decorator_list=[])
    mod = ast.Module(body=[cls], type_ignores=[])
    ast.fix_missing_locations(mod)
    return ast.unparse(mod), span


# ---------------------------------------------------------------------------------------
# 1b. _updateGrid for a fixed number of fields: np.max / np.min over the field axis become
#     max / min of the per-field expressions; the arguments handed to
#     grid.changePositionFalloffScale are the result

UG_ATTRS = ["meanFreePathScale", "includeOffEq"]
UG_EXT = [pyrx.Pattern("self.grid.smoothing", "smoothing", "R"),
          pyrx.Pattern("self.grid.ratioPointsWall", "ratioPointsWall", "R")]


class _PerField(ast.NodeTransformer):
    def __init__(self, arrays, i):
        self.arrays, self.i = arrays, i

    def visit_Name(self, node):
        if node.id in self.arrays:
            return ast.copy_location(ast.Name("%s%d" % (self.arrays[node.id], self.i),
                                              ast.Load()), node)
        return node


class _Reduce(ast.NodeTransformer):
    """np.max(E) / np.min(E) over arrays of per-field values -> nested max / min"""

    def __init__(self, arrays, nf):
        self.arrays, self.nf = arrays, nf

    def visit_Call(self, node):
        f = ast.unparse(node.func)
        if f in ("np.max", "np.min", "np.amax", "np.amin") and len(node.args) == 1 \
                and not node.keywords:
            used = {n.id for n in ast.walk(node.args[0]) if isinstance(n, ast.Name)}
            if not used & set(self.arrays):
                raise TranslateError("%s over a non-field expression (line %d)" % (
                    f, node.lineno))
            parts = [_PerField(self.arrays, i).visit(copy.deepcopy(node.args[0]))
                     for i in range(self.nf)]
            acc = parts[0]
            for p in parts[1:]:
                acc = ast.Call(func=ast.Name("max" if "max" in f else "min", ast.Load()),
                               args=[acc, p], keywords=[])
            return ast.copy_location(acc, node)
        self.generic_visit(node)
        return node


def scalarised_updategrid(src, nf):
    tree = ast.parse(src)
    fn = None
    for n in tree.body:
        if isinstance(n, ast.ClassDef) and n.name == "EOM":
            for f in n.body:
                if isinstance(f, ast.FunctionDef) and f.name == "_updateGrid":
                    fn = f
    if fn is None:
        raise TranslateError("EOM._updateGrid not found")
    if [a.arg for a in fn.args.args] != ["self", "wallParams", "velocityMid"]:
        raise TranslateError("_updateGrid parameters changed")
    span = (fn.lineno, fn.end_lineno, pyrx._sha(ast.unparse(fn)))
    arrays = {}
    body = []
    stmts = [st for st in fn.body]
    for k, st in enumerate(stmts):
        if isinstance(st, ast.Assign) and len(st.targets) == 1 and \
                isinstance(st.targets[0], ast.Name) and \
                ast.unparse(st.value) in ("wallParams.widths", "wallParams.offsets"):
            arrays[st.targets[0].id] = "width" if st.value.attr == "widths" else "offset"
            continue
        if isinstance(st, ast.Assign) and len(st.targets) == 1 and \
                isinstance(st.targets[0], ast.Name) and st.targets[0].id in arrays:
            raise TranslateError("%s reassigned in _updateGrid" % st.targets[0].id)
        if k == len(stmts) - 1:
            if not (isinstance(st, ast.Expr) and isinstance(st.value, ast.Call) and
                    ast.unparse(st.value.func) == "self.grid.changePositionFalloffScale"
                    and len(st.value.args) == 4 and not st.value.keywords):
                raise TranslateError("_updateGrid does not end with "
                                     "grid.changePositionFalloffScale(4 arguments)")
            st = ast.Return(value=ast.Tuple(elts=list(st.value.args), ctx=ast.Load()))
        st = _Reduce(arrays, nf).visit(copy.deepcopy(st))
        for n in ast.walk(st):
            if isinstance(n, ast.Name) and (n.id in arrays or n.id == "wallParams"):
                raise TranslateError("field array %s used outside np.max/np.min in "
                                     "_updateGrid (line %d)" % (n.id, n.lineno))
        body.append(st)
    args = ["self"]
    for i in range(nf):
        args += ["width%d" % i, "offset%d" % i]
    args.append("velocityMid")
    fn2 = ast.FunctionDef(name="_updateGrid", args=ast.arguments(
        posonlyargs=[], args=[ast.arg(a) for a in args], kwonlyargs=[], kw_defaults=[],
        defaults=[]), body=body, decorator_list=[])
    cls = ast.ClassDef(name="EOM", bases=[], keywords=[], body=[fn2], decorator_list=[])
    mod = ast.Module(body=[cls], type_ignores=[])
    ast.fix_missing_locations(mod)
    return ast.unparse(mod), span


def updategrid_defs(src):
    out, span, hdr = [], None, None
    for nf in (1, 2):
        ssrc, span = scalarised_updategrid(src, nf)
        tr = pyrx.ClassTranslator(ssrc, "EOM", UG_ATTRS, UG_EXT, [], state=False,
                                  prefix="ug_")
        d = tr.method("_updateGrid", coq_name="updateGrid%d" % nf)
        if hdr is None:
            hdr = tr.header()
        out.append(d)
    return hdr + "\n" + "\n".join(out), span


# ---------------------------------------------------------------------------------------
# 2. the slice of _intermediatePressureResults that makes the pressure

GRID_READERS = {"getCompactificationDerivatives", "getCompactCoordinates",
                "getCoordinates"}
GRID_PURE_METHODS = {"wallProfile", "_toWallParams", "findPlasmaProfile", "action"}


class _Lazy:
    def __init__(self, expr, idx, val, ver, line):
        self.expr, self.idx, self.val, self.ver, self.line = expr, idx, val, ver, line
        self.memo = None


class PressureSlice:
    METHOD = "_intermediatePressureResults"

    def __init__(self, src):
        tree = ast.parse(src)
        self.fn = None
        for n in tree.body:
            if isinstance(n, ast.ClassDef) and n.name == "EOM":
                for f in n.body:
                    if isinstance(f, ast.FunctionDef) and f.name == self.METHOD:
                        self.fn = f
                        self.cls = n
        if self.fn is None:
            raise TranslateError("EOM.%s not found" % self.METHOD)
        self.aliases, self.alias_text = {}, {}
        self.check_pure_methods(self.cls)
        self.params = [a.arg for a in self.fn.args.args]
        for need in ("wallParams", "vevLowT", "vevHighT", "boltzmannResults"):
            if need not in self.params:
                raise TranslateError("%s has no parameter %s" % (self.METHOD, need))
        self.fresh = 0
        self.aliases, self.alias_text = {}, {}
        self.wall_versions = {0: "value passed by the caller"}
        self.grid_versions = {0: "grid on entry"}
        self.facts = []
        self.run()

    # -- helpers ---------------------------------------------------------------------
    # -- aliases and in-place updates (fail closed) -------------------------------------------
    @staticmethod
    def chain_root(node):
        """root Name of a pure Name/Attribute/Subscript chain, else None"""
        n = node
        while isinstance(n, (ast.Attribute, ast.Subscript)):
            n = n.value
        return n.id if isinstance(n, ast.Name) else None

    @staticmethod
    def is_pure_chain(node):
        n = node
        while isinstance(n, (ast.Attribute, ast.Subscript)):
            n = n.value
        return isinstance(n, ast.Name)

    def kind_of(self, node):
        """which tracked object a pure chain denotes: grid / solver / self / wp / br / None"""
        if not self.is_pure_chain(node):
            return None
        u = ast.unparse(node)
        root = self.chain_root(node)
        if root == "self":
            if u == "self":
                return "self"
            if u == "self.grid":
                return "grid"
            if u == "self.boltzmannSolver" or u.startswith("self.boltzmannSolver."):
                return "solver"
            return None
        if root == "wallParams":
            return "wp" if u == "wallParams" else None
        if root == "boltzmannResults":
            return "br"
        k = self.aliases.get(root)
        if k in ("grid", "self") and u != root:
            return None                  # an attribute of the grid (an array), not the grid
        return k

    def register_aliases(self, st):
        for n in ast.walk(st):
            if isinstance(n, ast.Assign) and len(n.targets) == 1 and \
                    isinstance(n.targets[0], ast.Name):
                k = self.kind_of(n.value)
                name = n.targets[0].id
                if k == "wp" and name != "wallParams":
                    raise TranslateError("alias %s of the wall parameters (line %d)" % (
                        name, n.lineno))
                if k and name not in ("wallParams", "boltzmannResults"):
                    self.aliases[name] = k
                    self.alias_text[name] = {"grid": "self.grid", "self": "self",
                                             "solver": "self.boltzmannSolver"}.get(k, name)

    def in_place_hazards(self, st, val, ver):
        """stores through subscripts / attributes, out= keywords and calls that receive a
        tracked object: the object may change in place, so it gets a new version (wall
        parameters), becomes opaque (locals of the slice) or the translation fails closed
        (Boltzmann results)"""
        bump_wall = False
        opaque = []
        for n in ast.walk(st):
            tgs = []
            if isinstance(n, ast.Assign):
                tgs = n.targets
            elif isinstance(n, (ast.AugAssign, ast.AnnAssign)):
                tgs = [n.target]
            for t in tgs:
                for tt in ([t] if not isinstance(t, (ast.Tuple, ast.List)) else t.elts):
                    if isinstance(tt, ast.Name):
                        continue
                    root = self.chain_root(tt)
                    kind = self.aliases.get(root) or {"wallParams": "wp",
                                                      "boltzmannResults": "br"}.get(root)
                    if kind == "br":
                        raise TranslateError("in-place update of the Boltzmann results: %s "
                                             "(line %d)" % (ast.unparse(tt)[:60], n.lineno))
                    if kind == "wp" and not (isinstance(tt, ast.Attribute) and n in
                                             getattr(self.fn, "body", [])):
                        bump_wall = True       # (top-level wallParams.x = ... is versioned below)
                    if kind is None and root is not None and root != "self":
                        opaque.append(root)
            if isinstance(n, ast.Call):
                f = ast.unparse(n.func)
                for k in n.keywords:
                    if k.arg == "out":
                        root = self.chain_root(k.value)
                        kind = self.aliases.get(root) or {"wallParams": "wp",
                                                          "boltzmannResults": "br"}.get(root)
                        if kind == "br":
                            raise TranslateError("out=%s (line %d)" % (root, n.lineno))
                        if kind == "wp":
                            bump_wall = True
                        elif root:
                            opaque.append(root)
                for a in list(n.args) + [k.value for k in n.keywords]:
                    if not isinstance(a, ast.Name):
                        continue
                    kind = self.aliases.get(a.id) or {"wallParams": "wp",
                                                      "boltzmannResults": "br"}.get(a.id)
                    if kind == "wp" and f != "self.wallProfile":
                        bump_wall = True
                    if kind == "br" and not (f.startswith("self.") and
                                             f.split(".")[1] in GRID_PURE_METHODS):
                        raise TranslateError("Boltzmann results handed to %s, which may "
                                             "update them in place (line %d)" % (f, n.lineno))
        if opaque:
            val = dict(val)
            for r in opaque:
                if r in val:
                    val[r] = ("opaque", r)
        if bump_wall:
            ver = dict(ver)
            ver["wall"] += 1
            self.wall_versions[ver["wall"]] = "possible in-place change, line %d: %s" % (
                st.lineno, " ".join(ast.unparse(st).split())[:60])
            val = dict(val)
            val["wallParams"] = ("wp", ver["wall"])
        return val, ver

    def new_br(self, st):
        k = max(self.br_versions) + 1
        self.br_versions[k] = "line %d: %s" % (st.lineno,
                                               " ".join(ast.unparse(st).split())[:70])
        return k

    @staticmethod
    def stores_br(node):
        for n in ast.walk(node):
            if isinstance(n, ast.Name) and isinstance(n.ctx, ast.Store) and \
                    n.id == "boltzmannResults":
                return True
            if isinstance(n, ast.Attribute) and isinstance(n.ctx, ast.Store) and \
                    ast.unparse(n).startswith("boltzmannResults"):
                return True
        return False

    def binder(self):
        self.fresh += 1
        return "j%d" % self.fresh

    def grid_mutations(self, node, pure=None):
        """number of possible mutations of self.grid inside `node`.  FAIL CLOSED: every
        call through `self` is a possible re-mapping of the grid unless it is a known
        reader of the grid, one of the methods of EOM known not to touch the grid
        (GRID_PURE_METHODS: their bodies are checked by `check_pure_methods`), or goes
        to self.thermo (which does not hold the grid).  self.boltzmannSolver shares the grid
        object, so its calls count.  Handing `self` or `self.grid` to anything but the
        Polynomial constructor counts as well."""
        n = 0
        pure = GRID_PURE_METHODS if pure is None else pure
        for c in ast.walk(node):
            if isinstance(c, ast.Call):
                f = ast.unparse(c.func)
                parts = f.split(".")
                if parts[0] in self.aliases and self.aliases[parts[0]] in ("grid", "solver",
                                                                          "self"):
                    parts = self.alias_text[parts[0]].split(".") + parts[1:]
                    if len(parts) == 2 and parts[1] == "boltzmannSolver":
                        parts = parts + ["__call__"]
                if parts[0] == "self" and len(parts) >= 2:
                    if parts[1] == "grid":
                        if not (len(parts) == 3 and parts[2] in GRID_READERS):
                            n += 1
                    elif len(parts) == 2:
                        if parts[1] not in pure:
                            n += 1
                    elif parts[1] == "thermo":
                        pass
                    else:
                        n += 1
                args = list(c.args) + [k.value for k in c.keywords]
                for a in args:
                    ua = ast.unparse(a)
                    if isinstance(a, ast.Name) and self.aliases.get(a.id) in ("grid", "self",
                                                                             "solver"):
                        ua = self.alias_text[a.id]
                    if ua in ("self", "self.boltzmannSolver") or \
                            (ua == "self.grid" and f != "Polynomial"):
                        n += 1
            if isinstance(c, (ast.Assign, ast.AugAssign, ast.AnnAssign)):
                tgs = c.targets if isinstance(c, ast.Assign) else [c.target]
                for t in tgs:
                    for tt in ast.walk(t):
                        if isinstance(tt, ast.Attribute) and isinstance(tt.ctx, ast.Store):
                            if ast.unparse(tt).startswith("self.grid"):
                                n += 1
        return n

    def check_pure_methods(self, cls):
        """the allow-listed methods must themselves be free of grid mutations (same rule,
        one level deep: inside them only readers, other allow-listed methods, self.thermo
        and the helper methods they call -- which are checked recursively)"""
        fns = {f.name: f for f in cls.body if isinstance(f, ast.FunctionDef)}
        seen, todo = set(), [m for m in GRID_PURE_METHODS if m in fns]
        while todo:
            m = todo.pop()
            if m in seen:
                continue
            seen.add(m)
            for c in ast.walk(fns[m]):
                if isinstance(c, ast.Call):
                    parts = ast.unparse(c.func).split(".")
                    if parts[0] == "self" and len(parts) == 2 and parts[1] in fns and \
                            parts[1] not in GRID_PURE_METHODS:
                        if parts[1] == "_updateGrid":
                            raise TranslateError("%s calls self._updateGrid" % m)
                        todo.append(parts[1])
            # calls to other methods of EOM are followed (todo), not counted
            k = self.grid_mutations(fns[m], pure=set(fns) - {"_updateGrid"})
            if k:
                raise TranslateError("EOM.%s (assumed not to touch the grid) may re-map "
                                     "self.grid" % m)

    # -- the walk ----------------------------------------------------------------------
    def run(self):
        val = {}
        for p in self.params:
            val[p] = ("param", p)
        val["wallParams"] = ("wp", 0)
        val["vevLowT"] = ("vev", "lo")
        val["vevHighT"] = ("vev", "hi")
        # Boltzmann results carry a version as well: 0 = the object passed by the caller
        val["boltzmannResults"] = ("br", "0%nat")
        self.br_versions = {0: "value passed by the caller"}
        self.guards = []
        ver = {"wall": 0, "grid": 0}
        self.result = None
        for st in self.fn.body:
            if self.result is not None:
                raise TranslateError("statements after the return (line %d)" % st.lineno)
            if isinstance(st, ast.Expr) and isinstance(st.value, ast.Constant):
                continue
            self.register_aliases(st)
            val, ver = self.in_place_hazards(st, val, ver)
            g = self.grid_mutations(st)
            if g:
                ver = dict(ver)
                ver["grid"] += 1
                self.grid_versions[ver["grid"]] = "after line %d: %s" % (
                    st.lineno, ast.unparse(st).splitlines()[0][:60])
            if isinstance(st, ast.AnnAssign) and st.value is None:
                continue
            if isinstance(st, (ast.Assign, ast.AnnAssign, ast.AugAssign)):
                if isinstance(st, ast.Assign):
                    if len(st.targets) != 1:
                        raise TranslateError("chained assignment (line %d)" % st.lineno)
                    tg, value = st.targets[0], st.value
                elif isinstance(st, ast.AnnAssign):
                    tg, value = st.target, st.value
                else:
                    tg = st.target
                    value = ast.BinOp(left=pyrx._load(st.target), op=st.op, right=st.value)
                    ast.copy_location(value, st)
                    ast.fix_missing_locations(value)
                before = val            # environment in which the right-hand side is evaluated
                val = dict(val)
                if isinstance(tg, ast.Attribute):
                    base = tg.value
                    if isinstance(base, ast.Name) and base.id == "wallParams":
                        ver = dict(ver)
                        ver["wall"] += 1
                        self.wall_versions[ver["wall"]] = "line %d: %s = ..." % (
                            st.lineno, ast.unparse(tg))
                        val["wallParams"] = ("wp", ver["wall"])
                        continue
                    raise TranslateError("store to %s (line %d)" % (ast.unparse(tg),
                                                                    st.lineno))
                if isinstance(tg, ast.Name):
                    if tg.id == "wallParams":
                        ver = dict(ver)
                        ver["wall"] += 1
                        self.wall_versions[ver["wall"]] = "line %d: wallParams = %s" % (
                            st.lineno, " ".join(ast.unparse(value).split())[:70])
                        val["wallParams"] = ("wp", ver["wall"])
                        continue
                    if tg.id in ("vevLowT", "vevHighT"):
                        raise TranslateError("%s reassigned (line %d)" % (tg.id, st.lineno))
                    if tg.id == "boltzmannResults":
                        val[tg.id] = ("br", "%d%%nat" % self.new_br(st))
                        continue
                    val[tg.id] = _Lazy(value, None, before, ver, st.lineno)
                    continue
                if isinstance(tg, (ast.Tuple, ast.List)):
                    lz = {}
                    for k, e in enumerate(tg.elts):
                        if not isinstance(e, ast.Name) or e.id in ("wallParams", "vevLowT",
                                                                   "vevHighT",
                                                                   "boltzmannResults"):
                            raise TranslateError("unpack target %s (line %d)" % (
                                ast.unparse(e), st.lineno))
                        lz[e.id] = _Lazy(value, k, before, ver, st.lineno)
                    val.update(lz)
                    continue
                raise TranslateError("assignment target %s (line %d)" % (
                    ast.unparse(tg), st.lineno))
            if isinstance(st, ast.If) and self.stores_br(st):
                # the ONLY place where the Boltzmann results may change is the solve guarded
                # by `if self.includeOffEq:` (premise of the property: with includeOffEq off
                # the out-of-equilibrium contributions are the ones passed in)
                guard = ast.unparse(st.test)
                if guard != "self.includeOffEq" or st.orelse:
                    raise TranslateError(
                        "boltzmannResults is updated under the guard `%s`%s; the model of the "
                        "premise 'no out-of-equilibrium contribution' needs `if "
                        "self.includeOffEq:` without else (line %d)" % (
                            guard, " with an else branch" if st.orelse else "", st.lineno))
                new = None
                for b in st.body:
                    if isinstance(b, ast.Expr):
                        continue
                    if isinstance(b, ast.Assign) and len(b.targets) == 1 and \
                            isinstance(b.targets[0], ast.Name) and \
                            b.targets[0].id == "boltzmannResults":
                        new = self.new_br(b)
                        continue
                    raise TranslateError("statement under `if self.includeOffEq:` is neither "
                                         "a call nor boltzmannResults = ... (line %d)" % b.lineno)
                val = dict(val)
                prev = val["boltzmannResults"][1]
                val["boltzmannResults"] = ("br", "(if includeOffEq e then %d%%nat else %s)" % (
                    new, prev))
                self.guards.append(dict(line=st.lineno, guard=guard, version=new))
                continue
            if isinstance(st, (ast.If, ast.For, ast.While, ast.With, ast.Try)):
                if self.stores_br(st):
                    raise TranslateError("boltzmannResults assigned under control flow other "
                                         "than `if self.includeOffEq:` (line %d)" % st.lineno)
                val = dict(val)
                for n in ast.walk(st):
                    if isinstance(n, ast.Name) and isinstance(n.ctx, ast.Store):
                        if n.id in ("wallParams", "vevLowT", "vevHighT"):
                            raise TranslateError("%s assigned under control flow (line %d)"
                                                 % (n.id, n.lineno))
                        val[n.id] = ("opaque", n.id)
                    if isinstance(n, ast.Attribute) and isinstance(n.ctx, ast.Store) and \
                            ast.unparse(n).startswith("wallParams"):
                        raise TranslateError("wallParams modified under control flow "
                                             "(line %d)" % n.lineno)
                continue
            if isinstance(st, ast.FunctionDef):
                val = dict(val)
                val[st.name] = ("opaque", st.name)
                continue
            if isinstance(st, ast.Expr):
                continue            # calls for effect: grid mutations were counted above
            if isinstance(st, ast.Return):
                if not isinstance(st.value, ast.Tuple) or len(st.value.elts) < 2:
                    raise TranslateError("return value is not a tuple (line %d)" % st.lineno)
                p = self.ev(st.value.elts[0], val, ver)
                w = self.ev(st.value.elts[1], val, ver)
                if p[0] != "pressure":
                    raise TranslateError("first returned value is not Polynomial.integrate"
                                         "(...) (line %d)" % st.lineno)
                if w[0] != "wp":
                    raise TranslateError("second returned value is not the wall parameters")
                self.result = dict(term=p[1], quad_grid=p[2], wall=w[1], grid=ver["grid"])
                continue
            raise TranslateError("statement %s (line %d)" % (type(st).__name__, st.lineno))
        if self.result is None:
            raise TranslateError("%s does not end with a return" % self.METHOD)

    # -- symbolic evaluation of the expressions in the slice -----------------------------
    def ev(self, node, val, ver):
        if isinstance(node, ast.Name):
            if node.id not in val:
                raise TranslateError("unbound name %s (line %d)" % (node.id, node.lineno))
            v = val[node.id]
            if isinstance(v, _Lazy):
                if v.memo is None:
                    r = self.ev(v.expr, v.val, v.ver)
                    if v.idx is not None:
                        if r[0] not in ("tuple",):
                            raise TranslateError("cannot unpack %s (line %d)" % (
                                ast.unparse(v.expr)[:50], v.line))
                        if v.idx >= len(r[1]):
                            raise TranslateError("unpack index (line %d)" % v.line)
                        r = r[1][v.idx]
                    v.memo = r
                return v.memo
            return v
        c = pyrx.const_value(node)
        if c is not None:
            return ("const", pyrx.rlit(c))
        if isinstance(node, ast.UnaryOp) and isinstance(node.op, ast.USub):
            a = self.ev(node.operand, val, ver)
            if a[0] == "pp":
                return ("pp", "(- %s)" % a[1])
            if a[0] == "pf":
                f = a[1]
                return ("pf", lambda i, f=f: "(- %s)" % f(i))
            raise TranslateError("negation of %s (line %d)" % (a[0], node.lineno))
        if isinstance(node, ast.BinOp):
            op = {ast.Add: "+", ast.Sub: "-", ast.Mult: "*", ast.Div: "/"}.get(type(node.op))
            if op is None:
                raise TranslateError("operator (line %d)" % node.lineno)
            a = self.ev(node.left, val, ver)
            b = self.ev(node.right, val, ver)
            return self.arith(op, a, b, node)
        if isinstance(node, ast.Subscript):
            c = pyrx.const_value(node.slice)
            a = self.ev(node.value, val, ver)
            if a[0] == "tuple" and c is not None and c.denominator == 1 and \
                    0 <= int(c) < len(a[1]):
                return a[1][int(c)]
            raise TranslateError("subscript %s (line %d)" % (ast.unparse(node)[:50],
                                                              node.lineno))
        if isinstance(node, ast.Attribute):
            if ast.unparse(node) == "self.grid":
                return ("gridobj",)
            if ast.unparse(node.value) == "self":
                raise TranslateError("attribute %s in the pressure slice (line %d)" % (
                    ast.unparse(node)[:50], node.lineno))
            a = self.ev(node.value, val, ver)
            if a[0] == "br":
                return a           # a component of the Boltzmann results: same version
            if a[0] == "gridobj" and node.attr == "xiValues":
                return ("xi", ver["grid"])     # the array of positions of THIS grid version
            raise TranslateError("attribute %s in the pressure slice (line %d)" % (
                ast.unparse(node)[:50], node.lineno))
        if isinstance(node, ast.Call):
            return self.call(node, val, ver)
        raise TranslateError("expression %s in the pressure slice (line %d)" % (
            ast.unparse(node)[:50], node.lineno))

    def ev_is_grid(self, node, val, ver):
        try:
            return self.ev(node, val, ver)[0] == "gridobj"
        except TranslateError:
            return False

    def arith(self, op, a, b, node):
        kinds = (a[0], b[0])
        if kinds == ("pf", "pf"):
            f, g = a[1], b[1]
            return ("pf", lambda i: "(%s %s %s)" % (f(i), op, g(i)))
        if kinds == ("pf", "const"):
            f = a[1]
            return ("pf", lambda i: "(%s %s %s)" % (f(i), op, b[1]))
        if kinds == ("const", "pf"):
            g = b[1]
            return ("pf", lambda i: "(%s %s %s)" % (a[1], op, g(i)))
        if kinds in (("pp", "pp"), ("pp", "const"), ("const", "pp")):
            return ("pp", "(%s %s %s)" % (a[1], op, b[1]))
        raise TranslateError("arithmetic between %s and %s (line %d)" % (
            a[0], b[0], node.lineno))

    def call(self, node, val, ver):
        f = ast.unparse(node.func)
        kw = {k.arg: k.value for k in node.keywords}
        if f == "self.wallProfile":
            if len(node.args) != 4 or kw:
                raise TranslateError("wallProfile call shape (line %d)" % node.lineno)
            try:
                pos = self.ev(node.args[0], val, ver)
            except TranslateError:
                pos = ("?",)
            if pos[0] != "xi":
                raise TranslateError("wallProfile evaluated on %s, not on the grid "
                                     "(line %d)" % (ast.unparse(node.args[0]), node.lineno))
            lo = self.ev(node.args[1], val, ver)
            hi = self.ev(node.args[2], val, ver)
            wp = self.ev(node.args[3], val, ver)
            if lo != ("vev", "lo") or hi != ("vev", "hi") or wp[0] != "wp":
                raise TranslateError("wallProfile arguments (line %d)" % node.lineno)
            z = "(xi e %d%%nat c)" % pos[1]
            v = wp[1]
            fact = dict(line=node.lineno, wall_version=v, grid_version=pos[1])
            if fact not in self.facts:
                self.facts.append(fact)

            def mk(proj):
                return lambda i: ("(%s (wallProfile pe %s (lo %s) (hi %s) (wid %d%%nat %s) "
                                  "(off %d%%nat %s)))" % (proj, z, i, i, v, i, v, i))
            return ("tuple", [("pf", mk("fst")), ("pf", mk("snd"))])
        if f == "self.thermo.effectivePotential.derivField":
            if len(node.args) != 2 or kw:
                raise TranslateError("derivField call shape (line %d)" % node.lineno)
            F = self.ev(node.args[0], val, ver)
            T = self.ev(node.args[1], val, ver)
            if F[0] != "pf" or T != ("opaque", "temperatureProfile"):
                raise TranslateError("derivField arguments (line %d)" % node.lineno)
            j = self.binder()
            Fj = F[1](j)
            return ("pf", lambda i: "(dVdPhi e (fun %s : nat => %s) (Tprof e c) %s)" % (
                j, Fj, i))
        if f in ("np.array", "np.asarray") and len(node.args) == 1:
            return self.ev(node.args[0], val, ver)
        if f == "np.sum" and len(node.args) in (1, 2):
            ax = pyrx.const_value(kw.get("axis")) if "axis" in kw else (
                pyrx.const_value(node.args[1]) if len(node.args) == 2 else None)
            arg = node.args[0]
            if isinstance(arg, ast.ListComp):
                if ax != 0 or len(arg.generators) != 1:
                    raise TranslateError("sum over a comprehension (line %d)" % node.lineno)
                it = ast.unparse(arg.generators[0].iter)
                if it not in ("enumerate(self.particles)", "self.particles"):
                    raise TranslateError("comprehension over %s (line %d)" % (
                        it, node.lineno))
                bound = {n.id for n in ast.walk(arg.generators[0].target)
                         if isinstance(n, ast.Name)}
                terms, brs = {}, set()
                for n in ast.walk(arg.elt):
                    if isinstance(n, ast.Name) and n.id not in bound and n.id != "self":
                        r = self.ev(n, val, ver)
                        if r[0] == "pf":
                            terms[r[1]("#")] = r
                        elif r[0] == "br":
                            brs.add(r[1])
                        else:
                            raise TranslateError("%s in the out-of-equilibrium sum "
                                                 "(line %d)" % (n.id, node.lineno))
                if len(terms) != 1 or len(brs) != 1:
                    raise TranslateError("out-of-equilibrium sum uses %d field profiles and "
                                         "%d Boltzmann results (line %d)" % (
                                             len(terms), len(brs), node.lineno))
                F = list(terms.values())[0]
                b = list(brs)[0]
                j = self.binder()
                Fj = F[1](j)
                return ("pf", lambda i: "(offEq e %s (fun %s : nat => %s) c %s)" % (
                    b, j, Fj, i))
            a = self.ev(arg, val, ver)
            if a[0] == "pf" and ax == 1:
                j = self.binder()
                return ("pp", "(fieldSum e (fun %s : nat => %s))" % (j, a[1](j)))
            raise TranslateError("np.sum(%s, axis=%s) (line %d)" % (a[0], ax, node.lineno))
        if f == "Polynomial" and len(node.args) == 2 and not kw:
            a = self.ev(node.args[0], val, ver)
            try:
                gobj = self.ev(node.args[1], val, ver)
            except TranslateError:
                gobj = ("?",)
            if a[0] != "pp" or gobj[0] != "gridobj":
                raise TranslateError("Polynomial(...) arguments (line %d)" % node.lineno)
            return ("poly", a[1], ver["grid"])
        if isinstance(node.func, ast.Attribute) and \
                node.func.attr == "getCompactificationDerivatives" and not node.args and \
                not kw and self.ev_is_grid(node.func.value, val, ver):
            g = ver["grid"]
            return ("tuple", [("pp", "(dzdchi e %d%%nat c)" % g), ("opaque", "dpzdrz"),
                              ("opaque", "dppdrp")])
        if isinstance(node.func, ast.Attribute) and node.func.attr == "integrate":
            p = self.ev(node.func.value, val, ver)
            if p[0] != "poly" or node.args or set(kw) != {"weight"}:
                raise TranslateError("integrate call shape (line %d)" % node.lineno)
            w = self.ev(kw["weight"], val, ver)
            if w[0] != "pp":
                raise TranslateError("integration weight (line %d)" % node.lineno)
            return ("pressure", "(%s * %s)" % (p[1], w[1]), p[2])
        raise TranslateError("call %s in the pressure slice (line %d)" % (f[:50],
                                                                         node.lineno))

    # -- output --------------------------------------------------------------------------
    def coq(self):
        r = self.result
        doc = ["(* Boltzmann-results versions:"] + [
            "     %d : %s" % kv for kv in sorted(self.br_versions.items())] + [
            "   updated only under: %s" % ", ".join(
                "`if %s:` (line %d)" % (g["guard"], g["line"]) for g in self.guards)] + [
            "   wall-parameter versions:"] + [
            "     %d : %s" % kv for kv in sorted(self.wall_versions.items())] + [
            "   grid versions:"] + ["     %d : %s" % kv for kv in
                                    sorted(self.grid_versions.items())] + ["*)"]
        out = doc + [
            "Record penv := mk_penv {",
            "  dVdPhi : (nat -> R) -> R -> nat -> R;   (* effectivePotential.derivField(fields, T)[field i] *)",
            "  includeOffEq : bool;                    (* self.includeOffEq *)",
            "  offEq : nat -> (nat -> R) -> R -> nat -> R; (* out-of-equilibrium term built from Boltzmann-results version b, at grid coordinate c, field i *)",
            "  fieldSum : (nat -> R) -> R;             (* np.sum(..., axis=1): sum over the fields *)",
            "  xi : nat -> R -> R;                     (* grid.xiValues as a function of the compact coordinate, per grid version *)",
            "  dzdchi : nat -> R -> R;                 (* grid.getCompactificationDerivatives()[0] *)",
            "  Tprof : R -> R }.                       (* temperatureProfile *)",
            "Definition pressure_integrand (pe : env) (e : penv) (lo hi : nat -> R) "
            "(wid off : nat -> nat -> R) (c : R) : R :=",
            "  %s." % r["term"],
            "Definition incoming_boltzmann_version : nat := 0%nat.",
            "Definition returned_wall_version : nat := %d%%nat." % r["wall"],
            "Definition final_grid_version : nat := %d%%nat." % r["grid"],
            "Definition quadrature_grid_version : nat := %d%%nat." % r["quad_grid"],
        ]
        return "\n".join(out)


def generate(src):
    """-> (Coq text, info dict)"""
    ssrc, span = scalarised_wallprofile(src)
    tr = pyrx.ClassTranslator(ssrc, "EOM", [], [], [], state=False)
    body = tr.method("wallProfile")
    ug_text, ug_span = updategrid_defs(src)
    sl = PressureSlice(src)
    text = "\n".join([
        pyrx.COQ_PRELUDE,
        "(* generated from src/WallGo/equationOfMotion.py *)",
        "(* EOM.wallProfile, one field (scalarised source:",
        ssrc.replace("(*", "( *").replace("*)", "* )"),
        "*)",
        tr.header(),
        body,
        "",
        "(* EOM._updateGrid for one and for two fields: the four arguments handed to",
        "   grid.changePositionFalloffScale (tailInside, tailOutside, wallThickness, wallCenter) *)",
        ug_text,
        "",
        "(* def-use slice of EOM._intermediatePressureResults that yields the pressure *)",
        sl.coq(), ""])
    spans = {"wallProfile": span, "updateGrid1": ug_span, "updateGrid2": ug_span,
             "pressure_integrand": (sl.fn.lineno, sl.fn.end_lineno,
                                    pyrx._sha(ast.unparse(sl.fn)))}
    info = dict(spans=spans, result=sl.result, wall_versions=sl.wall_versions,
                br_versions=sl.br_versions, guards=sl.guards,
                grid_versions=sl.grid_versions, profile_calls=sl.facts,
                scalarised=ssrc, asserts=tr.asserts)
    return text, info


if __name__ == "__main__":
    import sys
    import vlib
    t, info = generate(vlib.read_src("equationOfMotion.py"))
    sys.stdout.write(t)
    sys.stderr.write(repr({k: v for k, v in info.items() if k != "scalarised"}) + "\n")
