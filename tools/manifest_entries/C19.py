ENTRY = dict(
  text='Coq proof, for the stencil tables and row-selection rule regenerated from helpers.py on every run, that every row differentiates every polynomial of degree <= #points-1 exactly (central rows one degree more), that the Hessian stencil is exact on bivariate total degree 3/5, and that no evaluation point leaves the bounds when the interval is at least as wide as the stencil; the narrow-interval case is refuted by a witness (known finding). The hand-written evaluation-point model is compared exactly (vm_compute) with the implementation on dyadic inputs and the property is also evaluated directly on the implementation for non-dyadic floats and all input shapes.',
  note='Trusted: Coq kernel+vm_compute; tools/gen_helpers.py (AST translator, fail-closed); the correspondence harness. Axioms: ClassicalDedekindReals.sig_forall_dec, FunctionalExtensionality.functional_extensionality_dep (Stdlib Reals). Modelled not verified: binary64 rounding, numpy broadcasting.',
  technique='Coq proof over generated stencil tables (field/lra) + exact vm_compute correspondence',
  design='4/C19',
)
