"""Test models with closed-form phases, shared by several property harnesses."""
from __future__ import annotations

import math

import numpy as np


def quartic1(D=0.2, E=0.05, lam=0.1, T0=80.0, g=100.0, unit=1.0):
    """One-field high-temperature-expansion potential
         V = D (T^2 - T0^2) phi^2 - E T phi^3 + lam/4 phi^4 - g pi^2/90 T^4
    with everything dimensionful multiplied by `unit` (T0 -> unit*T0)."""
    import WallGo
    from WallGo import EffectivePotential, Fields

    T0u = T0 * unit

    class Quartic1(EffectivePotential):
        fieldCount = 1
        effectivePotentialError = 1e-15

        def evaluate(self, fields, temperature):
            fields = Fields(fields)
            phi = fields.getField(0)
            T = np.asarray(temperature)
            return (D * (T ** 2 - T0u ** 2) * phi ** 2 - E * T * phi ** 3
                    + lam / 4 * phi ** 4 - g * math.pi ** 2 / 90 * T ** 4)

    pot = Quartic1()
    pot.params = dict(D=D, E=E, lam=lam, T0=T0u, g=g)
    return pot


def quartic1_exact(D, E, lam, T0, g):
    """closed forms for quartic1 (T0 already in the working units)"""
    T1sq = 8 * lam * D * T0 ** 2 / (8 * lam * D - 9 * E ** 2)
    # degenerate minima: D(T^2-T0^2) = E^2 T^2 / lam
    Tcsq = lam * D * T0 ** 2 / (lam * D - E ** 2)

    def phi_broken(T):
        disc = 9 * E ** 2 * T ** 2 - 8 * lam * D * (T ** 2 - T0 ** 2)
        return (3 * E * T + math.sqrt(disc)) / (2 * lam)

    def V(phi, T):
        return (D * (T ** 2 - T0 ** 2) * phi ** 2 - E * T * phi ** 3 + lam / 4 * phi ** 4
                - g * math.pi ** 2 / 90 * T ** 4)

    return dict(Tspin_sym=T0, Tspin_broken=math.sqrt(T1sq), Tc=math.sqrt(Tcsq),
                phi_broken=phi_broken, V=V)


class StubFreeEnergy:
    """Analytic stand-in for WallGo.FreeEnergy: f(T) = sum_k c_k T^k with exact
    derivatives; reports [TMin, TMax] as its table range."""

    def __init__(self, coeffs, TMin, TMax):
        self.c = [float(c) for c in coeffs]
        self.minPossibleTemperature = [float(TMin), False]
        self.maxPossibleTemperature = [float(TMax), False]

    def poly(self, T, order=0):
        c = list(self.c)
        for _ in range(order):
            c = [k * i for i, k in enumerate(c)][1:]
        r = 0.0
        for k in reversed(c):
            r = r * T + k
        return r

    class _V:
        def __init__(self, v):
            self.veffValue = v
            self.fieldsAtMinimum = None

    def __call__(self, T):
        return self._V(self.poly(np.asarray(T, dtype=float)))

    def derivative(self, T, order=1):
        return self._V(self.poly(np.asarray(T, dtype=float), order))

    def hasInterpolation(self):
        return True


def stub_thermodynamics(cHigh, rngHigh, cLow, rngLow, Tn):
    """A real WallGo.Thermodynamics object whose two FreeEnergy members are analytic
    stubs (its own methods -- p, dp, ..., setExtrapolate -- are the code under test)."""
    from WallGo import Thermodynamics
    th = object.__new__(Thermodynamics)
    th.effectivePotential = None
    th.Tnucl = Tn
    th.phaseLowT = None
    th.phaseHighT = None
    th.freeEnergyHigh = StubFreeEnergy(cHigh, *rngHigh)
    th.freeEnergyLow = StubFreeEnergy(cLow, *rngLow)
    th.TMaxHighT = th.freeEnergyHigh.maxPossibleTemperature[0]
    th.TMinHighT = th.freeEnergyHigh.minPossibleTemperature[0]
    th.TMaxLowT = th.freeEnergyLow.maxPossibleTemperature[0]
    th.TMinLowT = th.freeEnergyLow.minPossibleTemperature[0]
    for nm in ("muMinHighT", "aMinHighT", "epsilonMinHighT", "muMaxHighT", "aMaxHighT",
               "epsilonMaxHighT", "muMinLowT", "aMinLowT", "epsilonMinLowT", "muMaxLowT",
               "aMaxLowT", "epsilonMaxLowT"):
        setattr(th, nm, 0.0)
    return th
